package c07

import (
	"fmt"
	"strings"

	"github.com/corazawaf/coraza/v3/internal/corazawaf"
	"github.com/corazawaf/coraza/v3/internal/seclang"
	"github.com/corazawaf/coraza/v3/verifharness/vh"
)

// Whole configurations of the fragment modelled by NoPanicConfig.v (SecAction / SecRule /
// SecMarker / SecRuleRemoveByMsg with the actions id phase msg logdata tag pass log nolog auditlog
// noauditlog setvar), compiled by the real parser and - kind "run" - driven through the five
// phases of a real transaction; the model is evaluated on the same text.

func (r *runner) fragMacro() string {
	return r.pick([]string{"%{tx.a}", "%{tx.b}", "%{TX.score}", "%{request_method}", "%{REMOTE_ADDR}", "%{request_uri}", "%{tx.nosuch}", "x%{tx.a}y", "%{unknown.x}"})
}

func (r *runner) fragAction(ids *int, runnable bool) string {
	switch r.pickAct() {
	case 0:
		*ids++
		return fmt.Sprintf("id:%d", *ids)
	case 1:
		return "id:" + r.pick([]string{"1", "2", "'7'", "0", "-1", "abc", "", "99999999999999999999", "+5", " 3"})
	case 2:
		return "phase:" + r.pick([]string{"1", "2", "3", "4", "5", "request", "response", "logging", "0", "6", "x", "", "'1'"})
	case 3:
		if !runnable && r.rng.Intn(2) == 0 {
			return r.pick([]string{"deny", "drop", "block", "block", "deny:1"})
		}
		return r.pick([]string{"pass", "log", "nolog", "auditlog", "noauditlog"})
	case 4:
		return r.pick([]string{"pass", "log", "nolog"}) + r.pick([]string{":1", ":", ":''"})
	case 5:
		return "msg:" + r.pick([]string{"'plain'", "plain", "'a," + r.fragMacro() + "'", "'" + r.fragMacro() + "'", "''", "", "'%{'", "'%{nosuch.x}'", "'it\\'s'", "\"q\"", "'"})
	case 6:
		return "logdata:" + r.pick([]string{"'" + r.fragMacro() + "'", "x", "", "'%{tx.'"})
	case 7:
		return "tag:" + r.pick([]string{"'t1'", "t2", "", "'a/b'"})
	case 8, 9, 10, 11:
		if runnable || r.rng.Intn(2) == 0 {
			return "setvar:" + r.pick([]string{"tx.a=1", "tx.a=+1", "tx.b=-2", "tx.score=+%{tx.a}", "!tx.a", "tx.a", "tx.b=%{tx.a}x", "tx.%{tx.a}=k", "'tx.c=a b'", "tx.a=+x", "tx.m=%{request_method}",
				"tx.a=+9223372036854775807", "tx.d=-%{tx.b}", "TX.A=5", "tx.a=+tx.b", "tx.n=+%{tx.score}", "!tx.score"})
		}
		return "setvar:" + r.genSetvar()
	case 12:
		return "nosuchaction"
	case 13:
		return r.pick([]string{"", " ", "'", ":"})
	case 15:
		return "msg:" + r.pick([]string{"'plain'", "plain", "'a " + r.fragMacro() + "'", "'" + r.fragMacro() + "'", "'q'"})
	case 16:
		return "logdata:'" + r.fragMacro() + "'"
	case 17:
		return "tag:" + r.pick([]string{"'t1'", "t2"})
	default:
		*ids++
		if fragPhase != "" && r.rng.Intn(3) != 0 {
			return fmt.Sprintf("id:%d,phase:%s", *ids, fragPhase)
		}
		return fmt.Sprintf("id:%d,phase:%s", *ids, r.pick([]string{"1", "2", "3", "4", "5", "request", "logging"}))
	}
}

// pickAct: mostly well-formed actions, the ill-formed shapes (1 2 4 12 13 and half of the value pools) now and then
func (r *runner) pickAct() int {
	if r.rng.Intn(9) == 0 {
		return []int{1, 2, 4, 5, 6, 7, 12, 13}[r.rng.Intn(8)]
	}
	return []int{0, 3, 8, 9, 10, 11, 14, 14, 15, 16, 17}[r.rng.Intn(11)]
}

func (r *runner) fragActions(ids *int, runnable bool) string {
	n := 1 + r.rng.Intn(6)
	var a []string
	for i := 0; i < n; i++ {
		a = append(a, r.fragAction(ids, runnable))
	}
	return strings.Join(a, r.pick([]string{",", ",", ", "}))
}

func (r *runner) fragLine(ids *int, runnable bool) string {
	k := r.rng.Intn(14)
	if k >= 11 && r.rng.Intn(3) != 0 {
		k = r.rng.Intn(7)
	}
	switch {
	case k < 7:
		q := r.pick([]string{`"`, `"`, `"`, `"`, ``})
		return r.pick([]string{"SecAction", "secaction", "SECACTION"}) + " " + q + r.fragActions(ids, runnable) + q
	case k < 9 && !runnable:
		t := r.pick([]string{"ARGS", "ARGS:a", "&ARGS", "!ARGS:x|ARGS", "REQUEST_URI", "NOSUCHVAR", "REQUEST_URI:a", "ARGS|TX:'k'", "ARGS:'a", "args_names|REQUEST_HEADERS:host"})
		o := r.pick([]string{"@streq a", "@contains ab", "!@beginsWith /", "@endsWith z", "@within a b", "@strmatch q", "@unconditionalMatch x", "@noMatch x", "@nosuchop a", "@ x"})
		acts := r.pick([]string{"", ` "` + r.fragActions(ids, false) + `"`, ` "id:1`, ` x`})
		return "SecRule " + t + ` "` + o + `"` + acts
	case (k == 13 && r.rng.Intn(2) == 0) || (k < 10 && r.rng.Intn(4) == 0):
		return r.fragDefault(runnable)
	case k < 10:
		return "SecMarker" + r.pick([]string{" END", " M 1", "", " \"Q\""})
	case k < 11:
		return "SecRuleRemoveByMsg" + r.pick([]string{" plain", " \"plain\"", "", " nosuch", " q"})
	case k < 12:
		return r.pick([]string{"# comment", "", "   ", "SecNoSuchDirective x", "#", "\tSecMarker T"})
	case k < 13:
		return "SecAction \\\n   \"" + r.fragActions(ids, runnable) + "\""
	default:
		return r.pick([]string{"SecAction", "SecRule", "SecAction \"\"", "SecRule ARGS", "SecAction \" \""})
	}
}

// fragDefault: a SecDefaultAction line of the modelled fragment (disruptive actions pass deny drop
// block; runnable configurations only use pass), well- and ill-formed
var fragPhase string

func (r *runner) fragDefault(runnable bool) string {
	dis := r.pick([]string{"pass", "deny", "drop", "block", "block"})
	if runnable {
		dis = "pass"
	}
	ph := r.pick([]string{"1", "2", "3", "4", "5", "2", "1"})
	fragPhase = ph // the following rules mostly live in this phase (so that they inherit)
	extra := r.pick([]string{"", ",log", ",nolog,auditlog", ",log,auditlog", ",setvar:tx.d=+1", ",logdata:'%{tx.a}'", ",noauditlog"})
	q := r.pick([]string{`"`, `"`, `"`, ``})
	switch r.rng.Intn(12) {
	case 0:
		return "SecDefaultAction " + q + dis + extra + q // no phase
	case 1:
		return "SecDefaultAction " + q + "phase:" + ph + ",log" + q // no disruptive action
	case 2:
		return "SecDefaultAction " + q + "phase:" + ph + "," + dis + r.pick([]string{",id:5", ",msg:'m'", ",t:none", ",tag:x", ",nosuch", ",pass:1", ",phase:9"}) + q
	case 3:
		return "SecDefaultAction" + r.pick([]string{"", " ", " \"\""})
	case 4:
		return "SecDefaultAction " + q + "phase:" + ph + ",deny," + dis + extra + q // two disruptive actions: the last one counts
	default:
		parts := []string{"phase:" + ph, dis}
		if r.rng.Intn(2) == 0 {
			parts = []string{dis, "phase:" + ph}
		}
		return "SecDefaultAction " + q + strings.Join(parts, ",") + extra + q
	}
}

func (r *runner) fragConfig(runnable bool) string {
	ids := 0
	fragPhase = ""
	n := 1 + r.rng.Intn(6)
	if r.rng.Intn(3) == 0 { // start with a default so that every rule below may inherit
		return r.fragDefault(runnable) + "\n" + r.fragConfigBody(&ids, n, runnable)
	}
	return r.fragConfigBody(&ids, n, runnable)
}

func (r *runner) fragConfigBody(idsp *int, n int, runnable bool) string {
	ids := *idsp
	var lines []string
	for i := 0; i < n; i++ {
		lines = append(lines, r.fragLine(&ids, runnable))
	}
	sep := "\n"
	if r.rng.Intn(10) == 0 {
		sep = "\r\n"
	}
	return strings.Join(lines, sep) + r.pick([]string{"", "\n"})
}

func optTerm(has bool, s string) string { return vh.OptionOf(has, vh.HxS(s)) }

func (r *runner) runConfigCase(c caseJSON) {
	text := unhex(c.InHex)
	c.In = readable(text)
	waf := corazawaf.NewWAF()
	p := seclang.NewParser(waf)
	var err error
	pn, site, msg := guard(func() { err = p.FromString(text) })
	st := stOf(pn, err)
	if pn {
		r.fail("c07-panic-"+site, "configuration: "+msg, c)
	}
	r.res.OracleEvaluations++
	if c.Kind == "config" {
		var rules []string
		if st == 0 {
			for _, ru := range waf.Rules.GetRules() {
				m := ""
				if ru.Msg != nil {
					m = ru.Msg.String()
				}
				rules = append(rules, fmt.Sprintf("(%s, %s, %s)", vh.Z(int64(ru.ID_)), vh.Z(int64(ru.Phase_)), optTerm(ru.Msg != nil, m)))
			}
		}
		c.Observed = stName(st)
		r.add(fmt.Sprintf("CConfig %s %s %s", vh.HxS(text), vh.N(st), vh.List(rules)), c, strings.Contains(text, "Sec"))
		return
	}
	// run: the same connection / request line as the shared transaction of the prelude
	var after string = "[]"
	init := "[]"
	var log []string
	if st == 0 {
		tx := waf.NewTransaction()
		ik, im := groupMatches(tx.Variables().TX().FindAll())
		init = kvMultiTerm(ik, im)
		pn, site, msg = guard(func() {
			tx.ProcessConnection("10.1.2.3", 4321, "10.9.9.9", 80)
			tx.ProcessURI("/p/a.php?x=1&y=two", "POST", "HTTP/1.1")
			tx.AddRequestHeader("Host", "h.example")
			tx.ProcessRequestHeaders()
			_, _ = tx.ProcessRequestBody()
			tx.ProcessResponseHeaders(200, "HTTP/1.1")
			_, _ = tx.ProcessResponseBody()
			tx.ProcessLogging()
		})
		if pn {
			st = 2
			r.fail("c07-panic-"+site, "transaction on a modelled configuration: "+msg, c)
		}
		keys, m := groupMatches(tx.Variables().TX().FindAll())
		after = kvMultiTerm(keys, m)
		for _, mr := range tx.MatchedRules() {
			m := ""
			if mds := mr.MatchedDatas(); len(mds) > 0 {
				m = mds[0].Message()
			}
			log = append(log, fmt.Sprintf("(%s, %s)", vh.Z(int64(mr.Rule().ID())), vh.HxS(m)))
		}
		_, _, _ = guard(func() { _ = tx.Close() })
	}
	c.Observed = stName(st)
	r.add(fmt.Sprintf("CRun tx0_tab %s %s %s %s %s", vh.HxS(text), vh.N(st), init, after, vh.List(log)), c, st == 0)
}

func (r *runner) generateConfigCases() {
	n := func(q, t int) int { return r.cfg.Pick(q, t) }
	for i := 0; i < n(700, 8000); i++ {
		r.runCase(caseJSON{Kind: "config", InHex: hexOf(r.fragConfig(false)), Family: "fragment"})
	}
	for i := 0; i < n(600, 8000); i++ {
		r.runCase(caseJSON{Kind: "run", InHex: hexOf(r.fragConfig(true)), Family: "fragment"})
	}
}
