(* Parser.v — executable model of Coraza's SecLang text layer, as coded in
     internal/seclang/parser.go       parseString, evaluateLine (Include)
     internal/seclang/rule_parser.go  ParseRule, parseActionOperator, cutQuotedString,
                                      ParseVariables, ParseOperator, parseActions,
                                      appendRuleAction, mergeActions
     internal/strings/strings.go      MaybeRemoveQuotes, UnescapeQuotedString, HasRegex
     internal/corazawaf/rule.go       AddVariable, AddVariableNegation, newRuleVariableParams
     internal/corazawaf/rulegroup.go  RuleGroup.Add (mandatory / duplicate id)
   plus the structured rule description, its renderer and the rendering variations of
   property C16.  No proofs here (ParserProofs.v). *)
From Coq Require Import String.
From Verif Require Import Base.
Open Scope N_scope.

(* ------------------------------------------------------------------------------------ *)
(* characters                                                                           *)
(* ------------------------------------------------------------------------------------ *)
Definition cTAB : N := 9.
Definition cLF : N := 10.
Definition cCR : N := 13.
Definition cSP : N := 32.
Definition cBANG : N := 33.
Definition cDQ : N := 34.
Definition cHASH : N := 35.
Definition cAMP : N := 38.
Definition cSQ : N := 39.
Definition cCOMMA : N := 44.
Definition cSLASH : N := 47.
Definition cCOLON : N := 58.
Definition cAT : N := 64.
Definition cBS : N := 92.
Definition cBT : N := 96.
Definition cPIPE : N := 124.

(* ------------------------------------------------------------------------------------ *)
(* Go string helpers                                                                    *)
(* ------------------------------------------------------------------------------------ *)

(* strings.TrimSpace: ASCII white space and the UTF-8 encodings of the other runes with
   unicode.IsSpace (U+0085 U+00A0 U+1680 U+2000-200A U+2028 U+2029 U+202F U+205F U+3000);
   an invalid byte decodes to RuneError, which is not a space *)
Definition p_is_ascii_space (c : N) : bool :=
  (c =? 9) || (c =? 10) || (c =? 11) || (c =? 12) || (c =? 13) || (c =? 32).
Definition p_is_sp2 (a b : N) : bool := (a =? 194) && ((b =? 133) || (b =? 160)).
Definition p_is_sp3 (a b c : N) : bool :=
  ((a =? 225) && (b =? 154) && (c =? 128))
  || ((a =? 226) && (b =? 128) && (((128 <=? c) && (c <=? 138)) || (c =? 168) || (c =? 169) || (c =? 175)))
  || ((a =? 226) && (b =? 129) && (c =? 159))
  || ((a =? 227) && (b =? 128) && (c =? 128)).

Fixpoint p_trim_left (s : bytes) : bytes :=
  match s with
  | [] => []
  | a :: r =>
    if p_is_ascii_space a then p_trim_left r
    else match r with
         | [] => s
         | b :: r2 =>
           if p_is_sp2 a b then p_trim_left r2
           else match r2 with
                | [] => s
                | c :: r3 => if p_is_sp3 a b c then p_trim_left r3 else s
                end
         end
  end.

(* the same on the reversed string (the last byte comes first) *)
Fixpoint p_trim_left_rev (s : bytes) : bytes :=
  match s with
  | [] => []
  | a :: r =>
    if p_is_ascii_space a then p_trim_left_rev r
    else match r with
         | [] => s
         | b :: r2 =>
           if p_is_sp2 b a then p_trim_left_rev r2
           else match r2 with
                | [] => s
                | c :: r3 => if p_is_sp3 c b a then p_trim_left_rev r3 else s
                end
         end
  end.

(* linear-time list reversal (equal to rev, see ParserProofs.p_rev_eq) *)
Definition p_rev (l : bytes) : bytes := rev_append l [].

Definition p_trim_right (s : bytes) : bytes := p_rev (p_trim_left_rev (p_rev s)).
Definition p_trim_space (s : bytes) : bytes := p_trim_right (p_trim_left s).

(* strings.TrimLeft(s, '' ''), strings.Trim(s, '' ''), strings.Trim(s, ''\'''') *)
Fixpoint p_drop_char (ch : N) (s : bytes) : bytes :=
  match s with
  | c :: r => if c =? ch then p_drop_char ch r else s
  | [] => []
  end.
Definition p_trim_char (ch : N) (s : bytes) : bytes :=
  rev (p_drop_char ch (rev (p_drop_char ch s))).

(* strings.Cut(s, '' '') *)
Fixpoint p_cut (ch : N) (s : bytes) : bytes * bytes * bool :=
  match s with
  | [] => ([], [], false)
  | c :: r => if c =? ch then ([], r, true)
              else let '(a, b, f) := p_cut ch r in (c :: a, b, f)
  end.

(* strings.ToLower / strings.ToUpper: modelled on ASCII letters only (Go's Unicode case
   tables and its U+FFFD rewriting of invalid bytes are outside the model; see the report) *)
Definition p_lower (s : bytes) : bytes := map ascii_lower s.
Definition p_upper (s : bytes) : bytes := map ascii_upper s.

Definition p_last (s : bytes) : N := last s 0.

(* MaybeRemoveQuotes *)
Definition maybe_remove_quotes (s : bytes) : bytes :=
  match s with
  | a :: ((_ :: _) as r) =>
    if ((a =? cDQ) || (a =? cSQ)) && (p_last r =? a) then removelast r else s
  | _ => s
  end.

(* UnescapeQuotedString: only backslash-quote becomes quote *)
Fixpoint unescape_quoted_string (s : bytes) : bytes :=
  match s with
  | c :: ((d :: s'') as s') =>
    if (c =? cBS) && (d =? cDQ) then cDQ :: unescape_quoted_string s''
    else c :: unescape_quoted_string s'
  | _ => s
  end.

(* HasRegex: /.../ with an even number of backslashes before the closing slash *)
Fixpoint p_count_lead (ch : N) (s : bytes) : nat :=
  match s with
  | c :: r => if c =? ch then S (p_count_lead ch r) else O
  | [] => O
  end.
Definition has_regex (s : bytes) : option bytes :=
  match s with
  | a :: ((_ :: _) as r) =>
    if negb (a =? cSLASH) then None
    else if negb (p_last r =? cSLASH) then None
    else let body := removelast r in
         if Nat.even (p_count_lead cBS (rev body)) then Some body else None
  | _ => None
  end.

(* ------------------------------------------------------------------------------------ *)
(* cutQuotedString                                                                      *)
(* ------------------------------------------------------------------------------------ *)
(* after the opening quote; [esc] = parity of the run of backslashes just before the
   current position (previousEscapeCount % 2 == 1); returns (content, rest) *)
Fixpoint cut_body (s : bytes) (esc : bool) : option (bytes * bytes) :=
  match s with
  | [] => None
  | c :: s' =>
      if c =? cDQ then
        if esc then option_map (fun '(a, r) => (c :: a, r)) (cut_body s' false)
        else Some ([], s')
      else option_map (fun '(a, r) => (c :: a, r))
                      (cut_body s' (if c =? cBS then negb esc else false))
  end.
(* returns (token including both quotes, rest) *)
Definition cut_quoted_string (s : bytes) : option (bytes * bytes) :=
  match s with
  | c :: s' => if c =? cDQ
               then option_map (fun '(a, r) => (cDQ :: a ++ [cDQ], r)) (cut_body s' false)
               else None
  | [] => None
  end.

(* ------------------------------------------------------------------------------------ *)
(* parseActionOperator                                                                  *)
(* ------------------------------------------------------------------------------------ *)
Definition p_is_quoted_dq (s : bytes) : bool :=
  match s with
  | a :: ((_ :: _) as r) => (a =? cDQ) && (p_last r =? cDQ)
  | _ => false
  end.

(* Some (vars, operator, actions) or None (an error) *)
Definition parse_action_operator (data : bytes) : option (bytes * bytes * bytes) :=
  let data := p_trim_char cSP data in
  let '(vars, rest, found) := p_cut cSP data in
  if negb found then None else
  let rest := p_drop_char cSP rest in
  match cut_quoted_string rest with
  | None => None
  | Some (op, rest) =>
    let op := unescape_quoted_string (maybe_remove_quotes op) in
    let rest := p_drop_char cSP rest in
    match rest with
    | [] => Some (vars, op, [])
    | _ => if p_is_quoted_dq rest then Some (vars, op, maybe_remove_quotes rest) else None
    end
  end.

(* ------------------------------------------------------------------------------------ *)
(* tables: variables (name, CanBeSelected), actions (name, type), operators             *)
(* ------------------------------------------------------------------------------------ *)
Local Open Scope string_scope.
Definition variable_table : list (bytes * bool) := [
  (str "ARGS", true); (str "ARGS_COMBINED_SIZE", false); (str "ARGS_GET", true);
  (str "ARGS_GET_NAMES", true); (str "ARGS_NAMES", true); (str "ARGS_PATH", true);
  (str "ARGS_POST", true); (str "ARGS_POST_NAMES", true); (str "AUTH_TYPE", false);
  (str "DURATION", false); (str "ENV", true); (str "FILES", true);
  (str "FILES_COMBINED_SIZE", false); (str "FILES_NAMES", true); (str "FILES_SIZES", true);
  (str "FILES_TMPNAMES", true); (str "FILES_TMP_CONTENT", true); (str "FULL_REQUEST", false);
  (str "FULL_REQUEST_LENGTH", false); (str "GEO", true); (str "HIGHEST_SEVERITY", false);
  (str "INBOUND_DATA_ERROR", false); (str "IP", false); (str "JSON", true);
  (str "MATCHED_VAR", false); (str "MATCHED_VARS", true); (str "MATCHED_VARS_NAMES", true);
  (str "MATCHED_VAR_NAME", false); (str "MULTIPART_BOUNDARY_QUOTED", false);
  (str "MULTIPART_BOUNDARY_WHITESPACE", false); (str "MULTIPART_CRLF_LF_LINES", false);
  (str "MULTIPART_DATA_AFTER", false); (str "MULTIPART_DATA_BEFORE", false);
  (str "MULTIPART_FILENAME", true); (str "MULTIPART_FILE_LIMIT_EXCEEDED", false);
  (str "MULTIPART_HEADER_FOLDING", false); (str "MULTIPART_INVALID_HEADER_FOLDING", false);
  (str "MULTIPART_INVALID_PART", false); (str "MULTIPART_INVALID_QUOTING", false);
  (str "MULTIPART_LF_LINE", false); (str "MULTIPART_MISSING_SEMICOLON", false);
  (str "MULTIPART_NAME", true); (str "MULTIPART_PART_HEADERS", true);
  (str "MULTIPART_STRICT_ERROR", false); (str "MULTIPART_UNMATCHED_BOUNDARY", false);
  (str "OUTBOUND_DATA_ERROR", false); (str "PATH_INFO", false); (str "QUERY_STRING", false);
  (str "REMOTE_ADDR", false); (str "REMOTE_HOST", false); (str "REMOTE_PORT", false);
  (str "REQBODY_ERROR", false); (str "REQBODY_ERROR_MSG", false); (str "REQBODY_PROCESSOR", false);
  (str "REQBODY_PROCESSOR_ERROR", false); (str "REQBODY_PROCESSOR_ERROR_MSG", false);
  (str "REQUEST_BASENAME", false); (str "REQUEST_BODY", false); (str "REQUEST_BODY_LENGTH", false);
  (str "REQUEST_COOKIES", true); (str "REQUEST_COOKIES_NAMES", true); (str "REQUEST_FILENAME", false);
  (str "REQUEST_HEADERS", true); (str "REQUEST_HEADERS_NAMES", true); (str "REQUEST_LINE", false);
  (str "REQUEST_METHOD", false); (str "REQUEST_PROTOCOL", false); (str "REQUEST_URI", false);
  (str "REQUEST_URI_RAW", false); (str "REQUEST_XML", true); (str "RESPONSE_ARGS", true);
  (str "RESPONSE_BODY", false); (str "RESPONSE_CONTENT_LENGTH", false);
  (str "RESPONSE_CONTENT_TYPE", false); (str "RESPONSE_HEADERS", true);
  (str "RESPONSE_HEADERS_NAMES", true); (str "RESPONSE_PROTOCOL", false);
  (str "RESPONSE_STATUS", false); (str "RESPONSE_XML", true); (str "RES_BODY_ERROR", false);
  (str "RES_BODY_ERROR_MSG", false); (str "RES_BODY_PROCESSOR", false);
  (str "RES_BODY_PROCESSOR_ERROR", false); (str "RES_BODY_PROCESSOR_ERROR_MSG", false);
  (str "RULE", true); (str "SERVER_ADDR", false); (str "SERVER_NAME", false);
  (str "SERVER_PORT", false); (str "SESSIONID", false); (str "STATUS_LINE", false);
  (str "TIME", false); (str "TIME_DAY", false); (str "TIME_EPOCH", false); (str "TIME_HOUR", false);
  (str "TIME_MIN", false); (str "TIME_MON", false); (str "TIME_SEC", false); (str "TIME_WDAY", false);
  (str "TIME_YEAR", false); (str "TX", true); (str "UNIQUE_ID", false); (str "UNKNOWN", false); (str "URLENCODED_ERROR", false);
  (str "USERID", false); (str "XML", true) ].

(* action types of plugintypes: 1 metadata, 2 disruptive, 3 data, 4 non-disruptive, 5 flow *)
Definition action_table : list (bytes * N) := [
  (str "allow", 2%N); (str "auditlog", 4%N); (str "block", 2%N); (str "capture", 4%N);
  (str "chain", 5%N); (str "ctl", 4%N); (str "deny", 2%N); (str "drop", 2%N); (str "exec", 4%N);
  (str "expirevar", 4%N); (str "id", 1%N); (str "initcol", 4%N); (str "log", 4%N);
  (str "logdata", 4%N); (str "maturity", 1%N); (str "msg", 1%N); (str "multimatch", 4%N);
  (str "noauditlog", 4%N); (str "nolog", 4%N); (str "pass", 2%N); (str "phase", 1%N);
  (str "redirect", 2%N); (str "rev", 1%N); (str "setenv", 4%N); (str "setvar", 4%N);
  (str "severity", 1%N); (str "skip", 5%N); (str "skipafter", 5%N); (str "status", 3%N);
  (str "t", 4%N); (str "tag", 1%N); (str "ver", 1%N) ].

Definition operator_table : list bytes := [
  str "beginsWith"; str "contains"; str "detectSQLi"; str "detectXSS"; str "endsWith"; str "eq";
  str "ge"; str "geoLookup"; str "gt"; str "inspectFile"; str "ipMatch"; str "ipMatchFromDataset";
  str "ipMatchFromFile"; str "ipMatchF"; str "le"; str "lt"; str "noMatch"; str "pm";
  str "pmFromDataset"; str "pmFromFile"; str "pmf"; str "rbl"; str "restpath"; str "rx"; str "streq";
  str "strmatch"; str "unconditionalMatch"; str "validateByteRange"; str "validateNid";
  str "validateSchema"; str "validateUrlEncoding"; str "validateUtf8Encoding"; str "within" ].
Local Close Scope string_scope.

Fixpoint p_assoc {A} (k : bytes) (l : list (bytes * A)) : option A :=
  match l with
  | [] => None
  | (k', v) :: r => if bytes_eqb k k' then Some v else p_assoc k r
  end.
Fixpoint p_mem (k : bytes) (l : list bytes) : bool :=
  match l with
  | [] => false
  | k' :: r => bytes_eqb k k' || p_mem k r
  end.

(* variables.Parse: upper-case the name, look it up; returns the canonical name and CanBeSelected *)
Definition lookup_variable (name : bytes) : option (bytes * bool) :=
  let u := p_upper name in
  match p_assoc u variable_table with Some sel => Some (u, sel) | None => None end.

(* actions.Get: lower-case the name, look it up; returns the action type *)
Definition lookup_action (name : bytes) : option N := p_assoc (p_lower name) action_table.

Definition operator_known (name : bytes) : bool := p_mem name operator_table.

(* caseSensitiveVariable (rule.go): keys of these are kept as written *)
Local Open Scope string_scope.
Definition case_sensitive_variable (name : bytes) : bool :=
  p_mem name [str "ARGS"; str "ARGS_NAMES"; str "ARGS_GET"; str "ARGS_POST";
              str "ARGS_GET_NAMES"; str "ARGS_POST_NAMES"].
Local Close Scope string_scope.

(* ------------------------------------------------------------------------------------ *)
(* ParseVariables                                                                       *)
(* ------------------------------------------------------------------------------------ *)
(* one call of AddVariable (tc_neg = false) or AddVariableNegation (tc_neg = true; the
   count flag is not passed on): canonical variable name, key as passed (with both
   slashes when the scanner was in regex mode) *)
Record tcall := mk_tcall { tc_neg : bool; tc_count : bool; tc_var : bytes; tc_key : bytes }.

Record pv_state := mk_pv {
  pv_curr : N;            (* 0 name, 1 key, 2 regex, 3 xpath *)
  pv_neg : bool; pv_count : bool;
  pv_var : bytes;         (* reversed *)
  pv_key : bytes;         (* reversed *)
  pv_esc : bool; pv_quoted : bool;
  pv_res : list tcall     (* reversed *)
}.
Definition pv_init : pv_state := mk_pv 0 false false [] [] false false [].

Local Open Scope string_scope.
Definition s_id : bytes := str "id".
Definition s_phase : bytes := str "phase".
Definition s_msg : bytes := str "msg".
Definition s_tag : bytes := str "tag".
Definition s_rev : bytes := str "rev".
Definition s_ver : bytes := str "ver".
Definition s_request : bytes := str "request".
Definition s_response : bytes := str "response".
Definition s_logging : bytes := str "logging".
Definition s_block : bytes := str "block".
Definition s_log : bytes := str "log".
Definition s_auditlog : bytes := str "auditlog".
Definition s_pass : bytes := str "pass".
Definition s_logdata : bytes := str "logdata".
Definition s_xml : bytes := str "XML".
Definition s_json : bytes := str "JSON".
Local Close Scope string_scope.

Definition p_is_xml_or_json (v : bytes) : bool := bytes_eqb v s_xml || bytes_eqb v s_json.

(* [skip]: characters still to be skipped after a target was closed (the ''i += 2'' / ''i++'') *)
Fixpoint pv_loop (s : bytes) (skip : nat) (st : pv_state) : option (list tcall) :=
  match s with
  | [] => Some (rev (pv_res st))
  | c :: rest =>
    match skip with
    | S k => pv_loop rest k st
    | O =>
      let curr := pv_curr st in
      let is_last := match rest with [] => true | _ => false end in
      if ((c =? cPIPE) && negb (curr =? 2)) || is_last
         || ((curr =? 2) && (c =? cSLASH) && negb (pv_esc st))
      then
        let var' := if negb (c =? cPIPE) && (curr =? 0) then c :: pv_var st else pv_var st in
        let key' := if negb (c =? cPIPE) && negb (curr =? 0) && negb (curr =? 2) && negb (c =? cSLASH)
                    then c :: pv_key st else pv_key st in
        match lookup_variable (rev var') with
        | None => None
        | Some (name, selectable) =>
          if (curr =? 1) && negb selectable then None
          else
            let next_is_quote := match rest with d :: _ => d =? cSQ | [] => false end in
            if pv_quoted st && negb next_is_quote && negb (c =? cSQ) then None
            else
              let skip' := if pv_quoted st then 2%nat else if curr =? 2 then 1%nat else 0%nat in
              let key := if curr =? 2 then cSLASH :: rev key' ++ [cSLASH] else rev key' in
              let call := mk_tcall (pv_neg st) (if pv_neg st then false else pv_count st) name key in
              pv_loop rest skip' (mk_pv 0 false false [] [] (pv_esc st) false (call :: pv_res st))
        end
      else if curr =? 0 then
        if c =? cBANG then pv_loop rest 0 (mk_pv curr true (pv_count st) (pv_var st) (pv_key st) (pv_esc st) (pv_quoted st) (pv_res st))
        else if c =? cAMP then pv_loop rest 0 (mk_pv curr (pv_neg st) true (pv_var st) (pv_key st) (pv_esc st) (pv_quoted st) (pv_res st))
        else if c =? cCOLON then pv_loop rest 0 (mk_pv 1 (pv_neg st) (pv_count st) (pv_var st) (pv_key st) (pv_esc st) (pv_quoted st) (pv_res st))
        else pv_loop rest 0 (mk_pv curr (pv_neg st) (pv_count st) (c :: pv_var st) (pv_key st) (pv_esc st) (pv_quoted st) (pv_res st))
      else if curr =? 1 then
        if match pv_key st with [] => p_is_xml_or_json (rev (pv_var st)) | _ => false end
        then pv_loop rest 0 (mk_pv 3 (pv_neg st) (pv_count st) (pv_var st) (c :: pv_key st) (pv_esc st) (pv_quoted st) (pv_res st))
        else if c =? cSLASH then pv_loop rest 0 (mk_pv 2 (pv_neg st) (pv_count st) (pv_var st) (pv_key st) (pv_esc st) (pv_quoted st) (pv_res st))
        else if c =? cSQ then pv_loop rest 0 (mk_pv curr (pv_neg st) (pv_count st) (pv_var st) (pv_key st) (pv_esc st) true (pv_res st))
        else pv_loop rest 0 (mk_pv curr (pv_neg st) (pv_count st) (pv_var st) (c :: pv_key st) (pv_esc st) (pv_quoted st) (pv_res st))
      else if curr =? 2 then
        if (c =? cSLASH) && negb (pv_esc st)
        then pv_loop rest 0 (mk_pv 1 (pv_neg st) (pv_count st) (pv_var st) (pv_key st) (pv_esc st) (pv_quoted st) (pv_res st))
        else if c =? cBS
        then pv_loop rest 0 (mk_pv curr (pv_neg st) (pv_count st) (pv_var st) (cBS :: pv_key st) (negb (pv_esc st)) (pv_quoted st) (pv_res st))
        else pv_loop rest 0 (mk_pv curr (pv_neg st) (pv_count st) (pv_var st) (c :: pv_key st) false (pv_quoted st) (pv_res st))
      else pv_loop rest 0 (mk_pv curr (pv_neg st) (pv_count st) (pv_var st) (c :: pv_key st) (pv_esc st) (pv_quoted st) (pv_res st))
    end
  end.

Definition parse_variables (vars : bytes) : option (list tcall) := pv_loop vars 0 pv_init.

(* ------------------------------------------------------------------------------------ *)
(* ParseOperator                                                                        *)
(* ------------------------------------------------------------------------------------ *)
(* o_fn is the text stored as the operator's function name (opRaw, e.g. ''@rx'' / ''!@rx''),
   o_name the name looked up in the registry, o_arg the trimmed argument *)
Record opdesc := mk_op { o_fn : bytes; o_name : bytes; o_neg : bool; o_arg : bytes }.

Local Open Scope string_scope.
Definition s_at_rx_sp : bytes := str "@rx ".
Definition s_bang_at_rx : bytes := str "!@rx".
Definition s_bang_at_rx_sp : bytes := str "!@rx ".
Local Close Scope string_scope.
Definition po_normalise (operator : bytes) : bytes :=
  match operator with
  | [] => s_at_rx_sp
  | a :: r =>
    if negb (a =? cAT) && negb (a =? cBANG) then s_at_rx_sp ++ operator
    else match r with
         | [] => if a =? cBANG then s_bang_at_rx else operator
         | b :: _ => if (a =? cBANG) && negb (b =? cAT) then s_bang_at_rx_sp ++ r else operator
         end
  end.

Definition parse_operator (operator : bytes) : option opdesc :=
  let operator := po_normalise operator in
  let '(op_raw, data_raw, _) := p_cut cSP operator in
  let op := p_trim_space op_raw in
  let opdata := p_trim_space data_raw in
  let name :=
    match op with
    | a :: r =>
      if a =? cAT then r
      else match r with
           | b :: ((_ :: _) as r2) => if (a =? cBANG) && (b =? cAT) then r2 else op
           | _ => op
           end
    | [] => op
    end in
  if operator_known name
  then Some (mk_op op_raw name (match op_raw with a :: _ => a =? cBANG | [] => false end) opdata)
  else None.

(* ------------------------------------------------------------------------------------ *)
(* parseActions / appendRuleAction                                                      *)
(* ------------------------------------------------------------------------------------ *)
(* the raw (key, value) slices; key and val accumulate reversed; val = None while the key
   is being read.  The first byte of the string is never examined (the loop starts at 1). *)
Definition pa_push (c : N) (key : bytes) (val : option bytes) : bytes * option bytes :=
  match val with None => (c :: key, None) | Some v => (key, Some (c :: v)) end.

Definition pa_emit (key : bytes) (val : option bytes) : bytes * bytes :=
  (rev key, match val with None => [] | Some v => rev v end).

Fixpoint pa_loop (s : bytes) (prev : N) (inq : bool) (key : bytes) (val : option bytes)
         : list (bytes * bytes) :=
  match s with
  | [] => [pa_emit key val]
  | c :: r =>
    let '(key1, val1) := pa_push c key val in
    if prev =? cBS then pa_loop r c inq key1 val1
    else if c =? cSQ then pa_loop r c (negb inq) key1 val1
    else if inq then pa_loop r c inq key1 val1
    else if c =? cCOLON then
      match val with
      | None => pa_loop r c inq key (Some [])
      | Some _ => pa_loop r c inq key1 val1
      end
    else if c =? cCOMMA then pa_emit key val :: pa_loop r c inq [] None
    else pa_loop r c inq key1 val1
  end.

Definition pa_split (actions : bytes) : list (bytes * bytes) :=
  match actions with
  | [] => [([], [])]
  | c :: r => pa_loop r c false [c] None
  end.

(* true when the scan ends inside quotes (Coraza only logs a warning) *)
Fixpoint pa_unclosed (s : bytes) (prev : N) (inq : bool) : bool :=
  match s with
  | [] => inq
  | c :: r => if prev =? cBS then pa_unclosed r c inq
              else if c =? cSQ then pa_unclosed r c (negb inq) else pa_unclosed r c inq
  end.

Record action := mk_action { a_name : bytes; a_value : bytes; a_type : N }.

Fixpoint p_set_nth {A} (n : nat) (x : A) (l : list A) : list A :=
  match l, n with
  | [], _ => []
  | _ :: r, O => x :: r
  | y :: r, S k => y :: p_set_nth k x r
  end.

(* appendRuleAction over the raw slices: trim, lower-case the key, strip one pair of quotes
   from the value, look the action up; a second disruptive action REPLACES the first one
   in place *)
Fixpoint pa_build (raw : list (bytes * bytes)) (res : list action) (didx : option nat)
         : option (list action) :=
  match raw with
  | [] => Some res
  | (k, v) :: r =>
    let key := p_lower (p_trim_space k) in
    let val := maybe_remove_quotes (p_trim_space v) in
    match lookup_action key with
    | None => None
    | Some ty =>
      let a := mk_action key val ty in
      if ty =? 2 then
        match didx with
        | Some i => pa_build r (p_set_nth i a res) didx
        | None => pa_build r (res ++ [a]) (Some (List.length res))
        end
      else pa_build r (res ++ [a]) didx
    end
  end.

Definition parse_actions (actions : bytes) : option (list action) :=
  pa_build (pa_split actions) [] None.

(* ------------------------------------------------------------------------------------ *)
(* the structured rule description and ParseRule's syntactic part                       *)
(* ------------------------------------------------------------------------------------ *)
Inductive key_kind := KNone | KStr (k : bytes) | KRx (r : bytes).

(* how AddVariable reads the key it is given *)
Definition classify_key (k : bytes) : key_kind :=
  match k with
  | [] => KNone
  | _ => match has_regex k with Some r => KRx r | None => KStr k end
  end.

Record target := mk_target { t_neg : bool; t_count : bool; t_var : bytes; t_key : key_kind }.

Definition target_of_call (c : tcall) : target :=
  mk_target (tc_neg c) (tc_count c) (tc_var c) (classify_key (tc_key c)).

Record rule_desc := mk_rule {
  r_targets : list target;
  r_op : option opdesc;        (* None for SecAction *)
  r_actions : list action
}.

(* SecRule: options.Data -> description *)
Definition parse_rule (data : bytes) : option rule_desc :=
  match p_trim_space data with
  | [] => None
  | _ =>
    match parse_action_operator data with
    | None => None
    | Some (vars, op, acts) =>
      match parse_variables vars with
      | None => None
      | Some calls =>
        match parse_operator op with
        | None => None
        | Some o =>
          match acts with
          | [] => Some (mk_rule (map target_of_call calls) (Some o) [])
          | _ => match parse_actions acts with
                 | None => None
                 | Some al => Some (mk_rule (map target_of_call calls) (Some o) al)
                 end
          end
        end
      end
    end
  end.

(* SecAction: options.Data -> description *)
Definition parse_secaction (data : bytes) : option rule_desc :=
  match p_trim_space data with
  | [] => None
  | _ => match parse_actions (maybe_remove_quotes data) with
         | None => None
         | Some al => Some (mk_rule [] None al)
         end
  end.

(* strconv.Atoi on what the id / phase actions accept: optional '+', decimal digits; 0 otherwise *)
Fixpoint p_digits (s : bytes) (acc : N) : option N :=
  match s with
  | [] => Some acc
  | c :: r => if (48 <=? c) && (c <=? 57) then p_digits r (acc * 10 + (c - 48)) else None
  end.
Definition p_atoi (s : bytes) : N :=
  let s := match s with c :: r => if c =? 43 then r else s | [] => s end in
  match s with
  | [] => 0
  | _ => match p_digits s 0 with Some n => n | None => 0 end
  end.

Definition p_parse_phase (v : bytes) : N :=
  if bytes_eqb v s_request then 2
  else if bytes_eqb v s_response then 4
  else if bytes_eqb v s_logging then 5
  else p_atoi v.

Record meta := mk_meta {
  m_id : N; m_phase : N; m_msg : option bytes; m_tags : list bytes; m_rev : bytes; m_ver : bytes
}.

(* the metadata pass of applyParsedActions (Init of id, phase, msg, tag, rev, ver) *)
Definition meta_step (m : meta) (a : action) : meta :=
  let n := a_name a in
  let v := a_value a in
  if bytes_eqb n s_id then mk_meta (p_atoi v) (m_phase m) (m_msg m) (m_tags m) (m_rev m) (m_ver m)
  else if bytes_eqb n s_phase then mk_meta (m_id m) (p_parse_phase v) (m_msg m) (m_tags m) (m_rev m) (m_ver m)
  else if bytes_eqb n s_msg then mk_meta (m_id m) (m_phase m) (Some (maybe_remove_quotes v)) (m_tags m) (m_rev m) (m_ver m)
  else if bytes_eqb n s_tag then mk_meta (m_id m) (m_phase m) (m_msg m) (m_tags m ++ [v]) (m_rev m) (m_ver m)
  else if bytes_eqb n s_rev then mk_meta (m_id m) (m_phase m) (m_msg m) (m_tags m) v (m_ver m)
  else if bytes_eqb n s_ver then mk_meta (m_id m) (m_phase m) (m_msg m) (m_tags m) (m_rev m) v
  else m.

Definition meta_of (al : list action) : meta :=
  fold_left meta_step (filter (fun a => a_type a =? 1) al) (mk_meta 0 2 None [] [] []).


(* the id RuleGroup.FindByID compares (0 when the rule has none) *)
Definition rule_id (d : rule_desc) : N := m_id (meta_of (r_actions d)).

(* strconv.Atoi with its optional sign; None = an error (overflow is outside the model) *)
Definition p_atoi_z (s : bytes) : option Z :=
  match s with
  | [] => None
  | c :: r =>
    if c =? 43 then match r with [] => None | _ => option_map Z.of_N (p_digits r 0) end
    else if c =? 45 then match r with [] => None | _ => option_map (fun n => Z.opp (Z.of_N n)) (p_digits r 0) end
    else option_map Z.of_N (p_digits s 0)
  end.

(* strings.Fields on ASCII white space *)
Fixpoint p_fields_aux (s : bytes) (cur : bytes) : list bytes :=
  match s with
  | [] => match cur with [] => [] | _ => [rev cur] end
  | c :: r => if p_is_ascii_space c
              then match cur with [] => p_fields_aux r [] | _ => rev cur :: p_fields_aux r [] end
              else p_fields_aux r (c :: cur)
  end.
Definition p_fields (s : bytes) : list bytes := p_fields_aux s [].

(* ---- SecRuleUpdateTargetById (directives.go), on the rules compiled so far, in order ---- *)
Definition add_targets (ts : list target) (d : rule_desc) : rule_desc :=
  mk_rule (r_targets d ++ ts) (r_op d) (r_actions d).

Definition id_is (z : Z) (d : rule_desc) : bool := Z.eqb (Z.of_N (rule_id d)) z.
Definition id_in (a b : Z) (d : rule_desc) : bool :=
  Z.leb a (Z.of_N (rule_id d)) && Z.leb (Z.of_N (rule_id d)) b.

(* updateTargetBySingleID: the FIRST rule with that id (FindByID) *)
Fixpoint upd_first (z : Z) (ts : list target) (rules : list rule_desc) : list rule_desc :=
  match rules with
  | [] => []
  | d :: r => if id_is z d then add_targets ts d :: r else d :: upd_first z ts r
  end.
(* the range branch: every rule whose id lies in the range *)
Definition upd_range (a b : Z) (ts : list target) (rules : list rule_desc) : list rule_desc :=
  map (fun d => if id_in a b d then add_targets ts d else d) rules.

Fixpoint p_index (ch : N) (s : bytes) : option nat :=
  match s with
  | [] => None
  | c :: r => if c =? ch then Some O else option_map S (p_index ch r)
  end.

(* one element of the id list; [only] = it is the only element (length == 2);
   [ts] = ParseVariables of the target argument (None = it fails) *)
Definition upd_element (only : bool) (ts : option (list target)) (el : bytes) (rules : list rule_desc)
         : option (list rule_desc) :=
  let single (z : Z) (always : bool) :=
    if existsb (id_is z) rules
    then match ts with Some t => Some (upd_first z t rules) | None => None end
    else if always then None else Some rules in
  match p_index 45 el with
  | None => match p_atoi_z el with None => None | Some z => single z only end
  | Some O => None
  | Some idx =>
    match p_atoi_z (firstn idx el), p_atoi_z (skipn (S idx) el) with
    | Some a, Some b =>
      if Z.eqb a b then single a true
      else if Z.ltb b a then None
      else if existsb (id_in a b) rules
           then match ts with Some t => Some (upd_range a b t rules) | None => None end
           else Some rules
    | _, _ => None
    end
  end.

Fixpoint upd_elements (only : bool) (ts : option (list target)) (els : list bytes) (rules : list rule_desc)
         : option (list rule_desc) :=
  match els with
  | [] => Some rules
  | el :: r => match upd_element only ts el rules with
               | None => None
               | Some rules' => upd_elements only ts r rules'
               end
  end.

Definition apply_update (fields : list bytes) (rules : list rule_desc) : option (list rule_desc) :=
  match fields with
  | [] | [_] => None
  | _ =>
    let vars := last fields [] in
    let ts := option_map (map target_of_call) (parse_variables (p_trim_char cDQ vars)) in
    upd_elements (Nat.eqb (List.length fields) 2) ts (removelast fields) rules
  end.

(* ---- paths (filepath.Join / filepath.Dir on clean relative paths) ---- *)
Definition s_dot : bytes := [46].
Definition path_join (d p : bytes) : bytes :=
  match d with
  | [] => p
  | _ => if bytes_eqb d s_dot then p else d ++ cSLASH :: p
  end.
Fixpoint p_drop_to_slash (r : bytes) : option bytes :=
  match r with
  | [] => None
  | c :: t => if c =? cSLASH then Some t else p_drop_to_slash t
  end.
Definition path_dir (p : bytes) : bytes :=
  match p_drop_to_slash (rev p) with
  | None => s_dot
  | Some t => rev t
  end.

(* ------------------------------------------------------------------------------------ *)
(* line assembly: parseString / evaluateLine / Include                                  *)
(* ------------------------------------------------------------------------------------ *)
Definition p_drop_cr (l : bytes) : bytes :=
  match p_rev l with c :: r => if c =? cCR then p_rev r else l | [] => l end.

(* bufio.ScanLines *)
Fixpoint split_lines_aux (s : bytes) (cur : bytes) : list bytes :=
  match s with
  | [] => match cur with [] => [] | _ => [p_drop_cr (p_rev cur)] end
  | c :: r => if c =? cLF then p_drop_cr (p_rev cur) :: split_lines_aux r []
              else split_lines_aux r (c :: cur)
  end.
Definition split_lines (s : bytes) : list bytes := split_lines_aux s [].

(* bufio.Scanner stops at a line that does not fit its 64 KiB buffer (bufio.ErrTooLong): the lines
   before it are delivered, then scanner.Err() is returned by parseString (since the repair F54) *)
Definition max_line : N := 65536.
Definition line_fits (l : bytes) : bool := N.of_nat (List.length l) <? max_line.
Fixpoint scanner_lines (ls : list bytes) : list bytes :=
  match ls with
  | [] => []
  | l :: r => if line_fits l then l :: scanner_lines r else []
  end.
Definition scanner_truncated (ls : list bytes) : bool := negb (forallb line_fits ls).

Local Open Scope string_scope.
Definition d_secrule : bytes := str "secrule".
Definition d_secaction : bytes := str "secaction".
Definition d_include : bytes := str "include".
Definition d_update_target : bytes := str "secruleupdatetargetbyid".
Local Close Scope string_scope.

Definition max_include : N := 100.

(* g_rules reversed; g_dirs (parallel to g_rules): the ConfigDir each rule was compiled with *)
Record gstate := mk_g { g_inc : N; g_rules : list rule_desc; g_dirs : list bytes }.

Inductive line_kind :=
  | LRule (d : rule_desc) | LInclude (path : bytes) | LUpdate (fields : list bytes) | LError.

(* evaluateLine up to the directive call; directives other than SecRule / SecAction /
   Include are outside this model (LError) *)
Definition evaluate_line (l : bytes) : line_kind :=
  match l with
  | [] => LError
  | c :: _ =>
    if c =? cHASH then LError else
    let '(dir, opts, _) := p_cut cSP l in
    let directive := p_lower dir in
    let opts := if (3 <=? List.length opts)%nat && p_is_quoted_dq opts then p_trim_char cDQ opts else opts in
    if bytes_eqb directive d_include then LInclude opts
    else if bytes_eqb directive d_secrule then
      match opts with [] => LError | _ =>
        match parse_rule opts with Some d => LRule d | None => LError end end
    else if bytes_eqb directive d_secaction then
      match opts with [] => LError | _ =>
        match parse_secaction opts with Some d => LRule d | None => LError end end
    else if bytes_eqb directive d_update_target then
      match opts with [] => LError | _ => LUpdate (p_fields opts) end
    else LError
  end.

(* the loop of parseString over the scanner's lines; [ev] evaluates an assembled line *)
Fixpoint ps_loop (ev : gstate -> bytes -> option gstate)
         (lines : list bytes) (buf : bytes) (inbt : bool) (g : gstate) : option gstate :=
  match lines with
  | [] => if inbt then None                      (* backticks left open *)
          else match buf with [] => Some g | _ => None end   (* continuation at the end (F55) *)
  | raw :: rest =>
    let line := p_trim_space raw in
    match line with
    | [] => ps_loop ev rest buf inbt g
    | c0 :: _ =>
      if c0 =? cHASH then ps_loop ev rest buf inbt g else
      let lastc := p_last line in
      let inbt' := if negb inbt && (lastc =? cBT) then true
                   else if inbt && (c0 =? cBT) then false else inbt in
      if inbt' then ps_loop ev rest (buf ++ line ++ [cLF]) inbt' g
      else if lastc =? cBS then ps_loop ev rest (buf ++ removelast line) inbt' g
      else match ev g (buf ++ line) with
           | None => None
           | Some g' => ps_loop ev rest [] inbt' g'
           end
    end
  end.

(* files: the file system seen through Parser.SetRoot, as (path, content) with clean relative
   paths; [dir] is Parser.currentDir, which evaluateLine copies into ParserConfig.ConfigDir for
   every directive; FromFile joins a relative path with it, reads the file, parses it with the
   file's directory and restores the directory afterwards (globbing is outside the model) *)
Definition from_file_path (dir path : bytes) : bytes :=
  let p := p_trim_space path in
  match p with
  | c :: _ => if c =? cSLASH then p else path_join dir p
  | [] => path_join dir p
  end.

Fixpoint parse_string (fuel : nat) (files : list (bytes * bytes)) (dir : bytes) (g : gstate) (text : bytes)
         : option gstate :=
  match fuel with
  | O => None
  | S f =>
    let ls := split_lines text in
    match ps_loop (fun g l =>
               match evaluate_line l with
               | LError => None
               | LRule d => Some (mk_g (g_inc g) (d :: g_rules g) (dir :: g_dirs g))
               | LUpdate fields =>
                 match apply_update fields (rev (g_rules g)) with
                 | None => None
                 | Some rules => Some (mk_g (g_inc g) (rev rules) (g_dirs g))
                 end
               | LInclude path =>
                 if max_include <=? g_inc g then None
                 else let p := from_file_path dir path in
                      match p_assoc p files with
                      | None => None
                      | Some content =>
                        parse_string f files (path_dir p) (mk_g (g_inc g + 1) (g_rules g) (g_dirs g)) content
                      end
               end)
            (scanner_lines ls) [] false g with
    | None => None
    | Some g' => if scanner_truncated ls then None else Some g'   (* scanner.Err() (F54) *)
    end
  end.

Definition include_fuel : nat := 102.

(* the rule descriptions of a configuration text, in order; None = FromString returned an error
   (before RuleGroup.Add's id checks, see compile_config) *)
Definition parse_config (files : list (bytes * bytes)) (text : bytes) : option (list rule_desc) :=
  match parse_string include_fuel files [] (mk_g 0 [] []) text with
  | Some g => Some (rev (g_rules g))
  | None => None
  end.

(* several calls on one Parser: FromString text / FromFile path (currentDir is "" between calls) *)
Inductive pstep := StepString (text : bytes) | StepFile (path : bytes).
Definition run_step (files : list (bytes * bytes)) (g : gstate) (st : pstep) : option gstate :=
  match st with
  | StepString t => parse_string include_fuel files [] g t
  | StepFile path =>
    let p := from_file_path [] path in
    match p_assoc p files with
    | None => None
    | Some content => parse_string include_fuel files (path_dir p) g content
    end
  end.
Fixpoint run_steps (files : list (bytes * bytes)) (g : gstate) (sts : list pstep) : option gstate :=
  match sts with
  | [] => Some g
  | st :: r => match run_step files g st with None => None | Some g' => run_steps files g' r end
  end.

(* ------------------------------------------------------------------------------------ *)
(* what a description compiles to (the observable content of corazawaf.Rule)            *)
(* ------------------------------------------------------------------------------------ *)
Record vdump := mk_vd {
  vd_name : bytes; vd_count : bool; vd_keystr : bytes; vd_rx : option bytes;
  vd_exc : list (bytes * option bytes)
}.

Definition no_byte_bs (s : bytes) : bool := forallb (fun c => negb (c =? cBS)) s.

Definition key_bytes (k : key_kind) : bytes :=
  match k with KNone => [] | KStr s => s | KRx r => cSLASH :: r ++ [cSLASH] end.

(* lowerRegexSource (rule.go): the literal text of a regex key of a case-insensitive collection is
   lower-cased, escape sequences are copied as written: backslash + one byte, the braces of
   \p{..} \P{..} \x{..}, the one-letter class of \pL / \PL.  [brace] = inside such braces. *)
Definition c_is_pPx (d : N) : bool := (d =? 112) || (d =? 80) || (d =? 120).
Definition c_is_pP (d : N) : bool := (d =? 112) || (d =? 80).
Fixpoint lrs_loop (s : bytes) (brace : bool) : bytes :=
  match s with
  | [] => []
  | c :: r =>
    if brace then c :: lrs_loop r (negb (c =? 125))
    else if negb (c =? cBS) then ascii_lower c :: lrs_loop r false
    else match r with
         | [] => [c]
         | d :: r2 =>
           cBS :: d ::
           match r2 with
           | [] => []
           | e :: r3 =>
             if c_is_pPx d && (e =? 123) then lrs_loop r2 true
             else if c_is_pP d then e :: lrs_loop r3 false
             else lrs_loop r2 false
           end
         end
  end.
Definition lower_regex_source (rx : bytes) : bytes :=
  if no_byte_bs rx then p_lower rx else lrs_loop rx false.

Definition rx_of (name : bytes) (k : key_kind) : option bytes :=
  match k with
  | KRx r => Some (if case_sensitive_variable name then r else lower_regex_source r)
  | _ => None
  end.

Definition add_target (vs : list vdump) (t : target) : list vdump :=
  let name := t_var t in
  let kb := key_bytes (t_key t) in
  if t_neg t then
    map (fun v => if bytes_eqb (vd_name v) name
                  then mk_vd (vd_name v) (vd_count v) (vd_keystr v) (vd_rx v)
                             (vd_exc v ++ [(kb, rx_of name (t_key t))])
                  else v) vs
  else
    vs ++ [mk_vd name (t_count t) (if case_sensitive_variable name then kb else p_lower kb)
                 (rx_of name (t_key t)) []].

Definition compile_targets (ts : list target) : list vdump := fold_left add_target ts [].

(* mergeActions with the built-in defaults of phase 2, ''phase:2,log,auditlog,pass'':
   log, auditlog first; a block is dropped; pass is appended when no other disruptive
   action remains.  Only names of non-metadata actions are observable (Rule.actions). *)
Definition is_block (a : action) : bool := bytes_eqb (a_name a) s_block.
Definition merged_names (phase : N) (al : list action) : list bytes :=
  if phase =? 2 then
    let kept := filter (fun a => negb ((a_type a =? 2) && is_block a)) al in
    let has_da := existsb (fun a => (a_type a =? 2) && negb (is_block a)) al in
    [s_log; s_auditlog]
      ++ map a_name (filter (fun a => negb (a_type a =? 1)) kept)
      ++ (if has_da then [] else [s_pass])
  else map a_name (filter (fun a => negb (a_type a =? 1)) al).

Definition logdata_of (al : list action) : option bytes :=
  fold_left (fun acc a => if bytes_eqb (a_name a) s_logdata then Some (a_value a) else acc) al None.

Record dump := mk_dump {
  du_vars : list vdump;
  du_op : option (bytes * bool * bytes);     (* Function, Negation, Data *)
  du_actions : list bytes;
  du_id : N; du_phase : N;
  du_msg : option bytes; du_logdata : option bytes;
  du_tags : list bytes; du_rev : bytes; du_ver : bytes;
  du_data : option bytes     (* the data file a @pmFromFile / @ipMatchFromFile operator loaded *)
}.

Local Open Scope string_scope.
Definition data_file_operators : list bytes :=
  [str "pmFromFile"; str "pmf"; str "ipMatchFromFile"; str "ipMatchF"].
Local Close Scope string_scope.

(* loadFromFile: a relative data file is looked up in ParserConfig.ConfigDir (path.Join) *)
Definition resolve_data (files : list (bytes * bytes)) (dir : bytes) (o : opdesc) : option bytes :=
  if p_mem (o_name o) data_file_operators then
    let p := path_join dir (o_arg o) in
    match p_assoc p files with Some _ => Some p | None => None end
  else None.

(* applyParsedActions is not called at all when a SecRule has no action string *)
Definition compile_rule (files : list (bytes * bytes)) (dir : bytes) (d : rule_desc) : dump :=
  let al := r_actions d in
  let m := meta_of al in
  mk_dump (compile_targets (r_targets d))
          (option_map (fun o => (o_fn o, o_neg o, o_arg o)) (r_op d))
          (match al with [] => [] | _ => merged_names (m_phase m) al end)
          (m_id m) (m_phase m) (m_msg m) (logdata_of al) (m_tags m) (m_rev m) (m_ver m)
          (match r_op d with Some o => resolve_data files dir o | None => None end).

(* RuleGroup.Add (default build: the id is optional, a non-zero id must be unique) *)
Fixpoint compile_rules (files : list (bytes * bytes)) (ds : list (bytes * rule_desc)) (seen : list N)
         : option (list dump) :=
  match ds with
  | [] => Some []
  | (dir, d) :: r =>
    let du := compile_rule files dir d in
    if negb (du_id du =? 0) && existsb (N.eqb (du_id du)) seen then None
    else option_map (cons du) (compile_rules files r (du_id du :: seen))
  end.

Definition compile_session (files : list (bytes * bytes)) (sts : list pstep) : option (list dump) :=
  match run_steps files (mk_g 0 [] []) sts with
  | None => None
  | Some g => compile_rules files (combine (rev (g_dirs g)) (rev (g_rules g))) []
  end.

Definition compile_config (files : list (bytes * bytes)) (text : bytes) : option (list dump) :=
  compile_session files [StepString text].

(* ------------------------------------------------------------------------------------ *)
(* renderer and rendering variations                                                    *)
(* ------------------------------------------------------------------------------------ *)
(* every double quote of the operator text is written as backslash-quote *)
Fixpoint escape_dq (s : bytes) : bytes :=
  match s with
  | [] => []
  | c :: s' => if c =? cDQ then cBS :: cDQ :: escape_dq s' else c :: escape_dq s'
  end.

(* letter-case variation: the i-th mask bit flips the case of the i-th byte (letters only) *)
Definition flip_case (c : N) : N :=
  if (65 <=? c) && (c <=? 90) then c + 32 else if (97 <=? c) && (c <=? 122) then c - 32 else c.
Fixpoint vary_case (mask : list bool) (s : bytes) : bytes :=
  match s, mask with
  | [], _ => []
  | c :: r, [] => s
  | c :: r, b :: m => (if b then flip_case c else c) :: vary_case m r
  end.

(* one target; [q] writes a regex key inside single quotes *)
Definition render_key (q : bool) (k : key_kind) : bytes :=
  match k with
  | KNone => []
  | KStr s => cCOLON :: s
  | KRx r => if q then cCOLON :: cSQ :: cSLASH :: r ++ [cSLASH; cSQ]
             else cCOLON :: cSLASH :: r ++ [cSLASH]
  end.
Definition render_target (q : bool) (t : target) : bytes :=
  (if t_neg t then [cBANG] else []) ++ (if t_count t then [cAMP] else [])
  ++ t_var t ++ render_key q (t_key t).
Fixpoint render_targets (qs : list bool) (ts : list target) : bytes :=
  match ts with
  | [] => []
  | [t] => render_target (hd false qs) t
  | t :: r => render_target (hd false qs) t ++ cPIPE :: render_targets (tl qs) r
  end.

Definition op_prefix (neg : bool) : bytes := if neg then [cBANG; cAT] else [cAT].
Definition render_op (o : opdesc) : bytes :=
  cDQ :: o_fn o ++ (match o_arg o with [] => [] | a => cSP :: escape_dq a end) ++ [cDQ].

(* one action; [q] writes the value inside single quotes, [mask] varies the letter case of
   the name, [pad] is written around the key and the value (TrimSpace removes it) *)
Record avar := mk_avar { av_quote : bool; av_mask : list bool; av_pad : bytes }.
Definition avar_plain : avar := mk_avar true [] [].
Definition render_action (v : avar) (a : action) : bytes :=
  av_pad v ++ vary_case (av_mask v) (a_name a) ++
  match a_value a with
  | [] => []
  | val => cCOLON :: av_pad v ++ (if av_quote v then cSQ :: val ++ [cSQ] else val)
  end.
Fixpoint render_actions (vs : list avar) (al : list action) : bytes :=
  match al with
  | [] => []
  | [a] => render_action (hd avar_plain vs) a
  | a :: r => render_action (hd avar_plain vs) a ++ cCOMMA :: render_actions (tl vs) r
  end.

Record rvar := mk_rvar {
  rv_tquote : list bool;      (* per target: regex key in single quotes *)
  rv_avars : list avar;       (* per action *)
  rv_gap1 : nat; rv_gap2 : nat  (* extra spaces between the three tokens *)
}.
Definition rvar_plain : rvar := mk_rvar [] [] 0 0.

Definition p_spaces (n : nat) : bytes := repeat cSP n.

(* the options of a SecRule directive *)
Definition render_rule (v : rvar) (d : rule_desc) : bytes :=
  render_targets (rv_tquote v) (r_targets d) ++ cSP :: p_spaces (rv_gap1 v)
  ++ match r_op d with Some o => render_op o | None => [] end
  ++ cSP :: p_spaces (rv_gap2 v)
  ++ cDQ :: render_actions (rv_avars v) (r_actions d) ++ [cDQ].

Local Open Scope string_scope.
Definition kw_secrule : bytes := str "SecRule".
Local Close Scope string_scope.

(* the logical line of a SecRule directive; [mask] varies the letter case of the keyword *)
Definition render_line (mask : list bool) (v : rvar) (d : rule_desc) : bytes :=
  vary_case mask kw_secrule ++ cSP :: render_rule v d.

(* physical layout of one logical line: pieces joined by backslash-newline, every physical
   line indented, comment / blank lines in front *)
Fixpoint join_pieces (indent : bytes) (pieces : list bytes) : bytes :=
  match pieces with
  | [] => []
  | [p] => indent ++ p ++ [cLF]
  | p :: r => indent ++ p ++ [cBS; cLF] ++ join_pieces indent r
  end.
Definition render_layout (front : list bytes) (indent : bytes) (pieces : list bytes) : bytes :=
  concat (map (fun l => l ++ [cLF]) front) ++ join_pieces indent pieces.

(* ------------------------------------------------------------------------------------ *)
(* which descriptions are representable: the exact guards of the round-trip theorem     *)
(* ------------------------------------------------------------------------------------ *)
Definition no_byte (ch : N) (s : bytes) : bool := forallb (fun c => negb (c =? ch)) s.

(* operator text: every double quote and the end of the text is preceded by an EVEN number of
   backslashes ([esc] = parity of the run of backslashes just before the current position) *)
Fixpoint wf_esc (s : bytes) (esc : bool) : bool :=
  match s with
  | [] => negb esc
  | c :: r => if c =? cDQ then negb esc && wf_esc r false
              else if c =? cBS then wf_esc r (negb esc) else wf_esc r false
  end.

(* regex key: every slash is escaped and the text does not end inside an escape, under the
   scanner's own notion of escape (a backslash toggles, any other byte clears) *)
Fixpoint wf_rx (s : bytes) (esc : bool) : bool :=
  match s with
  | [] => negb esc
  | c :: r => if c =? cSLASH then esc && wf_rx r false
              else if c =? cBS then wf_rx r (negb esc) else wf_rx r false
  end.

(* bytes that can never stand in the target token / in a line *)
Definition line_safe (s : bytes) : bool := no_byte cLF s.
Definition token_safe (s : bytes) : bool := no_byte cLF s && no_byte cSP s.

Definition wf_key (var : bytes) (selectable : bool) (k : key_kind) : bool :=
  match k with
  | KNone => true
  | KStr s =>
    selectable && negb (match s with [] => true | _ => false end) && token_safe s && no_byte cPIPE s
    && (if p_is_xml_or_json var then negb (p_last s =? cSLASH)
        else no_byte cSLASH s && no_byte cSQ s)
  | KRx r => negb (p_is_xml_or_json var) && token_safe r && wf_rx r false
  end.

Definition wf_target (t : target) : bool :=
  match p_assoc (t_var t) variable_table with
  | None => false
  | Some sel => wf_key (t_var t) sel (t_key t) && negb (t_neg t && t_count t)
  end.

Definition wf_op (o : opdesc) : bool :=
  operator_known (o_name o) && bytes_eqb (o_fn o) (op_prefix (o_neg o) ++ o_name o)
  && bytes_eqb (p_trim_space (o_arg o)) (o_arg o) && wf_esc (o_arg o) false && line_safe (o_arg o).

(* action value written between single quotes: a single quote only directly after a
   backslash, no backslash at the end *)
Fixpoint wf_qvalue (s : bytes) (prev : N) : bool :=
  match s with
  | [] => negb (prev =? cBS)
  | c :: r => (if c =? cSQ then prev =? cBS else true) && wf_qvalue r c
  end.
(* action value written bare: additionally no comma except directly after a backslash,
   nothing TrimSpace / MaybeRemoveQuotes would remove *)
Fixpoint wf_uvalue_scan (s : bytes) (prev : N) : bool :=
  match s with
  | [] => negb (prev =? cBS)
  | c :: r => (if (c =? cSQ) || (c =? cCOMMA) then prev =? cBS else true) && wf_uvalue_scan r c
  end.
Definition wf_uvalue (s : bytes) : bool :=
  wf_uvalue_scan s cCOLON && bytes_eqb (p_trim_space s) s && bytes_eqb (maybe_remove_quotes s) s.

Definition wf_action (a : action) : bool :=
  match p_assoc (a_name a) action_table with
  | None => false
  | Some ty => (a_type a =? ty) && wf_qvalue (a_value a) cSQ && line_safe (a_value a)
  end.

Definition count_disruptive (al : list action) : nat :=
  List.length (filter (fun a => a_type a =? 2) al).

Definition wf_desc (d : rule_desc) : bool :=
  negb (match r_targets d with [] => true | _ => false end)
  && forallb wf_target (r_targets d)
  && match r_op d with Some o => wf_op o | None => false end
  && forallb wf_action (r_actions d)
  && (count_disruptive (r_actions d) <=? 1)%nat.

(* a rendering variation is admissible for a description *)
Definition is_pad (s : bytes) : bool := forallb (fun c => (c =? cSP) || (c =? cTAB)) s.
Definition wf_avar (v : avar) (a : action) : bool :=
  is_pad (av_pad v) && (av_quote v || wf_uvalue (a_value a)).
Fixpoint wf_avars (vs : list avar) (al : list action) : bool :=
  match al with
  | [] => true
  | a :: r => wf_avar (hd avar_plain vs) a && wf_avars (tl vs) r
  end.
Definition wf_rvar (v : rvar) (d : rule_desc) : bool := wf_avars (rv_avars v) (r_actions d).
