package c06

import (
	"fmt"
	"os"

	"github.com/corazawaf/coraza/v3/verifharness/c06/c06lib"
	"github.com/corazawaf/coraza/v3/verifharness/vh"
)

// runPool: the deterministic part of "while other WAFs are being built or closed": every member of
// the WAF pool is built ALONE, probed and closed (its solo outcomes); then, for every ordered pair
// (A, B): build A, build B while A is open, probe B and A, close them (in both orders): every
// WAF's probe outcomes must equal its solo outcomes. The pool is written so that any two members
// are candidates for a collision in the process-wide pattern cache.
func (r *runner) runPool() {
	tmp, err := os.MkdirTemp("", "c06pool")
	if err != nil {
		return
	}
	defer os.RemoveAll(tmp)
	specs, err := c06lib.PoolSpecs(tmp)
	if err != nil {
		r.res.Notes = append(r.res.Notes, "pool: "+err.Error())
		return
	}
	solo := make([][]int, len(specs))
	for i, s := range specs {
		w, o, err := c06lib.BuildAndProbe(s)
		if err != nil {
			r.res.OracleFailures = append(r.res.OracleFailures, vh.OracleFailure{Key: "c06-pool-setup", What: err.Error(), Case: caseJSON{Kind: "pool"}})
			return
		}
		solo[i] = o
		_ = w.Close()
	}
	reported := map[string]bool{}
	check := func(who, other int, got []int, order string) {
		r.res.OracleEvaluations += len(got)
		if c06lib.SameInts(got, solo[who]) {
			return
		}
		k := specs[who].Name
		if reported[k] {
			return
		}
		reported[k] = true
		diff := ""
		for i := range got {
			if got[i] != solo[who][i] {
				diff += fmt.Sprintf(" %s=%q: interrupted by rule %d next to the other WAF, %d alone;", c06lib.PoolProbes[i].Name, c06lib.PoolProbes[i].Value, got[i], solo[who][i])
			}
		}
		r.res.OracleFailures = append(r.res.OracleFailures, vh.OracleFailure{Key: "c06-waf-outcome-depends-on-other-wafs",
			What: fmt.Sprintf("WAF %q gives other verdicts when WAF %q is open in the same process (%s) than when it is alone:%s", specs[who].Name, specs[other].Name, order, diff),
			Case: caseJSON{Kind: "pool", Pool: []string{specs[other].Name, specs[who].Name}}})
	}
	for a := range specs {
		for b := range specs {
			if a == b {
				continue
			}
			wa, oa, err := c06lib.BuildAndProbe(specs[a])
			if err != nil {
				continue
			}
			wb, ob, err := c06lib.BuildAndProbe(specs[b])
			if err != nil {
				_ = wa.Close()
				continue
			}
			check(a, b, oa, "built first, the other one not yet built")
			check(b, a, ob, "built second, while the other one is open")
			check(a, b, c06lib.ProbeWAF(wa), "probed again after the other one was built")
			if (a+b)%2 == 0 {
				_ = wa.Close()
				check(b, a, c06lib.ProbeWAF(wb), "after the other one was closed")
				_ = wb.Close()
			} else {
				_ = wb.Close()
				check(a, b, c06lib.ProbeWAF(wa), "after the other one was closed")
				_ = wa.Close()
			}
		}
	}
	r.dist["pool: ordered pairs of WAFs built next to each other"] += len(specs) * (len(specs) - 1)
	r.nontr["pool"] = true
}
