(* Props/C19.v — the property theorems of C19 and nothing else.
   C19: audit and error logging record exactly what happened, once, intact. *)
From Coq Require Import Permutation.
From Verif Require Import Base Audit AuditProofs.

(* the coded nesting of conditions of ProcessLogging is the documented table, for every engine mode,
   rule flag, pattern configuration, status and interruption kind; rel is the relevant-status regexp *)
Theorem C19_decision_table : forall (rel : bytes -> bool) c t,
  should_audit rel c t = audit_table rel c t.
Proof. exact should_audit_table. Qed.
Print Assumptions C19_decision_table.
