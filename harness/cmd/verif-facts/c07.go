package main

import (
	"fmt"
	"go/ast"
	"go/token"
	"os"
	"path/filepath"
	"sort"
	"strconv"
	"strings"
)

func init() { extractors["C07"] = factsC07 }

// factsC07 extracts
//   - internal/variables: the name table rulemapRev (source order) and the cases of CanBeSelected
//   - internal/corazawaf: the arms of (*Transaction).Collection (which variable returns what) and
//     the fall-through return
//   - the nil guards of the three callers of Collection (macro.expandToken, Transaction.GetField,
//     setvarFn.evaluateTxCollection)
//   - every memoize call site: the literal prefix of its key and the Go type its result is
//     asserted to
//
// and generates the obligations collection_switch_total, var_table_matches_model,
// memo_sites_tagged (instantiating NoPanicProofs.np_memo_typed_lookup_total).
func factsC07(repo, out string) error {
	vp, err := parseDir(filepath.Join(repo, "internal", "variables"))
	if err != nil {
		return err
	}
	// rulemapRev
	var names, idents []string
	for _, fn := range sortedFiles(vp) {
		for _, d := range vp.files[fn].Decls {
			gd, ok := d.(*ast.GenDecl)
			if !ok || gd.Tok != token.VAR {
				continue
			}
			for _, s := range gd.Specs {
				vs, ok := s.(*ast.ValueSpec)
				if !ok || len(vs.Names) != 1 || vs.Names[0].Name != "rulemapRev" || len(vs.Values) != 1 {
					continue
				}
				cl, ok := vs.Values[0].(*ast.CompositeLit)
				if !ok {
					continue
				}
				for _, e := range cl.Elts {
					kv, ok := e.(*ast.KeyValueExpr)
					if !ok {
						continue
					}
					k, ok1 := kv.Key.(*ast.BasicLit)
					v, ok2 := kv.Value.(*ast.Ident)
					if ok1 && ok2 {
						n, _ := strconv.Unquote(k.Value)
						names = append(names, n)
						idents = append(idents, v.Name)
					}
				}
			}
		}
	}
	if len(names) == 0 {
		return fmt.Errorf("rulemapRev not found")
	}
	nameOf := map[string]string{}
	for i, id := range idents {
		nameOf[id] = names[i]
	}
	// CanBeSelected
	var selectable []string
	if fd, _ := vp.findFunc("RuleVariable", "CanBeSelected"); fd != nil {
		ast.Inspect(fd.Body, func(n ast.Node) bool {
			cc, ok := n.(*ast.CaseClause)
			if !ok || len(cc.Body) == 0 {
				return true
			}
			if strings.Contains(vp.src(cc.Body[0]), "return true") {
				for _, e := range cc.List {
					if id, ok := e.(*ast.Ident); ok {
						selectable = append(selectable, nameOf[id.Name])
					}
				}
			}
			return true
		})
	} else {
		return fmt.Errorf("CanBeSelected not found")
	}

	// (*Transaction).Collection
	cp, err := parseDir(filepath.Join(repo, "internal", "corazawaf"))
	if err != nil {
		return err
	}
	cf, _ := cp.findFunc("Transaction", "Collection")
	if cf == nil {
		return fmt.Errorf("(*Transaction).Collection not found")
	}
	type arm struct{ name, ret string }
	var arms []arm
	fallthroughRet := ""
	for _, st := range cf.Body.List {
		switch s := st.(type) {
		case *ast.SwitchStmt:
			for _, c := range s.Body.List {
				cc := c.(*ast.CaseClause)
				ret := ""
				for _, b := range cc.Body {
					if rs, ok := b.(*ast.ReturnStmt); ok && len(rs.Results) == 1 {
						ret = cp.src(rs.Results[0])
					}
				}
				if cc.List == nil {
					fallthroughRet = ret // default:
					continue
				}
				for _, e := range cc.List {
					id := cp.src(e)
					id = strings.TrimPrefix(id, "variables.")
					n, ok := nameOf[id]
					if !ok {
						n = "?" + id
					}
					arms = append(arms, arm{n, ret})
				}
			}
		case *ast.ReturnStmt:
			if len(s.Results) == 1 {
				fallthroughRet = cp.src(s.Results[0])
			}
		}
	}

	// nil guards of the callers
	guard := func(dir, recv, fn string, needles ...string) (bool, error) {
		p, err := parseDir(filepath.Join(repo, dir))
		if err != nil {
			return false, err
		}
		fd, _ := p.findFunc(recv, fn)
		if fd == nil {
			return false, fmt.Errorf("%s.%s not found in %s", recv, fn, dir)
		}
		txt := p.src(fd.Body)
		for _, n := range needles {
			if !strings.Contains(txt, n) {
				return false, nil
			}
		}
		return true, nil
	}
	macroNil, err := guard(filepath.Join("experimental", "plugins", "macro"), "", "expandToken", "tx.Collection(", "case nil:")
	if err != nil {
		return err
	}
	getFieldNil, err := guard(filepath.Join("internal", "corazawaf"), "Transaction", "GetField", "tx.Collection(", "if col == nil")
	if err != nil {
		return err
	}
	setvarNil, err := guard(filepath.Join("internal", "actions"), "setvarFn", "evaluateTxCollection", "tx.Collection(", ".(collection.Map); !ok")
	if err != nil {
		return err
	}

	// memoize call sites
	type site struct{ where, prefix, typ string }
	var sites []site
	for _, dir := range []string{"internal/operators", "internal/corazawaf", "internal/actions", "internal/seclang"} {
		p, err := parseDir(filepath.Join(repo, filepath.FromSlash(dir)))
		if err != nil {
			return err
		}
		for _, fn := range sortedFiles(p) {
			for _, d := range p.files[fn].Decls {
				fd, ok := d.(*ast.FuncDecl)
				if !ok || fd.Body == nil {
					continue
				}
				params := map[string]bool{}
				if fd.Type.Params != nil {
					for _, f := range fd.Type.Params.List {
						for _, n := range f.Names {
							params[n.Name] = true
						}
					}
				}
				// assignments ident := expr in this function (for key variables)
				assigns := map[string]ast.Expr{}
				ast.Inspect(fd.Body, func(n ast.Node) bool {
					if as, ok := n.(*ast.AssignStmt); ok && len(as.Lhs) >= 1 && len(as.Rhs) == 1 {
						if id, ok := as.Lhs[0].(*ast.Ident); ok {
							if _, seen := assigns[id.Name]; !seen {
								assigns[id.Name] = as.Rhs[0]
							}
						}
					}
					return true
				})
				ast.Inspect(fd.Body, func(n ast.Node) bool {
					as, ok := n.(*ast.AssignStmt)
					if !ok || len(as.Rhs) != 1 {
						return true
					}
					ce, ok := as.Rhs[0].(*ast.CallExpr)
					if !ok {
						return true
					}
					fun := p.src(ce.Fun)
					var key ast.Expr
					switch {
					case fun == "memoizeDo" && len(ce.Args) == 3:
						key = ce.Args[1]
					case strings.HasSuffix(fun, ".memoizeDo") && len(ce.Args) == 2:
						key = ce.Args[0]
					case strings.HasSuffix(fun, ".Do") && strings.Contains(strings.ToLower(fun), "memoizer") && len(ce.Args) == 2:
						key = ce.Args[0]
					default:
						return true
					}
					if id, ok := key.(*ast.Ident); ok && params[id.Name] {
						return true // a forwarding wrapper (operators.memoizeDo, Rule.memoizeDo)
					}
					prefix := literalPrefix(p, key, assigns)
					// the identifier receiving the value and the type it is asserted to
					typ := ""
					if id, ok := as.Lhs[0].(*ast.Ident); ok {
						ast.Inspect(fd.Body, func(m ast.Node) bool {
							if ta, ok := m.(*ast.TypeAssertExpr); ok && ta.Type != nil && typ == "" {
								if x, ok := ta.X.(*ast.Ident); ok && x.Name == id.Name {
									typ = p.src(ta.Type)
								}
							}
							return true
						})
					}
					pos := p.fset.Position(ce.Pos())
					sites = append(sites, site{fmt.Sprintf("%s/%s:%d", dir, fn, pos.Line), prefix, typ})
					return true
				})
			}
		}
	}
	sort.Slice(sites, func(i, j int) bool { return sites[i].where < sites[j].where })

	typeTag := map[string]int{"*regexp.Regexp": 1, "ahocorasick.AhoCorasick": 2, "*rxCompiled": 3, "*binaryregexp.Regexp": 4, "*jsonschema.Schema": 5}

	var b strings.Builder
	b.WriteString("(* GENERATED by verif-facts C07 from " + repo + " — do not edit *)\n")
	b.WriteString("From Coq Require Import String List Bool NArith.\nFrom Verif Require Import Base NoPanic NoPanicProofs.\nImport ListNotations.\nOpen Scope string_scope.\n\n")
	fmt.Fprintf(&b, "(* internal/variables/variablesmap.gen.go: rulemapRev, source order *)\nDefinition var_names : list string := %s.\n", coqStrList(names))
	fmt.Fprintf(&b, "Definition var_selectable : list string := %s.\n", coqStrList(selectable))
	armItems := make([]string, len(arms))
	for i, a := range arms {
		armItems[i] = "(" + coqStr(a.name) + ", " + coqStr(a.ret) + ")"
	}
	fmt.Fprintf(&b, "(* internal/corazawaf/transaction.go: arms of Transaction.Collection *)\nDefinition collection_arms : list (string * string) := [%s].\n", strings.Join(armItems, "; "))
	fmt.Fprintf(&b, "Definition collection_fallthrough : string := %s.\n", coqStr(fallthroughRet))
	fmt.Fprintf(&b, "Definition macro_handles_nil : bool := %v.\nDefinition getfield_handles_nil : bool := %v.\nDefinition setvar_handles_nil : bool := %v.\n", macroNil, getFieldNil, setvarNil)
	siteItems := make([]string, len(sites))
	for i, s := range sites {
		siteItems[i] = fmt.Sprintf("(%s, %s, %s, %d%%N)", coqStr(s.where), coqStr(s.prefix), coqStr(s.typ), typeTag[s.typ])
	}
	fmt.Fprintf(&b, "(* memoize call sites: (where, literal key prefix, asserted Go type, type tag) *)\nDefinition memo_sites : list (string * string * string * N) := [%s].\n\n", strings.Join(siteItems, ";\n  "))

	b.WriteString(`Fixpoint str_mem (s : string) (l : list string) : bool :=
  match l with [] => false | x :: r => String.eqb s x || str_mem s r end.
Fixpoint arm_of (s : string) (l : list (string * string)) : option string :=
  match l with [] => None | (n, r) :: t => if String.eqb s n then Some r else arm_of s t end.
Definition list_string_eqb (a b : list string) : bool :=
  Nat.eqb (List.length a) (List.length b) && forallb (fun p => String.eqb (fst p) (snd p)) (combine a b).

(* the name table and the selectable set of the model are the ones of the source *)
Theorem var_table_matches_model :
  list_string_eqb var_names np_var_names = true /\ list_string_eqb var_selectable np_selectable_names = true /\
  np_var_parse (str "TX") = Some np_var_tx /\ np_var_parse (str "json") = Some np_var_json.
Proof. vm_compute. repeat split; reflexivity. Qed.

(* the variables for which Collection() returns the nil interface *)
Definition returns_nil (name : string) : bool :=
  match arm_of name collection_arms with
  | Some r => String.eqb r "nil"
  | None => String.eqb collection_fallthrough "nil"
  end.
Definition nil_variables : list string := filter returns_nil var_names.

(* every variable name the parser accepts maps to a non-nil collection (its own arm or the
   fall-through collections.Noop), except JSON; every arm names a variable of the table; and the
   three callers of Collection() test for nil before using the result *)
Theorem collection_switch_total :
  list_string_eqb nil_variables ["JSON"] = true /\
  forallb (fun a => str_mem (fst a) var_names) collection_arms = true /\
  String.eqb collection_fallthrough "collections.Noop" = true /\
  macro_handles_nil && getfield_handles_nil && setvar_handles_nil = true.
Proof. vm_compute. repeat split; reflexivity. Qed.

(* every memoize call site builds its key from a literal tag, asserts a known type, and sites
   asserting different types have incomparable tags: the hypothesis of the typed-lookup theorem *)
Definition memo_msites : list np_msite :=
  map (fun s => let '(_, p, _, t) := s in {| ms_prefix := str p; ms_type := t |}) memo_sites.

Theorem memo_sites_tagged :
  forallb (fun s => let '(_, p, _, t) := s in negb (String.eqb p "") && negb (N.eqb t 0)) memo_sites = true /\
  np_sites_ok memo_msites = true /\
  forallb (fun s => existsb (fun m => bytes_eqb (ms_prefix m) (ms_prefix s) && N.eqb (ms_type m) (ms_type s)) np_sites_fixed) memo_msites = true.
Proof. vm_compute. repeat split; reflexivity. Qed.

(* the parametric theorem instantiated with the call sites the source has now *)
Theorem C07_memo_typed_lookup_total_src :
  forall calls, (forall s x f, In (s, x, f) calls -> In s memo_msites) -> np_memo_run [] calls = false.
Proof. apply np_memo_typed_lookup_total. exact (proj1 (proj2 memo_sites_tagged)). Qed.
`)
	return os.WriteFile(filepath.Join(out, "FactsC07.v"), []byte(b.String()), 0o644)
}

func sortedFiles(p *pkgFiles) []string {
	names := make([]string, 0, len(p.files))
	for n := range p.files {
		names = append(names, n)
	}
	sort.Strings(names)
	return names
}

// literalPrefix returns the string literal a key expression starts with: "lit" + x, an identifier
// assigned such an expression, or fmt.Sprintf("lit%v...", ...) (up to the first verb).
func literalPrefix(p *pkgFiles, e ast.Expr, assigns map[string]ast.Expr) string {
	switch x := e.(type) {
	case *ast.BasicLit:
		if x.Kind == token.STRING {
			s, _ := strconv.Unquote(x.Value)
			return s
		}
	case *ast.BinaryExpr:
		if x.Op == token.ADD {
			return literalPrefix(p, x.X, assigns)
		}
	case *ast.ParenExpr:
		return literalPrefix(p, x.X, assigns)
	case *ast.Ident:
		if a, ok := assigns[x.Name]; ok {
			delete(assigns, x.Name) // no cycles
			return literalPrefix(p, a, assigns)
		}
	case *ast.CallExpr:
		if p.src(x.Fun) == "fmt.Sprintf" && len(x.Args) > 0 {
			if bl, ok := x.Args[0].(*ast.BasicLit); ok {
				s, _ := strconv.Unquote(bl.Value)
				if i := strings.Index(s, "%"); i >= 0 {
					s = s[:i]
				}
				return s
			}
		}
	}
	return ""
}
