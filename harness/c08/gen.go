package c08

import (
	"fmt"
	"math/rand"

	"github.com/corazawaf/coraza/v3/verifharness/vh"
)

var markerPool = []string{"M1", "M2", "END", "m1"} // m1 vs M1: marker names are compared byte-wise

type builder struct {
	r       *rand.Rand
	rules   []ruleJ
	nextID  int
	nextKey int
	maxKeys int
}

func (b *builder) key() int {
	if b.nextKey < b.maxKeys {
		b.nextKey++
		return b.nextKey - 1
	}
	if b.r.Intn(3) == 0 {
		return -1
	}
	return b.r.Intn(b.maxKeys)
}

func (b *builder) marker(name string) { b.rules = append(b.rules, ruleJ{Marker: name}) }

func (b *builder) flowAct(scopeOK bool) []actJ {
	r := b.r
	switch x := r.Intn(100); {
	case x < 30:
		return []actJ{{A: "skip", N: 1 + r.Intn(4)}}
	case x < 58:
		return []actJ{{A: "skipAfter", M: markerPool[r.Intn(len(markerPool))]}}
	case x < 80 && scopeOK:
		return []actJ{{A: "allow", Scope: []string{"", "phase", "request"}[r.Intn(3)]}}
	case x < 88 && scopeOK:
		return []actJ{{A: "deny"}}
	case x < 90:
		return []actJ{{A: "skip", N: 1 + r.Intn(3)}, {A: "skipAfter", M: markerPool[r.Intn(len(markerPool))]}}
	case x < 92:
		return []actJ{{A: "skipAfter", M: markerPool[r.Intn(2)]}, {A: "skip", N: 1 + r.Intn(2)}, {A: "skipAfter", M: markerPool[r.Intn(2)]}}
	case x < 94:
		return []actJ{{A: "skip", N: 1 + r.Intn(4)}, {A: "skip", N: 1 + r.Intn(4)}}
	case scopeOK:
		return disruptiveWithFlow(r)
	}
	return []actJ{{A: "skip", N: 1}}
}

// disruptiveWithFlow: ONE rule carrying a disruptive action together with skip / skipAfter (the skip
// state set by the rule that also interrupts or allows must not outlive its phase)
func disruptiveWithFlow(r *rand.Rand) []actJ {
	var dis actJ
	if r.Intn(2) == 0 {
		dis = actJ{A: "deny"}
	} else {
		dis = actJ{A: "allow", Scope: []string{"", "phase", "request"}[r.Intn(3)]}
	}
	var flow []actJ
	switch r.Intn(4) {
	case 0, 1:
		flow = []actJ{{A: "skip", N: 1 + r.Intn(3)}}
	case 2:
		flow = []actJ{{A: "skipAfter", M: markerPool[r.Intn(len(markerPool))]}}
	default:
		flow = []actJ{{A: "skip", N: 1 + r.Intn(2)}, {A: "skipAfter", M: markerPool[r.Intn(2)]}}
	}
	if r.Intn(2) == 0 {
		return append([]actJ{dis}, flow...)
	}
	return append(flow, dis)
}

// rule appends a rule of the given phase; chainLen links; acts as given
func (b *builder) rule(phase, chainLen int, acts []actJ, secAction bool) *ruleJ {
	b.nextID++
	ru := ruleJ{ID: b.nextID, Phase: phase, Acts: acts}
	for j := 0; j < chainLen; j++ {
		l := linkJ{Key: b.key()}
		if j == 0 && secAction {
			l.Key = -1
		}
		if j > 0 && b.r.Intn(8) == 0 {
			// flow actions on a chain member: accepted by the parser, never executed
			fa := b.flowAct(false)
			l.Acts = fa
		}
		ru.Links = append(ru.Links, l)
	}
	b.rules = append(b.rules, ru)
	return &b.rules[len(b.rules)-1]
}

func chainLen(r *rand.Rand) int {
	switch x := r.Intn(100); {
	case x < 58:
		return 1
	case x < 78:
		return 2
	case x < 91:
		return 3
	}
	return 4
}

func genRandom(r *rand.Rand, maxKeys int) ruleSet {
	b := &builder{r: r, maxKeys: maxKeys}
	n := 3 + r.Intn(10)
	busy := []int{1 + r.Intn(5)}
	for len(busy) < 1+r.Intn(3) {
		busy = append(busy, 1+r.Intn(5))
	}
	for len(b.rules) < n {
		if r.Intn(100) < 22 {
			b.marker(markerPool[r.Intn(len(markerPool))])
			continue
		}
		phase := busy[r.Intn(len(busy))]
		if r.Intn(5) == 0 {
			phase = 1 + r.Intn(5)
		}
		var acts []actJ
		if r.Intn(100) < 62 {
			acts = b.flowAct(true)
		}
		b.rule(phase, chainLen(r), acts, r.Intn(10) == 0)
	}
	// per-transaction removals on some links (ids of real rules of this set, any position)
	if b.nextID > 0 {
		for i := range b.rules {
			for j := range b.rules[i].Links {
				if r.Intn(12) == 0 {
					b.rules[i].Links[j].Rm = append(b.rules[i].Links[j].Rm, 1+r.Intn(b.nextID))
				}
			}
		}
	}
	if r.Intn(4) == 0 {
		for i := range b.rules {
			for j := range b.rules[i].Links {
				if r.Intn(10) == 0 {
					b.rules[i].Links[j].Eng = pickSwitch(r)
				}
			}
		}
	}
	return ruleSet{Engine: pickEngine(r), Rules: b.rules, Shape: "random"}
}

func pickEngine(r *rand.Rand) string {
	switch x := r.Intn(100); {
	case x < 25:
		return "DetectionOnly"
	case x < 27:
		return "Off"
	}
	return "On"
}

var modes = []string{"On", "DetectionOnly", "Off"}

func pickSwitch(r *rand.Rand) string {
	switch x := r.Intn(100); {
	case x < 45:
		return "DetectionOnly"
	case x < 90:
		return "On"
	}
	return "Off"
}

// genInterruptLeak: a rule that interrupts (or allows) AND sets skip state, more rules behind it in the
// file, and logging-phase rules (with and without markers) that a leaked counter / pending marker would
// pass over.
func genInterruptLeak(r *rand.Rand, maxKeys int) ruleSet {
	b := &builder{r: r, maxKeys: maxKeys}
	p := 1 + r.Intn(4)
	if r.Intn(3) == 0 {
		b.rule(5, 1, nil, true) // a logging rule in front of everything
	}
	for i := r.Intn(3); i > 0; i-- {
		b.rule(p, 1, nil, r.Intn(2) == 0)
	}
	b.rule(p, chainLen(r), disruptiveWithFlow(r), r.Intn(2) == 0)
	for i := r.Intn(3); i > 0; i-- {
		b.rule(p, 1, nil, r.Intn(2) == 0)
	}
	if r.Intn(2) == 0 && p < 4 {
		b.rule(p+1, 1, nil, true)
	}
	for i := 1 + r.Intn(4); i > 0; i-- {
		if r.Intn(4) == 0 {
			b.marker(markerPool[r.Intn(2)])
		}
		b.rule(5, 1, nil, r.Intn(4) != 0)
	}
	eng := "On"
	if r.Intn(6) == 0 {
		eng = "DetectionOnly"
	}
	return ruleSet{Engine: eng, Rules: b.rules, Shape: "interrupt-with-skip-state"}
}

// genEngineSwitch: ctl:ruleEngine switches the mode of the running transaction, before / after (same
// phase, earlier phase, same rule, on a chain member) rules with allow and deny, under every configured
// mode; followed by rules that allow would pass over.
func genEngineSwitch(r *rand.Rand, maxKeys int) ruleSet {
	b := &builder{r: r, maxKeys: maxKeys}
	p := 1 + r.Intn(4)
	sw := func(phase int) {
		ru := b.rule(phase, 1+r.Intn(2), nil, r.Intn(2) == 0)
		ru.Links[r.Intn(len(ru.Links))].Eng = pickSwitch(r)
	}
	dis := func(phase int) {
		var acts []actJ
		switch r.Intn(5) {
		case 0:
			acts = []actJ{{A: "deny"}}
		case 1:
			acts = disruptiveWithFlow(r)
		default:
			acts = []actJ{{A: "allow", Scope: []string{"", "phase", "request"}[r.Intn(3)]}}
		}
		ru := b.rule(phase, chainLen(r), acts, r.Intn(2) == 0)
		if r.Intn(5) == 0 {
			// the rule that allows / denies switches the mode itself (its ctl runs first)
			ru.Links[r.Intn(len(ru.Links))].Eng = pickSwitch(r)
		}
	}
	plain := func(phase int) { b.rule(phase, 1, nil, r.Intn(2) == 0) }
	switch r.Intn(4) {
	case 0: // switch, then allow/deny in the same phase
		sw(p)
		dis(p)
	case 1: // switch in an earlier phase
		sw(1 + r.Intn(p))
		plain(p)
		dis(p)
	case 2: // allow/deny first, switch behind it (must have no retroactive effect)
		dis(p)
		sw(p)
		plain(p)
	default: // two switches around the disruptive rule
		sw(p)
		dis(p)
		sw(p)
		dis(p)
	}
	plain(p)
	if r.Intn(2) == 0 {
		dis(p)
	}
	for q := p + 1; q <= 5; q++ {
		if r.Intn(3) != 0 || q == 5 {
			plain(q)
		}
	}
	eng := modes[r.Intn(2)]
	if r.Intn(12) == 0 {
		eng = "Off"
	}
	return ruleSet{Engine: eng, Rules: b.rules, Shape: "engine-switch"}
}

// genPlacement builds the placements the property's quantifier names: the jumping rule first / last /
// inside its phase, skip counts around the number of rules left, the marker after / before / absent /
// duplicated / only behind rules of a later phase, allow scopes at the end of a phase, always followed
// (and preceded) in the file by rules of other phases so that leaked residual state shows.
func genPlacement(r *rand.Rand, maxKeys int) ruleSet {
	b := &builder{r: r, maxKeys: maxKeys}
	p := 1 + r.Intn(5)
	k := 2 + r.Intn(4) // rules of phase p
	pos := r.Intn(k)   // position of the jumper
	if x := r.Intn(3); x == 0 {
		pos = 0
	} else if x == 1 {
		pos = k - 1
	}
	left := k - 1 - pos
	target := markerPool[r.Intn(2)]
	kind := r.Intn(10)
	var acts []actJ
	markerWhere := ""
	shape := ""
	switch {
	case kind < 3:
		n := left + r.Intn(3) - 1
		if n < 1 {
			n = 1 + r.Intn(2)
		}
		if n > 6 {
			n = 6
		}
		acts = []actJ{{A: "skip", N: n}}
		shape = fmt.Sprintf("skip%+d", n-left)
	case kind < 7:
		acts = []actJ{{A: "skipAfter", M: target}}
		markerWhere = []string{"after", "before", "absent", "dup", "behind-later-phase", "before-and-after", "other-name"}[r.Intn(7)]
		shape = "skipAfter-" + markerWhere
	default:
		sc := []string{"", "phase", "request"}[r.Intn(3)]
		acts = []actJ{{A: "allow", Scope: sc}}
		shape = "allow-" + sc
	}
	other := func() {
		// a plain rule of another phase, sometimes with a match-dependent key
		q := 1 + r.Intn(5)
		for q == p {
			q = 1 + r.Intn(5)
		}
		b.rule(q, 1, nil, r.Intn(3) == 0)
	}
	later := func() {
		if p == 5 {
			other()
			return
		}
		b.rule(p+1+r.Intn(5-p), 1, nil, r.Intn(3) == 0)
	}
	if r.Intn(2) == 0 {
		other()
	}
	if markerWhere == "before" || markerWhere == "before-and-after" {
		b.marker(target)
	}
	for i := 0; i < k; i++ {
		if i == pos {
			b.rule(p, chainLen(r), acts, r.Intn(3) == 0)
		} else {
			var a []actJ
			if r.Intn(6) == 0 {
				a = b.flowAct(true)
			}
			b.rule(p, 1, a, r.Intn(4) == 0)
		}
		if r.Intn(4) == 0 {
			other() // rules of other phases interleaved in the file
		}
		if i > pos && i == pos+1+r.Intn(k) {
			switch markerWhere {
			case "after", "dup", "before-and-after":
				b.marker(target)
			case "other-name":
				b.marker("m1")
			}
		}
	}
	switch markerWhere {
	case "after", "before-and-after":
		if !hasMarkerAfterJumper(b.rules, target) {
			b.marker(target)
		}
	case "dup":
		b.marker(target)
		later()
		b.marker(target)
	case "behind-later-phase":
		later()
		b.marker(target)
	}
	later()
	if r.Intn(2) == 0 {
		later()
	}
	if r.Intn(3) == 0 {
		b.rule(5, 1, nil, true)
	}
	return ruleSet{Engine: pickEngine(r), Rules: b.rules, Shape: "placement/" + shape}
}

// genRemoval: a rule removes later rules of the transaction (ctl:ruleRemoveById) before a jumping rule
// runs; removed rules must not count for skip:N and must not be evaluated after the jump.
func genRemoval(r *rand.Rand, maxKeys int) ruleSet {
	b := &builder{r: r, maxKeys: maxKeys}
	p := 1 + r.Intn(5)
	if r.Intn(3) == 0 {
		b.rule(1+r.Intn(5), 1, nil, false)
	}
	q := p
	if p > 1 && r.Intn(3) == 0 {
		q = 1 + r.Intn(p) // the removing rule may run in an earlier phase
	}
	b.rule(q, 1+r.Intn(2), nil, r.Intn(2) == 0)
	remover := len(b.rules) - 1
	var acts []actJ
	switch r.Intn(4) {
	case 0, 1:
		acts = []actJ{{A: "skip", N: 1 + r.Intn(3)}}
	case 2:
		acts = []actJ{{A: "skipAfter", M: "M1"}}
	}
	b.rule(p, 1, acts, r.Intn(2) == 0)
	first := b.nextID + 1
	k := 3 + r.Intn(3)
	for i := 0; i < k; i++ {
		if r.Intn(5) == 0 {
			b.marker("M1")
		}
		var a []actJ
		if r.Intn(6) == 0 {
			a = b.flowAct(true)
		}
		b.rule(p, 1, a, r.Intn(3) == 0)
	}
	if p < 5 {
		b.rule(p+1+r.Intn(5-p), 1, nil, r.Intn(2) == 0)
	}
	last := b.nextID
	li := r.Intn(len(b.rules[remover].Links))
	for n := 1 + r.Intn(2); n > 0; n-- {
		id := first + r.Intn(last-first+1)
		if r.Intn(12) == 0 {
			id = 0 // ctl:ruleRemoveById=0 removes the SecMarkers (their ID_ is 0)
		}
		b.rules[remover].Links[li].Rm = append(b.rules[remover].Links[li].Rm, id)
	}
	return ruleSet{Engine: pickEngine(r), Rules: b.rules, Shape: "removal"}
}

// genSeries: one WAF, 2-4 transactions in sequence (each closed before the next, so the pooled
// Transaction object is handed back). Earlier transactions fire allow / allow:request / allow:phase /
// skip / skipAfter(absent marker) / deny / ctl:ruleEngine and end at every possible point (after phase
// 1..4 without ProcessLogging, or completely); the last one is a plain transaction (no directive rule
// matches) that must behave exactly as on a fresh WAF and as the model says for it alone.
func genSeries(r *rand.Rand) ruleSet {
	b := &builder{r: r, maxKeys: 48}
	nDir := 1 + r.Intn(3)
	var dirKeys []int
	directive := func() {
		p := 1 + r.Intn(4)
		var acts []actJ
		eng := ""
		switch x := r.Intn(12); {
		case x < 3:
			acts = []actJ{{A: "allow"}}
		case x < 5:
			acts = []actJ{{A: "allow", Scope: "request"}}
			p = 1 + r.Intn(2)
		case x < 6:
			acts = []actJ{{A: "allow", Scope: "phase"}}
		case x < 7:
			acts = []actJ{{A: "skip", N: 1 + r.Intn(4)}}
		case x < 8:
			acts = []actJ{{A: "skipAfter", M: "NOPE"}}
		case x < 9:
			acts = disruptiveWithFlow(r)
		case x < 10:
			acts = []actJ{{A: "deny"}}
		default:
			eng = []string{"Off", "Off", "DetectionOnly"}[r.Intn(3)]
		}
		ru := b.rule(p, 1, acts, false)
		ru.Links[0].Eng = eng
		dirKeys = append(dirKeys, ru.Links[0].Key)
	}
	plain := func(p int) { b.rule(p, 1, nil, r.Intn(3) != 0) }
	for p := 1; p <= 5; p++ {
		if r.Intn(4) != 0 {
			plain(p)
		}
	}
	for i := 0; i < nDir; i++ {
		directive()
		if r.Intn(2) == 0 {
			plain(1 + r.Intn(5))
		}
	}
	if r.Intn(3) == 0 {
		// allow:request followed by ctl:ruleEngine=Off in the same phase: the allow is never consumed
		ru := b.rule(1, 1, []actJ{{A: "allow", Scope: "request"}}, false)
		k := ru.Links[0].Key
		ru2 := b.rule(1, 1, nil, false)
		ru2.Links[0].Key = k
		ru2.Links[0].Eng = "Off"
		dirKeys = append(dirKeys, k)
	}
	for p := 1; p <= 5; p++ {
		plain(p)
	}
	n := nKeys(b.rules)
	isDir := map[int]bool{}
	for _, k := range dirKeys {
		isDir[k] = true
	}
	mk := func(dirOn bool) []bool {
		req := make([]bool, n)
		any := false
		for k := range req {
			if isDir[k] {
				req[k] = dirOn && r.Intn(3) != 0
				any = any || req[k]
			} else {
				req[k] = r.Intn(4) != 0
			}
		}
		if dirOn && !any {
			req[dirKeys[r.Intn(len(dirKeys))]] = true
		}
		return req
	}
	set := ruleSet{Engine: "On", Rules: b.rules, Shape: "series"}
	if r.Intn(8) == 0 {
		set.Engine = "DetectionOnly"
	}
	for i := 1 + r.Intn(2); i > 0; i-- {
		var hist []histStep
		for j := 1 + r.Intn(3); j > 0; j-- {
			hist = append(hist, histStep{Req: mk(true), Stop: 1 + r.Intn(5)})
		}
		set.Reqs = append(set.Reqs, mk(false))
		set.Hists = append(set.Hists, hist)
	}
	return set
}

// addConfig decorates a rule set with configure-time directives: SecDefaultAction for some phases (placed
// at the top or in the middle of the file: it only reaches rules read after it), rules that say block or
// carry no disruptive action at all (they inherit the default one), SecRuleRemoveById with ids, ranges, 0
// (the first SecMarker) and unknown ids at the end or in the middle of the file, and range forms of
// ctl:ruleRemoveById.
func addConfig(r *rand.Rand, set ruleSet) ruleSet {
	rules := append([]ruleJ{}, set.Rules...)
	maxID := 0
	for _, x := range rules {
		if x.ID > maxID {
			maxID = x.ID
		}
	}
	// block / inherit
	for i := range rules {
		x := &rules[i]
		if x.Marker != "" || len(x.Links) == 0 {
			continue
		}
		hasDis := false
		for _, a := range x.Acts {
			if a.A == "allow" || a.A == "deny" {
				hasDis = true
			}
		}
		switch {
		case !hasDis && r.Intn(100) < 55:
			if r.Intn(2) == 0 {
				x.Inherit = true
			} else {
				acts := append([]actJ{}, x.Acts...)
				k := r.Intn(len(acts) + 1)
				acts = append(acts[:k], append([]actJ{{A: "block"}}, acts[k:]...)...)
				x.Acts = acts
			}
		case hasDis && r.Intn(100) < 15:
			acts := append([]actJ{}, x.Acts...)
			for k := range acts {
				if acts[k].A == "allow" || acts[k].A == "deny" {
					acts[k] = actJ{A: "block"}
				}
			}
			x.Acts = acts
		}
	}
	// ctl ranges
	for i := range rules {
		for j := range rules[i].Links {
			if r.Intn(14) == 0 && maxID > 0 {
				lo := r.Intn(maxID + 1)
				hi := lo + r.Intn(3)
				links := append([]linkJ{}, rules[i].Links...)
				links[j].RmR = append(append([][2]int{}, links[j].RmR...), [2]int{lo, hi})
				rules[i].Links = links
			}
		}
	}
	insert := func(at int, d ruleJ) {
		rules = append(rules[:at], append([]ruleJ{d}, rules[at:]...)...)
	}
	// SecRuleRemoveById
	for n := r.Intn(3); n > 0; n-- {
		var toks []string
		for k := 1 + r.Intn(2); k > 0; k-- {
			switch x := r.Intn(10); {
			case x < 5:
				toks = append(toks, fmt.Sprint(1+r.Intn(maxID+1)))
			case x < 8:
				lo := r.Intn(maxID + 1)
				toks = append(toks, fmt.Sprintf("%d-%d", lo, lo+r.Intn(3)))
			default:
				toks = append(toks, "0")
			}
		}
		at := len(rules)
		if r.Intn(2) == 0 {
			at = r.Intn(len(rules) + 1)
		}
		insert(at, ruleJ{Remove: toks})
	}
	// SecDefaultAction
	// phases that hold rules saying block / nothing disruptive first
	var phases []int
	seenPh := map[int]bool{}
	for _, x := range rules {
		if x.Phase == 0 || seenPh[x.Phase] {
			continue
		}
		inh := x.Inherit
		for _, a := range x.Acts {
			inh = inh || a.A == "block"
		}
		if inh {
			seenPh[x.Phase] = true
			phases = append(phases, x.Phase-1)
		}
	}
	for _, q := range r.Perm(5) {
		if !seenPh[q+1] {
			phases = append(phases, q)
		}
	}
	for n := 1 + r.Intn(2); n > 0; n-- {
		da := []string{"deny", "allow", "allow:phase", "allow:request", "pass", "deny", "allow"}[r.Intn(7)]
		at := 0
		if r.Intn(4) == 0 {
			at = r.Intn(len(rules) + 1)
		}
		insert(at, ruleJ{Default: &defaultJ{Phase: phases[n-1] + 1, DA: da}})
	}
	set.Rules = rules
	set.Shape = "config+" + set.Shape
	return set
}

var disruptivePool = []actJ{{A: "pass"}, {A: "deny"}, {A: "block"}, {A: "drop"}, {A: "redirect"},
	{A: "allow"}, {A: "allow", Scope: "phase"}, {A: "allow", Scope: "request"},
	{A: "allow", Scope: "phase"}, {A: "allow", Scope: "request"}}

// addMultiDisruptive: action lists naming two or three disruptive actions in every order (the last one
// must win WITH its own parameter: pass,...,allow:phase is allow:phase, not allow)
func addMultiDisruptive(r *rand.Rand, set ruleSet) ruleSet {
	rules := append([]ruleJ{}, set.Rules...)
	for i := range rules {
		x := &rules[i]
		if x.Marker != "" || len(x.Links) == 0 || r.Intn(100) >= 55 {
			continue
		}
		acts := append([]actJ{}, x.Acts...)
		have := 0
		for _, a := range acts {
			if isDisruptive(a) {
				have++
			}
		}
		for n := 2 + r.Intn(2) - have; n > 0; n-- {
			k := r.Intn(len(acts) + 1)
			d := disruptivePool[r.Intn(len(disruptivePool))]
			acts = append(acts[:k], append([]actJ{d}, acts[k:]...)...)
		}
		x.Acts = acts
	}
	set.Rules = rules
	set.Shape = "multidis+" + set.Shape
	return set
}

// addBodyKeys: links of rules in phases >= 2 read their bit from the urlencoded request body
// (ARGS_POST:b<k>) instead of a header: their match depends on the body having been processed
func addBodyKeys(r *rand.Rand, set ruleSet) ruleSet {
	rules := append([]ruleJ{}, set.Rules...)
	hdr := map[int]bool{} // keys read by phase-1 rules stay header keys everywhere
	for _, x := range rules {
		if x.Phase == 1 {
			for _, l := range x.Links {
				hdr[l.Key] = true
			}
		}
	}
	for i := range rules {
		if rules[i].Phase < 2 {
			continue
		}
		links := append([]linkJ{}, rules[i].Links...)
		for j := range links {
			if links[j].Key >= 0 && !hdr[links[j].Key] && r.Intn(100) < 65 {
				links[j].Body = true
			}
		}
		rules[i].Links = links
	}
	set.Rules = rules
	set.Shape = "body+" + set.Shape
	return set
}

// genAllowBody: a phase-1 rule allows (bare / request / phase) or interrupts; rules of phases 2..5 read
// body-derived variables. Outside the allow's scope they must match exactly as without the allow.
func genAllowBody(r *rand.Rand, maxKeys int) ruleSet {
	b := &builder{r: r, maxKeys: maxKeys}
	if r.Intn(2) == 0 {
		b.rule(1, 1, nil, r.Intn(2) == 0)
	}
	var acts []actJ
	switch x := r.Intn(10); {
	case x < 4:
		acts = []actJ{{A: "allow", Scope: "request"}}
	case x < 7:
		acts = []actJ{{A: "allow"}}
	case x < 8:
		acts = []actJ{{A: "allow", Scope: "phase"}}
	case x < 9:
		acts = disruptiveWithFlow(r)
	default:
		acts = []actJ{{A: "deny"}}
	}
	b.rule(1, 1+r.Intn(2), acts, r.Intn(2) == 0)
	b.rule(1, 1, nil, r.Intn(2) == 0)
	for p := 2; p <= 5; p++ {
		for n := 1 + r.Intn(2); n > 0; n-- {
			var a []actJ
			if r.Intn(6) == 0 {
				a = b.flowAct(true)
			}
			b.rule(p, chainLen(r), a, false)
		}
	}
	eng := "On"
	if r.Intn(8) == 0 {
		eng = "DetectionOnly"
	}
	set := addBodyKeys(r, ruleSet{Engine: eng, Rules: b.rules, Shape: "allow-vs-body"})
	set.Shape = "allow-vs-body"
	return set
}

func hasMarkerAfterJumper(rules []ruleJ, m string) bool {
	seenJumper := false
	for _, r := range rules {
		if len(r.Acts) > 0 {
			seenJumper = true
		}
		if seenJumper && r.Marker == m {
			return true
		}
	}
	return false
}

func allSubsets(n int) [][]bool {
	var out [][]bool
	for m := 0; m < 1<<n; m++ {
		req := make([]bool, n)
		for i := range req {
			req[i] = m&(1<<i) != 0
		}
		out = append(out, req)
	}
	return out
}

func randomReqs(r *rand.Rand, n, count int) [][]bool {
	out := [][]bool{}
	all := make([]bool, n)
	for i := range all {
		all[i] = true
	}
	out = append(out, all)
	for len(out) < count {
		p := []int{50, 80, 93}[r.Intn(3)]
		req := make([]bool, n)
		for i := range req {
			req[i] = r.Intn(100) < p
		}
		out = append(out, req)
	}
	return out
}

func generate(cfg vh.Config) []ruleSet {
	r := vh.Rng(cfg.Seed, "c08")
	var sets []ruleSet
	budget := cfg.Pick(1800, 50000)
	total := 0
	exhaustiveKeys := cfg.Pick(4, 6)
	for i := 0; total < budget; i++ {
		var s ruleSet
		if i%11 == 10 {
			s := genSeries(r)
			s.Shape += "/sampled"
			total += len(s.Reqs)
			sets = append(sets, s)
			continue
		}
		if i%11 == 1 || i%11 == 5 || i%11 == 8 {
			var s ruleSet
			mk := 48
			if i%2 == 0 {
				mk = 2 + r.Intn(exhaustiveKeys-1)
			}
			switch {
			case i%11 == 1:
				s = genAllowBody(r, mk)
			default:
				switch r.Intn(3) {
				case 0:
					s = genRandom(r, mk)
				case 1:
					s = genPlacement(r, mk)
				default:
					s = genEngineSwitch(r, mk)
				}
				s = addMultiDisruptive(r, s)
				if r.Intn(3) == 0 {
					s = addConfig(r, s)
				}
				if r.Intn(3) == 0 {
					s = addBodyKeys(r, s)
				}
			}
			n := nKeys(s.Rules)
			if n <= exhaustiveKeys {
				s.Reqs = allSubsets(n)
				s.Shape += "/all-subsets"
			} else {
				s.Reqs = randomReqs(r, n, cfg.Pick(6, 12))
				s.Shape += "/sampled"
			}
			total += len(s.Reqs)
			sets = append(sets, s)
			continue
		}
		if i%11 == 3 || i%11 == 7 {
			var s ruleSet
			mk := 48
			if i%2 == 0 {
				mk = 2 + r.Intn(exhaustiveKeys-1)
			}
			switch r.Intn(4) {
			case 0:
				s = genRandom(r, mk)
			case 1:
				s = genPlacement(r, mk)
			case 2:
				s = genRemoval(r, mk)
			default:
				s = genEngineSwitch(r, mk)
			}
			s = addConfig(r, s)
			n := nKeys(s.Rules)
			if n <= exhaustiveKeys {
				s.Reqs = allSubsets(n)
				s.Shape += "/all-subsets"
			} else {
				s.Reqs = randomReqs(r, n, cfg.Pick(6, 12))
				s.Shape += "/sampled"
			}
			total += len(s.Reqs)
			sets = append(sets, s)
			continue
		}
		switch i % 10 {
		case 4:
			s = genRemoval(r, 2+r.Intn(exhaustiveKeys-1))
		case 5:
			s = genRemoval(r, 48)
		case 6:
			s = genInterruptLeak(r, 2+r.Intn(exhaustiveKeys-1))
		case 7:
			s = genInterruptLeak(r, 48)
		case 8:
			s = genEngineSwitch(r, 2+r.Intn(exhaustiveKeys-1))
		case 9:
			s = genEngineSwitch(r, 48)
		case 0: // few keys: every subset of matches
			s = genRandom(r, 2+r.Intn(exhaustiveKeys-1))
		case 1:
			s = genPlacement(r, 2+r.Intn(exhaustiveKeys-1))
		case 2: // every link its own key, sampled requests
			s = genRandom(r, 48)
		default:
			s = genPlacement(r, 48)
		}
		n := nKeys(s.Rules)
		if n <= exhaustiveKeys {
			s.Reqs = allSubsets(n)
			s.Shape += "/all-subsets"
		} else {
			s.Reqs = randomReqs(r, n, cfg.Pick(6, 12))
			s.Shape += "/sampled"
		}
		total += len(s.Reqs)
		sets = append(sets, s)
	}
	return sets
}
