(* TxBodyProofs.v — proofs about the TxBody.v model (property C10). *)
From Coq Require Import ZifyBool.
From Verif Require Import Base BodyBuffer BodyBufferProofs TxBody.
Open Scope Z_scope.

(* ---------- hypotheses under which the theorems are stated ---------- *)
(* WAF.Validate: 0 < memory limit <= limit <= 1 GiB *)
Definition gib : Z := 1073741824.
Definition wf_cfg (c : tb_cfg) : Prop :=
  0 < bo_mem (c_opt c) /\ bo_mem (c_opt c) <= bo_limit (c_opt c) /\ bo_limit (c_opt c) <= gib.
(* rule engine not Off, body access on *)
Definition active (c : tb_cfg) : Prop := c_engine_on c = true /\ c_access c = true.
(* a write / read-from call *)
Definition is_write (k : tb_call) : bool :=
  match k with WriteSlice _ | ReadFrom _ _ _ => true | _ => false end.
Definition is_unknown (k : tb_call) : bool :=
  match k with ReadFrom false _ _ => true | _ => false end.
(* Go slices and readers hold fewer than 2^63 - 2^30 bytes (the overflow guard of the request
   functions is dead below that size) *)
Definition realistic (k : tb_call) : Prop := blen (call_data k) < max_int64 - gib.

Definition L (c : tb_cfg) : Z := bo_limit (c_opt c).
Definition slen (s : tb_st) : Z := bb_len (s_buf s).
Definition stored (s : tb_st) : bytes := bb_contents (s_buf s).

(* invariant of every run without ctl limit changes *)
Definition tinv (c : tb_cfg) (s : tb_st) : Prop :=
  bb_inv (c_opt c) (s_buf s) /\ s_limit s = L c /\ slen s <= L c /\ (slen s = L c -> s_dataerr s = true).

Lemma tinv_init c ph : wf_cfg c -> tinv c (tb_init c ph).
Proof.
  intros (A & B & C). unfold tinv, slen, L. cbn [tb_init s_buf s_limit s_dataerr].
  split; [apply bb_inv_empty; lia|]. cbn. repeat split; lia.
Qed.

Lemma tinv_len c s : tinv c s -> slen s = blen (stored s) /\ 0 <= slen s.
Proof. intros ((A & _) & _). unfold slen, stored. rewrite A. split; [reflexivity | apply blen_nonneg]. Qed.

(* the state in which the limit has just been reached: buffer replaced, data-error flag set *)
Definition mk_reached (s : tb_st) (b : bbuf) : tb_st :=
  {| s_buf := b; s_limit := s_limit s; s_intr := s_intr s; s_dataerr := true;
     s_phase := s_phase s; s_runs := s_runs s; s_seen := s_seen s; s_bodyvar := s_bodyvar s |}.

(* ---------- one write call, case A: the buffer already holds limit bytes ---------- *)
Lemma step_full c s k :
  active c -> tinv c s -> is_write k = true -> slen s = L c ->
  tb_step c s k = (s, mk_ret (match c_action c with Reject => s_intr s | ProcessPartial => None end) 0 false).
Proof.
  intros (He & Ha) (Hi & Hl & Hle & Hd) Hw Hf. unfold slen in *.
  destruct k as [d|kn rs d| |z]; try discriminate; cbn [tb_step]; unfold write_slice, read_from;
    rewrite He, Ha; cbn [negb]; rewrite Hl, <- Hf, Z.eqb_refl; destruct (c_action c); reflexivity.
Qed.

(* ---------- case B: the chunk fits strictly below the limit ---------- *)
Lemma step_fits c s k :
  wf_cfg c -> active c -> tinv c s -> is_write k = true -> realistic k ->
  slen s + blen (call_data k) < L c ->
  exists b', tb_step c s k = (set_buf s b', mk_ret (s_intr s) (blen (call_data k)) false)
    /\ bb_contents b' = stored s ++ call_data k
    /\ bb_len b' = slen s + blen (call_data k)
    /\ bb_inv (c_opt c) b'.
Proof.
  intros (W1 & W2 & W3) (He & Ha) (Hi & Hl & Hle & Hd) Hw Hr Hfit.
  pose proof (bb_inv_len_nonneg _ _ Hi) as Hn. unfold slen, stored, L, realistic, gib, max_int64 in *.
  destruct k as [d|kn rs d| |z]; try discriminate; cbn [call_data] in *; pose proof (blen_nonneg d) as Hd0;
    cbn [tb_step]; unfold write_slice, read_from; rewrite He, Ha; cbn [negb].
  - (* slice *)
    destruct (s_limit s =? bb_len (s_buf s)) eqn:E1; [lia|].
    assert (overflow_guard c s (blen d) = false) as ->.
    { unfold overflow_guard, max_int64. destruct (c_dir c); [lia | reflexivity]. }
    destruct (bb_len (s_buf s) + blen d >=? s_limit s) eqn:E2; [lia|].
    assert ((blen d <? 0) || (blen d >? blen d) = false) as -> by lia.
    replace (Z.to_nat (blen d)) with (length d) by (unfold blen; lia). rewrite firstn_all.
    destruct (bb_write_ok (c_opt c) (s_buf s) d Hi) as (b' & Hwr & Hc & Hlen & Hi'); [lia|].
    rewrite Hwr. exists b'. auto.
  - (* reader *)
    destruct (s_limit s =? bb_len (s_buf s)) eqn:E1; [lia|].
    assert (kn && overflow_guard c s (blen d) = false) as ->.
    { unfold overflow_guard, max_int64. destruct kn, (c_dir c); cbn [andb]; try reflexivity; lia. }
    assert (kn && (bb_len (s_buf s) + blen d >=? s_limit s) = false) as -> by (destruct kn; cbn [andb]; lia).
    cbn [negb andb].
    set (n := if kn && true then blen d else s_limit s - bb_len (s_buf s)).
    assert (Hn1 : blen d <= n) by (subst n; destruct kn; cbn [andb]; lia).
    unfold bb_copyN.
    destruct (bb_copy_loop_ok (c_opt c) rs (copy_bufsize n) (copy_bufsize_pos n) (S (length d)) (s_buf s) d n 0 Hi)
      as (b' & Hcp & Hc & Hlen & Hi'); [lia | lia |].
    rewrite Hcp. replace (Z.min (Z.max 0 n) (blen d)) with (blen d) in * by lia.
    rewrite firstn_all2 in Hc by (unfold blen in *; lia).
    cbn [set_buf s_buf]. rewrite Hlen.
    destruct (bb_len (s_buf s) + blen d =? s_limit s) eqn:E3; [lia|].
    cbn [orb]. exists b'. rewrite Z.add_0_l. auto.
Qed.
