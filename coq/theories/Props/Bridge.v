(* Props/Bridge.v — the theorems of the bridge C01 x C12 and nothing else.
   C01 (Match.v) proves "rule matching is exact" for an evaluation WITHOUT the transformation
   cache; C12 (TCache.v) proves that transformArg WITH the cache returns the cache-free result.
   Here the two models are composed where the code composes them (doEvaluate -> transformArg,
   the cache handed from rule to rule by RuleGroup.Eval and emptied at phase start) and the
   composition is proved to BE the C01 model.
   Quantification: every operator/regex semantics X, every order oracle ord, every KEY ORACLE ko
   (the variable number and the pointer identity of Key() transformArg sees for each selected
   value: adversarial, any collisions), every assignment pidf of interned prefix ids satisfying
   C12's well-formedness for one meaning function sm, every cache state satisfying C12's
   invariant (phases and transactions: EVERY cache state, the phase start empties it). *)
From Coq Require Import String Permutation.
From Verif Require Import Base Transform TCache TCacheProofs Match MatchProofs EngineBridge EngineBridgeProofs.
Local Open Scope nat_scope.

(* ---- 1. the two transformation semantics ---- *)

(* C12's cache-free transformArg, instantiated with Transform's registry (T := tid, tf := apply_t),
   on a plain rule: the value Transform.exec_tfs computes; C12 keeps the list of failing
   transformations, exec_tfs their number *)
Theorem Bridge_uncached_is_exec_tfs : forall ts pids a,
  fst (tc_uncached tid tcp_tf_builtin (TCache.mk_rule ts pids false) a) = [fst (exec_tfs ts (a_val a))] /\
  length (snd (tc_uncached tid tcp_tf_builtin (TCache.mk_rule ts pids false) a)) = snd (exec_tfs ts (a_val a)).
Proof. exact bridge_uncached_is_exec_tfs. Qed.
Print Assumptions Bridge_uncached_is_exec_tfs.

(* on a multiMatch rule: the list Transform.multimatch_values computes (original value first,
   then every value whose transformation reported a change) *)
Theorem Bridge_uncached_multi_is_multimatch_values : forall ts pids a,
  fst (tc_uncached tid tcp_tf_builtin (TCache.mk_rule ts pids true) a) = multimatch_values ts (a_val a) /\
  length (snd (tc_uncached tid tcp_tf_builtin (TCache.mk_rule ts pids true) a)) = exec_tfs_multi_errs ts (a_val a).
Proof. exact bridge_uncached_multi_is_multimatch_values. Qed.
Print Assumptions Bridge_uncached_multi_is_multimatch_values.

(* in Match.v's vocabulary: for a link l and a selected entry e, C12's reference result is
   C01's transform_values (what the operator is given) *)
Theorem Bridge_uncached_is_transform_values : forall pidf l e,
  fst (tc_uncached tid tcp_tf_builtin (b_rule pidf l) (b_arg e)) = transform_values l (md_value (fst e)) /\
  length (snd (tc_uncached tid tcp_tf_builtin (b_rule pidf l) (b_arg e))) = transform_errs l (md_value (fst e)).
Proof. exact bridge_uncached_is_transform_values. Qed.
Print Assumptions Bridge_uncached_is_transform_values.

(* ---- 2. operator inputs: through the cache = cache-free ---- *)

(* one link (one GetField result per target, argIdx = position within the result): the operator
   inputs (values, number of logged errors) obtained through the cache are Match.v's, from ANY
   cache satisfying the invariant, for ANY selection and ANY key identities; the invariant is kept *)
Theorem Bridge_link_inputs_cached_eq_uncached : forall sm pidf l,
  tc_rule_wf tid sm (b_rule pidf l) -> forall sels cs, tc_cache_inv tid tcp_tf_builtin sm cs ->
  exists cs', link_inputs_cached pidf l sels cs = (link_inputs_uncached l (map sel_mds sels), cs') /\
              tc_cache_inv tid tcp_tf_builtin sm cs'.
Proof. exact link_inputs_cached_eq_uncached. Qed.
Print Assumptions Bridge_link_inputs_cached_eq_uncached.

(* a whole phase: any sequence of links evaluated in order, the cache emptied at the start and
   handed from link to link: every link gets Match.v's operator inputs - whatever the
   transaction's cache held before *)
Theorem Bridge_phase_inputs_cached_eq_uncached : forall sm pidf ls cs,
  Forall (fun c : link * list (list b_sel) => tc_rule_wf tid sm (b_rule pidf (fst c))) ls ->
  exists cs', phase_inputs_cached pidf ls cs = (phase_inputs_uncached (map link_call_mds ls), cs') /\
              tc_cache_inv tid tcp_tf_builtin sm cs'.
Proof. exact phase_inputs_cached_eq_uncached. Qed.
Print Assumptions Bridge_phase_inputs_cached_eq_uncached.

(* ---- 3. the evaluation through the cache is the C01 model ---- *)

(* RuleGroup.Eval of one phase with the cache = Match.eval_rules (fired rules with their match
   data, and the transaction state left behind), and a transaction = Match.run_tx *)
Theorem Bridge_c01_theorems_hold_with_cache : forall sm pidf X ord ko,
  (forall ph rules st cs, rules_wf sm pidf rules ->
     exists cs', eval_phase_c X ord ko pidf st ph rules cs = (eval_rules X ord st ph 0 rules, cs') /\
                 tc_cache_inv tid tcp_tf_builtin sm cs') /\
  (forall q rules cs, rules_wf sm pidf rules ->
     exists cs', run_tx_c X ord ko pidf q rules cs = (run_tx X ord q rules, cs') /\
                 tc_cache_inv tid tcp_tf_builtin sm cs').
Proof.
  intros sm pidf X ord ko. split.
  - intros ph rules st cs. exact (eval_phase_c_eq sm pidf X ord ko ph rules st cs).
  - intros q rules cs. exact (run_tx_c_eq sm pidf X ord ko q rules cs).
Qed.
Print Assumptions Bridge_c01_theorems_hold_with_cache.

(* one rule, from any cache satisfying the invariant *)
Theorem Bridge_rule_cached_eq_uncached : forall sm pidf X ord ko st r cs,
  links_wf sm pidf (rule_links r) -> tc_cache_inv tid tcp_tf_builtin sm cs ->
  exists cs', eval_rule_c X ord ko pidf st r cs = (eval_rule X ord st r, cs') /\
              tc_cache_inv tid tcp_tf_builtin sm cs'.
Proof. exact eval_rule_c_eq. Qed.
Print Assumptions Bridge_rule_cached_eq_uncached.

(* C01_fires_iff, for the evaluation through the cache *)
Theorem Bridge_C01_fires_iff_with_cache : forall sm pidf X ord ko st r cs, wf_state st -> ok_oracle ord ->
  links_wf sm pidf (rule_links r) -> tc_cache_inv tid tcp_tf_builtin sm cs ->
  (rule_fires_c X ord ko pidf st r cs = true <-> chain_holds X ord st 0 (rule_links r)).
Proof. exact fires_iff_with_cache. Qed.
Print Assumptions Bridge_C01_fires_iff_with_cache.

(* C01_fires_iff_declarative, for the evaluation through the cache *)
Theorem Bridge_C01_fires_iff_declarative_with_cache : forall sm pidf X ord ko st r cs, wf_state st -> ok_oracle ord ->
  links_wf sm pidf (rule_links r) -> tc_cache_inv tid tcp_tf_builtin sm cs ->
  Forall (fun l => reads_mvar l = false /\ is_action l = false) (rule_links r) ->
  (rule_fires_c X ord ko pidf st r cs = true <-> Forall (link_holds_rt X st) (rule_links r)).
Proof. exact fires_iff_declarative_with_cache. Qed.
Print Assumptions Bridge_C01_fires_iff_declarative_with_cache.

(* C01_matchdata_exact, for the evaluation through the cache *)
Theorem Bridge_C01_matchdata_exact_with_cache : forall sm pidf X ord ko st r cs mds st' cs',
  wf_state st -> ok_oracle ord ->
  links_wf sm pidf (rule_links r) -> tc_cache_inv tid tcp_tf_builtin sm cs ->
  eval_rule_c X ord ko pidf st r cs = ((Some mds, st'), cs') ->
  Permutation mds (spec_chain_data X ord st 0 (rule_links r)).
Proof. exact matchdata_exact_with_cache. Qed.
Print Assumptions Bridge_C01_matchdata_exact_with_cache.

(* C01_phase_exact, for a phase evaluated through the cache (any cache content at phase start) *)
Theorem Bridge_C01_phase_exact_with_cache : forall sm pidf X ord ko ph rules st cs, rules_wf sm pidf rules ->
  map fst (fst (fst (eval_phase_c X ord ko pidf st ph rules cs))) = spec_fired X ord st ph 0 rules.
Proof. exact phase_exact_with_cache. Qed.
Print Assumptions Bridge_C01_phase_exact_with_cache.

(* C01_fired_sound, for a phase evaluated through the cache *)
Theorem Bridge_C01_fired_sound_with_cache : forall sm pidf X ord ko ph rules st cs id mds,
  ok_oracle ord -> wf_state st -> rules_wf sm pidf rules ->
  In (id, mds) (fst (fst (eval_phase_c X ord ko pidf st ph rules cs))) ->
  exists r j st0, In r rules /\ r_id r = id /\ id <> 0%N /\ in_phase ph r = true /\ wf_state st0
    /\ chain_holds X (sub ord j) st0 0 (rule_links r)
    /\ Permutation mds (spec_chain_data X (sub ord j) st0 0 (rule_links r)).
Proof. exact fired_sound_with_cache. Qed.
Print Assumptions Bridge_C01_fired_sound_with_cache.

(* ---- 4. no hypothesis on the prefix ids: rule sets compiled through the intern table ---- *)

(* the prefix ids TCache.it_compile assigns to the links of a rule set (names nm as written in the
   t: actions, any registry reg resolving them, after ANY history hist of the process-global
   table) satisfy C12's well-formedness with one meaning function *)
Theorem Bridge_compiled_rules_wf : forall (nm : tid -> bytes) (reg : bytes -> tid),
  (forall t, reg (nm t) = t) -> (forall t, nm t <> str "none"%string) ->
  forall hist rules,
  exists sm, rules_wf sm (pidf_compiled nm (fst (it_compile it_init hist)) rules) rules.
Proof. exact pidf_compiled_wf. Qed.
Print Assumptions Bridge_compiled_rules_wf.

(* ... hence phases and transactions evaluated through the cache with those ids are Match.v's *)
Theorem Bridge_compiled_phase_cached_eq_uncached : forall (nm : tid -> bytes) (reg : bytes -> tid),
  (forall t, reg (nm t) = t) -> (forall t, nm t <> str "none"%string) ->
  forall hist X ord ko ph rules st cs,
  fst (eval_phase_c X ord ko (pidf_compiled nm (fst (it_compile it_init hist)) rules) st ph rules cs)
  = eval_rules X ord st ph 0 rules.
Proof. exact compiled_phase_c_eq. Qed.
Print Assumptions Bridge_compiled_phase_cached_eq_uncached.

Theorem Bridge_compiled_tx_cached_eq_uncached : forall (nm : tid -> bytes) (reg : bytes -> tid),
  (forall t, reg (nm t) = t) -> (forall t, nm t <> str "none"%string) ->
  forall hist X ord ko q rules cs,
  fst (run_tx_c X ord ko (pidf_compiled nm (fst (it_compile it_init hist)) rules) q rules cs)
  = run_tx X ord q rules.
Proof. exact compiled_run_tx_c_eq. Qed.
Print Assumptions Bridge_compiled_tx_cached_eq_uncached.
