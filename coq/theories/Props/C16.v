(* Props/C16.v — the property theorems of C16 and nothing else. *)
From Verif Require Import Base Parser.
