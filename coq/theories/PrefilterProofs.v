(* PrefilterProofs.v — soundness of the rx prefilter model (Prefilter.v) w.r.t. the regex
   semantics of Regex.v, and the lemmas behind the theorems of property C11. *)
From Verif Require Import Base Utf8 Regex RegexUtf8Proofs RegexProofs Prefilter.
From Coq Require Import Arith ZifyN ZifyBool ZifyNat.
Ltac Zify.zify_post_hook ::= idtac.
Open Scope N_scope.

(* ====================================================================================== *)
(* small facts                                                                             *)
(* ====================================================================================== *)

Lemma memN_true c l : memN c l = true -> In c l.
Proof.
  unfold memN. intro H. apply existsb_exists in H. destruct H as [x [H1 H2]].
  apply N.eqb_eq in H2. subst. exact H1.
Qed.

Lemma is_nil_true {A} (l : list A) : is_nil l = true <-> l = [].
Proof. destruct l; cbn; split; congruence. Qed.

Lemma is_nil_false {A} (l : list A) : is_nil l = false <-> l <> [].
Proof. destruct l; cbn; split; congruence. Qed.

Lemma is_ascii_skipn w i : is_ascii w = true -> is_ascii (skipn i w) = true.
Proof.
  unfold is_ascii. revert i. induction w as [|b w IH]; intros i H; [destruct i; auto|].
  destruct i as [|i]; [exact H|]. cbn [skipn]. cbn [forallb] in H. apply andb_true_iff in H. apply IH. tauto.
Qed.

Lemma skipn_add {A} (w : list A) : forall i n, skipn n (skipn i w) = skipn (i + n) w.
Proof.
  induction w as [|x w IH]; intros i n; [destruct i, n; reflexivity|].
  destruct i as [|i]; [reflexivity|]. cbn [skipn Nat.add]. apply IH.
Qed.

Lemma ascii_lower_lt b : b < 128 -> ascii_lower b < 128.
Proof. unfold ascii_lower. intro H. destruct ((65 <=? b) && (b <=? 90)) eqn:E; lia. Qed.

Lemma ascii_lower_idem b : ascii_lower (ascii_lower b) = ascii_lower b.
Proof. unfold ascii_lower. destruct ((65 <=? b) && (b <=? 90)) eqn:E; [|rewrite E; reflexivity].
  replace ((65 <=? b + 32) && (b + 32 <=? 90)) with false by lia. reflexivity. Qed.

(* ====================================================================================== *)
(* occurrences                                                                             *)
(* ====================================================================================== *)

(* segment equality: exact, or after ASCII lower-casing of the segment (needle lower-case) *)
Definition eqs (ci : bool) (seg n : bytes) : Prop := if ci then map ascii_lower seg = n else seg = n.

(* needle n sits at byte offset p of w *)
Definition seg_at (ci : bool) (w : bytes) (p : nat) (n : bytes) : Prop :=
  eqs ci (firstn (length n) (skipn p w)) n.

(* needle n occurs inside the segment [i, j) of w *)
Definition occ_in (ci : bool) (w : bytes) (i j : nat) (n : bytes) : Prop :=
  exists p, (i <= p /\ p + length n <= j)%nat /\ seg_at ci w p n.

Lemma eqs_length ci seg n : eqs ci seg n -> length seg = length n.
Proof. unfold eqs. destruct ci; intro H; subst; [rewrite map_length|]; reflexivity. Qed.

Lemma eqs_app ci a b x y : eqs ci a x -> eqs ci b y -> eqs ci (a ++ b) (x ++ y).
Proof. unfold eqs. destruct ci; intros H1 H2; subst; [rewrite map_app|]; reflexivity. Qed.

Lemma eqs_nil ci : eqs ci [] [].
Proof. destruct ci; reflexivity. Qed.

Lemma decomp_seg_at ci w i seg rest n :
  skipn i w = seg ++ rest -> eqs ci seg n -> seg_at ci w i n.
Proof.
  intros H He. unfold seg_at. rewrite H. pose proof (eqs_length _ _ _ He) as Hl.
  rewrite <- Hl. rewrite firstn_app, firstn_all, Nat.sub_diag. cbn [firstn]. rewrite app_nil_r. exact He.
Qed.

Lemma seg_at_bound ci w p n : seg_at ci w p n -> n <> [] -> (p + length n <= length w)%nat.
Proof.
  unfold seg_at. intros H Hn. apply eqs_length in H. rewrite firstn_length, skipn_length in H.
  destruct n; [congruence|]. cbn [length] in *. lia.
Qed.

Lemma occ_in_mono ci w i j i' j' n : (i' <= i)%nat -> (j <= j')%nat -> occ_in ci w i j n -> occ_in ci w i' j' n.
Proof. intros Hi Hj [p [Hp Hs]]. exists p. split; [lia|exact Hs]. Qed.

Lemma seg_at_app ci w p a b : seg_at ci w p a -> seg_at ci w (p + length a) b -> seg_at ci w p (a ++ b).
Proof.
  unfold seg_at. intros Ha Hb.
  pose proof (eqs_length _ _ _ Ha) as La.
  rewrite app_length.
  rewrite <- (firstn_skipn (length a) (skipn p w)) at 1.
  rewrite firstn_app. rewrite firstn_length in La.
  rewrite firstn_firstn. replace (Nat.min (length a + length b) (length a)) with (length a) by lia.
  rewrite firstn_length. rewrite La.
  replace (length a + length b - length a)%nat with (length b) by lia.
  rewrite skipn_add. apply eqs_app; [exact Ha|]. exact Hb.
Qed.

(* ====================================================================================== *)
(* what a literal match looks like                                                         *)
(* ====================================================================================== *)

Lemma wf_lrune_parts f lr : wf_lrune f lr = true ->
  valid_rune (lr_r lr) = true /\ valid_rune (lr_lo lr) = true
  /\ (lr_r lr < 128 -> lr_lo lr = ascii_lower (lr_r lr))
  /\ (f = true -> forall c, In c (lr_orb lr) ->
        (rune_len (lr_r lr) <= rune_len c)%nat
        /\ (c < 128 -> lr_lo lr = ascii_lower c)
        /\ (c = rune_error -> lr_r lr = rune_error)).
Proof.
  unfold wf_lrune. intro H.
  apply andb_true_iff in H. destruct H as [H H4].
  apply andb_true_iff in H. destruct H as [H H3].
  apply andb_true_iff in H. destruct H as [H1 H2].
  repeat split; auto.
  - intro Hr. apply orb_true_iff in H3. destruct H3 as [H3|H3]; [apply N.leb_le in H3; lia|apply N.eqb_eq in H3; exact H3].
  - subst f. cbn [negb orb] in H4. rewrite forallb_forall in H4. specialize (H4 _ H0).
    apply andb_true_iff in H4. destruct H4 as [H4 _]. apply andb_true_iff in H4. destruct H4 as [H4 _].
    apply Nat.leb_le in H4. exact H4.
  - subst f. cbn [negb orb] in H4. rewrite forallb_forall in H4. specialize (H4 _ H0).
    apply andb_true_iff in H4. destruct H4 as [H4 _]. apply andb_true_iff in H4. destruct H4 as [_ H4].
    intro Hc. apply orb_true_iff in H4. destruct H4 as [H4|H4]; [apply N.leb_le in H4; lia|apply N.eqb_eq in H4; exact H4].
  - subst f. cbn [negb orb] in H4. rewrite forallb_forall in H4. specialize (H4 _ H0).
    apply andb_true_iff in H4. destruct H4 as [_ H4].
    intro Hc. apply orb_true_iff in H4. destruct H4 as [H4|H4]; [subst c; discriminate|apply N.eqb_eq in H4; exact H4].
Qed.

Lemma lr_test_cases f lr c : lr_test f lr c = true -> c = lr_r lr \/ (f = true /\ In c (lr_orb lr)).
Proof.
  unfold lr_test. intro H. apply orb_true_iff in H. destruct H as [H|H].
  - left. apply N.eqb_eq in H. exact H.
  - right. apply andb_true_iff in H. destruct H as [H1 H2]. split; [exact H1|apply memN_true; exact H2].
Qed.

(* one decoded rune as a piece of the input *)
Lemma step1_piece p w i k : step1 p w i = Some k ->
  exists c n, decode_rune (skipn i w) = (c, n) /\ skipn i w <> [] /\ p c = true /\ k = (i + n)%nat
              /\ skipn i w = firstn n (skipn i w) ++ skipn k w /\ length (firstn n (skipn i w)) = n.
Proof.
  intro H. apply step1_spec in H. destruct H as [c [n [Hs [D [Hp ->]]]]].
  exists c, n. repeat split; auto.
  - rewrite <- (firstn_skipn n (skipn i w)) at 1. rewrite skipn_add. reflexivity.
  - rewrite firstn_length. pose proof (decode_rune_size_le (skipn i w)) as Hle. rewrite D in Hle. cbn [snd] in Hle. lia.
Qed.

Lemma lit_end_seg ci f rs w :
  has_rune_error rs = false -> forallb (wf_lrune f) rs = true ->
  (ci = false -> f = false) -> (ci = true -> is_ascii w = true) ->
  forall i j, lit_end f rs w i = Some j ->
  exists seg, skipn i w = seg ++ skipn j w /\ j = (i + length seg)%nat /\ eqs ci seg (lit_str ci rs).
Proof.
  intros Hre Hwf Hcs Hci. induction rs as [|lr rs IH]; intros i j H; cbn [lit_end] in H.
  - inversion H; subst. exists []. split; [reflexivity|]. split; [cbn [length]; lia|apply eqs_nil].
  - destruct (step1 (lr_test f lr) w i) as [k|] eqn:E; [|discriminate].
    cbn [has_rune_error existsb] in Hre. apply orb_false_iff in Hre. destruct Hre as [Hr0 Hre].
    cbn [forallb] in Hwf. apply andb_true_iff in Hwf. destruct Hwf as [Hw0 Hwf].
    destruct (IH Hre Hwf _ _ H) as [seg' [Hs' [Hj' He']]].
    apply step1_piece in E. destruct E as [c [n [D [Hne [Hp [Hk [Hsplit Hlen]]]]]]].
    exists (firstn n (skipn i w) ++ seg'). split; [rewrite <- app_assoc, <- Hs'; exact Hsplit|].
    split; [rewrite app_length, Hlen; lia|].
    unfold lit_str. cbn [flat_map]. apply eqs_app; [|exact He'].
    destruct (wf_lrune_parts _ _ Hw0) as [Hv [Hvl [Hlo Horb]]].
    apply N.eqb_neq in Hr0.
    destruct ci.
    + (* ASCII input, folded comparison *)
      specialize (Hci eq_refl). pose proof (is_ascii_skipn w i Hci) as Ha.
      destruct (skipn i w) as [|b s'] eqn:Es; [congruence|].
      unfold is_ascii in Ha. cbn [forallb] in Ha. apply andb_true_iff in Ha. destruct Ha as [Hb _].
      apply N.ltb_lt in Hb. rewrite (decode_rune_ascii b s' Hb) in D. inversion D; subst c n.
      cbn [firstn]. unfold eqs. cbn [map].
      assert (Hl : lr_lo lr = ascii_lower b).
      { apply lr_test_cases in Hp. destruct Hp as [->|[Hf Hin]]; [apply Hlo; exact Hb|].
        destruct (Horb Hf _ Hin) as [_ [Hx _]]. apply Hx. exact Hb. }
      rewrite Hl. destruct (enc1 _ (ascii_lower_lt _ Hb)) as [-> _]. reflexivity.
    + (* exact comparison: no fold flag anywhere *)
      specialize (Hcs eq_refl). subst f.
      apply lr_test_cases in Hp. destruct Hp as [->|[Hf _]]; [|discriminate].
      destruct (decode_rune_spec _ _ _ Hne D) as [_ Hd]. destruct (Hd Hr0) as [_ [Hf _]].
      unfold eqs. exact Hf.
Qed.

(* ====================================================================================== *)
(* C11_minlen_sound                                                                        *)
(* ====================================================================================== *)

Lemma lit_end_minlen f rs w : forallb (wf_lrune f) rs = true ->
  forall i j, lit_end f rs w i = Some j -> (i + lit_minlen rs <= j)%nat.
Proof.
  intro Hwf. induction rs as [|lr rs IH]; intros i j H; cbn [lit_end] in H.
  - inversion H. unfold lit_minlen. cbn [map list_sum fold_right]. lia.
  - destruct (step1 (lr_test f lr) w i) as [k|] eqn:E; [|discriminate].
    cbn [forallb] in Hwf. apply andb_true_iff in Hwf. destruct Hwf as [Hw0 Hwf].
    specialize (IH Hwf _ _ H).
    apply step1_piece in E. destruct E as [c [n [D [Hne [Hp [Hk _]]]]]].
    destruct (decode_rune_spec _ _ _ Hne D) as [Hn1 Hd].
    destruct (wf_lrune_parts _ _ Hw0) as [_ [_ [_ Horb]]].
    unfold lit_minlen, list_sum in *. cbn [map fold_right]. cbv beta.
    destruct (lr_r lr =? rune_error) eqn:Er; [lia|]. apply N.eqb_neq in Er.
    assert (Hstep : (rune_len (lr_r lr) <= n)%nat).
    { apply lr_test_cases in Hp. destruct Hp as [->|[Hf Hin]].
      - destruct (Hd Er) as [-> _]. lia.
      - destruct (Horb Hf _ Hin) as [Hlen [_ Hre]].
        assert (Hc : c <> rune_error) by (intro Hc; apply Er; apply Hre; exact Hc).
        destruct (Hd Hc) as [-> _]. exact Hlen. }
    lia.
Qed.

Lemma fold_min_le l : forall a, (fold_left Nat.min l a <= a)%nat /\ forall x, In x l -> (fold_left Nat.min l a <= x)%nat.
Proof.
  induction l as [|y l IH]; intro a; cbn [fold_left]; [split; [lia|intros x []]|].
  destruct (IH (Nat.min a y)) as [H1 H2]. split; [lia|].
  intros x [<-|Hx]; [lia|auto].
Qed.

Lemma list_min_le l x : In x l -> (list_min l <= x)%nat.
Proof.
  destruct l as [|a l]; [intros []|]. cbn [list_min]. destruct (fold_min_le l a) as [H1 H2].
  intros [<-|Hx]; auto.
Qed.

Lemma forallb_repeat {A} (f : A -> bool) a n : f a = true -> forallb f (repeat a n) = true.
Proof. intro H. induction n as [|n IH]; cbn [repeat forallb]; [reflexivity|]. rewrite H, IH. reflexivity. Qed.

Lemma list_sum_map_repeat {A} (f : A -> nat) a n : list_sum (map f (repeat a n)) = (n * f a)%nat.
Proof. induction n as [|n IH]; [reflexivity|]. cbn [repeat map]. unfold list_sum in *. cbn [fold_right]. rewrite IH. lia. Qed.

Theorem min_len_sound w r i j : wf_re r = true -> M w r i j -> (i + min_len r <= j)%nat.
Proof.
  intros Hwf H. revert Hwf.
  apply (M_mind w (fun r i j => wf_re r = true -> (i + min_len r <= j)%nat)
                  (fun l i j => forallb wf_re l = true -> (i + list_sum (map min_len l) <= j)%nat))
    with (r := r) (n := i) (n0 := j); auto; clear; cbn [min_len wf_re].
  - intros f rs i j H Hwf. eapply lit_end_minlen; eauto.
  - intros f rg i j H _. apply step1_bounds in H. lia.
  - intros f o i j H _. pose proof (op0_step_bounds _ _ _ _ H) as Hb.
    destruct o; try lia; cbn [op0_step] in H; apply step1_bounds in H; lia.
  - intros. lia.
  - intros f a i k j Ha IHa Hs IHs Hwf. apply M_bounds in Ha. apply M_bounds in Hs. lia.
  - intros f a i k j Ha IHa Hs _ Hwf. specialize (IHa Hwf). apply M_bounds in Hs. lia.
  - intros. lia.
  - intros f a i j Ha _ _. apply M_bounds in Ha. lia.
  - intros f l a i j Hin Ha IHa Hwf. rewrite forallb_forall in Hwf. specialize (IHa (Hwf _ Hin)).
    assert (Hm : (list_min (map min_len l) <= min_len a)%nat) by (apply list_min_le; apply in_map; exact Hin).
    lia.
  - intros f mn mx a n i j Hml IH Hmn Hmx Hwf.
    specialize (IH (forallb_repeat _ _ _ Hwf)). rewrite list_sum_map_repeat in IH.
    destruct (Nat.eqb mn 0); [apply ML_bounds in Hml; lia|].
    pose proof (Nat.mul_le_mono_r mn n (min_len a) Hmn). lia.
  - intros i _. cbn. lia.
  - intros a l i k j Ha IHa Hl IHl Hwf. cbn [forallb] in Hwf. apply andb_true_iff in Hwf. destruct Hwf as [H1 H2].
    specialize (IHa H1). specialize (IHl H2). cbn [map list_sum fold_right]. unfold list_sum in IHl. lia.
Qed.

(* ====================================================================================== *)
(* inversion of the semantics                                                              *)
(* ====================================================================================== *)

Lemma M_lit_inv w f rs i j : M w (Lit f rs) i j -> lit_end f rs w i = Some j.
Proof. intro H. inversion H; subst; auto. Qed.
Lemma M_op0_inv w f o i j : M w (Op0 f o) i j -> op0_step o w i = Some j.
Proof. intro H. inversion H; subst; auto. Qed.
Lemma M_cap_inv w f a i j : M w (Cap f a) i j -> M w a i j.
Proof. intro H. inversion H; subst; auto. Qed.
Lemma M_plus_inv w f a i j : M w (Plus f a) i j -> exists k, M w a i k /\ M w (Star f a) k j.
Proof. intro H. inversion H; subst; eauto. Qed.
Lemma M_rep_inv w f mn mx a i j : M w (Rep f mn mx a) i j ->
  exists n, ML w (repeat a n) i j /\ (mn <= n)%nat /\ match mx with Some m => (n <= m)%nat | None => True end.
Proof. intro H. inversion H; subst; eauto. Qed.
Lemma M_rep_iff w f mn mx a i j : M w (Rep f mn mx a) i j <->
  exists n, ML w (repeat a n) i j /\ (mn <= n)%nat /\ match mx with Some m => (n <= m)%nat | None => True end.
Proof.
  split; [apply M_rep_inv|]. intros [n [H1 [H2 H3]]]. eapply M_rep; eauto.
Qed.
Lemma M_cat_inv w f l i j : M w (Cat f l) i j -> ML w l i j.
Proof. intro H. inversion H; subst; auto. Qed.
Lemma M_alt_inv w f l i j : M w (Alt f l) i j -> exists a, In a l /\ M w a i j.
Proof. intro H. inversion H; subst; eauto. Qed.

(* ====================================================================================== *)
(* the two comparison modes                                                                *)
(* ====================================================================================== *)

(* ci = false: no node carries FoldCase, needles are compared exactly;
   ci = true : needles are lower-cased and compared ASCII-case-insensitively, which is only
               ever decisive on all-ASCII input (the outer isASCII guard) *)
Definition mode_ok (ci : bool) (w : bytes) (r : re) : Prop :=
  wf_re r = true /\ (if ci then is_ascii w = true else has_flag r = false).

Lemma mode_ok_cap ci w f a : mode_ok ci w (Cap f a) -> mode_ok ci w a.
Proof.
  intros [Hwf Hm]. split; [exact Hwf|]. destruct ci; [exact Hm|].
  cbn [has_flag node_fold] in Hm. apply orb_false_iff in Hm. tauto.
Qed.
Lemma mode_ok_plus ci w f a : mode_ok ci w (Plus f a) -> mode_ok ci w a.
Proof.
  intros [Hwf Hm]. split; [exact Hwf|]. destruct ci; [exact Hm|].
  cbn [has_flag node_fold] in Hm. apply orb_false_iff in Hm. tauto.
Qed.

Lemma mode_ok_rep ci w f mn mx a : mode_ok ci w (Rep f mn mx a) -> mode_ok ci w a.
Proof.
  intros [Hwf Hm]. split; [exact Hwf|]. destruct ci; [exact Hm|].
  cbn [has_flag node_fold] in Hm. apply orb_false_iff in Hm. tauto.
Qed.

Lemma existsb_false_in {A} (g : A -> bool) l a : existsb g l = false -> In a l -> g a = false.
Proof.
  intros He Hin. destruct (g a) eqn:Ea; [|reflexivity].
  assert (existsb g l = true) by (apply existsb_exists; eauto). congruence.
Qed.

Lemma mode_ok_cat ci w f l a : mode_ok ci w (Cat f l) -> In a l -> mode_ok ci w a.
Proof.
  intros [Hwf Hm] Hin. split.
  - cbn [wf_re] in Hwf. rewrite forallb_forall in Hwf. auto.
  - destruct ci; [exact Hm|]. cbn [has_flag node_fold] in Hm. apply orb_false_iff in Hm.
    eapply existsb_false_in; [apply Hm|exact Hin].
Qed.
Lemma mode_ok_alt ci w f l a : mode_ok ci w (Alt f l) -> In a l -> mode_ok ci w a.
Proof.
  intros [Hwf Hm] Hin. split.
  - cbn [wf_re] in Hwf. rewrite forallb_forall in Hwf. auto.
  - destruct ci; [exact Hm|]. cbn [has_flag node_fold] in Hm. apply orb_false_iff in Hm.
    eapply existsb_false_in; [apply Hm|exact Hin].
Qed.

Lemma mode_ok_lit ci w f rs : mode_ok ci w (Lit f rs) ->
  forallb (wf_lrune f) rs = true /\ (ci = false -> f = false) /\ (ci = true -> is_ascii w = true).
Proof.
  intros [Hwf Hm]. split; [exact Hwf|]. destruct ci; split; intro; try discriminate; auto.
  cbn [has_flag node_fold] in Hm. apply orb_false_iff in Hm. tauto.
Qed.

(* ====================================================================================== *)
(* rawLiteral, rawExtractSuffixes, trieReconstruct                                         *)
(* ====================================================================================== *)

Lemma raw_literal_sound ci w r i j :
  mode_ok ci w r -> M w r i j -> raw_literal r ci <> [] ->
  seg_at ci w i (raw_literal r ci) /\ j = (i + length (raw_literal r ci))%nat.
Proof.
  intros Hm H Hne. destruct r; cbn [raw_literal] in *; try congruence.
  destruct (has_rune_error rs) eqn:Ere; [congruence|].
  apply M_lit_inv in H. destruct (mode_ok_lit _ _ _ _ Hm) as [Hwf [Hcs Hci]].
  destruct (lit_end_seg ci fold rs w Ere Hwf Hcs Hci _ _ H) as [seg [Hs [Hj He]]].
  split; [eapply decomp_seg_at; eauto|]. rewrite <- (eqs_length _ _ _ He). exact Hj.
Qed.

Lemma concat_opts_in {A} (g : A -> option (list bytes)) l : forall S a,
  concat_opts (map g l) = Some S -> In a l -> exists Sa, g a = Some Sa /\ incl Sa S.
Proof.
  induction l as [|b l IH]; intros S a H Hin; [destruct Hin|].
  cbn [map concat_opts] in H. destruct (g b) as [x|] eqn:Eb; [|discriminate].
  destruct (concat_opts (map g l)) as [y|] eqn:Ey; [|discriminate]. inversion H; subst.
  destruct Hin as [<-|Hin].
  - exists x. split; [exact Eb|]. apply incl_appl, incl_refl.
  - destruct (IH _ _ eq_refl Hin) as [Sa [Ha Hi]]. exists Sa. split; [exact Ha|]. apply incl_appr. exact Hi.
Qed.

Lemma concat_opts_all {A} (g : A -> option (list bytes)) (P : bytes -> Prop) l : forall S,
  concat_opts (map g l) = Some S -> (forall a Sa, In a l -> g a = Some Sa -> Forall P Sa) -> Forall P S.
Proof.
  induction l as [|b l IH]; intros S H HP; cbn [map concat_opts] in H.
  - inversion H. constructor.
  - destruct (g b) as [x|] eqn:Eb; [|discriminate].
    destruct (concat_opts (map g l)) as [y|] eqn:Ey; [|discriminate]. inversion H; subst.
    apply Forall_app. split; [eapply HP; [left; reflexivity|exact Eb]|].
    apply IH; [reflexivity|]. intros a Sa Ha. apply HP. right. exact Ha.
Qed.

Lemma nonempty_opt_some o S : nonempty_opt o = Some S -> o = Some S.
Proof. destruct o as [[|x l]|]; cbn; intro H; congruence. Qed.

Lemma raw_suffixes_nonempty ci r : forall S, raw_suffixes r ci = Some S -> Forall (fun s => s <> []) S.
Proof.
  induction r using re_ind'; intros S HS; cbn [raw_suffixes] in HS; try discriminate.
  - destruct (is_nil (raw_literal (Lit f rs) ci)) eqn:E; [discriminate|]. inversion HS; subst.
    constructor; [apply is_nil_false; exact E|constructor].
  - auto.
  - (* Cat *)
    destruct l as [|h t]; [discriminate|].
    destruct (is_nil (raw_literal h ci)) eqn:E; [discriminate|]. apply is_nil_false in E.
    assert (Hh : Forall (fun s : bytes => s <> []) [raw_literal h ci]) by (constructor; auto).
    destruct t as [|a2 [|a3 t']]; try (inversion HS; subst; exact Hh).
    destruct a2; try (inversion HS; subst; exact Hh).
    destruct (raw_suffixes (Alt fold l) ci) as [tails|]; [|inversion HS; subst; exact Hh].
    inversion HS; subst. apply Forall_forall. intros s Hs. apply in_map_iff in Hs.
    destruct Hs as [t0 [<- _]]. destruct (raw_literal h ci); [congruence|discriminate].
  - (* Alt *)
    apply nonempty_opt_some in HS.
    eapply concat_opts_all; [exact HS|]. intros a Sa Ha Hg. rewrite Forall_forall in H. eapply H; eauto.
Qed.

Lemma raw_suffixes_sound ci w r : forall i j S,
  mode_ok ci w r -> M w r i j -> raw_suffixes r ci = Some S ->
  exists s, In s S /\ seg_at ci w i s /\ (i + length s <= j)%nat.
Proof.
  induction r using re_ind'; intros i j S Hm HM HS; cbn [raw_suffixes] in HS; try discriminate.
  - (* Lit *)
    destruct (is_nil (raw_literal (Lit f rs) ci)) eqn:E; [discriminate|]. apply is_nil_false in E.
    inversion HS; subst. destruct (raw_literal_sound _ _ _ _ _ Hm HM E) as [Hs Hj].
    exists (raw_literal (Lit f rs) ci). split; [left; reflexivity|]. split; [exact Hs|lia].
  - (* Cap *)
    apply (IHr i j S); [eapply mode_ok_cap; eauto|apply M_cap_inv in HM; exact HM|exact HS].
  - (* Cat *)
    destruct l as [|h t]; [discriminate|].
    destruct (is_nil (raw_literal h ci)) eqn:E; [discriminate|]. apply is_nil_false in E.
    apply M_cat_inv in HM. apply ML_cons_inv in HM. destruct HM as [k [Hh Ht]].
    assert (Hmh : mode_ok ci w h) by (eapply mode_ok_cat; [exact Hm|left; reflexivity]).
    destruct (raw_literal_sound _ _ _ _ _ Hmh Hh E) as [Hs Hk].
    pose proof (ML_bounds _ _ _ _ Ht) as Hb.
    assert (Hhead : exists s, In s [raw_literal h ci] /\ seg_at ci w i s /\ (i + length s <= j)%nat).
    { exists (raw_literal h ci). split; [left; reflexivity|]. split; [exact Hs|lia]. }
    destruct t as [|a2 [|a3 t']]; try (inversion HS; subst; exact Hhead).
    destruct a2; try (inversion HS; subst; exact Hhead).
    destruct (raw_suffixes (Alt fold l) ci) as [tails|] eqn:Et; [|inversion HS; subst; exact Hhead].
    inversion HS; subst. clear HS Hhead.
    apply ML_cons_inv in Ht. destruct Ht as [k' [Ha2 Hnil]]. apply ML_nil_inv in Hnil. subst k'.
    assert (Hm2 : mode_ok ci w (Alt fold l)) by (eapply mode_ok_cat; [exact Hm|right; left; reflexivity]).
    rewrite Forall_forall in H.
    destruct (H (Alt fold l) (or_intror (or_introl eq_refl)) _ _ _ Hm2 Ha2 Et) as [t0 [Hin [Hst Hlen]]].
    exists (raw_literal h ci ++ t0). split; [apply in_map; exact Hin|].
    split; [apply seg_at_app; [exact Hs|exact Hst]|]. rewrite app_length. lia.
  - (* Alt *)
    apply nonempty_opt_some in HS. apply M_alt_inv in HM. destruct HM as [a [Ha HMa]].
    destruct (concat_opts_in _ _ _ _ HS Ha) as [Sa [Hg Hincl]].
    rewrite Forall_forall in H.
    destruct (H _ Ha _ _ _ (mode_ok_alt _ _ _ _ _ Hm Ha) HMa Hg) as [s [Hs Hrest]].
    exists s. split; [apply Hincl; exact Hs|exact Hrest].
Qed.

Lemma trie_sound ci w f l i j T :
  mode_ok ci w (Cat f l) -> ML w l i j -> trie_reconstruct l ci = Some T -> Exists (occ_in ci w i j) T.
Proof.
  intros Hm HM HT. unfold trie_reconstruct in HT.
  destruct l as [|p [|x [|y l']]]; try discriminate.
  destruct (is_nil (raw_literal p ci)) eqn:E; [discriminate|]. apply is_nil_false in E.
  destruct (raw_suffixes x ci) as [sufs|] eqn:Es; [|discriminate].
  match type of HT with (if is_nil ?res then _ else _) = _ => set (R := res) in *; destruct (is_nil R); [discriminate|] end.
  inversion HT; subst T. clear HT.
  apply ML_cons_inv in HM. destruct HM as [k [Hp Hx]].
  apply ML_cons_inv in Hx. destruct Hx as [k' [Hx Hnil]]. apply ML_nil_inv in Hnil. subst k'.
  assert (Hmp : mode_ok ci w p) by (eapply mode_ok_cat; [exact Hm|left; reflexivity]).
  assert (Hmx : mode_ok ci w x) by (eapply mode_ok_cat; [exact Hm|right; left; reflexivity]).
  destruct (raw_literal_sound _ _ _ _ _ Hmp Hp E) as [Hsp Hk].
  destruct (raw_suffixes_sound _ _ _ _ _ _ Hmx Hx Es) as [s [Hin [Hss Hlen]]].
  pose proof (raw_suffixes_nonempty _ _ _ Es) as Hne. rewrite Forall_forall in Hne. specialize (Hne _ Hin).
  apply Exists_exists. exists (raw_literal p ci ++ s). split.
  - unfold R. apply filter_In. split; [apply in_map; exact Hin|].
    rewrite app_length. destruct (raw_literal p ci); [congruence|]. destruct s; [congruence|].
    cbn [length]. apply Nat.leb_le. lia.
  - exists i. split; [rewrite app_length; lia|]. apply seg_at_app; [exact Hsp|rewrite <- Hk; exact Hss].
Qed.

(* ====================================================================================== *)
(* C11_literals_sound: extractLiterals                                                     *)
(* ====================================================================================== *)

Definition lits_hold (ci : bool) (w : bytes) (i j : nat) (x : lits) : Prop :=
  match x with
  | LNone => True
  | LAll l => Forall (occ_in ci w i j) l
  | LAny l => Exists (occ_in ci w i j) l
  | LComb a y => Forall (occ_in ci w i j) a /\ Exists (occ_in ci w i j) y
  end.

Lemma lits_hold_mono ci w i j i' j' x : (i' <= i)%nat -> (j <= j')%nat ->
  lits_hold ci w i j x -> lits_hold ci w i' j' x.
Proof.
  intros Hi Hj. destruct x; cbn [lits_hold]; auto.
  - apply Forall_impl. intros n. apply occ_in_mono; auto.
  - intro H. apply Exists_exists in H. destruct H as [n [Hn Ho]]. apply Exists_exists. exists n. split; [auto|eapply occ_in_mono; eauto].
  - intros [H1 H2]. split.
    + revert H1. apply Forall_impl. intros n. apply occ_in_mono; auto.
    + apply Exists_exists in H2. destruct H2 as [n [Hn Ho]]. apply Exists_exists. exists n. split; [auto|eapply occ_in_mono; eauto].
Qed.

Lemma occ_in_nil ci w i j : (i <= j)%nat -> occ_in ci w i j [].
Proof. intro H. exists i. split; [cbn [length]; lia|]. unfold seg_at. cbn [length firstn]. apply eqs_nil. Qed.

Lemma longest_fold_in (r : list bytes) : forall acc,
  let res := fold_left (fun best s => if (length best <? length s)%nat then s else best) r acc in
  res = acc \/ In res r.
Proof.
  induction r as [|x r IH]; intro acc; cbn [fold_left]; [left; reflexivity|].
  destruct (IH (if (length acc <? length x)%nat then x else acc)) as [H|H].
  - cbv zeta in *. rewrite H. destruct (length acc <? length x)%nat; [right; left; reflexivity|left; reflexivity].
  - right. right. exact H.
Qed.

Lemma longest_in v : v <> [] -> In (longest v) v.
Proof.
  destruct v as [|b r]; [congruence|]. intros _. cbn [longest].
  destruct (longest_fold_in r b) as [H|H]; [left; symmetry; exact H|right; exact H].
Qed.

Lemma cat_all_hold ci w i j subs :
  Forall (lits_hold ci w i j) subs -> Forall (occ_in ci w i j) (cat_all subs).
Proof.
  intro H. unfold cat_all. apply Forall_forall. intros n Hn. apply in_flat_map in Hn.
  destruct Hn as [x [Hx Hn]]. rewrite Forall_forall in H. specialize (H _ Hx).
  destruct x; try destruct Hn. cbn [lits_hold] in H. rewrite Forall_forall in H. auto.
Qed.

Lemma cat_best_in subs : forall init b,
  fold_left (fun best x =>
               match x with
               | LAny v => match best with
                           | None => Some v
                           | Some b => if (length v <? length b)%nat then Some v else best
                           end
               | _ => best
               end) subs init = Some b -> init = Some b \/ In (LAny b) subs.
Proof.
  induction subs as [|x subs IH]; intros init b H; cbn [fold_left] in H; [left; exact H|].
  apply IH in H. destruct H as [H|H]; [|right; right; exact H].
  destruct x; try (left; exact H).
  destruct init as [b0|].
  - destruct (length l <? length b0)%nat; [inversion H; subst; right; left; reflexivity|left; exact H].
  - inversion H; subst. right; left; reflexivity.
Qed.

Lemma alt_branches_hold ci w i j subs : forall b x,
  (i <= j)%nat -> alt_branches subs = Some b -> In x subs -> lits_hold ci w i j x -> Exists (occ_in ci w i j) b.
Proof.
  induction subs as [|y subs IH]; intros b x Hij Hb Hx Hh; [destruct Hx|].
  cbn [alt_branches] in Hb.
  destruct Hx as [->|Hx].
  - destruct x; try discriminate; cbn [lits_hold] in Hh.
    + destruct (alt_branches subs) as [b'|]; [|discriminate]. inversion Hb; subst. apply Exists_cons_hd.
      destruct l as [|n0 l']; [cbn [longest]; apply occ_in_nil; exact Hij|].
      rewrite Forall_forall in Hh. apply Hh. apply longest_in. discriminate.
    + destruct (alt_branches subs) as [b'|]; [|discriminate]. inversion Hb; subst.
      apply Exists_app. left. exact Hh.
    + destruct (alt_branches subs) as [b'|]; [|discriminate]. inversion Hb; subst.
      apply Exists_app. left. apply Hh.
  - destruct y; try discriminate; destruct (alt_branches subs) as [b'|] eqn:Eb; try discriminate;
      inversion Hb; subst; specialize (IH _ _ Hij eq_refl Hx Hh).
    + apply Exists_cons_tl. exact IH.
    + apply Exists_app. right. exact IH.
    + apply Exists_app. right. exact IH.
Qed.

Theorem extract_sound ci w r : forall i j,
  mode_ok ci w r -> M w r i j -> lits_hold ci w i j (extract_literals r ci).
Proof.
  induction r using re_ind'; intros i j Hm HM; cbn [extract_literals]; try exact I.
  - (* Lit *)
    destruct (has_rune_error rs) eqn:Ere; [exact I|].
    destruct (length (lit_str ci rs) <? 2)%nat eqn:El; [exact I|].
    cbn [lits_hold]. constructor; [|constructor].
    assert (Hne : raw_literal (Lit f rs) ci <> []).
    { cbn [raw_literal]. rewrite Ere. apply Nat.ltb_ge in El. destruct (lit_str ci rs); [cbn in El; lia|discriminate]. }
    destruct (raw_literal_sound _ _ _ _ _ Hm HM Hne) as [Hs Hj].
    cbn [raw_literal] in Hs, Hj. rewrite Ere in Hs, Hj.
    exists i. split; [lia|exact Hs].
  - (* Cap *)
    apply IHr; [eapply mode_ok_cap; eauto|apply M_cap_inv in HM; exact HM].
  - (* Plus *)
    apply M_plus_inv in HM. destruct HM as [k [Ha Hs]]. apply M_bounds in Hs.
    eapply lits_hold_mono; [| |apply (IHr i k); [eapply mode_ok_plus; eauto|exact Ha]]; lia.
  - (* Cat *)
    apply M_cat_inv in HM.
    pose proof (ML_bounds _ _ _ _ HM) as Hb.
    assert (Hsubs : Forall (lits_hold ci w i j) (map (fun a => extract_literals a ci) l)).
    { apply Forall_forall. intros x Hx. apply in_map_iff in Hx. destruct Hx as [a [<- Ha]].
      destruct (ML_parts _ _ _ _ HM _ Ha) as [k [k' [Hk Hma]]].
      rewrite Forall_forall in H.
      eapply lits_hold_mono; [| |apply (H _ Ha k k'); [eapply mode_ok_cat; eauto|exact Hma]]; lia. }
    set (subs := map (fun a => extract_literals a ci) l) in *.
    pose proof (cat_all_hold _ _ _ _ _ Hsubs) as Hall.
    assert (Hbest : forall b, cat_best subs = Some b -> Exists (occ_in ci w i j) b).
    { intros b Hb'. unfold cat_best in Hb'. apply cat_best_in in Hb'. destruct Hb' as [Hb'|Hb']; [discriminate|].
      rewrite Forall_forall in Hsubs. apply (Hsubs _ Hb'). }
    destruct (is_nil (cat_all subs)); cbn [negb].
    + destruct (trie_reconstruct l ci) as [t|] eqn:Et.
      * cbn [lits_hold]. eapply trie_sound; eauto.
      * destruct (cat_best subs) as [b|]; [cbn [lits_hold]; apply Hbest; reflexivity|exact I].
    + destruct (cat_best subs) as [b|]; [|exact Hall].
      destruct (any_too_short b 2); cbn [negb lits_hold]; [exact Hall|]. split; [exact Hall|apply Hbest; reflexivity].
  - (* Alt *)
    apply M_alt_inv in HM. destruct HM as [a [Ha HMa]].
    pose proof (M_bounds _ _ _ _ HMa) as Hb.
    destruct (alt_branches (map (fun a => extract_literals a ci) l)) as [b|] eqn:Eb; [|exact I].
    assert (Hx : Exists (occ_in ci w i j) b).
    { eapply alt_branches_hold; [lia|exact Eb|apply in_map; exact Ha|].
      rewrite Forall_forall in H. apply H; [exact Ha|eapply mode_ok_alt; eauto|exact HMa]. }
    destruct b; [exact I|exact Hx].
  - (* Rep *)
    destruct (1 <=? mn)%nat eqn:E1; [|exact I]. apply Nat.leb_le in E1.
    apply M_rep_inv in HM. destruct HM as [n [Hml [Hmn _]]].
    destruct n as [|n]; [lia|]. cbn [repeat] in Hml. apply ML_cons_inv in Hml. destruct Hml as [k [Ha Hl]].
    apply ML_bounds in Hl.
    eapply lits_hold_mono; [| |apply (IHr i k); [eapply mode_ok_rep; eauto|exact Ha]]; lia.
Qed.

(* ====================================================================================== *)
(* anchors                                                                                 *)
(* ====================================================================================== *)

Lemma strip_caps_M w r : forall i j, M w r i j -> M w (strip_caps r) i j.
Proof.
  induction r; intros i j H; cbn [strip_caps]; auto. apply IHr. apply M_cap_inv in H. exact H.
Qed.

Lemma mode_ok_strip ci w r : mode_ok ci w r -> mode_ok ci w (strip_caps r).
Proof.
  induction r; intro H; cbn [strip_caps]; auto. apply IHr. eapply mode_ok_cap; eauto.
Qed.

Lemma is_op0_begin b : is_op0 b OBeginText = true -> exists f, b = Op0 f OBeginText.
Proof. destruct b; cbn; try discriminate. destruct o; try discriminate. eauto. Qed.
Lemma is_op0_end b : is_op0 b OEndText = true -> exists f, b = Op0 f OEndText.
Proof. destruct b; cbn; try discriminate. destruct o; try discriminate. eauto. Qed.

Lemma lit_after_begin_sound ci w r i j :
  mode_ok ci w r -> M w r i j -> lit_after_begin r ci <> [] ->
  i = 0%nat /\ seg_at ci w 0 (lit_after_begin r ci).
Proof.
  intros Hm HM Hne. apply strip_caps_M in HM. apply mode_ok_strip in Hm.
  unfold lit_after_begin in *. destruct (strip_caps r) as [| | | | | | |f l| |]; try congruence.
  destruct l as [|b [|x rest]]; try congruence.
  destruct (is_op0 b OBeginText) eqn:Eb; [|congruence].
  apply is_op0_begin in Eb. destruct Eb as [fb ->].
  apply M_cat_inv in HM. apply ML_cons_inv in HM. destruct HM as [k [Hb Hrest]].
  apply ML_cons_inv in Hrest. destruct Hrest as [k2 [Hx _]].
  apply M_op0_inv in Hb. cbn [op0_step] in Hb. destruct (Nat.eqb i 0) eqn:Ei; [|discriminate].
  apply Nat.eqb_eq in Ei. inversion Hb; subst.
  assert (Hmx : mode_ok ci w x) by (eapply mode_ok_cat; [exact Hm|right; left; reflexivity]).
  destruct (raw_literal_sound _ _ _ _ _ Hmx Hx Hne) as [Hs _]. auto.
Qed.

Lemma last_two {A} (l : list A) : forall x e, (2 <= length l)%nat ->
  nth_error l (length l - 2) = Some x -> nth_error l (length l - 1) = Some e ->
  exists pre, l = pre ++ [x; e].
Proof.
  induction l as [|a l IH]; intros x e Hlen Hx He; [cbn in Hlen; lia|].
  destruct l as [|b l'] eqn:El; [cbn in Hlen; lia|].
  destruct l' as [|c l''].
  - cbn in Hx, He. inversion Hx; inversion He; subst. exists []. reflexivity.
  - rewrite <- El in *. assert (Hl : (2 <= length l)%nat) by (subst l; cbn [length]; lia).
    replace (length (a :: l) - 2)%nat with (S (length l - 2)) in Hx by (cbn [length]; lia).
    replace (length (a :: l) - 1)%nat with (S (length l - 1)) in He by (cbn [length]; lia).
    cbn [nth_error] in Hx, He. destruct (IH _ _ Hl Hx He) as [pre Hp]. exists (a :: pre). rewrite Hp at 1. reflexivity.
Qed.

Lemma lit_before_end_sound ci w r i j :
  mode_ok ci w r -> M w r i j -> (i <= length w)%nat -> lit_before_end r ci <> [] ->
  j = length w /\ (length (lit_before_end r ci) <= length w)%nat
  /\ seg_at ci w (length w - length (lit_before_end r ci)) (lit_before_end r ci).
Proof.
  intros Hm HM Hi Hne. apply strip_caps_M in HM. apply mode_ok_strip in Hm.
  unfold lit_before_end in *. destruct (strip_caps r) as [| | | | | | |f l| |]; try congruence.
  destruct (length l <? 2)%nat eqn:El; [congruence|]. apply Nat.ltb_ge in El.
  destruct (nth_error l (length l - 1)) as [e|] eqn:Ee; [|congruence].
  destruct (nth_error l (length l - 2)) as [x|] eqn:Ex; [|congruence].
  destruct (is_op0 e OEndText) eqn:Eo; [|congruence].
  apply is_op0_end in Eo. destruct Eo as [fe ->].
  destruct (last_two l x _ El Ex Ee) as [pre Hl].
  apply M_cat_inv in HM. rewrite Hl in HM. apply ML_app in HM. destruct HM as [k [Hpre Hxe]].
  apply ML_cons_inv in Hxe. destruct Hxe as [k2 [Hx He]].
  apply ML_cons_inv in He. destruct He as [k3 [He Hnil]]. apply ML_nil_inv in Hnil. subst k3.
  apply M_op0_inv in He. cbn [op0_step] in He. destruct (Nat.eqb k2 (length w)) eqn:Ek; [|discriminate].
  apply Nat.eqb_eq in Ek. inversion He; subst.
  assert (Hmx : mode_ok ci w x) by (eapply mode_ok_cat; [exact Hm|apply in_or_app; right; left; reflexivity]).
  destruct (raw_literal_sound _ _ _ _ _ Hmx Hx Hne) as [Hs Hk].
  split; [reflexivity|]. split; [lia|]. replace (length w - length (raw_literal x ci))%nat with k by lia. exact Hs.
Qed.

(* ====================================================================================== *)
(* string predicates: an occurrence makes the test answer true                             *)
(* ====================================================================================== *)

Lemma is_prefix_app n r : is_prefix n (n ++ r) = true.
Proof. induction n as [|x n IH]; cbn [is_prefix app]; [reflexivity|]. rewrite N.eqb_refl, IH. reflexivity. Qed.

Lemma is_substring_app pre n r : is_substring n (pre ++ n ++ r) = true.
Proof.
  induction pre as [|x pre IH]; cbn [app].
  - destruct (n ++ r) eqn:E; cbn [is_substring]; rewrite <- E; rewrite is_prefix_app; reflexivity.
  - cbn [is_substring]. rewrite IH. apply orb_true_r.
Qed.

Lemma seg_at_cs_split s p n : seg_at false s p n -> skipn p s = n ++ skipn (length n) (skipn p s).
Proof.
  unfold seg_at, eqs. intro H. rewrite <- (firstn_skipn (length n) (skipn p s)) at 1. rewrite H. reflexivity.
Qed.

Lemma is_substring_of_seg s p n : seg_at false s p n -> is_substring n s = true.
Proof.
  intro H. apply seg_at_cs_split in H. rewrite <- (firstn_skipn p s). rewrite H. apply is_substring_app.
Qed.

Lemma is_prefix_of_seg s n : seg_at false s 0 n -> is_prefix n s = true.
Proof. intro H. apply seg_at_cs_split in H. cbn [skipn] in H. rewrite H. apply is_prefix_app. Qed.

Lemma is_suffix_of_seg s n : (length n <= length s)%nat -> seg_at false s (length s - length n) n -> is_suffix n s = true.
Proof.
  intros Hl H. unfold seg_at, eqs in H.
  assert (Hk : length (skipn (length s - length n) s) = length n) by (rewrite skipn_length; lia).
  rewrite <- Hk in H at 1. rewrite firstn_all in H.
  unfold is_suffix. rewrite <- (firstn_skipn (length s - length n) s). rewrite H.
  rewrite rev_app_distr. apply is_prefix_app.
Qed.

Lemma equal_fold_ascii_of_map a : forall b, map ascii_lower a = b -> equal_fold_ascii a b = true.
Proof.
  induction a as [|x a IH]; intros b H; cbn [equal_fold_ascii]; [reflexivity|].
  destruct b as [|y b]; [discriminate|]. cbn [map] in H. inversion H; subst.
  rewrite N.eqb_refl. cbn [andb]. apply IH. reflexivity.
Qed.

Lemma has_prefix_fold_of_seg s n : seg_at true s 0 n -> has_prefix_fold_ascii s n = true.
Proof.
  unfold seg_at. cbn [skipn]. intro H. pose proof (eqs_length _ _ _ H) as Hl. rewrite firstn_length in Hl.
  unfold has_prefix_fold_ascii. replace (length s <? length n)%nat with false by (symmetry; apply Nat.ltb_ge; lia).
  apply equal_fold_ascii_of_map. exact H.
Qed.

Lemma has_suffix_fold_of_seg s n : (length n <= length s)%nat ->
  seg_at true s (length s - length n) n -> has_suffix_fold_ascii s n = true.
Proof.
  intros Hl H. unfold seg_at in H.
  assert (Hk : length (skipn (length s - length n) s) = length n) by (rewrite skipn_length; lia).
  rewrite <- Hk in H at 1. rewrite firstn_all in H.
  unfold has_suffix_fold_ascii. replace (length s <? length n)%nat with false by (symmetry; apply Nat.ltb_ge; lia).
  apply equal_fold_ascii_of_map. exact H.
Qed.

(* --- containsFoldASCIIOnly --- *)

Lemma index_either_le s c1 c2 : forall k x, nth_error s k = Some x ->
  (x = c1 \/ c2 = Some x) -> exists lo, index_either s c1 c2 = Some lo /\ (lo <= k)%nat.
Proof.
  induction s as [|y s IH]; intros k x Hk Hx; [destruct k; discriminate|].
  cbn [index_either].
  destruct ((y =? c1) || match c2 with Some u => y =? u | None => false end) eqn:E.
  - exists 0%nat. split; [reflexivity|lia].
  - destruct k as [|k].
    + cbn in Hk. inversion Hk; subst y. apply orb_false_iff in E. destruct E as [E1 E2].
      destruct Hx as [-> | ->]; [rewrite N.eqb_refl in E1; discriminate|rewrite N.eqb_refl in E2; discriminate].
    + cbn [nth_error] in Hk. destruct (IH _ _ Hk Hx) as [lo [Hlo Hle]]. rewrite Hlo. exists (S lo). split; [reflexivity|lia].
Qed.

Lemma nth_error_skipn {A} (s : list A) : forall p k, nth_error (skipn p s) k = nth_error s (p + k).
Proof.
  induction s as [|x s IH]; intros p k; [destruct p, k; reflexivity|].
  destruct p as [|p]; [reflexivity|]. cbn [skipn Nat.add nth_error]. apply IH.
Qed.

Lemma nth_error_firstn_lt {A} (s : list A) : forall m k, (k < m)%nat -> nth_error (firstn m s) k = nth_error s k.
Proof.
  induction s as [|x s IH]; intros m k H; [destruct m, k; reflexivity|].
  destruct m as [|m]; [lia|]. destruct k as [|k]; [reflexivity|]. cbn [firstn nth_error]. apply IH. lia.
Qed.

Lemma map_nth_some {A B} (f : A -> B) l : forall k c, nth_error (map f l) k = Some c ->
  exists b, nth_error l k = Some b /\ f b = c.
Proof.
  induction l as [|x l IH]; intros k c H; [destruct k; discriminate|].
  destruct k as [|k]; cbn [map nth_error] in *; [inversion H; eauto|auto].
Qed.

(* the bytes of an occurrence, one by one *)
Lemma seg_at_nth ci s p n k c : seg_at ci s p n -> nth_error n k = Some c ->
  exists b, nth_error s (p + k) = Some b /\ (if ci then ascii_lower b else b) = c.
Proof.
  unfold seg_at. intros H Hk.
  assert (Hlt : (k < length n)%nat) by (apply nth_error_Some; congruence).
  rewrite <- nth_error_skipn. rewrite <- (nth_error_firstn_lt _ (length n) k Hlt).
  destruct ci; unfold eqs in H.
  - rewrite <- H in Hk. apply map_nth_some in Hk. exact Hk.
  - rewrite H. eauto.
Qed.

Lemma ascii_lower_cases x y : ascii_lower x = y -> x = y \/ (in_rng 97 122 y = true /\ x = y - 32).
Proof.
  unfold ascii_lower, in_rng. destruct ((65 <=? x) && (x <=? 90)) eqn:E; intro H; [right|left; exact H].
  subst y. split; lia.
Qed.

Lemma cfao_complete s p n first n' upper limit :
  n = first :: n' -> upper = (if in_rng 97 122 first then Some (first - 32) else None) ->
  seg_at true s p n -> (p <= limit)%nat ->
  forall fuel i, (i <= p)%nat -> cfao_loop fuel s i limit n first upper = true.
Proof.
  intros Hn Hu Hseg Hpl. induction fuel as [|f IH]; intros i Hi; cbn [cfao_loop];
    replace (limit <? i)%nat with false by (symmetry; apply Nat.ltb_ge; lia); [reflexivity|].
  assert (H0 : nth_error n 0 = Some first) by (subst n; reflexivity).
  destruct (seg_at_nth _ _ _ _ _ _ Hseg H0) as [b [Hb Hlow]]. rewrite Nat.add_0_r in Hb. cbn beta iota in Hlow.
  assert (Hcand : b = first \/ upper = Some b).
  { apply ascii_lower_cases in Hlow. destruct Hlow as [->|[Hr ->]]; [left; reflexivity|right]. rewrite Hu, Hr. reflexivity. }
  assert (Hb' : nth_error (skipn i s) (p - i) = Some b) by (rewrite nth_error_skipn; replace (i + (p - i))%nat with p by lia; exact Hb).
  destruct (index_either_le _ first upper _ _ Hb' Hcand) as [lo [Hlo Hle]]. rewrite Hlo.
  replace (limit <? i + lo)%nat with false by (symmetry; apply Nat.ltb_ge; lia).
  destruct (equal_fold_ascii (firstn (length n) (skipn (i + lo) s)) n) eqn:Eq; [reflexivity|].
  apply IH. destruct (Nat.eq_dec (i + lo) p) as [Hp|Hp]; [|lia].
  rewrite Hp in Eq. unfold seg_at, eqs in Hseg. rewrite (equal_fold_ascii_of_map _ _ Hseg) in Eq. discriminate.
Qed.

Lemma contains_fold_ascii_of_seg s p n : seg_at true s p n -> contains_fold_ascii s n = true.
Proof.
  intro H. unfold contains_fold_ascii. destruct n as [|first n'] eqn:En; [reflexivity|]. cbn [is_nil].
  assert (Hb : (p + length (first :: n') <= length s)%nat) by (apply (seg_at_bound _ _ _ _ H); discriminate).
  replace (length s <? length (first :: n'))%nat with false by (symmetry; apply Nat.ltb_ge; lia).
  destruct (is_ascii (first :: n')); [|reflexivity].
  unfold contains_fold_ascii_only.
  replace (length s <? length (first :: n'))%nat with false by (symmetry; apply Nat.ltb_ge; lia).
  eapply cfao_complete; eauto; lia.
Qed.

Definition contains_b (ci : bool) (s n : bytes) : bool := if ci then contains_fold_ascii s n else is_substring n s.

Lemma contains_of_occ ci w i j n : occ_in ci w i j n -> contains_b ci w n = true.
Proof.
  intros [p [_ H]]. destruct ci; cbn [contains_b]; [eapply contains_fold_ascii_of_seg; eauto|eapply is_substring_of_seg; eauto].
Qed.

(* ====================================================================================== *)
(* the Wu-Manber style matcher: an occurrence of a needle makes the scan answer true        *)
(* ====================================================================================== *)

Section Shift.
  Variables (ml : nat) (ci : bool) (c : N).

  (* needle byte b lowers the table entry of haystack byte c *)
  Definition hits (b : N) : Prop := b = c \/ (ci = true /\ in_rng 97 122 b = true /\ c = b - 32).

  Lemma hits_b b : hits b -> (b =? c) || (ci && in_rng 97 122 b && (c =? b - 32)) = true.
  Proof.
    intros [->|[-> [Hr ->]]]; [rewrite N.eqb_refl; reflexivity|].
    rewrite Hr, N.eqb_refl. cbn. apply orb_true_r.
  Qed.

  Lemma shift_step_le st b : fst (shift_step ml ci c st b) <= fst st /\ snd (shift_step ml ci c st b) = S (snd st).
  Proof.
    destruct st as [a j]. unfold shift_step. destruct (j <? ml)%nat; cbn [fst snd]; [|split; [lia|reflexivity]].
    split; [|reflexivity].
    destruct (((b =? c) || (ci && in_rng 97 122 b && (c =? b - 32))) && (N.of_nat (ml - 1 - j) mod 256 <? a)) eqn:E; [|lia].
    apply andb_true_iff in E. destruct E as [_ E]. apply N.ltb_lt in E. lia.
  Qed.

  Lemma shift_fold_le n : forall st, fst (fold_left (shift_step ml ci c) n st) <= fst st.
  Proof.
    induction n as [|x n IH]; intro st; cbn [fold_left]; [lia|].
    specialize (IH (shift_step ml ci c st x)). destruct (shift_step_le st x) as [H _]. lia.
  Qed.

  Lemma shift_fold_hit n : forall st k d, nth_error n k = Some d -> hits d -> (snd st + k < ml)%nat ->
    fst (fold_left (shift_step ml ci c) n st) <= N.of_nat (ml - 1 - (snd st + k)) mod 256.
  Proof.
    induction n as [|x n IH]; intros st k d Hk Hh Hlt; [destruct k; discriminate|].
    cbn [fold_left]. destruct k as [|k].
    - cbn in Hk. inversion Hk; subst x.
      pose proof (shift_fold_le n (shift_step ml ci c st d)) as Hle.
      assert (Hs : fst (shift_step ml ci c st d) <= N.of_nat (ml - 1 - (snd st + 0)) mod 256).
      { destruct st as [a j]. cbn [snd] in *. unfold shift_step.
        replace (j <? ml)%nat with true by (symmetry; apply Nat.ltb_lt; lia). cbn [fst].
        rewrite (hits_b _ Hh). cbn [andb]. rewrite Nat.add_0_r.
        destruct (N.of_nat (ml - 1 - j) mod 256 <? a) eqn:E; [lia|apply N.ltb_ge in E; exact E]. }
      lia.
    - cbn [nth_error] in Hk. destruct (shift_step_le st x) as [_ Hsnd].
      specialize (IH (shift_step ml ci c st x) k d Hk Hh). rewrite Hsnd in IH.
      replace (S (snd st) + k)%nat with (snd st + S k)%nat in IH by lia. apply IH. lia.
  Qed.

  Lemma shift_needle_le acc n : shift_needle ml ci c acc n <= acc.
  Proof. unfold shift_needle. apply (shift_fold_le n (acc, 0%nat)). Qed.

  Lemma shift_outer_le norms : forall init, fold_left (shift_needle ml ci c) norms init <= init.
  Proof.
    induction norms as [|n norms IH]; intro init; cbn [fold_left]; [lia|].
    specialize (IH (shift_needle ml ci c init n)). pose proof (shift_needle_le init n). lia.
  Qed.

  Lemma shift_outer_in norms n B : In n norms -> (forall acc, shift_needle ml ci c acc n <= B) ->
    forall init, fold_left (shift_needle ml ci c) norms init <= B.
  Proof.
    induction norms as [|x norms IH]; intros Hin HB init; [destruct Hin|]. cbn [fold_left].
    destruct Hin as [->|Hin].
    - pose proof (shift_outer_le norms (shift_needle ml ci c init n)). specialize (HB init). lia.
    - apply IH; auto.
  Qed.
End Shift.

Lemma im_shift_le im c : (N.to_nat (im_shift im c) <= im_minlen im)%nat.
Proof.
  unfold im_shift. pose proof (shift_outer_le (im_minlen im) (im_ci im) c (im_norms im) (N.of_nat (Nat.min (im_minlen im) 255))). lia.
Qed.

Lemma im_shift_ok im c n k d :
  In n (im_norms im) -> nth_error n k = Some d -> hits (im_ci im) c d -> (k < im_minlen im)%nat ->
  (N.to_nat (im_shift im c) <= im_minlen im - 1 - k)%nat.
Proof.
  intros Hin Hk Hh Hlt. unfold im_shift.
  assert (HB : forall acc, shift_needle (im_minlen im) (im_ci im) c acc n <= N.of_nat (im_minlen im - 1 - k) mod 256).
  { intro acc. unfold shift_needle.
    pose proof (shift_fold_hit (im_minlen im) (im_ci im) c n (acc, 0%nat) k d Hk Hh) as H. cbn [snd] in H.
    rewrite Nat.add_0_l in H. apply H. exact Hlt. }
  pose proof (shift_outer_in _ _ _ _ _ _ Hin HB (N.of_nat (Nat.min (im_minlen im) 255))) as H.
  assert (N.of_nat (im_minlen im - 1 - k) mod 256 <= N.of_nat (im_minlen im - 1 - k)) by (apply N.mod_le; lia).
  lia.
Qed.

Lemma nth_error_nth_N (n : bytes) k d : nth_error n k = Some d -> nth k n 256 = d.
Proof. revert k. induction n as [|x n IH]; intros [|k] H; try discriminate; cbn in *; [congruence|auto]. Qed.

Lemma eq_seg_of_seg_at ci s p n : seg_at ci s p n -> eq_seg ci (firstn (length n) (skipn p s)) n = true.
Proof.
  unfold seg_at, eqs, eq_seg. destruct ci; intro H; [apply equal_fold_ascii_of_map; exact H|rewrite H; apply bytes_eqb_refl].
Qed.

Lemma im_scan_complete im s n p :
  In n (im_norms im) -> (1 <= im_minlen im)%nat -> (im_minlen im <= length n)%nat ->
  seg_at (im_ci im) s p n ->
  forall fuel i, (im_minlen im - 1 <= i)%nat -> (i <= p + im_minlen im - 1)%nat -> im_scan im s fuel i = true.
Proof.
  intros Hin Hml Hlen Hseg. set (ml := im_minlen im) in *.
  assert (Hnn : n <> []) by (destruct n; [cbn in Hlen; lia|discriminate]).
  pose proof (seg_at_bound _ _ _ _ Hseg Hnn) as Hb.
  induction fuel as [|f IH]; intros i Hlo Hhi.
  - cbn [im_scan]. destruct (nth_error s i) as [b|] eqn:Eb; [reflexivity|].
    apply nth_error_None in Eb. lia.
  - cbn [im_scan]. destruct (nth_error s i) as [b|] eqn:Eb; [|apply nth_error_None in Eb; lia].
    (* what the table says about byte b when the window overlaps the occurrence *)
    assert (Hov : (p <= i)%nat -> (N.to_nat (im_shift im b) <= ml - 1 - (i - p))%nat
                                  /\ ((i = p + ml - 1)%nat -> (if im_ci im then ascii_lower b else b) = nth (ml - 1) n 256)).
    { intro Hpi. assert (Hk : (i - p < length n)%nat) by lia.
      destruct (nth_error n (i - p)) as [d|] eqn:Ed; [|apply nth_error_None in Ed; lia].
      destruct (seg_at_nth _ _ _ _ _ _ Hseg Ed) as [b' [Hb' Hlow]].
      replace (p + (i - p))%nat with i in Hb' by lia. rewrite Eb in Hb'. inversion Hb'; subst b'.
      split.
      - apply (im_shift_ok im b n (i - p) d Hin Ed); [|lia].
        destruct (im_ci im) eqn:Eci.
        + apply ascii_lower_cases in Hlow. destruct Hlow as [->|[Hr ->]]; [left; reflexivity|right; auto].
        + left. symmetry. exact Hlow.
      - intro Hi. replace (i - p)%nat with (ml - 1)%nat in Ed by lia. rewrite (nth_error_nth_N _ _ _ Ed). exact Hlow. }
    destruct (im_shift im b =? 0) eqn:Esh; cbn [negb].
    + (* candidate position *)
      cbv zeta. match goal with |- (if ?c then _ else _) = _ => destruct c eqn:Ev end; [reflexivity|].
      apply IH; [lia|].
      destruct (Nat.eq_dec i (p + ml - 1)) as [Hi|Hi]; [|lia].
      exfalso. assert (Hpi : (p <= i)%nat) by lia. destruct (Hov Hpi) as [_ Hkey]. specialize (Hkey Hi).
      unfold im_verify in Ev. apply Bool.not_true_iff_false in Ev. apply Ev. clear Ev.
      assert (Hp : (i + 1 - im_minlen im)%nat = p) by (fold ml; lia). rewrite Hp.
      apply existsb_exists. exists n. split; [exact Hin|].
      apply andb_true_iff. split; [apply andb_true_iff; split|].
      * apply N.eqb_eq. symmetry. exact Hkey.
      * apply Nat.leb_le. lia.
      * apply eq_seg_of_seg_at. exact Hseg.
    + apply N.eqb_neq in Esh. apply IH; [lia|].
      destruct (le_lt_dec p i) as [Hpi|Hpi].
      * destruct (Hov Hpi) as [Hs _]. lia.
      * pose proof (im_shift_le im b). fold ml in H. lia.
Qed.

Lemma fold_min_len (rest : list bytes) : forall a,
  let m := fold_left (fun m n => Nat.min m (length n)) rest a in
  (m <= a)%nat /\ (forall n, In n rest -> (m <= length n)%nat)
  /\ ((1 <= a)%nat -> (forall n, In n rest -> n <> []) -> (1 <= m)%nat).
Proof.
  induction rest as [|x rest IH]; intro a; cbn [fold_left].
  - split; [lia|]. split; [intros n []|auto].
  - destruct (IH (Nat.min a (length x))) as [H1 [H2 H3]]. cbv zeta in *. split; [lia|]. split.
    + intros n [<-|Hn]; [lia|auto].
    + intros Ha Hne. apply H3.
      * assert (x <> []) by (apply Hne; left; reflexivity). destruct x; [congruence|]. cbn [length]. lia.
      * intros n Hn. apply Hne. right. exact Hn.
Qed.

Lemma lower_ascii_fixed seg n : map ascii_lower seg = n -> lower_ascii n = n.
Proof.
  intro H. subst n. unfold lower_ascii. rewrite map_map. apply map_ext. intro a. apply ascii_lower_idem.
Qed.

Theorem im_match_complete needles ci s p n :
  In n needles -> (forall n', In n' needles -> n' <> []) -> seg_at ci s p n ->
  im_match (new_indexed needles ci) s = true.
Proof.
  intros Hin Hne Hseg.
  destruct needles as [|n0 rest]; [destruct Hin|].
  set (im := new_indexed (n0 :: rest) ci).
  assert (Hci : im_ci im = ci) by reflexivity.
  assert (Hmin : im_minlen im = fold_left (fun m n => Nat.min m (length n)) rest (length n0)) by reflexivity.
  assert (Hnorms : im_norms im = if ci then map lower_ascii (n0 :: rest) else n0 :: rest) by reflexivity.
  destruct (fold_min_len rest (length n0)) as [H1 [H2 H3]]. cbv zeta in *. rewrite <- Hmin in *.
  assert (Hml1 : (1 <= im_minlen im)%nat).
  { apply H3.
    - assert (n0 <> []) by (apply Hne; left; reflexivity). destruct n0; [congruence|cbn [length]; lia].
    - intros n' Hn'. apply Hne. right. exact Hn'. }
  assert (Hml2 : (im_minlen im <= length n)%nat).
  { destruct Hin as [<-|Hin]; [lia|auto]. }
  assert (Hnorm : In n (im_norms im)).
  { rewrite Hnorms. destruct ci; [|exact Hin].
    unfold seg_at, eqs in Hseg. rewrite <- (lower_ascii_fixed _ _ Hseg). apply in_map. exact Hin. }
  assert (Hnn : n <> []) by (apply Hne; exact Hin).
  pose proof (seg_at_bound _ _ _ _ Hseg Hnn) as Hb.
  unfold im_match. fold im.
  replace (Nat.eqb (im_minlen im) 0) with false by (symmetry; apply Nat.eqb_neq; lia).
  replace (length s <? im_minlen im)%nat with false by (symmetry; apply Nat.ltb_ge; lia).
  cbn [orb]. apply (im_scan_complete im s n p Hnorm Hml1 Hml2); [rewrite Hci; exact Hseg|lia|lia].
Qed.

(* ====================================================================================== *)
(* buildMultiNeedlePF / the allRequired branch                                             *)
(* ====================================================================================== *)

Definition pre_ok (ci : bool) (w n : bytes) : Prop :=
  (if ci then has_prefix_fold_ascii w n else is_prefix n w) = true.
Definition suf_ok (ci : bool) (w n : bytes) : Prop :=
  (if ci then has_suffix_fold_ascii w n else is_suffix n w) = true.

Lemma in_removelast {A} (l : list A) x : In x (removelast l) -> In x l.
Proof.
  induction l as [|a l IH]; [intros []|]. cbn [removelast]. destruct l as [|b l']; [intros []|].
  intros [<-|H]; [left; reflexivity|right; apply IH; exact H].
Qed.

Lemma mn_run_true ci w pre suf mid :
  (pre = [] \/ pre_ok ci w pre) -> (suf = [] \/ suf_ok ci w suf) ->
  (forall n, In n mid -> contains_b ci w n = true) -> mn_run (MN ci pre suf mid) w = true.
Proof.
  intros Hp Hs Hm. unfold mn_run. cbn [mn_ci mn_prefix mn_suffix mn_middle].
  unfold pre_ok, suf_ok, contains_b in *.
  assert (Hp' : forall t, (if ci then has_prefix_fold_ascii w pre else is_prefix pre w) = t -> is_nil pre || t = true).
  { intros t <-. destruct Hp as [->|Hp]; [reflexivity|rewrite Hp; apply orb_true_r]. }
  assert (Hs' : forall t, (if ci then has_suffix_fold_ascii w suf else is_suffix suf w) = t -> is_nil suf || t = true).
  { intros t <-. destruct Hs as [->|Hs]; [reflexivity|rewrite Hs; apply orb_true_r]. }
  destruct ci.
  - rewrite (Hp' _ eq_refl), (Hs' _ eq_refl). cbn [andb]. apply forallb_forall. exact Hm.
  - rewrite (Hp' _ eq_refl), (Hs' _ eq_refl). cbn [andb]. apply forallb_forall. exact Hm.
Qed.

Lemma build_multi_sound needles ci uP uS m w :
  build_multi needles ci uP uS = Some m ->
  (uP = true -> pre_ok ci w (hd [] needles)) -> (uS = true -> suf_ok ci w (last_b needles)) ->
  (forall n, In n needles -> contains_b ci w n = true) -> mn_run m w = true.
Proof.
  intros Hb HP HS HM. destruct needles as [|first rest]; [discriminate|]. cbn [build_multi hd] in *.
  assert (P1 : forall x, x = first -> uP = true -> x = [] \/ pre_ok ci w x) by (intros x -> H; right; auto).
  assert (S1 : forall x, x = last_b (first :: rest) -> uS = true -> x = [] \/ suf_ok ci w x) by (intros x -> H; right; auto).
  destruct uP, uS; cbn [andb] in Hb.
  - destruct (2 <=? length (first :: rest))%nat; inversion Hb; subst; apply mn_run_true.
    + apply P1; reflexivity.
    + apply S1; reflexivity.
    + intros n Hn. apply HM. right. apply in_removelast. exact Hn.
    + apply P1; reflexivity.
    + left; reflexivity.
    + intros n [].
  - inversion Hb; subst. apply mn_run_true.
    + apply P1; reflexivity.
    + left; reflexivity.
    + intros n Hn. apply HM. right. exact Hn.
  - inversion Hb; subst. apply mn_run_true.
    + left; reflexivity.
    + apply S1; reflexivity.
    + intros n Hn. apply HM. apply in_removelast. exact Hn.
  - inversion Hb; subst. apply mn_run_true.
    + left; reflexivity.
    + left; reflexivity.
    + exact HM.
Qed.

Lemma filter_last {A} (f : A -> bool) d (l : list A) : l <> [] -> f (last l d) = true -> last (filter f l) d = last l d.
Proof.
  induction l as [|a l IH]; [congruence|]. intros _ Hf.
  destruct l as [|b l'].
  - cbn [last] in Hf. cbn [filter]. rewrite Hf. reflexivity.
  - assert (Hl : last (a :: b :: l') d = last (b :: l') d) by reflexivity. rewrite Hl in *.
    specialize (IH ltac:(discriminate) Hf).
    cbn [filter] in *. destruct (f a).
    + destruct (f b) eqn:Eb.
      * change (last (a :: b :: filter f l') d) with (last (b :: filter f l') d). exact IH.
      * destruct (filter f l') as [|c l''] eqn:El.
        -- (* filter (b :: l') is empty although its last element passes *)
           exfalso. clear IH Hl.
           assert (Hin : In (last (b :: l') d) (filter f (b :: l'))).
           { apply filter_In. split; [|exact Hf]. clear. revert b. induction l' as [|c l IH]; intro b; [left; reflexivity|].
             right. apply IH. }
           cbn [filter] in Hin. rewrite Eb, El in Hin. destruct Hin.
        -- change (last (a :: c :: l'') d) with (last (c :: l'') d). exact IH.
    + exact IH.
Qed.

Lemma seg_pre_ok ci w n : seg_at ci w 0 n -> pre_ok ci w n.
Proof. unfold pre_ok. destruct ci; [apply has_prefix_fold_of_seg|apply is_prefix_of_seg]. Qed.

Lemma seg_suf_ok ci w n : (length n <= length w)%nat -> seg_at ci w (length w - length n) n -> suf_ok ci w n.
Proof. unfold suf_ok. destruct ci; [apply has_suffix_fold_of_seg|apply is_suffix_of_seg]. Qed.

Lemma build_all_sound ci w r i j v m :
  mode_ok ci w r -> M w r i j -> (i <= length w)%nat ->
  Forall (occ_in ci w i j) v -> build_all v ci r = Some m -> mn_run m w = true.
Proof.
  intros Hm HM Hi Hocc Hb. unfold build_all in Hb.
  destruct (is_nil (filter_short v 2)) eqn:En; [discriminate|]. apply is_nil_false in En.
  eapply build_multi_sound; [exact Hb| | |].
  - (* prefix *)
    intro HuP. apply andb_true_iff in HuP. destruct HuP as [Hlen Heq].
    apply Nat.leb_le in Hlen. apply bytes_eqb_eq in Heq.
    destruct v as [|x v']; [cbn in Hlen; lia|]. cbn [hd] in *.
    assert (Hne : lit_after_begin r ci <> []) by (rewrite Heq; destruct x; [cbn in Hlen; lia|discriminate]).
    destruct (lit_after_begin_sound _ _ _ _ _ Hm HM Hne) as [_ Hs]. rewrite Heq in Hs.
    unfold filter_short. cbn [filter]. replace (2 <=? length x)%nat with true by (symmetry; apply Nat.leb_le; lia).
    cbn [hd]. apply seg_pre_ok. exact Hs.
  - (* suffix *)
    intro HuS. apply andb_true_iff in HuS. destruct HuS as [Hlen Heq].
    apply Nat.leb_le in Hlen. apply bytes_eqb_eq in Heq.
    assert (Hvn : v <> []) by (intro Hv; subst v; cbn in Hlen; lia).
    assert (Hne : lit_before_end r ci <> []) by (rewrite Heq; destruct (last_b v); [cbn in Hlen; lia|discriminate]).
    destruct (lit_before_end_sound _ _ _ _ _ Hm HM Hi Hne) as [_ [Hl Hs]]. rewrite Heq in Hs, Hl.
    unfold last_b at 1. unfold filter_short. rewrite filter_last; [|exact Hvn|apply Nat.leb_le; exact Hlen].
    apply seg_suf_ok; [exact Hl|exact Hs].
  - intros n Hn. unfold filter_short in Hn. apply filter_In in Hn. destruct Hn as [Hn _].
    rewrite Forall_forall in Hocc. eapply contains_of_occ. apply Hocc. exact Hn.
Qed.

(* ====================================================================================== *)
(* the anyRequired matchers                                                                *)
(* ====================================================================================== *)

Lemma any_too_short_false v n : any_too_short v 2 = false -> In n v -> n <> [].
Proof.
  intros H Hn Hnil. subst n. unfold any_too_short in H.
  apply Bool.not_true_iff_false in H. apply H. apply existsb_exists. exists []. split; [exact Hn|reflexivity].
Qed.

Lemma any_contains_sound ci w i j needle : Exists (occ_in ci w i j) [needle] -> pf_run (PContains ci needle) w = true.
Proof.
  intro H. apply Exists_exists in H. destruct H as [n [[<-|[]] Ho]]. cbn [pf_run].
  apply contains_of_occ in Ho. exact Ho.
Qed.

Lemma any_indexed_sound ci w i j v : Exists (occ_in ci w i j) v -> any_too_short v 2 = false ->
  pf_run (PIndexed (new_indexed v ci)) w = true.
Proof.
  intros H Hs. apply Exists_exists in H. destruct H as [n [Hn [p [_ Hseg]]]]. cbn [pf_run].
  eapply im_match_complete; [exact Hn| |exact Hseg]. intros n' Hn'. eapply any_too_short_false; eauto.
Qed.

Lemma extract_comb_not_short ci r : forall a y, extract_literals r ci = LComb a y -> any_too_short y 2 = false.
Proof.
  induction r using re_ind'; intros a0 y HE; cbn [extract_literals] in HE; try discriminate; eauto.
  - destruct (has_rune_error rs); [discriminate|]. destruct (length (lit_str ci rs) <? 2)%nat; discriminate.
  - destruct (negb (is_nil (cat_all (map (fun a1 : re => extract_literals a1 ci) l)))).
    + destruct (cat_best (map (fun a1 : re => extract_literals a1 ci) l)) as [b|]; [|discriminate].
      destruct (any_too_short b 2) eqn:Es; cbn [negb] in HE; [discriminate|]. inversion HE; subst. exact Es.
    + destruct (trie_reconstruct l ci); [discriminate|].
      destruct (cat_best (map (fun a1 : re => extract_literals a1 ci) l)); discriminate.
  - destruct (alt_branches (map (fun a1 : re => extract_literals a1 ci) l)) as [[|x b]|]; discriminate.
  - destruct (1 <=? mn)%nat; [eauto|discriminate].
Qed.

(* ====================================================================================== *)
(* C11_prefilter_sound                                                                     *)
(* ====================================================================================== *)

Theorem prefilter_sound_M r w : wf_re r = true -> prefilter r w = false ->
  forall i j, (i <= length w)%nat -> ~ M w r i j.
Proof.
  intros Hwf Hpf i j Hi HM.
  pose proof (min_len_sound w r i j Hwf HM) as Hmin.
  pose proof (M_bounds _ _ _ _ HM) as [_ Hj]. specialize (Hj Hi).
  assert (Hlen : (min_len r <= length w)%nat) by lia.
  unfold prefilter, prefilter_func in Hpf.
  set (ci := has_flag r) in *.
  (* the length-only prefilter *)
  destruct (extract_literals r ci) eqn:EL.
  { destruct (min_useful_mml <=? min_len r)%nat; [|discriminate]. cbn [pf_run] in Hpf. apply Nat.leb_gt in Hpf. lia. }
  (* the three literal-based shapes share the wrappers *)
  all: match type of Hpf with match match ?b with _ => _ end with _ => _ end = _ => destruct b as [pf|] eqn:EB; [|discriminate] end.
  all: assert (Hcore : (ci = true -> is_ascii w = true) /\ pf_run pf w = false).
  all: try (destruct (min_useful_mml <=? min_len r)%nat eqn:Em; destruct ci eqn:Eci; cbn [pf_run] in Hpf;
            repeat match type of Hpf with
                   | _ || _ = false => apply orb_false_iff in Hpf; destruct Hpf as [Hasc Hpf]; apply negb_false_iff in Hasc
                   | (?a <=? ?b)%nat && _ = false => replace (a <=? b)%nat with true in Hpf by (symmetry; apply Nat.leb_le; lia); cbn [andb] in Hpf
                   end; split; auto; intros; try discriminate; auto).
  all: destruct Hcore as [Hasc Hrun].
  all: assert (Hmode : mode_ok ci w r) by (split; [exact Hwf|destruct ci eqn:Eci; [apply Hasc; reflexivity|exact Eci]]).
  all: pose proof (extract_sound ci w r i j Hmode HM) as Hh; rewrite EL in Hh; cbn [lits_hold] in Hh.
  - (* allRequired *)
    destruct (build_all l ci r) as [m|] eqn:Eb; cbn [option_map] in EB; [|discriminate]. inversion EB; subst pf.
    apply Bool.not_true_iff_false in Hrun. apply Hrun. cbn [pf_run]. exact (build_all_sound _ _ _ _ _ _ _ Hmode HM Hi Hh Eb).
  - (* anyRequired *)
    destruct (any_too_short l 2) eqn:Es; [discriminate|].
    destruct l as [|n1 [|n2 l']].
    + apply Exists_exists in Hh. destruct Hh as [n [[] _]].
    + inversion EB; subst pf. apply Bool.not_true_iff_false in Hrun. apply Hrun. exact (any_contains_sound _ _ _ _ _ Hh).
    + destruct (ci && negb (all_ascii_strings (n1 :: n2 :: l'))); [discriminate|].
      destruct (length (n1 :: n2 :: l') <=? any_required_max_n)%nat; [|discriminate]. inversion EB; subst pf.
      apply Bool.not_true_iff_false in Hrun. apply Hrun. exact (any_indexed_sound _ _ _ _ _ Hh Es).
  - (* combinedRequired *)
    destruct Hh as [Hall Hany]. pose proof (extract_comb_not_short _ _ _ _ EL) as Es.
    unfold build_combined in EB.
    assert (HallPF : forall m, build_all a ci r = Some m -> pf_run (PMulti m) w = true).
    { intros m Eb. cbn [pf_run]. eapply build_all_sound; eauto. }
    assert (HanyPF : forall ap, match y with
                                 | [needle] => Some (any_single needle ci)
                                 | _ => if (length y <=? any_required_max_n)%nat then Some (PIndexed (new_indexed y ci)) else None
                                 end = Some ap -> pf_run ap w = true).
    { intros ap Ha. destruct y as [|n1 [|n2 y']].
      - apply Exists_exists in Hany. destruct Hany as [n [[] _]].
      - inversion Ha; subst ap. exact (any_contains_sound ci w i j n1 Hany).
      - destruct (length (n1 :: n2 :: y') <=? any_required_max_n)%nat; [|discriminate]. inversion Ha; subst ap.
        exact (any_indexed_sound ci w i j (n1 :: n2 :: y') Hany Es). }
    destruct (ci && negb (all_ascii_strings y)).
    + destruct (build_all a ci r) as [m|] eqn:Eb; cbn [option_map] in EB; [|discriminate]. inversion EB; subst pf.
      apply Bool.not_true_iff_false in Hrun. apply Hrun. exact (HallPF _ eq_refl).
    + match type of EB with match ?x with _ => _ end = _ => destruct x as [ap|] eqn:Eap end.
      * specialize (HanyPF _ eq_refl).
        destruct (build_all a ci r) as [m|] eqn:Eb; cbn [option_map] in EB; inversion EB; subst pf.
        -- apply Bool.not_true_iff_false in Hrun. apply Hrun. cbn [pf_run]. apply andb_true_iff. split; [exact (HallPF _ eq_refl)|exact HanyPF].
        -- apply Bool.not_true_iff_false in Hrun. apply Hrun. exact HanyPF.
      * destruct (build_all a ci r) as [m|] eqn:Eb; cbn [option_map] in EB; [|discriminate]. inversion EB; subst pf.
        apply Bool.not_true_iff_false in Hrun. apply Hrun. exact (HallPF _ eq_refl).
Qed.

Theorem prefilter_sound r w : wf_re r = true -> prefilter r w = false -> ~ re_matches r w.
Proof.
  intros Hwf Hpf [i [j [Hi HM]]]. apply boundaries_le in Hi. eapply prefilter_sound_M; eauto.
Qed.

(* ====================================================================================== *)
(* the exact-match fast path                                                               *)
(* ====================================================================================== *)

Lemma listN_eqb_eq a : forall b, listN_eqb a b = true -> a = b.
Proof.
  induction a as [|x a IH]; intros [|y b] H; cbn [listN_eqb] in H; try discriminate; [reflexivity|].
  apply andb_true_iff in H. destruct H as [H1 H2]. apply N.eqb_eq in H1. f_equal; auto.
Qed.

Lemma lrune_eqb_eq a b : lrune_eqb a b = true -> a = b.
Proof.
  destruct a, b. unfold lrune_eqb. cbn. intro H.
  apply andb_true_iff in H. destruct H as [H H3]. apply andb_true_iff in H. destruct H as [H1 H2].
  apply N.eqb_eq in H1, H2. apply listN_eqb_eq in H3. congruence.
Qed.

Lemma lrs_eqb_eq a : forall b, lrs_eqb a b = true -> a = b.
Proof.
  induction a as [|x a IH]; intros [|y b] H; cbn [lrs_eqb] in H; try discriminate; [reflexivity|].
  apply andb_true_iff in H. destruct H as [H1 H2]. apply lrune_eqb_eq in H1. f_equal; auto.
Qed.

(* the shape of the compiled pattern of an exact-match rule *)
Lemma exact_rel_shape r0 r rs ci : exact_rel r0 r = true -> extract_exact r0 = Some (rs, ci) ->
  has_rune_error rs = false /\
  exists f b e, r = Cat f [b; Lit ci rs; e] /\ is_begin b = true /\ is_end e = true.
Proof.
  unfold exact_rel. intros Hrel He. rewrite He in Hrel. split.
  - unfold extract_exact in He. destruct r0 as [| | | | | | |f0 l0| |]; try discriminate.
    destruct l0 as [|b0 [|m0 [|e0 [|x l']]]]; try discriminate;
      destruct m0 as [f1 rs1| | | | | | | | |]; try discriminate.
    destruct (is_op0 b0 OBeginText && is_op0 e0 OEndText && negb (has_rune_error rs1)) eqn:E; [|discriminate].
    inversion He; subst. apply andb_true_iff in E. destruct E as [_ E]. apply negb_true_iff in E. exact E.
  - destruct r as [| | | | | | |f l| |]; try discriminate.
    destruct l as [|b [|m [|e [|x l']]]]; try discriminate;
      destruct m as [f1 rs1| | | | | | | | |]; try discriminate.
    apply andb_true_iff in Hrel. destruct Hrel as [Hrel H4]. apply andb_true_iff in Hrel. destruct Hrel as [Hrel H3].
    apply andb_true_iff in Hrel. destruct Hrel as [H1 H2]. apply lrs_eqb_eq in H4. apply eqb_prop in H3. subst.
    exists f, b, e. auto.
Qed.

Lemma no_nl_nth w k : memN 10 w = false -> nth_error w k <> Some 10.
Proof.
  intros H Hk. apply nth_error_In in Hk. unfold memN in H.
  apply Bool.not_true_iff_false in H. apply H. apply existsb_exists. exists 10. split; [exact Hk|reflexivity].
Qed.

Lemma begin_no_nl w b i k : is_begin b = true -> memN 10 w = false -> M w b i k -> i = 0%nat /\ k = 0%nat.
Proof.
  intros Hb Hnl HM. destruct b; try discriminate. apply M_op0_inv in HM.
  destruct o; try discriminate; cbn [op0_step] in HM.
  - destruct (Nat.eqb i 0) eqn:E; cbn [orb] in HM.
    + apply Nat.eqb_eq in E. inversion HM. lia.
    + destruct i as [|i']; [discriminate|]. cbn [byte_before] in HM.
      destruct (nth_error w i') as [c|] eqn:Ec; cbn [is_nl_opt] in HM; [|discriminate].
      destruct (c =? 10) eqn:E10; [|discriminate]. apply N.eqb_eq in E10. subst c.
      exfalso. eapply no_nl_nth; eauto.
  - destruct (Nat.eqb i 0) eqn:E; [|discriminate]. apply Nat.eqb_eq in E. inversion HM. lia.
Qed.

Lemma end_no_nl w e k j : is_end e = true -> memN 10 w = false -> M w e k j -> k = length w /\ j = length w.
Proof.
  intros He Hnl HM. destruct e; try discriminate. apply M_op0_inv in HM.
  destruct o; try discriminate; cbn [op0_step] in HM.
  - destruct (Nat.eqb k (length w)) eqn:E; cbn [orb] in HM.
    + apply Nat.eqb_eq in E. inversion HM. lia.
    + destruct (nth_error w k) as [c|] eqn:Ec; cbn [is_nl_opt] in HM; [|discriminate].
      destruct (c =? 10) eqn:E10; [|discriminate]. apply N.eqb_eq in E10. subst c.
      exfalso. eapply no_nl_nth; eauto.
  - destruct (Nat.eqb k (length w)) eqn:E; [|discriminate]. apply Nat.eqb_eq in E. inversion HM. lia.
Qed.

(* every match of an exact-shaped pattern on a newline-free input spans the whole input *)
Lemma exact_match_whole w f b e ci rs i j :
  is_begin b = true -> is_end e = true -> memN 10 w = false ->
  M w (Cat f [b; Lit ci rs; e]) i j -> i = 0%nat /\ j = length w /\ lit_end ci rs w 0 = Some (length w).
Proof.
  intros Hb He Hnl HM. apply M_cat_inv in HM.
  apply ML_cons_inv in HM. destruct HM as [k1 [H1 HM]].
  apply ML_cons_inv in HM. destruct HM as [k2 [H2 HM]].
  apply ML_cons_inv in HM. destruct HM as [k3 [H3 HM]]. apply ML_nil_inv in HM. subst k3.
  destruct (begin_no_nl _ _ _ _ Hb Hnl H1) as [-> ->].
  destruct (end_no_nl _ _ _ _ He Hnl H3) as [-> ->].
  apply M_lit_inv in H2. auto.
Qed.

Lemma lit_end_of_encoding rs : forallb (wf_lrune false) rs = true ->
  forall pre rest, lit_end false rs (pre ++ lit_str false rs ++ rest) (length pre)
                   = Some (length pre + length (lit_str false rs))%nat.
Proof.
  intro Hwf. induction rs as [|lr rs IH]; intros pre rest.
  - cbn [lit_str flat_map lit_end length]. f_equal. lia.
  - cbn [forallb] in Hwf. apply andb_true_iff in Hwf. destruct Hwf as [Hw0 Hwf].
    destruct (wf_lrune_parts _ _ Hw0) as [Hv _].
    unfold lit_str. cbn [flat_map lit_end]. fold (lit_str false rs).
    unfold step1. rewrite skipn_app, skipn_all, Nat.sub_diag. cbn [skipn app].
    rewrite <- app_assoc.
    destruct (encode_rune (lr_r lr) ++ lit_str false rs ++ rest) as [|b0 s0] eqn:Es.
    { pose proof (encode_rune_length _ Hv) as Hl. apply (f_equal (@length N)) in Es. rewrite app_length, Hl in Es.
      unfold rune_len in Es. cbn [length] in Es.
      destruct (lr_r lr <? 128); [lia|]. destruct (lr_r lr <? 2048); [lia|]. destruct (lr_r lr <? 65536); lia. }
    rewrite <- Es. rewrite (decode_encode _ _ Hv). cbn [fst snd].
    unfold lr_test. rewrite N.eqb_refl. cbn [orb].
    specialize (IH Hwf (pre ++ encode_rune (lr_r lr)) rest).
    rewrite app_length, (encode_rune_length _ Hv) in IH.
    rewrite <- app_assoc in IH. rewrite IH. f_equal. rewrite app_length, (encode_rune_length _ Hv). lia.
Qed.

Theorem exact_path_sound r0 r rs ci w :
  wf_re r = true -> exact_rel r0 r = true -> extract_exact r0 = Some (rs, ci) -> memN 10 w = false ->
  ((exists i j, (i <= length w)%nat /\ M w r i j) <-> exact_eq ci w rs = true).
Proof.
  intros Hwf Hrel He Hnl. destruct (exact_rel_shape _ _ _ _ Hrel He) as [Hre [f [b [e [-> [Hb Hend]]]]]].
  assert (Hwl : forallb (wf_lrune ci) rs = true).
  { cbn [wf_re forallb] in Hwf. apply andb_true_iff in Hwf. destruct Hwf as [_ Hwf].
    apply andb_true_iff in Hwf. destruct Hwf as [Hwf _]. exact Hwf. }
  split.
  - intros [i [j [_ HM]]]. destruct (exact_match_whole _ _ _ _ _ _ _ _ Hb Hend Hnl HM) as [_ [_ Hl]].
    unfold exact_eq. destruct ci.
    + unfold equal_fold. rewrite Hl. apply Nat.eqb_refl.
    + destruct (lit_end_seg false false rs w Hre Hwl (fun _ => eq_refl) (fun H => ltac:(discriminate)) _ _ Hl) as [seg [Hs [Hj Hq]]].
      cbn [skipn] in Hs. rewrite skipn_all in Hs. rewrite app_nil_r in Hs. unfold eqs in Hq. subst.
      apply bytes_eqb_refl.
  - intro Hx. exists 0%nat, (length w). split; [lia|].
    assert (Hl : lit_end ci rs w 0 = Some (length w)).
    { unfold exact_eq in Hx. destruct ci.
      - unfold equal_fold in Hx. destruct (lit_end true rs w 0) as [j|]; [|discriminate].
        apply Nat.eqb_eq in Hx. subst. reflexivity.
      - apply bytes_eqb_eq in Hx. subst w.
        pose proof (lit_end_of_encoding rs Hwl [] []) as H. cbn [app length] in H. rewrite app_nil_r in H.
        rewrite H. f_equal. }
    constructor. econstructor; [|econstructor; [constructor; exact Hl|econstructor; [|constructor]]].
    + destruct b; try discriminate. constructor. destruct o; try discriminate; reflexivity.
    + destruct e; try discriminate. constructor. destruct o; try discriminate; cbn [op0_step]; rewrite Nat.eqb_refl; reflexivity.
Qed.

(* ====================================================================================== *)
(* C11_same_result_and_captures                                                            *)
(* ====================================================================================== *)

Lemma boundaries_zero w : In 0%nat (boundaries w).
Proof. unfold boundaries. destruct w as [|b w]; cbn [length bounds_from]; left; reflexivity. Qed.

Section Same.
  Variables (r r0 : re).
  (* Go's regexp engine on the compiled pattern, as an oracle: None = no match, Some groups *)
  Variable engine : bytes -> option (list (option bytes)).
  Hypothesis Hwf : wf_re r = true.
  Hypothesis Hrel : exact_rel r0 r = true.
  (* it reports only matches of the semantics: group 0 is a matched segment, one group per capture node *)
  Hypothesis engine_sound : forall w g, engine w = Some g ->
    length g = S (num_caps r) /\
    exists i j, In i (boundaries w) /\ M w r i j /\ nth_error g 0 = Some (Some (firstn (j - i) (skipn i w))).
  (* and it finds a match whenever there is one *)
  Hypothesis engine_complete : forall w, re_matches r w -> engine w <> None.

  Lemma engine_none w : (forall i j, (i <= length w)%nat -> ~ M w r i j) -> engine w = None.
  Proof.
    intro H. destruct (engine w) as [g|] eqn:E; [|reflexivity].
    destruct (engine_sound _ _ E) as [_ [i [j [Hi [HM _]]]]]. apply boundaries_le in Hi. exfalso. eapply H; eauto.
  Qed.

  Theorem same_result_and_captures capturing w :
    evaluate engine (rx_compile true r r0) capturing w = evaluate engine (rx_compile false r r0) capturing w.
  Proof.
    unfold rx_compile, evaluate. cbn [rc_minlen rc_pf rc_exact].
    replace (length w <? 0)%nat with false by (symmetry; apply Nat.ltb_ge; lia).
    destruct (length w <? min_len r)%nat eqn:El.
    { (* rejected by the length guard *)
      apply Nat.ltb_lt in El. unfold engine_path. rewrite engine_none; [reflexivity|].
      intros i j Hi HM. pose proof (min_len_sound _ _ _ _ Hwf HM). pose proof (M_bounds _ _ _ _ HM). lia. }
    destruct (match prefilter_func r with Some p => negb (pf_run p w) | None => false end) eqn:Ep.
    { (* rejected by the prefilter *)
      unfold engine_path. rewrite engine_none; [reflexivity|].
      apply prefilter_sound_M; [exact Hwf|]. unfold prefilter. revert Ep. destruct (prefilter_func r); intro Ep; [|discriminate].
      apply negb_true_iff in Ep. exact Ep. }
    destruct (extract_exact r0) as [[rs ci]|] eqn:Ex; [|reflexivity].
    destruct (negb (memN 10 w)) eqn:Enl; [|reflexivity]. apply negb_true_iff in Enl.
    (* the exact-match fast path *)
    pose proof (exact_path_sound r0 r rs ci w Hwf Hrel Ex Enl) as Hex.
    destruct (exact_rel_shape _ _ _ _ Hrel Ex) as [_ [f [b [e [Hr [Hb He]]]]]].
    unfold engine_path. destruct (exact_eq ci w rs) eqn:Eq.
    - destruct Hex as [_ Hex]. destruct (Hex eq_refl) as [i [j [Hi HM]]].
      assert (Hm : re_matches r w).
      { subst r. destruct (exact_match_whole _ _ _ _ _ _ _ _ Hb He Enl HM) as [-> [-> _]].
        exists 0%nat, (length w). split; [apply boundaries_zero|exact HM]. }
      destruct (engine w) as [g|] eqn:Eg; [|exfalso; apply (engine_complete _ Hm); exact Eg].
      destruct (engine_sound _ _ Eg) as [Hlen [i' [j' [_ [HM' Hg0]]]]].
      assert (Hcaps : num_caps r = 0%nat).
      { subst r. destruct b; try discriminate. destruct e; try discriminate. reflexivity. }
      rewrite Hcaps in Hlen. subst r.
      destruct (exact_match_whole _ _ _ _ _ _ _ _ Hb He Enl HM') as [-> [-> _]].
      cbn [skipn] in Hg0. rewrite Nat.sub_0_r, firstn_all in Hg0.
      destruct g as [|g0 [|g1 g']]; cbn [length] in Hlen; try lia.
      cbn [nth_error] in Hg0. inversion Hg0; subst g0.
      unfold engine_caps. cbn [map firstn andb]. reflexivity.
    - rewrite engine_none; [reflexivity|]. intros i j Hi HM.
      destruct Hex as [Hex _]. assert (Ht : false = true) by (apply Hex; eauto). discriminate Ht.
  Qed.
End Same.

(* extractLiterals in the mode prefilterFunc uses it (ci = hasFlag(re, FoldCase)) *)
Corollary literals_sound r w i j :
  wf_re r = true -> (has_flag r = true -> is_ascii w = true) -> M w r i j ->
  lits_hold (has_flag r) w i j (extract_literals r (has_flag r)).
Proof.
  intros Hwf Ha HM. apply extract_sound; [|exact HM]. split; [exact Hwf|].
  destruct (has_flag r) eqn:E; [apply Ha; reflexivity|reflexivity].
Qed.
