package c09

import (
	"fmt"
	"math/rand"
	"strconv"
	"strings"

	"github.com/corazawaf/coraza/v3/internal/transformations"
	"github.com/corazawaf/coraza/v3/verifharness/vh"
)

func pick[T any](r *rand.Rand, l []T) T { return l[r.Intn(len(l))] }

// ---------------------------------------------------------------------------------------
// direct cases: setvar Init, macro.NewMacro, strconv.Atoi / Itoa
// ---------------------------------------------------------------------------------------

func rawCase(kind, s string) *Case {
	c := &Case{Kind: kind}
	printable := true
	for i := 0; i < len(s); i++ {
		if s[i] < 0x20 || s[i] > 0x7e {
			printable = false
		}
	}
	if printable {
		c.Raw = s
	} else {
		c.RawHex = fmt.Sprintf("%x", s)
	}
	return c
}

func randStr(r *rand.Rand, alpha []string, maxLen int) string {
	n := r.Intn(maxLen + 1)
	var b strings.Builder
	for i := 0; i < n; i++ {
		b.WriteString(alpha[r.Intn(len(alpha))])
	}
	return b.String()
}

func directCases(r *rand.Rand, cfg vh.Config) []*Case {
	var out []*Case
	inits := []string{
		"", "!", "=", ".", "tx", "tx.", "tx.a", "TX.a", "Tx.A", "tX.a=1", "tx.a=", "tx.a=1", "tx.a==1", "tx.a=b=c", "!tx.a", "!tx.a=1", "!!tx.a",
		"tx.a=+1", "tx.a=-1", "tx.a=+", "tx.a=+%{tx.b}", "tx.%{tx.b}=1", "tx.%{MATCHED_VAR_NAME}=+1", "tx.a.b=1", "tx..a=1", "tx. =1", "tx.\t=1",
		"tx. a=1", "ip.a=1", "txx.a=1", "t.a=1", ".a=1", "tx=1", "tx=a.b", "tx.a=%{tx.}", "tx.a=%{}", "tx.a=%{nosuch.b}", "tx.a=%{tx.b", "tx.a=%{tx b}",
		"tx.%{=1", "tx.%{", "tx.a=%{", "tx.a=x%{", "tx.a=%{tx%{b}", "tx.a=%", "tx.a=%%{tx.b}", "tx.a=%{tx.b}}", "tx.a=%{unknown.b}", "tx.a=%{UNKNOWN}",
		"tx.a=%{tx.B-c_d[1]}", "tx.a=%{RULE.ID}", "tx.a=%{matched_var}", "tx.a=%{matched_var.x}", "tx.%{rule.id}-X-%{matched_var_name}=%{tx.0}",
		"tx.a=%{tx.b}%{tx.c}", "tx.a= %{tx.b} ", "tx.\x00=1", "tx.a=\x00", "tx.\xc3\xa9=1", "tx.a=1=%{tx.b}", "!tx.%{tx.b}", "tx.%{tx.b}", "tx.a=%{tx.b.}", "tx.a=%{.b}",
		"tx.a=%{tx..b}", "tx.a=%{args_get.a}", "tx.a=%{REQUEST_HEADERS.x-h1}", "tx.a=%{highest_severity}", "tx.a=%{matched_vars.x}", "tx.a=%{tx.b:c}",
	}
	for _, s := range inits {
		out = append(out, rawCase("init", s))
	}
	ia := []string{"!", "tx.", "TX.", "tx", ".", "=", "+", "-", "1", "a", "B", "%{", "}", "%", "{", "tx.b", "matched_var", "rule.id", "unknown.z", " ", "_", "[", ":", "ip."}
	for i := 0; i < cfg.Pick(260, 6000); i++ {
		s := randStr(r, ia, 7)
		if r.Intn(3) > 0 {
			s = "tx." + s
		}
		// IP is a valid Coraza variable outside the model's variable table: keep macros on modelled names
		s = strings.ReplaceAll(s, "{ip.", "{iq.")
		out = append(out, rawCase("init", s))
	}
	macros := []string{
		"", "a", "%", "{", "}", "%{", "%{}", "%{.}", "%{tx}", "%{tx.}", "%{tx.a}", "%{TX.A}", "%{tx.a", "%{tx.a}b", "a%{tx.a}", "a%{tx.a}b%{tx.c}d",
		"%{tx.a}%{tx.b}", "%{tx a}", "%{tx.a:b}", "%{tx.a%{tx.b}", "%{tx%{", "x%{", "%{x", "%%{tx.a}", "%{{tx.a}", "%{tx.a}}", "%}", "}%{", "%{nosuch}", "%{nosuch.a}",
		"%{unknown}", "%{unknown.a}", "%{matched_var}", "%{MATCHED_VAR_NAME}", "%{matched_var.k}", "%{rule.id}", "%{rule.msg}", "%{args.a}", "%{ARGS_GET.Ab}",
		"%{request_headers.X-H1}", "%{highest_severity}", "%{matched_vars.a}", "%{tx.a.b.c}", "%{tx..a}", "%{tx.a.}", "%{.a}", "%{tx.[1]}", "%{tx.a-b_c}", "%{tx.\xc3\xa9}",
		"%{tx.a}\x00", "\xff%{tx.a}", "%{tx.0}", "%{tx.10}", "100%", "100%{", "50% {tx.a}", "%{tx.a} %{tx.b} %{tx.c}",
	}
	for _, s := range macros {
		out = append(out, rawCase("macro", s))
	}
	ma := []string{"%{", "}", "%", "{", ".", "tx", "tx.a", "TX.B", "a", "Z", "1", " ", "_", "-", "[", "]", ":", "matched_var", "rule", "unknown", "nosuch", "args_get", "\xff"}
	for i := 0; i < cfg.Pick(300, 8000); i++ {
		out = append(out, rawCase("macro", randStr(r, ma, 8)))
	}
	atois := []string{
		"", "0", "1", "-1", "+1", "+", "-", "+-1", "-+1", "--1", "++1", "007", "-007", "+0", "-0", "1 ", " 1", "1a", "a", "1_000", "_1", "0x10", "1e3", "1.0", "١",
		"9223372036854775807", "9223372036854775808", "9223372036854775806", "-9223372036854775807", "-9223372036854775808", "-9223372036854775809",
		"+9223372036854775807", "+9223372036854775808", "18446744073709551615", "18446744073709551616", "99999999999999999999", "-99999999999999999999",
		"000000000000000000000000001", "-000000000000000000000000001", "999999999999999999", "1000000000000000000", "123456789012345678", "1234567890123456789",
		"12345678901234567890", "9223372036854775807x", "\x001", "1\x00", "\xff", "5\n",
	}
	for _, s := range atois {
		out = append(out, rawCase("atoi", s))
	}
	aa := []string{"0", "1", "9", "5", "+", "-", "_", " ", "a", "00", "999999", "922337203685477580"}
	for i := 0; i < cfg.Pick(150, 4000); i++ {
		out = append(out, rawCase("atoi", randStr(r, aa, 5)))
	}
	for _, z := range []int64{0, 1, -1, 9, 10, -10, 99, 100, 255, 1 << 31, -(1 << 31), 1<<63 - 1, -(1 << 63), 1<<63 - 2, -(1<<63 - 1), 1000000000000000000, 999999999999999999} {
		out = append(out, &Case{Kind: "itoa", Z: z})
	}
	for i := 0; i < cfg.Pick(40, 1000); i++ {
		z := r.Int63()
		z >>= uint(r.Intn(63))
		if r.Intn(2) == 0 {
			z = -z
		}
		out = append(out, &Case{Kind: "itoa", Z: z})
	}
	return out
}

// ---------------------------------------------------------------------------------------
// hand-written run cases (boundaries named in the property and in setvar.go)
// ---------------------------------------------------------------------------------------

func sa(id, phase int, acts ...string) RuleDesc {
	return RuleDesc{ID: id, Phase: phase, Links: []LinkDesc{{Actions: acts}}}
}

func sr(id, phase int, targets string, op, arg string, acts ...string) RuleDesc {
	return RuleDesc{ID: id, Phase: phase, Links: []LinkDesc{{Targets: parseTargets(targets), Op: op, OpArg: arg, Actions: acts}}}
}

func parseTargets(s string) []Target {
	var ts []Target
	for _, p := range strings.Split(s, "|") {
		t := Target{}
		if strings.HasPrefix(p, "&") {
			t.Count = true
			p = p[1:]
		}
		t.Var, t.Key, _ = strings.Cut(p, ":")
		ts = append(ts, t)
	}
	return ts
}

func fixedRunCases() []*Case {
	a5 := [][2]string{{"a", "x1"}, {"a", "x2"}, {"a", "y3"}, {"a", "x4"}, {"a", "x5"}, {"a", "x6"}}
	var out []*Case
	mk := func(shape string, args, hdrs [][2]string, rules ...RuleDesc) {
		out = append(out, &Case{Kind: "run", Ordered: true, Shape: shape, Args: args, Hdrs: hdrs, Rules: rules})
	}
	// the shape named in the property: several args, one increment per matching value
	mk("fixed", a5, nil, sr(1, 2, "ARGS", "rx", "x", "pass", "setvar:tx.score=+5"), sr(2, 2, "TX:score", "eq", "25", "setvar:tx.hit=1"))
	// decrement, delete, assign, no value, macro copy, keys built from macros
	mk("fixed", a5, [][2]string{{"x-h1", "x9"}},
		sa(1, 1, "setvar:tx.score=10", "setvar:tx.inc=3", "setvar:tx.flag"),
		sr(2, 1, "ARGS_GET:a|REQUEST_HEADERS:x-h1", "beginsWith", "x", "setvar:tx.score=-%{tx.inc}", "setvar:tx.cnt_%{MATCHED_VAR_NAME}=+1", "setvar:tx.last=%{MATCHED_VAR}", "setvar:tx.%{MATCHED_VAR}=%{tx.score}"),
		sa(3, 2, "setvar:!tx.flag", "setvar:tx.copy=%{tx.score}", "setvar:tx.none=%{tx.nosuch}", "setvar:tx.n2=+%{tx.nosuch}", "setvar:tx.n3=+%{TX.nosuch}"))
	// int64 boundaries and Atoi failure paths
	mk("fixed", nil, nil,
		sa(1, 1, "setvar:tx.big=9223372036854775807", "setvar:tx.big=+1", "setvar:tx.small=-9223372036854775808", "setvar:tx.small=-1"),
		sa(2, 2, "setvar:tx.r=5", "setvar:tx.r=+99999999999999999999", "setvar:tx.s=abc", "setvar:tx.s=+1", "setvar:tx.t=+", "setvar:tx.u=7", "setvar:tx.u=-", "setvar:tx.v=007", "setvar:tx.v=+0"),
		sa(3, 3, "setvar:tx.w=+-3", "setvar:tx.w=--3", "setvar:tx.w=+-x", "setvar:tx.x=-abc", "setvar:tx.y=+1 ", "setvar:tx.z=' 5'", "setvar:tx.z=+1"),
		sa(4, 4, "setvar:tx.e1=9223372036854775808", "setvar:tx.e1=+1", "setvar:tx.e2=+9223372036854775807", "setvar:tx.e2=+9223372036854775807"))
	// chain: starter actions per starter match even when the chain fails; link actions per link match
	mk("fixed", a5, nil,
		RuleDesc{ID: 1, Phase: 2, Links: []LinkDesc{
			{Targets: parseTargets("ARGS_GET:a"), Op: "rx", OpArg: "x", Actions: []string{"deny", "setvar:tx.starter=+1"}, Severity: "2", Msg: "starter %{MATCHED_VAR} %{tx.link}"},
			{Targets: parseTargets("MATCHED_VAR"), Op: "streq", OpArg: "x6", Actions: []string{"setvar:tx.link=+1"}},
			{Targets: parseTargets("ARGS_GET:a"), Op: "contains", OpArg: "zz", Actions: []string{"setvar:tx.never=+1"}}}},
		RuleDesc{ID: 2, Phase: 2, Links: []LinkDesc{
			{Targets: parseTargets("ARGS_GET:a"), Op: "rx", OpArg: "x", Actions: []string{"setvar:tx.s2=+1"}, Severity: "4", Msg: "second %{MATCHED_VAR}", LogData: "%{tx.s2}/%{tx.l2}"},
			{Targets: parseTargets("ARGS_GET:a"), Op: "rx", OpArg: "y", Actions: []string{"setvar:tx.l2=+1"}}}},
		sr(3, 5, "HIGHEST_SEVERITY", "eq", "4", "setvar:tx.hs=%{HIGHEST_SEVERITY}"))
	// deny completes once; later phases are skipped, logging phase still runs
	mk("fixed", a5, nil,
		sr(1, 1, "ARGS_GET:a", "rx", "x", "deny", "setvar:tx.c=+1", "severity:1"),
		sr(2, 1, "ARGS_GET:a", "rx", "x", "setvar:tx.after=+1"),
		sr(3, 2, "ARGS_GET:a", "rx", "x", "setvar:tx.p2=+1"),
		sr(4, 5, "ARGS_GET:a", "rx", "x", "setvar:tx.p5=+1"))
	// multiMatch with transformations: the original and every changed value is a match
	mk("fixed", [][2]string{{"a", "xA"}, {"a", " X1 "}, {"a", "x1"}, {"a", "%78z"}}, nil,
		RuleDesc{ID: 1, Phase: 2, Links: []LinkDesc{{Targets: parseTargets("ARGS_GET:a"), Op: "rx", OpArg: "x", Tfs: []string{"trim", "lowercase", "urlDecode"}, Multi: true,
			Actions: []string{"setvar:tx.mm=+1", "setvar:tx.seen_%{MATCHED_VAR}=+1"}, LogData: "%{MATCHED_VAR}"}}},
		RuleDesc{ID: 2, Phase: 2, Links: []LinkDesc{{Targets: parseTargets("ARGS_GET:a"), Op: "rx", OpArg: "x", Tfs: []string{"trim", "lowercase", "urlDecode"},
			Actions: []string{"setvar:tx.single=+1"}}}})
	// capture, stale RULE.msg, SecAction sets MATCHED_VAR_NAME to UNKNOWN
	mk("fixed", a5, nil,
		RuleDesc{ID: 1, Phase: 1, Links: []LinkDesc{{Targets: parseTargets("ARGS_GET:a"), Op: "rx", OpArg: "x", Capture: true, Msg: "m1 %{tx.0}", Actions: []string{"setvar:tx.cap=%{tx.0}%{tx.1}", "setvar:tx.m=%{rule.msg}"}}}},
		sa(2, 1, "setvar:tx.stale=%{rule.msg}", "setvar:tx.name=%{MATCHED_VAR_NAME}", "setvar:tx.val=x%{MATCHED_VAR}x", "setvar:tx.rid=%{rule.id}", "setvar:tx.sev=%{rule.severity}"),
		RuleDesc{ID: 3, Phase: 1, Links: []LinkDesc{{Targets: parseTargets("ARGS_GET:a"), Op: "rx", OpArg: "x", Neg: true, Capture: true, Actions: []string{"setvar:tx.negcap=%{tx.0}"}}}})
	// the operator parameter is expanded per value against the evolving state
	mk("fixed", [][2]string{{"a", "3"}, {"a", "1"}, {"a", "7"}, {"a", "5"}, {"a", "9"}}, nil,
		sa(1, 2, "setvar:tx.max=0"),
		sr(2, 2, "ARGS_GET:a", "gt", "%{tx.max}", "setvar:tx.max=%{MATCHED_VAR}", "setvar:tx.steps=+1"),
		sr(3, 2, "&ARGS_GET:a|&ARGS_GET|&TX:max|&ARGS_GET:zz", "ge", "1", "setvar:tx.counts=+%{MATCHED_VAR}", "setvar:tx.cn_%{MATCHED_VAR_NAME}=%{MATCHED_VAR}"))
	// captures of the value being matched: an optional group that does not participate clears TX.2
	mk("fixed", [][2]string{{"item", "x1-red"}, {"item", "x2"}, {"item", "x3-blue"}, {"item", "x4"}}, nil,
		RuleDesc{ID: 1, Phase: 2, Links: []LinkDesc{{Targets: parseTargets("ARGS:item"), Op: "rxg", OpArg: `^x(\d)(?:-(\w+))?$`, Capture: true,
			LogData: "%{tx.1}:%{tx.2}", Actions: []string{"setvar:tx.n=+1", "setvar:tx.c_%{tx.n}=%{tx.2}", "setvar:tx.c=%{tx.2}"}},
			{Targets: parseTargets("TX:2"), Op: "unconditionalMatch", Actions: []string{"setvar:tx.link=[%{MATCHED_VAR}]"}}}})
	return out
}

// ---------------------------------------------------------------------------------------
// sum family: the harness predicts the final counter by itself (the property's own oracle)
// ---------------------------------------------------------------------------------------

var valuePool = []string{"x1", "x2", "xA", "xB", "y1", "Y2", "X3", "z", " x4", "x5 ", "5", "12", "-3", "007", "abc", "+4", "x", "", "%78q", "yx", "1x", "x%41"}

func genRequest(r *rand.Rand, keys []string, maxPer int) [][2]string {
	var args [][2]string
	for _, k := range keys {
		n := r.Intn(maxPer + 1)
		for i := 0; i < n; i++ {
			args = append(args, [2]string{k, pick(r, valuePool)})
		}
	}
	r.Shuffle(len(args), func(i, j int) { args[i], args[j] = args[j], args[i] })
	return args
}

func applyTf(name, s string) (string, bool) {
	t, err := transformations.GetTransformation(name)
	if err != nil {
		panic(err)
	}
	o, ch, e := t(s)
	if e != nil {
		return s, false
	}
	return o, ch
}

// candidate values of one raw value under a link's transformations, as the property describes it
func candValues(tfs []string, multi bool, v string) []string {
	if !multi {
		for _, t := range tfs {
			v, _ = applyTf(t, v)
		}
		return []string{v}
	}
	res := []string{v}
	for _, t := range tfs {
		o, ch := applyTf(t, v)
		if ch {
			res = append(res, o)
			v = o
		}
	}
	return res
}

func simpleMatch(op, arg, v string) bool {
	switch op {
	case "rx", "beginsWith":
		return strings.HasPrefix(v, arg)
	case "contains":
		return strings.Contains(v, arg)
	case "streq":
		return v == arg
	}
	panic("simpleMatch: " + op)
}

func valuesOf(c *Case, t Target) []string {
	var l [][2]string
	switch t.Var {
	case "ARGS", "ARGS_GET":
		l = c.Args
	case "REQUEST_HEADERS":
		l = c.Hdrs
	}
	var res []string
	for _, p := range l {
		if strings.EqualFold(p[0], t.Key) {
			res = append(res, p[1])
		}
	}
	return res
}

func countMatches(c *Case, l LinkDesc) int {
	n := 0
	for _, t := range l.Targets {
		for _, v := range valuesOf(c, t) {
			for _, cv := range candValues(l.Tfs, l.Multi, v) {
				if simpleMatch(l.Op, l.OpArg, cv) != l.Neg {
					n++
				}
			}
		}
	}
	return n
}

func genSimpleLink(r *rand.Rand) LinkDesc {
	l := LinkDesc{}
	tpool := []string{"ARGS_GET:a", "ARGS_GET:b", "ARGS:a", "ARGS:b", "REQUEST_HEADERS:x-h1", "ARGS_GET:c"}
	nt := 1 + r.Intn(3)
	var ts []string
	for i := 0; i < nt; i++ {
		ts = append(ts, pick(r, tpool))
	}
	l.Targets = parseTargets(strings.Join(ts, "|"))
	switch r.Intn(5) {
	case 0, 1:
		l.Op, l.OpArg = "rx", pick(r, []string{"x", "y", "x1", "X"})
	case 2:
		l.Op, l.OpArg = "beginsWith", pick(r, []string{"x", "y", "0"})
	case 3:
		l.Op, l.OpArg = "contains", pick(r, []string{"1", "x", "A"})
	case 4:
		l.Op, l.OpArg = "streq", pick(r, []string{"x1", "5", "z"})
	}
	l.Neg = r.Intn(8) == 0
	if r.Intn(3) == 0 {
		l.Tfs = [][]string{{"lowercase"}, {"trim"}, {"trim", "lowercase"}, {"urlDecode", "lowercase"}, {"uppercase"}, {"removeWhitespace"}}[r.Intn(6)]
		l.Multi = r.Intn(2) == 0
	}
	return l
}

func genSum(r *rand.Rand) *Case {
	c := &Case{Kind: "run", Ordered: true, Shape: "sum"}
	c.Args = genRequest(r, []string{"a", "b", "c"}[:1+r.Intn(3)], 5)
	if r.Intn(2) == 0 {
		c.Hdrs = [][2]string{{"x-h1", pick(r, valuePool)}}
		if r.Intn(2) == 0 {
			c.Hdrs = append(c.Hdrs, [2]string{"x-h1", pick(r, valuePool)})
		}
	}
	init := int64(pick(r, []int{0, 0, 10, -5, 100}))
	c.Rules = append(c.Rules, sa(10, 1, fmt.Sprintf("setvar:tx.score=%d", init)))
	score := init
	hs := 255
	n := 2 + r.Intn(5)
	phases := make([]int, n)
	for i := range phases {
		phases[i] = 1 + r.Intn(5)
	}
	// the expected value is order independent (pure increments), rules are listed in any phase order
	for i := 0; i < n; i++ {
		rd := RuleDesc{ID: 100 + i, Phase: phases[i]}
		nl := 1
		if r.Intn(3) == 0 {
			nl = 2 + r.Intn(2)
		}
		sev := -1
		if r.Intn(2) == 0 {
			sev = r.Intn(8)
		}
		complete := true
		for j := 0; j < nl; j++ {
			l := genSimpleLink(r)
			d := int64(1 + r.Intn(9))
			sign := "+"
			if r.Intn(3) == 0 {
				sign = "-"
			}
			l.Actions = append(l.Actions, fmt.Sprintf("setvar:tx.score=%s%d", sign, d))
			if r.Intn(3) == 0 {
				l.Actions = append([]string{pick(r, []string{"nolog", "log", "auditlog", "setvar:tx.other=+1"})}, l.Actions...)
			}
			if j == 0 && sev >= 0 {
				l.Severity = strconv.Itoa(sev)
			}
			rd.Links = append(rd.Links, l)
			if complete {
				m := int64(countMatches(c, l))
				if sign == "+" {
					score += m * d
				} else {
					score -= m * d
				}
				if m == 0 {
					complete = false
				}
			}
		}
		if complete && sev >= 0 && sev < hs {
			hs = sev
		}
		c.Rules = append(c.Rules, rd)
	}
	c.Rules = append(c.Rules, sr(999, 5, "TX:score", "eq", strconv.FormatInt(score, 10), "setvar:tx.ok=1"))
	c.Expect = map[string]string{"score": strconv.FormatInt(score, 10), "ok": "1", "HIGHEST_SEVERITY": strconv.Itoa(hs)}
	return c
}

// ---------------------------------------------------------------------------------------
// random rule sets
// ---------------------------------------------------------------------------------------

func distinctKeys(l [][2]string) int {
	m := map[string]bool{}
	for _, p := range l {
		m[strings.ToLower(p[0])] = true
	}
	return len(m)
}

func genTargets(r *rand.Rand, c *Case, ordered bool, inChain bool) []Target {
	pool := []string{"ARGS_GET:a", "ARGS_GET:b", "ARGS:a", "ARGS:c", "REQUEST_HEADERS:x-h1", "REQUEST_HEADERS:x-h2",
		"TX:score", "TX:cnt", "TX:last", "TX:0", "TX:threshold", "&ARGS_GET", "&ARGS_GET:a", "&TX:score", "&ARGS", "HIGHEST_SEVERITY"}
	if ordered {
		pool = append(pool, "MATCHED_VAR", "MATCHED_VAR_NAME", "ARGS_GET:a", "ARGS:b")
		if distinctKeys(c.Args) <= 1 {
			pool = append(pool, "ARGS", "ARGS_GET", "ARGS")
		}
		if distinctKeys(c.Hdrs) <= 1 {
			pool = append(pool, "REQUEST_HEADERS")
		}
		if inChain {
			pool = append(pool, "MATCHED_VAR", "MATCHED_VAR", "MATCHED_VAR_NAME")
		}
	} else {
		pool = append(pool, "ARGS", "ARGS_GET", "REQUEST_HEADERS", "ARGS", "ARGS_GET", "ARGS")
	}
	n := 1
	if r.Intn(3) == 0 {
		n = 2 + r.Intn(2)
	}
	var ts []string
	for i := 0; i < n; i++ {
		ts = append(ts, pick(r, pool))
	}
	return parseTargets(strings.Join(ts, "|"))
}

func genOp(r *rand.Rand, l *LinkDesc, ordered bool) {
	switch r.Intn(12) {
	case 0, 1, 2, 3:
		l.Op, l.OpArg = "rx", pick(r, []string{"x", "x", "y", "x1", "X", "A"})
	case 4:
		l.Op, l.OpArg = "beginsWith", pick(r, []string{"x", "y", "%{tx.pfx}", "ARGS"})
	case 5:
		l.Op, l.OpArg = "contains", pick(r, []string{"1", "x", "a", "%{tx.pfx}"})
	case 6:
		l.Op, l.OpArg = "streq", pick(r, []string{"x1", "5", "%{tx.last}", "ARGS_GET:a", "x2"})
	case 7:
		l.Op, l.OpArg = "eq", pick(r, []string{"0", "1", "5", "%{tx.threshold}", "255", "2"})
	case 8:
		l.Op, l.OpArg = "gt", pick(r, []string{"0", "3", "%{tx.threshold}", "%{tx.score}"})
	case 9:
		l.Op, l.OpArg = pick(r, []string{"ge", "lt", "le"}), pick(r, []string{"1", "5", "%{tx.threshold}", "10"})
	default:
		l.Op = "unconditionalMatch"
	}
	l.Neg = r.Intn(7) == 0
	if !ordered {
		// hash-order cases: no parameter that depends on state written per match
		if strings.Contains(l.OpArg, "%{tx.last}") || strings.Contains(l.OpArg, "%{tx.score}") {
			l.OpArg = "5"
		}
	}
}

var orderedSetvars = []string{
	"tx.score=+1", "tx.score=+5", "tx.score=+%{tx.inc}", "tx.score=-2", "tx.score=-%{tx.inc}", "tx.score=+%{tx.missing}", "tx.score=-%{TX.missing}",
	"tx.cnt=+1", "tx.cnt_%{MATCHED_VAR_NAME}=+1", "tx.%{MATCHED_VAR}=+1", "tx.n_%{MATCHED_VAR}=+%{tx.inc}", "tx.%{rule.id}_%{MATCHED_VAR_NAME}=%{MATCHED_VAR}",
	"tx.last=%{MATCHED_VAR}", "tx.lastname=%{MATCHED_VAR_NAME}", "tx.sum=+%{MATCHED_VAR}", "tx.sum=-%{MATCHED_VAR}", "tx.copy=%{tx.score}", "tx.rid=%{rule.id}",
	"tx.sev=%{rule.severity}", "tx.hs=%{HIGHEST_SEVERITY}", "tx.m=%{rule.msg}", "tx.ld=%{rule.logdata}", "tx.cap=%{tx.0}", "tx.arg=%{ARGS_GET.a}", "tx.arg2=%{args.B}",
	"tx.h=%{REQUEST_HEADERS.x-h1}", "tx.u=%{unknown.k}", "tx.lit=abc", "tx.flag", "!tx.last", "!tx.score", "!tx.cnt", "tx.inc=3", "tx.inc=-2", "tx.inc=x", "tx.threshold=5",
	"tx.pfx=x", "tx.big=9223372036854775807", "tx.big=+1", "tx.big=-9223372036854775808", "tx.big=-1", "tx.score=+99999999999999999999", "tx.s=abc", "tx.s=+1",
	"tx.score=+", "tx.score=+-3", "tx.score=--3", "tx.Score=+1", "TX.score=+1", "tx.score=7", "tx.score=0", "tx.score=", "tx.cat=%{tx.cat}%{MATCHED_VAR}",
	"tx.mv=%{matched_vars.ARGS_GET}", "tx.score=+007", "tx.score=+ 1", "tx.0=z", "tx.1=+1", "tx.last=%{tx.last}%{tx.score}", "!tx.%{MATCHED_VAR}",
}

var hashSetvars = []string{
	"tx.score=+1", "tx.score=+5", "tx.score=-2", "tx.cnt=+1", "tx.cnt_%{MATCHED_VAR_NAME}=+1", "tx.%{MATCHED_VAR}=+1", "tx.n_%{MATCHED_VAR}=+3", "tx.flag", "tx.lit=abc",
	"tx.rid=%{rule.id}", "tx.seen_%{MATCHED_VAR_NAME}=1", "tx.score=+%{tx.inc}",
}

func genSetvars(r *rand.Rand, ordered bool) []string {
	pool := orderedSetvars
	if !ordered {
		pool = hashSetvars
	}
	n := 1 + r.Intn(3)
	if r.Intn(10) == 0 {
		n = 0
	}
	var out []string
	for i := 0; i < n; i++ {
		s := pick(r, pool)
		if s == "tx.score=" { // "=" with an empty value does not compile; keep the generator on valid configurations
			s = "tx.score"
		}
		out = append(out, "setvar:"+s)
	}
	return out
}

func genLink(r *rand.Rand, c *Case, ordered, head, inChain bool) LinkDesc {
	l := LinkDesc{}
	if head && r.Intn(5) == 0 {
		// SecAction
	} else {
		l.Targets = genTargets(r, c, ordered, inChain)
		genOp(r, &l, ordered)
		if r.Intn(4) == 0 {
			l.Tfs = [][]string{{"lowercase"}, {"trim"}, {"trim", "lowercase"}, {"urlDecode"}, {"uppercase"}, {"length"}, {"removeWhitespace", "lowercase"}, {"compressWhitespace"}, {"none", "trim"}}[r.Intn(9)]
			if l.Tfs[0] == "none" {
				l.Tfs = l.Tfs[1:]
				// t:none clears earlier transformations; rendered explicitly below
			}
		}
		l.Capture = r.Intn(5) == 0
	}
	l.Multi = r.Intn(6) == 0
	if r.Intn(3) == 0 {
		l.Msg = pick(r, []string{"m", "hit %{MATCHED_VAR_NAME} score=%{tx.score}", "%{MATCHED_VAR}", "id %{rule.id} cnt %{tx.cnt}", "%{tx.nosuch}"})
	}
	if r.Intn(4) == 0 {
		l.LogData = pick(r, []string{"d", "%{MATCHED_VAR}|%{tx.cnt}", "%{tx.score}", "%{MATCHED_VAR_NAME}=%{MATCHED_VAR}", "%{tx.0}"})
	}
	if !ordered {
		// hash order: messages must not depend on which value matched last
		if strings.Contains(l.Msg, "MATCHED") {
			l.Msg = "m"
		}
		l.LogData = ""
		l.Capture = false
	}
	if r.Intn(3) == 0 {
		l.Severity = pick(r, []string{"0", "1", "2", "3", "4", "5", "6", "7", "critical", "NOTICE", "warning"})
	}
	if r.Intn(4) == 0 {
		l.Actions = append(l.Actions, pick(r, []string{"log", "nolog", "auditlog", "noauditlog"}))
	}
	l.Actions = append(l.Actions, genSetvars(r, ordered)...)
	if head {
		switch r.Intn(25) {
		case 0:
			l.Actions = append(l.Actions, "deny")
		case 1, 2, 3:
			l.Actions = append(l.Actions, "pass")
		}
	}
	if r.Intn(6) == 0 {
		l.Actions = append(l.Actions, genSetvars(r, ordered)...)
	}
	return l
}

func genRun(r *rand.Rand, ordered bool) *Case {
	c := &Case{Kind: "run", Ordered: ordered, Shape: "random"}
	if ordered {
		nk := 1 + r.Intn(3)
		if r.Intn(3) == 0 {
			nk = 1
		}
		c.Args = genRequest(r, []string{"a", "b", "c"}[:nk], 5)
		switch r.Intn(4) {
		case 0:
			c.Hdrs = [][2]string{{"x-h1", pick(r, valuePool)}}
		case 1:
			c.Hdrs = [][2]string{{"x-h1", pick(r, valuePool)}, {"x-h2", pick(r, valuePool)}, {"x-h1", pick(r, valuePool)}}
		}
	} else {
		c.Args = genRequest(r, []string{"a", "b", "c", "d"}[:2+r.Intn(3)], 3)
		c.Hdrs = [][2]string{{"x-h1", pick(r, valuePool)}, {"x-h2", pick(r, valuePool)}}
	}
	n := 2 + r.Intn(6)
	for i := 0; i < n; i++ {
		rd := RuleDesc{ID: 100 + i, Phase: 1 + r.Intn(5)}
		if r.Intn(4) == 0 {
			rd.Phase = 2
		}
		nl := 1
		if r.Intn(4) == 0 {
			nl = 2 + r.Intn(2)
		}
		for j := 0; j < nl; j++ {
			l := genLink(r, c, ordered, j == 0, j > 0)
			if !ordered && j > 0 {
				// F26 (C04): a link reading MATCHED_* after a multi-key parent depends on hash order; steer around it
				for k := range l.Targets {
					if strings.HasPrefix(l.Targets[k].Var, "MATCHED") {
						l.Targets[k] = Target{Var: "TX", Key: "score"}
					}
				}
			}
			rd.Links = append(rd.Links, l)
		}
		c.Rules = append(c.Rules, rd)
	}
	if !ordered {
		// later rules must not read MATCHED_VAR / MATCHED_VAR_NAME left by a hash-ordered rule: SecActions and
		// non-matching contexts would copy it; hashSetvars only use them inside the matching rule itself, but a
		// SecAction would see the previous rule's last match: drop those macros from SecActions
		for i := range c.Rules {
			for j := range c.Rules[i].Links {
				l := &c.Rules[i].Links[j]
				if len(l.Targets) == 0 {
					for k, a := range l.Actions {
						if strings.Contains(a, "MATCHED") {
							l.Actions[k] = "setvar:tx.sa=+1"
						}
					}
				}
				for k, t := range l.Targets {
					if strings.HasPrefix(t.Var, "MATCHED") {
						l.Targets[k] = Target{Var: "TX", Key: "cnt"}
					}
				}
			}
		}
	}
	return c
}

// ---------------------------------------------------------------------------------------
// capture family: @rx with optional / alternative groups over 2-4 values of one repeated
// argument name (insertion order), whose group participation differs between the values; the
// per-match actions copy %{tx.1}..%{tx.3} under a per-match counter, append them, and log them
// ---------------------------------------------------------------------------------------

type capShape struct {
	pattern string
	values  []string
}

var capShapes = []capShape{
	{`^x(\d)(?:-(\w+))?$`, []string{"x1-red", "x2", "x3-blue", "x4", "y5", "x6-", "X7-RED", "X8"}},
	{`^(a)?(b)?(c)?$`, []string{"abc", "b", "ac", "c", "", "ab", "bc", "a", "ABC", "B"}},
	{`^(?:(x)|(y))(\d*)$`, []string{"x1", "y", "y22", "x", "z1", "x333", "Y4", "X"}},
	{`^(\w+)=(\w*)(?:;(\w+))?$`, []string{"k=v;z", "k=", "q=w", "a=;b", "=x", "K=V;Z", "n=1"}},
	{`(\d+)(-)?([a-z])?`, []string{"12-a", "7", "3-", "ab9c", "none", "5z", "44-Q"}},
}

var capActions = []string{
	"setvar:tx.g1_%{tx.n}=%{tx.1}", "setvar:tx.g2_%{tx.n}=%{tx.2}", "setvar:tx.g3_%{tx.n}=%{tx.3}", "setvar:tx.g0_%{tx.n}=%{tx.0}",
	"setvar:tx.all=%{tx.all}|%{tx.1},%{tx.2},%{tx.3}", "setvar:tx.k_%{tx.2}=+1", "setvar:tx.last2=%{tx.2}", "setvar:tx.last3=[%{tx.3}]",
	"setvar:tx.seen_%{tx.n}=%{MATCHED_VAR}:%{tx.1}:%{tx.2}", "setvar:tx.g4_%{tx.n}=%{tx.4}",
}

func genCap(r *rand.Rand) *Case {
	c := &Case{Kind: "run", Ordered: true, Shape: "capture"}
	sh := pick(r, capShapes)
	n := 2 + r.Intn(3)
	for i := 0; i < n; i++ {
		c.Args = append(c.Args, [2]string{"a", pick(r, sh.values)})
	}
	if r.Intn(3) == 0 {
		c.Args = append(c.Args, [2]string{"b", pick(r, sh.values)})
	}
	if r.Intn(3) == 0 {
		c.Hdrs = [][2]string{{"x-h1", pick(r, sh.values)}}
	}
	id := 100
	if r.Intn(3) == 0 {
		c.Rules = append(c.Rules, sa(id, 1, "setvar:tx.n=0", "setvar:tx.all=^"))
		id++
	}
	nr := 1 + r.Intn(2)
	for k := 0; k < nr; k++ {
		if k > 0 {
			sh = pick(r, capShapes)
		}
		l := LinkDesc{Op: "rxg", OpArg: sh.pattern, Capture: r.Intn(8) != 0}
		l.Targets = parseTargets(pick(r, []string{"ARGS_GET:a", "ARGS:a", "ARGS_GET:a|ARGS_GET:b", "ARGS_GET:a|REQUEST_HEADERS:x-h1", "ARGS_GET:a"}))
		if r.Intn(3) == 0 {
			l.Tfs = [][]string{{"lowercase"}, {"trim", "lowercase"}, {"uppercase"}}[r.Intn(3)]
			l.Multi = r.Intn(2) == 0
		}
		l.Neg = r.Intn(12) == 0
		l.Actions = []string{"setvar:tx.n=+1"}
		na := 1 + r.Intn(4)
		for i := 0; i < na; i++ {
			l.Actions = append(l.Actions, pick(r, capActions))
		}
		if r.Intn(2) == 0 {
			l.LogData = pick(r, []string{"%{tx.1}/%{tx.2}/%{tx.3}", "%{tx.2}", "%{tx.0}=%{tx.1}+%{tx.3}"})
		}
		if r.Intn(2) == 0 {
			l.Msg = pick(r, []string{"g %{tx.2}", "m %{tx.1}%{tx.3}", "n=%{tx.n} %{tx.2}"})
		}
		rd := RuleDesc{ID: id, Phase: 1 + r.Intn(5), Links: []LinkDesc{l}}
		id++
		if r.Intn(3) == 0 {
			// a link reading the captures left by the starter's last match
			ln := LinkDesc{Targets: parseTargets(pick(r, []string{"TX:2", "TX:1|TX:2|TX:3", "TX:3", "TX:0"})), Op: "unconditionalMatch",
				Actions: []string{"setvar:tx.link_%{MATCHED_VAR_NAME}=[%{MATCHED_VAR}]", "setvar:tx.lc=+1"}}
			if r.Intn(2) == 0 {
				ln.Op, ln.OpArg = "streq", pick(r, []string{"red", "b", "", "x", "%{tx.last2}"})
				if ln.OpArg == "" {
					ln.Op, ln.OpArg = "eq", "0" // Atoi("") = 0: true for an empty (cleared) capture
				}
			}
			rd.Links = append(rd.Links, ln)
		}
		c.Rules = append(c.Rules, rd)
	}
	if r.Intn(2) == 0 {
		c.Rules = append(c.Rules, sr(id, 5, "TX:2|TX:3", "unconditionalMatch", "", "setvar:tx.end_%{MATCHED_VAR_NAME}=[%{MATCHED_VAR}]"))
	}
	return c
}

// withPriors adds 0-2 other requests that the WAF serves (and closes) between the fresh run of the
// case's request and its re-run on the recycled transaction object: permutations of the case's own
// arguments with some values replaced, so that the same rules fire differently (other counters,
// other severities, captures, possibly an interruption) before the object is reused.
func withPriors(r *rand.Rand, c *Case) *Case {
	n := r.Intn(3)
	for i := 0; i < n; i++ {
		p := Req{}
		for _, a := range c.Args {
			v := a[1]
			if r.Intn(2) == 0 {
				v = pick(r, valuePool)
			}
			p.Args = append(p.Args, [2]string{a[0], v})
		}
		if r.Intn(2) == 0 {
			p.Args = append(p.Args, [2]string{pick(r, []string{"a", "b", "c"}), pick(r, valuePool)})
		}
		r.Shuffle(len(p.Args), func(i, j int) { p.Args[i], p.Args[j] = p.Args[j], p.Args[i] })
		if r.Intn(2) == 0 {
			p.Hdrs = c.Hdrs
		} else if r.Intn(2) == 0 {
			p.Hdrs = [][2]string{{"x-h1", pick(r, valuePool)}}
		}
		c.Priors = append(c.Priors, p)
	}
	return c
}
