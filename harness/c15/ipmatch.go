package c15

import (
	"fmt"
	"math/big"
	"math/rand"
	"net"
	"strings"

	"github.com/corazawaf/coraza/v3/experimental/plugins/plugintypes"
	"github.com/corazawaf/coraza/v3/internal/operators"
)

// @ipMatch is a thin wrapper around net.ParseCIDR / net.IPNet.Contains; it is not modelled in
// Coq. The oracle below decides membership by integer arithmetic on the generated addresses
// (first plen bits equal) and, for free-form arguments, by net.IPNet.Contains itself.

func ipMatchEval(arg, value string) (bool, error) {
	op, err := operators.Get("ipMatch", plugintypes.OperatorOptions{Arguments: arg})
	if err != nil {
		return false, err
	}
	tx := newTx(false, nil)
	defer tx.Close()
	return op.Evaluate(tx, value), nil
}

func v4str(a uint32) string {
	return fmt.Sprintf("%d.%d.%d.%d", a>>24, (a>>16)&255, (a>>8)&255, a&255)
}

func v6str(a *big.Int) string {
	b := a.FillBytes(make([]byte, 16))
	parts := make([]string, 8)
	for i := range parts {
		parts[i] = fmt.Sprintf("%x", int(b[2*i])<<8|int(b[2*i+1]))
	}
	return strings.Join(parts, ":")
}

func (r *runner) ipCheck(arg, value string, want bool, how string) {
	cj := &caseJSON{Kind: "ipmatch", ArgHex: hx(arg), ValueHex: hx(value), Note: how}
	got, err := ipMatchEval(arg, value)
	r.oracleN++
	r.res.InputDistribution["ipmatch_"+boolStr(want)]++
	if err != nil {
		r.fail("c15-ipmatch-ctor", "newIPMatch returned an error: "+err.Error(), cj)
		return
	}
	cj.Res = boolStr(got)
	if got != want {
		r.fail("c15-ipmatch", "@ipMatch differs from CIDR membership ("+how+")", cj)
	}
}

// free-form reference: what the documentation says, via the standard library
func ipRef(arg, value string) bool {
	ip := net.ParseIP(value)
	for _, sb := range strings.Split(arg, ",") {
		sb = strings.TrimSpace(sb)
		if sb == "" {
			continue
		}
		if !strings.Contains(sb, "/") {
			if strings.Contains(sb, ":") {
				sb += "/128"
			} else if strings.Contains(sb, ".") {
				sb += "/32"
			}
		}
		_, n, err := net.ParseCIDR(sb)
		if err == nil && n.Contains(ip) {
			return true
		}
	}
	return false
}

func (r *runner) ipMatchDoc(c caseJSON) {
	arg, value := unhx(c.ArgHex), unhx(c.ValueHex)
	r.ipCheck(arg, value, ipRef(arg, value), "net.IPNet.Contains")
}

func (r *runner) genIPMatch(rng *rand.Rand) {
	n := r.cfg.Pick(1500, 60000)
	for i := 0; i < n; i++ {
		if rng.Intn(3) > 0 {
			// IPv4 list
			k := 1 + rng.Intn(3)
			var items []string
			type cidr struct {
				a    uint32
				plen int
			}
			var cs []cidr
			for j := 0; j < k; j++ {
				a := rng.Uint32()
				plen := []int{0, 1, 7, 8, 9, 16, 23, 24, 25, 31, 32, 32}[rng.Intn(12)]
				if rng.Intn(3) == 0 {
					items = append(items, v4str(a)) // bare address: /32
					cs = append(cs, cidr{a, 32})
				} else {
					items = append(items, fmt.Sprintf("%s/%d", v4str(a), plen))
					cs = append(cs, cidr{a, plen})
				}
			}
			probe := rng.Uint32()
			if rng.Intn(2) == 0 { // near a boundary of one of the networks
				c := cs[rng.Intn(len(cs))]
				probe = c.a
				if c.plen < 32 {
					switch rng.Intn(4) {
					case 0:
						probe ^= 1 << uint(31-c.plen) // first host bit flipped: still inside
					case 1:
						if c.plen > 0 {
							probe ^= 1 << uint(32-c.plen) // last network bit flipped: outside
						}
					case 2:
						probe |= (1 << uint(32-c.plen)) - 1 // broadcast address of the block
					}
				} else if rng.Intn(2) == 0 {
					probe ^= 1
				}
			}
			want := false
			for _, c := range cs {
				if c.plen == 0 || probe>>uint(32-c.plen) == c.a>>uint(32-c.plen) {
					want = true
				}
			}
			sep := []string{",", ", ", " ,"}[rng.Intn(3)]
			r.ipCheck(strings.Join(items, sep), v4str(probe), want, "first plen bits equal (IPv4)")
		} else {
			a := new(big.Int).Rand(rng, new(big.Int).Lsh(big.NewInt(1), 128))
			plen := []int{0, 1, 16, 32, 48, 63, 64, 65, 96, 127, 128, 128}[rng.Intn(12)]
			arg := fmt.Sprintf("%s/%d", v6str(a), plen)
			if plen == 128 && rng.Intn(2) == 0 {
				arg = v6str(a)
			}
			probe := new(big.Int).Set(a)
			switch rng.Intn(4) {
			case 0:
				if plen < 128 {
					probe.Xor(probe, new(big.Int).Lsh(big.NewInt(1), uint(127-plen)))
				}
			case 1:
				if plen > 0 {
					probe.Xor(probe, new(big.Int).Lsh(big.NewInt(1), uint(128-plen)))
				}
			case 2:
				probe = new(big.Int).Rand(rng, new(big.Int).Lsh(big.NewInt(1), 128))
			}
			sh := uint(128 - plen)
			want := new(big.Int).Rsh(probe, sh).Cmp(new(big.Int).Rsh(a, sh)) == 0
			r.ipCheck(arg, v6str(probe), want, "first plen bits equal (IPv6)")
		}
	}
	// free-form arguments against the standard library
	for _, arg := range []string{"", ",", "10.0.0.0/8,", "10.0.0.0/33", "10.0.0/8", "garbage", "garbage,192.168.1.1", "::1", "::ffff:10.0.0.1", "10.0.0.1/32 , ::1/128", "1.2.3.4/0", "fe80::/10"} {
		for _, v := range []string{"10.0.0.1", "192.168.1.1", "::1", "", "garbage", "10.0.0.1 ", "::ffff:10.0.0.1", "fe80::1", "1.2.3.4", "010.0.0.1"} {
			r.ipCheck(arg, v, ipRef(arg, v), "net.IPNet.Contains")
		}
	}
}
