(* CorrC17.v — correspondence checker for C17: evaluates Config.v (compile, the directive as coded,
   the engine with the ctl family) on the rule sets / requests the Go harness ran and compares with
   the observed matched rules (id + multiset of matched (variable,key,value)) and interruption. *)
From Verif Require Import Base Config.
Open Scope N_scope.

Definition disr_eqb (a b : disr) : bool :=
  match a, b with
  | DPass, DPass | DDeny, DDeny | DDrop, DDrop | DBlock, DBlock => true
  | _, _ => false
  end.

Definition md_eqb (a b : md) : bool :=
  var_eqb (fst (fst a)) (fst (fst b)) && bytes_eqb (snd (fst a)) (snd (fst b)) && bytes_eqb (snd a) (snd b).

Definition md_count (x : md) (l : list md) : nat := length (filter (md_eqb x) l).

(* Go map iteration order is random: matched data are compared as multisets *)
Definition md_perm (a b : list md) : bool :=
  Nat.eqb (length a) (length b) && forallb (fun x => Nat.eqb (md_count x a) (md_count x b)) a.

Fixpoint matched_eqb (a b : list (N * list md)) : bool :=
  match a, b with
  | [], [] => true
  | (i, x) :: a', (j, y) :: b' => (i =? j) && md_perm x y && matched_eqb a' b'
  | _, _ => false
  end.

Definition intr_eqb (a b : option intr) : bool :=
  match a, b with
  | None, None => true
  | Some (s1, i1, d1), Some (s2, i2, d2) => (s1 =? s2) && (i1 =? i2) && disr_eqb d1 d2
  | _, _ => false
  end.

Definition dflt_of (l : list (N * disr)) (ph : N) : option disr :=
  match filter (fun e => fst e =? ph) l with
  | e :: _ => Some (snd e)
  | [] => if ph =? 2 then Some DPass else None      (* the hard-coded "phase:2,log,auditlog,pass" *)
  end.

(* one configuration (defaults, source, optional directive), several requests with observations;
   err = the real parser refused the configuration *)
Inductive case :=
  | Case (dflt : list (N * disr)) (src : list item_src) (d : option directive) (err : bool)
         (runs : list (request * (list (N * list md) * option intr))).

Definition build (dflt : list (N * disr)) (src : list item_src) (d : option directive) : option (list crule) :=
  match cf_compile (dflt_of dflt) src with
  | None => None
  | Some rs => match d with None => Some rs | Some d => cf_apply d rs end
  end.

Definition ok (c : case) : bool :=
  match c with
  | Case dflt src d err runs =>
    match build dflt src d with
    | None => err
    | Some rs =>
      negb err &&
      forallb (fun run =>
                 let o := cf_outcome simple_rx rs (fst run) in
                 matched_eqb (fst o) (fst (snd run)) && intr_eqb (snd o) (snd (snd run))) runs
    end
  end.

Definition mismatches (l : list case) : list nat := mismatches_of ok l.
