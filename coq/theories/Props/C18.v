(* Props/C18.v — the property theorems of C18 and nothing else.
   C18: the net/http middleware blocks completely and otherwise passes traffic through intact.
   All statements are about Http.wrap_handler (the function CorrC18.ok evaluates), quantified over
   every configuration, rule oracle and ctl effect per phase (cfg), every request body, every list of handler
   operations; sk = true is net/http's ResponseWriter, sk = false httptest.ResponseRecorder. *)
From Verif Require Import Base Http HttpProofs.

(* a request interrupted in phase 1 / 2 (or rejected by the body limit) never reaches the handler;
   the writer only gets WriteHeader(status of the interruption, 403 for a deny without status) *)
Theorem C18_request_block : forall cfg sk body ops it,
  c_engine cfg <> EOff ->
  mw_request cfg body = RBlocked it ->
  let r := wrap_handler cfg sk body ops in
  r_invoked r = false /\ r_read r = [] /\ r_intr r = Some it /\
  cl_body (client_of sk (r_ds r)) = [] /\
  d_trace (r_ds r) = [DHeader (status_of it 200) []] /\
  (is_info (status_of it 200) = false -> cl_status (client_of sk (r_ds r)) = status_of it 200).
Proof. exact request_block_holds. Qed.
Print Assumptions C18_request_block.

(* exactly when: a phase-1 rule, the body limit with Reject (at or above the limit), or a phase-2
   rule on the buffered prefix; access and limit are the ones in force after the phase-1 ctl actions *)
Theorem C18_request_block_iff : forall cfg body,
  (exists it, mw_request cfg body = RBlocked it) <->
  (rule_intr cfg (c_ph1 cfg) <> None \/
   (eff_qacc cfg = true /\ eff_qlim cfg <= blen body /\ eff_action cfg (c_req_action cfg) = Reject) \/
   rule_intr cfg (c_ph2 cfg (if eff_qacc cfg then takeN (eff_qlim cfg) body else [])) <> None).
Proof. exact request_blocked_iff. Qed.
Print Assumptions C18_request_block_iff.

(* a response that ends interrupted (phase 3, phase 4, response limit with Reject) delivers no body
   byte, over every writer, whatever the handler wrote or flushed before and after *)
Theorem C18_response_block : forall cfg sk body ops,
  let r := wrap_handler cfg sk body ops in
  r_invoked r = true -> r_intr r <> None -> cl_body (client_of sk (r_ds r)) = [].
Proof. exact response_block_wrap. Qed.
Print Assumptions C18_response_block.

(* the decision to buffer the response body is taken after the phase-3 rules ran (their ctl actions
   responseBodyAccess / forceResponseBodyVariable count): flushing is allowed exactly when the
   transaction will not buffer, and a buffered Write reaches no writer *)
Theorem C18_buffering_after_phase3 : forall cfg sk c m,
  i_wrote (m_ic m) = false -> i_allow (m_ic m) = false ->
  let m' := ic_write_header cfg sk c m in
  t_intr (m_tx m') = None ->
  m_tx m' = tx_resp_headers cfg c (d_live (m_ds m)) (m_tx m) /\
  i_allow (m_ic m') = negb (buffering cfg (m_tx m')).
Proof. exact buffering_after_phase3_holds. Qed.
Print Assumptions C18_buffering_after_phase3.

Theorem C18_buffered_write_reaches_no_writer : forall cfg sk b m,
  t_intr (m_tx m) = None -> i_wrote (m_ic m) = true -> i_released (m_ic m) = false ->
  buffering cfg (m_tx m) = true -> blen (t_rbuf (m_tx m)) + blen b < t_rlim (m_tx m) ->
  m_ds (ic_write cfg sk b m) = m_ds m /\ t_rbuf (m_tx (ic_write cfg sk b m)) = t_rbuf (m_tx m) ++ b.
Proof. exact buffered_write_reaches_no_writer. Qed.
Print Assumptions C18_buffered_write_reaches_no_writer.

(* (partial: guards no_late_headers, no_status_after_info, no_own_cl; HttpProofs.passthrough_guard_example
   is a non-trivial instance; the excluded shapes are the _refuted witnesses below)
   nothing interrupts: the client receives what the bare handler's client receives (status,
   headers, body, 1xx responses) and the handler reads what the bare handler reads - for handlers
   that set no header after the first WriteHeader/Write/Flush, send no status after a 1xx, and
   declare no Content-Length of their own *)
Theorem C18_passthrough_partial : forall cfg sk body ops,
  no_late_headers ops = true -> no_status_after_info ops = true -> no_own_cl ops = true ->
  let r := wrap_handler cfg sk body ops in
  r_intr r = None ->
  r_invoked r = true /\
  r_read r = r_read (bare_handler sk body ops) /\
  client_of sk (r_ds r) = client_of sk (r_ds (bare_handler sk body ops)).
Proof. exact passthrough_holds. Qed.
Print Assumptions C18_passthrough_partial.

(* the same, spelled out: the handler's status (implicit 200), its headers, the concatenation of
   its writes (unless the status carries no body), for every chunking, flush pattern and limit *)
Theorem C18_passthrough_spec_partial : forall cfg sk body ops,
  no_late_headers ops = true -> no_status_after_info ops = true -> no_own_cl ops = true ->
  let r := wrap_handler cfg sk body ops in
  r_intr r = None ->
  let c := client_of sk (r_ds r) in
  r_invoked r = true /\ r_read r = h_read (run_hst ops body) /\
  cl_status c = handler_status sk ops /\ cl_headers c = handler_headers ops /\
  cl_body c = (if okb sk (handler_status sk ops) then written ops else []).
Proof. exact passthrough_spec. Qed.
Print Assumptions C18_passthrough_spec_partial.

(* the handler's req.Body yields the client's body: what it reads is a prefix, ReadAll gets all of
   it - for every body size relative to the limit, both limit actions, access on or off *)
Theorem C18_handler_reads_body : forall cfg sk body ops,
  let r := wrap_handler cfg sk body ops in
  r_invoked r = true ->
  r_read r = h_read (run_hst ops body) /\
  (exists rest, r_read r ++ rest = body) /\
  (In HReadAll ops -> r_read r = body).
Proof. exact handler_reads_body_holds. Qed.
Print Assumptions C18_handler_reads_body.

(* ---- expectations of the property's text the code does not meet (witnesses) ---- *)

(* F28a c18-request-redirect-drop-status *)
Theorem C18_request_redirect_refuted : exists cfg body ops it,
  mw_request cfg body = RBlocked it /\ in_act it = ARedirect /\ in_status it = 302 /\
  cl_status (client_of true (r_ds (wrap_handler cfg true body ops))) = 200.
Proof. exact request_redirect_refuted. Qed.
Print Assumptions C18_request_redirect_refuted.

(* F28b c18-informational-status *)
Theorem C18_informational_status_refuted : exists cfg body ops,
  r_intr (wrap_handler cfg true body ops) = None /\
  cl_status (client_of true (r_ds (bare_handler true body ops))) = 404 /\
  cl_status (client_of true (r_ds (wrap_handler cfg true body ops))) = 200.
Proof. exact informational_status_refuted. Qed.
Print Assumptions C18_informational_status_refuted.

(* F53 c18-late-header-visible: pass-through without the no_late_headers guard fails *)
Theorem C18_late_header_refuted : exists cfg body ops k,
  r_intr (wrap_handler cfg true body ops) = None /\
  h_get k (cl_headers (client_of true (r_ds (bare_handler true body ops)))) = [] /\
  h_get k (cl_headers (client_of true (r_ds (wrap_handler cfg true body ops)))) <> [].
Proof. exact late_header_refuted. Qed.
Print Assumptions C18_late_header_refuted.
