(* EngineBridge3.v — three models transcribe the same Go loop, RuleGroup.Eval
   (/repo/internal/corazawaf/rulegroup.go), with overlapping feature sets:
     Flow.v    (C08)  markers, skip, skipAfter, allow scopes, deny, ctl:ruleRemoveById,
                      ctl:ruleEngine, chains, engine On / DetectionOnly / Off, phases 1..5
     TxPhase.v (C02)  phase guards of the Process* calls, Interrupt / Allow mode-aware, deny status,
                      ctl:ruleEngine, skip, skipAfter, markers, one chained link, phases 1..5
     Config.v  (C17)  per-transaction removal by id, skip, skipAfter, markers, deny status, chains,
                      engine On, phases 1..2
   This file: ONE abstract rule type covering the union, a translation into each model's rule
   type, the observables every model exposes, and a reference evaluation of the abstract rules
   (proof device: each model is proved to simulate it on its own fragment; the agreement theorems
   between the models follow by transitivity).  Definitions only; proofs in EngineBridge3Proofs.v. *)
From Verif Require Import Base Flow TxPhase Config.
Local Open Scope nat_scope.

(* ------------------------------------------------------------------------------------ *)
(* abstract rules                                                                        *)
(* ------------------------------------------------------------------------------------ *)
Inductive b3_disr := BPass | BDeny (status : nat) | BAllow (sc : fl_scope).

(* the match assignment is part of the rule: b_hit / b_chain say whether the starter / the chained
   link match in the transaction at hand; theorems quantify over all lists of such rules *)
Record b3_rule := mkB3 {
  b_mark  : option nat;       (* Some m: "SecMarker m" - the other fields are unused *)
  b_id    : nat;
  b_phase : nat;
  b_hit   : bool;             (* the starter's operator matches *)
  b_chain : option bool;      (* a chained link, and whether it matches *)
  b_eng   : option fl_mode;   (* ctl:ruleEngine=... on the starter *)
  b_rm    : list nat;         (* ctl:ruleRemoveById=... on the starter, in order *)
  b_skip  : nat;              (* skip:N, 0 = none *)
  b_after : option nat;       (* skipAfter:M *)
  b_disr  : b3_disr           (* pass / deny (status:N, 0 = unset) / allow[:scope] *)
}.
Definition b3_marker (m : nat) : b3_rule := mkB3 (Some m) 0 0 true None None [] 0 None BPass.
Definition b3_is_marker (r : b3_rule) : bool := match b_mark r with Some _ => true | None => false end.
Definition b3_rid (r : b3_rule) : nat := if b3_is_marker r then 0 else b_id r.        (* ID_ = noID *)
Definition b3_rphase (r : b3_rule) : nat := if b3_is_marker r then 0 else b_phase r.  (* Phase_ = 0 *)
Definition b3_chain_ok (r : b3_rule) : bool := match b_chain r with Some c => c | None => true end.

(* ------------------------------------------------------------------------------------ *)
(* translation into Flow.v                                                               *)
(* ------------------------------------------------------------------------------------ *)
(* the request: header X0 present, header X1 absent; a link tests X0 (matches) or X1 (does not) *)
Definition b3_req : list bool := [true; false].
Definition b3_key (hit : bool) : option nat := Some (if hit then 0 else 1).

Definition b3_fl_acts (r : b3_rule) : list fl_act :=
  (match b_disr r with BPass => [] | BDeny _ => [Flow.ADeny] | BAllow sc => [Flow.AAllow sc] end)
  ++ ((match b_skip r with 0 => [] | n => [Flow.ASkip n] end)
      ++ (match b_after r with Some m => [Flow.ASkipAfter m] | None => [] end)).

Definition b3_to_flow (r : b3_rule) : fl_rule :=
  match b_mark r with
  | Some m => fl_marker m
  | None =>
    Flow.mkRule (b_id r) (b_phase r) None
      (mkLink (b3_key (b_hit r)) (b_rm r) (b_eng r) []
       :: match b_chain r with Some c => [mkLink (b3_key c) [] None []] | None => [] end)
      (b3_fl_acts r)
  end.

(* ------------------------------------------------------------------------------------ *)
(* translation into TxPhase.v (compiled rules)                                           *)
(* ------------------------------------------------------------------------------------ *)
Definition b3_tp_mode (m : fl_mode) : tp_mode :=
  match m with Flow.MOn => TxPhase.MOn | Flow.MDet => TxPhase.MDet | Flow.MOff => TxPhase.MOff end.
Definition b3_tp_scope (s : fl_scope) : tp_scope :=
  match s with ScPhase => SPhase | ScRequest => SRequest | ScAll => SAll end.
Definition b3_tp_cond (hit : bool) : tp_cond := if hit then CTrue else CFalse.

Definition b3_to_tp (r : b3_rule) : tp_rule :=
  match b_mark r with
  | Some m => TxPhase.mkRule (Some (N.of_nat m)) 0 0 CTrue None None None 0 0 None
  | None =>
    TxPhase.mkRule None (N.of_nat (b_id r)) (N.of_nat (b_phase r)) (b3_tp_cond (b_hit r))
      (option_map b3_tp_cond (b_chain r)) (option_map b3_tp_mode (b_eng r))
      (match b_disr r with
       | BPass => Some TxPhase.DPass | BDeny _ => Some TxPhase.DDeny | BAllow sc => Some (DAllow (b3_tp_scope sc)) end)
      (match b_disr r with BDeny st => N.of_nat st | _ => 0%N end)
      (N.of_nat (b_skip r)) (option_map N.of_nat (b_after r))
  end.

(* no body buffering: the five Process* calls of a complete transaction, in order *)
Definition b3_tp_cfg (eng : fl_mode) (rs : list b3_rule) : tp_cfg :=
  mkCfg (b3_tp_mode eng) (map b3_to_tp rs) false 0%Z LReject false 0%Z LReject.
Definition b3_tp_calls : list tp_call := [KPRH; KPRB; KPRespH; KPRespB; KLog].

(* what TxPhase.v cannot express *)
Definition b3_tp_ok (r : b3_rule) : bool :=
  b3_is_marker r || (negb (b_id r =? 0) && match b_rm r with [] => true | _ => false end).

(* ------------------------------------------------------------------------------------ *)
(* translation into Config.v (compiled rules)                                            *)
(* ------------------------------------------------------------------------------------ *)
(* marker names: "M<m>" *)
Definition b3_mname (m : nat) : bytes := 77%N :: itoa (N.of_nat m).

(* the link looks at REQUEST_METHOD (one value in every request) with an operator that matches
   everything (hit) or nothing (not hit) *)
Definition b3_cf_link (hit : bool) (nd : list ctl) (ds : list disr) (fl : list flow) (status : N) : clink :=
  mkClink [mkCvar false VMethod [] None []] (Some (mkOp (negb hit) OAlways)) nd ds fl [] None status.

Definition b3_cf_flow (r : b3_rule) : list flow :=
  (match b_skip r with 0 => [] | n => [FSkip (N.of_nat n)] end)
  ++ (match b_after r with Some m => [FAfter (b3_mname m)] | None => [] end).

Definition b3_to_cf (r : b3_rule) : crule :=
  match b_mark r with
  | Some m => marker_rule (b3_mname m)
  | None =>
    mkCrule (N.of_nat (b_id r)) (N.of_nat (b_phase r)) []
      (b3_cf_link (b_hit r) (map (fun n => CRmId (IdOne (N.of_nat n))) (b_rm r))
         (match b_disr r with BDeny _ => [Config.DDeny] | _ => [Config.DPass] end)
         (b3_cf_flow r)
         (match b_disr r with BDeny st => N.of_nat st | _ => 0%N end))
      (match b_chain r with Some c => [b3_cf_link c [] [] [] 0%N] | None => [] end)
  end.

(* what Config.v cannot express: allow, ctl:ruleEngine, phases other than 1 and 2 *)
Definition b3_cf_ok (r : b3_rule) : bool :=
  b3_is_marker r ||
  (negb (b_id r =? 0) && ((b_phase r =? 1) || (b_phase r =? 2))
   && match b_eng r with None => true | Some _ => false end
   && match b_disr r with BAllow _ => false | _ => true end).

(* ------------------------------------------------------------------------------------ *)
(* observables                                                                           *)
(* ------------------------------------------------------------------------------------ *)
(* (phase, rule id, fully matched) of every evaluation of a rule (markers left out), in order *)
Definition b3_evs := list (nat * nat * bool).
(* interruption: (rule id, status) *)
Definition b3_intr := option (nat * nat).

Definition b3_ev_triple (e : fl_event) : nat * nat * bool := (ev_phase e, ev_id e, ev_matched e).
Definition b3_rule_evs (evs : list fl_event) : b3_evs :=
  map b3_ev_triple (filter (fun e => negb (ev_id e =? 0)) evs).
Definition b3_matched_ids (evs : b3_evs) : list nat := map (fun e => snd (fst e)) (filter (fun e => snd e) evs).

(* Flow.v: trace; interrupting rule; would-be interrupting rule of DetectionOnly *)
Definition b3_obs_flow (s : fl_st) : b3_evs * option nat * option nat :=
  (b3_rule_evs (s_ev s), option_map snd (s_intr s), option_map snd (s_dintr s)).

(* TxPhase.v *)
Fixpoint b3_tp_evs (t : list tp_event) : b3_evs :=
  match t with
  | [] => []
  | EvRule p r st :: t' =>
      (N.to_nat p, N.to_nat (TxPhase.r_id r), match st with RFired _ => true | _ => false end) :: b3_tp_evs t'
  | _ :: t' => b3_tp_evs t'
  end.
Definition b3_tp_intr (i : option tp_intr) : b3_intr :=
  option_map (fun i => (N.to_nat (i_rule i), N.to_nat (i_status i))) i.
Definition b3_obs_tp (s : tp_state) : b3_evs * b3_intr * b3_intr :=
  (b3_tp_evs (st_trace s), b3_tp_intr (TxPhase.st_intr s), b3_tp_intr (st_dintr s)).

(* Config.v: matched rule ids in order, interruption *)
Definition b3_obs_cf (s : txst) : list nat * b3_intr :=
  (map (fun m => N.to_nat (fst m)) (st_matched s),
   option_map (fun i : Config.intr => (N.to_nat (snd (fst i)), N.to_nat (fst (fst i)))) (Config.st_intr s)).

(* ------------------------------------------------------------------------------------ *)
(* reference evaluation of the abstract rules                                            *)
(* ------------------------------------------------------------------------------------ *)
Record b3_st := mkX {
  x_skip : nat; x_after : option nat; x_allow : option fl_scope;
  x_intr : option (nat * nat * nat);      (* phase, rule id, status *)
  x_dintr : option (nat * nat * nat);
  x_rm : list nat; x_eng : fl_mode; x_ev : list fl_event }.

Definition b3_init (eng : fl_mode) : b3_st := mkX 0 None None None None [] eng [].

Definition x_set_skip n s := mkX n (x_after s) (x_allow s) (x_intr s) (x_dintr s) (x_rm s) (x_eng s) (x_ev s).
Definition x_set_after m s := mkX (x_skip s) m (x_allow s) (x_intr s) (x_dintr s) (x_rm s) (x_eng s) (x_ev s).
Definition x_set_allow a s := mkX (x_skip s) (x_after s) a (x_intr s) (x_dintr s) (x_rm s) (x_eng s) (x_ev s).
Definition x_set_intr i s := mkX (x_skip s) (x_after s) (x_allow s) i (x_dintr s) (x_rm s) (x_eng s) (x_ev s).
Definition x_set_dintr i s := mkX (x_skip s) (x_after s) (x_allow s) (x_intr s) i (x_rm s) (x_eng s) (x_ev s).
Definition x_add_rm l s := mkX (x_skip s) (x_after s) (x_allow s) (x_intr s) (x_dintr s) (x_rm s ++ l) (x_eng s) (x_ev s).
Definition x_set_eng e s := mkX (x_skip s) (x_after s) (x_allow s) (x_intr s) (x_dintr s) (x_rm s) e (x_ev s).
Definition x_add_ev e s := mkX (x_skip s) (x_after s) (x_allow s) (x_intr s) (x_dintr s) (x_rm s) (x_eng s) (x_ev s ++ [e]).

Definition b3_status (st : nat) : nat := if st =? 0 then 403 else st.      (* deny.go *)

Definition b3_apply_disr (p : nat) (r : b3_rule) (s : b3_st) : b3_st :=
  match b_disr r with
  | BPass => s
  | BAllow sc => match x_eng s with Flow.MOn => x_set_allow (Some sc) s | _ => s end
  | BDeny st =>
    match x_eng s with
    | Flow.MOn => if Flow.is_some (x_intr s) then s else x_set_intr (Some (p, b_id r, b3_status st)) s
    | Flow.MDet => if Flow.is_some (x_dintr s) then s else x_set_dintr (Some (p, b_id r, b3_status st)) s
    | Flow.MOff => s
    end
  end.

Definition b3_apply_flow (r : b3_rule) (s : b3_st) : b3_st :=
  let s1 := match b_skip r with 0 => s | n => x_set_skip n s end in
  match b_after r with Some m => x_set_after (Some m) s1 | None => s1 end.

(* Rule.Evaluate for the entry the loop visits *)
Definition b3_evaluate (p : nat) (r : b3_rule) (s : b3_st) : b3_st :=
  if b3_is_marker r then x_add_ev (Ev p 0 false) s
  else if b_hit r then
    let s1 := x_add_rm (b_rm r) s in
    let s2 := match b_eng r with Some e => x_set_eng e s1 | None => s1 end in
    if b3_chain_ok r
    then x_add_ev (Ev p (b_id r) (negb (b_id r =? 0))) (b3_apply_flow r (b3_apply_disr p r s2))
    else x_add_ev (Ev p (b_id r) false) s2
  else x_add_ev (Ev p (b_id r) false) s.

Definition b3_allow_break (p : nat) (s : b3_st) : option b3_st :=
  match x_allow s with
  | None => None
  | Some ScPhase => Some s
  | Some ScRequest => if p =? 1 then Some s else if p =? 2 then Some (x_set_allow None s) else None
  | Some ScAll => if p =? 5 then None else Some s
  end.

Fixpoint b3_loop (p : nat) (rs : list b3_rule) (s : b3_st) : b3_st :=
  match rs with
  | [] => s
  | r :: rest =>
    if Flow.is_some (x_intr s) && negb (p =? 5) then s
    else if negb ((b3_rphase r =? 0) || (b3_rphase r =? p)) then b3_loop p rest s
    else if existsb (Nat.eqb (b3_rid r)) (x_rm s) then b3_loop p rest s
    else match x_after s with
    | Some m =>
        if opt_nat_eqb (b_mark r) (Some m) then b3_loop p rest (x_set_after None s) else b3_loop p rest s
    | None =>
      match x_skip s with
      | S k => b3_loop p rest (x_set_skip k s)
      | O => match b3_allow_break p s with
             | Some s' => s'
             | None => b3_loop p rest (b3_evaluate p r s)
             end
      end
    end
  end.

Definition b3_end_phase (s : b3_st) : b3_st :=
  let s1 := match x_allow s with Some ScPhase => x_set_allow None s | _ => s end in
  x_set_after None (x_set_skip 0 s1).
Definition b3_phase (p : nat) (rs : list b3_rule) (s : b3_st) : b3_st := b3_end_phase (b3_loop p rs s).

Definition b3_guarded (rs : list b3_rule) (s : b3_st) (p : nat) : b3_st :=
  if fl_is_off (x_eng s) then s else if Flow.is_some (x_intr s) then s else b3_phase p rs s.
Definition b3_logging (rs : list b3_rule) (s : b3_st) : b3_st :=
  if fl_is_off (x_eng s) then s else b3_phase 5 rs s.
Definition b3_run (eng : fl_mode) (rs : list b3_rule) : b3_st :=
  b3_logging rs (fold_left (b3_guarded rs) [1; 2; 3; 4] (b3_init eng)).

Definition b3_xintr (i : option (nat * nat * nat)) : b3_intr := option_map (fun i => (snd (fst i), snd i)) i.
Definition b3_obs (s : b3_st) : b3_evs * b3_intr * b3_intr :=
  (b3_rule_evs (x_ev s), b3_xintr (x_intr s), b3_xintr (x_dintr s)).

(* ------------------------------------------------------------------------------------ *)
(* the three models run on an abstract rule list                                         *)
(* ------------------------------------------------------------------------------------ *)
Definition b3_run_flow (eng : fl_mode) (rs : list b3_rule) : fl_st := fl_run eng b3_req (map b3_to_flow rs).
Definition b3_run_tp (eng : fl_mode) (rs : list b3_rule) : tp_state := tp_run (b3_tp_cfg eng rs) b3_tp_calls.
Definition b3_cf_req : request := mkReq [71; 69; 84]%N [] [].
Definition b3_run_cf (rx : bytes -> bytes -> bool) (rs : list b3_rule) : txst := cf_run rx (map b3_to_cf rs) b3_cf_req.

(* projections onto the observables two models share *)
Definition b3_drop_status (o : b3_evs * b3_intr * b3_intr) : b3_evs * option nat * option nat :=
  (fst (fst o), option_map fst (snd (fst o)), option_map fst (snd o)).
Definition b3_matched_view (o : b3_evs * b3_intr * b3_intr) : list nat * b3_intr :=
  (b3_matched_ids (fst (fst o)), snd (fst o)).
Definition b3_matched_view_ids (o : b3_evs * option nat * option nat) : list nat * option nat :=
  (b3_matched_ids (fst (fst o)), snd (fst o)).
