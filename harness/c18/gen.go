package c18

import (
	"encoding/hex"
	"fmt"
	"math/rand"
	"sort"

	"github.com/corazawaf/coraza/v3/verifharness/vh"
)

const (
	reqMarker  = "EVIL"
	respMarker = "SECRET"
)

var fillAlpha = []byte("abcdefghijklmnopqrstuvwxyz0123456789&=%+ \x00\xff\n")

func filler(rng *rand.Rand, n int) []byte {
	b := make([]byte, n)
	for i := range b {
		b[i] = fillAlpha[rng.Intn(len(fillAlpha))]
	}
	return b
}

// bodyAround builds a body of length n (if it fits) whose marker position is chosen relative to
// the limit: absent, fully inside the first limit bytes, straddling the limit, after the limit.
func bodyAround(rng *rand.Rand, n, limit int, marker string, where int) []byte {
	b := filler(rng, n)
	m := len(marker)
	if where == 0 || n < m {
		return b
	}
	var pos int
	switch where {
	case 1: // ends exactly at the limit (inside the buffered prefix)
		pos = limit - m
	case 2: // straddles the limit
		pos = limit - m/2
	case 3: // first byte after the limit
		pos = limit
	default:
		pos = rng.Intn(n - m + 1)
	}
	if pos < 0 {
		pos = 0
	}
	if pos > n-m {
		pos = n - m
	}
	copy(b[pos:], marker)
	return b
}

func pick[T any](rng *rand.Rand, xs ...T) T { return xs[rng.Intn(len(xs))] }

func sizeAround(rng *rand.Rand, limit int) int {
	switch rng.Intn(9) {
	case 0:
		return 0
	case 1:
		return limit - 1
	case 2, 3:
		return limit
	case 4:
		return limit + 1
	case 5:
		return 2*limit + 3
	case 6:
		return limit / 2
	case 7:
		return limit + rng.Intn(limit+8)
	}
	return rng.Intn(2*limit + 4)
}

func genSpec(rng *rand.Rand, phase int, c *Case) Spec {
	if rng.Intn(100) < 62 {
		return Spec{Kind: "none"}
	}
	s := Spec{}
	// deny mostly; redirect / drop are the request-phase finding F28a (the model agrees with the
	// code, the oracle reports the listed key)
	switch r := rng.Intn(100); {
	case r < 80:
		s.Action = "deny"
		s.Status = pick(rng, 403, 401, 0, 503, 429, 404, 200)
	case r < 90:
		s.Action = "drop"
		s.Status = pick(rng, 0, 403)
	default:
		s.Action = "redirect"
		s.Status = pick(rng, 0, 302, 301, 307, 404)
	}
	switch phase {
	case 1:
		if rng.Intn(2) == 0 {
			s.Kind = "always"
		} else {
			s.Kind, s.K, s.V = "header", "X-Attack", "1"
		}
	case 2:
		if rng.Intn(4) == 0 {
			s.Kind = "always"
		} else {
			s.Kind, s.Marker = "contains", hex.EncodeToString([]byte(reqMarker))
		}
	case 3:
		switch rng.Intn(4) {
		case 0:
			s.Kind = "always"
		case 1:
			s.Kind, s.Code = "status", pick(rng, 200, 404, 500, 201)
		default:
			s.Kind, s.K, s.V = "header", "X-Leak", "1"
		}
	case 4:
		if rng.Intn(4) == 0 {
			s.Kind = "always"
		} else {
			s.Kind, s.Marker = "contains", hex.EncodeToString([]byte(respMarker))
		}
	}
	return s
}

func chunkUp(rng *rand.Rand, b []byte) [][]byte {
	var out [][]byte
	for len(b) > 0 {
		var n int
		switch rng.Intn(6) {
		case 0:
			n = 1
		case 1:
			n = len(b)
		default:
			n = 1 + rng.Intn(len(b))
			if n > 7 && rng.Intn(2) == 0 {
				n = 1 + rng.Intn(7)
			}
		}
		out = append(out, b[:n])
		b = b[n:]
		if rng.Intn(12) == 0 {
			out = append(out, []byte{})
		}
	}
	return out
}

func genOps(rng *rand.Rand, c *Case, respBody []byte) []Op {
	var ops []Op
	// headers first
	switch r := rng.Intn(100); {
	case r < 55:
		ops = append(ops, Op{Op: "set", K: "Content-Type", V: "text/plain"})
	case r < 65:
		ops = append(ops, Op{Op: "set", K: "Content-Type", V: "text/plain; charset=utf-8"})
	case r < 80:
		ops = append(ops, Op{Op: "set", K: "Content-Type", V: "image/png"})
	case r < 85:
		ops = append(ops, Op{Op: "set", K: "Content-Type", V: "TEXT/PLAIN"})
	case r < 90:
		ops = append(ops, Op{Op: "add", K: "Content-Type", V: "image/png"}, Op{Op: "add", K: "Content-Type", V: "text/plain"})
	}
	if rng.Intn(2) == 0 {
		ops = append(ops, Op{Op: "set", K: "X-A", V: pick(rng, "a", "b b", "1")})
	}
	if rng.Intn(5) == 0 {
		ops = append(ops, Op{Op: "add", K: "X-B", V: "one"}, Op{Op: "add", K: "X-B", V: "two"})
	}
	if rng.Intn(8) == 0 {
		ops = append(ops, Op{Op: "set", K: "X-C", V: "gone"}, Op{Op: "del", K: "X-C"})
	}
	if c.Ph3.Kind == "header" && rng.Intn(10) < 6 || rng.Intn(12) == 0 {
		ops = append(ops, Op{Op: "set", K: "X-Leak", V: pick(rng, "1", "1", "0")})
	}
	if rng.Intn(12) == 0 {
		ops = append(ops, Op{Op: "set", K: "Content-Length", V: fmt.Sprint(len(respBody))})
	}
	// request body
	reqLen := len(c.BodyHex) / 2
	switch r := rng.Intn(100); {
	case r < 35:
	case r < 75:
		ops = append(ops, Op{Op: "rdall"})
	case r < 90:
		ops = append(ops, Op{Op: "rd", N: pick(rng, 0, 1, c.ReqLimit, c.ReqLimit+1, reqLen/2, reqLen+5)}, Op{Op: "rdall"})
	default:
		ops = append(ops, Op{Op: "rd", N: pick(rng, 1, c.ReqLimit, reqLen/2+1)})
	}
	if rng.Intn(20) == 0 {
		ops = append(ops, Op{Op: "fl"})
	}
	// status
	switch r := rng.Intn(100); {
	case r < 60:
		ops = append(ops, Op{Op: "wh", C: pick(rng, 200, 200, 201, 204, 304, 404, 404, 500, 302, 418)})
	case r < 64:
		// informational first
		ops = append(ops, Op{Op: "wh", C: pick(rng, 103, 102)})
		if rng.Intn(10) < 6 {
			ops = append(ops, Op{Op: "wh", C: pick(rng, 404, 200, 500)}) // F28b shape
		}
	}
	if rng.Intn(25) == 0 {
		ops = append(ops, Op{Op: "set", K: "X-Late", V: "1"}) // late header (after the status, if any)
	}
	// body
	chunks := chunkUp(rng, respBody)
	i := 0
	for i < len(chunks) {
		if rng.Intn(5) == 0 {
			k := 1 + rng.Intn(3)
			if i+k > len(chunks) {
				k = len(chunks) - i
			}
			op := Op{Op: "rf"}
			for _, ch := range chunks[i : i+k] {
				op.Chunks = append(op.Chunks, hex.EncodeToString(ch))
			}
			ops = append(ops, op)
			i += k
		} else {
			ops = append(ops, Op{Op: "w", Hex: hex.EncodeToString(chunks[i])})
			i++
		}
		if rng.Intn(10) < 3 {
			ops = append(ops, Op{Op: "fl"})
		}
		if rng.Intn(30) == 0 {
			ops = append(ops, Op{Op: "wh", C: pick(rng, 500, 200)}) // superfluous
		}
	}
	if rng.Intn(15) == 0 {
		ops = append(ops, Op{Op: "fl"})
	}
	if c.Mode == "recorder" && rng.Intn(12) == 0 {
		ops = append(ops, Op{Op: "rdall"}) // reading after writing: only without a real connection
	}
	return ops
}

func genCase(rng *rand.Rand, cfg vh.Config, i int) *Case {
	c := &Case{}
	c.Mode = "server"
	if rng.Intn(100) < 35 {
		c.Mode = "recorder"
	}
	switch r := rng.Intn(100); {
	case r < 86:
		c.Engine = "On"
	case r < 96:
		c.Engine = "DetectionOnly"
	default:
		c.Engine = "Off"
	}
	c.ReqAccess = rng.Intn(100) < 78
	c.ReqLimit = pick(rng, 1, 2, 3, 4, 5, 8, 8, 16, 16, 3, 5, 8, 2, 4, 64)
	if rng.Intn(60) == 0 {
		c.ReqLimit = 1000
	}
	c.ReqAction = pick(rng, "Reject", "ProcessPartial")
	if rng.Intn(4) == 0 {
		c.ReqMem = 1 + rng.Intn(c.ReqLimit)
	}
	c.RespAccess = rng.Intn(100) < 75
	c.RespLimit = pick(rng, 1, 2, 3, 5, 8, 8, 16, 16, 3, 5, 8, 2, 4, 64)
	if rng.Intn(60) == 0 {
		c.RespLimit = 1000
	}
	c.RespAction = pick(rng, "Reject", "ProcessPartial")
	c.Mimes = []string{"text/plain"}
	if rng.Intn(4) == 0 {
		c.Mimes = []string{"application/json", "text/plain"}
	}
	// rules: usually at most two phases carry one
	c.Ph1, c.Ph2, c.Ph3, c.Ph4 = Spec{Kind: "none"}, Spec{Kind: "none"}, Spec{Kind: "none"}, Spec{Kind: "none"}
	for k := 0; k < 2; k++ {
		ph := 1 + rng.Intn(4)
		if ph == 1 && rng.Intn(2) == 0 {
			ph = 3 + rng.Intn(2) // request-phase blocks are cheap to cover; favour the response side
		}
		s := genSpec(rng, ph, c)
		switch ph {
		case 1:
			c.Ph1 = s
		case 2:
			c.Ph2 = s
		case 3:
			c.Ph3 = s
		case 4:
			c.Ph4 = s
		}
	}
	// a ctl rule in one of the phases 1-3 changes the body settings of the running transaction
	ctlPhase := 0
	if rng.Intn(100) < 22 {
		ctlPhase = pick(rng, 1, 2, 3, 3, 3)
		k := &CtlSpec{Kind: "always"}
		switch ctlPhase {
		case 1:
			if rng.Intn(3) == 0 {
				k.Kind, k.K, k.V = "header", "X-Attack", "1"
			}
			if rng.Intn(3) == 0 {
				k.QAcc = pick(rng, "on", "off")
			}
			if rng.Intn(3) == 0 {
				k.QLim = 1 + rng.Intn(c.ReqLimit)
			}
		case 3:
			switch rng.Intn(4) {
			case 0:
				k.Kind, k.K, k.V = "header", "X-Leak", "1"
			case 1:
				k.Kind, k.Code = "status", pick(rng, 200, 404, 201)
			}
		}
		k.RAcc = pick(rng, "", "on", "on", "off")
		k.Force = pick(rng, "", "on", "on", "off")
		if rng.Intn(3) == 0 {
			k.RLim = 1 + rng.Intn(c.RespLimit)
		}
		switch ctlPhase {
		case 1:
			c.Ctl1 = k
		case 2:
			c.Ctl2 = k
		default:
			c.Ctl3 = k
		}
		if rng.Intn(2) == 0 {
			c.Ph4 = Spec{Kind: pick(rng, "txflag", "txflag", "always"), Action: "deny", Status: pick(rng, 403, 0, 401)}
		}
	}
	// request
	c.Method = pick(rng, "POST", "POST", "POST", "PUT", "GET")
	c.Chunked = rng.Intn(3) == 0
	if c.Mode == "recorder" {
		c.LenBody = rng.Intn(3) == 0
	} else {
		c.Hijacker = rng.Intn(3) == 0
	}
	c.WithOpts = rng.Intn(2) == 0
	// net/http's own writer is an io.ReaderFrom: usually keep that visible through the recorder
	if c.Mode == "server" {
		c.DownRF = rng.Intn(3) != 0
	} else {
		c.DownRF = rng.Intn(3) == 0
	}
	if c.Ph1.Kind == "header" && rng.Intn(10) < 6 || rng.Intn(15) == 0 || c.Ctl1 != nil && c.Ctl1.Kind == "header" && rng.Intn(10) < 7 {
		c.ReqHeaders = append(c.ReqHeaders, []string{"X-Attack", pick(rng, "1", "1", "0")})
	}
	if rng.Intn(6) == 0 {
		c.ReqHeaders = append(c.ReqHeaders, []string{"X-Other", "v"})
	}
	reqLen := sizeAround(rng, c.ReqLimit)
	if reqLen > 2200 {
		reqLen = 1000 + rng.Intn(1200)
	}
	if c.Method == "GET" {
		reqLen = 0
	}
	where := 0
	if c.Ph2.Kind == "contains" {
		where = pick(rng, 0, 1, 1, 2, 3, 4, 4)
		if reqLen < len(reqMarker) {
			reqLen = len(reqMarker) + rng.Intn(c.ReqLimit+3)
		}
		c.ReqCT = "application/x-www-form-urlencoded"
		if c.Method == "GET" {
			c.Method = "POST"
		}
	} else {
		c.ReqCT = pick(rng, "application/x-www-form-urlencoded", "application/json", "application/octet-stream", "text/plain", "multipart/form-data; boundary=zz", "")
	}
	c.BodyHex = hex.EncodeToString(bodyAround(rng, reqLen, c.ReqLimit, reqMarker, where))
	// delivery in several short reads (a spilled buffer must keep every piece)
	if reqLen > 1 && rng.Intn(3) == 0 && !c.LenBody {
		for k := 1 + rng.Intn(4); k > 0; k-- {
			c.Pieces = append(c.Pieces, 1+rng.Intn(reqLen))
		}
		if c.Mode == "server" {
			c.Chunked = true // pieces only survive the wire as chunks
		}
		if c.ReqMem == 0 && rng.Intn(2) == 0 {
			c.ReqMem = 1 + rng.Intn(c.ReqLimit)
		}
	}
	// response
	respLen := sizeAround(rng, c.RespLimit)
	if respLen > 2200 {
		respLen = 1000 + rng.Intn(1200)
	}
	rwhere := 0
	if c.Ph4.Kind == "contains" {
		rwhere = pick(rng, 0, 1, 1, 2, 3, 4, 4)
		if respLen < len(respMarker) {
			respLen = len(respMarker) + rng.Intn(c.RespLimit+3)
		}
	}
	respBody := bodyAround(rng, respLen, c.RespLimit, respMarker, rwhere)
	c.Ops = genOps(rng, c, respBody)
	// a few large exchanges: buffer spill to a file, bufio and io.Copy chunk boundaries
	if cfg.Thorough() && i%4000 == 17 {
		big := 33000 + rng.Intn(3000)
		c.Mode = "server"
		c.LenBody = false
		c.Engine = "On"
		c.ReqAccess, c.ReqLimit, c.ReqMem, c.ReqAction = true, 20000, 4096, "ProcessPartial"
		c.RespAccess, c.RespLimit, c.RespAction = true, 40000, "ProcessPartial"
		c.Ph1, c.Ph2, c.Ph3, c.Ph4 = Spec{Kind: "none"}, Spec{Kind: "none"}, Spec{Kind: "none"}, Spec{Kind: "none"}
		c.Method, c.ReqCT = "POST", "application/octet-stream"
		rb := filler(rng, 20000+rng.Intn(3))
		c.BodyHex = hex.EncodeToString(rb)
		body := filler(rng, big)
		c.Ops = []Op{{Op: "set", K: "Content-Type", V: "text/plain"}, {Op: "rdall"},
			{Op: "w", Hex: hex.EncodeToString(body[:5000])}, {Op: "fl"}, {Op: "w", Hex: hex.EncodeToString(body[5000:])}}
	}
	return c
}

// gridCases: the boundary grid that every run covers deterministically.
func gridCases(cfg vh.Config) []*Case {
	var out []*Case
	none := Spec{Kind: "none"}
	base := func() *Case {
		return &Case{Mode: "server", Engine: "On", ReqAccess: true, ReqLimit: 3, ReqAction: "Reject",
			RespAccess: true, RespLimit: 3, RespAction: "Reject", Mimes: []string{"text/plain"},
			Ph1: none, Ph2: none, Ph3: none, Ph4: none, Method: "POST", ReqCT: "application/octet-stream"}
	}
	abc := []byte("abcdefghijklmnopqrstuvwxyz")
	limits := []int{1, 3}
	if cfg.Thorough() {
		limits = []int{1, 2, 3, 5}
	}
	// request side: sizes around the limit x action x access x known/unknown length x mode
	for _, lim := range limits {
		for _, n := range []int{0, lim - 1, lim, lim + 1, 2*lim + 1} {
			if n < 0 {
				continue
			}
			for _, act := range []string{"Reject", "ProcessPartial"} {
				for _, access := range []bool{true, false} {
					for _, chunked := range []bool{false, true} {
						for _, mode := range []string{"server", "recorder"} {
							c := base()
							c.Mode, c.ReqLimit, c.ReqAction, c.ReqAccess, c.Chunked = mode, lim, act, access, chunked
							c.BodyHex = hex.EncodeToString(abc[:n])
							c.Ops = []Op{{Op: "rdall"}, {Op: "set", K: "X-A", V: "a"}, {Op: "wh", C: 201}, {Op: "w", Hex: hex.EncodeToString([]byte("ok"))}}
							c.RespAccess = false
							out = append(out, c)
						}
					}
				}
			}
		}
	}
	// response side: every composition of totals around the limit, with and without flushes,
	// explicit and implicit status, processable or not, both limit actions, both writers
	for _, lim := range limits {
		for _, n := range []int{0, lim - 1, lim, lim + 1, lim + 2} {
			if n < 0 || n > 5 {
				continue
			}
			for _, comp := range compositions(n) {
				for _, act := range []string{"Reject", "ProcessPartial"} {
					for _, ct := range []string{"text/plain", "image/png"} {
						for fl := 0; fl < 2; fl++ {
							for explicit := 0; explicit < 2; explicit++ {
								mode := "server"
								if (len(out)+fl+explicit)%3 == 0 {
									mode = "recorder"
								}
								c := base()
								c.Mode, c.RespLimit, c.RespAction = mode, lim, act
								c.ReqAccess = false
								c.Ops = []Op{{Op: "set", K: "Content-Type", V: ct}, {Op: "set", K: "X-A", V: "a"}}
								if explicit == 1 {
									c.Ops = append(c.Ops, Op{Op: "wh", C: 201})
								}
								off := 0
								for _, k := range comp {
									c.Ops = append(c.Ops, Op{Op: "w", Hex: hex.EncodeToString(abc[off : off+k])})
									off += k
									if fl == 1 {
										c.Ops = append(c.Ops, Op{Op: "fl"})
									}
								}
								out = append(out, c)
							}
						}
					}
				}
			}
		}
	}
	// deny in each phase with 403 / 401 / default status, against a handler that writes in two chunks
	for ph := 1; ph <= 4; ph++ {
		for _, st := range []int{403, 401, 0} {
			for _, mode := range []string{"server", "recorder"} {
				for _, ct := range []string{"text/plain", "image/png"} {
					for explicit := 0; explicit < 2; explicit++ {
						c := base()
						c.Mode = mode
						c.ReqLimit, c.RespLimit = 100, 100
						s := Spec{Kind: "always", Action: "deny", Status: st}
						switch ph {
						case 1:
							c.Ph1 = s
						case 2:
							c.Ph2 = s
						case 3:
							c.Ph3 = s
						case 4:
							c.Ph4 = s
						}
						c.BodyHex = hex.EncodeToString([]byte("a=1"))
						c.Ops = []Op{{Op: "rdall"}, {Op: "set", K: "Content-Type", V: ct}, {Op: "set", K: "X-A", V: "a"}}
						if explicit == 1 {
							c.Ops = append(c.Ops, Op{Op: "wh", C: 200})
						}
						c.Ops = append(c.Ops, Op{Op: "w", Hex: hex.EncodeToString([]byte("hel"))}, Op{Op: "fl"}, Op{Op: "w", Hex: hex.EncodeToString([]byte("lo"))})
						out = append(out, c)
					}
				}
			}
		}
	}
	return out
}

func compositions(n int) [][]int {
	if n == 0 {
		return [][]int{{}}
	}
	var out [][]int
	for first := 1; first <= n; first++ {
		for _, rest := range compositions(n - first) {
			out = append(out, append([]int{first}, rest...))
		}
	}
	return out
}

// memGridCases: SecRequestBodyInMemoryLimit {unset, 1, small, limit-1, limit} x body sizes around the
// in-memory limit AND the body limit x delivery in 1..k short reads x known/unknown length x real
// server / recorder x handlers that read all / part / none of the body.
func memGridCases(cfg vh.Config) []*Case {
	var out []*Case
	none := Spec{Kind: "none"}
	limits := []int{16}
	if cfg.Thorough() {
		limits = []int{8, 16, 40}
	}
	body := []byte("0123456789abcdefghijklmnopqrstuvwxyzABCDEFGHIJKLMNOPQRSTUVWXYZ0123456789abcdefghijklmnopqrstuvwxyz")
	k := 0
	for _, lim := range limits {
		for _, mem := range []int{0, 1, lim / 2, lim - 1, lim} {
			sizes := map[int]bool{lim - 1: true, lim: true, lim + 1: true, 2*lim + 3: true}
			if mem > 0 {
				for _, n := range []int{mem, mem + 1, mem + 5} {
					sizes[n] = true
				}
			}
			var ns []int
			for n := range sizes {
				ns = append(ns, n)
			}
			sort.Ints(ns)
			for _, n := range ns {
				if n < 2 || n > len(body) {
					continue
				}
				patterns := [][]int{
					{1},                // one byte, then the rest
					{n / 2},            // halves
					{3, 3, 3, 3, 3, 3}, // small pieces, rest in one
					{n - 1},            // all but the last byte
					{mem + 1, 1, 2},    // first piece crosses the in-memory limit, small ones follow
				}
				for pi, pat := range patterns {
					k++
					c := &Case{Engine: "On", ReqAccess: true, ReqLimit: lim, ReqMem: mem,
						RespAccess: false, RespLimit: 100, RespAction: "Reject", Mimes: []string{"text/plain"},
						Ph1: none, Ph2: none, Ph3: none, Ph4: none, Method: "POST", ReqCT: "application/octet-stream"}
					c.ReqAction = "ProcessPartial"
					if n < lim && k%2 == 0 {
						c.ReqAction = "Reject"
					}
					switch (k + pi) % 3 {
					case 0:
						c.Mode, c.Chunked = "server", true
					case 1:
						c.Mode, c.Chunked = "recorder", false
					default:
						c.Mode, c.Chunked = "recorder", true
					}
					c.Pieces = pat
					c.BodyHex = hex.EncodeToString(body[:n])
					switch k % 4 {
					case 0, 1:
						c.Ops = []Op{{Op: "rdall"}}
					case 2:
						c.Ops = []Op{{Op: "rd", N: mem + 2}, {Op: "rdall"}}
					default:
						c.Ops = []Op{{Op: "rd", N: n - 1}}
					}
					if k%7 == 0 {
						c.Ops = nil
					}
					c.Ops = append(c.Ops, Op{Op: "w", Hex: hex.EncodeToString([]byte("ok"))})
					out = append(out, c)
				}
			}
		}
	}
	return out
}

// readFromGridCases: io.Copy(w, src-without-WriteTo) as the handler's first output / after WriteHeader /
// after a Write, over a real server whose writer is an io.ReaderFrom (and, for contrast, one that is
// not) x deny in phase 3 and 4 (unconditional, on a response header, on the body) x response body
// access x MIME match.
func readFromGridCases(cfg vh.Config) []*Case {
	var out []*Case
	none := Spec{Kind: "none"}
	hx := func(s string) string { return hex.EncodeToString([]byte(s)) }
	rules := []struct {
		ph int
		s  Spec
	}{
		{0, none},
		{3, Spec{Kind: "always", Action: "deny", Status: 403}},
		{3, Spec{Kind: "header", K: "X-Leak", V: "1", Action: "deny", Status: 401}},
		{4, Spec{Kind: "always", Action: "deny"}},
		{4, Spec{Kind: "contains", Marker: hx(respMarker), Action: "deny", Status: 403}},
	}
	for shape := 0; shape < 3; shape++ {
		for _, rl := range rules {
			for _, access := range []bool{true, false} {
				for _, ct := range []string{"text/plain", "image/png"} {
					for _, down := range []bool{true, false} {
						for _, mode := range []string{"server", "recorder"} {
							if mode == "recorder" && (!down || !cfg.Thorough() && shape != 0) {
								continue
							}
							c := &Case{Mode: mode, Engine: "On", ReqAccess: false, ReqLimit: 100, ReqAction: "Reject",
								RespAccess: access, RespLimit: 100, RespAction: "Reject", Mimes: []string{"text/plain"},
								Ph1: none, Ph2: none, Ph3: none, Ph4: none, Method: "POST", ReqCT: "text/plain",
								BodyHex: hx("q"), DownRF: down}
							switch rl.ph {
							case 3:
								c.Ph3 = rl.s
							case 4:
								c.Ph4 = rl.s
							}
							c.Ops = []Op{{Op: "set", K: "Content-Type", V: ct}, {Op: "set", K: "X-Leak", V: "1"}}
							rf := Op{Op: "rf", Chunks: []string{hx("top "), hx(respMarker), hx(" tail")}}
							switch shape {
							case 0: // first output of the handler
								c.Ops = append(c.Ops, rf)
							case 1: // after an explicit status
								c.Ops = append(c.Ops, Op{Op: "wh", C: 201}, rf)
							default: // after a Write
								c.Ops = append(c.Ops, Op{Op: "w", Hex: hx("head ")}, rf, Op{Op: "fl"})
							}
							out = append(out, c)
						}
					}
				}
			}
		}
	}
	return out
}

// ctlGridCases: a rule of phase 1, 2 or 3 changes by ctl whether the response body is buffered
// (responseBodyAccess, forceResponseBodyVariable, responseBodyLimit) under static settings that would
// or would not buffer (SecResponseBodyAccess, Content-Type vs SecResponseBodyMimeType), with a phase-4
// deny that is unconditional, on RESPONSE_BODY, or on the TX variable the ctl rule set.
func ctlGridCases(cfg vh.Config) []*Case {
	var out []*Case
	none := Spec{Kind: "none"}
	hx := func(s string) string { return hex.EncodeToString([]byte(s)) }
	effects := []CtlSpec{
		{RAcc: "on"}, {Force: "on"}, {RAcc: "on", Force: "on"}, {RAcc: "off"}, {RAcc: "on", Force: "on", RLim: 6}, {Force: "off", RLim: 3},
	}
	ph4s := []Spec{
		{Kind: "always", Action: "deny", Status: 403},
		{Kind: "contains", Marker: hx(respMarker), Action: "deny"},
		{Kind: "txflag", Action: "deny", Status: 401},
	}
	n := 0
	for _, access := range []bool{false, true} {
		for _, ct := range []string{"text/plain", "image/png"} {
			for phase := 1; phase <= 3; phase++ {
				for _, eff := range effects {
					for _, p4 := range ph4s {
						n++
						c := &Case{Mode: "server", Engine: "On", ReqAccess: true, ReqLimit: 100, ReqAction: "Reject",
							RespAccess: access, RespLimit: 100, RespAction: pick2(n, "Reject", "ProcessPartial"), Mimes: []string{"text/plain"},
							Ph1: none, Ph2: none, Ph3: none, Ph4: p4, Method: "POST", ReqCT: "application/x-www-form-urlencoded",
							BodyHex: hx("a=1"), DownRF: n%3 != 0}
						if n%5 == 0 {
							c.Mode, c.DownRF = "recorder", false
						}
						if !cfg.Thorough() && n%2 == 0 && phase != 3 {
							continue // the quick tier keeps every phase-3 case and half of the others
						}
						k := eff
						k.Kind = "always"
						if phase == 3 && n%4 == 0 {
							k.Kind, k.K, k.V = "header", "X-Leak", "1"
						}
						switch phase {
						case 1:
							c.Ctl1 = &k
						case 2:
							c.Ctl2 = &k
						default:
							c.Ctl3 = &k
						}
						c.Ops = []Op{{Op: "rdall"}, {Op: "set", K: "Content-Type", V: ct}, {Op: "set", K: "X-Leak", V: "1"}}
						if n%3 == 1 {
							c.Ops = append(c.Ops, Op{Op: "wh", C: 201})
						}
						c.Ops = append(c.Ops, Op{Op: "w", Hex: hx("top ")}, Op{Op: "fl"}, Op{Op: "w", Hex: hx(respMarker)},
							Op{Op: "rf", Chunks: []string{hx(" ta"), hx("il")}}, Op{Op: "fl"})
						out = append(out, c)
					}
				}
			}
		}
	}
	return out
}

func pick2(n int, a, b string) string {
	if n%2 == 0 {
		return a
	}
	return b
}
