(* MemoProofs.v — proofs about the model of the process-wide pattern cache (Memo.v), property C13.

   Generic part (any request/artefact/error types, key function, builder, type assertion):
     transparent            faithful keys => after ANY history, a construction obtains exactly what
                            the no-cache build obtains (same artefacts, same error, no panic)
     history_transparent    the same for every construction inside a history
     release_safe           an entry a WAF owns survives (with its value and the ownership) every
                            later event that is not the Close of that WAF
     construct_owns         a construction owns, afterwards, every artefact it obtained
     wf_run / no_deleted    reachable caches have distinct keys, no entry marked deleted, no entry
                            without owners
     no_leak                every owner of every entry is an active (built, not closed) WAF;
                            no active WAF => empty cache
   Concrete part (the call sites of the code):
     ckeys_faithful         the keys of the code are faithful (tags prefix-free, Join injective on
                            what the code joins, hash collision-free on the schemas in play)
     C13 refutations        untagged keys (F04), name-only data-set keys (F05), name+NUL keys (F44) *)
From Coq Require Import String.
From Coq Require Import List NArith Bool Lia.
From Coq Require Import ZifyN ZifyBool ZifyNat.
From Verif Require Import Base Utf8 Transform CaseMap CaseMapProofs Memo.
Import ListNotations.
Open Scope N_scope.

(* ---- owner sets ---- *)
Lemma memo_mem_In x l : memo_mem x l = true <-> In x l.
Proof.
  unfold memo_mem. rewrite existsb_exists. split.
  - intros (y & Hy & E). apply N.eqb_eq in E. subst. exact Hy.
  - intro H. exists x. split; [exact H | apply N.eqb_refl].
Qed.

Lemma set_add_In x l : In x (memo_set_add x l).
Proof.
  unfold memo_set_add. destruct (memo_mem x l) eqn:E.
  - apply memo_mem_In. exact E.
  - left. reflexivity.
Qed.

Lemma set_add_incl x l y : In y l -> In y (memo_set_add x l).
Proof. unfold memo_set_add. destruct (memo_mem x l); intro H; [exact H | right; exact H]. Qed.

Lemma set_add_inv x l y : In y (memo_set_add x l) -> y = x \/ In y l.
Proof.
  unfold memo_set_add. destruct (memo_mem x l); intro H; [right; exact H|].
  destruct H as [H|H]; [left; congruence | right; exact H].
Qed.

Lemma set_add_nonempty x l : memo_set_add x l <> [].
Proof. intro H. pose proof (set_add_In x l) as I. rewrite H in I. exact I. Qed.

Lemma set_remove_In x l y : In y (memo_set_remove x l) <-> In y l /\ y <> x.
Proof.
  unfold memo_set_remove. rewrite filter_In. split; intros [H1 H2]; split; try exact H1.
  - intro E. subst. rewrite N.eqb_refl in H2. discriminate.
  - apply negb_true_iff. apply N.eqb_neq. congruence.
Qed.

Section GenericProofs.
  Variables (req art err : Type).
  Variable key_of : req -> bytes.
  Variable build : req -> result art err.
  Variable expect : req -> art -> bool.

  Notation cache := (Memo.cache art).
  Notation entry := (Memo.entry art).
  Notation load := (Memo.load art).
  Notation delete := (Memo.delete art).
  Notation store := (Memo.store art).
  Notation add_owner := (Memo.add_owner art).
  Notation try_hit := (Memo.try_hit art).
  Notation memo_do := (Memo.memo_do art err).
  Notation release := (Memo.release art).
  Notation construct := (Memo.construct req art err key_of build expect).
  Notation construct_nocache := (Memo.construct_nocache req art err build expect).
  Notation step := (Memo.step req art err key_of build expect).
  Notation run_from := (Memo.run_from req art err key_of build expect).
  Notation run := (Memo.run req art err key_of build expect).
  Notation pstate := (Memo.pstate art).
  Notation event := (Memo.event req).
  Notation outcome := (Memo.outcome art err).

  Definition keys (c : cache) : list bytes := map fst c.

  (* ---- the map operations ---- *)
  Lemma load_In (c : cache) k e : load c k = Some e -> In (k, e) c.
  Proof.
    induction c as [|[k' e'] r IH]; cbn; [discriminate|].
    destruct (bytes_eqb k' k) eqn:E.
    - apply bytes_eqb_eq in E. subst. intros [= ->]. left. reflexivity.
    - intro H. right. auto.
  Qed.

  Lemma In_load (c : cache) k e : NoDup (keys c) -> In (k, e) c -> load c k = Some e.
  Proof.
    induction c as [|[k' e'] r IH]; cbn; intros ND H; [contradiction|].
    inversion ND as [|? ? Hn ND']; subst.
    destruct H as [H|H].
    - inversion H; subst. rewrite bytes_eqb_refl. reflexivity.
    - destruct (bytes_eqb k' k) eqn:E.
      + apply bytes_eqb_eq in E. subst. exfalso. apply Hn. apply (in_map fst) in H. exact H.
      + auto.
  Qed.

  Lemma In_delete (c : cache) k p : In p (delete c k) -> In p c /\ fst p <> k.
  Proof.
    induction c as [|[k' e'] r IH]; cbn; [contradiction|].
    destruct (bytes_eqb k' k) eqn:E.
    - intro H. destruct (IH H). split; [right|]; assumption.
    - intros [H|H].
      + subst p. split; [left; reflexivity|]. cbn. apply bytes_eqb_neq. exact E.
      + destruct (IH H). split; [right|]; assumption.
  Qed.

  Lemma load_delete_same (c : cache) k : load (delete c k) k = None.
  Proof.
    induction c as [|[k' e'] r IH]; cbn; [reflexivity|].
    destruct (bytes_eqb k' k) eqn:E; [exact IH|]. cbn. rewrite E. exact IH.
  Qed.

  Lemma load_delete_other (c : cache) k k' : k <> k' -> load (delete c k) k' = load c k'.
  Proof.
    intro N. induction c as [|[k0 e0] r IH]; cbn; [reflexivity|].
    destruct (bytes_eqb k0 k) eqn:E.
    - apply bytes_eqb_eq in E. subst k0.
      apply bytes_eqb_neq in N. rewrite N. exact IH.
    - cbn. destruct (bytes_eqb k0 k'); [reflexivity | exact IH].
  Qed.

  Lemma load_store_same (c : cache) k e : load (store c k e) k = Some e.
  Proof. unfold Memo.store. cbn. rewrite bytes_eqb_refl. reflexivity. Qed.

  Lemma load_store_other (c : cache) k e k' : k <> k' -> load (store c k e) k' = load c k'.
  Proof.
    intro N. unfold Memo.store. cbn. pose proof N as N'. apply bytes_eqb_neq in N'. rewrite N'.
    apply load_delete_other. exact N.
  Qed.

  Lemma NoDup_delete (c : cache) k : NoDup (keys c) -> NoDup (keys (delete c k)).
  Proof.
    induction c as [|[k' e'] r IH]; cbn; intro ND; [constructor|].
    inversion ND as [|? ? Hn ND']; subst.
    destruct (bytes_eqb k' k); [auto|]. cbn. constructor; [|auto].
    intro H. apply Hn. unfold keys in H. apply in_map_iff in H as (p & Hp & Hin).
    apply In_delete in Hin as [Hin _]. apply in_map_iff. exists p. split; assumption.
  Qed.

  Lemma NoDup_store (c : cache) k e : NoDup (keys c) -> NoDup (keys (store c k e)).
  Proof.
    intro ND. unfold Memo.store. cbn. constructor; [|apply NoDup_delete; exact ND].
    intro H. unfold keys in H. apply in_map_iff in H as (p & Hp & Hin).
    apply In_delete in Hin as [_ Hne]. congruence.
  Qed.

  Lemma try_hit_spec (c : cache) id k c' v :
    try_hit c id k = Some (c', v) ->
    exists e, load c k = Some e /\ e_deleted e = false /\ v = e_val e /\
              c' = store c k (mk_entry (e_val e) (memo_set_add id (e_owners e)) false).
  Proof.
    unfold Memo.try_hit, Memo.add_owner. destruct (load c k) as [e|]; [|discriminate].
    destruct (e_deleted e) eqn:D; [discriminate|]. intros [= <- <-]. exists e. auto.
  Qed.

  Lemma try_hit_none (c : cache) id k :
    try_hit c id k = None -> load c k = None \/ exists e, load c k = Some e /\ e_deleted e = true.
  Proof.
    unfold Memo.try_hit, Memo.add_owner. destruct (load c k) as [e|]; [|auto].
    destruct (e_deleted e) eqn:D; [|discriminate]. intros _. right. exists e. auto.
  Qed.

  Lemma add_owner_spec id (e e' : entry) :
    add_owner id e = Some e' ->
    e_deleted e = false /\ e' = mk_entry (e_val e) (memo_set_add id (e_owners e)) false.
  Proof. unfold Memo.add_owner. destruct (e_deleted e); [discriminate|]. intros [= <-]. auto. Qed.

  (* every way Do can end: the cache is the old one, or the old one with the entry at k replaced
     (once or twice); this lemma exposes the shape once and for all *)
  Inductive do_shape (c : cache) (id : N) (k : bytes) (fn : unit -> result art err) : cache * result art err -> Prop :=
  | DoHit e : load c k = Some e -> e_deleted e = false ->
      do_shape c id k fn (store c k (mk_entry (e_val e) (memo_set_add id (e_owners e)) false), Ok (e_val e))
  | DoMissOk v : try_hit c id k = None -> fn tt = Ok v ->
      do_shape c id k fn
        (store (store c k (mk_entry v [id] false)) k (mk_entry v (memo_set_add id [id]) false), Ok v)
  | DoMissErr x : try_hit c id k = None -> fn tt = Err x -> do_shape c id k fn (c, Err x).

  Lemma memo_do_shape (c : cache) id k fn : do_shape c id k fn (memo_do c id k fn).
  Proof.
    unfold Memo.memo_do. destruct (try_hit c id k) as [[c' v]|] eqn:H.
    - apply try_hit_spec in H as (e & Hl & Hd & -> & ->). apply DoHit; assumption.
    - destruct (fn tt) as [v|x] eqn:F.
      + rewrite load_store_same. cbn. apply DoMissOk; assumption.
      + apply DoMissErr; assumption.
  Qed.

  (* ================================================================================ *)
  (* transparency                                                                      *)
  (* ================================================================================ *)
  Section Transparency.
    Variable U : req -> Prop.     (* the requests in play *)

    (* equal keys => equal builder outputs (same type, same content, same error) *)
    Definition faithful_on : Prop :=
      forall r1 r2, U r1 -> U r2 -> key_of r1 = key_of r2 -> build r1 = build r2.

    (* the invariant: every entry's value = the builder's output for its key *)
    Definition good_entry (p : bytes * entry) : Prop :=
      exists r, U r /\ key_of r = fst p /\ build r = Ok (e_val (snd p)).
    Definition inv_val (c : cache) : Prop := Forall good_entry c.

    Definition hist_in (h : list event) : Prop :=
      Forall (fun ev => match ev with EBuild _ rs => Forall U rs | EClose _ => True end) h.

    Lemma inv_delete c k : inv_val c -> inv_val (delete c k).
    Proof.
      unfold inv_val. rewrite !Forall_forall. intros H p Hp. apply In_delete in Hp as [Hp _]. auto.
    Qed.

    Lemma inv_store c k e : inv_val c -> good_entry (k, e) -> inv_val (store c k e).
    Proof. intros H G. unfold Memo.store. constructor; [exact G | apply inv_delete; exact H]. Qed.

    Lemma inv_release c id : inv_val c -> inv_val (release c id).
    Proof.
      induction c as [|[k e] r IH]; cbn; intro H; [constructor|].
      inversion H as [|? ? G H']; subst.
      destruct (memo_set_remove id (e_owners e)); [apply IH; exact H'|].
      constructor; [|apply IH; exact H']. destruct G as (q & Uq & Kq & Bq). exists q. auto.
    Qed.

    Lemma inv_load c k e : inv_val c -> load c k = Some e -> good_entry (k, e).
    Proof.
      intros H L. apply load_In in L. unfold inv_val in H. rewrite Forall_forall in H. auto.
    Qed.

    Lemma memo_do_transparent : faithful_on -> forall c id r, inv_val c -> U r ->
      snd (memo_do c id (key_of r) (fun _ => build r)) = build r /\
      inv_val (fst (memo_do c id (key_of r) (fun _ => build r))).
    Proof.
      intros F c id r I Ur.
      destruct (memo_do_shape c id (key_of r) (fun _ => build r)) as [e L D | v H B | x H B]; cbn [fst snd].
      - destruct (inv_load _ _ _ I L) as (q & Uq & Kq & Bq). cbn [fst snd] in *.
        split.
        + rewrite <- Bq. apply F; assumption.
        + apply inv_store; [exact I|]. exists q. auto.
      - split; [symmetry; exact B|].
        apply inv_store; [apply inv_store; [exact I|] |]; exists r; auto.
      - split; [symmetry; exact B | exact I].
    Qed.

    Lemma construct_transparent : faithful_on -> forall rs c id, inv_val c -> Forall U rs ->
      snd (construct c id rs) = construct_nocache rs /\ inv_val (fst (construct c id rs)).
    Proof.
      intro F. induction rs as [|r rs IH]; intros c id I Urs; cbn [Memo.construct Memo.construct_nocache].
      - split; [reflexivity | exact I].
      - inversion Urs as [|? ? Ur Urs']; subst.
        destruct (memo_do_transparent F c id r I Ur) as [Hres Hinv].
        destruct (memo_do c id (key_of r) (fun _ => build r)) as [c1 res]. cbn [fst snd] in *.
        subst res. destruct (build r) as [a|x].
        + destruct (expect r a).
          * destruct (IH c1 id Hinv Urs') as [H1 H2].
            destruct (construct c1 id rs) as [c2 o]. cbn [fst snd] in *. subst o. split; [reflexivity | exact H2].
          * split; [reflexivity | exact Hinv].
        + split; [reflexivity | exact Hinv].
    Qed.

    Lemma step_inv : faithful_on -> forall (s : pstate) ev,
      inv_val (ps_cache s) ->
      match ev with EBuild _ rs => Forall U rs | EClose _ => True end ->
      inv_val (ps_cache (step s ev)).
    Proof.
      intros F s [id rs | id] I H; cbn [Memo.step].
      - cbn [ps_cache]. apply (construct_transparent F rs); assumption.
      - destruct (memo_mem id (ps_closed s)); [exact I|]. cbn [ps_cache]. apply inv_release. exact I.
    Qed.

    Lemma run_from_inv : faithful_on -> forall h (s : pstate),
      inv_val (ps_cache s) -> hist_in h -> inv_val (ps_cache (run_from s h)).
    Proof.
      intro F. induction h as [|ev h IH]; intros s I H; cbn; [exact I|].
      inversion H; subst. apply IH; [|assumption]. apply step_inv; assumption.
    Qed.

    (* C13, generic form: whatever other WAFs did before (any constructions, any closures, in any
       order, succeeding or failing), a construction ends exactly as the build with the cache
       compiled out: same artefacts, same error if any, and a panic only if the no-cache build
       panics as well *)
    Theorem transparent : faithful_on -> forall h id rs,
      hist_in h -> Forall U rs ->
      snd (construct (ps_cache (run h)) id rs) = construct_nocache rs.
    Proof.
      intros F h id rs H Urs. apply construct_transparent; [exact F| |exact Urs].
      apply run_from_inv; [exact F | constructor | exact H].
    Qed.

    (* the outcomes of all constructions of a history, in order *)
    Fixpoint outcomes_from (s : pstate) (h : list event) : list outcome :=
      match h with
      | [] => []
      | ev :: r =>
          match ev with
          | EBuild id rs => snd (construct (ps_cache s) id rs) :: outcomes_from (step s ev) r
          | EClose _ => outcomes_from (step s ev) r
          end
      end.
    Fixpoint outcomes_nocache (h : list event) : list outcome :=
      match h with
      | [] => []
      | EBuild _ rs :: r => construct_nocache rs :: outcomes_nocache r
      | EClose _ :: r => outcomes_nocache r
      end.

    Lemma outcomes_from_transparent : faithful_on -> forall h (s : pstate),
      inv_val (ps_cache s) -> hist_in h -> outcomes_from s h = outcomes_nocache h.
    Proof.
      intro F. induction h as [|ev h IH]; intros s I H; [reflexivity|].
      inversion H as [|? ? Hev Hh]; subst. cbn [outcomes_from outcomes_nocache].
      destruct ev as [id rs | id].
      - f_equal.
        + apply construct_transparent; assumption.
        + apply IH; [|exact Hh]. apply step_inv; assumption.
      - apply IH; [|exact Hh]. apply step_inv; assumption.
    Qed.

    Theorem history_transparent : faithful_on -> forall h,
      hist_in h -> outcomes_from (mk_ps [] []) h = outcomes_nocache h.
    Proof. intros F h H. apply outcomes_from_transparent; [exact F | constructor | exact H]. Qed.
  End Transparency.

  (* ================================================================================ *)
  (* ownership: Release never takes away what a live WAF owns                          *)
  (* ================================================================================ *)
  Definition wf_entry (p : bytes * entry) : Prop := e_deleted (snd p) = false /\ e_owners (snd p) <> [].
  Definition wf_cache (c : cache) : Prop := NoDup (keys c) /\ Forall wf_entry c.

  (* WAF w is registered on the live entry of key k, whose value is v *)
  Definition owns (c : cache) (w : N) (k : bytes) (v : art) : Prop :=
    exists e, load c k = Some e /\ e_val e = v /\ In w (e_owners e) /\ e_deleted e = false.

  Lemma wf_store c k e : wf_cache c -> e_deleted e = false -> e_owners e <> [] -> wf_cache (store c k e).
  Proof.
    intros [ND FA] D O. split; [apply NoDup_store; exact ND|].
    unfold Memo.store. constructor; [split; assumption|].
    rewrite Forall_forall in *. intros p Hp. apply In_delete in Hp as [Hp _]. auto.
  Qed.

  Lemma memo_do_wf c id k fn : wf_cache c -> wf_cache (fst (memo_do c id k fn)).
  Proof.
    intro W. destruct (memo_do_shape c id k fn) as [e L D | v H B | x H B]; cbn [fst].
    - apply wf_store; [exact W | reflexivity | apply set_add_nonempty].
    - apply wf_store; [apply wf_store; [exact W | reflexivity | discriminate] | reflexivity | apply set_add_nonempty].
    - exact W.
  Qed.

  Lemma In_release (c : cache) id k e' :
    In (k, e') (release c id) <->
    exists e, In (k, e) c /\ memo_set_remove id (e_owners e) <> [] /\
              e' = mk_entry (e_val e) (memo_set_remove id (e_owners e)) (e_deleted e).
  Proof.
    induction c as [|[k0 e0] r IH]; cbn.
    - split; [contradiction | intros (e & [] & _)].
    - destruct (memo_set_remove id (e_owners e0)) as [|o ow] eqn:R.
      + rewrite IH. split; intros (e & Hin & Hne & He).
        * exists e. split; [right; exact Hin | auto].
        * destruct Hin as [Hin|Hin]; [|exists e; auto].
          inversion Hin; subst. rewrite R in Hne. contradiction.
      + cbn. rewrite IH. split.
        * intros [H|(e & Hin & Hne & He)].
          -- inversion H; subst. exists e0. rewrite R. split; [left; reflexivity|]. split; [discriminate | reflexivity].
          -- exists e. split; [right; exact Hin | auto].
        * intros (e & [Hin|Hin] & Hne & He).
          -- inversion Hin; subst. left. rewrite R. reflexivity.
          -- right. exists e. auto.
  Qed.

  Lemma keys_release_incl (c : cache) id k : In k (keys (release c id)) -> In k (keys c).
  Proof.
    unfold keys. rewrite !in_map_iff. intros ([k' e'] & Hk & Hin). cbn in Hk. subst k'.
    apply In_release in Hin as (e & Hin & _). exists (k, e). auto.
  Qed.

  Lemma NoDup_release (c : cache) id : NoDup (keys c) -> NoDup (keys (release c id)).
  Proof.
    induction c as [|[k e] r IH]; cbn; intro ND; [constructor|].
    inversion ND as [|? ? Hn ND']; subst.
    destruct (memo_set_remove id (e_owners e)); [auto|]. cbn. constructor; [|auto].
    intro H. apply Hn. apply keys_release_incl in H. exact H.
  Qed.

  Lemma release_wf c id : wf_cache c -> wf_cache (release c id).
  Proof.
    intros [ND FA]. split; [apply NoDup_release; exact ND|].
    rewrite Forall_forall in *. intros [k e'] Hin. apply In_release in Hin as (e & Hin & Hne & ->).
    destruct (FA _ Hin) as [D _]. split; cbn; assumption.
  Qed.

  Lemma construct_wf rs : forall c id, wf_cache c -> wf_cache (fst (construct c id rs)).
  Proof.
    induction rs as [|r rs IH]; intros c id W; cbn [Memo.construct]; [exact W|].
    pose proof (memo_do_wf c id (key_of r) (fun _ => build r) W) as W1.
    destruct (memo_do c id (key_of r) (fun _ => build r)) as [c1 res]. cbn [fst] in W1.
    destruct res as [a|x]; [|exact W1].
    destruct (expect r a); [|exact W1].
    specialize (IH c1 id W1). destruct (construct c1 id rs) as [c2 o]. exact IH.
  Qed.

  Lemma step_wf (s : pstate) ev : wf_cache (ps_cache s) -> wf_cache (ps_cache (step s ev)).
  Proof.
    destruct ev as [id rs | id]; cbn [Memo.step]; intro W.
    - cbn [ps_cache]. apply construct_wf. exact W.
    - destruct (memo_mem id (ps_closed s)); [exact W|]. cbn [ps_cache]. apply release_wf. exact W.
  Qed.

  Lemma run_from_wf h : forall (s : pstate), wf_cache (ps_cache s) -> wf_cache (ps_cache (run_from s h)).
  Proof. induction h as [|ev h IH]; intros s W; cbn; [exact W|]. apply IH. apply step_wf. exact W. Qed.

  (* reachable caches: distinct keys, no entry marked deleted (the "deleted" branches of Do are
     dead in sequential histories), no entry without owners *)
  Theorem wf_run h : wf_cache (ps_cache (run h)).
  Proof. apply run_from_wf. split; constructor. Qed.

  Corollary no_deleted h k e : load (ps_cache (run h)) k = Some e -> e_deleted e = false /\ e_owners e <> [].
  Proof.
    intro L. apply load_In in L. destruct (wf_run h) as [_ FA]. rewrite Forall_forall in FA.
    exact (FA _ L).
  Qed.

  (* Do never takes an ownership away *)
  Lemma memo_do_owns_preserved c id k' fn w k v :
    owns c w k v -> owns (fst (memo_do c id k' fn)) w k v.
  Proof.
    intros (e & L & V & O & D).
    assert (Hstore : forall c0 e0 e1, load c0 k' = Some e0 -> e_deleted e0 = false ->
               e1 = mk_entry (e_val e0) (memo_set_add id (e_owners e0)) false ->
               owns c0 w k v -> owns (store c0 k' e1) w k v).
    { intros c0 e0 e1 L0 D0 -> (e2 & L2 & V2 & O2 & D2).
      destruct (bytes_eqb k' k) eqn:E.
      - apply bytes_eqb_eq in E. subst k'. rewrite L0 in L2. inversion L2; subst e2.
        eexists. split; [apply load_store_same|]. cbn. split; [exact V2|]. split; [apply set_add_incl; exact O2 | reflexivity].
      - apply bytes_eqb_neq in E. exists e2. rewrite load_store_other by exact E. auto. }
    destruct (memo_do_shape c id k' fn) as [e0 L0 D0 | v0 H B | x H B]; cbn [fst].
    - eapply Hstore; eauto. exists e; auto.
    - (* a miss: k' is not a live key, hence k' <> k *)
      assert (N : k' <> k).
      { intro E. subst k'. apply try_hit_none in H as [H|(e1 & H & D1)]; rewrite L in H; [discriminate|].
        inversion H; subst e1. congruence. }
      exists e. rewrite !load_store_other by exact N. auto.
    - exists e; auto.
  Qed.

  (* after a successful Do, the caller is registered on the entry holding the value it got *)
  Lemma memo_do_owns_new c id k fn v :
    snd (memo_do c id k fn) = Ok v -> owns (fst (memo_do c id k fn)) id k v.
  Proof.
    destruct (memo_do_shape c id k fn) as [e0 L0 D0 | v0 H B | x H B]; cbn [fst snd]; intro R.
    - inversion R; subst v. eexists. split; [apply load_store_same|]. cbn.
      split; [reflexivity|]. split; [apply set_add_In | reflexivity].
    - inversion R; subst v. eexists. split; [apply load_store_same|]. cbn.
      split; [reflexivity|]. split; [apply set_add_In | reflexivity].
    - discriminate.
  Qed.

  Lemma construct_owns_preserved rs : forall c id w k v,
    owns c w k v -> owns (fst (construct c id rs)) w k v.
  Proof.
    induction rs as [|r rs IH]; intros c id w k v O; cbn [Memo.construct]; [exact O|].
    pose proof (memo_do_owns_preserved c id (key_of r) (fun _ => build r) w k v O) as O1.
    destruct (memo_do c id (key_of r) (fun _ => build r)) as [c1 res]. cbn [fst] in O1.
    destruct res as [a|x]; [|exact O1].
    destruct (expect r a); [|exact O1].
    specialize (IH c1 id w k v O1). destruct (construct c1 id rs) as [c2 o]. exact IH.
  Qed.

  (* a construction owns, when it ends (built, failed or panicked), every artefact it obtained,
     under the key of the call that obtained it *)
  Lemma construct_owns rs : forall c id,
    Forall2 (fun r a => owns (fst (construct c id rs)) id (key_of r) a)
            (firstn (length (outcome_arts art err (snd (construct c id rs)))) rs)
            (outcome_arts art err (snd (construct c id rs))).
  Proof.
    induction rs as [|r rs IH]; intros c id; cbn [Memo.construct]; [constructor|].
    pose proof (memo_do_owns_new c id (key_of r) (fun _ => build r)) as New.
    destruct (memo_do c id (key_of r) (fun _ => build r)) as [c1 res]. cbn [fst snd] in New.
    destruct res as [a|x]; [|constructor].
    destruct (expect r a); [|constructor].
    specialize (IH c1 id).
    pose proof (construct_owns_preserved rs c1 id id (key_of r) a (New a eq_refl)) as Keep.
    destruct (construct c1 id rs) as [c2 o]. cbn [fst snd] in *.
    assert (E : outcome_arts art err (cons_art art err a o) = a :: outcome_arts art err o) by (destruct o; reflexivity).
    rewrite E. cbn [length firstn]. constructor; assumption.
  Qed.

  Lemma release_owns_preserved c id w k v :
    wf_cache c -> id <> w -> owns c w k v -> owns (release c id) w k v.
  Proof.
    intros [ND FA] N (e & L & V & O & D).
    exists (mk_entry (e_val e) (memo_set_remove id (e_owners e)) (e_deleted e)).
    assert (I : In w (memo_set_remove id (e_owners e))) by (apply set_remove_In; split; congruence).
    split.
    - apply In_load; [apply NoDup_release; exact ND|]. apply In_release. exists e.
      split; [apply load_In; exact L|]. split; [|reflexivity]. intro Z. rewrite Z in I. exact I.
    - cbn. auto.
  Qed.

  Definition not_close_of (w : N) (ev : event) : Prop :=
    match ev with EClose id => id <> w | EBuild _ _ => True end.

  (* C13_release_safe, generic form: whatever happens afterwards — constructions by any WAF,
     closures of any OTHER WAFs — an entry that WAF w owns stays in the cache, with the same
     value, still owned by w *)
  Theorem release_safe h : forall (s : pstate) w k v,
    wf_cache (ps_cache s) -> owns (ps_cache s) w k v ->
    Forall (not_close_of w) h ->
    owns (ps_cache (run_from s h)) w k v.
  Proof.
    induction h as [|ev h IH]; intros s w k v W O H; cbn; [exact O|].
    inversion H as [|? ? Hev Hh]; subst.
    apply IH; [apply step_wf; exact W | | exact Hh].
    destruct ev as [id rs | id]; cbn [Memo.step].
    - cbn [ps_cache]. apply construct_owns_preserved. exact O.
    - destruct (memo_mem id (ps_closed s)); [exact O|]. cbn [ps_cache].
      apply release_owns_preserved; [exact W | exact Hev | exact O].
  Qed.

  (* ================================================================================ *)
  (* no leak: owners are active WAFs                                                   *)
  (* ================================================================================ *)
  Definition owners_in (L : list N) (c : cache) : Prop :=
    Forall (fun p : bytes * entry => incl (e_owners (snd p)) L) c.

  Fixpoint active_from (act closed : list N) (h : list event) : list N :=
    match h with
    | [] => act
    | EBuild id _ :: r => active_from (memo_set_add id act) closed r
    | EClose id :: r =>
        if memo_mem id closed then active_from act closed r
        else active_from (memo_set_remove id act) (id :: closed) r
    end.
  (* the WAFs that ran a memoizer call and whose (first) Close has not run since *)
  Definition active (h : list event) : list N := active_from [] [] h.

  Lemma owners_in_store L c k e : owners_in L c -> incl (e_owners e) L -> owners_in L (store c k e).
  Proof.
    intros H I. unfold Memo.store. constructor; [exact I|].
    unfold owners_in in *. rewrite Forall_forall in *. intros p Hp. apply In_delete in Hp as [Hp _]. auto.
  Qed.

  Lemma owners_in_mono L L' c : incl L L' -> owners_in L c -> owners_in L' c.
  Proof.
    intros I H. unfold owners_in in *. rewrite Forall_forall in *. intros p Hp q Hq. apply I. exact (H p Hp q Hq).
  Qed.

  Lemma memo_do_owners_in L c id k fn : In id L -> owners_in L c -> owners_in L (fst (memo_do c id k fn)).
  Proof.
    intros I H.
    assert (A : forall l, incl l L -> incl (memo_set_add id l) L).
    { intros l Hl q Hq. apply set_add_inv in Hq as [->|Hq]; [exact I | exact (Hl q Hq)]. }
    destruct (memo_do_shape c id k fn) as [e0 L0 D0 | v0 M B | x M B]; cbn [fst].
    - apply owners_in_store; [exact H|]. cbn. apply A.
      apply load_In in L0. unfold owners_in in H. rewrite Forall_forall in H. exact (H _ L0).
    - apply owners_in_store; [apply owners_in_store; [exact H|]|]; cbn.
      + intros q [<-|[]]. exact I.
      + apply A. intros q [<-|[]]. exact I.
    - exact H.
  Qed.

  Lemma construct_owners_in L rs : forall c id, In id L -> owners_in L c -> owners_in L (fst (construct c id rs)).
  Proof.
    induction rs as [|r rs IH]; intros c id I H; cbn [Memo.construct]; [exact H|].
    pose proof (memo_do_owners_in L c id (key_of r) (fun _ => build r) I H) as H1.
    destruct (memo_do c id (key_of r) (fun _ => build r)) as [c1 res]. cbn [fst] in H1.
    destruct res as [a|x]; [|exact H1].
    destruct (expect r a); [|exact H1].
    specialize (IH c1 id I H1). destruct (construct c1 id rs) as [c2 o]. exact IH.
  Qed.

  Lemma release_owners_in L c id : owners_in L c -> owners_in (memo_set_remove id L) (release c id).
  Proof.
    intro H. unfold owners_in in *. rewrite Forall_forall in *. intros [k e'] Hin.
    apply In_release in Hin as (e & Hin & _ & ->). cbn. intros q Hq.
    apply set_remove_In in Hq as [Hq Hn]. apply set_remove_In. split; [|exact Hn].
    exact (H _ Hin q Hq).
  Qed.

  Lemma run_from_owners_in h : forall (s : pstate) act,
    owners_in act (ps_cache s) ->
    owners_in (active_from act (ps_closed s) h) (ps_cache (run_from s h)).
  Proof.
    induction h as [|ev h IH]; intros s act H; cbn [Memo.run_from fold_left active_from]; [exact H|].
    destruct ev as [id rs | id]; cbn [Memo.step].
    - apply (IH (mk_ps (fst (construct (ps_cache s) id rs)) (ps_closed s))). cbn [ps_cache].
      apply construct_owners_in; [apply set_add_In|].
      eapply owners_in_mono; [|exact H]. intros q Hq. apply set_add_incl. exact Hq.
    - destruct (memo_mem id (ps_closed s)) eqn:C.
      + apply IH. exact H.
      + apply (IH (mk_ps (release (ps_cache s) id) (id :: ps_closed s))). cbn [ps_cache].
        apply release_owners_in. exact H.
  Qed.

  (* every owner of every entry is an active WAF; when no WAF is active the cache is empty *)
  Theorem no_leak h : owners_in (active h) (ps_cache (run h)).
  Proof. apply (run_from_owners_in h (mk_ps [] []) []). constructor. Qed.

  Corollary no_leak_empty h : active h = [] -> ps_cache (run h) = [].
  Proof.
    intro A. pose proof (no_leak h) as H. rewrite A in H. destruct (wf_run h) as [_ FA].
    destruct (ps_cache (run h)) as [|p c]; [reflexivity|]. exfalso.
    inversion H as [|? ? Hp _]; subst. inversion FA as [|? ? [_ Wp] _]; subst.
    destruct (e_owners (snd p)) as [|o ow]; [congruence|]. exact (Hp o (or_introl eq_refl)).
  Qed.
End GenericProofs.

(* ==================================================================================== *)
(* the call sites of the code                                                            *)
(* ==================================================================================== *)

Lemma kind_eqb_eq a b : kind_eqb a b = true <-> a = b.
Proof. destruct a, b; cbn; split; intro H; try reflexivity; try discriminate. Qed.

Lemma In_all_kinds k : In k all_kinds.
Proof. destruct k; cbn; tauto. Qed.

Lemma app_eq_prefix (a b x y : bytes) : a ++ x = b ++ y -> is_prefix a b = true \/ is_prefix b a = true.
Proof.
  revert b. induction a as [|c a IH]; intros [|d b] H; cbn; auto.
  cbn in H. inversion H; subst. rewrite N.eqb_refl. cbn. apply IH. assumption.
Qed.

Lemma tags_distinct tags : tags_prefix_free tags = true ->
  forall k1 k2 p1 p2, tags k1 ++ p1 = tags k2 ++ p2 -> k1 = k2.
Proof.
  unfold tags_prefix_free. intros PF k1 k2 p1 p2 H.
  rewrite forallb_forall in PF.
  assert (Q : forall a b, kind_eqb a b || negb (is_prefix (tags a) (tags b)) = true).
  { intros a b. specialize (PF a (In_all_kinds a)). rewrite forallb_forall in PF. apply PF. apply In_all_kinds. }
  destruct (app_eq_prefix _ _ _ _ H) as [P|P].
  - specialize (Q k1 k2). rewrite P in Q. cbn in Q. rewrite orb_false_r in Q. apply kind_eqb_eq. exact Q.
  - specialize (Q k2 k1). rewrite P in Q. cbn in Q. rewrite orb_false_r in Q. symmetry. apply kind_eqb_eq. exact Q.
Qed.

(* ---- strings.Join is injective on lists of non-empty, newline-free entries ---- *)
Lemma wf_line_spec l : wf_line l = true -> ~ In 10 l /\ l <> [].
Proof.
  unfold wf_line. intro H. apply andb_true_iff in H as [H1 H2]. split.
  - intro I. apply memo_mem_In in I. rewrite I in H1. discriminate.
  - destruct l; [discriminate | discriminate].
Qed.

Definition tail_shape (t : bytes) : Prop := t = [] \/ exists r, t = 10 :: r.

Lemma split_first (a : bytes) : forall b t1 t2,
  ~ In 10 a -> ~ In 10 b -> tail_shape t1 -> tail_shape t2 -> a ++ t1 = b ++ t2 -> a = b /\ t1 = t2.
Proof.
  induction a as [|x a IH]; intros [|y b] t1 t2 Na Nb S1 S2 H; cbn in H.
  - auto.
  - exfalso. destruct S1 as [->|(r & ->)]; [discriminate|]. inversion H; subst. apply Nb. left. reflexivity.
  - exfalso. destruct S2 as [->|(r & ->)]; [discriminate|]. inversion H; subst. apply Na. left. reflexivity.
  - inversion H; subst. destruct (IH b t1 t2) as [E1 E2]; try assumption.
    + intro I. apply Na. right. exact I.
    + intro I. apply Nb. right. exact I.
    + subst. auto.
Qed.

Definition join_tail (r : list bytes) : bytes :=
  match r with [] => [] | _ :: _ => 10 :: memo_join 10 r end.

Lemma join_cons a r : memo_join 10 (a :: r) = a ++ join_tail r.
Proof. destruct r; cbn; [rewrite app_nil_r|]; reflexivity. Qed.

Lemma join_tail_shape r : tail_shape (join_tail r).
Proof. destruct r; [left; reflexivity | right; eexists; reflexivity]. Qed.

Lemma join_inj l1 : forall l2,
  forallb wf_line l1 = true -> forallb wf_line l2 = true ->
  memo_join 10 l1 = memo_join 10 l2 -> l1 = l2.
Proof.
  induction l1 as [|a r1 IH]; intros [|b r2] W1 W2 H.
  - reflexivity.
  - exfalso. rewrite join_cons in H. cbn [forallb] in W2. apply andb_true_iff in W2 as [Wb _].
    apply wf_line_spec in Wb as [_ Nb]. cbn [memo_join] in H. symmetry in H. apply app_eq_nil in H as [H _]. contradiction.
  - exfalso. rewrite join_cons in H. cbn [forallb] in W1. apply andb_true_iff in W1 as [Wa _].
    apply wf_line_spec in Wa as [_ Na]. cbn [memo_join] in H. apply app_eq_nil in H as [H _]. contradiction.
  - rewrite !join_cons in H. cbn [forallb] in W1, W2.
    apply andb_true_iff in W1 as [Wa W1]. apply andb_true_iff in W2 as [Wb W2].
    apply wf_line_spec in Wa as [Na _]. apply wf_line_spec in Wb as [Nb _].
    destruct (split_first a b _ _ Na Nb (join_tail_shape r1) (join_tail_shape r2) H) as [-> T].
    f_equal. destruct r1 as [|c1 r1'], r2 as [|c2 r2']; cbn [join_tail] in T; try discriminate; [reflexivity|].
    inversion T as [T']. apply IH; assumption.
Qed.

Section ConcreteProofs.
  Variable tags : kind -> bytes.
  Variable lower : bytes -> bytes.     (* strings.ToLower: ANY function here *)
  Variable hash : bytes -> bytes.
  Variables re_ok binre_ok schema_ok : bytes -> bool.

  Notation key := (ckey_of tags lower hash).
  Notation bld := (cbuild lower re_ok binre_ok schema_ok).

  (* the type assertion of a call site accepts what its own builder returns: without a cache
     nothing panics *)
  Lemma own_build_expected r a : bld r = Ok a -> cexpect r a = true.
  Proof.
    destruct r; cbn [cbuild cexpect];
      repeat match goal with |- context [if ?b then _ else _] => destruct b end;
      intro H; inversion H; reflexivity.
  Qed.

  Lemma nocache_never_panics rs : forall l, cconstruct_nocache lower re_ok binre_ok schema_ok rs <> Panicked l.
  Proof.
    unfold cconstruct_nocache. induction rs as [|r rs IH]; intros l; cbn [construct_nocache]; [discriminate|].
    destruct (bld r) as [a|x] eqn:B; [|discriminate].
    rewrite (own_build_expected r a B).
    destruct (construct_nocache creq cart cerr bld cexpect rs) eqn:E; cbn; try discriminate.
    exfalso. exact (IH _ eq_refl).
  Qed.

  (* the keys of the code are faithful: equal keys => equal builder outputs *)
  Theorem ckeys_faithful (U : creq -> Prop) :
    tags_prefix_free tags = true ->
    (forall r, U r -> wf_creq lower r = true) ->
    (forall a b, U (RSchema a) -> U (RSchema b) -> hash a = hash b -> a = b) ->
    faithful_on creq cart cerr key bld U.
  Proof.
    intros PF WF HI r1 r2 U1 U2 H. unfold ckey_of in H.
    pose proof (tags_distinct tags PF _ _ _ _ H) as K.
    rewrite K in H. apply app_inv_head in H.
    pose proof (WF r1 U1) as W1. pose proof (WF r2 U2) as W2.
    destruct r1, r2; cbn in K; try discriminate; cbn [payload] in H; cbn [cbuild].
    - rewrite H. reflexivity.
    - cbn in W1, W2. rewrite (join_inj _ _ W1 W2 H). reflexivity.
    - cbn in W1, W2. rewrite (join_inj _ _ W1 W2 H). reflexivity.
    - destruct pf, pf0; cbn in H; inversion H; subst; reflexivity.
    - subst. reflexivity.
    - subst. reflexivity.
    - rewrite H. reflexivity.
    - rewrite <- H. reflexivity.
    - rewrite H. reflexivity.
    - rewrite (HI _ _ U1 U2 H). reflexivity.
  Qed.

  (* ---- lower-casing call sites: the key is the lower-cased text, and so is the builder's input.
     Two phrase lists / line lists / regex keys share a cache entry EXACTLY when their lower-cased
     forms are equal, and then they compile to the same object: sharing is sound also for pairs that
     collide only after lower-casing (U+212A / k, U+0130 / i, an invalid byte / U+FFFD) ---- *)
  Theorem pm_key_iff a b : key (RPm a) = key (RPm b) <-> lower a = lower b.
  Proof.
    unfold ckey_of. cbn [kind_of payload]. split; intro H.
    - apply app_inv_head in H. exact H.
    - rewrite H. reflexivity.
  Qed.

  Theorem pm_collision_same_object a b :
    lower a = lower b -> key (RPm a) = key (RPm b) /\ bld (RPm a) = bld (RPm b).
  Proof. intro H. split; [apply pm_key_iff; exact H | cbn [cbuild]; rewrite H; reflexivity]. Qed.

  Theorem pmf_key_iff l1 l2 :
    forallb wf_line (map lower l1) = true -> forallb wf_line (map lower l2) = true ->
    (key (RPmF l1) = key (RPmF l2) <-> map lower l1 = map lower l2).
  Proof.
    intros W1 W2. unfold ckey_of. cbn [kind_of payload]. split; intro H.
    - apply app_inv_head in H. apply join_inj; assumption.
    - rewrite H. reflexivity.
  Qed.

  Theorem pmf_collision_same_object l1 l2 :
    map lower l1 = map lower l2 -> key (RPmF l1) = key (RPmF l2) /\ bld (RPmF l1) = bld (RPmF l2).
  Proof.
    intro H. split; [unfold ckey_of; cbn [kind_of payload]; rewrite H; reflexivity | cbn [cbuild]; rewrite H; reflexivity].
  Qed.

  Theorem rel_key_iff s1 s2 a b : key (RReL s1 a) = key (RReL s2 b) <-> lower a = lower b.
  Proof.
    unfold ckey_of. cbn [kind_of payload]. split; intro H.
    - apply app_inv_head in H. exact H.
    - rewrite H. reflexivity.
  Qed.

  Theorem rel_collision_same_object s1 s2 a b :
    lower a = lower b -> key (RReL s1 a) = key (RReL s2 b) /\ bld (RReL s1 a) = bld (RReL s2 b).
  Proof. intro H. split; [apply rel_key_iff; exact H | cbn [cbuild]; rewrite H; reflexivity]. Qed.

  Theorem lowercase_collision_same_object :
    (forall a b, lower a = lower b -> key (RPm a) = key (RPm b) /\ bld (RPm a) = bld (RPm b)) /\
    (forall l1 l2, map lower l1 = map lower l2 -> key (RPmF l1) = key (RPmF l2) /\ bld (RPmF l1) = bld (RPmF l2)) /\
    (forall s1 s2 a b, lower a = lower b -> key (RReL s1 a) = key (RReL s2 b) /\ bld (RReL s1 a) = bld (RReL s2 b)).
  Proof.
    split; [|split].
    - apply pm_collision_same_object.
    - apply pmf_collision_same_object.
    - apply rel_collision_same_object.
  Qed.
End ConcreteProofs.

(* the tags of the source are prefix-free *)
Lemma default_tags_prefix_free : tags_prefix_free default_tags = true.
Proof. vm_compute. reflexivity. Qed.

(* C13_transparent, concrete form *)
Theorem ctransparent tags lower hash re_ok binre_ok schema_ok (U : creq -> Prop) :
  tags_prefix_free tags = true ->
  (forall r, U r -> wf_creq lower r = true) ->
  (forall a b, U (RSchema a) -> U (RSchema b) -> hash a = hash b -> a = b) ->
  forall h id rs,
    hist_in creq U h -> Forall U rs ->
    snd (cconstruct tags lower hash re_ok binre_ok schema_ok (ps_cache (crun tags lower hash re_ok binre_ok schema_ok h)) id rs)
    = cconstruct_nocache lower re_ok binre_ok schema_ok rs.
Proof.
  intros PF WF HI h id rs H Urs. unfold cconstruct, crun, cconstruct_nocache.
  apply (transparent creq cart cerr _ _ _ U); [|exact H|exact Urs].
  apply ckeys_faithful; assumption.
Qed.

Corollary cnever_panics tags lower hash re_ok binre_ok schema_ok (U : creq -> Prop) :
  tags_prefix_free tags = true ->
  (forall r, U r -> wf_creq lower r = true) ->
  (forall a b, U (RSchema a) -> U (RSchema b) -> hash a = hash b -> a = b) ->
  forall h id rs l,
    hist_in creq U h -> Forall U rs ->
    snd (cconstruct tags lower hash re_ok binre_ok schema_ok (ps_cache (crun tags lower hash re_ok binre_ok schema_ok h)) id rs)
    <> Panicked l.
Proof.
  intros PF WF HI h id rs l H Urs. rewrite (ctransparent tags lower hash re_ok binre_ok schema_ok U PF WF HI h id rs H Urs).
  apply nocache_never_panics.
Qed.

(* ---- refutations: what the key shapes before the repairs allowed ---- *)
Definition all_ok (_ : bytes) : bool := true.
Definition id_hash (b : bytes) : bytes := b.

(* F04 (before efe1f8f): untagged keys.  ONE WAF with SecRule ARGS:/foo/ "@pm foo": the regex key
   "foo" and the phrase list "foo" share the cache key; the second call gets a *regexp.Regexp
   and its type assertion to AhoCorasick panics.  The no-cache build is fine. *)
Lemma untagged_keys_refuted :
  exists rs,
    snd (cconstruct untagged lower_ascii id_hash all_ok all_ok all_ok [] 1 rs) = Panicked [ARegexp (str "foo"%string)]
    /\ cconstruct_nocache lower_ascii all_ok all_ok all_ok rs = Built [ARegexp (str "foo"%string); AAho true [str "foo"]].
Proof. exists [RRe SRuleVar (str "foo"%string); RPm (str "foo"%string)]. split; vm_compute; reflexivity. Qed.

(* F05 (before 0162365): data sets keyed by NAME.  WAF 1 has SecDataset ds = [aaa], WAF 2 has
   SecDataset ds = [bbb]; WAF 2's @pmFromDataset ds gets WAF 1's matcher. *)
Definition key_name_only (r : creq) : bytes := default_tags (kind_of r) ++ payload_name_only lower_ascii id_hash r.
Lemma name_only_key_refuted :
  exists h id rs,
    snd (construct creq cart cerr key_name_only (cbuild lower_ascii all_ok all_ok all_ok) cexpect
           (ps_cache (run creq cart cerr key_name_only (cbuild lower_ascii all_ok all_ok all_ok) cexpect h)) id rs)
    <> cconstruct_nocache lower_ascii all_ok all_ok all_ok rs.
Proof.
  exists [EBuild 1 [RPmDs (str "ds"%string) [str "aaa"]]], 2, [RPmDs (str "ds"%string) [str "bbb"]].
  vm_compute. discriminate.
Qed.

(* F44 (0162365 .. 54cadaf): key = name + NUL + entries is ambiguous when a name contains NUL *)
Definition key_name_nul (r : creq) : bytes := default_tags (kind_of r) ++ payload_name_nul lower_ascii id_hash r.
Lemma name_nul_key_refuted :
  exists h id rs,
    Forall (fun r => wf_creq lower_ascii r = true) rs /\
    snd (construct creq cart cerr key_name_nul (cbuild lower_ascii all_ok all_ok all_ok) cexpect
           (ps_cache (run creq cart cerr key_name_nul (cbuild lower_ascii all_ok all_ok all_ok) cexpect h)) id rs)
    <> cconstruct_nocache lower_ascii all_ok all_ok all_ok rs.
Proof.
  exists [EBuild 1 [RPmDs [97; 0; 98] [[99]]]], 2, [RPmDs [97] [[98; 0; 99]]].
  split; [repeat constructor|]. vm_compute. discriminate.
Qed.

(* non-vacuity of the faithful-keys theorem: a finite universe with two schemas *)
Example ckeys_faithful_instance :
  let U := fun r => In r [RPm (str "Foo bar"%string); RRe SRuleVar (str "foo"%string); RRx true (str "foo"%string);
                          RPmDs (str "ds"%string) [str "aaa"]; RPmDs (str "ds"%string) [str "bbb"];
                          RSchema (str "{}"%string); RSchema (str "{""a"":1}"%string)] in
  faithful_on creq cart cerr (ckey_of default_tags lower_ascii id_hash) (cbuild lower_ascii all_ok all_ok all_ok) U.
Proof.
  intro U. apply ckeys_faithful.
  - exact default_tags_prefix_free.
  - intros r H. cbn in H. repeat (destruct H as [<-|H]; [reflexivity|]). contradiction.
  - intros a b _ _ H. exact H.
Qed.

(* ---- C13_release_safe in one statement ---- *)
Section ReleaseSafeFull.
  Variables (req art err : Type).
  Variable key_of : req -> bytes.
  Variable build : req -> result art err.
  Variable expect : req -> art -> bool.

  (* after ANY history h1, WAF w runs its memoizer calls rs (ending in any way), then ANY history
     h2 follows in which w is not closed (other WAFs are built and closed at will): every
     artefact w obtained is still cached under its key, unchanged, with w among the owners *)
  Theorem release_safe_full : forall (h1 : list (event req)) w rs (h2 : list (event req)),
    Forall (not_close_of req w) h2 ->
    let s1 := run req art err key_of build expect h1 in
    let co := construct req art err key_of build expect (ps_cache s1) w rs in
    let final := run_from req art err key_of build expect (mk_ps (fst co) (ps_closed s1)) h2 in
    Forall2 (fun r a => owns art (ps_cache final) w (key_of r) a)
            (firstn (List.length (outcome_arts art err (snd co))) rs) (outcome_arts art err (snd co)).
  Proof.
    intros h1 w rs h2 H s1 co final.
    pose proof (construct_owns req art err key_of build expect rs (ps_cache s1) w) as O.
    fold co in O.
    assert (W : wf_cache art (fst co)).
    { apply construct_wf. apply wf_run. }
    revert O. generalize (firstn (List.length (outcome_arts art err (snd co))) rs) (outcome_arts art err (snd co)).
    intros la lb O. induction O as [|r a la' lb' Hra O IH]; constructor; [|exact IH].
    apply (release_safe req art err key_of build expect h2 (mk_ps (fst co) (ps_closed s1))); assumption.
  Qed.
End ReleaseSafeFull.

(* ==================================================================================== *)
(* strings.ToLower (CaseMap.utf8_map over a case table) and the well-formedness of lines   *)
(* ==================================================================================== *)
Ltac Zify.zify_post_hook ::= Z.div_mod_to_equations.

(* ---- the real strings.ToLower keeps a kept line kept: non-empty and newline-free ---- *)
Definition tbl_above (n : N) (tbl : list case_range) : bool :=
  forallb (fun x => match x with (lo, _, _, tg) => (n <? lo) && (n <? tg) end) tbl.

Lemma map_rune_above n tbl : tbl_above n tbl = true -> forall r, map_rune tbl r <= n -> r = map_rune tbl r.
Proof.
  induction tbl as [|[[[lo hi] st] tg] rest IH]; cbn [tbl_above forallb map_rune]; intros A r H; [reflexivity|].
  apply andb_true_iff in A as [A1 A2]. apply andb_true_iff in A1 as [L T].
  apply N.ltb_lt in L. apply N.ltb_lt in T.
  destruct (r <? lo) eqn:E1; [reflexivity|].
  destruct ((r <=? hi) && ((r - lo) mod st =? 0)) eqn:E2.
  - exfalso. lia.
  - apply IH; assumption.
Qed.

Lemma encode_rune_newline r : In 10 (encode_rune r) -> r = 10.
Proof.
  unfold encode_rune, in_rng, rune_error.
  destruct ((1114111 <? r) || ((55296 <=? r) && (r <=? 57343))) eqn:B.
  - vm_compute. intros [H|[H|[H|[]]]]; discriminate.
  - destruct (r <? 128) eqn:E1; [cbn [In]; intros [H|[]]; congruence|].
    destruct (r <? 2048) eqn:E2; [cbn [In]; intros [H|[H|[]]]; lia|].
    destruct (r <? 65536) eqn:E3; [cbn [In]; intros [H|[H|[H|[]]]]; lia|].
    cbn [In]. intros [H|[H|[H|[H|[]]]]]; lia.
Qed.

Lemma decode_rune_newline s : ~ In 10 s -> fst (decode_rune s) <> 10.
Proof.
  intro N. destruct s as [|b0 r]; [cbn; unfold rune_error; lia|].
  assert (N0 : b0 <> 10) by (intro E; apply N; left; congruence).
  unfold decode_rune, in_rng, rune_error.
  destruct (b0 <? 128) eqn:E0; [cbn; congruence|].
  destruct ((194 <=? b0) && (b0 <=? 223)) eqn:E1.
  { destruct r as [|b1 r]; [cbn [fst]; lia|].
    destruct ((128 <=? b1) && (b1 <=? 191)) eqn:F; cbn [fst]; lia. }
  destruct ((224 <=? b0) && (b0 <=? 239)) eqn:E2.
  { destruct r as [|b1 [|b2 r]]; try (cbn [fst]; lia).
    destruct (b0 =? 224) eqn:G1; destruct (b0 =? 237) eqn:G2;
    match goal with |- context [if ?c then _ else _] => destruct c eqn:F end; cbn [fst]; lia. }
  destruct ((240 <=? b0) && (b0 <=? 244)) eqn:E3.
  { destruct r as [|b1 [|b2 [|b3 r]]]; try (cbn [fst]; lia).
    destruct (b0 =? 240) eqn:G1; destruct (b0 =? 244) eqn:G2;
    match goal with |- context [if ?c then _ else _] => destruct c eqn:F end; cbn [fst]; lia. }
  cbn. lia.
Qed.

Lemma In_skipn_incl {A} (x : A) n l : In x (skipn n l) -> In x l.
Proof. revert l. induction n as [|n IH]; intros [|a l]; cbn; auto. Qed.

Lemma utf8_map_fuel_newline f : (forall r, f r = 10 -> r = 10) ->
  forall fuel s, ~ In 10 s -> ~ In 10 (utf8_map_fuel f fuel s).
Proof.
  intros Hf. induction fuel as [|k IH]; intros s N; cbn [utf8_map_fuel]; [intros []|].
  destruct s as [|b t]; [intros []|].
  pose proof (decode_rune_newline (b :: t) N) as D.
  destruct (decode_rune (b :: t)) as [r w]. cbn [fst] in D.
  intro I. apply in_app_or in I as [I|I].
  - apply encode_rune_newline in I. apply Hf in I. contradiction.
  - apply (IH (skipn w (b :: t))); [|exact I]. intro J. apply N. apply In_skipn_incl in J. exact J.
Qed.

Lemma utf8_map_nonempty f s : s <> [] -> utf8_map f s <> [].
Proof.
  destruct s as [|b t]; [congruence|]. intros _. unfold utf8_map. cbn [length utf8_map_fuel].
  destruct (decode_rune (b :: t)) as [r w].
  pose proof (encode_rune_len (f r)) as L. destruct (encode_rune (f r)); cbn in *; [lia | discriminate].
Qed.

Theorem lower_keeps_wf_line tbl l :
  tbl_above 10 tbl = true -> wf_line l = true -> wf_line (utf8_map (map_rune tbl) l) = true.
Proof.
  intros A W. apply wf_line_spec in W as [N NE]. unfold wf_line. apply andb_true_iff. split.
  - apply negb_true_iff. destruct (memo_mem 10 (utf8_map (map_rune tbl) l)) eqn:M; [|reflexivity].
    exfalso. apply memo_mem_In in M. revert M. apply utf8_map_fuel_newline; [|exact N].
    intros r H. rewrite (map_rune_above 10 tbl A r); [exact H | lia].
  - pose proof (utf8_map_nonempty (map_rune tbl) l NE) as Z. destruct (utf8_map (map_rune tbl) l); [congruence | reflexivity].
Qed.
