package c07

import (
	"encoding/hex"
	"fmt"
	"io"
	"os"
	"path/filepath"
	"sort"
	"strings"
	"time"

	coraza "github.com/corazawaf/coraza/v3"
	"github.com/corazawaf/coraza/v3/internal/actions"
	"github.com/corazawaf/coraza/v3/internal/operators"
	"github.com/corazawaf/coraza/v3/internal/seclang"
	"github.com/corazawaf/coraza/v3/internal/transformations"
	ivars "github.com/corazawaf/coraza/v3/internal/variables"
	"github.com/corazawaf/coraza/v3/types"
)

// tables read from the running code: EVERY directive / action / operator / transformation /
// variable the library registers is used by the generator
var tabDirectives, tabActions, tabOperators, tabTransformations, tabVariables []string

func (r *runner) loadTables() {
	tabDirectives = seclang.VerifC07DirectiveNames()
	tabActions = actions.VerifC07ActionNames()
	tabOperators = operators.VerifC07OperatorNames()
	tabTransformations = transformations.VerifC07TransformationNames()
	tabVariables = nil
	for n := range ivars.VerifC07VariableNames() {
		tabVariables = append(tabVariables, n)
	}
	sort.Strings(tabVariables)
}

// step is one API call of a transaction script.
type step struct {
	Op string `json:"op"`
	A  string `json:"a,omitempty"`
	B  string `json:"b,omitempty"`
	N  int    `json:"n,omitempty"`
}

// enc/dec keep arbitrary bytes intact in JSON
func enc(s string) string {
	ok := !strings.HasPrefix(s, "hex:")
	for i := 0; i < len(s) && ok; i++ {
		if (s[i] < 0x20 && s[i] != '\n' && s[i] != '\t') || s[i] >= 0x7f {
			ok = false
		}
	}
	if ok {
		return s
	}
	return "hex:" + hex.EncodeToString([]byte(s))
}
func dec(s string) string {
	if strings.HasPrefix(s, "hex:") {
		b, err := hex.DecodeString(s[4:])
		if err == nil {
			return string(b)
		}
	}
	return s
}

// ---------------------------------------------------------------------------------------
// running one configuration + script under recover() and a watchdog
// ---------------------------------------------------------------------------------------

type confResult struct {
	accepted bool
	panicked bool
	site     string
	msg      string
	stage    string
	steps    int
}

func execConf(directives string, script []step) (res confResult) {
	stage := "compile"
	var w coraza.WAF
	var err error
	p, site, msg := guard(func() {
		w, err = coraza.NewWAF(coraza.NewWAFConfig().WithDirectives(directives))
	})
	if p {
		return confResult{panicked: true, site: site, msg: msg, stage: stage}
	}
	if err != nil || w == nil {
		if os.Getenv("VERIF_C07_DEBUG") != "" && err != nil {
			e := err.Error()
			if i := strings.LastIndex(e, ": "); i >= 0 && len(e)-i < 80 {
				e = e[i+2:]
			}
			if len(e) > 70 {
				e = e[:70]
			}
			return confResult{msg: e}
		}
		return confResult{}
	}
	res.accepted = true
	defer func() {
		if c, ok := w.(interface{ Close() error }); ok {
			_, _, _ = guard(func() { _ = c.Close() })
		}
	}()
	var tx types.Transaction
	p, site, msg = guard(func() {
		stage = "NewTransaction"
		tx = w.NewTransaction()
		for i, s := range script {
			stage = fmt.Sprintf("step %d %s", i, s.Op)
			runStep(w, &tx, s)
			res.steps++
		}
	})
	if p {
		res.panicked, res.site, res.msg, res.stage = true, site, msg, stage
	}
	if tx != nil {
		p2, site2, msg2 := guard(func() { tx.ProcessLogging(); _ = tx.Close() })
		if p2 && !res.panicked {
			res.panicked, res.site, res.msg, res.stage = true, site2, msg2, "final logging/close"
		}
	}
	return res
}

func runStep(w coraza.WAF, txp *types.Transaction, s step) {
	tx := *txp
	a, b := dec(s.A), dec(s.B)
	switch s.Op {
	case "conn":
		tx.ProcessConnection(a, s.N, b, 80)
	case "uri":
		tx.ProcessURI(a, b, "HTTP/1.1")
	case "servername":
		tx.SetServerName(a)
	case "reqh":
		tx.AddRequestHeader(a, b)
	case "getarg":
		tx.AddGetRequestArgument(a, b)
	case "postarg":
		tx.AddPostRequestArgument(a, b)
	case "patharg":
		tx.AddPathRequestArgument(a, b)
	case "resarg":
		tx.AddResponseArgument(a, b)
	case "p1":
		tx.ProcessRequestHeaders()
	case "reqbody":
		_, _, _ = tx.WriteRequestBody([]byte(a))
	case "reqbodyfrom":
		_, _, _ = tx.ReadRequestBodyFrom(strings.NewReader(a))
	case "p2":
		_, _ = tx.ProcessRequestBody()
	case "resh":
		tx.AddResponseHeader(a, b)
	case "p3":
		tx.ProcessResponseHeaders(s.N, "HTTP/1.1")
	case "resbody":
		_, _, _ = tx.WriteResponseBody([]byte(a))
	case "resbodyfrom":
		_, _, _ = tx.ReadResponseBodyFrom(strings.NewReader(a))
	case "p4":
		_, _ = tx.ProcessResponseBody()
	case "p5":
		tx.ProcessLogging()
	case "close":
		_ = tx.Close()
	case "query":
		_ = tx.IsInterrupted()
		_ = tx.Interruption()
		for _, mr := range tx.MatchedRules() {
			_ = mr.Message()
			_ = mr.Data()
			_ = mr.ErrorLog()
			_ = mr.AuditLog()
			for _, md := range mr.MatchedDatas() {
				_, _, _ = md.Key(), md.Value(), md.Message()
			}
		}
		_ = tx.IsRuleEngineOff()
		_ = tx.IsRequestBodyAccessible()
		_ = tx.IsResponseBodyAccessible()
		_ = tx.IsResponseBodyProcessable()
		_ = tx.ID()
		if rd, err := tx.RequestBodyReader(); err == nil && rd != nil {
			_, _ = io.Copy(io.Discard, rd)
		}
		if rd, err := tx.ResponseBodyReader(); err == nil && rd != nil {
			_, _ = io.Copy(io.Discard, rd)
		}
	case "newtx":
		// a second transaction on the same WAF (pooled object)
		_ = tx.Close()
		*txp = w.NewTransaction()
	}
}

func (r *runner) runConf(c caseJSON) {
	directives := strings.ReplaceAll(dec(c.Directives), "@TMP@", tmpDir)
	done := make(chan confResult, 1)
	go func() { done <- execConf(directives, c.Script) }()
	var res confResult
	select {
	case res = <-done:
	case <-time.After(25 * time.Second):
		r.fail("c07-hang", "configuration + script did not return within 25 s", c)
		r.dist.Inc("conf:" + c.Family + ":hang")
		r.res.OracleEvaluations++
		return
	}
	r.res.OracleEvaluations++
	switch {
	case res.panicked:
		r.dist.Inc("conf:" + c.Family + ":panic")
		r.fail("c07-panic-"+res.site, fmt.Sprintf("panic at %s: %s", res.stage, res.msg), c)
	case res.accepted:
		r.dist.Inc("conf:" + c.Family + ":accepted")
		if res.steps > 0 {
			r.nontr["conf|"+c.Directives+fmt.Sprint(len(c.Script))] = true
		}
	default:
		r.dist.Inc("conf:" + c.Family + ":rejected")
		if res.msg != "" && (c.Family == "random" || c.Family == "every-action") {
			r.dist.Inc("dbg:" + c.Family + ":" + res.msg)
		}
	}
	r.res.Evaluations++
	if len(r.res.Samples) < 12 && r.rng.Intn(400) == 0 {
		r.res.Samples = append(r.res.Samples, c)
	}
	// keep the temp dir small
	if r.res.OracleEvaluations%200 == 0 {
		_ = os.Remove(filepath.Join(tmpDir, "debug.log"))
		_ = os.Remove(filepath.Join(tmpDir, "audit.log"))
		_ = os.RemoveAll(filepath.Join(tmpDir, "audit"))
	}
}

// ---------------------------------------------------------------------------------------
// traffic scripts
// ---------------------------------------------------------------------------------------

var bodyKinds = []struct{ ct, body string }{
	{"application/x-www-form-urlencoded", "a=1&b=two&a=3&c=%41%zz&=x&d"},
	{"application/x-www-form-urlencoded", "id=1%27+or+1=1--&x=<script>alert(1)</script>"},
	{"application/json", `{"a":[1,{"b":"c"}],"d":null,"e":1.5e3,"f":{"g":{}}}`},
	{"application/json", `{"a":[1,{"b":`},
	{"application/json", `[[[[[[[[[[[[[[[[[[[[[[[[[[[[[[[[[[[[[[[[1]]]]]]]]]]]]]]]]]]]]]]]]]]]]]]]]]]]]]]]]`},
	{"text/xml", `<?xml version="1.0"?><a b="c"><d>e</d><f/></a>`},
	{"application/xml", `<a b="c"><d>e</a`},
	{"multipart/form-data; boundary=BB", "--BB\r\nContent-Disposition: form-data; name=\"f\"; filename=\"x.txt\"\r\nContent-Type: text/plain\r\n\r\nhello\r\n--BB\r\nContent-Disposition: form-data; name=\"a\"\r\n\r\n1\r\n--BB--\r\n"},
	{"multipart/form-data; boundary=BB", "--BB\r\nContent-Disposition: form-data; name=\"f\r\n\r\nhello\r\n--BB"},
	{"multipart/form-data", "--BB\r\n\r\n"},
	{"multipart/form-data; boundary=", "x"},
	{"text/plain", "plain body \x00\xff bytes"},
	{"", "no content type"},
	{"application/x-www-form-urlencoded; charset=\"", strings.Repeat("k=v&", 40)},
}

var uriPool = []string{"/", "/p/a.php?x=1&y=two", "/a%00b?%zz=1&&=&a=%41", "/x/../y;p=1?q=<script>&q=2#frag", "*", "", "http://h/abs?u=1",
	"/long/" + strings.Repeat("a", 300) + "?" + strings.Repeat("b=1&", 50), "/?json={\"a\":1}", "/\xff\xfe?\x80=\x81", "//?a[]=1&a[]=2", "/?a=1;b=2"}

func chunks(r *runner, s string) []string {
	if len(s) == 0 || r.rng.Intn(3) == 0 {
		return []string{s}
	}
	var out []string
	for len(s) > 0 {
		n := 1 + r.rng.Intn(len(s))
		out = append(out, s[:n])
		s = s[n:]
	}
	return out
}

func (r *runner) genScript() []step {
	var st []step
	bk := bodyKinds[r.rng.Intn(len(bodyKinds))]
	method := r.pick([]string{"GET", "POST", "POST", "PUT", "HEAD", "OPTIONS", "", "get", "X Y"})
	st = append(st, step{Op: "conn", A: r.pick([]string{"1.2.3.4", "::1", "", "not-an-ip", "999.1.1.1", "10.0.0.1"}), B: r.pick([]string{"5.6.7.8", ""}), N: r.pick1([]int{1, 0, -1, 65536, 4321})})
	st = append(st, step{Op: "uri", A: enc(r.pick(uriPool)), B: method})
	if r.rng.Intn(4) == 0 {
		st = append(st, step{Op: "servername", A: r.pick([]string{"h.example", "", "a b"})})
	}
	st = append(st, step{Op: "reqh", A: "Host", B: r.pick([]string{"h.example", "", "h:80"})})
	if bk.ct != "" {
		st = append(st, step{Op: "reqh", A: r.pick([]string{"Content-Type", "content-type"}), B: bk.ct})
	}
	for i := r.rng.Intn(4); i > 0; i-- {
		st = append(st, step{Op: "reqh", A: enc(r.pick([]string{"Cookie", "User-Agent", "X-A", "Content-Length", "Transfer-Encoding", "P", "", "Accept", "Cookie", "X-\xff"})),
			B: enc(r.pick([]string{"a=1; b=2; c", "curl/8", "", "abc", "-1", "99999999999999999999", "chunked", "x\x00y", "a=%zz;=;;", "<script>", strings.Repeat("z", 200)}))})
	}
	if r.rng.Intn(3) == 0 {
		st = append(st, step{Op: r.pick([]string{"getarg", "postarg", "patharg", "resarg"}), A: enc(r.pick([]string{"a", "", "A", "x.y", "\xff"})), B: enc(r.pick([]string{"1", "", "<x>", "\x00"}))})
	}
	st = append(st, step{Op: "p1"})
	for _, ch := range chunks(r, bk.body) {
		st = append(st, step{Op: r.pick([]string{"reqbody", "reqbody", "reqbodyfrom"}), A: enc(ch)})
	}
	st = append(st, step{Op: "p2"})
	rct := r.pick([]string{"text/plain", "text/html; charset=utf-8", "application/json", "text/xml", "", "image/png", "TEXT/PLAIN"})
	if rct != "" {
		st = append(st, step{Op: "resh", A: "Content-Type", B: rct})
	}
	if r.rng.Intn(2) == 0 {
		st = append(st, step{Op: "resh", A: r.pick([]string{"Content-Length", "Set-Cookie", "X-R", "Location"}), B: r.pick([]string{"5", "a=b", "", "-1", "http://x/"})})
	}
	st = append(st, step{Op: "p3", N: r.pick1([]int{200, 200, 404, 500, 302, 0, -1, 99999, 101})})
	rbody := r.pick([]string{"hello world", "", `{"r":[1,2,{"k":"v"}]}`, "<r><a>b</a></r>", "<html>\x00\xff</html>", strings.Repeat("resp ", 100)})
	for _, ch := range chunks(r, rbody) {
		st = append(st, step{Op: r.pick([]string{"resbody", "resbody", "resbodyfrom"}), A: enc(ch)})
	}
	st = append(st, step{Op: "p4"})
	st = append(st, step{Op: "p5"})
	st = append(st, step{Op: "query"})
	// out-of-order / repeated / missing calls
	switch r.rng.Intn(6) {
	case 0: // drop a few steps
		for k := 1 + r.rng.Intn(3); k > 0 && len(st) > 1; k-- {
			i := r.rng.Intn(len(st))
			st = append(st[:i:i], st[i+1:]...)
		}
	case 1: // duplicate a step
		i := r.rng.Intn(len(st))
		st = append(st[:i+1:i+1], st[i:]...)
	case 2: // swap two steps
		i, j := r.rng.Intn(len(st)), r.rng.Intn(len(st))
		st[i], st[j] = st[j], st[i]
	case 3: // shuffle everything
		r.rng.Shuffle(len(st), func(i, j int) { st[i], st[j] = st[j], st[i] })
	case 4: // body before headers, use after close, second transaction
		extra := r.pick([]string{"close", "newtx", "p5", "query"})
		i := r.rng.Intn(len(st))
		st = append(st[:i:i], append([]step{{Op: extra}}, st[i:]...)...)
		st = append([]step{{Op: "reqbody", A: "early"}, {Op: "resbody", A: "early"}}, st...)
	}
	return st
}

func (r *runner) pick1(l []int) int { return l[r.rng.Intn(len(l))] }

// ---------------------------------------------------------------------------------------
// the configuration grammar
// ---------------------------------------------------------------------------------------

var header = "SecRuleEngine On\nSecRequestBodyAccess On\nSecResponseBodyAccess On\nSecResponseBodyMimeType text/plain text/html application/json text/xml\n"

var ctlNames = []string{"auditEngine", "auditLogParts", "requestBodyAccess", "requestBodyLimit", "requestBodyProcessor",
	"forceRequestBodyVariable", "responseBodyProcessor", "responseBodyAccess", "responseBodyLimit", "forceResponseBodyVariable",
	"ruleEngine", "ruleRemoveById", "ruleRemoveByMsg", "ruleRemoveByTag", "ruleRemoveTargetById", "ruleRemoveTargetByMsg",
	"ruleRemoveTargetByTag", "hashEngine", "hashEnforcement", "debugLogLevel", "nosuchoption"}

var ctlValues = []string{"On", "Off", "DetectionOnly", "RelevantOnly", "+E", "-E", "ABCDEFGHIJKZ", "ABIJDEFHZ", "+", "JSON", "XML", "URLENCODED",
	"MULTIPART", "RAW", "nosuch", "0", "1", "5", "9", "-1", "-9223372036854775808", "9223372036854775807", "99999999999999999999", "abc", "",
	"1-5", "5-1", "x-y", "1-", "-", "1 2", "t1", "m 1", "%{tx.a}"}

var ctlTargets = []string{"", ";ARGS:a", ";ARGS:/a/", ";ARGS:/^a.b$/", ";REQUEST_HEADERS", ";nosuch", ";", ";ARGS:/(/", ";ARGS:", ";REQUEST_COOKIES:/x/", ";ARGS_NAMES", ";TX:a", ";:a", ";ARGS:a;b", ";XML:/*", ";JSON:a.b"}

// risk is the probability of a deliberately ill-formed choice at each grammar decision
// (1.0 in the systematic families, low in the "random-valid" family so that multi-line
// configurations are mostly accepted and reach the traffic stage).
var risk = 1.0

func (r *runner) risky() bool { return r.rng.Float64() < risk }

// pv picks from valid unless a risky choice is drawn
func (r *runner) pv(valid, riskyPool []string) string {
	if len(riskyPool) > 0 && r.risky() {
		return r.pick(riskyPool)
	}
	return r.pick(valid)
}

func (r *runner) anyVar() string {
	if risk < 1 && !r.risky() {
		return r.pick(tabVariables)
	}
	return r.randCase(r.pick(tabVariables))
}

func selectable(name string) bool {
	v, ok := ivars.VerifC07VariableNames()[strings.ToUpper(name)]
	return ok && v.CanBeSelected()
}

func (r *runner) macroAny() string {
	v := r.anyVar()
	switch r.rng.Intn(5) {
	case 0:
		return "%{" + v + "}"
	case 1:
		return "%{" + v + "." + r.pick([]string{"a", "host", "x", "0", "content-type", "id", "msg", "b.c"}) + "}"
	case 2:
		return "x%{" + v + ".a}y%{" + r.anyVar() + "}"
	case 3:
		return "%{tx." + r.pick(txKeyPool) + "}"
	default:
		return "%{" + v + ".%{tx.a}}"
	}
}

func (r *runner) strVal() string {
	if !r.risky() {
		return r.pick([]string{r.macroAny(), "plain", "with space and %{tx.a}", "OWASP_CRS/WEB_ATTACK", "x %{matched_var} y"})
	}
	switch r.rng.Intn(6) {
	case 0:
		return r.macroAny()
	case 1:
		return "plain"
	case 2:
		return "with space and %{tx.a}"
	case 3:
		return "a,b:c"
	case 4:
		return "it\\'s " + r.macroAny()
	default:
		return r.pick([]string{"", "x", "%", "%{", "}", "http://x/%{request_uri}", "OWASP_CRS/WEB_ATTACK", "1"})
	}
}

func (r *runner) quote(v string) string {
	if !r.risky() {
		if strings.ContainsAny(v, ", :'") {
			return "'" + strings.ReplaceAll(v, "'", "") + "'"
		}
		return v
	}
	switch r.rng.Intn(4) {
	case 0:
		return v
	case 1:
		return "'" + v + "'"
	case 2:
		return " '" + v + "' "
	default:
		if strings.ContainsAny(v, ", :") {
			return "'" + v + "'"
		}
		return v
	}
}

// actionSpelling returns one documented (or near-documented) spelling of the action.
func (r *runner) actionSpelling(name string, g *cfgGen) string {
	n := name
	if r.rng.Intn(6) == 0 {
		n = r.randCase(name)
	}
	if r.risky() {
		switch r.rng.Intn(12) { // generic shapes, whatever the action expects
		case 0:
			return n
		case 1:
			return n + ":"
		case 2:
			return n + ":" + r.quote(r.strVal())
		}
	}
	switch strings.ToLower(name) {
	case "id":
		return n + ":" + r.quote(r.pv([]string{fmt.Sprint(g.newID())}, []string{"0", "-1", "abc", "99999999999999999999", "1.5", " 7"}))
	case "phase":
		return n + ":" + r.quote(r.pv([]string{"1", "2", "3", "4", "5", "request", "response", "logging"}, []string{"0", "6", "x", "-1"}))
	case "msg", "logdata", "rev", "ver":
		return n + ":" + r.quote(r.strVal())
	case "tag":
		t := r.pick([]string{"t1", "t2", "attack-sqli", r.strVal()})
		g.tags = append(g.tags, t)
		return n + ":" + r.quote(t)
	case "severity":
		return n + ":" + r.quote(r.pv([]string{"0", "2", "5", "7", "CRITICAL", "critical", "WARNING"}, []string{"8", "x", "-1", "%{tx.a}"}))
	case "maturity":
		return n + ":" + r.quote(r.pv([]string{"1", "9", "5"}, []string{"0", "10", "x"}))
	case "status":
		return n + ":" + r.quote(r.pv([]string{"403", "200", "302", "500"}, []string{"abc", "0", "99999999999", "-1", "%{tx.a}"}))
	case "skip":
		return n + ":" + r.quote(r.pv([]string{"1", "2", "100"}, []string{"0", "-1", "x", "99999999999999999999"}))
	case "skipafter":
		return n + ":" + r.quote(r.pv(append([]string{"END", "NOSUCH"}, g.markers...), []string{"", "%{tx.a}"}))
	case "redirect":
		return n + ":" + r.quote(r.pv([]string{"http://x/", "http://x/%{request_uri}", "%{tx.a}"}, []string{""}))
	case "setvar":
		if !r.risky() {
			return n + ":" + r.quote(r.pick([]string{"tx.a=1", "!tx.a", "tx.a", "tx.score=+5", "tx.b=-1", "TX.%{tx.a}=1", "tx.x=%{tx.a}", "tx.s=+%{tx.score}", "tx.m=" + r.macroAny(), "tx.%{matched_var_name}=%{matched_var}"}))
		}
		if r.rng.Intn(2) == 0 {
			return n + ":" + r.quote(r.genSetvar())
		}
		return n + ":" + r.quote(r.pick([]string{"tx.a=", "!tx.a", "tx.a", "tx.score=+", "tx.b=-", "TX.%{tx.a}=1", "tx.x="})+r.pick([]string{"", r.macroAny(), "5", "+5", "-%{tx.a}"}))
	case "setenv":
		return n + ":" + r.quote(r.pv([]string{"VERIFC07_A=1", "VERIFC07_B=" + r.macroAny(), "VERIFC07_%{tx.a}=1"}, []string{"VERIFC07_C", "!VERIFC07_A", "=x", "", "VERIFC07_D="}))
	case "ctl":
		if !r.risky() {
			return n + ":" + r.pick([]string{"ruleEngine=On", "ruleEngine=DetectionOnly", "ruleEngine=Off", "auditEngine=On", "auditLogParts=+E", "auditLogParts=-E",
				"requestBodyAccess=On", "requestBodyAccess=Off", "requestBodyLimit=5", "requestBodyLimit=-1", "requestBodyProcessor=JSON", "requestBodyProcessor=XML",
				"requestBodyProcessor=URLENCODED", "requestBodyProcessor=MULTIPART", "forceRequestBodyVariable=On", "responseBodyProcessor=JSON", "responseBodyAccess=On",
				"responseBodyLimit=3", "forceResponseBodyVariable=On", "ruleRemoveById=1", "ruleRemoveById=1-5", "ruleRemoveByMsg=plain", "ruleRemoveByTag=t1",
				"ruleRemoveTargetById=1;ARGS:a", "ruleRemoveTargetById=1;ARGS:/^a/", "ruleRemoveTargetByTag=t1;ARGS", "ruleRemoveTargetByMsg=plain;ARGS:a", "debugLogLevel=9"})
		}
		return n + ":" + r.quote(r.pick(ctlNames)+r.pick([]string{"=", "=", "=", "", "=="})+r.pick(ctlValues)+r.pick(ctlTargets))
	case "t":
		return n + ":" + r.pv(append([]string{"none"}, tabTransformations...), []string{"nosuch", ""})
	case "initcol":
		return n + ":" + r.quote(r.pv([]string{"ip=%{REMOTE_ADDR}", "session=" + r.macroAny()}, []string{"x", "", "=", "ip"}))
	case "expirevar":
		return n + ":" + r.quote(r.pv([]string{"tx.a=60"}, []string{"x", "", "tx.a", "ip.x=abc"}))
	case "exec":
		return n + ":" + r.quote(r.pv([]string{"@TMP@/nonexistent.lua"}, []string{"", "x"}))
	case "allow":
		return n + r.pv([]string{"", ":phase", ":request"}, []string{":x", ":"})
	default:
		if r.risky() && r.rng.Intn(5) == 0 {
			return n + ":" + r.pick([]string{"1", "x", "'a b'"})
		}
		return n
	}
}

type cfgGen struct {
	nextID   int
	tags     []string
	markers  []string
	datasets []string
	ids      []int
}

func (g *cfgGen) newID() int {
	g.nextID++
	g.ids = append(g.ids, g.nextID)
	return g.nextID
}

func (r *runner) genTarget() string {
	v := r.anyVar()
	if !r.risky() {
		if !selectable(v) {
			return r.pick([]string{v, "&" + v, v + "|ARGS:a", "ARGS|" + v})
		}
		k := r.pick([]string{"a", "host", "x", "content-type", "b.c"})
		return r.pick([]string{v, v + ":" + k, v + ":/^" + k + "/", v + ":'" + k + "'", "&" + v, "&" + v + ":" + k, v + "|!" + v + ":" + k, v + "|!" + v + ":/" + k + "/", "!" + v + ":" + k + "|" + v})
	}
	switch r.rng.Intn(12) {
	case 0:
		return v
	case 1:
		return v + ":" + r.pick([]string{"a", "host", "x", "Content-Type", "b.c", "0"})
	case 2:
		return v + ":/" + r.pick([]string{"a", "^x", ".*", "a|b", "\\d+", "^(a)", "x\\/y"}) + "/"
	case 3:
		return v + ":'" + r.pick([]string{"a", "/a b/", "a b", "/x/"}) + "'"
	case 4:
		return "&" + v
	case 5:
		return "&" + v + ":a"
	case 6:
		return v + "|!" + v + ":" + r.pick([]string{"a", "/a/", "'x'"})
	case 7:
		return "!" + v + ":a|" + v
	case 8:
		return v + "|" + r.anyVar() + ":a|&" + r.anyVar()
	case 9:
		return r.pick([]string{"XML:/*", "XML://a/@b", "JSON:a.b", "JSON", "XML", "REQUEST_XML:/*", "RESPONSE_XML://x", "XML:/a[", "JSON:a[0]"})
	case 10:
		return v + ":" + r.pick([]string{"", "/", "'", "/(/", "a/b", "'a", "/a", "//", "'/^id_/", "'a b", "'/a", "'a'b", "'/a/"})
	default:
		return "ARGS|ARGS_NAMES|REQUEST_HEADERS|REQUEST_COOKIES|REQUEST_URI|REQUEST_BODY|RESPONSE_BODY|TX|FILES|" + v
	}
}

var opArgs = map[string][]string{
	"rx":                   {"a", "^x", "(?i)foo", "(a)(b)?(c)*", "[", "\\xff", "a{1,3}", "(?P<n>x)", ".*", "^abc$", "\\A.*foo", "s(?:.*elect|leep)", "(", "a|", "%{tx.a}", ""},
	"pm":                   {"a b c", "foo", "", "a", "%{tx.a} x", strings.Repeat("w ", 50)},
	"pmf":                  {"@TMP@/pm.data", "nosuch.data", ""},
	"pmfromfile":           {"@TMP@/pm.data", "nosuch.data", "", "@TMP@/pm.data nosuch.data"},
	"pmfromdataset":        {"ds1", "nosuch", ""},
	"ipmatch":              {"1.2.3.4", "10.0.0.0/8,::1", "1.2.3.4/33", "x", "", "::/0", "1.2.3.4, 5.6.7.8"},
	"ipmatchf":             {"@TMP@/ip.data", "nosuch", ""},
	"ipmatchfromfile":      {"@TMP@/ip.data", "nosuch", ""},
	"ipmatchfromdataset":   {"ds2", "ds1", "nosuch", ""},
	"eq":                   {"1", "0", "x", "", "%{tx.a}", "-1", "99999999999999999999"},
	"ge":                   {"1", "x", "", "%{tx.a}"},
	"gt":                   {"0", "x", "", "%{tx.score}"},
	"le":                   {"1", "x", ""},
	"lt":                   {"1", "x", "", "%{tx.a}"},
	"within":               {"GET POST", "", "%{tx.a}", "a"},
	"contains":             {"a", "", "%{tx.a}", "%{request_headers.host}"},
	"beginswith":           {"/", "", "%{request_uri}"},
	"endswith":             {".php", "", "%{tx.a}"},
	"streq":                {"a", "", "%{tx.a}", "%{matched_var}"},
	"strmatch":             {"a", "", "%{tx.a}"},
	"validatebyterange":    {"1-255", "32-126", "0", "10, 13, 32-126", "256", "5-1", "x", "", "1-", "-", "1-2-3", "300-400"},
	"validatenid":          {"cl \\d+", "us \\d{3}-\\d{2}-\\d{4}", "xx a", "cl", "", "cl (", "br .*"},
	"validateschema":       {"@TMP@/schema.json", "nosuch.json", "", "@TMP@/bad.json"},
	"restpath":             {"/a/{id}/b", "/{x}", "", "{", "/a/{id", "/x/{a}/{a}"},
	"rbl":                  {"rbl.invalid"},
	"inspectfile":          {"@TMP@/nonexistent-inspect", ""},
	"detectsqli":           {"", "x"},
	"detectxss":            {"", "x"},
	"geolookup":            {"", "x"},
	"nomatch":              {"", "x"},
	"unconditionalmatch":   {"", "x"},
	"validateurlencoding":  {"", "x"},
	"validateutf8encoding": {"", "x"},
}

var validOpArgs = map[string][]string{
	"rx": {"a", "^x", "(?i)foo", "(a)(b)?(c)*", "\\xff", ".*", "^abc$", "%{tx.a}"}, "pm": {"a b c", "foo"}, "pmf": {"@TMP@/pm.data"}, "pmfromfile": {"@TMP@/pm.data"},
	"pmfromdataset": {"ds1"}, "ipmatch": {"1.2.3.4", "10.0.0.0/8,::1"}, "ipmatchf": {"@TMP@/ip.data"}, "ipmatchfromfile": {"@TMP@/ip.data"},
	"ipmatchfromdataset": {"ds2"}, "eq": {"1", "%{tx.a}"}, "ge": {"1", "%{tx.a}"}, "gt": {"0"}, "le": {"1"}, "lt": {"1"}, "within": {"GET POST", "%{tx.a}"},
	"contains": {"a", "%{tx.a}"}, "beginswith": {"/"}, "endswith": {".php"}, "streq": {"a", "%{matched_var}"}, "strmatch": {"a"},
	"validatebyterange": {"1-255", "10, 13, 32-126"}, "validatenid": {"cl \\d+", "us \\d{3}-\\d{2}-\\d{4}"}, "validateschema": {"@TMP@/schema.json"},
	"restpath": {"/a/{id}/b"}, "rbl": {"rbl.invalid"}, "inspectfile": {"@TMP@/nonexistent-inspect"},
}

func (r *runner) genOperator() string {
	name := r.pick(tabOperators)
	if name == "rbl" && r.rng.Intn(20) != 0 {
		name = "rx"
	}
	args, ok := opArgs[strings.ToLower(name)]
	if !ok {
		args = []string{"", "a", "1", "%{tx.a}"}
	}
	neg := r.pick([]string{"", "", "", "!"})
	if !r.risky() {
		va := validOpArgs[strings.ToLower(name)]
		if len(va) == 0 {
			va = []string{""}
		}
		return neg + "@" + name + " " + r.pick(va)
	}
	switch r.rng.Intn(10) {
	case 0:
		return r.pick(args) // implicit @rx
	case 1:
		return neg + "@" + name
	case 2:
		return neg + "@" + r.randCase(name) + " " + r.pick(args)
	default:
		return neg + "@" + name + " " + r.pick(args)
	}
}

func (r *runner) genActions(g *cfgGen, chained bool, forDefault bool) string {
	var acts []string
	if !chained && !forDefault && r.rng.Intn(15) != 0 {
		acts = append(acts, fmt.Sprintf("id:%d", g.newID()))
	}
	if r.rng.Intn(8) != 0 {
		acts = append(acts, "phase:"+r.pick([]string{"1", "2", "3", "4", "5", "1", "2"}))
	}
	if r.rng.Intn(4) != 0 && !chained {
		acts = append(acts, r.pick([]string{"pass", "pass", "pass", "deny", "block", "drop", "allow", "redirect:http://x/", "deny,status:403", "allow:phase", "allow:request"}))
	}
	for k := r.rng.Intn(5); k > 0; k-- {
		a := r.pick(tabActions)
		if strings.EqualFold(a, "chain") {
			continue // chains are generated explicitly
		}
		acts = append(acts, r.actionSpelling(a, g))
	}
	r.rng.Shuffle(len(acts), func(i, j int) { acts[i], acts[j] = acts[j], acts[i] })
	sep := r.pick([]string{",", ",", ",", ", ", " , "})
	return strings.Join(acts, sep)
}

func (r *runner) genRule(g *cfgGen) string {
	switch r.rng.Intn(10) {
	case 0:
		return "SecAction " + r.pick([]string{`"`, `"`, `"`, ``, `'`}) + r.genActions(g, false, false) + r.pick([]string{`"`, `"`, `"`, ``, `'`})
	case 1:
		m := r.pick([]string{"END", "M1", "M2", "", "a b", "'q'"})
		g.markers = append(g.markers, m)
		return "SecMarker " + m
	case 2: // chain
		var sb strings.Builder
		acts := r.genActions(g, false, false)
		fmt.Fprintf(&sb, "SecRule %s \"%s\" \"%s,chain\"", r.genTarget(), r.genOperator(), acts)
		for k := 1 + r.rng.Intn(2); k > 0; k-- {
			last := k == 1
			a := r.genActions(g, true, false)
			if !last {
				if a != "" {
					a += ","
				}
				a += "chain"
			}
			if a == "" && r.rng.Intn(2) == 0 {
				fmt.Fprintf(&sb, "\nSecRule %s \"%s\"", r.genTarget(), r.genOperator())
			} else {
				fmt.Fprintf(&sb, "\nSecRule %s \"%s\" \"%s\"", r.genTarget(), r.genOperator(), a)
			}
		}
		return sb.String()
	case 3:
		return fmt.Sprintf("SecRule %s \"%s\"", r.genTarget(), r.genOperator())
	case 4: // line continuation and odd spacing
		return fmt.Sprintf("SecRule %s \\\n  \"%s\" \\\n  \"%s\"", r.genTarget(), r.genOperator(), r.genActions(g, false, false))
	default:
		return fmt.Sprintf("SecRule %s \"%s\" \"%s\"", r.genTarget(), r.genOperator(), r.genActions(g, false, false))
	}
}

var boolVals = []string{"On", "Off", "on", "off", "ON", "DetectionOnly", "x", "", "1", "true"}
var numVals = []string{"0", "1", "10", "128", "131072", "-1", "abc", "99999999999999999999", "", "1.5", " 5", "9223372036854775807", "-9223372036854775808"}

// directive values by (lower-case) directive name; directives without an entry get the generic pool
var dirVals = map[string][]string{
	"secruleengine":                  boolVals,
	"secrequestbodyaccess":           boolVals,
	"secresponsebodyaccess":          boolVals,
	"secrxprefilter":                 boolVals,
	"secignorerulecompilationerrors": boolVals,
	"secuploadkeepfiles":             append([]string{"RelevantOnly"}, boolVals...),
	"secauditengine":                 {"On", "Off", "RelevantOnly", "x", ""},
	"secrequestbodylimit":            numVals,
	"secresponsebodylimit":           numVals,
	"secrequestbodyinmemorylimit":    numVals,
	"secrequestbodynofileslimit":     numVals,
	"secrequestbodyjsondepthlimit":   numVals,
	"secargumentslimit":              numVals,
	"secuploadfilelimit":             numVals,
	"seccollectiontimeout":           numVals,
	"secdebugloglevel":               {"0", "1", "3", "5", "9", "10", "-1", "x", ""},
	"secrequestbodylimitaction":      {"Reject", "ProcessPartial", "reject", "x", ""},
	"secresponsebodylimitaction":     {"Reject", "ProcessPartial", "x", ""},
	"secresponsebodymimetype":        {"text/plain", "text/plain text/html", "", "a", "*/*", "text/plain  text/html"},
	"secresponsebodymimetypesclear":  {"", "x"},
	"secauditlog":                    {"@TMP@/audit.log", "", "@TMP@/nosuchdir/audit.log"},
	"secauditlogtype":                {"Serial", "Concurrent", "serial", "x", ""},
	"secauditlogformat":              {"JSON", "Native", "jsonlegacy", "ocsf", "json", "x", ""},
	"secauditlogstoragedir":          {"@TMP@/audit", "", "@TMP@/nosuch/deep"},
	"secauditlogdirmode":             {"0750", "0999", "x", "", "750", "-1"},
	"secauditlogfilemode":            {"0640", "0999", "x", ""},
	"secuploadfilemode":              {"0600", "0999", "x", ""},
	"secauditlogrelevantstatus":      {"^5", "^(?:5|4(?!04))", "[", "", ".*", "\"^4\""},
	"secauditlogparts":               {"ABIJDEFHZ", "ABCDEFGHIJKZ", "AZ", "A", "", "ABXZ", "BCZ", "AAZ", "AKKHZ", "A\xc3\xa9Z", "abz"},
	"secdatadir":                     {"@TMP@", "@TMP@/nosuch", ""},
	"secuploaddir":                   {"@TMP@", "@TMP@/nosuch", ""},
	"secdebuglog":                    {"@TMP@/debug.log", "", "@TMP@/nosuchdir/debug.log"},
	"secdefaultaction":               {`"phase:1,log,auditlog,pass"`, `"phase:2,deny,status:403,log"`, `"phase:2,pass,t:none"`, `"log,pass"`, `"phase:1,msg:'x',pass"`, `"phase:3,nolog"`, `phase:4,pass`, `""`, `"phase:1,pass"`, `"phase:9,pass"`, `"phase:1,pass,setvar:tx.d=1,ctl:ruleEngine=Off"`},
	"secmarker":                      {"END", "M1", "", "a b"},
	"secruleremovebyid":              {"1", "1-3", "x", "3-1", "1 2 3", "", "1-", "-1", "99999999999999999999", "1 x", "1-2-3"},
	"secruleremovebytag":             {"t1", "attack-sqli", "", "nosuch", "\"t1\""},
	"secruleremovebymsg":             {"plain", "", "nosuch", "\"plain\""},
	"secruleupdatetargetbyid":        {`1 "ARGS|!ARGS:a"`, `1-3 !ARGS:x`, `1 2 ARGS`, `x`, ``, `1`, `1 "!REQUEST_COOKIES:/^x/"`, `1 nosuchvar`, `1-2 "ARGS:/(/"`, `5-1 ARGS`, `1 "ARGS" "x"`, `99 ARGS`, `1 ARGS:'/^id_/`, `1 "ARGS:'a"`, `1 ARGS|!ARGS:'x`},
	"secruleupdatetargetbytag":       {`t1 "!ARGS:a"`, `t1 ARGS`, `t1`, ``, `nosuch ARGS`, `"t1" "ARGS|!ARGS:/a/"`, `t1 nosuchvar`, `t1 ARGS x`, `t1 ARGS:'/^id_/`, `t1 "!ARGS:'a"`},
	"secruleupdateactionbyid":        {`1 "deny,status:403"`, `1 "id:2"`, `1-2 pass`, `1`, ``, `x "pass"`, `1 "nosuch"`, `1 "chain"`, `1 "t:none,t:lowercase"`, `1 2 "pass"`, `99 "pass"`, `1 "msg:'%{tx.a}',tag:'x'"`, `1 "phase:3"`, `1 "setvar:!tx.a"`},
	"secdataset":                     {"ds1 `\na\nb\n`", "ds2 `\n1.2.3.4\n10.0.0.0/8\n`", "ds1", "", "ds3 `", "ds1 `\n#c\n\n`", "x y"},
	"seccomponentsignature":          {"\"comp/1.0\"", "x", ""},
	"secserversignature":             {"\"srv\"", "x", ""},
	"secwebappid":                    {"app", "", "\"a b\""},
	"secsensorid":                    {"s1", ""},
	"include":                        {"@TMP@/inc-ok.conf", "@TMP@/inc-bad.conf", "@TMP@/inc-self.conf", "@TMP@/nosuch.conf", "", "@TMP@/inc-*.conf", "inc-ok.conf", "@TMP@/none-*.conf"},
	"secremoterules":                 {"key http://127.0.0.1:1/x", "", "x"},
}

var genericVals = []string{"On", "Off", "1", "0", "x", "", "\"quoted value\"", "a b c", "-1", "%{tx.a}"}

// canonical spelling of a directive (the table holds lower-case keys; directive names are case-insensitive)
func (r *runner) dirName(lower string) string {
	switch r.rng.Intn(4) {
	case 0:
		return lower
	case 1:
		return strings.ToUpper(lower)
	default:
		// SecFooBar-style: upper-case first letters of "sec" + rest (good enough: names are case-insensitive)
		if strings.HasPrefix(lower, "sec") && len(lower) > 3 {
			return "Sec" + strings.ToUpper(lower[3:4]) + lower[4:]
		}
		return strings.ToUpper(lower[:1]) + lower[1:]
	}
}

func (r *runner) genDirective(lower string, g *cfgGen) string {
	switch lower {
	case "secrule", "secaction":
		return r.genRule(g)
	}
	vals, ok := dirVals[lower]
	if !ok {
		vals = genericVals
	}
	v := r.pick(vals)
	if !r.risky() {
		v = vals[0]
	} else if r.rng.Intn(10) == 0 {
		v = r.pick(genericVals)
	}
	sep := " "
	if v == "" && r.rng.Intn(2) == 0 {
		sep = ""
	}
	return r.dirName(lower) + sep + v
}

// okDirectives: directives whose first pool value compiles after the standard header
var okDirectives []string

func (r *runner) findOkDirectives() {
	for _, d := range tabDirectives {
		if d == "secrule" || d == "secaction" || d == "include" || d == "secdataset" || strings.HasPrefix(d, "secruleupdate") || strings.HasPrefix(d, "secruleremove") {
			continue
		}
		vals, ok := dirVals[d]
		if !ok {
			vals = genericVals
		}
		txt := strings.ReplaceAll(header+d+" "+vals[0]+"\n", "@TMP@", tmpDir)
		p, _, _ := guard(func() {
			if _, err := coraza.NewWAF(coraza.NewWAFConfig().WithDirectives(txt)); err == nil {
				okDirectives = append(okDirectives, d)
			}
		})
		_ = p
	}
}

func (r *runner) prepareFiles() {
	w := func(n, s string) { _ = os.WriteFile(filepath.Join(tmpDir, n), []byte(s), 0o644) }
	w("pm.data", "foo\nbar\n#c\n\nbaz qux\n")
	w("ip.data", "1.2.3.4\n10.0.0.0/8\n::1\n#c\nbad\n")
	w("schema.json", `{"type":"object","properties":{"a":{"type":"array"}}}`)
	w("bad.json", `{"type":`)
	w("inc-ok.conf", "SecAction \"id:9001,phase:1,pass,setvar:tx.inc=1\"\n")
	w("inc-bad.conf", "SecNoSuchDirective x\n")
	w("inc-self.conf", "Include "+filepath.Join(tmpDir, "inc-self.conf")+"\n")
	_ = os.MkdirAll(filepath.Join(tmpDir, "audit"), 0o755)
}

func (r *runner) genConfig(g *cfgGen) string {
	var lines []string
	if r.rng.Intn(10) < 8 {
		lines = append(lines, strings.TrimSuffix(header, "\n"))
	}
	if r.rng.Intn(7) == 0 {
		lines = append(lines, "SecDebugLog @TMP@/debug.log", "SecDebugLogLevel "+r.pick([]string{"9", "5", "3"}))
	}
	if r.rng.Intn(5) == 0 {
		lines = append(lines, "SecAuditEngine "+r.pick([]string{"On", "RelevantOnly"}), "SecAuditLog @TMP@/audit.log",
			"SecAuditLogType "+r.pick([]string{"Serial", "Concurrent"}), "SecAuditLogStorageDir @TMP@/audit",
			"SecAuditLogFormat "+r.pick([]string{"JSON", "Native", "jsonlegacy", "ocsf"}), "SecAuditLogParts "+r.pick([]string{"ABIJDEFHZ", "ABCDEFGHIJKZ", "AHZ"}))
	}
	if r.rng.Intn(4) == 0 || risk < 1 {
		lines = append(lines, "SecDataset ds1 `\nfoo\nbar\n`", "SecDataset ds2 `\n1.2.3.4\n10.0.0.0/8\n`")
	}
	n := 1 + r.rng.Intn(6)
	for i := 0; i < n; i++ {
		switch r.rng.Intn(10) {
		case 0, 1, 2:
			if risk < 1 && !r.risky() && len(okDirectives) > 0 {
				lines = append(lines, r.genDirective(r.pick(okDirectives), g))
				break
			}
			lines = append(lines, r.genDirective(r.pick(tabDirectives), g))
		default:
			lines = append(lines, r.genRule(g))
		}
	}
	if r.rng.Intn(3) == 0 { // removal / update directives referring to what exists
		id := 1
		if len(g.ids) > 0 {
			id = g.ids[r.rng.Intn(len(g.ids))]
		}
		tag := "t1"
		if len(g.tags) > 0 {
			tag = g.tags[r.rng.Intn(len(g.tags))]
		}
		lines = append(lines, r.pick([]string{
			fmt.Sprintf("SecRuleRemoveById %d", id),
			fmt.Sprintf("SecRuleUpdateTargetById %d \"!ARGS:a|%s\"", id, r.genTarget()),
			fmt.Sprintf("SecRuleUpdateActionById %d \"%s\"", id, r.genActions(g, true, false)),
			fmt.Sprintf("SecRuleUpdateTargetByTag %s \"%s\"", tag, r.genTarget()),
			fmt.Sprintf("SecRuleRemoveByTag %s", tag),
			"SecRuleRemoveByMsg plain",
			fmt.Sprintf("SecRuleRemoveById %d-%d", id, id+3),
		}))
	}
	sep := "\n"
	if r.rng.Intn(12) == 0 {
		sep = "\r\n"
	}
	return strings.Join(lines, sep) + r.pick([]string{"\n", "", "\n\n"})
}

const delims = "\"'\\,:;|!&@%{}/=. \t\n`#-"

// mutateConf applies byte-level mutations outside the @TMP@ placeholders.
func (r *runner) mutateConf(s string) string {
	for tries := 0; tries < 20; tries++ {
		m := r.mutate(s, delims)
		if strings.Count(m, "@TMP@") == strings.Count(s, "@TMP@") && !strings.Contains(strings.ReplaceAll(m, "@TMP@", ""), "@TMP") {
			return m
		}
	}
	return s
}

func (r *runner) conf(family, directives string, script []step) {
	r.runCase(caseJSON{Kind: "conf", Family: family, Directives: enc(directives), Script: script})
}

func (r *runner) generateConfs() {
	n := func(q, t int) int { return r.cfg.Pick(q, t) }

	// --- systematic: every directive x every value of its pool ---
	for _, d := range tabDirectives {
		vals, ok := dirVals[d]
		if !ok {
			vals = genericVals
		}
		if d == "secrule" || d == "secaction" {
			continue
		}
		for _, v := range vals {
			pre := header + "SecAction \"id:1,phase:1,pass,tag:'t1',msg:'plain'\"\nSecAction \"id:2,phase:2,pass\"\nSecRule ARGS \"@rx a\" \"id:3,phase:2,pass,tag:'t1'\"\n"
			post := "SecRule ARGS|TX \"@pmFromDataset ds1\" \"id:4,phase:2,pass\"\n"
			if d != "secdataset" {
				post = ""
			}
			r.conf("every-directive", pre+r.dirName(d)+" "+v+"\n"+post, r.genScript())
			if !r.cfg.Thorough() {
				continue
			}
			r.conf("every-directive", r.dirName(d)+" "+v, r.genScript())
		}
	}
	// --- systematic: every action x spellings, in a rule that fires, read back by a later rule ---
	g := &cfgGen{nextID: 100}
	for _, a := range tabActions {
		reps := n(6, 40)
		switch strings.ToLower(a) {
		case "setvar", "ctl", "setenv", "skipafter", "skip", "allow", "t":
			reps = n(25, 150) // the actions with a grammar of their own
		}
		for k := 0; k < reps; k++ {
			g.ids = nil
			sp := r.actionSpelling(a, g)
			ph := r.pick([]string{"1", "2", "3", "4", "5"})
			c := header + fmt.Sprintf("SecMarker BEGIN\nSecRule REQUEST_URI|ARGS \"@unconditionalMatch\" \"id:1,phase:%s,pass,%s\"\nSecRule TX|MATCHED_VAR|HIGHEST_SEVERITY|ENV \"@unconditionalMatch\" \"id:2,phase:5,pass,msg:'%%{tx.a} %%{matched_var}'\"\nSecMarker END\n", ph, sp)
			r.conf("every-action", c, r.genScript())
		}
	}
	// every ctl option x value x target
	for _, cn := range ctlNames {
		for k := 0; k < n(5, 40); k++ {
			ph := r.pick([]string{"1", "2", "3", "4", "5"})
			c := header + "SecRequestBodyLimitAction " + r.pick([]string{"ProcessPartial", "Reject"}) + "\nSecResponseBodyLimitAction " + r.pick([]string{"ProcessPartial", "Reject"}) + "\n" +
				fmt.Sprintf("SecAction \"id:1,phase:%s,pass,ctl:%s=%s%s\"\nSecRule ARGS|REQUEST_HEADERS|REQUEST_BODY|RESPONSE_BODY \"@rx .\" \"id:2,phase:%s,pass,tag:'t1',msg:'m 1'\"\n",
					ph, cn, r.pick(ctlValues), r.pick(ctlTargets), r.pick([]string{"2", "4", "5"}))
			r.conf("every-ctl", c, r.genScript())
		}
	}
	// --- systematic: every operator x its argument pool ---
	for _, o := range tabOperators {
		args, ok := opArgs[strings.ToLower(o)]
		if !ok {
			args = []string{"", "a", "1", "%{tx.a}"}
		}
		for _, a := range args {
			for _, neg := range []string{"", "!"} {
				if strings.EqualFold(o, "rbl") && neg == "!" {
					continue
				}
				tgt := "ARGS|REQUEST_HEADERS|REQUEST_URI|REQUEST_BODY|FILES|XML:/*"
				if strings.EqualFold(o, "rbl") {
					tgt = "REMOTE_ADDR"
				}
				c := header + "SecDataset ds1 `\nfoo\nbar\n`\nSecDataset ds2 `\n1.2.3.4\n10.0.0.0/8\n`\n" +
					fmt.Sprintf("SecAction \"id:1,phase:1,pass,setvar:tx.a=1\"\nSecRule %s \"%s@%s %s\" \"id:2,phase:2,pass,capture,logdata:'%%{tx.0} %%{tx.1}'\"\n", tgt, neg, o, a)
				r.conf("every-operator", c, r.genScript())
			}
		}
	}
	// --- systematic: SecDefaultAction with every disruptive action x inheriting rules ---
	r.generateDefaultActions()
	// --- systematic: boundary values of every ctl option in rules that match ---
	r.generateCtlBoundary()
	// --- systematic: operator arguments that reach the operators' inner branches x derived traffic ---
	r.generateOpTraffic()
	// --- systematic: every transformation (alone and in chains with multiMatch) ---
	for _, t := range tabTransformations {
		c := header + fmt.Sprintf("SecRule ARGS|REQUEST_URI|REQUEST_BODY|REQUEST_HEADERS \"@rx a\" \"id:1,phase:2,pass,t:none,t:%s\"\nSecRule ARGS|REQUEST_BODY \"@contains a\" \"id:2,phase:2,pass,multiMatch,t:%s,t:%s,t:%s\"\n",
			t, r.pick(tabTransformations), t, r.pick(tabTransformations))
		r.conf("every-transformation", c, r.genScript())
		r.conf("every-transformation", c, r.genScript())
	}
	// --- systematic: every variable as target (key, regex key, count, negation) and in macros ---
	for _, v := range tabVariables {
		forms := []string{v, v + ":a", v + ":/a/", "&" + v, "&" + v + ":a", v + "|!" + v + ":a", v + ":'/^x/'", "!" + v + ":/a/|" + v, strings.ToLower(v) + ":A"}
		if selectable(v) { // target lists that END inside an open quote / regex
			forms = append(forms, v+":'/^id_/", "ARGS|"+v+":'a", v+":/a")
		}
		for i, f := range forms {
			if r.cfg.Thorough() || i%3 == r.rng.Intn(3) || i < 2 || i >= 9 {
				ph := r.pick([]string{"1", "2", "3", "4", "5"})
				c := header + fmt.Sprintf("SecRule %s \"@rx .\" \"id:1,phase:%s,pass,msg:'%%{%s.a} %%{%s}',logdata:'%%{matched_var_name}',setvar:'tx.%%{%s.x}=%%{%s}',setvar:tx.n=+%%{%s}\"\nSecRule &%s \"@ge 0\" \"id:2,phase:5,pass,ctl:ruleRemoveTargetById=1;%s:a\"\n",
					f, ph, v, v, v, v, v, v, v)
				r.conf("every-variable", c, r.genScript())
			}
		}
	}
	// --- random multi-line configurations ---
	for i := 0; i < n(500, 10000); i++ {
		g := &cfgGen{}
		r.conf("random", r.genConfig(g), r.genScript())
	}
	// --- random multi-line configurations biased towards valid syntax (reach the traffic stage) ---
	risk = 0.04
	for i := 0; i < n(1500, 40000); i++ {
		g := &cfgGen{}
		r.conf("random-valid", r.genConfig(g), r.genScript())
	}
	risk = 1.0
	// --- byte-level mutations of valid configurations ---
	for i := 0; i < n(900, 25000); i++ {
		g := &cfgGen{}
		base := r.genRule(g)
		if r.rng.Intn(3) == 0 {
			base = r.genConfig(g)
		}
		m := r.mutateConf(base)
		if r.rng.Intn(3) == 0 {
			m = r.mutateConf(m)
		}
		pre := ""
		if r.rng.Intn(2) == 0 {
			pre = header
		}
		r.conf("mutated", pre+m, r.genScript())
	}
	// --- truncation at every offset of short texts ---
	for i := 0; i < n(6, 60); i++ {
		g := &cfgGen{}
		base := r.genRule(g)
		if len(base) > 160 || strings.Contains(base, "@TMP@") {
			continue
		}
		sc := r.genScript()
		for k := 0; k <= len(base); k++ {
			r.conf("truncated", header+base[:k], sc)
		}
	}
}
