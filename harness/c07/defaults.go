package c07

import (
	"fmt"
	"strings"
)

// "default-actions" (search): whole configurations with 0-2 SecDefaultAction lines per phase carrying
// EVERY disruptive action (block included) and assorted non-disruptive ones, followed by SecRule /
// SecAction / chain starters of that and other phases without a disruptive action, with block, and
// with their own; compiled AND driven through all phases.
func (r *runner) generateDefaultActions() {
	dis := []string{"pass", "deny", "drop", "block", "allow", "allow:phase", "allow:request", "redirect:http://x/", "deny,status:403", "block,status:500", "pass,block", "block,pass"}
	extras := []string{"", "log", "nolog,auditlog", "log,auditlog,capture", "setvar:tx.d=+1", "logdata:'%{tx.a}'", "status:403", "ctl:ruleEngine=DetectionOnly",
		"multiMatch", "skip:1", "skipAfter:END", "setenv:VERIFC07_D=1", "severity:2", "t:none", "msg:'m'", "chain", "nosuch", "expirevar:tx.a=1", "initcol:ip=%{remote_addr}", "id:9"}
	own := []string{"", "block", "pass", "deny", "drop", "allow", "redirect:http://y/", "block,status:401", "BLOCK", "block,block", "block,log", "nolog", "deny,block"}
	k := 0
	for _, d := range dis {
		for ph := 1; ph <= 5; ph++ {
			for rep := 0; rep < r.cfg.Pick(3, 12); rep++ {
				k++
				var sb strings.Builder
				sb.WriteString(header)
				ex := extras[k%12] // the twelve that SecDefaultAction accepts
				if k%5 == 4 {
					ex = extras[12+k%(len(extras)-12)] // metadata, t, chain, unknown ... (rejected when a rule is parsed)
				}
				parts := []string{fmt.Sprintf("phase:%d", ph), d}
				if ex != "" {
					parts = append(parts, ex)
				}
				if k%4 == 0 {
					parts[0], parts[1] = parts[1], parts[0]
				}
				fmt.Fprintf(&sb, "SecDefaultAction \"%s\"\n", strings.Join(parts, ","))
				switch k % 5 {
				case 1: // a second default for another phase
					fmt.Fprintf(&sb, "SecDefaultAction \"phase:%d,%s\"\n", ph%5+1, r.pick(dis))
				case 2: // a second default for the SAME phase
					fmt.Fprintf(&sb, "SecDefaultAction \"phase:%d,%s\"\n", ph, r.pick(dis))
				}
				id := 0
				for j := 0; j < 2+r.rng.Intn(3); j++ {
					id++
					o := own[(k+j)%len(own)]
					p := ph
					if j%3 == 2 {
						p = 1 + r.rng.Intn(5)
					}
					acts := fmt.Sprintf("id:%d,phase:%d", id, p)
					if j%4 == 3 {
						acts = fmt.Sprintf("id:%d", id) // default phase 2
					}
					if o != "" {
						acts += "," + o
					}
					switch (k + j) % 4 {
					case 0:
						fmt.Fprintf(&sb, "SecAction \"%s,setvar:tx.a=+1\"\n", acts)
					case 1:
						fmt.Fprintf(&sb, "SecRule REQUEST_URI|ARGS \"@rx .\" \"%s,msg:'m %%{tx.a}'\"\n", acts)
					case 2:
						fmt.Fprintf(&sb, "SecRule REQUEST_URI \"@unconditionalMatch\" \"%s,chain\"\nSecRule REQUEST_METHOD \"@rx .\" \"%s\"\n", acts, r.pick([]string{"t:none", "block", "setvar:tx.c=1", "deny"}))
					default:
						fmt.Fprintf(&sb, "SecRule ARGS \"@rx a\"\nSecAction \"%s\"\n", acts)
					}
				}
				sb.WriteString("SecMarker END\n")
				sc := ctlScript(false)
				if rep%2 == 1 {
					sc = r.genScript()
				}
				r.conf("default-actions", sb.String(), sc)
			}
		}
	}
}
