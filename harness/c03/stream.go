package c03

import (
	"bytes"
	"fmt"
	"io"
	"strconv"
	"strings"

	"github.com/corazawaf/coraza/v3/types"
	"github.com/corazawaf/coraza/v3/verifharness/vh"
)

// plainReader hides Len() of the underlying reader (ReadRequestBodyFrom's second branch)
type plainReader struct{ r io.Reader }

func (p plainReader) Read(b []byte) (int, error) { return p.r.Read(b) }

// runChunked: a urlencoded / JSON / raw body delivered in chunks under SecRequestBodyLimit.
// Model: Decode.body_stream. Oracle (the property's clause on limits): every pair of the body is
// visible, or INBOUND_DATA_ERROR = 1 / an interruption says the body was cut.
func (rn *runner) runChunked(c *caseJSON) error {
	hs := pairsUnhex(c.Pairs)
	body := unhx(c.BodyHex)
	if c.Tree != nil {
		body = c.Tree.serialise()
		c.BodyHex = hx(body)
	}
	w, err := getWAF(wafKey{access: true, ctl: c.Ctl, bodyLimit: c.BodyLimit, reject: c.Reject, inMem: c.InMem})
	if err != nil {
		return err
	}
	tx := w.NewTransaction()
	defer tx.Close()
	tx.ProcessURI("/p", "POST", "HTTP/1.1")
	for _, h := range hs {
		tx.AddRequestHeader(h.K, h.V)
	}
	if it := tx.ProcessRequestHeaders(); it != nil {
		return fmt.Errorf("unexpected interruption in phase 1")
	}
	var it *types.Interruption
	var chunkTerms []string
	off := 0
	for i, ch := range c.Chunks {
		end := off + ch.Len
		if end > len(body) || i == len(c.Chunks)-1 {
			end = len(body)
		}
		piece := body[off:end]
		off = end
		var x *types.Interruption
		var err error
		switch ch.API {
		case 0:
			x, _, err = tx.WriteRequestBody([]byte(piece))
		case 1:
			x, _, err = tx.ReadRequestBodyFrom(bytes.NewReader([]byte(piece)))
		default:
			x, _, err = tx.ReadRequestBodyFrom(plainReader{strings.NewReader(piece)})
		}
		if err != nil {
			return fmt.Errorf("chunk %d: %v", i, err)
		}
		if x != nil {
			it = x
		}
		chunkTerms = append(chunkTerms, "("+vh.Nat(ch.API)+", "+H(piece)+")")
	}
	if x, err := tx.ProcessRequestBody(); err != nil {
		return err
	} else if x != nil {
		it = x
	}
	if (it != nil) != tx.IsInterrupted() {
		rn.fail("c03-interruption-lost", "an interruption returned by a body write is not the transaction's interruption", c)
	}
	interrupted := tx.IsInterrupted()
	if interrupted && tx.Interruption().Status != 413 {
		rn.fail("c03-body-limit-status", "body limit interruption without status 413", c)
	}
	v := vars(tx)
	post := findAll(v.ArgsPost())
	rb := single(v.RequestBody())
	rbp := single(v.RequestBodyProcessor())
	rerr := single(v.RequestBodyError()) == "1"
	inbound := single(v.InboundDataError()) == "1"
	proc := strings.ToLower(rbp)

	// what the body processor was handed, if it ran: the body up to the limit
	whole := c.BodyLimit == 0 || len(body) <= c.BodyLimit
	tree := "None"
	cmpArgs := true
	extErr := false
	switch proc {
	case "json":
		if c.Tree != nil && whole {
			tree = "(Some " + c.Tree.term() + ")"
		} else {
			cmpArgs = false // a cut JSON text: gjson's best effort is not modelled
		}
	case "multipart", "xml":
		cmpArgs = false
		extErr = rerr
	}
	ctl := "None"
	if c.Ctl != "" {
		ctl = "(Some " + H(c.Ctl) + ")"
	}
	limit := c.BodyLimit
	if limit == 0 {
		limit = 134217728
	}
	c.Obs = map[string]any{"args_post": pairsHex(sortPairs(post)), "request_body_hex": hx(rb), "reqbody_error": rerr,
		"inbound_data_error": inbound, "interrupted": interrupted}
	rn.res.InputDistribution[fmt.Sprintf("chunked_%s_inbound=%v_interrupted=%v", proc, inbound, interrupted)]++
	if c.BodyLimit > 0 {
		// model evaluated only for small limits (nat literals)
		rn.emit(fmt.Sprintf("CS %s %s %s %s %s %s %s %s %s %s %s %s %s %s", vh.Nat(limit), vh.Bool(c.Reject), kvList(hs), ctl, vh.List(chunkTerms),
			tree, vh.Bool(extErr), vh.Bool(cmpArgs), kvList(post), H(rb), H(rbp), vh.Bool(rerr), vh.Bool(inbound), vh.Bool(interrupted)),
			c, true)
	} else {
		cur = &interner{names: map[string]string{}}
	}

	// what rules see is a function of the concatenation of the chunks: the same body handed over
	// in one piece, everything held in memory, must expose exactly the same
	flagged := inbound || interrupted
	if !flagged {
		rn.oracleN++
		w1, err := getWAF(wafKey{access: true, ctl: c.Ctl})
		if err != nil {
			return err
		}
		t1 := w1.NewTransaction()
		t1.ProcessURI("/p", "POST", "HTTP/1.1")
		for _, h := range hs {
			t1.AddRequestHeader(h.K, h.V)
		}
		t1.ProcessRequestHeaders()
		if _, _, err := t1.WriteRequestBody([]byte(body)); err != nil {
			return err
		}
		if _, err := t1.ProcessRequestBody(); err != nil {
			return err
		}
		v1 := vars(t1)
		same := sameMultiset(findAll(v1.ArgsPost()), post) && single(v1.RequestBody()) == rb &&
			(single(v1.RequestBodyError()) == "1") == rerr &&
			sameMultiset(findAll(v1.Files()), findAll(v.Files())) && sameMultiset(findAll(v1.FilesNames()), findAll(v.FilesNames())) &&
			sameMultiset(findAll(v1.FilesSizes()), findAll(v.FilesSizes())) && single(v1.FilesCombinedSize()) == single(v.FilesCombinedSize()) &&
			sameMultiset(findAll(v1.RequestXML()), findAll(v.RequestXML())) && sameMultiset(findAll(v1.Args()), findAll(v.Args()))
		t1.Close()
		if !same {
			rn.fail("c03-chunking-changes-data", fmt.Sprintf("body of %d bytes in %d chunks (SecRequestBodyInMemoryLimit %d, SecRequestBodyLimit %d): the variables differ from those of the same body handed over in one piece, no error variable / interruption", len(body), len(c.Chunks), c.InMem, c.BodyLimit), c)
		}
	}

	// the property's clause on limits
	rn.oracleN++
	if c.BodyLimit > 0 && len(body) < c.BodyLimit && flagged {
		rn.fail("c03-body-limit-false-alarm", "a body below SecRequestBodyLimit raised INBOUND_DATA_ERROR / an interruption", c)
	}
	if !flagged {
		orig := pairsUnhex(c.Orig)
		switch c.Via {
		case "urlencoded":
			if !sameMultiset(post, orig) || rb != body {
				rn.fail("c03-body-cut-silently", fmt.Sprintf("body of %d bytes, SecRequestBodyLimit %d: ARGS_POST / REQUEST_BODY are not the whole body and neither INBOUND_DATA_ERROR nor an interruption says so", len(body), c.BodyLimit), c)
			}
		case "raw":
			if rb != body {
				rn.fail("c03-body-cut-silently", "REQUEST_BODY is not the whole body and neither INBOUND_DATA_ERROR nor an interruption says so", c)
			}
		case "jsontree":
			var leaves []pair
			c.Tree.leaves("json", &leaves)
			if !rerr && !subMultiset(leaves, post) {
				rn.fail("c03-body-cut-silently", "a leaf of the JSON body is not in ARGS_POST and no error variable / interruption says so", c)
			}
		}
	}
	return nil
}

// ---- truncated multipart bodies (mime/multipart is not modelled: oracle only) ----

const mpBoundary = "XbOuNdArY7"

type mpLayout struct {
	body       string
	hdrEnd     []int // offset just after the blank line that ends the part's headers
	contentEnd []int
}

func buildMultipart(parts [][3]string) mpLayout {
	var b strings.Builder
	var l mpLayout
	for _, p := range parts {
		name, filename, content := unhx(p[0]), unhx(p[1]), unhx(p[2])
		b.WriteString("--" + mpBoundary + "\r\n")
		if filename != "" {
			fmt.Fprintf(&b, "Content-Disposition: form-data; name=\"%s\"; filename=\"%s\"\r\nContent-Type: application/octet-stream\r\n\r\n", name, filename)
		} else {
			fmt.Fprintf(&b, "Content-Disposition: form-data; name=\"%s\"\r\n\r\n", name)
		}
		l.hdrEnd = append(l.hdrEnd, b.Len())
		b.WriteString(content)
		l.contentEnd = append(l.contentEnd, b.Len())
		b.WriteString("\r\n")
	}
	b.WriteString("--" + mpBoundary + "--\r\n")
	l.body = b.String()
	return l
}

type mpObs struct {
	post, files, names, sizes []pair
	rerr, mse, inbound        bool
}

func (rn *runner) mpRun(body string, limit int) (mpObs, error) {
	var o mpObs
	w, err := getWAF(wafKey{access: true, bodyLimit: limit})
	if err != nil {
		return o, err
	}
	tx := w.NewTransaction()
	defer tx.Close()
	tx.ProcessURI("/upload", "POST", "HTTP/1.1")
	tx.AddRequestHeader("Content-Type", "multipart/form-data; boundary="+mpBoundary)
	tx.ProcessRequestHeaders()
	if _, _, err := tx.WriteRequestBody([]byte(body)); err != nil {
		return o, err
	}
	if _, err := tx.ProcessRequestBody(); err != nil {
		return o, err
	}
	v := vars(tx)
	o.post, o.files, o.names, o.sizes = findAll(v.ArgsPost()), findAll(v.Files()), findAll(v.FilesNames()), findAll(v.FilesSizes())
	o.rerr = single(v.RequestBodyError()) == "1"
	o.mse = single(v.MultipartStrictError()) == "1"
	o.inbound = single(v.InboundDataError()) == "1"
	return o, nil
}

func plainContent(s string) bool { return !strings.ContainsAny(s, "\r\n-") }

// runMPTrunc: a multipart body that stops after Cut bytes (the client stopped, or a ProcessPartial
// limit fell there). Oracle: every part whose headers were received completely is visible
// (ARGS_POST / FILES + FILES_NAMES + FILES_SIZES, with the bytes received so far) or
// REQBODY_ERROR / MULTIPART_STRICT_ERROR says so; the ProcessPartial delivery exposes exactly what
// the direct delivery of the same prefix exposes, plus INBOUND_DATA_ERROR.
func (rn *runner) runMPTrunc(c *caseJSON) error {
	l := buildMultipart(c.Parts)
	cut := c.Cut
	if cut > len(l.body) {
		cut = len(l.body)
	}
	c.BodyHex = hx(l.body[:cut])
	direct, err := rn.mpRun(l.body[:cut], 0)
	if err != nil {
		return err
	}
	rn.res.Evaluations++
	rn.res.InputDistribution["kind_mptrunc(oracle only)"]++
	rn.oracleN++
	c.Obs = map[string]any{"args_post": pairsHex(sortPairs(direct.post)), "files": pairsHex(direct.files), "files_names": pairsHex(direct.names),
		"files_sizes": pairsHex(direct.sizes), "reqbody_error": direct.rerr, "multipart_strict_error": direct.mse}
	flagged := direct.rerr || direct.mse
	has := func(l []pair, k, v string, prefix bool) bool {
		for _, p := range l {
			// prefix: the bytes received so far, or (mime/multipart quirk when the closing delimiter is
			// cut after its first '-') the whole content followed by the delimiter bytes
			if p.K == k && (p.V == v || (prefix && (strings.HasPrefix(v, p.V) || strings.HasPrefix(p.V, v)))) {
				return true
			}
		}
		return false
	}
	class := "before_first_part"
	for i, p := range c.Parts {
		name, filename, content := unhx(p[0]), unhx(p[1]), unhx(p[2])
		if cut < l.hdrEnd[i] {
			if i == 0 || cut > l.contentEnd[i-1] {
				class = "in_boundary_or_headers"
			}
			break
		}
		inContent := cut <= l.contentEnd[i]
		got := content
		if inContent {
			got = content[:cut-l.hdrEnd[i]]
			class = "in_field_value"
			if filename != "" {
				class = "in_file_content"
			}
		} else {
			class = "after_content"
		}
		visible := false
		if filename == "" {
			visible = has(direct.post, name, content, true)
			if visible && inContent && plainContent(content) && !has(direct.post, name, got, false) && !flagged {
				rn.fail("c03-multipart-partial-value", "a cut multipart field is not exposed with the bytes received so far", c)
			}
		} else {
			visible = has(direct.files, "", filename, false) && has(direct.names, "", name, false)
			sz := ""
			for _, s := range direct.sizes {
				if s.K == filename {
					sz = s.V
				}
			}
			if sz == "" {
				visible = false
			}
			if visible && inContent && plainContent(content) && sz != strconv.Itoa(len(got)) && !flagged {
				rn.fail("c03-multipart-partial-size", "FILES_SIZES of a cut upload is not the number of bytes received", c)
			}
		}
		if !visible && !flagged {
			what := "field"
			if filename != "" {
				what = "file"
			}
			rn.fail("c03-multipart-part-dropped", fmt.Sprintf("multipart %s part %q whose headers were received (body cut at %d, %s) is in no variable and neither REQBODY_ERROR nor MULTIPART_STRICT_ERROR is set", what, name, cut, class), c)
		}
	}
	if cut == len(l.body) {
		class = "complete"
	}
	rn.res.InputDistribution["mptrunc_"+class]++
	if flagged {
		rn.res.InputDistribution["mptrunc_error_signalled"]++
	}
	if c.Partial && cut >= 1 && cut < len(l.body) {
		part, err := rn.mpRun(l.body, cut)
		if err != nil {
			return err
		}
		rn.oracleN++
		if !part.inbound {
			rn.fail("c03-body-cut-silently", "multipart body cut by a ProcessPartial limit without INBOUND_DATA_ERROR", c)
		}
		if !sameMultiset(part.post, direct.post) || !sameMultiset(part.files, direct.files) || !sameMultiset(part.names, direct.names) ||
			!sameMultiset(part.sizes, direct.sizes) || part.rerr != direct.rerr || part.mse != direct.mse {
			rn.fail("c03-multipart-partial-differs", "a ProcessPartial limit exposes something else than the direct delivery of the same prefix", c)
		}
	}
	return nil
}
