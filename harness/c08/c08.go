// Package c08 drives the correspondence for C08 (skip, skipAfter, allow and chain steer evaluation
// exactly as documented). Generated SecLang rule sets are compiled by the real parser, run through a
// real transaction (all five Process* calls in order) and three observables are recorded per phase:
// which rules the phase loop handed to Rule.Evaluate (read from the engine's debug log), which rules
// were appended to tx.MatchedRules(), and the interruption / DetectionOnly interruption. Coq evaluates
// Flow.fl_run on the same abstract rule list + match bits; spec.go is the implementation-side oracle
// (the documented semantics written independently in Go).
package c08

import (
	"bytes"
	"encoding/json"
	"fmt"
	"os"
	"regexp"
	"strconv"
	"strings"

	"github.com/corazawaf/coraza/v3"
	"github.com/corazawaf/coraza/v3/debuglog"
	"github.com/corazawaf/coraza/v3/internal/corazawaf"
	"github.com/corazawaf/coraza/v3/verifharness/vh"
)

func init() { vh.Register("C08", Run) }

// ---- case description (JSON) ----

type actJ struct {
	A     string `json:"a"` // skip | skipAfter | allow | deny | block | pass
	N     int    `json:"n,omitempty"`
	M     string `json:"m,omitempty"`
	Scope string `json:"scope,omitempty"` // "" | phase | request
}

type linkJ struct {
	Key  int      `json:"key"`            // request header X<key>; -1 = no operator (SecAction)
	Body bool     `json:"body,omitempty"` // the link reads ARGS_POST:b<key> (urlencoded request body) instead of the header
	Rm   []int    `json:"rm,omitempty"`
	RmR  [][2]int `json:"rmr,omitempty"`  // ctl:ruleRemoveById=<lo>-<hi>
	Eng  string   `json:"eng,omitempty"`  // ctl:ruleEngine=<On|DetectionOnly|Off> on this link
	Acts []actJ   `json:"acts,omitempty"` // flow actions written on the link (inert on non-starters)
}

type ruleJ struct {
	Marker string `json:"marker,omitempty"` // SecMarker <name>
	// configure-time directives (exactly one of Marker / Default / Remove / a rule per entry)
	Default *defaultJ `json:"default,omitempty"` // SecDefaultAction "phase:P,<da>"
	Remove  []string  `json:"remove,omitempty"`  // SecRuleRemoveById <id|lo-hi> ...
	Inherit bool      `json:"inherit,omitempty"` // the rule is written without any disruptive action (inherits the default one)
	ID      int       `json:"id,omitempty"`
	Phase   int       `json:"phase,omitempty"`
	Links   []linkJ   `json:"links,omitempty"`
	Acts    []actJ    `json:"acts,omitempty"` // starter's flow/disruptive actions in written order
}

type defaultJ struct {
	Phase int    `json:"phase"`
	DA    string `json:"da"` // pass | deny | allow | allow:phase | allow:request
}

type obsJ struct {
	Evaluated [][]int `json:"evaluated"` // per phase 1..5; 0 = a marker
	Matched   [][]int `json:"matched"`
	Intr      []int   `json:"intr,omitempty"`  // [phase, rule id]
	DIntr     []int   `json:"dintr,omitempty"` // [phase, rule id]
}

// histStep: an earlier transaction of the same WAF (pooled Transaction object): its request and the
// last Process* call made before Close (1..4: the client went away, no ProcessLogging; 5: complete)
type histStep struct {
	Req  []bool `json:"req"`
	Stop int    `json:"stop"`
}

type caseJ struct {
	Engine     string     `json:"engine"` // configured SecRuleEngine: On | DetectionOnly | Off
	Rules      []ruleJ    `json:"rules"`
	Req        []bool     `json:"req"`
	History    []histStep `json:"history,omitempty"` // transactions run (and closed) on the same WAF before this one
	Shape      string     `json:"shape,omitempty"`
	Conf       string     `json:"conf,omitempty"`
	Obs        *obsJ      `json:"obs,omitempty"`
	FindingKey string     `json:"finding_key,omitempty"`
}

// ---- SecLang text of a rule set ----

func actText(a actJ) string {
	switch a.A {
	case "skip":
		return "skip:" + strconv.Itoa(a.N)
	case "skipAfter":
		return "skipAfter:" + a.M
	case "allow":
		if a.Scope == "" {
			return "allow"
		}
		return "allow:" + a.Scope
	case "deny":
		return "deny"
	case "drop":
		return "drop"
	case "redirect":
		return "redirect:http://r.example/"
	case "block":
		return "block"
	case "pass":
		return "pass"
	}
	panic("unknown action " + a.A)
}

func isDisruptive(a actJ) bool {
	switch a.A {
	case "allow", "deny", "drop", "redirect", "block", "pass":
		return true
	}
	return false
}

func normaliseBodyKeys(rules []ruleJ) []ruleJ {
	hdr := map[int]bool{}
	for _, r := range rules {
		for _, l := range r.Links {
			if !l.Body && l.Key >= 0 {
				hdr[l.Key] = true
			}
		}
	}
	out := append([]ruleJ{}, rules...)
	for i := range out {
		changed := false
		links := append([]linkJ{}, out[i].Links...)
		for j := range links {
			if links[j].Body && hdr[links[j].Key] {
				links[j].Body = false
				changed = true
			}
		}
		if changed {
			out[i].Links = links
		}
	}
	return out
}

func hasBodyKeys(rules []ruleJ) bool { return len(bodyKeySet(rules)) > 0 }

// bodyKeySet: which request bits are delivered through the urlencoded body
func bodyKeySet(rules []ruleJ) map[int]bool {
	m := map[int]bool{}
	for _, r := range rules {
		for _, l := range r.Links {
			if l.Body && l.Key >= 0 {
				m[l.Key] = true
			}
		}
	}
	return m
}

// writtenActs: the starter's flow/disruptive actions exactly as written (an explicit pass is put in front
// when the rule has no disruptive action and is not meant to inherit one)
func writtenActs(r ruleJ) []actJ {
	for _, a := range r.Acts {
		if isDisruptive(a) {
			return r.Acts
		}
	}
	if r.Inherit {
		return r.Acts
	}
	return append([]actJ{{A: "pass"}}, r.Acts...)
}

func confText(engine string, rules []ruleJ) string {
	var b strings.Builder
	b.WriteString("SecRuleEngine " + engine + "\n")
	if hasBodyKeys(rules) {
		b.WriteString("SecRequestBodyAccess On\n")
	}
	for _, r := range rules {
		if r.Marker != "" {
			b.WriteString("SecMarker " + r.Marker + "\n")
			continue
		}
		if r.Default != nil {
			b.WriteString(fmt.Sprintf("SecDefaultAction \"phase:%d,nolog,auditlog,%s\"\n", r.Default.Phase, r.Default.DA))
			continue
		}
		if len(r.Remove) > 0 {
			b.WriteString("SecRuleRemoveById " + strings.Join(r.Remove, " ") + "\n")
			continue
		}
		for j, l := range r.Links {
			var acts []string
			if j == 0 {
				acts = append(acts, "id:"+strconv.Itoa(r.ID), "phase:"+strconv.Itoa(r.Phase), "nolog")
				for _, a := range writtenActs(r) {
					acts = append(acts, actText(a))
				}
			} else {
				acts = append(acts, "nolog")
				for _, a := range l.Acts {
					acts = append(acts, actText(a))
				}
			}
			for _, id := range l.Rm {
				acts = append(acts, "ctl:ruleRemoveById="+strconv.Itoa(id))
			}
			for _, rg := range l.RmR {
				acts = append(acts, fmt.Sprintf("ctl:ruleRemoveById=%d-%d", rg[0], rg[1]))
			}
			if l.Eng != "" {
				acts = append(acts, "ctl:ruleEngine="+l.Eng)
			}
			if j+1 < len(r.Links) {
				acts = append(acts, "chain")
			}
			indent := strings.Repeat("  ", j)
			if l.Key < 0 {
				b.WriteString(indent + "SecAction \"" + strings.Join(acts, ",") + "\"\n")
			} else if l.Body {
				b.WriteString(indent + "SecRule ARGS_POST:b" + strconv.Itoa(l.Key) + " \"@streq 1\" \"" + strings.Join(acts, ",") + "\"\n")
			} else {
				b.WriteString(indent + "SecRule REQUEST_HEADERS:X" + strconv.Itoa(l.Key) + " \"@streq 1\" \"" + strings.Join(acts, ",") + "\"\n")
			}
		}
	}
	return b.String()
}

// ---- running the implementation ----

type engineUnderTest struct {
	waf      coraza.WAF
	buf      *bytes.Buffer
	bodyKeys map[int]bool
}

func newEngine(engine string, rules []ruleJ) (*engineUnderTest, string, error) {
	buf := &bytes.Buffer{}
	lg := debuglog.Default().WithOutput(buf).WithLevel(debuglog.LevelDebug)
	conf := confText(engine, rules)
	waf, err := coraza.NewWAF(coraza.NewWAFConfig().WithDebugLogger(lg).WithDirectives(conf))
	if err != nil {
		return nil, conf, err
	}
	return &engineUnderTest{waf: waf, buf: buf, bodyKeys: bodyKeySet(rules)}, conf, nil
}

var (
	rePhase  = regexp.MustCompile(`\] Evaluating phase .*\bphase=(\d+)`)
	reRuleID = regexp.MustCompile(`\brule_id=(\d+)`)
)

func parseEvaluated(log string) [][]int {
	ev := make([][]int, 5)
	for i := range ev {
		ev[i] = []int{}
	}
	cur := 0
	for _, line := range strings.Split(log, "\n") {
		if m := rePhase.FindStringSubmatch(line); m != nil {
			cur, _ = strconv.Atoi(m[1])
			continue
		}
		if !strings.Contains(line, "] Evaluating rule ") || strings.Contains(line, "chain_rule_ref=") {
			continue
		}
		id := 0 // rule_ref=...: a rule without id, i.e. a SecMarker
		if m := reRuleID.FindStringSubmatch(line); m != nil {
			id, _ = strconv.Atoi(m[1])
		}
		if cur >= 1 && cur <= 5 {
			ev[cur-1] = append(ev[cur-1], id)
		}
	}
	return ev
}

func (e *engineUnderTest) run(req []bool) (o *obsJ, fail string) { return e.runUpTo(req, 5) }

// runUpTo makes the Process* calls up to phase `stop` (5 = including ProcessLogging) and closes.
func (e *engineUnderTest) runUpTo(req []bool, stop int) (o *obsJ, fail string) {
	defer func() {
		if r := recover(); r != nil {
			fail = fmt.Sprintf("panic: %v", r)
		}
	}()
	e.buf.Reset()
	tx := e.waf.NewTransaction()
	itx := tx.(*corazawaf.Transaction)
	body := ""
	for k, on := range req {
		if on {
			// a key read through the body by some link and through the header by another gets both
			tx.AddRequestHeader("X"+strconv.Itoa(k), "1")
			if e.bodyKeys[k] {
				body += "b" + strconv.Itoa(k) + "=1&"
			}
		}
	}
	if len(e.bodyKeys) > 0 {
		body += "z=0"
		tx.AddRequestHeader("Content-Type", "application/x-www-form-urlencoded")
		tx.AddRequestHeader("Content-Length", strconv.Itoa(len(body)))
	}
	o = &obsJ{Matched: [][]int{{}, {}, {}, {}, {}}}
	seen := 0
	finish := func() (*obsJ, string) {
		o.Evaluated = parseEvaluated(e.buf.String())
		if err := tx.Close(); err != nil {
			return o, "Close: " + err.Error()
		}
		return o, ""
	}
	after := func(phase int) {
		mr := tx.MatchedRules()
		ids := []int{}
		for _, m := range mr[seen:] {
			ids = append(ids, m.Rule().ID())
		}
		seen = len(mr)
		o.Matched[phase-1] = ids
		if it := tx.Interruption(); it != nil && o.Intr == nil {
			o.Intr = []int{phase, it.RuleID}
		}
		if it := itx.DetectionOnlyInterruption(); it != nil && o.DIntr == nil {
			o.DIntr = []int{phase, it.RuleID}
		}
	}
	tx.ProcessRequestHeaders()
	after(1)
	if stop < 2 {
		return finish()
	}
	if body != "" {
		if _, _, err := tx.WriteRequestBody([]byte(body)); err != nil {
			return o, "WriteRequestBody: " + err.Error()
		}
	}
	if _, err := tx.ProcessRequestBody(); err != nil {
		return o, "ProcessRequestBody: " + err.Error()
	}
	after(2)
	if stop < 3 {
		return finish()
	}
	tx.ProcessResponseHeaders(200, "HTTP/1.1")
	after(3)
	if stop < 4 {
		return finish()
	}
	if _, err := tx.ProcessResponseBody(); err != nil {
		return o, "ProcessResponseBody: " + err.Error()
	}
	after(4)
	if stop < 5 {
		return finish()
	}
	tx.ProcessLogging()
	after(5)
	return finish()
}

// ---- Coq terms ----

func markerIndex(rules []ruleJ) map[string]int {
	idx := map[string]int{}
	add := func(n string) {
		if _, ok := idx[n]; !ok {
			idx[n] = len(idx)
		}
	}
	for _, r := range rules {
		if r.Marker != "" {
			add(r.Marker)
		}
		for _, a := range r.Acts {
			if a.A == "skipAfter" {
				add(a.M)
			}
		}
		for _, l := range r.Links {
			for _, a := range l.Acts {
				if a.A == "skipAfter" {
					add(a.M)
				}
			}
		}
	}
	return idx
}

func natList(l []int) string {
	items := make([]string, len(l))
	for i, x := range l {
		items[i] = strconv.Itoa(x)
	}
	return vh.List(items)
}

func actsTerm(acts []actJ, mi map[string]int) string {
	items := make([]string, len(acts))
	for i, a := range acts {
		switch a.A {
		case "skip":
			items[i] = "ASkip " + strconv.Itoa(a.N)
		case "skipAfter":
			items[i] = "ASkipAfter " + strconv.Itoa(mi[a.M])
		case "allow":
			sc := "ScAll"
			if a.Scope == "phase" {
				sc = "ScPhase"
			} else if a.Scope == "request" {
				sc = "ScRequest"
			}
			items[i] = "AAllow " + sc
		case "deny", "drop", "redirect":
			items[i] = "ADeny" // drop and redirect interrupt exactly like deny (tx.Interrupt)
		}
	}
	return vh.List(items)
}

func rulesTerm(rules []ruleJ) string {
	mi := markerIndex(rules)
	items := make([]string, len(rules))
	for i, r := range rules {
		if r.Marker != "" {
			items[i] = "fl_marker " + strconv.Itoa(mi[r.Marker])
			continue
		}
		ls := make([]string, len(r.Links))
		for j, l := range r.Links {
			key := "None"
			if l.Key >= 0 {
				key = "(K " + strconv.Itoa(l.Key) + ")"
			}
			la := l.Acts
			if j == 0 {
				la = nil
			}
			ls[j] = "mkLink " + key + " " + rmTerm(l.Rm, l.RmR) + " " + optMode(l.Eng) + " " + actsTerm(la, mi)
		}
		items[i] = fmt.Sprintf("mkRule %d %d None %s %s", r.ID, r.Phase, vh.List(ls), actsTerm(r.Acts, mi))
	}
	return vh.List(items)
}

func rmTerm(ids []int, ranges [][2]int) string {
	t := natList(ids)
	for _, rg := range ranges {
		t = fmt.Sprintf("(%s ++ fl_range %d %d)", t, rg[0], rg[1])
	}
	return t
}

func oneAct(a actJ, mi map[string]int) string {
	s := actsTerm([]actJ{a}, mi)
	return s[1 : len(s)-1]
}

// directivesTerm prints the configuration as a list of Flow.fl_directive (fl_configure resolves
// SecDefaultAction/block and SecRuleRemoveById inside Coq)
func directivesTerm(rules []ruleJ) string {
	mi := markerIndex(rules)
	items := make([]string, len(rules))
	for i, r := range rules {
		switch {
		case r.Marker != "":
			items[i] = "DRule (fl_marker " + strconv.Itoa(mi[r.Marker]) + ") []"
		case r.Default != nil:
			da := "None"
			switch r.Default.DA {
			case "deny":
				da = "(Some ADeny)"
			case "allow":
				da = "(Some (AAllow ScAll))"
			case "allow:phase":
				da = "(Some (AAllow ScPhase))"
			case "allow:request":
				da = "(Some (AAllow ScRequest))"
			case "pass":
			default:
				panic("unknown default action " + r.Default.DA)
			}
			items[i] = fmt.Sprintf("DDefault %d %s", r.Default.Phase, da)
		case len(r.Remove) > 0:
			var ids []int
			var ranges []string
			var es []string
			_ = ids
			_ = ranges
			for _, tok := range r.Remove {
				if lo, hi, ok := strings.Cut(tok, "-"); ok {
					es = append(es, "RmRange "+lo+" "+hi)
				} else {
					es = append(es, "RmId "+tok)
				}
			}
			items[i] = "DRemove " + vh.List(es)
		default:
			ls := make([]string, len(r.Links))
			for j, l := range r.Links {
				key := "None"
				if l.Key >= 0 {
					key = "(K " + strconv.Itoa(l.Key) + ")"
				}
				la := l.Acts
				if j == 0 {
					la = nil
				}
				ls[j] = "mkLink " + key + " " + rmTerm(l.Rm, l.RmR) + " " + optMode(l.Eng) + " " + actsTerm(la, mi)
			}
			var sa []string
			for _, a := range writtenActs(r) {
				switch a.A {
				case "pass":
					sa = append(sa, "SPass")
				case "block":
					sa = append(sa, "SBlock")
				default:
					sa = append(sa, "SA ("+oneAct(a, mi)+")")
				}
			}
			items[i] = fmt.Sprintf("DRule (mkRule %d %d None %s []) %s", r.ID, r.Phase, vh.List(ls), vh.List(sa))
		}
	}
	return vh.List(items)
}

func modeTerm(m string) string {
	switch m {
	case "On":
		return "MOn"
	case "DetectionOnly":
		return "MDet"
	case "Off":
		return "MOff"
	}
	panic("unknown engine mode " + m)
}

func optMode(m string) string {
	if m == "" {
		return "None"
	}
	return "(Some " + modeTerm(m) + ")"
}

func boolList(l []bool) string {
	items := make([]string, len(l))
	for i, x := range l {
		items[i] = vh.Bool(x)
	}
	return vh.List(items)
}

func natLists(l [][]int) string {
	items := make([]string, len(l))
	for i, x := range l {
		items[i] = natList(x)
	}
	return vh.List(items)
}

func optPair(p []int) string {
	if p == nil {
		return "None"
	}
	return fmt.Sprintf("(P %d %d)", p[0], p[1])
}

// modelReq: the match bits as the engine can see them. A body-delivered bit is invisible when the
// request body was never processed, i.e. when the transaction was interrupted in phase 1
// (ProcessRequestBody returns before the body processor); phase-1 rules never read body bits, so the
// phase-1 outcome does not depend on this.
func modelReq(c *caseJ) []bool {
	if c.Obs == nil || c.Obs.Intr == nil || c.Obs.Intr[0] != 1 {
		return c.Req
	}
	bk := bodyKeySet(c.Rules)
	if len(bk) == 0 {
		return c.Req
	}
	req := append([]bool{}, c.Req...)
	for k := range req {
		if bk[k] {
			req[k] = false
		}
	}
	return req
}

func caseTerm(rulesName string, c *caseJ) string {
	return fmt.Sprintf("Case %s %s %s %s %s %s %s", modeTerm(c.Engine), rulesName, boolList(modelReq(c)),
		natLists(c.Obs.Evaluated), natLists(c.Obs.Matched), optPair(c.Obs.Intr), optPair(c.Obs.DIntr))
}

// ---- driver ----

type ruleSet struct {
	Engine string
	Rules  []ruleJ
	Shape  string
	Reqs   [][]bool
	Hists  [][]histStep // optional, parallel to Reqs: earlier transactions on the same WAF
}

func nKeys(rules []ruleJ) int {
	n := 0
	for _, r := range rules {
		for _, l := range r.Links {
			if l.Key+1 > n {
				n = l.Key + 1
			}
		}
	}
	return n
}

const shardSize = 1500

func Run(cfg vh.Config) (*vh.Result, error) {
	res := &vh.Result{InputDistribution: map[string]int{}}
	res.Rule = "a case is non-trivial when, per the documented semantics, at least one rule with a skip/skipAfter/allow/deny action fired (all links matched, rule evaluated) in the transaction"
	dist := vh.Counter(res.InputDistribution)

	var sets []ruleSet
	if cfg.Replay != "" {
		raw, err := os.ReadFile(cfg.Replay)
		if err != nil {
			return nil, err
		}
		var wrap struct {
			Case json.RawMessage `json:"case"`
		}
		doc := raw
		if json.Unmarshal(raw, &wrap) == nil && len(wrap.Case) > 0 {
			doc = wrap.Case
		}
		var c caseJ
		if err := json.Unmarshal(doc, &c); err != nil {
			return nil, err
		}
		sets = append(sets, ruleSet{Engine: c.Engine, Rules: c.Rules, Shape: "replay", Reqs: [][]bool{c.Req}, Hists: [][]histStep{c.History}})
	} else {
		docs, names := vh.LoadCorpus(cfg.Corpus)
		for i, d := range docs {
			var c caseJ
			if err := json.Unmarshal(d, &c); err != nil {
				return nil, fmt.Errorf("corpus %s: %v", names[i], err)
			}
			sets = append(sets, ruleSet{Engine: c.Engine, Rules: c.Rules, Shape: "corpus:" + names[i], Reqs: [][]bool{c.Req}, Hists: [][]histStep{c.History}})
		}
		sets = append(sets, generate(cfg)...)
	}

	// a request bit is delivered either through a header or through the body: a key read both ways
	// (possible when keys are shared between links) is read through the header everywhere. Applied to
	// every set (generated, corpus, replay) without drawing random numbers.
	for i := range sets {
		sets[i].Rules = normaliseBodyKeys(sets[i].Rules)
	}

	var (
		terms   []string
		cases   []any
		prelude strings.Builder
		shardNo int
		nontriv = map[string]bool{}
	)
	prelude.WriteString("Open Scope nat_scope.\n")
	flush := func() error {
		if len(terms) == 0 {
			return nil
		}
		info, err := vh.WriteShard(cfg.OutDir, vh.Shard{
			Name:      fmt.Sprintf("C08_%d", shardNo),
			Imports:   "From Verif Require Import Base Flow CorrC08.",
			CaseType:  "CorrC08.case",
			MismatchF: "CorrC08.mismatches",
			Terms:     terms, Cases: cases, Prelude: prelude.String(),
		})
		if err != nil {
			return err
		}
		res.Shards = append(res.Shards, info)
		shardNo++
		terms, cases = nil, nil
		prelude.Reset()
		prelude.WriteString("Open Scope nat_scope.\n")
		return nil
	}

	for si, set := range sets {
		eng, conf, err := newEngine(set.Engine, set.Rules)
		if err != nil {
			// every generated configuration is valid SecLang (all of them compile on the unchanged
			// tree): a rejection is reported and the run goes on, so semantic mismatches show as well
			rej := &caseJ{Engine: set.Engine, Rules: set.Rules, Shape: set.Shape, Conf: conf}
			if len(set.Reqs) > 0 {
				rej.Req = set.Reqs[0]
			}
			res.OracleFailures = append(res.OracleFailures, vh.OracleFailure{Key: "c08-ruleset-rejected",
				What: fmt.Sprintf("the parser rejects a valid configuration: %v", err), Case: rej})
			continue
		}
		name := fmt.Sprintf("rs_%d", si)
		configured, ckinds := configure(set.Rules)
		for _, k := range ckinds {
			dist.Inc("configure:" + k)
		}
		fmt.Fprintf(&prelude, "Definition %s : list fl_rule := fl_configure %s.\n", name, directivesTerm(set.Rules))
		for ri, req := range set.Reqs {
			c := &caseJ{Engine: set.Engine, Rules: set.Rules, Req: req, Shape: set.Shape, Conf: conf}
			if ri < len(set.Hists) && len(set.Hists[ri]) > 0 {
				// SERIES: earlier transactions on the same WAF (same pooled object), possibly ended early
				c.History = set.Hists[ri]
				for hi, h := range c.History {
					hobs, hfail := eng.runUpTo(h.Req, h.Stop)
					res.OracleEvaluations++
					hc := &caseJ{Engine: set.Engine, Rules: set.Rules, Req: h.Req, History: c.History[:hi], Shape: set.Shape + fmt.Sprintf("/history-step-stop%d", h.Stop), Conf: conf}
					if hfail != "" {
						res.OracleFailures = append(res.OracleFailures, vh.OracleFailure{Key: "c08-run-failed", What: hfail, Case: hc})
						continue
					}
					if d := seriesVsFresh(set, h.Req, h.Stop, hobs); d != "" {
						res.OracleFailures = append(res.OracleFailures, vh.OracleFailure{Key: "c08-series-differs-from-fresh",
							What: fmt.Sprintf("transaction %d of a series on one WAF differs from the same transaction on a fresh WAF: %s", hi+1, d), Case: hc})
					}
				}
			}
			obs, fail := eng.run(req)
			if fail == "" && len(c.History) > 0 {
				res.OracleEvaluations++
				dist.Inc("series:final-transactions")
				if d := seriesVsFresh(set, req, 5, obs); d != "" {
					res.OracleFailures = append(res.OracleFailures, vh.OracleFailure{Key: "c08-series-differs-from-fresh",
						What: "the last transaction of a series on one WAF differs from the same transaction on a fresh WAF: " + d, Case: c})
				}
			}
			res.Evaluations++
			if fail != "" {
				res.OracleFailures = append(res.OracleFailures, vh.OracleFailure{Key: "c08-run-failed", What: fail, Case: c})
				continue
			}
			c.Obs = obs
			// implementation-side oracle: the documented semantics, directly
			want, kinds := specRun(set.Engine, configured, req)
			fired := len(kinds)
			res.OracleEvaluations++
			if d := diffObs(want, obs); d != "" {
				res.OracleFailures = append(res.OracleFailures, vh.OracleFailure{Key: "c08-spec-mismatch",
					What: "implementation differs from the documented flow semantics: " + d, Case: c})
			}
			if fired > 0 {
				nontriv[name+"/"+boolList(req)] = true
			}
			classify(dist, set, want, kinds)
			terms = append(terms, caseTerm(name, c))
			cases = append(cases, c)
			if len(res.Samples) < 4 && fired > 0 && si%7 == 0 {
				res.Samples = append(res.Samples, c)
			}
		}
		if len(terms) >= shardSize {
			if err := flush(); err != nil {
				return nil, err
			}
		}
	}
	if err := flush(); err != nil {
		return nil, err
	}
	res.DistinctNontrivial = len(nontriv)
	res.Exhaustive = false
	res.Notes = append(res.Notes, fmt.Sprintf("%d rule sets, %d transactions", len(sets), res.Evaluations))
	return res, nil
}

// seriesVsFresh runs the same (possibly truncated) transaction on a WAF of its own and compares.
func seriesVsFresh(set ruleSet, req []bool, stop int, got *obsJ) string {
	fresh, _, err := newEngine(set.Engine, set.Rules)
	if err != nil {
		return "fresh WAF: " + err.Error()
	}
	want, fail := fresh.runUpTo(req, stop)
	if fail != "" {
		return "fresh WAF: " + fail
	}
	return diffObs(want, got)
}

func diffObs(want, got *obsJ) string {
	for p := 0; p < 5; p++ {
		if fmt.Sprint(want.Evaluated[p]) != fmt.Sprint(got.Evaluated[p]) {
			return fmt.Sprintf("phase %d evaluated: documented %v, observed %v", p+1, want.Evaluated[p], got.Evaluated[p])
		}
		if fmt.Sprint(want.Matched[p]) != fmt.Sprint(got.Matched[p]) {
			return fmt.Sprintf("phase %d matched: documented %v, observed %v", p+1, want.Matched[p], got.Matched[p])
		}
	}
	if fmt.Sprint(want.Intr) != fmt.Sprint(got.Intr) {
		return fmt.Sprintf("interruption: documented %v, observed %v", want.Intr, got.Intr)
	}
	if fmt.Sprint(want.DIntr) != fmt.Sprint(got.DIntr) {
		return fmt.Sprintf("detection-only interruption: documented %v, observed %v", want.DIntr, got.DIntr)
	}
	return ""
}
