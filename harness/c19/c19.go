// Package c19 drives the correspondence for C19 (audit and error logging record exactly what
// happened, once, intact): real WAFs built from generated directives, a capturing audit-log writer
// registered through the plugin API (or the serial writer into a temp file), the error callback;
// the observed records / callbacks / interruptions are compared with the Gallina model of Audit.v.
// Direct calls of types.ParseAuditLogParts / ApplyAuditLogParts and of the native formatter on
// captured and synthetic logs complete the correspondence. Implementation-side oracles: JSON
// records parse and sit on one line, native records scan back to their parts, the transaction id
// is present, and the concurrency run (G goroutines sharing one serial/concurrent writer).
package c19

import (
	"bytes"
	"encoding/hex"
	"encoding/json"
	"fmt"
	"math/rand"
	"net/http"
	"os"
	"path/filepath"
	"regexp"
	"sort"
	"strconv"
	"strings"
	"sync"

	"github.com/corazawaf/coraza/v3"
	"github.com/corazawaf/coraza/v3/experimental/plugins"
	"github.com/corazawaf/coraza/v3/experimental/plugins/plugintypes"
	"github.com/corazawaf/coraza/v3/internal/auditlog"
	"github.com/corazawaf/coraza/v3/internal/corazawaf"
	"github.com/corazawaf/coraza/v3/internal/seclang"
	"github.com/corazawaf/coraza/v3/types"
	"github.com/corazawaf/coraza/v3/verifharness/vh"
)

const writerName = "verifc19"

// capWriter is the plugin audit-log writer: it keeps the records it is given.
type capWriter struct {
	mu   sync.Mutex
	recs []plugintypes.AuditLog
	fmtr plugintypes.AuditLogFormatter
}

func (w *capWriter) Init(c plugintypes.AuditLogConfig) error { w.fmtr = c.Formatter; return nil }
func (w *capWriter) Write(al plugintypes.AuditLog) error {
	w.mu.Lock()
	w.recs = append(w.recs, al)
	w.mu.Unlock()
	return nil
}
func (w *capWriter) Close() error { return nil }

var curWriter *capWriter

func init() {
	vh.Register("C19", Run)
	plugins.RegisterAuditLogWriter(writerName, func() plugintypes.AuditLogWriter { return curWriter })
}

// ---- case descriptions (also the corpus / replay format) ----

type defJSON struct {
	Phase int      `json:"phase"`
	Acts  []string `json:"acts"`
}

type ruleJSON struct {
	ID     int      `json:"id"`
	Phase  int      `json:"phase"`
	Kind   string   `json:"kind"` // action | args | nomatch
	Acts   []string `json:"acts,omitempty"`
	Ctls   []string `json:"ctls,omitempty"` // auditEngine=On, auditLogParts=+E (value hex-free ASCII), ruleEngine=Off
	Disr   string   `json:"disr"`           // pass | deny | drop | redirect
	Status int      `json:"status,omitempty"`
	// flow: chained rules (kinds of the links), skip:N, skipAfter:<marker>, and Disr may be allow / allow:phase / allow:request;
	// Kind "marker" is `SecMarker m<Marker>`
	Chain     []string `json:"chain,omitempty"`
	Skip      int      `json:"skip,omitempty"`
	SkipAfter int      `json:"skip_after,omitempty"` // marker number, 0 = none
	Marker    int      `json:"marker,omitempty"`
}

type msgJSON struct {
	Rule int  `json:"rule"`
	Data bool `json:"data"`
	Err  bool `json:"err"`
}

type recJSON struct {
	ID      string    `json:"id"`
	Parts   string    `json:"parts"`
	Msgs    []msgJSON `json:"msgs"`
	HasResp bool      `json:"has_resp"`
}

type caseJSON struct {
	Kind       string `json:"kind"` // tx | parse | apply | native | file
	FindingKey string `json:"finding_key,omitempty"`
	// tx
	AuditEngine string     `json:"audit_engine,omitempty"`
	RuleEngine  string     `json:"rule_engine,omitempty"`
	Parts       string     `json:"parts,omitempty"` // "" = no SecAuditLogParts directive
	Pattern     string     `json:"pattern,omitempty"`
	Format      string     `json:"format,omitempty"` // native | json
	Writer      string     `json:"writer,omitempty"` // plugin | serial
	Callback    bool       `json:"callback,omitempty"`
	Defaults    []defJSON  `json:"defaults,omitempty"`
	Rules       []ruleJSON `json:"rules,omitempty"`
	NArgs       int        `json:"nargs,omitempty"`
	Last        int        `json:"last,omitempty"`
	Code        int        `json:"code,omitempty"`
	TxID        string     `json:"txid,omitempty"`
	ReqBodyHex  string     `json:"req_body_hex,omitempty"`
	RespBodyHex string     `json:"resp_body_hex,omitempty"`
	// tx observations
	Recs []recJSON `json:"recs,omitempty"`
	Cbs  []int     `json:"cbs,omitempty"`
	Intr *int      `json:"intr,omitempty"`
	Det  *int      `json:"det,omitempty"`
	// parse / apply
	SHex    string  `json:"s_hex,omitempty"`
	BaseHex string  `json:"base_hex,omitempty"`
	ResHex  *string `json:"res_hex,omitempty"`
	// native (synthetic or captured): the Coq term is self-contained, JSON keeps the essentials
	OutHex string `json:"out_hex,omitempty"`
	Note   string `json:"note,omitempty"`
	// native / file cases carry what is needed to re-run them
	Tx      *caseJSON `json:"tx,omitempty"`       // the transaction the log / file was captured from
	SynSeed int64     `json:"syn_seed,omitempty"` // seed of a synthetic log
	SynIdx  int       `json:"syn_idx,omitempty"`
	// series: several transactions on one WAF; Focus = index of the transaction this case is about
	Series []txSpec `json:"series,omitempty"`
	Focus  int      `json:"focus,omitempty"`
	// reject: a configuration the parser must refuse
	Directives string `json:"directives,omitempty"`
}

// ---- directive text ----

func ruleText(r ruleJSON) string {
	if r.Kind == "marker" {
		return fmt.Sprintf("SecMarker m%d", r.Marker)
	}
	var acts []string
	acts = append(acts, "id:"+strconv.Itoa(r.ID), "phase:"+strconv.Itoa(r.Phase))
	acts = append(acts, r.Acts...)
	for _, c := range r.Ctls {
		acts = append(acts, "ctl:"+c)
	}
	if r.Skip > 0 {
		acts = append(acts, "skip:"+strconv.Itoa(r.Skip))
	}
	if r.SkipAfter > 0 {
		acts = append(acts, fmt.Sprintf("skipAfter:m%d", r.SkipAfter))
	}
	acts = append(acts, r.Disr)
	if r.Disr == "redirect" {
		acts[len(acts)-1] = "redirect:http://e.invalid/"
	}
	if r.Status != 0 {
		acts = append(acts, "status:"+strconv.Itoa(r.Status))
	}
	if len(r.Chain) > 0 {
		acts = append(acts, "chain")
	}
	al := strings.Join(acts, ",")
	var b strings.Builder
	switch r.Kind {
	case "args":
		b.WriteString(`SecRule ARGS_GET "@rx ." "` + al + `"`)
	case "nomatch":
		b.WriteString(`SecRule ARGS_GET:zzz "@rx ." "` + al + `"`)
	default:
		b.WriteString(`SecAction "` + al + `"`)
	}
	for i, k := range r.Chain {
		target := "REQUEST_METHOD"
		switch k {
		case "args":
			target = "ARGS_GET"
		case "nomatch":
			target = "ARGS_GET:zzz"
		}
		la := "t:none"
		if i+1 < len(r.Chain) {
			la += ",chain"
		}
		b.WriteString("\n  SecRule " + target + ` "@rx ." "` + la + `"`)
	}
	return b.String()
}

func directives(c *caseJSON, target string) string {
	var b strings.Builder
	fmt.Fprintf(&b, "SecRuleEngine %s\n", c.RuleEngine)
	fmt.Fprintf(&b, "SecAuditEngine %s\n", c.AuditEngine)
	if c.Parts != "" {
		fmt.Fprintf(&b, "SecAuditLogParts %s\n", c.Parts)
	}
	if c.Pattern != "" {
		fmt.Fprintf(&b, "SecAuditLogRelevantStatus \"%s\"\n", c.Pattern)
	}
	fmt.Fprintf(&b, "SecAuditLogFormat %s\n", c.Format)
	if c.Writer == "serial" {
		fmt.Fprintf(&b, "SecAuditLogType serial\nSecAuditLog %s\n", target)
	} else {
		fmt.Fprintf(&b, "SecAuditLogType %s\nSecAuditLog /dev/null\n", writerName)
	}
	if c.ReqBodyHex != "" {
		b.WriteString("SecRequestBodyAccess On\n")
	}
	if c.RespBodyHex != "" {
		b.WriteString("SecResponseBodyAccess On\nSecResponseBodyMimeType text/plain\n")
	}
	for _, d := range c.Defaults {
		fmt.Fprintf(&b, "SecDefaultAction \"phase:%d,%s,pass\"\n", d.Phase, strings.Join(d.Acts, ","))
	}
	for _, r := range c.Rules {
		b.WriteString(ruleText(r) + "\n")
	}
	return b.String()
}

// ---- running one transaction ----

type txAPI interface {
	ProcessConnection(client string, cPort int, server string, sPort int)
	ProcessURI(uri string, method string, httpVersion string)
	AddRequestHeader(key string, value string)
	ProcessRequestHeaders() *types.Interruption
	WriteRequestBody(b []byte) (*types.Interruption, int, error)
	ProcessRequestBody() (*types.Interruption, error)
	AddResponseHeader(key string, value string)
	ProcessResponseHeaders(code int, proto string) *types.Interruption
	WriteResponseBody(b []byte) (*types.Interruption, int, error)
	ProcessResponseBody() (*types.Interruption, error)
	ProcessLogging()
	Interruption() *types.Interruption
	Close() error
	ID() string
}

func uriFor(nargs int) string {
	var q []string
	for i := 0; i < nargs; i++ {
		q = append(q, fmt.Sprintf("a%d=1", i))
	}
	if len(q) == 0 {
		return "/p"
	}
	return "/p?" + strings.Join(q, "&")
}

// drive behaves like a connector: phases in order up to `last`, stopping at the first interruption,
// then the logging phase, exactly once.
func drive(tx txAPI, c *caseJSON) {
	tx.ProcessConnection("10.1.2.3", 4321, "10.9.8.7", 8080)
	tx.ProcessURI(uriFor(c.NArgs), "GET", "HTTP/1.1")
	tx.AddRequestHeader("Host", "example.test")
	tx.AddRequestHeader("Host", "second.test")
	var it *types.Interruption
	if c.Last >= 1 {
		it = tx.ProcessRequestHeaders()
	}
	if it == nil && c.Last >= 2 {
		if c.ReqBodyHex != "" {
			body, _ := hex.DecodeString(c.ReqBodyHex)
			it, _, _ = tx.WriteRequestBody(body)
		}
		if it == nil {
			it, _ = tx.ProcessRequestBody()
		}
	}
	if it == nil && c.Last >= 3 {
		tx.AddResponseHeader("Content-Type", "text/plain")
		it = tx.ProcessResponseHeaders(c.Code, "HTTP/1.1")
	}
	if it == nil && c.Last >= 4 {
		if c.RespBodyHex != "" {
			body, _ := hex.DecodeString(c.RespBodyHex)
			it, _, _ = tx.WriteResponseBody(body)
		}
		if it == nil {
			_, _ = tx.ProcessResponseBody()
		}
	}
	tx.ProcessLogging()
}

var idRx = regexp.MustCompile(`\[id "(\d+)"\]`)

func errMessageOf(m plugintypes.AuditLogMessage) string {
	if e, ok := m.(interface{ ErrorMessage() string }); ok {
		return e.ErrorMessage()
	}
	return ""
}

func dataOf(m plugintypes.AuditLogMessage) *auditlog.MessageData {
	d, ok := m.Data().(*auditlog.MessageData)
	if !ok || d == nil {
		return nil
	}
	return d
}

func partsString(p types.AuditLogParts) string {
	b := make([]byte, len(p))
	for i, x := range p {
		b[i] = byte(x)
	}
	return string(b)
}

func recOf(al plugintypes.AuditLog) recJSON {
	r := recJSON{ID: al.Transaction().ID(), Parts: partsString(al.Parts()), HasResp: al.Transaction().HasResponse(), Msgs: []msgJSON{}}
	for _, m := range al.Messages() {
		em := errMessageOf(m)
		mj := msgJSON{Err: em != ""}
		if d := dataOf(m); d != nil {
			mj.Data = true
			mj.Rule = d.ID()
		} else if sm := idRx.FindStringSubmatch(em); sm != nil {
			mj.Rule, _ = strconv.Atoi(sm[1])
		}
		r.Msgs = append(r.Msgs, mj)
	}
	return r
}

type jsonLine struct {
	Transaction struct {
		ID       string           `json:"id"`
		Response *json.RawMessage `json:"response"`
	} `json:"transaction"`
	Messages []struct {
		ErrorMessage string `json:"error_message"`
		Data         *struct {
			ID int `json:"id"`
		} `json:"data"`
	} `json:"messages"`
}

func recOfJSONLine(line []byte) (recJSON, error) {
	var jl jsonLine
	if err := json.Unmarshal(line, &jl); err != nil {
		return recJSON{}, err
	}
	r := recJSON{ID: jl.Transaction.ID, HasResp: jl.Transaction.Response != nil, Msgs: []msgJSON{}}
	for _, m := range jl.Messages {
		mj := msgJSON{Err: m.ErrorMessage != ""}
		if m.Data != nil {
			mj.Data = true
			mj.Rule = m.Data.ID
		} else if sm := idRx.FindStringSubmatch(m.ErrorMessage); sm != nil {
			mj.Rule, _ = strconv.Atoi(sm[1])
		}
		r.Msgs = append(r.Msgs, mj)
	}
	return r, nil
}

// scanNative reads a native record the way a consumer does: the boundary prefix from the first
// line, then every line of the form prefix+X+"--".
func scanNative(out []byte) (pre string, letters string, aLine string) {
	if len(out) < 17 || out[0] != '-' || out[1] != '-' {
		return "", "", ""
	}
	pre = string(out[:13])
	lines := strings.Split(string(out), "\n")
	for i, ln := range lines {
		if len(ln) == len(pre)+3 && strings.HasPrefix(ln, pre) && strings.HasSuffix(ln, "--") {
			letters += string(ln[len(pre)])
			if ln[len(pre)] == 'A' && aLine == "" && i+1 < len(lines) {
				aLine = lines[i+1]
			}
		}
	}
	return
}

func idOfALine(a string) string {
	// [2006/01/02 15:04:05] id ip port ip port
	f := strings.Split(a, " ")
	if len(f) >= 3 {
		return f[2]
	}
	return ""
}

type runner struct {
	cfg              vh.Config
	res              *vh.Result
	tmp              string
	terms            []string
	cases            []any
	seen             map[string]bool
	nontriv          int
	nfile            int
	ncap, capLimit   int
	quiet            bool
	njdoc, jdocLimit int
}

func (rn *runner) dist(k string) {
	if !rn.quiet {
		rn.res.InputDistribution[k]++
	}
}

func (rn *runner) fail(key, what string, c any) {
	if rn.quiet {
		return
	}
	rn.res.OracleFailures = append(rn.res.OracleFailures, vh.OracleFailure{Key: key, What: what, Case: c})
}

func (rn *runner) add(term string, c *caseJSON, nontrivial bool, distinctKey string) {
	if rn.quiet {
		return
	}
	rn.terms = append(rn.terms, term)
	rn.cases = append(rn.cases, c)
	rn.res.Evaluations++
	if !rn.seen[distinctKey] {
		rn.seen[distinctKey] = true
		if nontrivial {
			rn.nontriv++
		}
	}
}

// ---- Coq printers ----

func aeTerm(s string) string {
	switch strings.ToLower(s) {
	case "on":
		return "AEOn"
	case "off":
		return "AEOff"
	case "relevantonly":
		return "AERelevant"
	}
	return ""
}

func reTerm(s string) string {
	switch strings.ToLower(s) {
	case "on":
		return "REOn"
	case "off":
		return "REOff"
	case "detectiononly":
		return "REDetect"
	}
	return ""
}

func logactTerm(s string) string {
	switch s {
	case "log":
		return "LLog"
	case "nolog":
		return "LNolog"
	case "auditlog":
		return "LAuditlog"
	case "noauditlog":
		return "LNoauditlog"
	}
	panic("logact " + s)
}

func ctlTerm(s string) string {
	k, v, _ := strings.Cut(s, "=")
	switch k {
	case "auditEngine":
		t := aeTerm(v)
		return "CtlAudit " + vh.OptionOf(t != "", t)
	case "ruleEngine":
		t := reTerm(v)
		return "CtlRuleEngine " + vh.OptionOf(t != "", t)
	case "auditLogParts":
		return "CtlParts " + vh.HxS(v)
	}
	panic("ctl " + s)
}

func disrTerm(s string) string {
	switch s {
	case "deny":
		return "DDeny"
	case "drop":
		return "DDrop"
	case "redirect":
		return "DRedirect"
	}
	return "DPass"
}

func kindMatches(kind string, nargs int) int {
	switch kind {
	case "args":
		return nargs
	case "nomatch":
		return 0
	}
	return 1
}

func ruleTerm(r ruleJSON, nargs int) string {
	if r.Kind == "marker" {
		return fmt.Sprintf("(Build_rule 0 0 [] [] DPass 0 1%%nat [] 0%%nat None ANone (Some %d))", r.Marker)
	}
	var la, ct, ch []string
	for _, a := range r.Acts {
		la = append(la, logactTerm(a))
	}
	for _, c := range r.Ctls {
		ct = append(ct, ctlTerm(c))
	}
	for _, k := range r.Chain {
		ch = append(ch, vh.Nat(kindMatches(k, nargs)))
	}
	after := "None"
	if r.SkipAfter > 0 {
		after = fmt.Sprintf("(Some %d)", r.SkipAfter)
	}
	allow := "ANone"
	switch r.Disr {
	case "allow":
		allow = "AAll"
	case "allow:phase":
		allow = "APhase"
	case "allow:request":
		allow = "ARequest"
	}
	return fmt.Sprintf("(Build_rule %d %d %s %s %s %d %s %s %s %s %s None)", r.ID, r.Phase, vh.List(la), vh.List(ct), disrTerm(r.Disr), r.Status,
		vh.Nat(kindMatches(r.Kind, nargs)), vh.List(ch), vh.Nat(r.Skip), after, allow)
}

func recTerm(r recJSON) string {
	var ms []string
	for _, m := range r.Msgs {
		ms = append(ms, fmt.Sprintf("Build_msg %d %s %s", m.Rule, vh.Bool(m.Data), vh.Bool(m.Err)))
	}
	return fmt.Sprintf("(Build_record %s %s %s %s)", vh.HxS(r.ID), vh.HxS(r.Parts), vh.List(ms), vh.Bool(r.HasResp))
}

func optN(p *int) string {
	if p == nil {
		return "None"
	}
	return fmt.Sprintf("(Some %d)", *p)
}

func effParts(c *caseJSON) string {
	if c.Parts == "" {
		return "ABCFHZ" // cross-checked against the real WAF's default in checkDefaultParts
	}
	return c.Parts
}

// status strings the decision may consult: the response code, the unset variable, every
// interruption status a rule may ask for
func candidateStatuses(c *caseJSON) []string {
	set := map[string]bool{"": true, strconv.Itoa(c.Code): true}
	for _, r := range c.Rules {
		switch r.Disr {
		case "deny":
			if r.Status == 0 {
				set["403"] = true
			} else {
				set[strconv.Itoa(r.Status)] = true
			}
		case "drop":
			set[strconv.Itoa(r.Status)] = true
		case "redirect":
			set["302"] = true
			set[strconv.Itoa(r.Status)] = true
		}
	}
	var l []string
	for s := range set {
		l = append(l, s)
	}
	sort.Strings(l)
	return l
}

func txTerm(c *caseJSON) string {
	var defs []string
	for _, d := range c.Defaults {
		var la []string
		for _, a := range d.Acts {
			la = append(la, logactTerm(a))
		}
		defs = append(defs, fmt.Sprintf("(%d, %s)", d.Phase, vh.List(la)))
	}
	cfgT := fmt.Sprintf("(Build_cfg %s %s %s %s %s %s)", aeTerm(c.AuditEngine), reTerm(c.RuleEngine), vh.HxS(effParts(c)),
		vh.Bool(c.Pattern != ""), vh.Bool(c.Callback), vh.List(defs))
	var rel []string
	if c.Pattern != "" {
		re := regexp.MustCompile(c.Pattern)
		for _, s := range candidateStatuses(c) {
			rel = append(rel, fmt.Sprintf("(%s, %s)", vh.HxS(s), vh.Bool(re.MatchString(s))))
		}
	}
	var rules []string
	for _, r := range c.Rules {
		rules = append(rules, ruleTerm(r, c.NArgs))
	}
	scr := fmt.Sprintf("(Build_script %s %d %d %s)", vh.List(rules), c.Last, c.Code, vh.HxS(c.TxID))
	lvl := "OFull"
	if c.Writer == "serial" {
		if c.Format == "json" {
			lvl = "OJson"
		} else {
			lvl = "ONative"
		}
	}
	var recs []string
	for _, r := range c.Recs {
		recs = append(recs, recTerm(r))
	}
	var cbs []string
	for _, id := range c.Cbs {
		cbs = append(cbs, strconv.Itoa(id))
	}
	return fmt.Sprintf("CTx %s %s %s %s %s %s %s %s", cfgT, vh.List(rel), scr, lvl, vh.List(recs), vh.List(cbs), optN(c.Intr), optN(c.Det))
}

func hdrTerm(h map[string][]string) string {
	keys := make([]string, 0, len(h))
	for k := range h {
		keys = append(keys, k)
	}
	sort.Strings(keys) // single-key maps only (checked by the caller)
	var items []string
	for _, k := range keys {
		items = append(items, fmt.Sprintf("(%s, %s)", vh.HxS(k), vh.HxList(h[k])))
	}
	return vh.List(items)
}

// nativeTerm renders the CNative case of a log the real native formatter produced `out` for.
func nativeTerm(al plugintypes.AuditLog, out []byte) (string, bool) {
	t := al.Transaction()
	if !t.HasRequest() || len(t.Request().Headers()) > 1 || len(t.Request().Files()) > 0 {
		return "", false
	}
	if t.HasResponse() && len(t.Response().Headers()) > 1 {
		return "", false
	}
	if t.ClientPort() < 0 || t.HostPort() < 0 || (t.HasResponse() && t.Response().Status() < 0) {
		return "", false
	}
	pre := ""
	if len(out) >= 13 {
		pre = string(out[:13])
	}
	var msgs []string
	for _, m := range al.Messages() {
		raw := ""
		if d := dataOf(m); d != nil {
			raw = d.Raw()
		}
		msgs = append(msgs, fmt.Sprintf("Build_amsg %s %s", vh.HxS(errMessageOf(m)), vh.HxS(raw)))
	}
	rproto, rstatus, rtext, rbody := "", 0, "", ""
	rh := map[string][]string{}
	if t.HasResponse() {
		rproto, rstatus, rbody = t.Response().Protocol(), t.Response().Status(), t.Response().Body()
		rtext = http.StatusText(rstatus)
		rh = t.Response().Headers()
	}
	term := fmt.Sprintf("CNative %s (Build_alog %s %s %s %s %d %s %d %s %s %s %s %s (Some %s) %s %s %d %s %s %s %s) %s",
		vh.HxS(pre), vh.HxS(partsString(al.Parts())), vh.HxS(t.Timestamp()), vh.HxS(t.ID()), vh.HxS(t.ClientIP()), t.ClientPort(),
		vh.HxS(t.HostIP()), t.HostPort(), vh.HxS(t.Request().Method()), vh.HxS(t.Request().URI()), vh.HxS(t.Request().Protocol()),
		hdrTerm(t.Request().Headers()), vh.HxS(t.Request().Body()), vh.HxS("Total,0\n"), vh.Bool(t.HasResponse()),
		vh.HxS(rproto), rstatus, vh.HxS(rtext), hdrTerm(rh), vh.HxS(rbody), vh.List(msgs), vh.Hx(out))
	return term, true
}

// ---- one transaction case ----

// wafHandle is one real WAF with its audit writer and error callback, shared by the transactions of a case.
type wafHandle struct {
	newTx  func(id string) txAPI
	w      *capWriter
	target string
	cbs    []int
	ncb    int
	nrec   int
	off    int
	closeF func()
}

func (rn *runner) buildWAF(c *caseJSON) *wafHandle {
	h := &wafHandle{w: &capWriter{}}
	cb := func(mr types.MatchedRule) { h.cbs = append(h.cbs, mr.Rule().ID()) }
	if c.Writer == "serial" {
		rn.nfile++
		h.target = filepath.Join(rn.tmp, fmt.Sprintf("audit-%d.log", rn.nfile))
		waf := corazawaf.NewWAF()
		p := seclang.NewParser(waf)
		if err := p.FromString(directives(c, h.target)); err != nil {
			rn.res.Notes = append(rn.res.Notes, "config rejected: "+err.Error())
			return nil
		}
		if err := waf.InitAuditLogWriter(); err != nil {
			rn.res.Notes = append(rn.res.Notes, "writer init: "+err.Error())
			return nil
		}
		if c.Callback {
			waf.SetErrorCallback(cb)
		}
		h.closeF = func() { _ = waf.AuditLogWriter().Close(); _ = waf.Close(); _ = os.Remove(h.target) }
		h.newTx = func(id string) txAPI { return waf.NewTransactionWithOptions(corazawaf.Options{ID: id}) }
	} else {
		curWriter = h.w
		conf := coraza.NewWAFConfig().WithDirectives(directives(c, ""))
		if c.Callback {
			conf = conf.WithErrorCallback(cb)
		}
		waf, err := coraza.NewWAF(conf)
		if err != nil {
			rn.res.Notes = append(rn.res.Notes, "config rejected: "+err.Error())
			return nil
		}
		h.closeF = func() {
			if cl, ok := waf.(interface{ Close() error }); ok {
				_ = cl.Close()
			}
		}
		h.newTx = func(id string) txAPI { return waf.NewTransactionWithID(id).(txAPI) }
	}
	return h
}

// runTx: one transaction on a fresh WAF.
func (rn *runner) runTx(c *caseJSON) {
	c.Kind = "tx"
	h := rn.buildWAF(c)
	if h == nil {
		return
	}
	rn.runOne(h, c)
	h.closeF()
}

// runOne drives one transaction on the WAF of h (closing it afterwards, so that the pool hands the same
// object to the next one), collects what this transaction logged, runs the per-transaction oracles and
// emits the CTx case.
func (rn *runner) runOne(h *wafHandle, c *caseJSON) {
	c.Recs, c.Cbs, c.Intr, c.Det = nil, nil, nil, nil
	tx := h.newTx(c.TxID)
	drive(tx, c)
	if it := tx.Interruption(); it != nil {
		s := it.Status
		c.Intr = &s
	}
	if d, ok := tx.(interface{ DetectionOnlyInterruption() *types.Interruption }); ok {
		if it := d.DetectionOnlyInterruption(); it != nil {
			s := it.Status
			c.Det = &s
		}
	}
	cbs := append([]int{}, h.cbs[h.ncb:]...)
	h.ncb = len(h.cbs)
	c.Cbs = cbs
	fired := 0
	if mr, ok := tx.(interface{ MatchedRules() []types.MatchedRule }); ok {
		fired = len(mr.MatchedRules())
	}
	_ = tx.Close()

	rn.res.OracleEvaluations++
	if c.Writer == "serial" {
		all, _ := os.ReadFile(h.target)
		data := all
		if h.off <= len(all) {
			data = all[h.off:]
		}
		h.off = len(all)
		if len(data) > 0 {
			if c.Format == "json" {
				lines := bytes.Split(bytes.TrimSuffix(data, []byte("\n")), []byte("\n"))
				for _, ln := range lines {
					r, err := recOfJSONLine(ln)
					if err != nil {
						rn.fail("c19-json-line-invalid", "a line of the serial JSON audit log does not parse: "+err.Error(), c)
						continue
					}
					c.Recs = append(c.Recs, r)
				}
				// framing of the serial writer: the model's reader must find the same lines
				fc := &caseJSON{Kind: "file", OutHex: hex.EncodeToString(data), Tx: c}
				var ls []string
				for _, ln := range lines {
					ls = append(ls, vh.Hx(ln))
				}
				rn.add(fmt.Sprintf("CFile %s %s", vh.Hx(data), vh.List(ls)), fc, true, "file|"+string(data))
			} else {
				rec := bytes.TrimSuffix(data, []byte("\n")) // Println's newline
				_, letters, aLine := scanNative(rec)
				c.Recs = append(c.Recs, recJSON{ID: idOfALine(aLine), Parts: letters, Msgs: []msgJSON{}})
				rn.checkNativeShape(c, rec, c.TxID)
			}
		}
	} else {
		w := h.w
		w.mu.Lock()
		recs := append([]plugintypes.AuditLog{}, w.recs[h.nrec:]...)
		h.nrec = len(w.recs)
		w.mu.Unlock()
		for _, al := range recs {
			r := recOf(al)
			c.Recs = append(c.Recs, r)
			if w.fmtr == nil {
				continue
			}
			out, err := w.fmtr.Format(al)
			if err != nil {
				rn.fail("c19-format-error", "formatter returned an error: "+err.Error(), c)
				continue
			}
			if c.Format == "json" {
				rn.checkJSON(c, al, out)
				if rn.njdoc < rn.jdocLimit && c.Kind == "tx" && len(al.Messages()) > 0 {
					rn.njdoc++
					rn.runJDoc(al, out, &caseJSON{Kind: "jdoc", Note: "captured from tx " + c.TxID, OutHex: hex.EncodeToString(out), Tx: c}, "jdoc|"+c.TxID)
				}
			} else {
				rn.checkNativeShape(c, out, c.TxID)
				if term, ok := nativeTerm(al, out); ok && rn.ncap < rn.capLimit && c.Kind == "tx" {
					rn.ncap++
					nc := &caseJSON{Kind: "native", Note: "captured from tx " + c.TxID, OutHex: hex.EncodeToString(out), Parts: r.Parts, Tx: c}
					rn.add(term, nc, true, "native|"+c.TxID)
					rn.dist("native_captured")
				}
			}
		}
	}
	// the property's own oracle on the implementation: never more than one record per transaction,
	// the record names the transaction
	if len(c.Recs) > 1 {
		rn.fail("c19-more-than-one-record", fmt.Sprintf("%d audit records for one transaction", len(c.Recs)), c)
	}
	for _, r := range c.Recs {
		if r.ID != c.TxID {
			rn.fail("c19-record-without-txid", fmt.Sprintf("record id %q, transaction id %q", r.ID, c.TxID), c)
		}
	}
	seenCb := map[int]int{}
	for _, id := range cbs {
		seenCb[id]++
		if seenCb[id] > 1 {
			rn.fail("c19-callback-twice", fmt.Sprintf("error callback fired twice for rule %d", id), c)
		}
	}

	fam := "tx"
	if c.Kind == "series" {
		fam = "series_tx"
	}
	rn.dist(fam + "_total")
	rn.dist(fam + "_audit_" + strings.ToLower(c.AuditEngine))
	rn.dist(fam + "_rule_" + strings.ToLower(c.RuleEngine))
	rn.dist(fam + "_writer_" + c.Writer + "_" + c.Format)
	if c.Pattern != "" {
		rn.dist(fam + "_pattern")
	}
	if c.Parts == "" {
		rn.dist(fam + "_default_parts")
	}
	if len(c.Recs) > 0 {
		rn.dist(fam + "_record_written")
	}
	if c.Intr != nil {
		rn.dist(fam + "_interrupted")
	}
	if c.Det != nil {
		rn.dist(fam + "_would_be_interrupted")
	}
	if len(cbs) > 0 {
		rn.dist(fam + "_callbacks")
	}
	hasCtl := false
	for _, r := range c.Rules {
		if len(r.Ctls) > 0 {
			hasCtl = true
		}
	}
	if hasCtl {
		rn.dist(fam + "_with_ctl")
	}
	if fired > 0 {
		rn.dist(fam + "_rules_fired")
	}
	key, _ := json.Marshal([]any{c.Kind, c.Focus, c.Series, c.AuditEngine, c.RuleEngine, c.Parts, c.Pattern, c.Format, c.Writer, c.Callback, c.Defaults, c.Rules, c.NArgs, c.Last, c.Code})
	rn.add(txTerm(c), c, fired > 0 && (len(c.Recs) > 0 || len(cbs) > 0 || strings.EqualFold(c.AuditEngine, "RelevantOnly")), string(key))
}

// ---- series: several transactions, one after the other, on ONE WAF ----
//
// Each transaction is closed before the next starts, so the pool hands the same Transaction object
// back. Some transactions trigger the ctl rules (kind "args": they fire only when the request has
// arguments), the others do not. Every transaction is compared with the model run on that transaction
// ALONE under the configured settings (the model has no state between transactions:
// C19_log_of_transactions), and with the same transaction on a fresh WAF (implementation-side oracle).

type txSpec struct {
	NArgs int    `json:"nargs"`
	Last  int    `json:"last"`
	Code  int    `json:"code"`
	TxID  string `json:"txid"`
}

func obsKey(c *caseJSON) string {
	j, _ := json.Marshal([]any{c.Recs, c.Cbs, c.Intr, c.Det})
	return string(j)
}

func (rn *runner) runSeries(base *caseJSON) {
	base.Kind = "series"
	h := rn.buildWAF(base)
	if h == nil {
		return
	}
	var per []*caseJSON
	for i, sp := range base.Series {
		c := *base
		c.Focus = i
		c.NArgs, c.Last, c.Code, c.TxID = sp.NArgs, sp.Last, sp.Code, sp.TxID
		per = append(per, &c)
		rn.runOne(h, &c)
	}
	h.closeF()
	rn.dist("series")
	// the same transactions, each on a WAF of its own
	for _, c := range per {
		f := *c
		f.Kind = "fresh"
		f.Series = nil
		rn.quiet = true
		hf := rn.buildWAF(&f)
		if hf != nil {
			rn.runOne(hf, &f)
			hf.closeF()
		}
		rn.quiet = false
		rn.res.OracleEvaluations++
		if hf != nil && obsKey(&f) != obsKey(c) {
			rn.fail("c19-series-differs-from-fresh", fmt.Sprintf("transaction %d (%s) of a series on one WAF logs %s, the same transaction on a fresh WAF logs %s",
				c.Focus, c.TxID, obsKey(c), obsKey(&f)), c)
		}
	}
}

var seriesCtls = []string{
	"auditEngine=Off", "auditEngine=On", "auditEngine=RelevantOnly",
	"auditLogParts=-K", "auditLogParts=+E", "auditLogParts=-H", "auditLogParts=AHZ", "auditLogParts=ABCEFHKZ", "auditLogParts=-BCFH",
	"ruleEngine=Off", "ruleEngine=DetectionOnly", "ruleEngine=On",
}

func seriesSpecs(r *rand.Rand, tag string, n int) []txSpec {
	var sp []txSpec
	for i := 0; i < n; i++ {
		sp = append(sp, txSpec{NArgs: pick(r, []int{0, 0, 1, 2}), Last: pick(r, []int{4, 4, 4, 2, 1}), Code: pick(r, []int{200, 200, 403, 404, 500}), TxID: fmt.Sprintf("%s.%d", tag, i)})
	}
	// make sure a triggering transaction is followed by a plain one
	k := r.Intn(n - 1)
	sp[k].NArgs = 1 + r.Intn(2)
	sp[k+1].NArgs = 0
	return sp
}

// fixedSeries: for every ctl value, a WAF configured the other way; transaction 0 is plain, 1 triggers
// the ctl, 2 and 3 are plain again.
func fixedSeries() []*caseJSON {
	var out []*caseJSON
	n := 0
	for _, ctl := range seriesCtls {
		for _, format := range []string{"json", "native"} {
			for _, writer := range []string{"plugin", "serial"} {
				if writer == "serial" && format == "json" && n%3 != 0 {
					continue
				}
				n++
				ae := "On"
				if ctl == "auditEngine=On" {
					ae = "RelevantOnly"
				}
				c := &caseJSON{Kind: "series", AuditEngine: ae, RuleEngine: "On", Parts: "ABCFHKZ", Pattern: "^403$", Format: format, Writer: writer, Callback: true}
				c.Rules = []ruleJSON{
					{ID: 1, Phase: 1, Kind: "args", Acts: []string{"nolog"}, Ctls: []string{ctl}, Disr: "pass"},
					{ID: 2, Phase: 2, Kind: "action", Acts: []string{"log", "auditlog"}, Disr: "pass"},
					{ID: 3, Phase: 5, Kind: "action", Acts: []string{"nolog", "auditlog"}, Disr: "pass"},
				}
				tag := fmt.Sprintf("s%d", n)
				c.Series = []txSpec{{0, 4, 200, tag + ".0"}, {1, 4, 200, tag + ".1"}, {0, 4, 200, tag + ".2"}, {0, 4, 403, tag + ".3"}}
				out = append(out, c)
			}
		}
	}
	return out
}

func genSeries(r *rand.Rand, i int) *caseJSON {
	c := genTx(r, i)
	c.Kind = "series"
	c.ReqBodyHex, c.RespBodyHex = "", ""
	if c.RuleEngine == "Off" {
		c.RuleEngine = "On"
	}
	if r.Intn(3) != 0 {
		c.AuditEngine = pick(r, []string{"On", "On", "RelevantOnly"})
	}
	c.Writer = "plugin"
	if r.Intn(5) == 0 {
		c.Writer = "serial"
	}
	hasCtl := false
	maxID := 0
	for k := range c.Rules {
		if len(c.Rules[k].Ctls) > 0 {
			c.Rules[k].Kind = "args" // fires only in the transactions that carry arguments
			hasCtl = true
		} else if c.Rules[k].Kind == "args" && r.Intn(2) == 0 {
			c.Rules[k].Kind = "action"
		}
		if c.Rules[k].ID > maxID {
			maxID = c.Rules[k].ID
		}
	}
	if !hasCtl || r.Intn(2) == 0 {
		ru := ruleJSON{ID: maxID + 1, Phase: 1 + r.Intn(2), Kind: "args", Acts: pick(r, logActSets), Ctls: []string{pick(r, seriesCtls)}, Disr: "pass"}
		// configuration order: keep phases sorted is not required by the engine; append
		c.Rules = append(c.Rules, ru)
	}
	c.Series = seriesSpecs(r, fmt.Sprintf("q%d", i), 3+r.Intn(6))
	return c
}

func (rn *runner) checkJSON(c *caseJSON, al plugintypes.AuditLog, out []byte) {
	rn.res.OracleEvaluations++
	if bytes.IndexByte(out, '\n') >= 0 {
		rn.fail("c19-json-multiline", "JSON record contains a raw newline", c)
	}
	if !json.Valid(out) {
		rn.fail("c19-json-invalid", "JSON record is not valid JSON", c)
		return
	}
	r, err := recOfJSONLine(out)
	if err != nil {
		rn.fail("c19-json-invalid", "JSON record does not decode: "+err.Error(), c)
		return
	}
	want := recOf(al)
	if r.ID != want.ID || len(r.Msgs) != len(want.Msgs) {
		rn.fail("c19-json-lossy", "JSON record loses the id or messages of the log", c)
		return
	}
	for i := range r.Msgs {
		if r.Msgs[i] != want.Msgs[i] {
			rn.fail("c19-json-lossy", "JSON record changes a message", c)
			return
		}
	}
}

// checkNativeShape: a reader splitting on the record's own boundary finds A first (with the
// transaction id on its line), Z last, no letter twice.
func (rn *runner) checkNativeShape(c *caseJSON, out []byte, txid string) {
	rn.res.OracleEvaluations++
	_, letters, aLine := scanNative(out)
	if len(letters) < 2 || letters[0] != 'A' || letters[len(letters)-1] != 'Z' {
		rn.fail("c19-native-unbalanced", fmt.Sprintf("native record sections %q do not run from A to Z", letters), c)
		return
	}
	if idOfALine(aLine) != txid {
		rn.fail("c19-record-without-txid", fmt.Sprintf("A line %q does not carry the transaction id %q", aLine, txid), c)
	}
	for i := 0; i < len(letters); i++ {
		if strings.Count(letters, string(letters[i])) != 1 {
			rn.fail("c19-native-unbalanced", fmt.Sprintf("section %c appears twice in %q", letters[i], letters), c)
			return
		}
	}
	if !bytes.HasSuffix(out, []byte("-Z--\n\n")) {
		rn.fail("c19-native-unbalanced", "native record does not end with the Z boundary", c)
	}
}

// ---- parts functions called directly ----

func (rn *runner) runParse(s string) {
	c := &caseJSON{Kind: "parse", SHex: hex.EncodeToString([]byte(s))}
	res, err := types.ParseAuditLogParts(s)
	term := "None"
	if err == nil {
		h := hex.EncodeToString([]byte(partsString(res)))
		c.ResHex = &h
		term = "(Some " + vh.HxS(partsString(res)) + ")"
	}
	rn.res.InputDistribution["parse"]++
	if err == nil {
		rn.res.InputDistribution["parse_accepted"]++
	}
	rn.add(fmt.Sprintf("CParse %s %s", vh.HxS(s), term), c, err == nil || len(s) >= 2, "parse|"+s)
}

func (rn *runner) runApply(base, m string) {
	c := &caseJSON{Kind: "apply", BaseHex: hex.EncodeToString([]byte(base)), SHex: hex.EncodeToString([]byte(m))}
	res, err := types.ApplyAuditLogParts(types.AuditLogParts(base), m)
	term := "None"
	if err == nil {
		h := hex.EncodeToString([]byte(partsString(res)))
		c.ResHex = &h
		term = "(Some " + vh.HxS(partsString(res)) + ")"
	}
	rn.res.InputDistribution["apply"]++
	if err == nil {
		rn.res.InputDistribution["apply_accepted"]++
	}
	rn.add(fmt.Sprintf("CApply %s %s %s", vh.HxS(base), vh.HxS(m), term), c, err == nil, "apply|"+base+"|"+m)
}

// ---- synthetic logs through the real native formatter ----

func randBytes(r *rand.Rand, n int) string {
	alpha := "ab -\n\r\t:\"[]\x00\xff%Z"
	b := make([]byte, n)
	for i := range b {
		if r.Intn(8) == 0 {
			b[i] = byte(r.Intn(256))
		} else {
			b[i] = alpha[r.Intn(len(alpha))]
		}
	}
	return string(b)
}

func advBody(r *rand.Rand) string {
	switch r.Intn(6) {
	case 0:
		return ""
	case 1:
		return "--abcdefghij-Z--\n\n--abcdefghij-A--\n[x] forged\n"
	case 2:
		return "line1\n--" + randBytes(r, 10) + "-K--\nline3"
	case 3:
		return "\n\n"
	default:
		return randBytes(r, r.Intn(24))
	}
}

func (rn *runner) runSyntheticNative(seed int64, i int) {
	r := rand.New(rand.NewSource(seed))
	f, err := auditlog.GetFormatter("native")
	if err != nil {
		return
	}
	letters := "ABCDEFGHIJKZ"
	var parts string
	switch r.Intn(4) {
	case 0: // well-formed
		parts = "A"
		for _, ch := range "BCDEFGHIJK" {
			if r.Intn(2) == 0 {
				parts += string(ch)
			}
		}
		parts += "Z"
	case 1: // any order, duplicates, unknown letters (API-level: WithParts is not validated)
		n := r.Intn(8)
		for j := 0; j < n; j++ {
			if r.Intn(10) == 0 {
				parts += string(rune('L' + r.Intn(10)))
			} else {
				parts += string(letters[r.Intn(len(letters))])
			}
		}
	case 2:
		parts = "AHKZ"
	default:
		parts = "ABCEFHJKZ"
	}
	lg := &auditlog.Log{Parts_: types.AuditLogParts(parts)}
	lg.Transaction_ = auditlog.Transaction{
		Timestamp_: "2026/01/02 03:04:05", ID_: "syn-" + strconv.Itoa(i) + randBytes(r, r.Intn(4)),
		ClientIP_: randBytes(r, r.Intn(8)), ClientPort_: r.Intn(70000), HostIP_: "10.0.0.1", HostPort_: r.Intn(3) * 443,
		Request_: &auditlog.TransactionRequest{Method_: "POST", URI_: "/u?" + randBytes(r, r.Intn(10)), Protocol_: "HTTP/1.1",
			Headers_: map[string][]string{"x-h" + randBytes(r, r.Intn(3)): {advBody(r), "v2"}}, Body_: advBody(r)},
	}
	if r.Intn(3) != 0 {
		st := []int{0, 200, 403, 404, 500, 999, 302}[r.Intn(7)]
		proto := ""
		if r.Intn(3) == 0 {
			proto = "HTTP/2.0"
		}
		lg.Transaction_.Response_ = &auditlog.TransactionResponse{Protocol_: proto, Status_: st,
			Headers_: map[string][]string{"content-type": {"text/plain", advBody(r)}}, Body_: advBody(r)}
	}
	nm := r.Intn(4)
	for j := 0; j < nm; j++ {
		em := ""
		if r.Intn(3) != 0 {
			em = "[client \"x\"] Coraza: Warning. " + advBody(r)
		}
		lg.Messages_ = append(lg.Messages_, auditlog.Message{ErrorMessage_: em, Data_: &auditlog.MessageData{ID_: j + 1, Raw_: "SecAction \"id:" + strconv.Itoa(j+1) + "\"" + advBody(r)}})
	}
	out, err := f.Format(lg)
	c := &caseJSON{Kind: "native", Note: "synthetic", Parts: parts, OutHex: hex.EncodeToString(out), SynSeed: seed, SynIdx: i}
	if err != nil {
		rn.fail("c19-format-error", "native formatter returned an error: "+err.Error(), c)
		return
	}
	term, ok := nativeTerm(lg, out)
	if !ok {
		return
	}
	rn.res.OracleEvaluations++
	// oracle: for well-formed parts the sections scan back exactly, whatever the content bytes
	_, got, _ := scanNative(out)
	if len(parts) > 0 && got != parts {
		rn.fail("c19-native-unbalanced", fmt.Sprintf("scanning the native record by its boundary gives %q for parts %q", got, parts), c)
	}
	rn.res.InputDistribution["native_synthetic"]++
	rn.add(term, c, len(parts) > 0, "syn|"+strconv.Itoa(i))
}

// ---- JSON formatter: strings and record frame ----

func (rn *runner) runJStr(str string) {
	out, err := json.Marshal(str)
	c := &caseJSON{Kind: "jstr", SHex: hex.EncodeToString([]byte(str)), OutHex: hex.EncodeToString(out)}
	if err != nil {
		rn.fail("c19-json-invalid", "json.Marshal of a string failed: "+err.Error(), c)
		return
	}
	var back string
	if err := json.Unmarshal(out, &back); err != nil {
		rn.fail("c19-json-invalid", "json.Unmarshal of a marshalled string failed: "+err.Error(), c)
		return
	}
	rn.res.OracleEvaluations++
	if bytes.IndexByte(out, '\n') >= 0 {
		rn.fail("c19-json-multiline", "marshalled string contains a raw newline", c)
	}
	rn.dist("jstr")
	rn.add(fmt.Sprintf("CJStr %s %s %s", vh.HxS(str), vh.Hx(out), vh.HxS(back)), c, string(out) != `"`+str+`"`, "jstr|"+str)
}

func jmsgTerm(m plugintypes.AuditLogMessage) string {
	data := "None"
	if d := dataOf(m); d != nil {
		tags := "None"
		if d.Tags_ != nil {
			tags = "(Some " + vh.HxList(d.Tags_) + ")"
		}
		data = fmt.Sprintf("(Some (Build_jdata %s %s %s %s %s %s %s %s %s %s %s %s))", vh.HxS(d.File_), vh.Z(int64(d.Line_)), vh.Z(int64(d.ID_)),
			vh.HxS(d.Rev_), vh.HxS(d.Msg_), vh.HxS(d.Data_), vh.Z(int64(d.Severity_)), vh.HxS(d.Ver_), vh.Z(int64(d.Maturity_)), vh.Z(int64(d.Accuracy_)), tags, vh.HxS(d.Raw_))
	}
	return fmt.Sprintf("Build_jmsg %s %s %s %s", vh.HxS(m.Actionset()), vh.HxS(m.Message()), vh.HxS(errMessageOf(m)), data)
}

// jdocTerm: the record the real JSON formatter printed for al, against the modelled head and tail.
func (rn *runner) runJDoc(al plugintypes.AuditLog, out []byte, c *caseJSON, key string) {
	t := al.Transaction()
	var ms []string
	for _, m := range al.Messages() {
		ms = append(ms, jmsgTerm(m))
	}
	head := fmt.Sprintf("(Build_jhead %s %s %s %s %s %s %s %s)", vh.HxS(t.Timestamp()), vh.Z(t.UnixTimestamp()), vh.HxS(t.ID()), vh.HxS(t.ClientIP()),
		vh.Z(int64(t.ClientPort())), vh.HxS(t.HostIP()), vh.Z(int64(t.HostPort())), vh.HxS(t.ServerID()))
	rn.dist("jdoc")
	rn.add(fmt.Sprintf("CJDoc %s %s %s", head, vh.List(ms), vh.Hx(out)), c, true, key)
}

func advString(r *rand.Rand) string {
	switch r.Intn(8) {
	case 0:
		return ""
	case 1:
		return pick(r, []string{"\"", "\\", "/", "<script>&", " x ", "\x00\x01\x1f\x7f", "\b\f\n\r\t", "é€😀", "\xff", "\xc3", "\xe2\x82", "\xed\xa0\x80", "\xf4\x90\x80\x80", "\xc0\xaf", "\xef\xbf\xbd", "a\",\"messages\":[", "\\u0041", "\\\""})
	default:
		alpha := "ab \"\\/<>&\n\r\t\b\f\x00\x1f\x7f{}[],:"
		n := r.Intn(12)
		b := make([]byte, 0, n+4)
		for i := 0; i < n; i++ {
			switch r.Intn(6) {
			case 0:
				b = append(b, byte(r.Intn(256)))
			case 1:
				b = append(b, []byte(string(rune(r.Intn(0x11000))))...)
			default:
				b = append(b, alpha[r.Intn(len(alpha))])
			}
		}
		return string(b)
	}
}

func (rn *runner) runSyntheticJSON(seed int64, i int) {
	r := rand.New(rand.NewSource(seed))
	f, err := auditlog.GetFormatter("json")
	if err != nil {
		return
	}
	lg := &auditlog.Log{Parts_: types.AuditLogParts("ABCFHKZ")}
	lg.Transaction_ = auditlog.Transaction{
		Timestamp_: "2026/01/02 03:04:05" + advString(r), UnixTimestamp_: r.Int63n(1 << 50), ID_: "j" + strconv.Itoa(i) + advString(r),
		ClientIP_: advString(r), ClientPort_: r.Intn(70000), HostIP_: advString(r), HostPort_: r.Intn(3) * 443, ServerID_: advString(r),
		Request_: &auditlog.TransactionRequest{Method_: "GET", URI_: "/" + advString(r), Protocol_: "HTTP/1.1", Body_: advString(r)},
	}
	nm := r.Intn(4)
	for j := 0; j < nm; j++ {
		m := auditlog.Message{Actionset_: advString(r), Message_: advString(r), ErrorMessage_: advString(r)}
		if r.Intn(4) != 0 {
			d := &auditlog.MessageData{File_: advString(r), Line_: r.Intn(5000), ID_: r.Intn(1000000), Rev_: advString(r), Msg_: advString(r), Data_: advString(r),
				Severity_: types.RuleSeverity(r.Intn(9) - 1), Ver_: advString(r), Maturity_: r.Intn(10), Accuracy_: r.Intn(10), Raw_: "SecAction \"id:1\"" + advString(r)}
			switch r.Intn(3) {
			case 0:
				d.Tags_ = []string{}
			case 1:
				d.Tags_ = []string{advString(r), "attack-sqli", advString(r)}
			}
			m.Data_ = d
		}
		lg.Messages_ = append(lg.Messages_, m)
	}
	out, err := f.Format(lg)
	c := &caseJSON{Kind: "jdoc", Note: "synthetic", OutHex: hex.EncodeToString(out), SynSeed: seed, SynIdx: i}
	if err != nil {
		rn.fail("c19-format-error", "JSON formatter returned an error: "+err.Error(), c)
		return
	}
	rn.res.OracleEvaluations++
	if !json.Valid(out) || bytes.IndexByte(out, '\n') >= 0 {
		rn.fail("c19-json-invalid", "JSON record of a synthetic log is not one valid JSON line", c)
	}
	rn.runJDoc(lg, out, c, "jdoc|"+strconv.Itoa(i))
}

// ---- generator ----

var patterns = []string{"", "", "^403$", "^(?:5|4(?:0[34]))", "^[45]", "^$", "^302$", "^0$", "200", "^5"}
var partsChoices = []string{"", "ABCFHZ", "AZ", "AHZ", "AKZ", "AHKZ", "AKHZ", "ABCDEFGHIJKZ", "AEZ", "AFZ", "ABIJDEFHZ", "AKEHZ"}
var ctlChoices = []string{
	"auditEngine=On", "auditEngine=Off", "auditEngine=RelevantOnly", "auditEngine=relevantonly", "auditEngine=Sometimes",
	"auditLogParts=+E", "auditLogParts=-K", "auditLogParts=+HK", "auditLogParts=-H", "auditLogParts=+K", "auditLogParts=-BCFH",
	"auditLogParts=AKZ", "auditLogParts=AHZ", "auditLogParts=ABZ", "auditLogParts=+A", "auditLogParts=+X", "auditLogParts=AKKZ",
	"auditLogParts=BCZ", "auditLogParts=-BCDEFGHIJK", "auditLogParts=+EE",
	"ruleEngine=On", "ruleEngine=DetectionOnly", "ruleEngine=Off", "ruleEngine=Maybe",
}
var logActSets = [][]string{{}, {"log"}, {"nolog"}, {"auditlog"}, {"noauditlog"}, {"log", "noauditlog"}, {"nolog", "auditlog"},
	{"noauditlog", "log"}, {"auditlog", "nolog"}, {"log", "auditlog"}, {"nolog", "noauditlog"}, {"log", "nolog", "auditlog"}}

func pick[T any](r *rand.Rand, l []T) T { return l[r.Intn(len(l))] }

func genTx(r *rand.Rand, i int) *caseJSON {
	c := &caseJSON{Kind: "tx", TxID: fmt.Sprintf("t%d", i)}
	c.AuditEngine = pick(r, []string{"On", "RelevantOnly", "RelevantOnly", "RelevantOnly", "Off"})
	c.RuleEngine = pick(r, []string{"On", "On", "DetectionOnly", "DetectionOnly", "Off"})
	if r.Intn(12) != 0 && c.RuleEngine == "Off" {
		c.RuleEngine = "On"
	}
	c.Parts = pick(r, partsChoices)
	c.Pattern = pick(r, patterns)
	c.Format = pick(r, []string{"native", "json"})
	c.Writer = "plugin"
	if r.Intn(6) == 0 {
		c.Writer = "serial"
	}
	c.Callback = r.Intn(8) != 0
	for ph := 1; ph <= 5; ph++ {
		if r.Intn(6) == 0 {
			c.Defaults = append(c.Defaults, defJSON{Phase: ph, Acts: pick(r, logActSets[1:])})
		}
	}
	c.NArgs = pick(r, []int{0, 1, 2, 2, 3})
	c.Last = pick(r, []int{4, 4, 4, 4, 3, 2, 1, 0})
	c.Code = pick(r, []int{200, 200, 403, 404, 500, 302, 204})
	nr := r.Intn(6)
	id := 1
	for ph := 1; ph <= 5; ph++ {
		for j := 0; j < nr; j++ {
			if r.Intn(5) >= 2 {
				continue
			}
			ru := ruleJSON{ID: id, Phase: ph, Kind: pick(r, []string{"action", "action", "args", "nomatch"}), Acts: pick(r, logActSets), Disr: "pass"}
			id++
			if r.Intn(3) == 0 {
				n := 1 + r.Intn(2)
				for k := 0; k < n; k++ {
					ru.Ctls = append(ru.Ctls, pick(r, ctlChoices))
				}
			}
			switch r.Intn(9) {
			case 0, 1:
				ru.Disr = "deny"
				ru.Status = pick(r, []int{0, 0, 403, 404, 500, 503})
			case 2:
				ru.Disr = "drop"
				ru.Status = pick(r, []int{0, 403, 500})
			case 3:
				ru.Disr = "redirect"
				ru.Status = pick(r, []int{0, 301, 302, 307, 308, 403})
			}
			if ru.Disr == "pass" && r.Intn(6) == 0 {
				ru.Disr = pick(r, []string{"allow", "allow:phase", "allow:request"})
			}
			switch r.Intn(10) {
			case 0:
				ru.Skip = 1 + r.Intn(2)
			case 1:
				ru.SkipAfter = 1 + r.Intn(2)
			}
			if r.Intn(5) == 0 {
				n := 1 + r.Intn(2)
				for k := 0; k < n; k++ {
					ru.Chain = append(ru.Chain, pick(r, []string{"action", "args", "args", "nomatch"}))
				}
			}
			c.Rules = append(c.Rules, ru)
			if r.Intn(6) == 0 {
				c.Rules = append(c.Rules, ruleJSON{Kind: "marker", Marker: 1 + r.Intn(2)})
			}
		}
	}
	if c.Format == "native" && r.Intn(3) == 0 {
		c.ReqBodyHex = hex.EncodeToString([]byte(advBody(r)))
	}
	if c.Format == "native" && r.Intn(3) == 0 {
		c.RespBodyHex = hex.EncodeToString([]byte(advBody(r)))
	}
	return c
}

// switchGrid: the audit engine switched by ctl AFTER audit-enabled rules already fired — configured mode
// x target mode x phase of the earlier audit-enabled match x phase of the ctl rule (same or later phase,
// including the logging phase) x relevant / not relevant status. The earlier matches must still be in
// the record (parts K and H), whatever the engine was when they fired.
func switchGrid() []*caseJSON {
	var out []*caseJSON
	n := 0
	for _, from := range []string{"Off", "RelevantOnly", "On"} {
		for _, to := range []string{"On", "RelevantOnly", "Off"} {
			for p1 := 1; p1 <= 5; p1++ {
				for p2 := p1; p2 <= 5; p2++ {
					n++
					code := 403
					if n%4 == 0 {
						code = 200
					}
					c := &caseJSON{Kind: "tx", TxID: fmt.Sprintf("w%d", n), AuditEngine: from, RuleEngine: pick2(n, "On", "DetectionOnly"), Parts: pick3(n, "ABCFHKZ", "AHZ", "AKZ"),
						Pattern: "^403$", Format: pick2(n/2, "json", "native"), Writer: "plugin", Callback: true, NArgs: 2, Last: 4, Code: code}
					c.Rules = []ruleJSON{
						{ID: 1, Phase: p1, Kind: pick2(n/3, "action", "args"), Acts: pick3s(n, []string{"log", "auditlog"}, []string{"nolog", "auditlog"}, []string{"auditlog"}), Disr: "pass"},
						{ID: 2, Phase: p1, Kind: "action", Acts: []string{"log", "noauditlog"}, Disr: "pass"},
						{ID: 3, Phase: p2, Kind: "action", Acts: []string{"nolog"}, Ctls: []string{"auditEngine=" + to}, Disr: "pass"},
					}
					if n%3 == 0 { // a later audit-enabled match as well (it must not be the only one listed)
						c.Rules = append(c.Rules, ruleJSON{ID: 4, Phase: 5, Kind: "action", Acts: []string{"nolog", "auditlog"}, Disr: "pass"})
					}
					out = append(out, c)
				}
			}
		}
	}
	return out
}

func pick2(n int, a, b string) string {
	if n%2 == 0 {
		return a
	}
	return b
}

func pick3(n int, a, b, c string) string { return []string{a, b, c}[n%3] }

func pick3s(n int, a, b, c []string) []string { return [][]string{a, b, c}[n%3] }

// the 3 x 3 x 2 x 2 (+ ctl) decision table, one transaction per cell
func decisionGrid() []*caseJSON {
	var out []*caseJSON
	n := 0
	for _, ae := range []string{"On", "RelevantOnly", "Off"} {
		for _, flag := range []string{"none", "auditlog", "noauditlog"} {
			for _, code := range []int{200, 403} {
				for _, re := range []string{"On", "DetectionOnly"} {
					for _, pat := range []string{"^403$", ""} {
						for _, viaCtl := range []bool{false, true} {
							for _, disr := range []string{"pass", "deny"} {
								n++
								c := &caseJSON{Kind: "tx", TxID: fmt.Sprintf("g%d", n), AuditEngine: ae, RuleEngine: re, Parts: "ABCFHKZ",
									Pattern: pat, Format: "json", Writer: "plugin", Callback: true, NArgs: 1, Last: 4, Code: code}
								if viaCtl {
									c.AuditEngine = "Off"
									if ae == "Off" {
										c.AuditEngine = "On"
									}
									c.Rules = append(c.Rules, ruleJSON{ID: 1, Phase: 1, Kind: "action", Acts: []string{"nolog"}, Ctls: []string{"auditEngine=" + ae}, Disr: "pass"})
								}
								switch flag {
								case "auditlog":
									c.Rules = append(c.Rules, ruleJSON{ID: 2, Phase: 2, Kind: "args", Acts: []string{"nolog", "auditlog"}, Disr: "pass"})
								case "noauditlog":
									c.Rules = append(c.Rules, ruleJSON{ID: 2, Phase: 2, Kind: "args", Acts: []string{"log", "noauditlog"}, Disr: "pass"})
								}
								if disr == "deny" {
									c.Rules = append(c.Rules, ruleJSON{ID: 3, Phase: 3, Kind: "action", Acts: []string{"nolog"}, Disr: "deny"})
								}
								out = append(out, c)
							}
						}
					}
				}
			}
		}
	}
	return out
}

func genPartsString(r *rand.Rand) string {
	switch r.Intn(8) {
	case 0:
		return pick(r, []string{"", "A", "Z", "AZ", "ZA", "AA", "ZZ", "AZZ", "AAZ", "ABZ", "AKKZ", "A\u0142Z", "A\xc5Z", "A\xffZ", "AB\u0142Z", "abcz", "AbZ", "A Z", "ABCDEFGHIJKZ", "AKJIHGFEDCBZ", "ABCDEFGHIJKLZ", "AAZZ", "AZA", "A\u00c2Z", "A\u0242Z"})
	case 1: // valid
		s := "A"
		for _, ch := range r.Perm(10) {
			if r.Intn(2) == 0 {
				s += string(rune('B' + ch))
			}
		}
		return s + "Z"
	default:
		n := r.Intn(7)
		s := ""
		if r.Intn(4) != 0 {
			s = "A"
		}
		for j := 0; j < n; j++ {
			switch r.Intn(12) {
			case 0:
				s += string(rune(r.Intn(0x300)))
			case 1:
				s += string([]byte{byte(r.Intn(256))})
			case 2:
				s += pick(r, []string{"A", "Z", "L", "a", "+", "-"})
			default:
				s += string(rune('B' + r.Intn(10)))
			}
		}
		if r.Intn(4) != 0 {
			s += "Z"
		}
		return s
	}
}

func genModification(r *rand.Rand) string {
	switch r.Intn(6) {
	case 0:
		return genPartsString(r)
	case 1:
		return pick(r, []string{"", "+", "-", "+A", "-Z", "+AZ", "+L", "-\u0142", "+\u0142", "+\xc5", "+E", "-E", "+EE", "-KK", "+BCDEFGHIJK", "-BCDEFGHIJK", "+b"})
	default:
		s := pick(r, []string{"+", "-"})
		n := 1 + r.Intn(4)
		for j := 0; j < n; j++ {
			if r.Intn(15) == 0 {
				s += pick(r, []string{"A", "Z", "L", "\u0142", "\xff", "b"})
			} else {
				s += string(rune('B' + r.Intn(10)))
			}
		}
		return s
	}
}

// ---- concurrency oracle (implementation side; supporting validation, not proof) ----

func (rn *runner) concurrencyOracle(G, T, padUnit int) {
	dir, err := os.MkdirTemp(rn.tmp, "conc")
	if err != nil {
		return
	}
	defer os.RemoveAll(dir)
	for _, typ := range []string{"serial", "concurrent"} {
		target := filepath.Join(dir, typ+".log")
		store := filepath.Join(dir, typ+"-store")
		_ = os.MkdirAll(store, 0o755)
		waf := corazawaf.NewWAF()
		conf := "SecRuleEngine On\nSecAuditEngine RelevantOnly\nSecAuditLogRelevantStatus \"^403$\"\nSecAuditLogParts ABCFHKZ\nSecAuditLogFormat json\n" +
			"SecAuditLogType " + typ + "\nSecAuditLog " + target + "\nSecAuditLogStorageDir " + store + "\n" +
			"SecRule ARGS_GET:block \"@streq 1\" \"id:1,phase:1,deny,log,msg:'blocked'\"\n" +
			"SecRule ARGS_GET:pad \"@rx .\" \"id:2,phase:1,pass,log,auditlog,msg:'pad seen',logdata:'%{MATCHED_VAR}'\"\n"
		if err := seclang.NewParser(waf).FromString(conf); err != nil {
			rn.fail("c19-conc-config", "concurrency oracle config rejected: "+err.Error(), conf)
			continue
		}
		if err := waf.InitAuditLogWriter(); err != nil {
			rn.fail("c19-conc-config", "writer init: "+err.Error(), conf)
			continue
		}
		expected := map[string]bool{}
		var mu sync.Mutex
		var wg sync.WaitGroup
		for g := 0; g < G; g++ {
			wg.Add(1)
			go func(g int) {
				defer wg.Done()
				for t := 0; t < T; t++ {
					id := fmt.Sprintf("conc-%s-%d-%d", typ, g, t)
					block := (g+t)%3 != 0
					tx := waf.NewTransactionWithOptions(corazawaf.Options{ID: id})
					pad := strings.Repeat("x", 5+((g*31+t*17)%9)*padUnit)
					uri := "/c?pad=" + pad
					if block {
						uri += "&block=1"
					}
					tx.ProcessConnection("10.0.0.9", 1000+g, "10.0.0.1", 80)
					tx.ProcessURI(uri, "GET", "HTTP/1.1")
					tx.AddRequestHeader("Host", "conc.test")
					if it := tx.ProcessRequestHeaders(); it == nil {
						_, _ = tx.ProcessRequestBody()
						tx.ProcessResponseHeaders(200, "HTTP/1.1")
						_, _ = tx.ProcessResponseBody()
					}
					tx.ProcessLogging()
					_ = tx.Close()
					if block {
						mu.Lock()
						expected[id] = true
						mu.Unlock()
					}
				}
			}(g)
		}
		wg.Wait()
		_ = waf.AuditLogWriter().Close()
		_ = waf.Close()
		rn.res.OracleEvaluations += G * T
		desc := map[string]any{"oracle": "concurrency", "writer": typ, "goroutines": G, "transactions_each": T}
		data, _ := os.ReadFile(target)
		if typ == "serial" {
			lines := bytes.Split(bytes.TrimSuffix(data, []byte("\n")), []byte("\n"))
			got := map[string]int{}
			for _, ln := range lines {
				r, err := recOfJSONLine(ln)
				if err != nil {
					rn.fail("c19-conc-interleaved", "a line of the shared serial JSON log does not parse (interleaved or torn record)", desc)
					break
				}
				got[r.ID]++
			}
			if len(lines) != len(expected) {
				rn.fail("c19-conc-lost", fmt.Sprintf("shared serial log has %d lines, %d records expected", len(lines), len(expected)), desc)
			}
			for id := range expected {
				if got[id] != 1 {
					rn.fail("c19-conc-lost", fmt.Sprintf("record of %s appears %d times", id, got[id]), desc)
					break
				}
			}
			if G*T <= 64 {
				var ls []string
				for _, ln := range lines {
					ls = append(ls, vh.Hx(ln))
				}
				rn.add(fmt.Sprintf("CFile %s %s", vh.Hx(data), vh.List(ls)), &caseJSON{Kind: "file", Note: "shared serial log of the concurrency run"}, true, "concfile")
			}
		} else {
			// one file per transaction under the storage dir, each a whole JSON document; the index names each id once
			n := 0
			_ = filepath.Walk(store, func(p string, info os.FileInfo, err error) error {
				if err != nil || info.IsDir() {
					return nil
				}
				n++
				b, _ := os.ReadFile(p)
				r, err := recOfJSONLine(b)
				if err != nil || !expected[r.ID] || !strings.HasSuffix(p, r.ID) {
					rn.fail("c19-conc-interleaved", "a per-transaction file of the concurrent writer is not one whole record: "+filepath.Base(p), desc)
				}
				return nil
			})
			if n != len(expected) {
				rn.fail("c19-conc-lost", fmt.Sprintf("concurrent writer stored %d files, %d records expected", n, len(expected)), desc)
			}
			// an index entry is four appends under the writer's mutex: address line, request line, status, id - path
			ilines := strings.Split(strings.TrimSuffix(string(data), "\n"), "\n")
			if len(ilines) != 4*len(expected) {
				rn.fail("c19-conc-lost", fmt.Sprintf("index of the concurrent writer has %d lines, %d expected", len(ilines), 4*len(expected)), desc)
			} else {
				for i := 0; i+3 < len(ilines); i += 4 {
					if !strings.HasSuffix(ilines[i], "]") || !strings.HasPrefix(ilines[i+1], " \"") || !strings.HasPrefix(ilines[i+2], " ") ||
						!strings.Contains(ilines[i+3], " - ") || strings.HasPrefix(ilines[i+3], " ") {
						rn.fail("c19-conc-interleaved", fmt.Sprintf("index entries of the concurrent writer are interleaved near line %d", i), desc)
						break
					}
				}
			}
			for id := range expected {
				if c := strings.Count(string(data), id+" - "); c != 1 {
					rn.fail("c19-conc-lost", fmt.Sprintf("index of the concurrent writer names %s %d times", id, c), desc)
					break
				}
			}
		}
		rn.res.InputDistribution["conc_"+typ+"_transactions"] += G * T
		rn.res.InputDistribution["conc_"+typ+"_records"] += len(expected)
	}
}

func (rn *runner) checkDefaultParts() {
	waf := corazawaf.NewWAF()
	if got := partsString(waf.AuditLogParts); got != "ABCFHZ" {
		rn.fail("c19-default-parts", fmt.Sprintf("default audit log parts are %q, the model assumes ABCFHZ", got), got)
	}
	rn.res.OracleEvaluations++
}

func (rn *runner) runDoc(doc []byte) error {
	var wrap struct {
		Case json.RawMessage `json:"case"`
	}
	raw := doc
	if json.Unmarshal(doc, &wrap) == nil && len(wrap.Case) > 0 {
		raw = wrap.Case
	}
	var c caseJSON
	if err := json.Unmarshal(raw, &c); err != nil {
		return err
	}
	switch c.Kind {
	case "tx":
		rn.runTx(&c)
	case "series":
		rn.runSeries(&c)
	case "parse":
		s, _ := hex.DecodeString(c.SHex)
		rn.runParse(string(s))
	case "apply":
		b, _ := hex.DecodeString(c.BaseHex)
		s, _ := hex.DecodeString(c.SHex)
		rn.runApply(string(b), string(s))
	case "reject":
		// a configuration the parser must refuse (witness of a repaired validation defect)
		waf := corazawaf.NewWAF()
		err := seclang.NewParser(waf).FromString(c.Directives)
		rn.res.OracleEvaluations++
		if err == nil {
			rn.fail("c19-config-accepted", "configuration accepted although it must be rejected: "+c.Directives, c)
		}
	case "jstr":
		b, _ := hex.DecodeString(c.SHex)
		rn.runJStr(string(b))
	case "jdoc":
		switch {
		case c.Tx != nil:
			rn.jdocLimit = 1 << 30
			rn.runTx(c.Tx)
		case c.SynSeed != 0:
			rn.runSyntheticJSON(c.SynSeed, c.SynIdx)
		}
	case "native", "file":
		switch {
		case c.Tx != nil:
			rn.capLimit = 1 << 30
			rn.runTx(c.Tx)
		case c.SynSeed != 0:
			rn.runSyntheticNative(c.SynSeed, c.SynIdx)
		default:
			rn.res.Notes = append(rn.res.Notes, "replay of this "+c.Kind+" case needs the whole tier re-run with the same seed")
		}
	}
	return nil
}

func Run(cfg vh.Config) (*vh.Result, error) {
	res := &vh.Result{InputDistribution: map[string]int{}}
	res.Rule = "transactions through real WAFs (generated directives: audit engine x rule engine x parts x relevant-status pattern x format x writer x SecDefaultAction x rules with log/nolog/auditlog/noauditlog, ctl:auditEngine/auditLogParts/ruleEngine, deny/drop/redirect/pass, in phases 1-5; connector stops at phase `last`), direct calls of ParseAuditLogParts/ApplyAuditLogParts, the native formatter on captured and synthetic logs, serial-writer files; a transaction case is non-trivial when at least one rule fired and (a record was written, or a callback fired, or the engine is RelevantOnly); a parse case when accepted or of length >= 2; an apply case when accepted; a native case when parts are non-empty; distinct = distinct inputs"
	tmp, err := os.MkdirTemp("", "verif-c19-")
	if err != nil {
		return nil, err
	}
	defer os.RemoveAll(tmp)
	rn := &runner{cfg: cfg, res: res, tmp: tmp, seen: map[string]bool{}, capLimit: cfg.Pick(50, 800), jdocLimit: cfg.Pick(40, 600)}
	rng := vh.Rng(cfg.Seed, "c19")

	flush := func(name string) error {
		if len(rn.terms) == 0 {
			return nil
		}
		si, err := vh.WriteShard(cfg.OutDir, vh.Shard{Name: name, Imports: "From Verif Require Import Base Audit AuditJson CorrC19.",
			CaseType: "CorrC19.case", MismatchF: "CorrC19.mismatches", Terms: rn.terms, Cases: rn.cases})
		if err != nil {
			return err
		}
		res.Shards = append(res.Shards, si)
		for i, c := range rn.cases {
			if len(res.Samples) < 6 && i%97 == 0 {
				res.Samples = append(res.Samples, c)
			}
		}
		rn.terms, rn.cases = nil, nil
		return nil
	}

	if cfg.Replay != "" {
		doc, err := os.ReadFile(cfg.Replay)
		if err != nil {
			return nil, err
		}
		if err := rn.runDoc(doc); err != nil {
			return nil, err
		}
		if err := flush("C19_0"); err != nil {
			return nil, err
		}
		res.DistinctNontrivial = rn.nontriv
		return res, nil
	}

	rn.checkDefaultParts()
	docs, names := vh.LoadCorpus(cfg.Corpus)
	for i, d := range docs {
		if err := rn.runDoc(d); err != nil {
			res.Notes = append(res.Notes, "corpus "+names[i]+": "+err.Error())
		}
		res.InputDistribution["corpus"]++
	}
	for _, c := range decisionGrid() {
		rn.runTx(c)
		res.InputDistribution["grid"]++
	}
	for _, c := range switchGrid() {
		rn.runTx(c)
		res.InputDistribution["switch_grid"]++
	}
	if err := flush("C19_0"); err != nil {
		return nil, err
	}
	for _, c := range fixedSeries() {
		rn.runSeries(c)
	}
	nSeries := cfg.Pick(40, 1500)
	for i := 0; i < nSeries; i++ {
		rn.runSeries(genSeries(rng, i))
		if len(rn.terms) >= cfg.Pick(250, 400) {
			if err := flush(fmt.Sprintf("C19_s%d", i)); err != nil {
				return nil, err
			}
		}
	}
	if err := flush("C19_s"); err != nil {
		return nil, err
	}

	nTx := cfg.Pick(300, 6000)
	per := cfg.Pick(250, 400)
	shard := 1
	for i := 0; i < nTx; i++ {
		rn.runTx(genTx(rng, i))
		if len(rn.terms) >= per {
			if err := flush(fmt.Sprintf("C19_%d", shard)); err != nil {
				return nil, err
			}
			shard++
		}
	}
	if err := flush(fmt.Sprintf("C19_%d", shard)); err != nil {
		return nil, err
	}
	shard++

	nParts := cfg.Pick(1000, 10000)
	for i := 0; i < nParts; i++ {
		rn.runParse(genPartsString(rng))
		base := pick(rng, []string{"ABCFHZ", "AZ", "BC", "", "ABCDEFGHIJKZ", "AKZ", "KB", "ABBZ"})
		if rng.Intn(4) == 0 {
			base = genPartsString(rng)
		}
		rn.runApply(base, genModification(rng))
		if len(rn.terms) >= 4000 {
			if err := flush(fmt.Sprintf("C19_%d", shard)); err != nil {
				return nil, err
			}
			shard++
		}
	}
	nSyn := cfg.Pick(90, 1000)
	for i := 0; i < nSyn; i++ {
		rn.runSyntheticNative(cfg.Seed*1000003+int64(i)*7919+19, i)
		if len(rn.terms) >= 200 {
			if err := flush(fmt.Sprintf("C19_%d", shard)); err != nil {
				return nil, err
			}
			shard++
		}
	}
	nJ := cfg.Pick(600, 8000)
	for i := 0; i < nJ; i++ {
		rn.runJStr(advString(rng))
	}
	for b := 0; b < 256; b++ { // every single byte, and every byte after a lead byte
		rn.runJStr(string([]byte{byte(b)}))
		rn.runJStr(string([]byte{0xe2, 0x80, byte(b)}))
	}
	nJD := cfg.Pick(60, 1000)
	for i := 0; i < nJD; i++ {
		rn.runSyntheticJSON(cfg.Seed*1000003+int64(i)*104729+23, i)
		if len(rn.terms) >= 2000 {
			if err := flush(fmt.Sprintf("C19_j%d", i)); err != nil {
				return nil, err
			}
		}
	}
	if err := flush("C19_j"); err != nil {
		return nil, err
	}
	rn.concurrencyOracle(3, 6, 4) // small run: its file also goes through the model's line reader
	rn.concurrencyOracle(cfg.Pick(16, 32), cfg.Pick(60, 150), 900)
	if err := flush(fmt.Sprintf("C19_%d", shard)); err != nil {
		return nil, err
	}
	res.DistinctNontrivial = rn.nontriv
	res.Notes = append(res.Notes, "concurrency run (goroutines sharing one serial / one concurrent writer) is supporting validation on the implementation, not proof; the schedule theorem is C19_whole_records")
	return res, nil
}
