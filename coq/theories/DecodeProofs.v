(* DecodeProofs.v — lemmas and proofs about the Decode.v model (property C03). *)
From Coq Require Import String Permutation.
From Verif Require Import Base Decode.
Open Scope N_scope.

(* ------------------------------------------------------------------------------------ *)
(* 1. queryUnescape inverts every valid percent/plus encoding                            *)
(* ------------------------------------------------------------------------------------ *)

(* a valid encoding of one byte: itself when not reserved, %XY with any hex digit case, or '+'
   for a space *)
Inductive enc_byte (reserved : byte -> bool) : byte -> bytes -> Prop :=
  | EB_lit c : reserved c = false -> enc_byte reserved c [c]
  | EB_pct c h l : dc_hex_val h = Some (c / 16) -> dc_hex_val l = Some (c mod 16) ->
                   enc_byte reserved c [37; h; l]
  | EB_plus : enc_byte reserved 32 [43].
Inductive enc_str (reserved : byte -> bool) : bytes -> bytes -> Prop :=
  | ES_nil : enc_str reserved [] []
  | ES_cons c s e es : enc_byte reserved c e -> enc_str reserved s es ->
                       enc_str reserved (c :: s) (e ++ es).

Lemma unescape_valid_encoding reserved s e :
  reserved 43 = true -> reserved 37 = true -> enc_str reserved s e -> query_unescape e = s.
Proof.
  intros R1 R2 H. induction H as [|c s e es Hb Hs IH]; [reflexivity|].
  destruct Hb as [c Hc | c h l Hh Hl | ].
  - cbn [app query_unescape].
    destruct (c =? 43) eqn:E1; [apply N.eqb_eq in E1; subst; congruence|].
    destruct (c =? 37) eqn:E2; [apply N.eqb_eq in E2; subst; congruence|].
    now rewrite IH.
  - cbn [app query_unescape]. change (37 =? 43) with false. change (37 =? 37) with true.
    cbv iota. rewrite Hh, Hl, IH. f_equal.
    pose proof (N.div_mod c 16 ltac:(discriminate)). lia.
  - cbn [app query_unescape]. change (43 =? 43) with true. cbv iota. now rewrite IH.
Qed.

(* the functional encoder produces a valid encoding *)
Lemma hex_up_val n : n < 16 -> dc_hex_val (dc_hex_up n) = Some n.
Proof.
  intro H. assert (In n [0;1;2;3;4;5;6;7;8;9;10;11;12;13;14;15]).
  { cbn. repeat (destruct (N.eq_dec n _) as [->|?]; [auto 20|]); try lia.
    all: exfalso; lia. }
  cbn in H0. repeat destruct H0 as [<-|H0]; try reflexivity. contradiction.
Qed.

Lemma unreserved_lt c : dc_unreserved c = true -> c < 256.
Proof.
  unfold dc_unreserved, dc_in. intro H.
  repeat (apply orb_true_iff in H as [H|H]);
    repeat (apply andb_true_iff in H as [? H]);
    repeat match goal with
           | X : (_ <=? _) = true |- _ => apply N.leb_le in X
           | X : (_ =? _) = true |- _ => apply N.eqb_eq in X
           end; lia.
Qed.

Lemma pct_enc_valid res s :
  (forall c, dc_unreserved c = true -> res c = false) ->
  wf_bytes s -> enc_str res s (pct_enc s).
Proof.
  intros Hres Hwf. induction Hwf as [|c s Hc Hs IH]; [constructor|].
  unfold pct_enc. cbn [flat_map]. fold (pct_enc s).
  constructor; [|exact IH].
  destruct (dc_unreserved c) eqn:E.
  - apply EB_lit. now apply Hres.
  - unfold pct_byte. unfold wf_byte in Hc. apply EB_pct; apply hex_up_val.
    + apply N.div_lt_upper_bound; lia.
    + apply N.mod_lt. discriminate.
Qed.

Definition dc_qres (c : byte) : bool := negb (dc_unreserved c).

Lemma unescape_encode s : wf_bytes s -> query_unescape (pct_enc s) = s.
Proof.
  intro H. apply (unescape_valid_encoding dc_qres); try reflexivity.
  apply pct_enc_valid; [|exact H]. intros c Hc. unfold dc_qres. now rewrite Hc.
Qed.

(* ------------------------------------------------------------------------------------ *)
(* 2. splitting, joining, cutting                                                        *)
(* ------------------------------------------------------------------------------------ *)

Lemma split_not_nil sep s : dc_split sep s <> [].
Proof.
  destruct s as [|c r]; cbn [dc_split]; [discriminate|].
  destruct (c =? sep); [discriminate|]. destruct (dc_split sep r); discriminate.
Qed.

Lemma split_nosep sep x : ~ In sep x -> dc_split sep x = [x].
Proof.
  induction x as [|c x IH]; intro H; [reflexivity|].
  cbn [dc_split]. destruct (c =? sep) eqn:E.
  - apply N.eqb_eq in E. subst. exfalso. apply H. now left.
  - rewrite IH; [reflexivity|]. intro I. apply H. now right.
Qed.

Lemma split_app sep x rest : ~ In sep x -> dc_split sep (x ++ sep :: rest) = x :: dc_split sep rest.
Proof.
  induction x as [|c x IH]; intro H.
  - cbn [app dc_split]. now rewrite N.eqb_refl.
  - cbn [app dc_split]. destruct (c =? sep) eqn:E.
    + apply N.eqb_eq in E. subst. exfalso. apply H. now left.
    + rewrite IH; [reflexivity|]. intro I. apply H. now right.
Qed.

Lemma split_join sep l :
  l <> [] -> Forall (fun x => ~ In sep x) l -> dc_split sep (dc_join [sep] l) = l.
Proof.
  induction l as [|x l IH]; intros Hne Hall; [congruence|].
  inversion Hall as [|? ? Hx Hl]; subst.
  cbn [dc_join]. destruct l as [|y l'].
  - now apply split_nosep.
  - cbn [app]. rewrite split_app by exact Hx. f_equal. apply IH; [discriminate|exact Hl].
Qed.

Lemma cut_app c k v : ~ In c k -> dc_cut c (k ++ c :: v) = (k, v, true).
Proof.
  induction k as [|x k IH]; intro H.
  - cbn [app dc_cut]. now rewrite N.eqb_refl.
  - cbn [app dc_cut]. destruct (x =? c) eqn:E.
    + apply N.eqb_eq in E. subst. exfalso. apply H. now left.
    + rewrite IH; [reflexivity|]. intro I. apply H. now right.
Qed.

Lemma cut_absent c k : ~ In c k -> dc_cut c k = (k, [], false).
Proof.
  induction k as [|x k IH]; intro H; [reflexivity|].
  cbn [dc_cut]. destruct (x =? c) eqn:E.
  - apply N.eqb_eq in E. subst. exfalso. apply H. now left.
  - rewrite IH; [reflexivity|]. intro I. apply H. now right.
Qed.

(* bytes an encoder can emit *)
Definition enc_out (res : byte -> bool) (b : byte) : Prop :=
  b = 37 \/ b = 43 \/ dc_hex_val b <> None \/ res b = false.

Lemma enc_str_out res s e : enc_str res s e -> Forall (enc_out res) e.
Proof.
  induction 1 as [|c s e es Hb Hs IH]; [constructor|].
  apply Forall_app. split; [|exact IH].
  destruct Hb as [c Hc | c h l Hh Hl | ].
  - apply Forall_cons; [|apply Forall_nil]. right; right; right. exact Hc.
  - apply Forall_cons; [now left|]. apply Forall_cons; [right; right; left; congruence|].
    apply Forall_cons; [right; right; left; congruence|apply Forall_nil].
  - apply Forall_cons; [|apply Forall_nil]. right; left. reflexivity.
Qed.

(* a delimiter: reserved, not '%', not '+', not a hex digit *)
Definition is_delim (res : byte -> bool) (d : byte) : Prop :=
  res d = true /\ d <> 37 /\ d <> 43 /\ dc_hex_val d = None.

Lemma enc_str_no_delim res s e d : is_delim res d -> enc_str res s e -> ~ In d e.
Proof.
  intros (R & N1 & N2 & Hx) H I.
  pose proof (enc_str_out _ _ _ H) as F. rewrite Forall_forall in F.
  destruct (F _ I) as [?|[?|[?|?]]]; congruence.
Qed.

(* ------------------------------------------------------------------------------------ *)
(* 3. doParseQuery reads back every pair of every valid encoding                         *)
(* ------------------------------------------------------------------------------------ *)

Definition pair_encodes (res : byte -> bool) (p e : bytes * bytes) : Prop :=
  enc_str res (fst p) (fst e) /\ enc_str res (snd p) (snd e).
Definition join_pairs (sep : byte) (el : list (bytes * bytes)) : bytes :=
  dc_join [sep] (map (fun e => fst e ++ [61] ++ snd e) el).

Lemma pieces_parse res l el :
  res 43 = true -> res 37 = true -> is_delim res 61 ->
  Forall2 (pair_encodes res) l el ->
  map (dc_parse_piece true)
      (filter (fun p => negb (dc_is_empty p)) (map (fun e => fst e ++ [61] ++ snd e) el)) = l.
Proof.
  intros R1 R2 Deq H. induction H as [|p e l el Hpe Hrest IH]; [reflexivity|].
  destruct e as [ek ev]. destruct Hpe as [Hk Hv]. cbn [fst snd] in Hk, Hv.
  cbn [map filter fst snd].
  assert (Hn : dc_is_empty (ek ++ [61] ++ ev) = false) by (destruct ek; reflexivity).
  rewrite Hn. cbn [negb map]. f_equal; [|exact IH].
  unfold dc_parse_piece. cbn [app].
  rewrite cut_app by (exact (enc_str_no_delim _ _ _ _ Deq Hk)).
  rewrite (unescape_valid_encoding res _ _ R1 R2 Hk), (unescape_valid_encoding res _ _ R1 R2 Hv).
  now destruct p.
Qed.

Lemma pieces_no_sep res sep l el :
  is_delim res sep -> sep <> 61 -> Forall2 (pair_encodes res) l el ->
  Forall (fun x => ~ In sep x) (map (fun e => fst e ++ [61] ++ snd e) el).
Proof.
  intros Dsep Hne H. induction H as [|p e l el Hpe Hrest IH]; [constructor|].
  destruct e as [ek ev]. destruct Hpe as [Hk Hv]. cbn [fst snd] in Hk, Hv.
  cbn [map fst snd]. constructor; [|exact IH].
  intro I. apply in_app_or in I as [I|I].
  - exact (enc_str_no_delim _ _ _ _ Dsep Hk I).
  - cbn [app] in I. destruct I as [I|I]; [congruence|]. exact (enc_str_no_delim _ _ _ _ Dsep Hv I).
Qed.

Theorem parse_pairs_roundtrip res sep l el :
  res 43 = true -> res 37 = true -> is_delim res sep -> is_delim res 61 -> sep <> 61 ->
  Forall2 (pair_encodes res) l el ->
  parse_pairs sep true (join_pairs sep el) = l.
Proof.
  intros R1 R2 Dsep Deq Hne H.
  unfold parse_pairs, join_pairs.
  destruct el as [|e0 el0].
  { inversion H; subst. reflexivity. }
  rewrite split_join.
  - eapply pieces_parse; eauto.
  - discriminate.
  - eapply pieces_no_sep; eauto.
Qed.

(* the functional encoder of the model/harness is one such encoding *)
Lemma dc_qres_delim d : dc_unreserved d = false -> d <> 37 -> d <> 43 -> dc_hex_val d = None -> is_delim dc_qres d.
Proof. intros. unfold is_delim, dc_qres. rewrite H. auto. Qed.

Definition wf_pairs (l : list (bytes * bytes)) : Prop :=
  Forall (fun p => wf_bytes (fst p) /\ wf_bytes (snd p)) l.

Lemma enc_query_join l : enc_query l = join_pairs 38 (map (fun p => (pct_enc (fst p), pct_enc (snd p))) l).
Proof. unfold enc_query, join_pairs. rewrite map_map. reflexivity. Qed.

Theorem query_roundtrip_pairs l : wf_pairs l -> parse_pairs 38 true (enc_query l) = l.
Proof.
  intro H. rewrite enc_query_join.
  apply (parse_pairs_roundtrip dc_qres); try reflexivity; try discriminate;
    try (apply dc_qres_delim; (reflexivity || discriminate)).
  induction H as [|p l [Hk Hv] Hl IH]; [constructor|].
  cbn [map]. constructor; [|exact IH].
  split; cbn [fst snd]; apply pct_enc_valid; auto; intros c Hc; unfold dc_qres; now rewrite Hc.
Qed.

(* ------------------------------------------------------------------------------------ *)
(* 4. grouping into map[string][]string: nothing lost, merged or re-attributed           *)
(* ------------------------------------------------------------------------------------ *)

Definition values_of (k : bytes) (l : list (bytes * bytes)) : list bytes :=
  map snd (filter (fun p => bytes_eqb (fst p) k) l).

Lemma grp_add_get k v g k0 :
  gmap_get k0 (dc_grp_add k v g) = if bytes_eqb k k0 then gmap_get k0 g ++ [v] else gmap_get k0 g.
Proof.
  induction g as [|[k' vs] g IH]; cbn [dc_grp_add gmap_get].
  - destruct (bytes_eqb k k0); reflexivity.
  - destruct (bytes_eqb k' k) eqn:E.
    + apply bytes_eqb_eq in E. subst k'. cbn [gmap_get]. destruct (bytes_eqb k k0); reflexivity.
    + cbn [gmap_get]. destruct (bytes_eqb k' k0) eqn:E2.
      * apply bytes_eqb_eq in E2. subst k0.
        assert (bytes_eqb k k' = false) as ->; [|reflexivity].
        apply bytes_eqb_neq. intro; subst. rewrite bytes_eqb_refl in E. discriminate.
      * exact IH.
Qed.

Lemma group_fold_get l : forall g k0,
  gmap_get k0 (fold_left (fun g p => dc_grp_add (fst p) (snd p) g) l g) = gmap_get k0 g ++ values_of k0 l.
Proof.
  induction l as [|[k v] l IH]; intros g k0; cbn [fold_left].
  - unfold values_of. cbn. now rewrite app_nil_r.
  - rewrite IH, grp_add_get. unfold values_of. cbn [filter fst snd].
    destruct (bytes_eqb k k0); cbn [map]; [rewrite <- app_assoc|]; reflexivity.
Qed.

(* the values stored under a name are exactly the values sent under that name, in order *)
Theorem group_pairs_lookup l k : gmap_get k (group_pairs l) = values_of k l.
Proof. unfold group_pairs. now rewrite group_fold_get. Qed.

Lemma grp_add_flat k v g : Permutation (gmap_flat (dc_grp_add k v g)) (gmap_flat g ++ [(k, v)]).
Proof.
  induction g as [|[k' vs] g IH]; cbn [dc_grp_add].
  - reflexivity.
  - destruct (bytes_eqb k' k) eqn:E.
    + apply bytes_eqb_eq in E. subst k'. unfold gmap_flat. cbn [flat_map fst snd].
      rewrite map_app. cbn [map]. rewrite <- !app_assoc. apply Permutation_app_head.
      apply Permutation_app_comm.
    + unfold gmap_flat in *. cbn [flat_map]. rewrite <- app_assoc. now apply Permutation_app_head.
Qed.

Lemma group_fold_flat l : forall g,
  Permutation (gmap_flat (fold_left (fun g p => dc_grp_add (fst p) (snd p) g) l g)) (gmap_flat g ++ l).
Proof.
  induction l as [|[k v] l IH]; intro g; cbn [fold_left].
  - now rewrite app_nil_r.
  - rewrite IH. cbn [fst snd]. rewrite grp_add_flat, <- app_assoc. reflexivity.
Qed.

(* the parsed map holds exactly the pairs that were sent *)
Theorem group_pairs_flat l : Permutation (gmap_flat (group_pairs l)) l.
Proof. unfold group_pairs. now rewrite group_fold_flat. Qed.

Lemma grp_add_keys k v g :
  map fst (dc_grp_add k v g) = if existsb (fun k' => bytes_eqb k' k) (map fst g) then map fst g else map fst g ++ [k].
Proof.
  induction g as [|[k' vs] g IH]; cbn [dc_grp_add map existsb fst]; [reflexivity|].
  destruct (bytes_eqb k' k) eqn:E; cbn [orb map fst]; [reflexivity|].
  rewrite IH. destruct (existsb _ _); reflexivity.
Qed.

Lemma existsb_false_notin k ks : existsb (fun k' => bytes_eqb k' k) ks = false -> ~ In k ks.
Proof.
  intros H I. assert (existsb (fun k' => bytes_eqb k' k) ks = true); [|congruence].
  apply existsb_exists. exists k. split; [exact I|apply bytes_eqb_refl].
Qed.

Lemma nodup_snoc {A} (l : list A) x : NoDup l -> ~ In x l -> NoDup (l ++ [x]).
Proof.
  induction l as [|y l IH]; intros H N; cbn [app].
  - constructor; [intros []|constructor].
  - inversion H; subst. constructor.
    + intro I. apply in_app_or in I as [I|[I|[]]]; [contradiction|subst]. apply N. now left.
    + apply IH; [assumption|]. intro I. apply N. now right.
Qed.

Lemma grp_add_nodup k v g : NoDup (map fst g) -> NoDup (map fst (dc_grp_add k v g)).
Proof.
  intro H. rewrite grp_add_keys. destruct (existsb _ _) eqn:E; [exact H|].
  apply nodup_snoc; [exact H|]. now apply existsb_false_notin.
Qed.

(* no name appears twice as a key of the parsed map *)
Theorem group_pairs_nodup l : NoDup (map fst (group_pairs l)).
Proof.
  unfold group_pairs. assert (G : NoDup (map fst (@nil (bytes * list bytes)))) by constructor.
  revert G. generalize (@nil (bytes * list bytes)) as g.
  induction l as [|p l IH]; intros g G; cbn [fold_left]; [exact G|].
  apply IH. now apply grp_add_nodup.
Qed.

(* ------------------------------------------------------------------------------------ *)
(* 5. the Map collection                                                                 *)
(* ------------------------------------------------------------------------------------ *)

Lemma bucket_add_flat fk e m : Permutation (cm_find_all (dc_bucket_add fk e m)) (cm_find_all m ++ [e]).
Proof.
  unfold cm_find_all. induction m as [|[k' es] m IH]; cbn [dc_bucket_add].
  - reflexivity.
  - destruct (bytes_eqb k' fk); cbn [flat_map snd].
    + rewrite <- !app_assoc. apply Permutation_app_head. apply Permutation_app_comm.
    + rewrite <- app_assoc. now apply Permutation_app_head.
Qed.

Lemma bucket_add_keys fk e m :
  map fst (dc_bucket_add fk e m) =
  if existsb (fun k' => bytes_eqb k' fk) (map fst m) then map fst m else map fst m ++ [fk].
Proof.
  induction m as [|[k' es] m IH]; cbn [dc_bucket_add map existsb fst]; [reflexivity|].
  destruct (bytes_eqb k' fk) eqn:E; cbn [orb map fst]; [reflexivity|].
  rewrite IH. destruct (existsb _ _); reflexivity.
Qed.

Lemma bucket_add_get fk e m fk0 :
  dc_bucket_get fk0 (dc_bucket_add fk e m) =
  if bytes_eqb fk fk0 then dc_bucket_get fk0 m ++ [e] else dc_bucket_get fk0 m.
Proof.
  induction m as [|[k' es] m IH]; cbn [dc_bucket_add dc_bucket_get].
  - destruct (bytes_eqb fk fk0); reflexivity.
  - destruct (bytes_eqb k' fk) eqn:E.
    + apply bytes_eqb_eq in E. subst k'. cbn [dc_bucket_get]. destruct (bytes_eqb fk fk0); reflexivity.
    + cbn [dc_bucket_get]. destruct (bytes_eqb k' fk0) eqn:E2.
      * apply bytes_eqb_eq in E2. subst fk0.
        assert (bytes_eqb fk k' = false) as ->; [|reflexivity].
        apply bytes_eqb_neq. intro; subst. rewrite bytes_eqb_refl in E. discriminate.
      * exact IH.
Qed.

Section WithFold.
Variable fold : bytes -> bytes.

Definition add_pairs (m : cmap) (fl : list kv) : cmap :=
  fold_left (fun m p => cm_add fold m (fst p) (snd p)) fl m.
Definition seq_add (limit : nat) (m : cmap) (fl : list kv) : cmap :=
  fold_left (fun m p => add_argument fold limit m (fst p) (snd p)) fl m.

Lemma fold_left_map {A B C} (f : A -> B -> A) (h : C -> B) l : forall a,
  fold_left f (map h l) a = fold_left (fun a c => f a (h c)) l a.
Proof. induction l as [|x l IH]; intro a; cbn [map fold_left]; [reflexivity|apply IH]. Qed.

(* the nested range loops visit the pairs of the map in flattened order *)
Lemma extract_flat limit ord : forall m,
  extract_arguments fold limit m ord = seq_add limit m (gmap_flat ord).
Proof.
  unfold extract_arguments, seq_add, gmap_flat.
  induction ord as [|g ord IH]; intro m; cbn [fold_left flat_map]; [reflexivity|].
  rewrite fold_left_app, <- IH. f_equal.
  unfold add_group. rewrite fold_left_map. reflexivity.
Qed.

Lemma add_all_flat ord : forall m, add_all_groups fold m ord = add_pairs m (gmap_flat ord).
Proof.
  unfold add_all_groups, add_pairs, gmap_flat.
  induction ord as [|g ord IH]; intro m; cbn [fold_left flat_map]; [reflexivity|].
  rewrite fold_left_app, <- IH. f_equal. rewrite fold_left_map. reflexivity.
Qed.

Lemma add_pairs_find_all fl : forall m, Permutation (cm_find_all (add_pairs m fl)) (cm_find_all m ++ fl).
Proof.
  unfold add_pairs. induction fl as [|[k v] fl IH]; intro m; cbn [fold_left].
  - now rewrite app_nil_r.
  - rewrite IH. unfold cm_add. cbn [fst snd]. rewrite bucket_add_flat, <- app_assoc. reflexivity.
Qed.

(* FindString / Get: exactly the entries whose folded name equals the folded key, in order *)
Lemma add_pairs_bucket fl fk : forall m,
  dc_bucket_get fk (add_pairs m fl) =
  dc_bucket_get fk m ++ filter (fun e => bytes_eqb (fold (fst e)) fk) fl.
Proof.
  unfold add_pairs. induction fl as [|[k v] fl IH]; intro m; cbn [fold_left].
  - now rewrite app_nil_r.
  - rewrite IH. unfold cm_add. cbn [fst snd filter]. rewrite bucket_add_get.
    destruct (bytes_eqb (fold k) fk); [rewrite <- app_assoc|]; reflexivity.
Qed.

(* number of distinct folded names *)
Fixpoint dc_dedup (l : list bytes) : list bytes :=
  match l with
  | [] => []
  | x :: r => if existsb (bytes_eqb x) r then dc_dedup r else x :: dc_dedup r
  end.
Lemma dedup_incl l : incl l (dc_dedup l).
Proof.
  induction l as [|x l IH]; intros y I; [exact I|].
  cbn [dc_dedup]. destruct (existsb (bytes_eqb x) l) eqn:E.
  - destruct I as [<-|I]; [|now apply IH].
    apply existsb_exists in E as (z & Iz & Ez). apply bytes_eqb_eq in Ez. subst z. now apply IH.
  - destruct I as [<-|I]; [now left|right; now apply IH].
Qed.
Definition distinct_names (l : list kv) : nat := length (dc_dedup (map (fun p => fold (fst p)) l)).

Definition cm_inv (K : list bytes) (m : cmap) : Prop := NoDup (map fst m) /\ incl (map fst m) K.

Lemma cm_add_inv K m k v : cm_inv K m -> In (fold k) K -> cm_inv K (cm_add fold m k v).
Proof.
  intros [N I] Hk. unfold cm_inv, cm_add. rewrite bucket_add_keys.
  destruct (existsb _ _) eqn:E; [now split|]. split.
  - apply nodup_snoc; [exact N|]. now apply existsb_false_notin.
  - intros y Iy. apply in_app_or in Iy as [Iy|[<-|[]]]; [now apply I|exact Hk].
Qed.

Lemma cm_inv_len K m : cm_inv K m -> (cm_len m <= length (dc_dedup K))%nat.
Proof.
  intros [N I]. unfold cm_len. rewrite <- (map_length fst). apply NoDup_incl_length; [exact N|].
  intros y Iy. apply dedup_incl. now apply I.
Qed.

(* below the limit the limit check never fires *)
Lemma seq_add_under_limit limit K fl : forall m,
  (length (dc_dedup K) < limit)%nat -> cm_inv K m -> (forall p, In p fl -> In (fold (fst p)) K) ->
  seq_add limit m fl = add_pairs m fl.
Proof.
  unfold seq_add, add_pairs. induction fl as [|[k v] fl IH]; intros m L Inv Hk; cbn [fold_left]; [reflexivity|].
  assert (E : add_argument fold limit m k v = cm_add fold m k v).
  { unfold add_argument. pose proof (cm_inv_len K m Inv).
    destruct (limit <=? cm_len m)%nat eqn:C; [apply Nat.leb_le in C; lia|reflexivity]. }
  cbn [fst snd]. rewrite E. apply IH; [exact L| |].
  - apply cm_add_inv; [exact Inv|]. apply (Hk (k, v)). now left.
  - intros p Ip. apply Hk. now right.
Qed.

(* C03_args_visible at the level of the collection: under the limit, whatever order Go's map
   iteration takes, ARGS_GET holds exactly the pairs that were sent *)
Theorem extract_under_limit limit l ord :
  (distinct_names l < limit)%nat -> Permutation (gmap_flat ord) l ->
  Permutation (cm_find_all (extract_arguments fold limit [] ord)) l.
Proof.
  intros L P. rewrite extract_flat.
  rewrite (seq_add_under_limit limit (map (fun p => fold (fst p)) l)).
  - rewrite add_pairs_find_all. exact P.
  - exact L.
  - split; [constructor|intros y []].
  - intros p Ip. apply in_map_iff. exists p. split; [reflexivity|].
    eapply Permutation_in; eauto.
Qed.

End WithFold.

(* ------------------------------------------------------------------------------------ *)
(* 6. ProcessURI end to end on origin-form URIs                                          *)
(* ------------------------------------------------------------------------------------ *)

Definition dc_qbyte (b : byte) : bool := dc_unreserved b || (b =? 37) || (b =? 38) || (b =? 61).

Lemma hex_up_unreserved n : n < 16 -> dc_unreserved (dc_hex_up n) = true.
Proof.
  intro H. assert (In n [0;1;2;3;4;5;6;7;8;9;10;11;12;13;14;15]).
  { cbn. repeat (destruct (N.eq_dec n _) as [->|?]; [auto 20|]); try lia.
    all: exfalso; lia. }
  cbn in H0. repeat destruct H0 as [<-|H0]; try reflexivity. contradiction.
Qed.

Lemma pct_enc_qbytes s : wf_bytes s -> forallb dc_qbyte (pct_enc s) = true.
Proof.
  intro H. induction H as [|c s Hc Hs IH]; [reflexivity|].
  unfold pct_enc. cbn [flat_map]. fold (pct_enc s). rewrite forallb_app, IH, andb_true_r.
  destruct (dc_unreserved c) eqn:E.
  - cbn [forallb]. unfold dc_qbyte. now rewrite E.
  - unfold pct_byte. cbn [forallb]. unfold wf_byte in Hc. unfold dc_qbyte at 2 3.
    rewrite !hex_up_unreserved; [reflexivity| |].
    + apply N.mod_lt. discriminate.
    + apply N.div_lt_upper_bound; lia.
Qed.

Lemma forallb_join f sep l :
  forallb f sep = true -> forallb (forallb f) l = true -> forallb f (dc_join sep l) = true.
Proof.
  intros Hs. induction l as [|x l IH]; intro H; [reflexivity|].
  cbn [forallb] in H. apply andb_true_iff in H as [Hx Hl].
  cbn [dc_join]. destruct l as [|y l']; [exact Hx|].
  rewrite !forallb_app, Hx, Hs. cbn [andb]. now apply IH.
Qed.

Lemma enc_query_qbytes l : wf_pairs l -> forallb dc_qbyte (enc_query l) = true.
Proof.
  intro H. unfold enc_query. apply forallb_join; [reflexivity|].
  induction H as [|p l [Hk Hv] Hl IH]; [reflexivity|].
  cbn [map forallb]. rewrite IH, andb_true_r. unfold enc_pair.
  rewrite !forallb_app, !pct_enc_qbytes by assumption. reflexivity.
Qed.

Lemma unreserved_cases c : dc_unreserved c = true ->
  (48 <= c <= 57) \/ (65 <= c <= 90) \/ (97 <= c <= 122) \/ c = 45 \/ c = 46 \/ c = 95 \/ c = 126.
Proof.
  unfold dc_unreserved, dc_in. intro H.
  repeat (apply orb_true_iff in H as [H|H]);
    repeat (apply andb_true_iff in H as [? H]);
    repeat match goal with
           | X : (_ <=? _) = true |- _ => apply N.leb_le in X
           | X : (_ =? _) = true |- _ => apply N.eqb_eq in X
           end; lia.
Qed.

Lemma qbyte_props b : dc_qbyte b = true -> b <> 35 /\ b <> 63 /\ dc_no_ctl b = true.
Proof.
  unfold dc_qbyte. intro H.
  assert (C : (32 <= b /\ b <> 127 /\ b <> 35 /\ b <> 63)).
  { apply orb_true_iff in H as [H|H]; [apply orb_true_iff in H as [H|H]; [apply orb_true_iff in H as [H|H]|]|].
    - apply unreserved_cases in H. lia.
    - apply N.eqb_eq in H. lia.
    - apply N.eqb_eq in H. lia.
    - apply N.eqb_eq in H. lia. }
  destruct C as (C1 & C2 & C3 & C4). repeat split; try assumption.
  unfold dc_no_ctl. apply andb_true_iff. split; apply negb_true_iff.
  - apply N.ltb_ge. exact C1.
  - now apply N.eqb_neq.
Qed.

Lemma path_byte_props b : dc_path_byte b = true -> b <> 35 /\ b <> 63.
Proof.
  unfold dc_path_byte. intro H. apply orb_true_iff in H as [H|H].
  - apply unreserved_cases in H. lia.
  - apply N.eqb_eq in H. lia.
Qed.

Lemma forallb_notin (f : byte -> bool) c s : forallb f s = true -> f c = false -> ~ In c s.
Proof.
  intros H Hc I. rewrite forallb_forall in H. specialize (H _ I). congruence.
Qed.

Lemma origin_path_bytes p : dc_origin_path p = true -> forallb dc_path_byte p = true.
Proof.
  destruct p as [|a r]; [discriminate|]. unfold dc_origin_path.
  intro H. apply andb_true_iff in H as [_ H]. exact H.
Qed.

Lemma cut_fragment_none u : ~ In 35 u -> dc_cut_fragment u = u.
Proof. intro H. unfold dc_cut_fragment. now rewrite cut_absent. Qed.

Section UriFold.
Variable fold : bytes -> bytes.

(* what ProcessURI leaves in the variables for "/path?" ++ enc_query l *)
Theorem process_uri_visible limit l path ord method proto :
  wf_pairs l -> dc_origin_path path = true ->
  (distinct_names fold l < limit)%nat ->
  Permutation ord (parse_query (enc_query l) 38) ->
  let uri := path ++ [63] ++ enc_query l in
  let t := process_uri fold dc_simple_parse_uri limit (fun _ => ord) txv_empty uri method proto in
  Permutation (cm_find_all (v_args_get t)) l /\
  Permutation (var_args t) l /\
  Permutation (var_args_names t) (map (fun p => (fst p, fst p)) l) /\
  v_query_string t = enc_query l /\ v_uri_raw t = uri /\ v_uri t = uri /\
  v_filename t = path /\ v_basename t = dc_basename path /\ v_urlencoded_error t = false.
Proof.
  intros Hwf Hpath Hlim Hord uri t.
  pose proof (origin_path_bytes _ Hpath) as Hpb.
  pose proof (enc_query_qbytes _ Hwf) as Hqb.
  assert (Hno35 : ~ In 35 uri).
  { unfold uri. intro I. apply in_app_or in I as [I|I].
    - rewrite forallb_forall in Hpb. apply Hpb in I. apply path_byte_props in I. lia.
    - cbn [app] in I. destruct I as [I|I]; [discriminate|].
      rewrite forallb_forall in Hqb. apply Hqb in I. apply qbyte_props in I. lia. }
  assert (Hno63 : ~ In 63 path).
  { intro I. rewrite forallb_forall in Hpb. apply Hpb in I. apply path_byte_props in I. lia. }
  assert (Hsimple : dc_simple_parse_uri uri = Some (mk_uri path (enc_query l) uri)).
  { unfold dc_simple_parse_uri, dc_simple_uri, uri. cbn [app]. rewrite cut_app by exact Hno63.
    rewrite Hpath. cbn [andb].
    assert (forallb dc_no_ctl (enc_query l) = true) as ->; [|reflexivity].
    apply forallb_forall. intros b I. rewrite forallb_forall in Hqb. apply Hqb in I.
    now apply qbyte_props in I. }
  assert (Hget : Permutation (cm_find_all (v_args_get t)) l).
  { unfold t, process_uri. rewrite cut_fragment_none by exact Hno35. rewrite Hsimple.
    cbn [v_args_get u_rawquery txv_empty].
    apply extract_under_limit; [exact Hlim|].
    eapply Permutation_trans; [unfold gmap_flat; apply Permutation_flat_map; exact Hord|].
    unfold parse_query, do_parse_query. rewrite query_roundtrip_pairs by exact Hwf.
    apply group_pairs_flat. }
  assert (Hpost : v_args_post t = [] /\ v_args_path t = []).
  { unfold t, process_uri. rewrite cut_fragment_none by exact Hno35. rewrite Hsimple. now cbn. }
  destruct Hpost as [Hp1 Hp2].
  repeat split.
  - exact Hget.
  - unfold var_args. rewrite Hp1, Hp2. cbn [cm_find_all flat_map]. now rewrite !app_nil_r.
  - unfold var_args_names, cm_names. rewrite Hp1, Hp2. cbn [cm_find_all flat_map map]. rewrite !app_nil_r.
    now apply Permutation_map.
  - unfold t, process_uri. rewrite cut_fragment_none by exact Hno35. rewrite Hsimple. reflexivity.
  - unfold t, process_uri. rewrite cut_fragment_none by exact Hno35. rewrite Hsimple. reflexivity.
  - unfold t, process_uri. rewrite cut_fragment_none by exact Hno35. rewrite Hsimple. reflexivity.
  - unfold t, process_uri. rewrite cut_fragment_none by exact Hno35. rewrite Hsimple. reflexivity.
  - unfold t, process_uri. rewrite cut_fragment_none by exact Hno35. rewrite Hsimple. reflexivity.
  - unfold t, process_uri. rewrite cut_fragment_none by exact Hno35. rewrite Hsimple. reflexivity.
Qed.

(* an unparseable URI is signalled *)
Theorem process_uri_error_signalled parse_uri limit qo t uri method proto :
  parse_uri (dc_cut_fragment uri) = None ->
  v_urlencoded_error (process_uri fold parse_uri limit qo t uri method proto) = true.
Proof. intro H. unfold process_uri. now rewrite H. Qed.

End UriFold.

(* ------------------------------------------------------------------------------------ *)
(* 7. headers                                                                            *)
(* ------------------------------------------------------------------------------------ *)

Section HdrFold.
Variable fold : bytes -> bytes.
Variable cookie_ord : bytes -> gmap.

Definition nonempty_key (p : kv) : bool := negb (dc_is_empty (fst p)).

Lemma add_header_headers t k v :
  v_headers (add_request_header fold cookie_ord t k v) =
  if dc_is_empty k then v_headers t else cm_add fold (v_headers t) k v.
Proof.
  unfold add_request_header. destruct (dc_is_empty k); [reflexivity|].
  destruct (bytes_eqb (lower_ascii k) (str "content-type")).
  - destruct (bytes_eqb (dc_media_type _) dc_ct_urlencoded); [reflexivity|].
    destruct (is_prefix _ _); reflexivity.
  - destruct (bytes_eqb (lower_ascii k) (str "cookie")); reflexivity.
Qed.

Definition add_headers (t : txv) (hs : list kv) : txv :=
  fold_left (fun t h => add_request_header fold cookie_ord t (fst h) (snd h)) hs t.

Lemma add_headers_headers hs : forall t,
  v_headers (add_headers t hs) = add_pairs fold (v_headers t) (filter nonempty_key hs).
Proof.
  unfold add_headers. induction hs as [|[k v] hs IH]; intro t; cbn [fold_left filter]; [reflexivity|].
  rewrite IH, add_header_headers. unfold nonempty_key. cbn [fst snd].
  destruct (dc_is_empty k); cbn [negb]; reflexivity.
Qed.

(* every header with a non-empty name is in REQUEST_HEADERS, byte-exact, original spelling *)
Theorem headers_visible hs :
  Permutation (cm_find_all (v_headers (add_headers txv_empty hs))) (filter nonempty_key hs).
Proof. rewrite add_headers_headers. rewrite add_pairs_find_all. reflexivity. Qed.

(* REQUEST_HEADERS:name selects exactly the headers whose folded name equals the folded key,
   in the order they were added *)
Theorem headers_lookup hs k : dc_is_empty k = false ->
  cm_find_string fold (v_headers (add_headers txv_empty hs)) k =
  filter (fun e => bytes_eqb (fold (fst e)) (fold k)) (filter nonempty_key hs).
Proof.
  intro H. unfold cm_find_string. rewrite H, add_headers_headers, add_pairs_bucket. reflexivity.
Qed.

End HdrFold.

(* ------------------------------------------------------------------------------------ *)
(* 8. urlencoded body                                                                    *)
(* ------------------------------------------------------------------------------------ *)

Section BodyFold.
Variable fold : bytes -> bytes.
Variable cookie_ord : bytes -> gmap.

(* the content types AddRequestHeader takes for a urlencoded body: the media type in any letter
   case, optionally surrounded by white space, alone or followed by ';' and parameters *)
Definition ct_is_urlencoded (ct : bytes) : bool :=
  bytes_eqb (dc_media_type (lower_ascii ct)) dc_ct_urlencoded.

Definition urlencoded_tx_ct (ct : bytes) : txv :=
  add_request_header fold cookie_ord txv_empty (str "Content-Type"%string) ct.
Definition urlencoded_tx : txv := urlencoded_tx_ct dc_ct_urlencoded.

Lemma urlencoded_tx_ct_eq ct : ct_is_urlencoded ct = true ->
  urlencoded_tx_ct ct =
  set_rbp (set_headers txv_empty (cm_add fold [] (str "Content-Type"%string) ct)) (str "URLENCODED"%string).
Proof.
  intro H. unfold urlencoded_tx_ct, add_request_header.
  change (dc_is_empty (str "Content-Type")) with false. cbv iota.
  change (bytes_eqb (lower_ascii (str "Content-Type")) (str "content-type")) with true. cbv iota.
  unfold ct_is_urlencoded in H. rewrite H. reflexivity.
Qed.

Theorem urlencoded_visible_ct cfg o l ct :
  ct_is_urlencoded ct = true ->
  wf_pairs l -> bc_access cfg = true ->
  Permutation (bo_post_ord o) (parse_query (enc_urlencoded l) 38) ->
  let t := process_request_body fold cfg o (urlencoded_tx_ct ct) (enc_urlencoded l) in
  Permutation (cm_find_all (v_args_post t)) l /\
  v_request_body t = enc_urlencoded l /\ v_reqbody_error t = false.
Proof.
  intros Hct Hwf Hacc Hord t. unfold t, process_request_body. rewrite Hacc. cbn [negb orb].
  rewrite (urlencoded_tx_ct_eq ct Hct).
  destruct (dc_is_empty (enc_urlencoded l)) eqn:E.
  - (* empty body: l must be empty *)
    destruct l as [|p l].
    + repeat split; reflexivity.
    + exfalso. unfold enc_urlencoded, enc_query in E. cbn [map dc_join] in E.
      destruct l; unfold enc_pair in E; destruct (pct_enc (fst p)); discriminate.
  - destruct (bc_force cfg);
      match goal with |- context [select_processor ?x] => change (select_processor x) with PUrlencoded end;
      cbn [v_args_post v_request_body v_reqbody_error set_request_body set_args_post set_rbp set_headers txv_empty];
      (repeat split; [|reflexivity..]);
      rewrite add_all_flat, add_pairs_find_all; cbn [cm_find_all flat_map app];
      (eapply Permutation_trans; [unfold gmap_flat; apply Permutation_flat_map; exact Hord|]);
      unfold parse_query, do_parse_query, enc_urlencoded; rewrite query_roundtrip_pairs by exact Hwf;
      apply group_pairs_flat.
Qed.

Theorem urlencoded_visible cfg o l :
  wf_pairs l -> bc_access cfg = true ->
  Permutation (bo_post_ord o) (parse_query (enc_urlencoded l) 38) ->
  let t := process_request_body fold cfg o urlencoded_tx (enc_urlencoded l) in
  Permutation (cm_find_all (v_args_post t)) l /\
  v_request_body t = enc_urlencoded l /\ v_reqbody_error t = false.
Proof. apply urlencoded_visible_ct. reflexivity. Qed.

End BodyFold.

(* ------------------------------------------------------------------------------------ *)
(* 9. decoded exactly once                                                               *)
(* ------------------------------------------------------------------------------------ *)

Theorem decoded_once k : wf_bytes k ->
  parse_pairs 38 true (enc_query [(k, str "%41"%string)]) = [(k, str "%41"%string)] /\
  query_unescape (str "%41"%string) = [65].
Proof.
  intro H. split; [|reflexivity]. apply query_roundtrip_pairs.
  constructor; [|constructor]. split; [exact H|]. cbn. repeat constructor.
Qed.

(* ------------------------------------------------------------------------------------ *)
(* 10. arguments over the limit disappear silently (finding c03-args-over-limit-silent)  *)
(* ------------------------------------------------------------------------------------ *)

Definition over_limit_witness : list kv := [(str "a"%string, str "1"%string); (str "a"%string, str "2"%string)].

Theorem over_limit_silent_refuted :
  exists (l : list kv) (limit : nat), wf_pairs l /\
  forall fold ord, Permutation ord (parse_query (enc_query l) 38) ->
    let t := process_uri fold dc_simple_parse_uri limit (fun _ => ord) txv_empty
                         (str "/?"%string ++ enc_query l) (str "GET"%string) (str "HTTP/1.1"%string) in
    (exists p, In p l /\ ~ In p (cm_find_all (v_args_get t))) /\
    v_urlencoded_error t = false /\ v_reqbody_error t = false.
Proof.
  exists over_limit_witness, 1%nat. split.
  { unfold over_limit_witness. repeat constructor. }
  intros fold ord P.
  assert (E : ord = parse_query (enc_query over_limit_witness) 38).
  { apply Permutation_sym in P. vm_compute in P. apply Permutation_length_1_inv in P. rewrite P. reflexivity. }
  subst ord. vm_compute. repeat split.
  exists ([97], [50]). split; [right; left; reflexivity|].
  intros [C|[]]. discriminate.
Qed.

(* ------------------------------------------------------------------------------------ *)
(* 11. the body processor selection and its error paths                                  *)
(* ------------------------------------------------------------------------------------ *)

Definition eff_rbp (cfg : body_cfg) (t : txv) : bytes :=
  if bc_force cfg && dc_is_empty (v_rbp t) then str "URLENCODED"%string else v_rbp t.

Lemma prb_unfold fold cfg o t body : bc_access cfg = true -> dc_is_empty body = false ->
  exists t1, v_rbp t1 = eff_rbp cfg t /\ v_reqbody_error t1 = v_reqbody_error t /\
  process_request_body fold cfg o t body =
    match select_processor (v_rbp t1) with
    | PNone => t1
    | PInvalid => set_reqbody_error t1
    | PUrlencoded =>
      set_request_body (set_args_post t1 (add_all_groups fold (v_args_post t1) (bo_post_ord o))) body
    | PRaw => set_request_body t1 body
    | PJson =>
      match bo_json o with
      | Some tree =>
        let '(w, e) := read_json tree (bc_depth cfg) in
        let t2 := set_args_post t1 (json_apply fold (v_args_post t1) (bo_json_ord o (json_res w))) in
        if e then set_reqbody_error t2 else t2
      | None => set_reqbody_error t1
      end
    | PMultipart | PXml => if bo_ext_err o then set_reqbody_error t1 else t1
    end.
Proof.
  intros Ha Hb. unfold process_request_body. rewrite Ha, Hb. cbn [negb orb].
  eexists. split; [|split; [|reflexivity]]; unfold eff_rbp;
    destruct (bc_force cfg); cbn [andb]; try reflexivity;
    destruct (dc_is_empty (v_rbp t)); reflexivity.
Qed.

(* a request body that cannot be parsed is signalled through REQBODY_ERROR *)
Theorem body_error_signalled fold cfg o t body :
  bc_access cfg = true -> dc_is_empty body = false ->
  match select_processor (eff_rbp cfg t) with
  | PInvalid => True
  | PJson => match bo_json o with
             | None => True
             | Some tree => snd (read_json tree (bc_depth cfg)) = true
             end
  | PMultipart | PXml => bo_ext_err o = true
  | _ => False
  end ->
  v_reqbody_error (process_request_body fold cfg o t body) = true.
Proof.
  intros Ha Hb H. destruct (prb_unfold fold cfg o t body Ha Hb) as (t1 & R & _ & E).
  rewrite E, R. destruct (select_processor (eff_rbp cfg t)); try contradiction; try reflexivity.
  - destruct (bo_json o) as [tree|]; [|reflexivity].
    destruct (read_json tree (bc_depth cfg)) as [w e]. cbn [snd] in H. subst e. reflexivity.
  - rewrite H. reflexivity.
  - rewrite H. reflexivity.
Qed.

(* ------------------------------------------------------------------------------------ *)
(* 12. JSON flattening                                                                   *)
(* ------------------------------------------------------------------------------------ *)

(* specification: the scalar leaves of a tree with their dotted paths *)
Fixpoint json_leaves (t : json) (key : bytes) {struct t} : list jwrite :=
  match t with
  | JStr s => [(key, s)]
  | JNull => [(key, [])]
  | JRaw r => [(key, r)]
  | JArr items =>
    (fix go (i : N) (l : list json) : list jwrite :=
       match l with
       | [] => []
       | x :: r => json_leaves x (key ++ [46] ++ itoa i) ++ go (i + 1) r
       end) 0 items
  | JObj ms =>
    (fix go (l : list (bytes * json)) : list jwrite :=
       match l with
       | [] => []
       | (k, x) :: r => json_leaves x (key ++ [46] ++ k) ++ go r
       end) ms
  end.

Fixpoint nodup_b (l : list bytes) : bool :=
  match l with
  | [] => true
  | x :: r => negb (existsb (bytes_eqb x) r) && nodup_b r
  end.
Lemma nodup_b_NoDup l : nodup_b l = true -> NoDup l.
Proof.
  induction l as [|x l IH]; intro H; [constructor|].
  cbn [nodup_b] in H. apply andb_true_iff in H as [H1 H2]. constructor; [|now apply IH].
  intro I. apply negb_true_iff in H1.
  assert (existsb (bytes_eqb x) l = true); [|congruence].
  apply existsb_exists. exists x. split; [exact I|apply bytes_eqb_refl].
Qed.

(* the guard: no two paths written by the flattening coincide after case folding *)
Definition json_unambiguous (fold : bytes -> bytes) (w : list jwrite) : bool :=
  nodup_b (map (fun e => fold (fst e)) w).

Lemma res_put_fresh k v m : ~ In k (map fst m) -> dc_res_put k v m = m ++ [(k, v)].
Proof.
  induction m as [|[k' v'] m IH]; intro H; cbn [dc_res_put app]; [reflexivity|].
  destruct (bytes_eqb k' k) eqn:E.
  - apply bytes_eqb_eq in E. subst. exfalso. apply H. now left.
  - rewrite IH; [reflexivity|]. intro I. apply H. now right.
Qed.

Lemma json_res_nodup w : NoDup (map fst w) -> json_res w = w.
Proof.
  unfold json_res. intro H.
  enough (G : forall acc, NoDup (map fst (acc ++ w)) ->
             fold_left (fun m e => dc_res_put (fst e) (snd e) m) w acc = acc ++ w).
  { apply (G []). exact H. }
  clear H. induction w as [|[k v] w IH]; intros acc H; cbn [fold_left].
  - now rewrite app_nil_r.
  - cbn [fst snd]. rewrite res_put_fresh.
    + rewrite IH; rewrite <- app_assoc; [reflexivity|exact H].
    + rewrite map_app in H. cbn [map fst] in H. apply NoDup_remove_2 in H.
      intro I. apply H. apply in_or_app. now left.
Qed.

Lemma bucket_get_fresh fk m : ~ In fk (map fst m) -> dc_bucket_get fk m = [].
Proof.
  induction m as [|[k' es] m IH]; intro H; cbn [dc_bucket_get]; [reflexivity|].
  destruct (bytes_eqb k' fk) eqn:E.
  - apply bytes_eqb_eq in E. subst. exfalso. apply H. now left.
  - apply IH. intro I. apply H. now right.
Qed.
Lemma bucket_put_fresh fk es m : ~ In fk (map fst m) -> dc_bucket_put fk es m = m ++ [(fk, es)].
Proof.
  induction m as [|[k' es'] m IH]; intro H; cbn [dc_bucket_put app]; [reflexivity|].
  destruct (bytes_eqb k' fk) eqn:E.
  - apply bytes_eqb_eq in E. subst. exfalso. apply H. now left.
  - rewrite IH; [reflexivity|]. intro I. apply H. now right.
Qed.

Lemma json_apply_nodup fold ord : forall m,
  NoDup (map fst m ++ map (fun e => fold (fst e)) ord) ->
  cm_find_all (json_apply fold m ord) = cm_find_all m ++ ord.
Proof.
  unfold json_apply. induction ord as [|[k v] ord IH]; intros m H; cbn [fold_left].
  - now rewrite app_nil_r.
  - cbn [map fst] in H. pose proof (NoDup_remove_2 _ _ _ H) as Hf.
    assert (Hfresh : ~ In (fold k) (map fst m)).
    { intro I. apply Hf. apply in_or_app. now left. }
    cbn [fst snd]. unfold cm_set_index. rewrite bucket_get_fresh by exact Hfresh.
    rewrite bucket_put_fresh by exact Hfresh. rewrite IH.
    + unfold cm_find_all. rewrite flat_map_app. cbn [flat_map snd app]. rewrite <- app_assoc. reflexivity.
    + rewrite map_app. cbn [map fst]. rewrite <- app_assoc. exact H.
Qed.

Lemma fold_keys_nodup (fold : bytes -> bytes) (w : list jwrite) :
  NoDup (map (fun e => fold (fst e)) w) -> NoDup (map fst w).
Proof.
  induction w as [|[k v] w IH]; intro H; cbn [map fst] in *; [constructor|].
  inversion H; subst. constructor; [|now apply IH].
  intro I. apply H2. apply in_map_iff in I as ([k' v'] & E & I). cbn [fst] in E. subst k'.
  apply in_map_iff. exists (k, v'). split; [reflexivity|exact I].
Qed.

(* under the guard every assignment of the flattening (every leaf under its path, every array
   length) is in ARGS_POST, whatever order Go's map iteration takes *)
Theorem json_visible_partial fold w ord :
  json_unambiguous fold w = true -> Permutation ord (json_res w) ->
  Permutation (cm_find_all (json_apply fold [] ord)) w.
Proof.
  intros G P. apply nodup_b_NoDup in G.
  rewrite (json_res_nodup w (fold_keys_nodup fold w G)) in P.
  rewrite json_apply_nodup.
  - exact P.
  - cbn [map app]. eapply Permutation_NoDup; [|exact G]. apply Permutation_sym. now apply Permutation_map.
Qed.

(* colliding paths: a leaf of the body is in no variable and no error is raised
   (finding c03-json-key-collision) *)
Definition json_collision_witness : json :=
  JObj [(str "a.b"%string, JRaw (str "1"%string)); (str "a"%string, JObj [(str "b"%string, JRaw (str "2"%string))])].

Theorem json_collision_refuted :
  exists t leaf, In leaf (json_leaves t (str "json"%string)) /\
  forall fold ord, Permutation ord (json_res (fst (read_json t 10))) ->
    snd (read_json t 10) = false /\ ~ In leaf (cm_find_all (json_apply fold [] ord)).
Proof.
  exists json_collision_witness, (str "json.a.b"%string, str "1"%string). split.
  { vm_compute. left. reflexivity. }
  intros fold ord P. split; [reflexivity|].
  apply Permutation_sym in P. vm_compute in P. apply Permutation_length_1_inv in P. subst ord.
  vm_compute. intros [C|[]]. discriminate.
Qed.

(* ------------------------------------------------------------------------------------ *)
(* 14. cookies                                                                           *)
(* ------------------------------------------------------------------------------------ *)

Definition head_ok (s : bytes) : bool := match s with [] => true | c :: _ => negb (dc_is_ows c) end.

(* what ParseCookies requires of a pair to hand it back unchanged: a non-empty name without
   ';' and '=' and without optional white space (SP HT LF CR) at its ends, a value without ';'
   and without trailing white space *)
Definition cookie_ok (p : kv) : bool :=
  negb (dc_is_empty (fst p)) && head_ok (fst p) && head_ok (rev (fst p)) &&
  forallb (fun c => negb (c =? 59) && negb (c =? 61)) (fst p) &&
  head_ok (rev (snd p)) && forallb (fun c => negb (c =? 59)) (snd p).

Lemma drop_ws_id s : head_ok s = true -> dc_drop_ws s = s.
Proof. destruct s as [|c s]; [reflexivity|]. cbn. intro H. apply negb_true_iff in H. now rewrite H. Qed.

Lemma trim_id s : head_ok s = true -> head_ok (rev s) = true -> dc_trim s = s.
Proof. intros A B. unfold dc_trim. rewrite (drop_ws_id s A), (drop_ws_id _ B). apply rev_involutive. Qed.

Lemma head_ok_app a b : a <> [] -> head_ok (a ++ b) = head_ok a.
Proof. destruct a; [congruence|reflexivity]. Qed.

Lemma rev_not_nil {A} (l : list A) : l <> [] -> rev l <> [].
Proof. destruct l; [congruence|]. intros _ E. cbn in E. destruct (rev l); discriminate. Qed.

Definition piece (p : kv) : bytes := fst p ++ [61] ++ snd p.

Lemma piece_not_nil p : piece p <> [].
Proof. unfold piece. destruct (fst p); discriminate. Qed.

Lemma piece_head p : cookie_ok p = true -> head_ok (piece p) = true.
Proof.
  unfold cookie_ok. intro H. repeat (apply andb_true_iff in H as [H ?]).
  unfold piece. rewrite head_ok_app; [assumption|].
  destruct (fst p); [discriminate|discriminate].
Qed.

Lemma piece_tail p : cookie_ok p = true -> head_ok (rev (piece p)) = true.
Proof.
  unfold cookie_ok. intro H. repeat (apply andb_true_iff in H as [H ?]).
  unfold piece. rewrite !rev_app_distr.
  destruct (snd p) as [|c v] eqn:E.
  - reflexivity.
  - rewrite <- app_assoc. rewrite head_ok_app; [assumption|]. apply rev_not_nil. discriminate.
Qed.

Lemma forallb_no (c : byte) (f : byte -> bool) s : forallb f s = true -> f c = false -> ~ In c s.
Proof. intros H Hc I. rewrite forallb_forall in H. specialize (H _ I). congruence. Qed.

Lemma name_no61 p : cookie_ok p = true -> ~ In 61 (fst p).
Proof.
  unfold cookie_ok. intro H. repeat (apply andb_true_iff in H as [H ?]).
  eapply forallb_no; [eassumption|reflexivity].
Qed.
Lemma piece_no59 p : cookie_ok p = true -> ~ In 59 (piece p).
Proof.
  unfold cookie_ok. intro H. repeat (apply andb_true_iff in H as [H ?]).
  unfold piece. intro I. apply in_app_or in I as [I|I].
  - revert I. eapply forallb_no; [eassumption|reflexivity].
  - cbn [app] in I. destruct I as [I|I]; [discriminate|].
    revert I. eapply forallb_no; [eassumption|reflexivity].
Qed.

Lemma cookie_part_piece p : cookie_ok p = true -> dc_cookie_part (piece p) = Some p.
Proof.
  intro H. unfold dc_cookie_part.
  rewrite trim_id by (apply piece_head || apply piece_tail; exact H).
  destruct (dc_is_empty (piece p)) eqn:E.
  { pose proof (piece_not_nil p). destruct (piece p); [congruence|discriminate]. }
  unfold piece. cbn [app]. rewrite cut_app by (now apply name_no61).
  unfold cookie_ok in H. repeat (apply andb_true_iff in H as [H ?]).
  rewrite trim_id by assumption.
  apply negb_true_iff in H. rewrite H. now destruct p.
Qed.

Lemma cookie_part_sp_piece p : cookie_ok p = true -> dc_cookie_part (32 :: piece p) = Some p.
Proof.
  intro H. rewrite <- (cookie_part_piece p H). unfold dc_cookie_part.
  assert (E : dc_trim (32 :: piece p) = dc_trim (piece p)).
  { unfold dc_trim. reflexivity. }
  now rewrite E.
Qed.

Lemma join_cons_head sep (c : byte) y rest : dc_join sep ((c :: y) :: rest) = c :: dc_join sep (y :: rest).
Proof. destruct rest; reflexivity. Qed.

Lemma join_sp x r : dc_join [59; 32] (x :: r) = dc_join [59] (x :: map (cons 32) r).
Proof.
  revert x. induction r as [|y r IH]; intro x; [reflexivity|].
  change (dc_join [59; 32] (x :: y :: r)) with (x ++ [59; 32] ++ dc_join [59; 32] (y :: r)).
  rewrite IH. cbn [map].
  change (dc_join [59] (x :: (32 :: y) :: map (cons 32) r))
    with (x ++ [59] ++ dc_join [59] ((32 :: y) :: map (cons 32) r)).
  rewrite join_cons_head. reflexivity.
Qed.

Lemma join_not_nil sep x r : x <> [] -> dc_join sep (x :: r) <> [].
Proof. intro H. cbn [dc_join]. destruct r; [exact H|]. destruct x; [congruence|discriminate]. Qed.

Lemma join_head sep x r : x <> [] -> head_ok (dc_join sep (x :: r)) = head_ok x.
Proof. intro H. cbn [dc_join]. destruct r; [reflexivity|]. now apply head_ok_app. Qed.

Lemma last_nonempty_default {A} (l : list A) a d1 d2 : last (a :: l) d1 = last (a :: l) d2.
Proof. revert a. induction l as [|b l IH]; intro a; [reflexivity|]. cbn [last] in *. apply IH. Qed.

Lemma join_tail sep l : forall x,
  Forall (fun y => y <> []) (x :: l) ->
  head_ok (rev (dc_join sep (x :: l))) = head_ok (rev (last l x)).
Proof.
  induction l as [|y l IH]; intros x H; [reflexivity|].
  inversion H as [|? ? Hx Hl]; subst.
  change (dc_join sep (x :: y :: l)) with (x ++ sep ++ dc_join sep (y :: l)).
  rewrite !rev_app_distr. rewrite <- app_assoc.
  rewrite head_ok_app.
  - rewrite IH by exact Hl. destruct l; [reflexivity|]. cbn [last]. f_equal. f_equal. apply last_nonempty_default.
  - apply rev_not_nil. apply join_not_nil. now inversion Hl.
Qed.

Theorem cookie_roundtrip l : forallb cookie_ok l = true -> cookie_pairs (enc_cookie l) = l.
Proof.
  intro H. destruct l as [|p l]; [reflexivity|].
  cbn [forallb] in H. apply andb_true_iff in H as [Hp Hl].
  unfold cookie_pairs.
  assert (E : enc_cookie (p :: l) = dc_join [59; 32] (piece p :: map piece l)) by reflexivity.
  rewrite E. clear E. rewrite join_sp.
  set (xs := piece p :: map (cons 32) (map piece l)).
  assert (Hne : Forall (fun y => y <> []) xs).
  { unfold xs. constructor; [apply piece_not_nil|]. rewrite map_map. apply Forall_forall.
    intros y I. apply in_map_iff in I as (q & <- & _). discriminate. }
  assert (Htrim : dc_trim (dc_join [59] xs) = dc_join [59] xs).
  { apply trim_id.
    - unfold xs. rewrite join_head by apply piece_not_nil. now apply piece_head.
    - unfold xs. rewrite join_tail by exact Hne.
      rewrite map_map.
      destruct l as [|q l'] using rev_ind; [now apply piece_tail|].
      rewrite map_app. cbn [map]. rewrite last_last. cbn [rev].
      rewrite head_ok_app by (apply rev_not_nil, piece_not_nil).
      apply piece_tail. rewrite forallb_app in Hl. apply andb_true_iff in Hl as [_ Hq].
      cbn [forallb] in Hq. now apply andb_true_iff in Hq as [Hq _]. }
  rewrite Htrim. rewrite split_join.
  - unfold xs. cbn [map dc_some_list]. rewrite cookie_part_piece by exact Hp. cbn [dc_some_list]. f_equal.
    clear Hne Htrim xs. induction l as [|q l IH]; [reflexivity|].
    cbn [forallb] in Hl. apply andb_true_iff in Hl as [Hq Hl].
    cbn [map]. rewrite cookie_part_sp_piece by exact Hq. cbn [dc_some_list]. f_equal. now apply IH.
  - discriminate.
  - unfold xs. constructor; [now apply piece_no59|].
    rewrite map_map. apply Forall_forall. intros y I. apply in_map_iff in I as (q & <- & Iq).
    intros [C|C]; [discriminate|]. revert C. apply piece_no59.
    rewrite forallb_forall in Hl. now apply Hl.
Qed.

(* through AddRequestHeader: REQUEST_COOKIES holds exactly the pairs, no URL decoding, whatever
   order Go's range takes over the parsed cookie map *)
Theorem cookie_header_visible fold cookie_ord l :
  forallb cookie_ok l = true ->
  Permutation (cookie_ord (enc_cookie l)) (parse_cookies (enc_cookie l)) ->
  let t := add_request_header fold cookie_ord txv_empty (str "Cookie"%string) (enc_cookie l) in
  Permutation (cm_find_all (v_cookies t)) l.
Proof.
  intros H P t. unfold t, add_request_header.
  change (dc_is_empty (str "Cookie")) with false. cbv iota.
  change (bytes_eqb (lower_ascii (str "Cookie")) (str "content-type")) with false. cbv iota.
  change (bytes_eqb (lower_ascii (str "Cookie")) (str "cookie")) with true. cbv iota.
  cbn [v_cookies set_cookies set_headers txv_empty].
  rewrite add_all_flat, add_pairs_find_all. cbn [cm_find_all flat_map app].
  eapply Permutation_trans; [unfold gmap_flat; apply Permutation_flat_map; exact P|].
  unfold parse_cookies. rewrite cookie_roundtrip by exact H. apply group_pairs_flat.
Qed.

Example cookie_guard_example :
  forallb cookie_ok [(str "sid"%string, str "a b=c%41"%string); (str "x"%string, []); (str "sid"%string, str " lead"%string)] = true.
Proof. reflexivity. Qed.

(* ------------------------------------------------------------------------------------ *)
(* 15. the flattening writes every scalar leaf under its dotted path                     *)
(* ------------------------------------------------------------------------------------ *)

Section JsonInd.
Variable P : json -> Prop.
Hypothesis Hs : forall s, P (JStr s).
Hypothesis Hn : P JNull.
Hypothesis Hr : forall r, P (JRaw r).
Hypothesis Ha : forall items, Forall P items -> P (JArr items).
Hypothesis Ho : forall ms, Forall (fun m => P (snd m)) ms -> P (JObj ms).
Fixpoint json_ind' (t : json) : P t :=
  match t with
  | JStr s => Hs s
  | JNull => Hn
  | JRaw r => Hr r
  | JArr items =>
    Ha items ((fix f (l : list json) : Forall P l :=
                 match l with [] => Forall_nil _ | x :: r => Forall_cons _ (json_ind' x) (f r) end) items)
  | JObj ms =>
    Ho ms ((fix f (l : list (bytes * json)) : Forall (fun m => P (snd m)) l :=
              match l with [] => Forall_nil _ | m :: r => Forall_cons _ (json_ind' (snd m)) (f r) end) ms)
  end.
End JsonInd.

(* specification of the leaves with the loops named, so that they can be related to the
   loops of the model *)
Definition arr_leaves (rec : json -> bytes -> list jwrite) (key : bytes) :=
  fix go (i : N) (l : list json) : list jwrite :=
    match l with
    | [] => []
    | x :: r => rec x (key ++ [46] ++ itoa i) ++ go (i + 1) r
    end.
Definition obj_leaves (rec : json -> bytes -> list jwrite) (key : bytes) :=
  fix go (l : list (bytes * json)) : list jwrite :=
    match l with
    | [] => []
    | (k, x) :: r => rec x (key ++ [46] ++ k) ++ go r
    end.

Lemma json_leaves_arr items key : json_leaves (JArr items) key = arr_leaves json_leaves key 0 items.
Proof. reflexivity. Qed.
Lemma json_leaves_obj ms key : json_leaves (JObj ms) key = obj_leaves json_leaves key ms.
Proof. reflexivity. Qed.

Lemma leaf_leaves x v k : dc_leaf x = Some v -> json_leaves x k = [(k, v)].
Proof. destruct x; cbn; intro H; inversion H; reflexivity. Qed.

Definition leaves_written (t : json) : Prop :=
  forall depth key w, dc_leaf t = None -> read_items t depth key = (w, false) -> incl (json_leaves t key) w.

Lemma arr_go_leaves d key items :
  Forall leaves_written items ->
  forall i w e lk n,
    dc_arr_go (fun x k => read_items x d k) key i items = (w, e, lk, n) -> e = false ->
    incl (arr_leaves json_leaves key i items) w.
Proof.
  induction 1 as [|x r Hx Hr IH]; intros i w e lk n Hg He.
  - intros y [].
  - cbn [dc_arr_go arr_leaves] in Hg |- *. destruct (dc_leaf x) as [v|] eqn:Lx.
    + destruct (dc_arr_go (fun x k => read_items x d k) key (i + 1) r) as [[[w2 e2] lk2] n2] eqn:G2.
      inversion Hg; subst. rewrite (leaf_leaves _ _ _ Lx). intros y [<-|Iy]; [now left|].
      right. eapply IH; eauto.
    + destruct (read_items x d (key ++ [46] ++ itoa i)) as [wx ex] eqn:Rx. destruct ex.
      * inversion Hg; subst. discriminate.
      * destruct (dc_arr_go (fun x k => read_items x d k) key (i + 1) r) as [[[w2 e2] lk2] n2] eqn:G2.
        inversion Hg; subst. intros y Iy. apply in_app_or in Iy as [Iy|Iy]; apply in_or_app.
        -- left. eapply Hx; eauto.
        -- right. eapply IH; eauto.
Qed.

Lemma obj_go_leaves d key ms :
  Forall (fun m => leaves_written (snd m)) ms ->
  forall w, dc_obj_go (fun x k => read_items x d k) key ms = (w, false) ->
    incl (obj_leaves json_leaves key ms) w.
Proof.
  induction 1 as [|[k x] r Hx Hr IH]; intros w Hg.
  - intros y [].
  - cbn [dc_obj_go obj_leaves] in Hg |- *. cbn [snd] in Hx. destruct (dc_leaf x) as [v|] eqn:Lx.
    + destruct (dc_obj_go (fun x k => read_items x d k) key r) as [w2 e2] eqn:G2.
      inversion Hg; subst. rewrite (leaf_leaves _ _ _ Lx). intros y [<-|Iy]; [now left|].
      right. eapply IH; eauto.
    + destruct (read_items x d (key ++ [46] ++ k)) as [wx ex] eqn:Rx. destruct ex; [discriminate|].
      destruct (dc_obj_go (fun x k => read_items x d k) key r) as [w2 e2] eqn:G2.
      inversion Hg; subst. intros y Iy. apply in_app_or in Iy as [Iy|Iy]; apply in_or_app.
      -- left. eapply Hx; eauto.
      -- right. eapply IH; eauto.
Qed.

Lemma read_items_leaves t : leaves_written t.
Proof.
  induction t using json_ind'; unfold leaves_written; intros depth key w Hl Hrd; try discriminate.
  - destruct depth as [|d]; [discriminate|]. rewrite json_leaves_arr. cbn [read_items] in Hrd.
    destruct (dc_arr_go (fun x k => read_items x d k) key 0 items) as [[[w' e] lk] n] eqn:G0.
    inversion Hrd; subst. intros y Iy. apply in_or_app. left.
    eapply arr_go_leaves; eauto.
  - destruct depth as [|d]; [discriminate|]. rewrite json_leaves_obj. cbn [read_items] in Hrd.
    eapply obj_go_leaves; eauto.
Qed.

(* every scalar leaf of a JSON container is assigned under its dotted path when the depth limit
   is not hit; with the guard of json_visible_partial it is therefore in ARGS_POST *)
Theorem json_leaves_visible fold t depth w ord :
  dc_leaf t = None -> read_json t depth = (w, false) ->
  json_unambiguous fold w = true -> Permutation ord (json_res w) ->
  forall leaf, In leaf (json_leaves t (str "json"%string)) -> In leaf (cm_find_all (json_apply fold [] ord)).
Proof.
  intros Hl Hr G P leaf I.
  eapply Permutation_in; [apply Permutation_sym; eapply json_visible_partial; eauto|].
  eapply read_items_leaves; eauto.
Qed.

(* ------------------------------------------------------------------------------------ *)
(* 17. a body cut at SecRequestBodyLimit is always reported                              *)
(* ------------------------------------------------------------------------------------ *)

Section Stream.
Variable limit : nat.
Variable reject : bool.
Variable process : bytes -> txv -> txv.
Hypothesis limit_pos : (0 < limit)%nat.

Lemma bs_run_inbound s : bs_inbound (bs_run process s) = bs_inbound s.
Proof. unfold bs_run. destruct (bs_interrupted s || bs_processed s); reflexivity. Qed.

Lemma body_step_inbound_mono s c : bs_inbound s = true -> bs_inbound (body_step limit reject process s c) = true.
Proof.
  intro H. destruct c as [api chunk]. unfold body_step.
  destruct (limit =? length (bs_buf s))%nat; [exact H|].
  destruct api.
  - destruct (limit <=? _)%nat; [destruct reject; [reflexivity|now rewrite bs_run_inbound]|exact H].
  - destruct (limit <=? _)%nat; [destruct reject; [reflexivity|now rewrite bs_run_inbound]|exact H].
  - destruct (_ =? limit)%nat; [destruct reject; [reflexivity|now rewrite bs_run_inbound]|exact H].
Qed.

(* as long as INBOUND_DATA_ERROR is unset: nothing interrupted, nothing processed, the buffer is
   everything handed in so far and is strictly below the limit *)
Definition quiet (t0 : txv) (done : bytes) (s : bstate) : Prop :=
  bs_interrupted s = false /\ bs_processed s = false /\ bs_buf s = done /\ bs_tx s = t0 /\
  (length done < limit)%nat.

Lemma body_step_quiet t0 done s c :
  (bs_inbound s = false -> quiet t0 done s) ->
  bs_inbound (body_step limit reject process s c) = false ->
  quiet t0 (done ++ snd c) (body_step limit reject process s c).
Proof.
  intros Inv H.
  assert (Hs : bs_inbound s = false).
  { destruct (bs_inbound s) eqn:E; [|reflexivity]. rewrite body_step_inbound_mono in H by exact E. discriminate. }
  destruct (Inv Hs) as (Hi & Hp & Hb & Ht & Hl). clear Inv.
  destruct c as [api chunk]. cbn [snd]. unfold body_step in *.
  rewrite Hb in *.
  destruct (limit =? length done)%nat eqn:E0; [apply Nat.eqb_eq in E0; lia|].
  destruct api.
  - destruct (limit <=? length done + length chunk)%nat eqn:E1.
    + destruct reject; [discriminate|]. rewrite bs_run_inbound in H. discriminate.
    + apply Nat.leb_gt in E1. unfold quiet. cbn. rewrite app_length. repeat split; auto.
  - destruct (limit <=? length done + length chunk)%nat eqn:E1.
    + destruct reject; [discriminate|]. rewrite bs_run_inbound in H. discriminate.
    + apply Nat.leb_gt in E1. unfold quiet. cbn. rewrite app_length. repeat split; auto.
  - destruct (length (done ++ firstn (limit - length done) chunk) =? limit)%nat eqn:E1.
    + destruct reject; [discriminate|]. rewrite bs_run_inbound in H. discriminate.
    + apply Nat.eqb_neq in E1. rewrite app_length, firstn_length in E1.
      assert (Hc : (length chunk < limit - length done)%nat) by lia.
      rewrite firstn_all2 by lia. unfold quiet. cbn. rewrite app_length. repeat split; auto. lia.
Qed.

Lemma fold_quiet t0 chunks : forall done s,
  (bs_inbound s = false -> quiet t0 done s) ->
  bs_inbound (fold_left (body_step limit reject process) chunks s) = false ->
  quiet t0 (done ++ concat (map snd chunks)) (fold_left (body_step limit reject process) chunks s).
Proof.
  induction chunks as [|c chunks IH]; intros done s Inv H; cbn [fold_left map concat] in *.
  - rewrite app_nil_r. now apply Inv.
  - rewrite app_assoc. apply IH; [|exact H].
    intro H1. now apply body_step_quiet.
Qed.

(* for every sequence of chunks through any of the three entry points, both limit actions:
   if INBOUND_DATA_ERROR is not raised then nothing was cut - no interruption, the buffer is
   the whole body and the body processor ran exactly once, on the whole body *)
Theorem body_limit_signalled chunks t0 :
  let s := body_stream limit reject process chunks t0 in
  bs_inbound s = false ->
  bs_interrupted s = false /\ bs_buf s = concat (map snd chunks) /\
  bs_tx s = process (concat (map snd chunks)) t0.
Proof.
  intros s H. unfold s, body_stream in *. rewrite bs_run_inbound in H.
  pose proof (fold_quiet t0 chunks [] (mk_bst [] false false false t0)) as Q.
  cbn [app] in Q. destruct Q as (Hi & Hp & Hb & Ht & Hl); [|exact H|].
  { intros _. unfold quiet. cbn. repeat split; auto. }
  unfold bs_run. rewrite Hi, Hp. cbn [orb bs_interrupted bs_buf bs_tx]. rewrite Hb, Ht. auto.
Qed.

(* below the limit nothing is ever flagged ... *)
Lemma body_step_small t0 done s c :
  quiet t0 done s -> bs_inbound s = false -> (length (done ++ snd c) < limit)%nat ->
  bs_inbound (body_step limit reject process s c) = false.
Proof.
  intros (Hi & Hp & Hb & Ht & Hl) Hs L. destruct c as [api chunk]. cbn [snd] in L.
  rewrite app_length in L. unfold body_step. rewrite Hb.
  destruct (limit =? length done)%nat eqn:E0; [exact Hs|].
  destruct api.
  - destruct (limit <=? length done + length chunk)%nat eqn:E1; [apply Nat.leb_le in E1; lia|exact Hs].
  - destruct (limit <=? length done + length chunk)%nat eqn:E1; [apply Nat.leb_le in E1; lia|exact Hs].
  - destruct (length (done ++ firstn (limit - length done) chunk) =? limit)%nat eqn:E1; [|exact Hs].
    apply Nat.eqb_eq in E1. rewrite app_length, firstn_length in E1. lia.
Qed.

Lemma fold_small t0 chunks : forall done s,
  quiet t0 done s -> bs_inbound s = false -> (length (done ++ concat (map snd chunks)) < limit)%nat ->
  bs_inbound (fold_left (body_step limit reject process) chunks s) = false.
Proof.
  induction chunks as [|c chunks IH]; intros done s Q Hs L; cbn [fold_left map concat] in *; [exact Hs|].
  assert (L1 : (length (done ++ snd c) < limit)%nat).
  { rewrite !app_length in *. lia. }
  pose proof (body_step_small t0 done s c Q Hs L1) as H1.
  apply (IH (done ++ snd c)); [|exact H1|rewrite <- app_assoc; exact L].
  apply body_step_quiet; [intros _; exact Q|exact H1].
Qed.

(* ... so what the rules see does not depend on how the body was split into chunks, nor on the
   entry point used for each chunk: it is the processor's result on the concatenation *)
Theorem body_stream_split_independent chunks t0 :
  (length (concat (map snd chunks)) < limit)%nat ->
  let s := body_stream limit reject process chunks t0 in
  bs_inbound s = false /\ bs_interrupted s = false /\
  bs_buf s = concat (map snd chunks) /\ bs_tx s = process (concat (map snd chunks)) t0.
Proof.
  intros L s.
  assert (H : bs_inbound s = false).
  { unfold s, body_stream. rewrite bs_run_inbound.
    apply (fold_small t0 chunks []); [|reflexivity|exact L].
    unfold quiet. cbn. repeat split; auto. }
  split; [exact H|]. now apply body_limit_signalled.
Qed.

End Stream.

(* ------------------------------------------------------------------------------------ *)
(* 18. multipart/form-data: printer / parser round trip, visibility of the parts         *)
(* ------------------------------------------------------------------------------------ *)

Definition mp_name_ok (s : bytes) : bool := forallb (fun c => negb (c =? 13) && negb (c =? 10)) s.
(* the delimiter CRLF "--" boundary occurs in CRLF ++ content ++ delimiter at the end only (the
   CRLF in front: a content that starts with "--" boundary right after the blank line of the
   headers is a delimiter too) *)
Definition mp_content_ok (b c : bytes) : bool :=
  match mp_find (mp_delim b) (dc_crlf ++ c ++ mp_delim b) with
  | Some (a, t) => bytes_eqb a (dc_crlf ++ c) && dc_is_empty t
  | None => false
  end.
Definition mp_part_ok (b : bytes) (p : mpart) : bool :=
  mp_name_ok (mp_name p) && mp_name_ok (mp_filename p) && mp_content_ok b (mp_content p).

Lemma strip_app p s : dc_strip p (p ++ s) = Some s.
Proof. induction p as [|x p IH]; [reflexivity|]. cbn [app dc_strip]. now rewrite N.eqb_refl. Qed.

Lemma scan_quote s rest : mp_name_ok s = true ->
  mp_scan_quoted (mp_quote s ++ 34 :: rest) = Some (s, rest).
Proof.
  induction s as [|c s IH]; intro H.
  - cbn. reflexivity.
  - cbn [mp_name_ok forallb] in H. apply andb_true_iff in H as [Hc Hs]. specialize (IH Hs).
    apply andb_true_iff in Hc as [H13 H10]. apply negb_true_iff in H13, H10.
    unfold mp_quote. cbn [flat_map]. fold (mp_quote s).
    destruct (c =? 92) eqn:E92.
    + apply N.eqb_eq in E92. subst c. cbn [orb app mp_scan_quoted].
      change (92 =? 34) with false. change (92 =? 92) with true. cbv iota.
      change (mp_is_tspecial 92) with true. cbv iota. now rewrite IH.
    + destruct (c =? 34) eqn:E34.
      * apply N.eqb_eq in E34. subst c. cbn [orb app mp_scan_quoted].
        change (92 =? 34) with false. change (92 =? 92) with true. cbv iota.
        change (mp_is_tspecial 34) with true. cbv iota. now rewrite IH.
      * cbn [orb app mp_scan_quoted]. rewrite E34, E92, H13, H10. cbn [orb]. now rewrite IH.
Qed.

Lemma is_prefix_self d t : is_prefix d (d ++ t) = true.
Proof. induction d as [|x d IH]; [reflexivity|]. cbn [app is_prefix]. now rewrite N.eqb_refl. Qed.

Lemma is_prefix_app_len d : forall s t, (length d <= length s)%nat -> is_prefix d (s ++ t) = is_prefix d s.
Proof.
  induction d as [|x d IH]; intros s t H; [reflexivity|].
  destruct s as [|y s]; [cbn in H; lia|]. cbn [app is_prefix]. rewrite IH; [reflexivity|]. cbn in H. lia.
Qed.

Lemma skipn_app_self {A} (d t : list A) : skipn (length d) (d ++ t) = t.
Proof. induction d; [reflexivity|]. cbn. assumption. Qed.

Lemma find_inv_cons d x s a t : mp_find d (x :: s) = Some (x :: a, t) -> mp_find d s = Some (a, t).
Proof.
  cbn [mp_find]. destruct (is_prefix d (x :: s)); [discriminate|].
  destruct (mp_find d s) as [[a' t']|]; [|discriminate]. intro H. inversion H; subst. reflexivity.
Qed.

Lemma find_extend d c rest : d <> [] ->
  mp_find d (c ++ d) = Some (c, []) -> mp_find d (c ++ d ++ rest) = Some (c, rest).
Proof.
  intros Hd. induction c as [|x c IH]; intro H.
  - cbn [app]. destruct d as [|y d]; [congruence|].
    change ((y :: d) ++ rest) with (y :: (d ++ rest)). cbn [mp_find].
    change (y :: d ++ rest) with ((y :: d) ++ rest). rewrite is_prefix_self, skipn_app_self. reflexivity.
  - change ((x :: c) ++ d) with (x :: (c ++ d)) in H.
    pose proof H as H0. cbn [mp_find] in H0.
    destruct (is_prefix d (x :: c ++ d)) eqn:E; [discriminate|].
    apply find_inv_cons in H. specialize (IH H).
    change ((x :: c) ++ d ++ rest) with (x :: (c ++ d ++ rest)). cbn [mp_find].
    assert (E2 : is_prefix d (x :: c ++ d ++ rest) = false).
    { change (x :: c ++ d ++ rest) with ((x :: c) ++ d ++ rest). rewrite app_assoc.
      rewrite is_prefix_app_len; [exact E|]. rewrite app_length. lia. }
    rewrite E2, IH. reflexivity.
Qed.

Lemma content_find b c rest : mp_content_ok b c = true ->
  mp_find (mp_delim b) (c ++ mp_delim b ++ rest) = Some (c, rest).
Proof.
  unfold mp_content_ok. intro H.
  destruct (mp_find (mp_delim b) (dc_crlf ++ c ++ mp_delim b)) as [[a t]|] eqn:E; [|discriminate].
  apply andb_true_iff in H as [Ha Ht]. apply bytes_eqb_eq in Ha. subst a.
  destruct t; [|discriminate]. unfold dc_crlf in E. cbn [app] in E.
  apply find_inv_cons in E. apply find_inv_cons in E.
  apply find_extend; [discriminate|exact E].
Qed.

Ltac strip_step :=
  match goal with |- context [dc_strip ?p (?q ++ ?x)] =>
    let H := fresh in assert (H : dc_strip p (q ++ x) = Some x) by exact (strip_app q x); rewrite H; clear H end.
Ltac scan_step Hn :=
  match goal with |- context [mp_scan_quoted (mp_quote ?n ++ 34 :: ?x)] =>
    let H := fresh in assert (H : mp_scan_quoted (mp_quote n ++ 34 :: x) = Some (n, x)) by exact (scan_quote n x Hn); rewrite H; clear H end.

Lemma parse_part_print b p rest : mp_part_ok b p = true ->
  mp_parse_part (mp_delim b) (mp_part_bytes b p ++ rest) = Some (p, rest).
Proof.
  unfold mp_part_ok. intro H. apply andb_true_iff in H as [H Hc]. apply andb_true_iff in H as [Hn Hf].
  destruct p as [name fn content]. cbn [mp_name mp_filename mp_content] in *.
  unfold mp_parse_part, mp_part_bytes, mp_disp, mp_is_file. cbn [mp_name mp_filename mp_content].
  destruct fn as [|f0 fn'] eqn:Efn.
  - cbn [dc_is_empty negb]. 
    repeat rewrite <- app_assoc.
    change (dc_crlf ++ str "Content-Disposition: " ++ str "form-data; name=" ++ [34] ++ mp_quote name ++ [34] ++ [] ++ [] ++ dc_crlf ++ dc_crlf ++ content ++ mp_delim b ++ rest)
      with ((dc_crlf ++ str "Content-Disposition: form-data; name=" ++ [34]) ++ mp_quote name ++ 34 :: dc_crlf ++ dc_crlf ++ content ++ mp_delim b ++ rest).
    strip_step. scan_step Hn.
    change (dc_strip (str "; filename=" ++ [34]) (dc_crlf ++ dc_crlf ++ content ++ mp_delim b ++ rest)) with (@None bytes).
    cbv iota.
    change (dc_crlf ++ dc_crlf ++ content ++ mp_delim b ++ rest) with ((dc_crlf ++ dc_crlf) ++ content ++ mp_delim b ++ rest).
    strip_step. rewrite content_find by exact Hc. reflexivity.
  - rewrite <- Efn in *. assert (Hne : dc_is_empty fn = false) by (subst fn; reflexivity).
    rewrite Hne. cbn [negb].
    repeat rewrite <- app_assoc.
    change (dc_crlf ++ str "Content-Disposition: " ++ str "form-data; name=" ++ [34] ++ mp_quote name ++ [34] ++ str "; filename=" ++ [34] ++ mp_quote fn ++ [34] ++ dc_crlf ++ str "Content-Type: " ++ mp_ctype ++ dc_crlf ++ dc_crlf ++ content ++ mp_delim b ++ rest)
      with ((dc_crlf ++ str "Content-Disposition: form-data; name=" ++ [34]) ++ mp_quote name ++ 34 :: (str "; filename=" ++ [34]) ++ mp_quote fn ++ 34 :: (dc_crlf ++ str "Content-Type: " ++ mp_ctype ++ dc_crlf ++ dc_crlf) ++ content ++ mp_delim b ++ rest).
    strip_step. scan_step Hn. strip_step.
    scan_step Hf. strip_step. rewrite content_find by exact Hc. reflexivity.
Qed.

Lemma part_bytes_head b p t : exists r, mp_part_bytes b p ++ t = 13 :: r.
Proof. unfold mp_part_bytes, dc_crlf. cbn [app]. eexists. reflexivity. Qed.

Lemma parse_parts_print b parts : forall fuel,
  forallb (mp_part_ok b) parts = true -> (length parts < fuel)%nat ->
  mp_parse_parts fuel (mp_delim b) (flat_map (mp_part_bytes b) parts ++ [45; 45; 13; 10]) = Some parts.
Proof.
  induction parts as [|p parts IH]; intros fuel H L.
  - destruct fuel; [lia|]. reflexivity.
  - destruct fuel; [cbn in L; lia|]. cbn [forallb] in H. apply andb_true_iff in H as [Hp Hs].
    cbn [flat_map mp_parse_parts]. rewrite <- app_assoc.
    destruct (part_bytes_head b p (flat_map (mp_part_bytes b) parts ++ [45; 45; 13; 10])) as [r Er].
    assert (Hne : bytes_eqb (mp_part_bytes b p ++ flat_map (mp_part_bytes b) parts ++ [45; 45; 13; 10]) [45; 45; 13; 10] = false).
    { rewrite Er. reflexivity. }
    rewrite Hne. rewrite parse_part_print by exact Hp.
    rewrite IH; [reflexivity|exact Hs|cbn in L; lia].
Qed.

Lemma flat_map_length_ge {A} (f : A -> bytes) l : (forall x, f x <> []) -> (length l <= length (flat_map f l))%nat.
Proof.
  intro H. induction l as [|x l IH]; [cbn; lia|]. cbn [flat_map length]. rewrite app_length.
  specialize (H x). destruct (f x); [congruence|]. cbn. lia.
Qed.

(* the specification parser reads back exactly the parts that were printed *)
Theorem multipart_roundtrip b parts :
  forallb (mp_part_ok b) parts = true -> mp_parse b (mp_print b parts) = Some parts.
Proof.
  intro H. unfold mp_parse, mp_print. rewrite app_assoc.
  match goal with |- context [dc_strip ?p (?q ++ ?x)] =>
    assert (E : dc_strip p (q ++ x) = Some x) by exact (strip_app q x); rewrite E; clear E end.
  apply parse_parts_print; [exact H|].
  rewrite !app_length. pose proof (flat_map_length_ge (mp_part_bytes b) parts) as G.
  assert (forall x, mp_part_bytes b x <> []) as G0.
  { intros x E. destruct (part_bytes_head b x []) as [r Er]. rewrite app_nil_r in Er. congruence. }
  specialize (G G0). lia.
Qed.

(* ---- what the processor's loop leaves in the variables ---- *)
Section MpCollect.
Variable fold : bytes -> bytes.

Definition mp_fields (parts : list mpart) : list kv :=
  map (fun p => (mp_name p, mp_content p)) (filter (fun p => negb (mp_is_file p)) parts).
Definition mp_uploads (parts : list mpart) : list mpart := filter mp_is_file parts.
Definition mp_total (parts : list mpart) : nat :=
  fold_left (fun n p => (n + length (mp_content p))%nat) parts 0%nat.

Lemma cm_add_find_all m k v : Permutation (cm_find_all (cm_add fold m k v)) (cm_find_all m ++ [(k, v)]).
Proof. unfold cm_add. apply bucket_add_flat. Qed.

Lemma collect_gen parts : forall v,
  let r := fold_left (mp_step fold) parts v in
  Permutation (cm_find_all (mv_post r)) (cm_find_all (mv_post v) ++ mp_fields parts) /\
  Permutation (cm_find_all (mv_files r)) (cm_find_all (mv_files v) ++ map (fun p => ([], mp_filename p)) (mp_uploads parts)) /\
  Permutation (cm_find_all (mv_files_names r)) (cm_find_all (mv_files_names v) ++ map (fun p => ([], mp_name p)) (mp_uploads parts)) /\
  mv_combined r = fold_left (fun n p => (n + length (mp_content p))%nat) parts (mv_combined v).
Proof.
  induction parts as [|p parts IH]; intro v; cbn [fold_left].
  - unfold mp_fields, mp_uploads. cbn. rewrite !app_nil_r. auto.
  - specialize (IH (mp_step fold v p)). cbv zeta in IH. destruct IH as (A & B & C & D).
    unfold mp_fields, mp_uploads in *. cbn [filter]. unfold mp_step in *.
    destruct (mp_is_file p) eqn:E; cbn [negb map mv_post mv_files mv_files_names mv_combined] in *.
    + repeat split.
      * exact A.
      * rewrite B, cm_add_find_all, <- app_assoc. reflexivity.
      * rewrite C, cm_add_find_all, <- app_assoc. reflexivity.
      * exact D.
    + repeat split.
      * rewrite A, cm_add_find_all, <- app_assoc. reflexivity.
      * exact B.
      * exact C.
      * exact D.
Qed.

(* every field is in ARGS_POST byte-exact, every upload in FILES (file name) and FILES_NAMES
   (form name), FILES_COMBINED_SIZE is the number of content bytes of all parts (as coded:
   fields included) *)
Theorem multipart_collect_visible parts :
  let r := mp_collect fold parts in
  Permutation (cm_find_all (mv_post r)) (mp_fields parts) /\
  Permutation (cm_find_all (mv_files r)) (map (fun p => ([], mp_filename p)) (mp_uploads parts)) /\
  Permutation (cm_find_all (mv_files_names r)) (map (fun p => ([], mp_name p)) (mp_uploads parts)) /\
  mv_combined r = mp_total parts.
Proof. unfold mp_collect. apply (collect_gen parts (mk_mpv [] [] [] [] 0%nat [])). Qed.

(* end to end: a printed body is parsed and exposed as the part list says *)
Theorem multipart_body_visible b parts :
  forallb (mp_part_ok b) parts = true ->
  exists q, mp_parse b (mp_print b parts) = Some q /\
    let r := mp_collect fold q in
    Permutation (cm_find_all (mv_post r)) (mp_fields parts) /\
    Permutation (cm_find_all (mv_files r)) (map (fun p => ([], mp_filename p)) (mp_uploads parts)) /\
    Permutation (cm_find_all (mv_files_names r)) (map (fun p => ([], mp_name p)) (mp_uploads parts)) /\
    mv_combined r = mp_total parts.
Proof.
  intro H. exists parts. split; [now apply multipart_roundtrip|]. apply multipart_collect_visible.
Qed.

Definition mp_size_entries (parts : list mpart) : list kv :=
  map (fun p => (mp_filename p, itoa (N.of_nat (length (mp_content p))))) (mp_uploads parts).

Lemma collect_sizes parts : forall v,
  mv_files_sizes (fold_left (mp_step fold) parts v) = json_apply fold (mv_files_sizes v) (mp_size_entries parts).
Proof.
  unfold json_apply, mp_size_entries, mp_uploads.
  induction parts as [|p parts IH]; intro v; cbn [fold_left filter map]; [reflexivity|].
  rewrite IH. unfold mp_step. destruct (mp_is_file p); cbn [mv_files_sizes map fold_left fst snd]; reflexivity.
Qed.

(* FILES_SIZES holds the size of every upload under its file name when no two file names
   coincide after case folding (SetIndex(filename, 0, size) overwrites otherwise) *)
Theorem multipart_sizes_visible parts :
  nodup_b (map (fun p => fold (mp_filename p)) (mp_uploads parts)) = true ->
  cm_find_all (mv_files_sizes (mp_collect fold parts)) = mp_size_entries parts.
Proof.
  intro H. apply nodup_b_NoDup in H. unfold mp_collect. rewrite collect_sizes.
  cbn [mv_files_sizes]. rewrite json_apply_nodup; [reflexivity|].
  cbn [map app]. unfold mp_size_entries. rewrite map_map. cbn [fst]. exact H.
Qed.

(* Content-Type: multipart/form-data... selects the MULTIPART processor *)
Theorem multipart_ct_selected cookie_ord ct :
  is_prefix dc_ct_multipart (lower_ascii ct) = true ->
  select_processor (v_rbp (add_request_header fold cookie_ord txv_empty (str "Content-Type"%string) ct)) = PMultipart.
Proof.
  intro H. unfold add_request_header.
  change (dc_is_empty (str "Content-Type")) with false. cbv iota.
  change (bytes_eqb (lower_ascii (str "Content-Type")) (str "content-type")) with true. cbv iota.
  destruct (bytes_eqb (dc_media_type (lower_ascii ct)) dc_ct_urlencoded) eqn:E.
  - (* a value cannot both start with multipart/form-data and have the urlencoded media type *)
    exfalso. apply bytes_eqb_eq in E.
    destruct (lower_ascii ct) as [|c0 l]; [discriminate|].
    change dc_ct_multipart with (109 :: tl dc_ct_multipart) in H.
    cbn [is_prefix] in H. apply andb_true_iff in H as [H0 _]. apply N.eqb_eq in H0.
    subst c0. unfold dc_media_type in E. cbn [dc_cut] in E. change (109 =? 59) with false in E.
    cbv iota in E. destruct (dc_cut 59 l) as [[a b0] f]. unfold dc_trim_space in E.
    cbn [dc_drop_space] in E. change (dc_is_space 109) with false in E. cbv iota in E.
    assert (Hd : forall rs, exists t, dc_drop_space (rs ++ [109]) = t ++ [109]).
    { induction rs as [|x rs IH]; [exists []; reflexivity|]. cbn [app dc_drop_space].
      destruct (dc_is_space x); [exact IH|]. exists (x :: rs). reflexivity. }
    cbn [rev] in E. destruct (Hd (rev a)) as [t Et]. rewrite Et in E.
    rewrite rev_app_distr in E. cbn [rev app] in E. discriminate.
  - rewrite H. reflexivity.
Qed.

End MpCollect.

Example multipart_guard_example :
  forallb (mp_part_ok (str "XbX"%string))
    [mk_mpart (str "q""uote;semi\back"%string) [] (str "--XbX"%string ++ [13; 10; 45; 45] ++ str "Xb"%string);
     mk_mpart (str "up"%string) (str "C:\dir\e"".php"%string) ([13; 10] ++ str "-- line"%string ++ [0; 255])] = false
  /\
  forallb (mp_part_ok (str "XbX"%string))
    [mk_mpart (str "q""uote;semi\back"%string) [] (str "x--XbX"%string ++ [13; 10; 45; 45] ++ str "Xb"%string);
     mk_mpart (str "up"%string) (str "C:\dir\e"".php"%string) ([13; 10] ++ str "-- line"%string ++ [0; 255])] = true.
Proof. vm_compute. auto. Qed.

(* ------------------------------------------------------------------------------------ *)
(* 13. statements as used in Props/C03.v                                                 *)
(* ------------------------------------------------------------------------------------ *)

Theorem query_roundtrip_full l : wf_pairs l ->
  parse_query (enc_query l) 38 = group_pairs l /\
  (forall k, gmap_get k (group_pairs l) = values_of k l) /\
  Permutation (gmap_flat (group_pairs l)) l /\
  NoDup (map fst (group_pairs l)).
Proof.
  intros H. split; [|split; [|split]].
  - unfold parse_query, do_parse_query. now rewrite query_roundtrip_pairs.
  - intro k. apply group_pairs_lookup.
  - apply group_pairs_flat.
  - apply group_pairs_nodup.
Qed.

Theorem header_visible_full fold cookie_ord hs :
  Permutation (cm_find_all (v_headers (add_headers fold cookie_ord txv_empty hs))) (filter nonempty_key hs) /\
  forall k, dc_is_empty k = false ->
    cm_find_string fold (v_headers (add_headers fold cookie_ord txv_empty hs)) k =
    filter (fun e => bytes_eqb (fold (fst e)) (fold k)) (filter nonempty_key hs).
Proof. split; [apply headers_visible|intros; now apply headers_lookup]. Qed.
