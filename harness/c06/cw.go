package c06

// The concurrent audit writer with FAULT INJECTION (internal/auditlog/concurrent_writer.go):
// RLIMIT_FSIZE is lowered to the current size of the index file (SIGXFSZ ignored), so that every
// append to the index fails with EFBIG while the small per-transaction record file can still be
// written; the limit is restored afterwards. A failed index write must neither lose later records
// nor leave the writer's mutex locked: every later Write, from any goroutine, must complete
// (watchdog) - oracle key c06-audit-writer-deadlock.

import (
	"fmt"
	"os"
	"os/signal"
	"path"
	"path/filepath"
	"strings"
	"sync"
	"syscall"
	"time"

	"github.com/corazawaf/coraza/v3/experimental/plugins/plugintypes"
	"github.com/corazawaf/coraza/v3/internal/auditlog"
	"github.com/corazawaf/coraza/v3/internal/corazawaf"
	"github.com/corazawaf/coraza/v3/types"
	"github.com/corazawaf/coraza/v3/verifharness/c06/c06lib"
	"github.com/corazawaf/coraza/v3/verifharness/vh"
)

type cwTx struct {
	id string
	ts int64
}

func (t cwTx) Timestamp() string                                       { return "22/Aug/2009:13:24:20 +0100" }
func (t cwTx) UnixTimestamp() int64                                    { return t.ts }
func (t cwTx) ID() string                                              { return t.id }
func (t cwTx) ClientIP() string                                        { return "10.0.0.1" }
func (t cwTx) ClientPort() int                                         { return 1 }
func (t cwTx) HostIP() string                                          { return "10.0.0.2" }
func (t cwTx) HostPort() int                                           { return 2 }
func (t cwTx) ServerID() string                                        { return "" }
func (t cwTx) Request() plugintypes.AuditLogTransactionRequest         { return nil }
func (t cwTx) HasRequest() bool                                        { return false }
func (t cwTx) Response() plugintypes.AuditLogTransactionResponse       { return nil }
func (t cwTx) HasResponse() bool                                       { return false }
func (t cwTx) Producer() plugintypes.AuditLogTransactionProducer       { return nil }
func (t cwTx) HighestSeverity() string                                 { return "" }
func (t cwTx) IsInterrupted() bool                                     { return false }

type cwLog struct {
	tx      cwTx
	payload []byte
}

func (l cwLog) Parts() types.AuditLogParts                   { return nil }
func (l cwLog) Transaction() plugintypes.AuditLogTransaction { return l.tx }
func (l cwLog) Messages() []plugintypes.AuditLogMessage      { return nil }

type cwFormatter struct{}

func (cwFormatter) Format(al plugintypes.AuditLog) ([]byte, error) { return al.(cwLog).payload, nil }
func (cwFormatter) MIME() string                                   { return "text/plain" }

func withFsizeLimit(l int64, f func()) {
	var old syscall.Rlimit
	_ = syscall.Getrlimit(syscall.RLIMIT_FSIZE, &old)
	_ = syscall.Setrlimit(syscall.RLIMIT_FSIZE, &syscall.Rlimit{Cur: uint64(l), Max: old.Max})
	defer func() { _ = syscall.Setrlimit(syscall.RLIMIT_FSIZE, &old) }()
	f()
}

func fileSize(p string) int64 {
	st, err := os.Stat(p)
	if err != nil {
		return 0
	}
	return st.Size()
}

// within runs f and reports whether it came back before the watchdog fired.
func within(d time.Duration, f func()) bool {
	done := make(chan struct{})
	go func() { defer close(done); f() }()
	select {
	case <-done:
		return true
	case <-time.After(d):
		return false
	}
}

const cwWatchdog = 5 * time.Second

type cwWrite struct {
	ID   string `json:"id"`
	Fail bool   `json:"fail"` // made while the file size limit makes the index write fail
}

// cwParts: the index parts concurrentWriter.Write hands to log.Logger.Output for a transaction
// without request / response (Output appends the missing newline to the first one).
func cwParts(dir string, t cwTx) []string {
	tm := time.Unix(0, t.ts)
	ymd := tm.Format("20060102")
	ymdhm := ymd + tm.Format("-1504")
	fp := path.Join(dir, ymd, ymdhm, ymdhm+tm.Format("05")+"-"+t.id)
	return []string{
		fmt.Sprintf("%s %s - - [%s]\n", t.ClientIP(), t.HostIP(), t.Timestamp()),
		fmt.Sprintf("%s - %s\n", t.id, fp),
	}
}

// runCwScript drives the real concurrentWriter directly: a sequential script of Writes, some with
// the fault injected (-> CCw case for the Coq model), then goroutines writing concurrently.
func (r *runner) runCwScript(script []cwWrite, shard string, caseNo int) {
	signal.Ignore(syscall.SIGXFSZ)
	tmp, err := os.MkdirTemp("", "c06cw")
	if err != nil {
		return
	}
	defer os.RemoveAll(tmp)
	idx := filepath.Join(tmp, "index.log")
	store := filepath.Join(tmp, "store")
	pad := strings.Repeat("# padding so that record files stay below the injected file size limit\n", 120)
	_ = os.WriteFile(idx, []byte(pad), 0o644)
	w, err := auditlog.GetWriter("concurrent")
	if err == nil {
		err = w.Init(plugintypes.AuditLogConfig{Target: idx, Dir: store, FileMode: 0o644, DirMode: 0o755, Formatter: cwFormatter{}})
	}
	cj := caseJSON{Kind: "cw", Cw: script}
	if err != nil {
		r.res.OracleFailures = append(r.res.OracleFailures, vh.OracleFailure{Key: "c06-cw-setup", What: err.Error(), Case: cj})
		return
	}
	base := int64(1251000000+caseNo) * int64(time.Second)
	var writes, results []string
	for i, sw := range script {
		t := cwTx{id: fmt.Sprintf("cw%dx%d", caseNo, i), ts: base}
		var werr error
		do := func() { werr = w.Write(cwLog{t, []byte("record of " + t.id + "\n")}) }
		ok := true
		if sw.Fail {
			withFsizeLimit(fileSize(idx), func() { ok = within(cwWatchdog, do) })
		} else {
			ok = within(cwWatchdog, do)
		}
		r.res.OracleEvaluations++
		if !ok {
			r.res.OracleFailures = append(r.res.OracleFailures, vh.OracleFailure{Key: "c06-audit-writer-deadlock",
				What: fmt.Sprintf("concurrentWriter.Write #%d of the script did not return within %s (an earlier Write's index write had failed: the writer's mutex was left locked)", i, cwWatchdog), Case: cj})
			return
		}
		ps := cwParts(store, t)
		writes = append(writes, fmt.Sprintf("(%s, %s)", vh.List([]string{vh.HxS(ps[0]), vh.HxS(ps[1])}), vh.Bool(sw.Fail)))
		results = append(results, vh.Bool(werr != nil))
	}
	raw, _ := os.ReadFile(idx)
	index := strings.TrimPrefix(string(raw), pad)
	r.add(shard, fmt.Sprintf("(CCw %s %s %s)", vh.List(writes), vh.HxS(index), vh.List(results)), cj)
	nf := 0
	for _, sw := range script {
		if sw.Fail {
			nf++
		}
	}
	r.dist.Inc(fmt.Sprintf("concurrent writer script: failing index writes=%d", min(nf, 3)))
	if nf > 0 && nf < len(script) {
		r.nontr[fmt.Sprint("cw:", script)] = true
	}

	// after the faults: several goroutines share the writer
	const G, M = 6, 4
	var wg sync.WaitGroup
	var mu sync.Mutex
	nerr := 0
	ok := within(cwWatchdog, func() {
		for g := 0; g < G; g++ {
			wg.Add(1)
			go func(g int) {
				defer wg.Done()
				for m := 0; m < M; m++ {
					t := cwTx{id: fmt.Sprintf("cw%dg%dm%d", caseNo, g, m), ts: base}
					if err := w.Write(cwLog{t, []byte("record of " + t.id + "\n")}); err != nil {
						mu.Lock()
						nerr++
						mu.Unlock()
					}
				}
			}(g)
		}
		wg.Wait()
	})
	r.res.OracleEvaluations += G * M
	if !ok {
		r.res.OracleFailures = append(r.res.OracleFailures, vh.OracleFailure{Key: "c06-audit-writer-deadlock",
			What: fmt.Sprintf("%d goroutines writing through the concurrent audit writer after a failed index write did not finish within %s", G, cwWatchdog), Case: cj})
		return
	}
	raw, _ = os.ReadFile(idx)
	lines := strings.Split(strings.TrimPrefix(string(raw), pad), "\n")
	for g := 0; g < G; g++ {
		for m := 0; m < M; m++ {
			id := fmt.Sprintf("cw%dg%dm%d - ", caseNo, g, m)
			n := 0
			for li, l := range lines {
				if strings.HasPrefix(l, id) {
					n++
					if li == 0 || !strings.HasPrefix(lines[li-1], "10.0.0.1 10.0.0.2 - - [") {
						r.res.OracleFailures = append(r.res.OracleFailures, vh.OracleFailure{Key: "c06-audit-index-entry-torn",
							What: fmt.Sprintf("index entry of %s is not preceded by its own first line: %q", id, lines[max(li-1, 0)]), Case: cj})
					}
				}
			}
			if n != 1 || nerr != 0 {
				r.res.OracleFailures = append(r.res.OracleFailures, vh.OracleFailure{Key: "c06-audit-record-lost",
					What: fmt.Sprintf("after the faults were lifted: %d index entries for %s (want 1), %d write errors", n, id, nerr), Case: cj})
				return
			}
		}
	}
}

// runCwWAF: the same on a real WAF with SecAuditLogType Concurrent: one transaction's index write
// fails, later transactions on several goroutines must all finish and be recorded.
func (r *runner) runCwWAF() {
	signal.Ignore(syscall.SIGXFSZ)
	tmp, err := os.MkdirTemp("", "c06cww")
	if err != nil {
		return
	}
	defer os.RemoveAll(tmp)
	idx := filepath.Join(tmp, "index.log")
	store := filepath.Join(tmp, "store")
	pad := strings.Repeat("# padding so that record files stay below the injected file size limit\n", 400)
	_ = os.WriteFile(idx, []byte(pad), 0o644)
	dirs := "SecRuleEngine On\nSecAuditEngine On\nSecAuditLogParts ABHZ\nSecAuditLogFormat json\nSecAuditLogType Concurrent\n" +
		"SecAuditLog " + idx + "\nSecAuditLogStorageDir " + store + "\n" +
		`SecRule ARGS "@contains evil" "id:1,phase:1,deny,status:403,log,auditlog"` + "\n"
	cj := caseJSON{Kind: "cw-waf"}
	waf, err := c06lib.NewWAF(dirs)
	if err == nil {
		if e := waf.InitAuditLogWriter(); e != nil && !strings.Contains(e.Error(), "already") {
			err = e
		}
	}
	if err != nil {
		r.res.OracleFailures = append(r.res.OracleFailures, vh.OracleFailure{Key: "c06-cw-setup", What: err.Error(), Case: cj})
		return
	}
	defer waf.Close()
	runOne := func(id string) {
		tx := waf.NewTransactionWithOptions(corazawaf.Options{ID: id})
		tx.ProcessConnection("10.0.0.1", 40000, "10.0.0.2", 80)
		tx.ProcessURI("/p?a=evil", "GET", "HTTP/1.1")
		tx.AddRequestHeader("Host", "h")
		tx.ProcessRequestHeaders()
		tx.ProcessLogging()
		_ = tx.Close()
	}
	fail := func(key, what string) {
		r.res.OracleFailures = append(r.res.OracleFailures, vh.OracleFailure{Key: key, What: what, Case: cj})
	}
	if !within(cwWatchdog, func() { runOne("cwwaf-first") }) {
		fail("c06-audit-writer-deadlock", "the first transaction on a WAF with the concurrent audit writer did not finish")
		return
	}
	okFault := true
	withFsizeLimit(fileSize(idx), func() { okFault = within(cwWatchdog, func() { runOne("cwwaf-faulted") }) })
	if !okFault {
		fail("c06-audit-writer-deadlock", "the transaction whose index write fails did not finish")
		return
	}
	const G, M = 6, 3
	var wg sync.WaitGroup
	ok := within(cwWatchdog, func() {
		for g := 0; g < G; g++ {
			wg.Add(1)
			go func(g int) {
				defer wg.Done()
				for m := 0; m < M; m++ {
					runOne(fmt.Sprintf("cwwaf-g%d-m%d", g, m))
				}
			}(g)
		}
		wg.Wait()
	})
	r.res.OracleEvaluations += G*M + 2
	r.dist.Inc("concurrent writer on a WAF: transactions after a failed index write")
	if !ok {
		fail("c06-audit-writer-deadlock", fmt.Sprintf("after ONE transaction's audit index write failed (file size limit, since lifted), %d goroutines x %d transactions on the same WAF did not finish ProcessLogging within %s: the concurrent writer's mutex was left locked", G, M, cwWatchdog))
		return
	}
	raw, _ := os.ReadFile(idx)
	body := strings.TrimPrefix(string(raw), pad)
	want := []string{"cwwaf-first"}
	for g := 0; g < G; g++ {
		for m := 0; m < M; m++ {
			want = append(want, fmt.Sprintf("cwwaf-g%d-m%d", g, m))
		}
	}
	for _, id := range want {
		if n := strings.Count(body, id+" - "); n != 1 {
			fail("c06-audit-record-lost", fmt.Sprintf("transaction %s has %d entries in the concurrent writer's index (want 1)", id, n))
			return
		}
	}
	nfiles := 0
	_ = filepath.Walk(store, func(p string, info os.FileInfo, err error) error {
		if err == nil && !info.IsDir() {
			nfiles++
		}
		return nil
	})
	if nfiles < len(want) {
		fail("c06-audit-record-lost", fmt.Sprintf("%d record files in the storage directory, at least %d expected", nfiles, len(want)))
	}
}
