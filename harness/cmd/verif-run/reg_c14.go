package main

import _ "github.com/corazawaf/coraza/v3/verifharness/c14"
