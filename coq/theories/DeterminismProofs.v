(* DeterminismProofs.v — proofs about Determinism.v (C04).

   Main result: [order_independent]: for an order-insensitive configuration the observable
   outcome is the same under any two permutation oracles.  Structure:
   - [E tm tc]: two states agree on everything observable; on MATCHED_VAR(_NAME) unless [tm],
     on TX.0-9 unless [tc];
   - actions / one entry respect [E] ([step_respects]);
   - in a link with a multi-valued target two entries commute up to [E true _]
     ([step_commute]); the general lemma [fold_perm_equiv] (Permutation induction: perm_skip /
     perm_swap / perm_trans) lifts this to any two orders of the selected entries;
   - links without multi-valued target select at most one entry per target: the oracle cannot
     change anything, and after a match MATCHED_VAR is equal again;
   - chains, rules, phases, transaction by induction over the configuration.  *)
From Verif Require Import Base Transform Determinism.
From Coq Require Import Permutation.
From Coq Require Import String.
Open Scope N_scope.

(* ------------------------------------------------------------------------------------- *)
(* the key lemma: a fold of pairwise commuting steps is invariant under permutation      *)
(* ------------------------------------------------------------------------------------- *)

Section FoldPerm.
  Variables (S A : Type) (R : S -> S -> Prop) (step : S -> A -> S).
  Hypothesis R_refl : forall s, R s s.
  Hypothesis R_trans : forall a b c, R a b -> R b c -> R a c.
  Hypothesis step_resp : forall s s' a, R s s' -> R (step s a) (step s' a).
  Hypothesis step_comm : forall s a b, R (step (step s a) b) (step (step s b) a).

  Lemma fold_resp : forall l s s', R s s' -> R (fold_left step l s) (fold_left step l s').
  Proof. induction l as [|a l IH]; intros s s' H; cbn; [exact H | apply IH, step_resp, H]. Qed.

  Lemma fold_perm_equiv : forall l l', Permutation l l' ->
    forall s s', R s s' -> R (fold_left step l s) (fold_left step l' s').
  Proof.
    induction 1 as [| x l l' HP IH | x y l | l l' l'' HP1 IH1 HP2 IH2]; intros s s' H.
    - exact H.
    - cbn. apply IH, step_resp, H.
    - cbn. eapply R_trans.
      + apply fold_resp, step_comm.
      + apply fold_resp, step_resp, step_resp, H.
    - eapply R_trans; [apply IH1, R_refl | apply IH2, H].
  Qed.
End FoldPerm.

(* ------------------------------------------------------------------------------------- *)
(* the relation between two runs                                                         *)
(* ------------------------------------------------------------------------------------- *)

Definition E (tm tc : bool) (s s' : st) : Prop :=
  s_tx s = s_tx s' /\ s_intr s = s_intr s' /\ s_hs s = s_hs s' /\ fired_equiv (s_fired s) (s_fired s')
  /\ (tm = false -> s_mv s = s_mv s' /\ s_mvn s = s_mvn s')
  /\ (tc = false -> s_cap s = s_cap s').

Ltac E_split := split; [|split; [|split; [|split; [|split]]]].

Lemma fired_equiv_refl l : fired_equiv l l.
Proof. induction l; constructor; auto. Qed.

Lemma fired_equiv_sym a b : fired_equiv a b -> fired_equiv b a.
Proof. induction 1; constructor; auto. destruct H; split; [congruence | apply Permutation_sym; auto]. Qed.

Lemma fired_equiv_trans a b c : fired_equiv a b -> fired_equiv b c -> fired_equiv a c.
Proof.
  intros H; revert c; induction H as [|x y l l' Hxy Hl IH]; intros c Hc; inversion Hc as [|y' z l2 l3 Hyz Hl3]; subst; constructor.
  - destruct Hxy, Hyz; split; [congruence | eapply Permutation_trans; eauto].
  - apply IH; auto.
Qed.

Lemma E_refl tm tc s : E tm tc s s.
Proof. E_split; auto using fired_equiv_refl. Qed.

Lemma E_sym tm tc s s' : E tm tc s s' -> E tm tc s' s.
Proof.
  intros (H1 & H2 & H3 & H4 & H5 & H6). E_split; auto using fired_equiv_sym.
  - intros H. destruct (H5 H). split; congruence.
  - intros H. symmetry; auto.
Qed.

Lemma E_trans tm tc a b c : E tm tc a b -> E tm tc b c -> E tm tc a c.
Proof.
  intros (H1 & H2 & H3 & H4 & H5 & H6) (G1 & G2 & G3 & G4 & G5 & G6).
  split; [congruence|]. split; [congruence|]. split; [congruence|].
  split; [eauto using fired_equiv_trans|]. split.
  - intros H. destruct (H5 H), (G5 H). split; congruence.
  - intros H. rewrite H6, G6; auto.
Qed.

Definition ble (x y : bool) : Prop := x = true -> y = true.

Lemma ble_false x y : ble x y -> y = false -> x = false.
Proof. unfold ble; destruct x, y; intros; auto. discriminate (H eq_refl). Qed.

Lemma E_weaken tm tc tm' tc' s s' : ble tm tm' -> ble tc tc' -> E tm tc s s' -> E tm' tc' s s'.
Proof.
  intros Hm Hc (H1 & H2 & H3 & H4 & H5 & H6). E_split; auto.
  - intros H. apply H5. eapply ble_false; eauto.
  - intros H. apply H6. eapply ble_false; eauto.
Qed.

(* ------------------------------------------------------------------------------------- *)
(* state updates respect E                                                               *)
(* ------------------------------------------------------------------------------------- *)

Lemma E_st_set tm tc s s' k v : E tm tc s s' -> E tm tc (st_set s k v) (st_set s' k v).
Proof.
  intros (H1 & H2 & H3 & H4 & H5 & H6). unfold st_set.
  destruct (is_cap_key k); E_split; cbn; auto; try congruence.
  intros H. rewrite H6; auto.
Qed.

Lemma E_set_mv tm tc s s' v n : E tm tc s s' -> E false tc (st_set_mv s v n) (st_set_mv s' v n).
Proof. intros (H1 & H2 & H3 & H4 & H5 & H6). E_split; cbn; auto. Qed.

Lemma E_tick tm tc s s' : E tm tc s s' -> E tm tc (st_tick s) (st_tick s').
Proof. intros (H1 & H2 & H3 & H4 & H5 & H6). E_split; cbn; auto. Qed.

Lemma W_set_mv tc s v n : E true tc s (st_set_mv s v n).
Proof. E_split; cbn; auto using fired_equiv_refl; discriminate. Qed.

Lemma W_set_cap s k v : is_cap_key k = true -> E true true s (st_set s k v).
Proof. intros Hk. unfold st_set; rewrite Hk. E_split; cbn; auto using fired_equiv_refl; discriminate. Qed.

Lemma st_get_E tm tc s s' k :
  E tm tc s s' -> (is_cap_key k = true -> tc = false) -> st_get s k = st_get s' k.
Proof.
  intros (H1 & H2 & H3 & H4 & H5 & H6) Hk. unfold st_get.
  destruct (is_cap_key k); [rewrite H6; auto | rewrite H1; auto].
Qed.

(* ------------------------------------------------------------------------------------- *)
(* macros and setvar                                                                     *)
(* ------------------------------------------------------------------------------------- *)

Lemma expand_E tm tc s s' m :
  E tm tc s s' ->
  (existsb part_reads_mv m = true -> tm = false) ->
  (existsb part_reads_cap m = true -> tc = false) ->
  expand s m = expand s' m.
Proof.
  intros HE. unfold expand. induction m as [|p m IH]; intros Hm Hc; cbn; [reflexivity|].
  cbn in Hm, Hc. f_equal.
  - destruct p; cbn; auto.
    + destruct HE as (_ & _ & _ & _ & H5 & _). apply H5. apply Hm. reflexivity.
    + destruct HE as (_ & _ & _ & _ & H5 & _). apply H5. apply Hm. reflexivity.
    + rewrite (st_get_E _ _ _ _ k HE); auto. intros Hk. apply Hc. cbn. rewrite Hk. reflexivity.
  - apply IH; intros H; [apply Hm | apply Hc]; rewrite H; apply orb_true_r.
Qed.

Lemma setvar_E tm tc s s' k v :
  is_cap_key k = false -> E tm tc s s' -> E tm tc (setvar_apply s k v) (setvar_apply s' k v).
Proof.
  intros Hk HE.
  assert (Hg : st_get s k = st_get s' k) by (apply (st_get_E _ _ _ _ k HE); congruence).
  unfold setvar_apply. rewrite Hg.
  destruct v as [|c rest]; [apply E_st_set; auto|].
  destruct ((c =? 43) || (c =? 45)); [|apply E_st_set; auto].
  destruct rest as [|d rest'].
  - destruct (cur_int (st_get s' k)); auto using E_st_set.
  - destruct (atoi (d :: rest')).
    + destruct (cur_int (st_get s' k)); auto using E_st_set.
    + destruct (is_prefix _ _); auto using E_st_set.
Qed.

Definition act_ok (tm tc : bool) (a : action) : Prop :=
  act_writes_cap a = false /\ (act_reads_mv a = true -> tm = false) /\ (act_reads_cap a = true -> tc = false).

Lemma act_E tm tc s s' a : act_ok tm tc a -> E tm tc s s' -> E tm tc (act_apply s a) (act_apply s' a).
Proof.
  destruct a as [k m]. intros (Hw & Hm & Hc) HE. cbn in *.
  rewrite (expand_E tm tc s s' m HE Hm Hc). apply setvar_E; auto.
Qed.

Lemma acts_E tm tc acts : Forall (act_ok tm tc) acts ->
  forall s s', E tm tc s s' -> E tm tc (fold_left act_apply acts s) (fold_left act_apply acts s').
Proof.
  induction 1 as [|a l Ha Hl IH]; intros s s' HE; cbn; [exact HE|]. apply IH, act_E; auto.
Qed.

(* setvar never touches MATCHED_VAR / MATCHED_VAR_NAME *)
Lemma st_set_mv_same s k v : s_mv (st_set s k v) = s_mv s /\ s_mvn (st_set s k v) = s_mvn s.
Proof. unfold st_set; destruct (is_cap_key k); cbn; auto. Qed.

Lemma setvar_mv_same s k v : s_mv (setvar_apply s k v) = s_mv s /\ s_mvn (setvar_apply s k v) = s_mvn s.
Proof.
  unfold setvar_apply.
  destruct v as [|c rest]; [apply st_set_mv_same|].
  destruct ((c =? 43) || (c =? 45)); [|apply st_set_mv_same].
  destruct rest as [|d rest'].
  - destruct (cur_int _); auto using st_set_mv_same.
  - destruct (atoi _); [destruct (cur_int _)|destruct (is_prefix _ _)]; auto using st_set_mv_same.
Qed.

Lemma acts_mv_same acts : forall s,
  s_mv (fold_left act_apply acts s) = s_mv s /\ s_mvn (fold_left act_apply acts s) = s_mvn s.
Proof.
  induction acts as [|[k m] l IH]; intros s; cbn; [auto|].
  destruct (IH (setvar_apply s k (expand s m))) as [-> ->]. apply setvar_mv_same.
Qed.

(* ------------------------------------------------------------------------------------- *)
(* one selected entry                                                                    *)
(* ------------------------------------------------------------------------------------- *)

Definition tval (lk : link) (e : entry) : bytes := fst (exec_tfs (l_tfs lk) (e_val e)).
Definition matches (lk : link) (e : entry) : bool := xorb (op_raw (l_op lk) (tval lk e)) (l_neg lk).
Definition mentry (lk : link) (e : entry) : entry := mkE (e_var e) (e_key e) (tval lk e).
Definition mlist (lk : link) (e : entry) : list entry := if matches lk e then [mentry lk e] else [].
Definition cap_write (lk : link) (e : entry) (s : st) : st :=
  if op_raw (l_op lk) (tval lk e) && l_capture lk
  then match op_cap (l_op lk) (tval lk e) with Some c => st_set s (str "0"%string) (mk_tv c) | None => s end
  else s.
Definition run_acts (lk : link) (s : st) : st := fold_left act_apply (l_acts lk) s.

Lemma step_unfold lk p e :
  step_entry lk p e =
  (if matches lk e
   then run_acts lk (st_set_mv (cap_write lk e (fst p)) (tval lk e) (match_name (mentry lk e)))
   else cap_write lk e (fst p),
   snd p ++ mlist lk e).
Proof.
  unfold step_entry, mlist, matches, cap_write, run_acts, mentry, tval.
  destruct (xorb _ _); cbn; [reflexivity | rewrite app_nil_r; reflexivity].
Qed.

Lemma step_snd lk p e : snd (step_entry lk p e) = snd p ++ mlist lk e.
Proof. rewrite step_unfold; reflexivity. Qed.

Lemma cap_write_E a b lk e s s' : E a b s s' -> E a b (cap_write lk e s) (cap_write lk e s').
Proof.
  intros H. unfold cap_write. destruct (_ && _); auto. destruct (op_cap _ _); auto using E_st_set.
Qed.

Lemma cap_write_id lk e s : captures lk = false -> cap_write lk e s = s.
Proof.
  unfold captures, cap_write. intros H.
  destruct (l_capture lk); [|rewrite andb_false_r; reflexivity].
  cbn in H. destruct (l_op lk); try discriminate; cbn;
    repeat match goal with |- context [if ?c then _ else _] => destruct c end; reflexivity.
Qed.

Lemma cap_write_W b lk e s : (captures lk = true -> b = true) -> E true b s (cap_write lk e s).
Proof.
  intros H. destruct (captures lk) eqn:Hc.
  - rewrite (H eq_refl). unfold cap_write. destruct (_ && _); [|apply E_refl].
    destruct (op_cap _ _); [apply W_set_cap; reflexivity | apply E_refl].
  - rewrite cap_write_id; auto using E_refl.
Qed.

Lemma step_respects a b lk p p' e :
  Forall (act_ok false b) (l_acts lk) ->
  E a b (fst p) (fst p') ->
  E a b (fst (step_entry lk p e)) (fst (step_entry lk p' e))
  /\ (matches lk e = true -> E false b (fst (step_entry lk p e)) (fst (step_entry lk p' e))).
Proof.
  intros Ha HE. rewrite !step_unfold. cbn [fst].
  destruct (matches lk e).
  - assert (H : E false b (run_acts lk (st_set_mv (cap_write lk e (fst p)) (tval lk e) (match_name (mentry lk e))))
                          (run_acts lk (st_set_mv (cap_write lk e (fst p')) (tval lk e) (match_name (mentry lk e))))).
    { apply acts_E; auto. eapply E_set_mv, cap_write_E, HE. }
    split; [|auto]. eapply E_weaken; [| |exact H]; unfold ble; auto; discriminate.
  - split; [apply cap_write_E, HE | discriminate].
Qed.

(* pairs (state, matched data so far) *)
Definition EP (a b : bool) (p p' : st * list entry) : Prop :=
  E a b (fst p) (fst p') /\ Permutation (snd p) (snd p').

Lemma EP_refl a b p : EP a b p p.
Proof. split; [apply E_refl | apply Permutation_refl]. Qed.

Lemma EP_trans a b p q r : EP a b p q -> EP a b q r -> EP a b p r.
Proof. intros [H1 H2] [G1 G2]. split; [eapply E_trans | eapply Permutation_trans]; eauto. Qed.

Lemma step_EP a b lk p p' e :
  Forall (act_ok false b) (l_acts lk) -> EP a b p p' -> EP a b (step_entry lk p e) (step_entry lk p' e).
Proof.
  intros Ha [HE HP]. split.
  - apply step_respects; auto.
  - rewrite !step_snd. apply Permutation_app_tail, HP.
Qed.

(* normal form of one entry's effect up to [E true b] in a link whose actions do not look at the
   match: the actions ran, or nothing happened *)
Definition nf (lk : link) (e : entry) (s : st) : st := if matches lk e then run_acts lk s else s.

Lemma nf_E b lk e s s' : Forall (act_ok true b) (l_acts lk) -> E true b s s' -> E true b (nf lk e s) (nf lk e s').
Proof. intros Ha H. unfold nf. destruct (matches lk e); auto. apply acts_E; auto. Qed.

Lemma nf_comm lk x y s : nf lk y (nf lk x s) = nf lk x (nf lk y s).
Proof. unfold nf. destruct (matches lk x), (matches lk y); reflexivity. Qed.

Lemma step_nf b lk p e :
  Forall (act_ok true b) (l_acts lk) -> (captures lk = true -> b = true) ->
  E true b (fst (step_entry lk p e)) (nf lk e (fst p)).
Proof.
  intros Ha Hc. rewrite step_unfold. cbn [fst]. unfold nf. destruct (matches lk e).
  - apply acts_E; auto. apply E_sym. eapply E_trans; [apply (cap_write_W b lk e); auto | apply W_set_mv].
  - apply E_sym, cap_write_W; auto.
Qed.

Lemma step_commute b lk p x y :
  Forall (act_ok true b) (l_acts lk) -> (captures lk = true -> b = true) ->
  EP true b (step_entry lk (step_entry lk p x) y) (step_entry lk (step_entry lk p y) x).
Proof.
  intros Ha Hc. split.
  - eapply E_trans; [apply step_nf; auto|].
    eapply E_trans; [apply nf_E; [auto | apply step_nf; auto]|].
    rewrite nf_comm. apply E_sym.
    eapply E_trans; [apply step_nf; auto|]. apply nf_E; [auto | apply step_nf; auto].
  - rewrite !step_snd, <- !app_assoc. apply Permutation_app_head, Permutation_app_comm.
Qed.

Lemma act_ok_weaken b a : act_ok true b a -> act_ok false b a.
Proof. intros (H1 & H2 & H3). split; [auto | split; auto]. Qed.

(* any two orders of the selected entries, in a link whose actions do not look at the match *)
Lemma entries_perm b lk l l' p p' :
  Forall (act_ok true b) (l_acts lk) -> (captures lk = true -> b = true) ->
  Permutation l l' -> EP true b p p' ->
  EP true b (fold_left (step_entry lk) l p) (fold_left (step_entry lk) l' p').
Proof.
  intros Ha Hc HP H.
  apply (fold_perm_equiv _ _ (EP true b) (step_entry lk)); auto.
  - apply EP_refl.
  - apply EP_trans.
  - intros s s' e Hs. apply step_EP; auto. eapply Forall_impl; [|exact Ha]. apply act_ok_weaken.
  - intros s x y. apply step_commute; auto.
Qed.

(* the same order on both sides; after a match MATCHED_VAR agrees again *)
Definition IR (a b : bool) (p p' : st * list entry) : Prop :=
  EP a b p p' /\ (snd p <> [] -> E false b (fst p) (fst p')).

Lemma step_I a b lk p p' e :
  Forall (act_ok false b) (l_acts lk) -> IR a b p p' -> IR a b (step_entry lk p e) (step_entry lk p' e).
Proof.
  intros Ha [HEP Hm]. split; [apply step_EP; auto|].
  rewrite step_snd. unfold mlist. destruct (matches lk e) eqn:Hmt.
  - intros _. destruct (step_respects a b lk p p' e Ha (proj1 HEP)) as [_ H]. apply H, Hmt.
  - rewrite app_nil_r. intros Hne. apply (proj1 (step_respects false b lk p p' e Ha (Hm Hne))).
Qed.

Lemma entries_same a b lk l : Forall (act_ok false b) (l_acts lk) ->
  forall p p', IR a b p p' -> IR a b (fold_left (step_entry lk) l p) (fold_left (step_entry lk) l p').
Proof. intros Ha. induction l as [|e l IH]; intros p p' H; cbn; [exact H | apply IH, step_I; auto]. Qed.

(* ------------------------------------------------------------------------------------- *)
(* selection                                                                             *)
(* ------------------------------------------------------------------------------------- *)

Definition target_ok (a b : bool) (t : target) : Prop :=
  (reads_mv_target t = true -> a = false) /\ (reads_cap_target t = true -> b = false).

Lemma coll_all_E a b v rq post s s' :
  E a b s s' ->
  ((v = VMatchedVar \/ v = VMatchedVarName) -> a = false) ->
  (v = VTx -> b = false) ->
  coll_all v rq post s = coll_all v rq post s'.
Proof.
  intros (H1 & H2 & H3 & H4 & H5 & H6) Hm Hc.
  destruct v; cbn; try reflexivity.
  - rewrite H1, H6; auto.
  - destruct (H5 (Hm (or_introl eq_refl))) as [-> _]. reflexivity.
  - destruct (H5 (Hm (or_intror eq_refl))) as [_ ->]. reflexivity.
Qed.

Lemma select_E a b t rq post s s' :
  target_ok a b t -> E a b s s' -> select t rq post s = select t rq post s'.
Proof.
  intros [Hm Hc] HE. unfold select.
  assert (Hf : find t rq post s = find t rq post s'); [|rewrite Hf; reflexivity].
  unfold find. unfold reads_mv_target in Hm. unfold reads_cap_target in Hc.
  destruct (t_rx t) as [p|].
  { destruct (is_single_var (t_var t)) eqn:Hsv; [reflexivity|]. f_equal.
    apply (coll_all_E a b); auto.
    - intros [Hv|Hv]; rewrite Hv in Hsv; discriminate.
    - intros Hv; rewrite Hv in Hc; auto. }
  destruct (t_key t) as [k|].
  - destruct (is_single_var (t_var t)) eqn:Hsv; [reflexivity|].
    destruct (t_var t) eqn:Hv; try reflexivity; try discriminate.
    rewrite (st_get_E a b s s' (lower_ascii k) HE); auto.
  - apply (coll_all_E a b); auto.
    + intros [Hv|Hv]; rewrite Hv in Hm; auto.
    + intros Hv; rewrite Hv in Hc; auto.
Qed.

Lemma filter_len {A} (f : A -> bool) l : (List.length (filter f l) <= List.length l)%nat.
Proof. induction l; cbn; [lia | destruct (f a); cbn; lia]. Qed.

Lemma select_short t rq post s : multi_target t = false -> (List.length (select t rq post s) <= 1)%nat.
Proof.
  unfold multi_target, select. destruct (t_count t); [cbn; lia|]. intros H.
  eapply Nat.le_trans; [apply filter_len|].
  unfold find. destruct (is_single_var (t_var t)) eqn:Hs.
  - destruct (t_rx t); [cbn; lia|].
    destruct (t_key t); [cbn; lia|]. destruct (t_var t); try discriminate; cbn; lia.
  - destruct (t_rx t); [discriminate|].
    destruct (t_var t); try discriminate; destruct (t_key t); try discriminate.
    destruct (st_get _ _); cbn; lia.
Qed.

Lemma perm_short {A} (l l' : list A) : (List.length l <= 1)%nat -> Permutation l' l -> l' = l.
Proof.
  destruct l as [|x [|y r]]; cbn; intros Hl HP.
  - apply Permutation_nil, Permutation_sym, HP.
  - apply Permutation_length_1_inv, Permutation_sym, HP.
  - lia.
Qed.

(* ------------------------------------------------------------------------------------- *)
(* targets and links                                                                     *)
(* ------------------------------------------------------------------------------------- *)

Section Link.
  Variables (ord1 ord2 : ord_t) (rq : request) (post : bool).
  Hypothesis Ho1 : perm_oracle ord1.
  Hypothesis Ho2 : perm_oracle ord2.

  Lemma target_multi b lk t p p' :
    Forall (act_ok true b) (l_acts lk) -> (captures lk = true -> b = true) ->
    target_ok true b t -> EP true b p p' ->
    EP true b (eval_target ord1 lk rq post p t) (eval_target ord2 lk rq post p' t).
  Proof.
    intros Ha Hc Ht [HE HP]. unfold eval_target.
    rewrite (select_E true b t rq post (fst p) (fst p') Ht HE).
    apply entries_perm; auto.
    - eapply Permutation_trans; [apply Ho1 | apply Permutation_sym, Ho2].
    - split; cbn; [apply E_tick, HE | exact HP].
  Qed.

  Lemma targets_multi b lk ts :
    Forall (act_ok true b) (l_acts lk) -> (captures lk = true -> b = true) ->
    Forall (target_ok true b) ts ->
    forall p p', EP true b p p' ->
    EP true b (fold_left (eval_target ord1 lk rq post) ts p) (fold_left (eval_target ord2 lk rq post) ts p').
  Proof.
    intros Ha Hc. induction 1 as [|t ts Ht Hts IH]; intros p p' H; cbn; [exact H|].
    apply IH, target_multi; auto.
  Qed.

  Lemma target_single a b lk t p p' :
    Forall (act_ok false b) (l_acts lk) -> multi_target t = false ->
    target_ok a b t -> IR a b p p' ->
    IR a b (eval_target ord1 lk rq post p t) (eval_target ord2 lk rq post p' t).
  Proof.
    intros Ha Hs Ht [[HE HP] Hm]. unfold eval_target.
    rewrite (select_E a b t rq post (fst p) (fst p') Ht HE).
    pose proof (select_short t rq post (fst p') Hs) as Hl.
    rewrite (perm_short _ _ Hl (Ho1 (s_step (fst p)) _)), (perm_short _ _ Hl (Ho2 (s_step (fst p')) _)).
    apply entries_same; auto. split; [split|]; cbn; auto using E_tick.
  Qed.

  Lemma targets_single a b lk ts :
    Forall (act_ok false b) (l_acts lk) ->
    Forall (fun t => multi_target t = false /\ target_ok a b t) ts ->
    forall p p', IR a b p p' ->
    IR a b (fold_left (eval_target ord1 lk rq post) ts p) (fold_left (eval_target ord2 lk rq post) ts p').
  Proof.
    intros Ha. induction 1 as [|t ts [Hs Ht] Hts IH]; intros p p' H; cbn; [exact H|].
    apply IH, target_single; auto.
  Qed.
End Link.

Lemma link_ok_targets tm tc lk : link_ok tm tc lk = true ->
  Forall (target_ok (tm_after tm lk) (tc_after tc lk)) (l_targets lk).
Proof.
  unfold link_ok. intros H. apply andb_true_iff in H as [H _].
  rewrite forallb_forall in H. apply Forall_forall. intros t Ht.
  specialize (H t Ht). apply andb_true_iff in H as [H1 H2]. split; intros Hr; rewrite Hr in *; cbn in *.
  - destruct (tm_after tm lk); [discriminate | reflexivity].
  - destruct (tc_after tc lk); [discriminate | reflexivity].
Qed.

Lemma link_ok_acts tm tc lk : link_ok tm tc lk = true ->
  Forall (fun a => act_writes_cap a = false /\ (act_reads_mv a = true -> multi_link lk = false)
                   /\ (act_reads_cap a = true -> tc_after tc lk = false)) (l_acts lk).
Proof.
  unfold link_ok. intros H. apply andb_true_iff in H as [_ H].
  rewrite forallb_forall in H. apply Forall_forall. intros a Ha.
  specialize (H a Ha). apply andb_true_iff in H as [H H3]. apply andb_true_iff in H as [H1 H2].
  split; [destruct (act_writes_cap a); [discriminate|reflexivity]|]. split; intros Hr; rewrite Hr in *; cbn in *.
  - destruct (multi_link lk); [discriminate | reflexivity].
  - destruct (tc_after tc lk); [discriminate | reflexivity].
Qed.

Section Link2.
  Variables (ord1 ord2 : ord_t) (rq : request) (post : bool).
  Hypothesis Ho1 : perm_oracle ord1.
  Hypothesis Ho2 : perm_oracle ord2.

  Lemma link_E tm tc lk s s' :
    link_ok tm tc lk = true -> E tm tc s s' ->
    EP (tm_after tm lk) (tc_after tc lk) (eval_link ord1 lk rq post s) (eval_link ord2 lk rq post s')
    /\ (multi_link lk = false -> snd (eval_link ord1 lk rq post s) <> [] ->
        E false (tc_after tc lk) (fst (eval_link ord1 lk rq post s)) (fst (eval_link ord2 lk rq post s'))).
  Proof.
    intros Hok HE.
    pose proof (link_ok_targets tm tc lk Hok) as Hts.
    pose proof (link_ok_acts tm tc lk Hok) as Has.
    unfold eval_link.
    destruct (multi_link lk) eqn:Hml.
    - assert (Htm : tm_after tm lk = true) by (unfold tm_after; rewrite Hml; apply orb_true_r).
      rewrite Htm in *. split; [|discriminate].
      apply (targets_multi ord1 ord2 rq post Ho1 Ho2 (tc_after tc lk) lk).
      + eapply Forall_impl; [|exact Has]. intros a (H1 & H2 & H3). split; [auto|split; auto].
      + intros Hc. unfold tc_after. rewrite Hml, Hc. apply orb_true_r.
      + exact Hts.
      + split; cbn; [|apply Permutation_refl]. eapply E_weaken; [| |exact HE]; unfold ble; auto.
        unfold tc_after. intros ->. reflexivity.
    - assert (Htm : tm_after tm lk = tm) by (unfold tm_after; rewrite Hml; apply orb_false_r).
      assert (Htc : tc_after tc lk = tc) by (unfold tc_after; rewrite Hml; cbn; apply orb_false_r).
      rewrite Htm, Htc in *.
      assert (HI : IR tm tc (fold_left (eval_target ord1 lk rq post) (l_targets lk) (s, []))
                           (fold_left (eval_target ord2 lk rq post) (l_targets lk) (s', []))).
      { apply (targets_single ord1 ord2 rq post Ho1 Ho2 tm tc lk).
        - eapply Forall_impl; [|exact Has]. intros a (H1 & H2 & H3). split; [auto|split; auto].
        - apply Forall_forall. intros t Ht. split; [|rewrite Forall_forall in Hts; auto].
          unfold multi_link in Hml. destruct (multi_target t) eqn:Hmt; [|reflexivity].
          assert (existsb multi_target (l_targets lk) = true) by (apply existsb_exists; eauto). congruence.
        - split; [split; cbn; auto using Permutation_refl|]. cbn. intros H; contradiction H; reflexivity. }
      destruct HI as [HEP Hm]. split; [exact HEP | intros _; exact Hm].
  Qed.
End Link2.

(* ------------------------------------------------------------------------------------- *)
(* chains, rules, phases, transaction                                                    *)
(* ------------------------------------------------------------------------------------- *)

Definition mc (lk : link) : bool := multi_link lk && captures lk.

Definition optperm (a b : option (list entry)) : Prop :=
  match a, b with
  | Some x, Some y => Permutation x y
  | None, None => True
  | _, _ => False
  end.

Lemma ble_refl x : ble x x. Proof. unfold ble; auto. Qed.
Lemma ble_orb_l x y : ble x (x || y). Proof. unfold ble; intros ->; reflexivity. Qed.
Lemma ble_orb_r x y : ble y (x || y). Proof. unfold ble; intros ->; apply orb_true_r. Qed.
Lemma ble_true x : ble x true. Proof. unfold ble; auto. Qed.
Lemma ble_false_l x : ble false x. Proof. unfold ble; discriminate. Qed.
Lemma ble_trans x y z : ble x y -> ble y z -> ble x z. Proof. unfold ble; auto. Qed.
Lemma ble_orb x y x' y' : ble x x' -> ble y y' -> ble (x || y) (x' || y').
Proof. unfold ble. destruct x, y, x', y'; cbn; auto. Qed.

Lemma fire_E a b r s s' m m' : E a b s s' -> Permutation m m' -> E a b (fire r s m) (fire r s' m').
Proof.
  intros (H1 & H2 & H3 & H4 & H5 & H6) HP. unfold fire. E_split; cbn; auto.
  - rewrite H2. reflexivity.
  - rewrite H3. reflexivity.
  - apply Forall2_app; [exact H4|]. constructor; [split; auto | constructor].
Qed.

Section Rules.
  Variables (ord1 ord2 : ord_t) (rq : request) (post : bool).
  Hypothesis Ho1 : perm_oracle ord1.
  Hypothesis Ho2 : perm_oracle ord2.

  (* after a link that matched: the flags the next chain link starts from *)
  Lemma link_next tm tc lk s s' :
    link_ok tm tc lk = true -> E tm tc s s' ->
    snd (eval_link ord1 lk rq post s) <> [] ->
    E (multi_link lk) (tc_after tc lk) (fst (eval_link ord1 lk rq post s)) (fst (eval_link ord2 lk rq post s')).
  Proof.
    intros Hok HE Hne. destruct (link_E ord1 ord2 rq post Ho1 Ho2 tm tc lk s s' Hok HE) as [[HE' _] Hm].
    destruct (multi_link lk) eqn:Hml.
    - eapply E_weaken; [apply ble_true | apply ble_refl | exact HE'].
    - apply Hm; auto.
  Qed.

  Lemma nil_perm (l l' : list entry) : Permutation l l' -> (l = [] <-> l' = []).
  Proof.
    intros HP. split; intros ->.
    - apply Permutation_nil; auto.
    - apply Permutation_nil, Permutation_sym; auto.
  Qed.

  Lemma chain_E ls : forall tmc tc p p',
    chain_ok tmc tc ls = true -> EP tmc tc p p' ->
    E (tmc || existsb multi_link ls) (tc || existsb mc ls)
      (fst (eval_chain ord1 rq post ls p)) (fst (eval_chain ord2 rq post ls p'))
    /\ optperm (snd (eval_chain ord1 rq post ls p)) (snd (eval_chain ord2 rq post ls p')).
  Proof.
    induction ls as [|lk r IH]; intros tmc tc p p' Hok [HE HP].
    - cbn. rewrite !orb_false_r. split; auto.
    - cbn [chain_ok] in Hok. apply andb_true_iff in Hok as [Hlk Hr].
      destruct (link_E ord1 ord2 rq post Ho1 Ho2 tmc tc lk (fst p) (fst p') Hlk HE) as [[HEq HPq] _].
      pose proof (link_next tmc tc lk (fst p) (fst p') Hlk HE) as Hnext.
      pose proof (nil_perm _ _ HPq) as Hnil.
      cbn [eval_chain existsb].
      destruct (snd (eval_link ord1 lk rq post (fst p))) as [|e1 m1] eqn:Hq1;
        destruct (snd (eval_link ord2 lk rq post (fst p'))) as [|e2 m2] eqn:Hq2.
      + cbn. split; [|exact Logic.I].
        eapply E_weaken; [| |exact HEq]; unfold tm_after, tc_after, mc.
        * apply ble_orb; [apply ble_refl | apply ble_orb_l].
        * apply ble_orb; [apply ble_refl | apply ble_orb_l].
      + destruct Hnil as [Hn _]. discriminate (Hn eq_refl).
      + destruct Hnil as [_ Hn]. discriminate (Hn eq_refl).
      + assert (Hne : e1 :: m1 <> []) by discriminate.
        destruct (IH (multi_link lk) (tc_after tc lk) (fst (eval_link ord1 lk rq post (fst p)), snd p ++ e1 :: m1)
                     (fst (eval_link ord2 lk rq post (fst p')), snd p' ++ e2 :: m2) Hr) as [HE2 HP2].
        { split; cbn; [apply Hnext, Hne | apply Permutation_app; auto]. }
        split; [|exact HP2].
        eapply E_weaken; [| |exact HE2]; unfold tc_after, mc.
        * apply ble_orb_r.
        * rewrite <- orb_assoc. apply ble_refl.
  Qed.

  Lemma rule_E tm tc r s s' :
    rule_ok tm tc r = true -> E tm tc s s' ->
    E (rule_tm tm r) (rule_tc tc r) (eval_rule ord1 rq post r s) (eval_rule ord2 rq post r s').
  Proof.
    intros Hok HE. unfold rule_ok in Hok. apply andb_true_iff in Hok as [Hh Hc].
    destruct (link_E ord1 ord2 rq post Ho1 Ho2 tm tc (r_head r) s s' Hh HE) as [[HEq HPq] _].
    pose proof (link_next tm tc (r_head r) s s' Hh HE) as Hnext.
    pose proof (nil_perm _ _ HPq) as Hnil.
    unfold eval_rule, rule_tm, rule_tc, rule_links. cbn [existsb]. fold (mc (r_head r)).
    destruct (snd (eval_link ord1 (r_head r) rq post s)) as [|e1 m1] eqn:Hq1;
      destruct (snd (eval_link ord2 (r_head r) rq post s')) as [|e2 m2] eqn:Hq2.
    - eapply E_weaken; [| |exact HEq]; unfold tm_after, tc_after.
      + apply ble_orb; [apply ble_refl | apply ble_orb_l].
      + apply ble_orb; [apply ble_refl | apply ble_orb_l].
    - destruct Hnil as [Hn _]. discriminate (Hn eq_refl).
    - destruct Hnil as [_ Hn]. discriminate (Hn eq_refl).
    - assert (Hne : e1 :: m1 <> []) by discriminate.
      destruct (chain_E (r_chain r) (multi_link (r_head r)) (tc_after tc (r_head r))
                        (eval_link ord1 (r_head r) rq post s) (eval_link ord2 (r_head r) rq post s') Hc) as [HE2 HP2].
      { split; [apply Hnext, Hne | rewrite Hq1, Hq2; exact HPq]. }
      assert (Hw : forall x y, E (multi_link (r_head r) || existsb multi_link (r_chain r))
                                 (tc_after tc (r_head r) || existsb mc (r_chain r)) x y ->
                               E (tm || (multi_link (r_head r) || existsb multi_link (r_chain r)))
                                 (tc || (mc (r_head r) || existsb mc (r_chain r))) x y).
      { intros x y H. eapply E_weaken; [| |exact H]; unfold tc_after.
        - apply ble_orb_r.
        - fold (mc (r_head r)). rewrite <- orb_assoc. apply ble_refl. }
      destruct (eval_chain ord1 rq post (r_chain r) (eval_link ord1 (r_head r) rq post s)) as [c1 [k1|]];
        destruct (eval_chain ord2 rq post (r_chain r) (eval_link ord2 (r_head r) rq post s')) as [c2 [k2|]];
        cbn in HE2, HP2; try contradiction.
      + apply fire_E; auto.
      + apply Hw, HE2.
  Qed.
End Rules.

Lemma rule_tm_ble tm r : ble tm (rule_tm tm r). Proof. apply ble_orb_l. Qed.
Lemma rule_tc_ble tc r : ble tc (rule_tc tc r). Proof. apply ble_orb_l. Qed.

Lemma rules_ok_mono ph rs : forall tm tc b tm' tc',
  rules_ok ph tm tc rs = (b, (tm', tc')) -> ble tm tm' /\ ble tc tc'.
Proof.
  induction rs as [|r rest IH]; intros tm tc b tm' tc' H; cbn in H.
  - inversion H; subst. split; apply ble_refl.
  - destruct (r_phase r =? ph).
    + destruct (rules_ok ph (rule_tm tm r) (rule_tc tc r) rest) as [b0 [x y]] eqn:Hr.
      inversion H; subst. destruct (IH _ _ _ _ _ Hr) as [H1 H2].
      split; [apply (ble_trans _ _ _ (rule_tm_ble tm r) H1) | apply (ble_trans _ _ _ (rule_tc_ble tc r) H2)].
    + eauto.
Qed.

Section Phases.
  Variables (ord1 ord2 : ord_t) (rq : request).
  Hypothesis Ho1 : perm_oracle ord1.
  Hypothesis Ho2 : perm_oracle ord2.

  Lemma interrupted_E a b s s' : E a b s s' -> interrupted s = interrupted s'.
  Proof. intros (_ & H & _). unfold interrupted. rewrite H. reflexivity. Qed.

  Lemma rules_E post ph rs : forall tm tc s s' tm' tc',
    rules_ok ph tm tc rs = (true, (tm', tc')) -> E tm tc s s' ->
    E tm' tc' (eval_rules ord1 rq post ph rs s) (eval_rules ord2 rq post ph rs s').
  Proof.
    induction rs as [|r rest IH]; intros tm tc s s' tm' tc' H HE; cbn in H |- *.
    - inversion H; subst. exact HE.
    - destruct (r_phase r =? ph).
      + destruct (rules_ok ph (rule_tm tm r) (rule_tc tc r) rest) as [b0 [x y]] eqn:Hr.
        inversion H as [[Hb Hx Hy]]. subst x y. apply andb_true_iff in Hb as [Hrule Hb0]. subst b0.
        rewrite <- (interrupted_E _ _ _ _ HE).
        destruct (interrupted s && negb (ph =? 5)).
        * destruct (rules_ok_mono _ _ _ _ _ _ _ Hr) as [H1 H2].
          eapply E_weaken; [| |exact HE]; [apply (ble_trans _ _ _ (rule_tm_ble tm r) H1) | apply (ble_trans _ _ _ (rule_tc_ble tc r) H2)].
        * eapply IH; [exact Hr|]. apply rule_E; auto.
      + eapply IH; eauto.
  Qed.

  Theorem order_independent cfg :
    order_insensitive cfg = true ->
    obs_equiv (observe (run cfg rq ord1)) (observe (run cfg rq ord2)).
  Proof.
    unfold order_insensitive. intros H.
    destruct (rules_ok 1 false false cfg) as [b1 [tm1 tc1]] eqn:H1.
    destruct (rules_ok 2 tm1 tc1 cfg) as [b2 [tm2 tc2]] eqn:H2.
    destruct (rules_ok 5 tm2 tc2 cfg) as [b5 [tm5 tc5]] eqn:H5.
    destruct (rules_ok 5 tm1 tc1 cfg) as [b5' [tm5' tc5']] eqn:H5'.
    apply andb_true_iff in H as [H Hb5']. apply andb_true_iff in H as [H Hb5]. apply andb_true_iff in H as [Hb1 Hb2].
    subst.
    assert (HE1 : E tm1 tc1 (eval_rules ord1 rq false 1 cfg st_init) (eval_rules ord2 rq false 1 cfg st_init)).
    { eapply rules_E; [exact H1 | apply E_refl]. }
    assert (HF : exists a b, E a b (run cfg rq ord1) (run cfg rq ord2)).
    { unfold run. rewrite <- (interrupted_E _ _ _ _ HE1).
      destruct (interrupted (eval_rules ord1 rq false 1 cfg st_init)).
      - exists tm5', tc5'. eapply rules_E; [exact H5' | exact HE1].
      - exists tm5, tc5. eapply rules_E; [exact H5|]. eapply rules_E; [exact H2 | exact HE1]. }
    destruct HF as (a & b & (G1 & G2 & G3 & G4 & _)).
    unfold obs_equiv, observe; cbn. auto.
  Qed.
End Phases.

(* ------------------------------------------------------------------------------------- *)
(* the outcome is a function of (configuration, request, oracle)                         *)
(* ------------------------------------------------------------------------------------- *)

Section Ext.
  Variables (ord ord' : ord_t).
  Hypothesis Hext : forall n l, ord n l = ord' n l.

  Lemma fold_left_ext {A B} (f g : A -> B -> A) : (forall a b, f a b = g a b) ->
    forall l a, fold_left f l a = fold_left g l a.
  Proof. intros H. induction l as [|x l IH]; intros a; cbn; [reflexivity | rewrite H; apply IH]. Qed.

  Lemma eval_target_ext lk rq post p t : eval_target ord lk rq post p t = eval_target ord' lk rq post p t.
  Proof. unfold eval_target. rewrite Hext. reflexivity. Qed.

  Lemma eval_link_ext lk rq post s : eval_link ord lk rq post s = eval_link ord' lk rq post s.
  Proof. unfold eval_link. apply fold_left_ext. intros; apply eval_target_ext. Qed.

  Lemma eval_chain_ext rq post ls : forall p, eval_chain ord rq post ls p = eval_chain ord' rq post ls p.
  Proof.
    induction ls as [|lk r IH]; intros p; cbn; [reflexivity|].
    rewrite eval_link_ext. destruct (snd _); [reflexivity | apply IH].
  Qed.

  Lemma eval_rule_ext rq post r s : eval_rule ord rq post r s = eval_rule ord' rq post r s.
  Proof. unfold eval_rule. rewrite eval_link_ext. destruct (snd _); [reflexivity|]. rewrite eval_chain_ext. reflexivity. Qed.

  Lemma eval_rules_ext rq post ph rs : forall s, eval_rules ord rq post ph rs s = eval_rules ord' rq post ph rs s.
  Proof.
    induction rs as [|r rest IH]; intros s; cbn; [reflexivity|].
    destruct (r_phase r =? ph); [|apply IH]. destruct (_ && _); [reflexivity|]. rewrite eval_rule_ext. apply IH.
  Qed.

  Lemma run_ext cfg rq : run cfg rq ord = run cfg rq ord'.
  Proof. unfold run. rewrite !eval_rules_ext. reflexivity. Qed.
End Ext.

Theorem deterministic_given_order : forall cfg cfg' rq rq' (ord ord' : ord_t),
  cfg = cfg' -> rq = rq' -> (forall n l, ord n l = ord' n l) ->
  run cfg rq ord = run cfg' rq' ord'.
Proof. intros cfg cfg' rq rq' ord ord' -> -> H. apply run_ext, H. Qed.

(* the oracles used by the correspondence run are permutation oracles *)
Lemma ord_id_perm : perm_oracle ord_id.
Proof. intros n l. apply Permutation_refl. Qed.

Lemma ord_rev_perm : perm_oracle ord_rev.
Proof. intros n l. apply Permutation_sym, Permutation_rev. Qed.

Lemma ord_mask_perm m : perm_oracle (ord_mask m).
Proof. intros n l. unfold ord_mask. destruct (N.testbit _ _); [apply Permutation_sym, Permutation_rev | apply Permutation_refl]. Qed.

(* ------------------------------------------------------------------------------------- *)
(* the full statement is false: witnesses (known finding F26)                            *)
(* ------------------------------------------------------------------------------------- *)

Definition tgt (v : var) : target := mkT v None [] false None.
Definition req_ab : request := mkReq [(str "a"%string, str "x"%string); (str "b"%string, str "y"%string)] [] [] (str "GET"%string) (str "a=x&b=y"%string).

(* SecRule ARGS "@rx ." "id:1,phase:1,pass,chain"   SecRule MATCHED_VAR "@streq x" *)
Definition cfg_f26_chain : list rule :=
  [mkR 1 1 (mkL [tgt VArgs] [] ORxDot false false [])
       [mkL [tgt VMatchedVar] [] (OStreq (str "x"%string)) false false []] None None].

(* SecRule ARGS "@rx ." "id:1,phase:1,pass,setvar:tx.last=%{MATCHED_VAR}" *)
Definition cfg_f26_setvar : list rule :=
  [mkR 1 1 (mkL [tgt VArgs] [] ORxDot false false [ASetvar (str "last"%string) [MMatchedVar]]) [] None None].

(* SecRule ARGS "@rx ." "id:1,phase:1,pass,capture"   SecRule TX:0 "@streq x" "id:2,phase:2,deny,status:403" *)
Definition cfg_f26_capture : list rule :=
  [mkR 1 1 (mkL [tgt VArgs] [] ORxDot false true []) [] None None;
   mkR 2 2 (mkL [mkT VTx (Some (str "0"%string)) [] false None] [] (OStreq (str "x"%string)) false false []) [] (Some 403) None].

Lemma obs_equiv_fired_length a b : obs_equiv a b -> List.length (o_fired a) = List.length (o_fired b).
Proof. intros (_ & H & _). induction H; cbn; congruence. Qed.

Theorem order_dependent_refuted :
  exists cfg rq ord1 ord2, perm_oracle ord1 /\ perm_oracle ord2 /\
    ~ obs_equiv (observe (run cfg rq ord1)) (observe (run cfg rq ord2)).
Proof.
  exists cfg_f26_chain, req_ab, ord_id, ord_rev.
  split; [apply ord_id_perm|]. split; [apply ord_rev_perm|].
  intros H. apply obs_equiv_fired_length in H. vm_compute in H. discriminate H.
Qed.

(* the same with the counters: a value copied from MATCHED_VAR *)
Theorem order_dependent_counter_refuted :
  exists cfg rq ord1 ord2, perm_oracle ord1 /\ perm_oracle ord2 /\
    o_tx (observe (run cfg rq ord1)) <> o_tx (observe (run cfg rq ord2)).
Proof.
  exists cfg_f26_setvar, req_ab, ord_id, ord_rev.
  split; [apply ord_id_perm|]. split; [apply ord_rev_perm|].
  vm_compute. discriminate.
Qed.

(* and with the interruption: a later rule reading the capture of a multi-valued rule *)
Theorem order_dependent_interruption_refuted :
  exists cfg rq ord1 ord2, perm_oracle ord1 /\ perm_oracle ord2 /\
    o_intr (observe (run cfg rq ord1)) <> o_intr (observe (run cfg rq ord2)).
Proof.
  exists cfg_f26_capture, req_ab, ord_rev, ord_id.
  split; [apply ord_rev_perm|]. split; [apply ord_id_perm|].
  vm_compute. discriminate.
Qed.

(* the guard rejects the three witnesses *)
Example guard_rejects_witnesses :
  order_insensitive cfg_f26_chain = false /\ order_insensitive cfg_f26_setvar = false
  /\ order_insensitive cfg_f26_capture = false.
Proof. vm_compute. auto. Qed.

(* ------------------------------------------------------------------------------------- *)
(* non-vacuity: an anomaly-scoring configuration satisfies the guard                     *)
(* ------------------------------------------------------------------------------------- *)

(* SecRule REQUEST_METHOD "@unconditionalMatch" "id:900,phase:1,pass,setvar:tx.crit=5,setvar:tx.score=0"
   SecRule ARGS "@rx attack" "id:910,phase:2,pass,t:lowercase,capture,severity:2,
                              setvar:tx.score=+%{tx.crit},setvar:tx.hits=+1"
   SecRule ARGS_NAMES|REQUEST_HEADERS "@contains select" "id:920,phase:2,pass,t:lowercase,t:trim,
                              setvar:tx.score=+%{tx.crit},chain"
     SecRule REQUEST_METHOD "@streq POST" "setvar:tx.hits=+1,chain"
     SecRule MATCHED_VAR "@beginsWith PO" "setvar:tx.method=%{MATCHED_VAR}"
   SecRule &ARGS:a "@ge 3" "id:930,phase:2,pass,setvar:tx.score=+2"
   SecRule TX:score "@ge 10" "id:949,phase:2,deny,status:403,severity:2"
   SecRule TX:hits "@ge 1" "id:980,phase:5,pass,setvar:tx.logged=1" *)
Definition cfg_anomaly : list rule :=
  [mkR 900 1 (mkL [tgt VReqMethod] [] OAny false false
               [ASetvar (str "crit"%string) [MLit (str "5"%string)]; ASetvar (str "score"%string) [MLit (str "0"%string)]]) [] None None;
   mkR 910 2 (mkL [tgt VArgs] [TLowercase] (ORxLit (str "attack"%string)) false true
               [ASetvar (str "score"%string) [MLit (str "+"%string); MTx (str "crit"%string)];
                ASetvar (str "hits"%string) [MLit (str "+1"%string)]]) [] None (Some 2);
   mkR 920 2 (mkL [tgt VArgsNames; tgt VReqHeaders] [TLowercase; TTrim] (OContains (str "select"%string)) false false
               [ASetvar (str "score"%string) [MLit (str "+"%string); MTx (str "crit"%string)]])
             [mkL [tgt VReqMethod] [] (OStreq (str "POST"%string)) false false [ASetvar (str "hits"%string) [MLit (str "+1"%string)]];
              mkL [tgt VMatchedVar] [] (OBeginsWith (str "PO"%string)) false false [ASetvar (str "method"%string) [MMatchedVar]]]
             None None;
   mkR 930 2 (mkL [mkT VArgs (Some (str "a"%string)) [] true None] [] (OGe 3) false false
               [ASetvar (str "score"%string) [MLit (str "+2"%string)]]) [] None None;
   mkR 949 2 (mkL [mkT VTx (Some (str "score"%string)) [] false None] [] (OGe 10) false false []) [] (Some 403) (Some 2);
   mkR 980 5 (mkL [mkT VTx (Some (str "hits"%string)) [] false None] [] (OGe 1) false false
               [ASetvar (str "logged"%string) [MLit (str "1"%string)]]) [] None None].

Example anomaly_scoring_is_order_insensitive : order_insensitive cfg_anomaly = true.
Proof. vm_compute. reflexivity. Qed.

(* and it is not trivial: on this request rules 910, 920 (whole chain), 930 fire with several matched
   entries each, the threshold rule interrupts, the logging rule runs *)
Definition req_anomaly : request :=
  mkReq [(str "a"%string, str "ATTACK one"%string); (str "a"%string, str "x"%string); (str "Select"%string, str "1"%string)]
        [(str "A"%string, str "an Attack"%string); (str "b"%string, str "attack"%string)]
        [(str "X-Q"%string, str " SELECT 1 "%string); (str "Content-Type"%string, str "application/x-www-form-urlencoded"%string)]
        (str "POST"%string) (str "a=ATTACK+one&a=x&Select=1"%string).

Example anomaly_run :
  let o := observe (run cfg_anomaly req_anomaly ord_rev) in
  o_intr o = Some (949%nat, 403)
  /\ map (fun f => (fst f, List.length (snd f))) (o_fired o) = [(900, 1); (910, 3); (920, 4); (930, 1); (949, 1); (980, 1)]%nat
  /\ map (fun kv => (fst kv, render (snd kv))) (o_tx o)
     = [(str "10"%string, []); (str "crit"%string, str "5"%string); (str "score"%string, str "27"%string);
        (str "hits"%string, str "4"%string); (str "method"%string, str "POST"%string); (str "logged"%string, str "1"%string)]
  /\ o_hs o = 2.
Proof. vm_compute. auto. Qed.

(* ------------------------------------------------------------------------------------- *)
(* derived views (ARGS_COMBINED_SIZE, counts, *_NAMES): functions of the request only    *)
(* ------------------------------------------------------------------------------------- *)

(* variables whose content comes from the request (everything except TX, MATCHED_VAR, MATCHED_VAR_NAME) *)
Definition request_var (v : var) : bool :=
  match v with VTx | VMatchedVar | VMatchedVarName => false | _ => true end.

Lemma coll_all_stateless v rq post s s' : request_var v = true -> coll_all v rq post s = coll_all v rq post s'.
Proof. destruct v; cbn; intros H; try reflexivity; discriminate. Qed.

(* whatever the transaction state is - whatever happened earlier in this transaction, and (the
   state being the only carrier) in any earlier one - a target over a request variable selects the
   same entries: all / by key / by regex key / with exclusions / as a count *)
Lemma select_stateless t rq post s s' : request_var (t_var t) = true -> select t rq post s = select t rq post s'.
Proof.
  intros H. unfold select.
  assert (Hf : find t rq post s = find t rq post s'); [|rewrite Hf; reflexivity].
  unfold find. rewrite (coll_all_stateless _ rq post s s' H).
  destruct (t_rx t); [reflexivity|]. destruct (t_key t); [|reflexivity].
  destruct (is_single_var (t_var t)); [reflexivity|].
  destruct (t_var t); try reflexivity; discriminate.
Qed.

Lemma combined_size_spec rq post s :
  select (mkT VArgsCombinedSize None [] false None) rq post s
  = [mkE VArgsCombinedSize [] (itoa (N.of_nat (kv_size (q_get rq ++ if post then q_post rq else []))))].
Proof. reflexivity. Qed.

Lemma kv_size_perm l l' : Permutation l l' -> kv_size l = kv_size l'.
Proof. unfold kv_size. induction 1; cbn in *; lia. Qed.

(* the size is NOT a function of the number of names: a memo validated by the key count is unsound *)
Lemma size_not_function_of_name_count :
  exists l l', List.length l = List.length l' /\ map fst l = map fst l' /\ kv_size l <> kv_size l'.
Proof.
  exists [(str "q"%string, str "1"%string)], [(str "q"%string, str "1234567890"%string)].
  repeat split. vm_compute. discriminate.
Qed.
