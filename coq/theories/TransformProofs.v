(* TransformProofs.v — proofs about the models of Transform.v (C14). *)
From Verif Require Import Base Utf8 Transform.
Open Scope N_scope.

(* ------------------------------------------------------------------ *)
(* generic list lemmas                                                  *)
(* ------------------------------------------------------------------ *)
Lemma filter_length_le {A} (f : A -> bool) l : (length (filter f l) <= length l)%nat.
Proof. induction l as [|x l IH]; cbn; [lia|]. destruct (f x); cbn; lia. Qed.

Lemma filter_length_eq {A} (f : A -> bool) l : length (filter f l) = length l -> filter f l = l.
Proof.
  induction l as [|x l IH]; cbn; [reflexivity|]. destruct (f x); cbn; intro H.
  - f_equal. apply IH. lia.
  - pose proof (filter_length_le f l). lia.
Qed.

Lemma filter_idem {A} (f : A -> bool) l : filter f (filter f l) = filter f l.
Proof.
  induction l as [|x l IH]; cbn; [reflexivity|]. destruct (f x) eqn:E; cbn; [rewrite E; f_equal|]; exact IH.
Qed.

Lemma drop_while_length_le f s : (length (drop_while f s) <= length s)%nat.
Proof. induction s as [|b s IH]; cbn; [lia|]. destruct (f b); cbn; lia. Qed.

Lemma drop_while_length_eq f s : length (drop_while f s) = length s -> drop_while f s = s.
Proof.
  destruct s as [|b s]; cbn; [reflexivity|]. destruct (f b); [|reflexivity].
  intro H. pose proof (drop_while_length_le f s). lia.
Qed.

Lemma drop_while_idem f s : drop_while f (drop_while f s) = drop_while f s.
Proof.
  induction s as [|b s IH]; cbn; [reflexivity|]. destruct (f b) eqn:E; [exact IH|]. cbn. rewrite E. reflexivity.
Qed.

Lemma drop_while_head f s b r : drop_while f s = b :: r -> f b = false.
Proof.
  induction s as [|c s IH]; cbn; [discriminate|]. destruct (f c) eqn:E; [exact IH|].
  intro H; inversion H; subst; exact E.
Qed.

(* ------------------------------------------------------------------ *)
(* change-flag soundness, one lemma per transformation                  *)
(* ------------------------------------------------------------------ *)
Definition flag_sound (f : bytes -> tres) : Prop :=
  forall s, t_err (f s) = false -> t_out (f s) <> s -> t_changed (f s) = true.

Lemma fs_none : flag_sound t_none.
Proof. intros s _ H. cbn in H. congruence. Qed.

Lemma fs_const_true f : (forall s, t_err (f s) = false -> t_changed (f s) = true) -> flag_sound f.
Proof. intros H s He _. apply H; exact He. Qed.

Lemma fs_length : flag_sound t_length.  Proof. apply fs_const_true; reflexivity. Qed.
Lemma fs_hex_encode : flag_sound t_hex_encode.  Proof. apply fs_const_true; reflexivity. Qed.
Lemma fs_base64_encode : flag_sound t_base64_encode.  Proof. apply fs_const_true; reflexivity. Qed.
Lemma fs_base64_decode : flag_sound t_base64_decode.  Proof. apply fs_const_true; reflexivity. Qed.
Lemma fs_base64_decode_ext : flag_sound t_base64_decode_ext.  Proof. apply fs_const_true; reflexivity. Qed.
Lemma fs_hex_decode : flag_sound t_hex_decode.
Proof. apply fs_const_true. intro s. unfold t_hex_decode. destruct (hex_decode_b s); cbn; congruence. Qed.

Lemma fs_by_compare (g : bytes -> bytes) f :
  (forall s, f s = ok_res (g s) (negb (bytes_eqb s (g s)))) -> flag_sound f.
Proof.
  intros H s _ Hne. rewrite H in *. cbn in *. apply negb_true_iff. apply bytes_eqb_neq. congruence.
Qed.

Lemma fs_lowercase : flag_sound t_lowercase.
Proof. apply (fs_by_compare (map ascii_lower)). reflexivity. Qed.
Lemma fs_uppercase : flag_sound t_uppercase.
Proof. apply (fs_by_compare (map ascii_upper)). reflexivity. Qed.
Lemma fs_replace_nulls : flag_sound t_replace_nulls.
Proof. apply (fs_by_compare (map (fun b => if b =? 0 then 32 else b))). reflexivity. Qed.

Lemma fs_remove_whitespace : flag_sound t_remove_whitespace.
Proof.
  intros s _ Hne. cbn in *. apply negb_true_iff. apply bytes_eqb_neq. exact Hne.
Qed.

Lemma len_changed_false s o : len_changed s o = false -> length s = length o.
Proof. unfold len_changed. intro H. apply negb_false_iff in H. apply Nat.eqb_eq in H. exact H. Qed.

Lemma fs_by_len (g : bytes -> bytes) f :
  (forall s, f s = ok_res (g s) (len_changed s (g s))) ->
  (forall s, length s = length (g s) -> g s = s) -> flag_sound f.
Proof.
  intros H Hg s _ Hne. rewrite H in *. cbn in *.
  destruct (len_changed s (g s)) eqn:E; [reflexivity|]. apply len_changed_false in E.
  exfalso; apply Hne; apply Hg; exact E.
Qed.

Lemma fs_remove_nulls : flag_sound t_remove_nulls.
Proof.
  apply (fs_by_len (filter (fun b => negb (b =? 0)))); [reflexivity|].
  intros s H. apply filter_length_eq. symmetry; exact H.
Qed.

Lemma trim_left_len_eq s : length s = length (trim_left_b s) -> trim_left_b s = s.
Proof. intro H. apply drop_while_length_eq. symmetry; exact H. Qed.

Lemma trim_right_len_le s : (length (trim_right_b s) <= length s)%nat.
Proof. unfold trim_right_b. rewrite rev_length. pose proof (drop_while_length_le is_trim_space (rev s)) as H. rewrite rev_length in H. exact H. Qed.

Lemma trim_right_len_eq s : length s = length (trim_right_b s) -> trim_right_b s = s.
Proof.
  unfold trim_right_b. rewrite rev_length. intro H.
  rewrite drop_while_length_eq; [apply rev_involutive|]. rewrite rev_length. congruence.
Qed.

Lemma fs_trim_left : flag_sound t_trim_left.
Proof. apply (fs_by_len trim_left_b); [reflexivity | exact trim_left_len_eq]. Qed.
Lemma fs_trim_right : flag_sound t_trim_right.
Proof. apply (fs_by_len trim_right_b); [reflexivity | exact trim_right_len_eq]. Qed.
Lemma fs_trim : flag_sound t_trim.
Proof.
  apply (fs_by_len (fun s => trim_right_b (trim_left_b s))); [reflexivity|].
  intros s H.
  pose proof (trim_right_len_le (trim_left_b s)) as H1.
  pose proof (drop_while_length_le is_trim_space s) as H2. fold (trim_left_b s) in H2.
  assert (E1 : trim_left_b s = s) by (apply trim_left_len_eq; lia).
  rewrite E1 in *. apply trim_right_len_eq. exact H.
Qed.

Lemma fs_url_decode : flag_sound t_url_decode.
Proof.
  intros s _ Hne. unfold t_url_decode in *. destruct (has_pct_or_plus s); cbn in *; congruence.
Qed.

Lemma url_encode_unchanged s o : url_encode_b s = (o, false) -> o = s.
Proof.
  revert o; induction s as [|c s IH]; cbn; intros o H; [inversion H; reflexivity|].
  destruct (url_encode_b s) as [o' ch]. destruct (c =? 32); [discriminate|].
  destruct (url_safe c); [|discriminate]. inversion H; subst. f_equal. apply IH. reflexivity.
Qed.

Lemma fs_url_encode : flag_sound t_url_encode.
Proof.
  intros s _ Hne. unfold t_url_encode in *. destruct (url_encode_b s) as [o ch] eqn:E. cbn in *.
  destruct ch; [reflexivity|]. exfalso; apply Hne. eapply url_encode_unchanged; exact E.
Qed.

Lemma fs_utf8_to_unicode : flag_sound t_utf8_to_unicode.
Proof.
  intros s _ Hne. unfold t_utf8_to_unicode in *. destruct (is_ascii s); cbn in *; congruence.
Qed.

(* ---- cmdLine ---- *)
Lemma cmd_loop_changed_mono s : forall ret sp, snd (cmd_loop s ret sp true) = true.
Proof.
  induction s as [|a s IH]; intros ret sp; cbn [cmd_loop]; [reflexivity|].
  repeat match goal with |- context [if ?c then _ else _] => destruct c end; try apply IH.
Qed.

Lemma cmd_loop_unchanged s : forall ret sp ret',
  (sp = true -> exists r0, ret = 32 :: r0) ->
  cmd_loop s ret sp false = (ret', false) -> ret' = rev s ++ ret.
Proof.
  induction s as [|a s IH]; intros ret sp ret' Hsp H; cbn [cmd_loop] in H.
  - inversion H; reflexivity.
  - cbn [rev]. rewrite <- app_assoc. cbn [app].
    destruct ((a =? 34) || (a =? 39) || (a =? 92) || (a =? 94)) eqn:E1.
    { pose proof (cmd_loop_changed_mono s ret sp) as M. rewrite H in M. discriminate. }
    destruct ((a =? 32) || (a =? 44) || (a =? 59) || (a =? 9) || (a =? 13) || (a =? 10)) eqn:E2.
    { destruct sp.
      - pose proof (cmd_loop_changed_mono s ret true) as M. rewrite H in M. discriminate.
      - cbn [orb] in H. destruct (a =? 32) eqn:E3; cbn [negb] in H.
        + apply N.eqb_eq in E3; subst a. eapply IH in H; [exact H|]. intros _. eexists; reflexivity.
        + pose proof (cmd_loop_changed_mono s (32 :: ret) true) as M. rewrite H in M. discriminate. }
    destruct ((a =? 47) || (a =? 40)) eqn:E3.
    { destruct sp.
      - pose proof (cmd_loop_changed_mono s (a :: tl ret) false) as M. rewrite H in M. discriminate.
      - eapply IH in H; [exact H|]. discriminate. }
    destruct (in_rng 65 90 a) eqn:E4.
    { pose proof (cmd_loop_changed_mono s (a + 32 :: ret) false) as M. rewrite H in M. discriminate. }
    eapply IH in H; [exact H|]. discriminate.
Qed.

Lemma split_at_first_app f s p q : split_at_first f s = Some (p, q) -> s = p ++ q.
Proof.
  revert p q; induction s as [|c s IH]; cbn; intros p q H; [discriminate|].
  destruct (f c); [inversion H; reflexivity|].
  destruct (split_at_first f s) as [[p' q']|]; [|discriminate]. inversion H; subst. cbn. f_equal. apply IH. reflexivity.
Qed.

Lemma fs_cmd_line : flag_sound t_cmd_line.
Proof.
  intros s _ Hne. unfold t_cmd_line in *. destruct (split_at_first cmd_needs s) as [[p q]|] eqn:E; cbn in *; [|congruence].
  destruct (cmd_loop q (rev p) false false) as [ret ch] eqn:E2. cbn in *. destruct ch; [reflexivity|].
  exfalso; apply Hne. apply cmd_loop_unchanged in E2; [|discriminate]. subst ret.
  rewrite rev_app_distr, !rev_involutive. symmetry. eapply split_at_first_app; exact E.
Qed.

(* ---- identities ---- *)
Lemma from_hex_digit n : n < 16 -> from_hex_char (hex_digit n) = Some n.
Proof.
  intro H. assert (Hc : forallb (fun k => match from_hex_char (hex_digit k) with Some m => m =? k | None => false end)
                         (map N.of_nat (seq 0 16)) = true) by (vm_compute; reflexivity).
  rewrite forallb_forall in Hc. specialize (Hc n).
  assert (Hin : In n (map N.of_nat (seq 0 16))).
  { apply in_map_iff. exists (N.to_nat n). split; [lia|]. apply in_seq. lia. }
  specialize (Hc Hin). destruct (from_hex_char (hex_digit n)); [|discriminate]. apply N.eqb_eq in Hc. congruence.
Qed.

Theorem hex_decode_encode s : wf_bytes s -> hex_decode_b (hex_encode_b s) = Some s.
Proof.
  induction 1 as [|b s Hb Hs IH]; cbn [hex_encode_b hex_decode_b]; [reflexivity|].
  unfold wf_byte in Hb.
  rewrite !from_hex_digit, IH.
  - f_equal. f_equal. pose proof (N.div_mod b 16). lia.
  - apply N.mod_lt. lia.
  - apply N.div_lt_upper_bound; lia.
Qed.

Theorem t_hex_roundtrip s : wf_bytes s -> t_out (t_hex_decode (t_out (t_hex_encode s))) = s.
Proof. intro H. unfold t_hex_decode, t_hex_encode. cbn [t_out ok_res]. rewrite hex_decode_encode by exact H. reflexivity. Qed.

Lemma x2c_hex_digits c : c < 256 -> valid_hex (hex_digit (c / 16)) = true /\ valid_hex (hex_digit (c mod 16)) = true
                                    /\ x2c (hex_digit (c / 16)) (hex_digit (c mod 16)) = c.
Proof.
  intro H.
  assert (Hc : forallb (fun k => valid_hex (hex_digit (k / 16)) && valid_hex (hex_digit (k mod 16))
                                 && (x2c (hex_digit (k / 16)) (hex_digit (k mod 16)) =? k))
                       (map N.of_nat (seq 0 256)) = true) by (vm_compute; reflexivity).
  rewrite forallb_forall in Hc. specialize (Hc c).
  assert (Hin : In c (map N.of_nat (seq 0 256))).
  { apply in_map_iff. exists (N.to_nat c). split; [lia|]. apply in_seq. lia. }
  specialize (Hc Hin). apply andb_true_iff in Hc as [Hc H3]. apply andb_true_iff in Hc as [H1 H2].
  apply N.eqb_eq in H3. auto.
Qed.

Theorem url_decode_encode s : wf_bytes s -> url_decode_b (fst (url_encode_b s)) = s.
Proof.
  induction 1 as [|c s Hc Hs IH]; [reflexivity|].
  cbn [url_encode_b]. destruct (url_encode_b s) as [o ch]. cbn [fst] in IH.
  destruct (c =? 32) eqn:E1.
  - apply N.eqb_eq in E1; subst c. cbn. rewrite IH. reflexivity.
  - destruct (url_safe c) eqn:E2.
    + cbn [fst url_decode_b].
      assert (c =? 37 = false /\ c =? 43 = false) as [E3 E4].
      { unfold url_safe, in_rng in E2. split; apply N.eqb_neq; intro; subst c; vm_compute in E2; discriminate. }
      rewrite E3, E4, IH. reflexivity.
    + cbn [fst url_decode_b]. change (37 =? 37) with true. cbv iota.
      destruct (x2c_hex_digits c Hc) as (V1 & V2 & V3). rewrite V1, V2. cbn [andb]. rewrite V3, IH. reflexivity.
Qed.

Lemma url_encode_no_meta s : has_pct_or_plus (fst (url_encode_b s)) = false -> fst (url_encode_b s) = s.
Proof.
  induction s as [|c s IH]; [reflexivity|].
  cbn [url_encode_b]. destruct (url_encode_b s) as [o ch]. cbn [fst] in *.
  destruct (c =? 32); [cbn; discriminate|]. destruct (url_safe c); [|cbn; discriminate].
  cbn [fst has_pct_or_plus existsb]. intro H. apply orb_false_iff in H as [_ H]. f_equal. apply IH. exact H.
Qed.

Theorem t_url_roundtrip s : wf_bytes s -> t_out (t_url_decode (t_out (t_url_encode s))) = s.
Proof.
  intro H. unfold t_url_encode. pose proof (url_decode_encode s H) as R. pose proof (url_encode_no_meta s) as Q.
  destruct (url_encode_b s) as [o ch]. cbn [fst t_out ok_res] in *. unfold t_url_decode.
  destruct (has_pct_or_plus o); cbn [t_out ok_res]; auto.
Qed.

(* ---- idempotence ---- *)
Theorem trim_left_idem s : trim_left_b (trim_left_b s) = trim_left_b s.
Proof. apply drop_while_idem. Qed.

Theorem trim_right_idem s : trim_right_b (trim_right_b s) = trim_right_b s.
Proof. unfold trim_right_b. rewrite rev_involutive, drop_while_idem. reflexivity. Qed.

Theorem remove_nulls_idem s : t_out (t_remove_nulls (t_out (t_remove_nulls s))) = t_out (t_remove_nulls s).
Proof. cbn. apply filter_idem. Qed.

(* trim = trimRight after trimLeft; a right-trim of a string that does not start with a space
   still does not start with a space *)
Lemma drop_while_nospace_head f s : (forall b r, s = b :: r -> f b = false) -> drop_while f s = s.
Proof. destruct s as [|b r]; cbn; [reflexivity|]. intro H. rewrite (H b r eq_refl). reflexivity. Qed.

Lemma rev_drop_while_rev_prefix f s : exists t, s = rev (drop_while f (rev s)) ++ t.
Proof.
  assert (G : forall u, exists t, u = t ++ drop_while f u).
  { induction u as [|b u IH]; cbn; [exists []; reflexivity|]. destruct (f b); [|exists []; reflexivity].
    destruct IH as [t Ht]. exists (b :: t). cbn. f_equal. exact Ht. }
  destruct (G (rev s)) as [t Ht]. exists (rev t).
  rewrite <- rev_app_distr, <- Ht, rev_involutive. reflexivity.
Qed.

Theorem trim_idem s : t_out (t_trim (t_out (t_trim s))) = t_out (t_trim s).
Proof.
  cbn [t_trim t_out ok_res].
  set (u := trim_left_b s).
  assert (Hu : forall b r, u = b :: r -> is_trim_space b = false) by (intros b r; apply drop_while_head).
  assert (Hl : trim_left_b (trim_right_b u) = trim_right_b u).
  { apply drop_while_nospace_head. intros b r Hbr. destruct (rev_drop_while_rev_prefix is_trim_space u) as [t Ht].
    fold (trim_right_b u) in Ht. rewrite Hbr in Ht. cbn in Ht. eapply Hu. exact Ht. }
  rewrite Hl. apply trim_right_idem.
Qed.

(* ---- multiMatch sees every intermediate value ---- *)
(* the true chain of values: v0 = s, v(i+1) = t_i(v_i) (a failing step leaves the value) *)
Fixpoint chain_values (ts : list tid) (s : bytes) : list bytes :=
  match ts with
  | [] => []
  | t :: r => let x := apply_t t s in
              let v := if t_err x then s else t_out x in v :: chain_values r v
  end.

Definition all_flags_sound : Prop := forall t, flag_sound (apply_t t).

Lemma multi_covers_chain (FS : all_flags_sound) ts : forall s seen,
  In s seen ->
  forall v, In v (chain_values ts s) -> In v (seen ++ exec_tfs_multi ts s).
Proof.
  induction ts as [|t ts IH]; intros s seen Hs v Hv; [contradiction|].
  cbn [chain_values exec_tfs_multi] in *.
  destruct (t_err (apply_t t s)) eqn:Ee.
  - destruct Hv as [<-|Hv]; [apply in_or_app; left; exact Hs|]. apply IH; assumption.
  - destruct (t_changed (apply_t t s)) eqn:Ec.
    + replace (seen ++ t_out (apply_t t s) :: exec_tfs_multi ts (t_out (apply_t t s)))
        with ((seen ++ [t_out (apply_t t s)]) ++ exec_tfs_multi ts (t_out (apply_t t s)))
        by (rewrite <- app_assoc; reflexivity).
      destruct Hv as [<-|Hv].
      * apply in_or_app; left. apply in_or_app; right. left; reflexivity.
      * apply IH; [apply in_or_app; right; left; reflexivity | exact Hv].
    + assert (E : t_out (apply_t t s) = s).
      { destruct (bytes_eqb (t_out (apply_t t s)) s) eqn:B; [apply bytes_eqb_eq; exact B|].
        apply bytes_eqb_neq in B. pose proof (FS t s Ee B). congruence. }
      rewrite E in *. destruct Hv as [<-|Hv]; [apply in_or_app; left; exact Hs|]. apply IH; assumption.
Qed.

Theorem multimatch_sees_all (FS : all_flags_sound) ts s v :
  v = s \/ In v (chain_values ts s) -> In v (multimatch_values ts s).
Proof.
  unfold multimatch_values. intros [->|H]; [left; reflexivity|].
  change (s :: exec_tfs_multi ts s) with ([s] ++ exec_tfs_multi ts s).
  apply multi_covers_chain; [exact FS | left; reflexivity | exact H].
Qed.

(* the final value of the chain is what executeTransformations returns *)
Lemma last_cons_any {A} (l : list A) : forall v d, last (v :: l) d = last l v.
Proof.
  induction l as [|x l IH]; intros v d; [reflexivity|].
  change (last (v :: x :: l) d) with (last (x :: l) d). rewrite IH. symmetry. apply IH.
Qed.

Lemma chain_last ts : forall s, last (chain_values ts s) s = fst (exec_tfs ts s).
Proof.
  induction ts as [|t ts IH]; intro s; [reflexivity|].
  cbn [chain_values exec_tfs]. rewrite last_cons_any. destruct (t_err (apply_t t s)).
  - rewrite IH. destruct (exec_tfs ts s); reflexivity.
  - apply IH.
Qed.

(* ------------------------------------------------------------------ *)
(* scanners with an internal changed flag                               *)
(* ------------------------------------------------------------------ *)
Lemma rcc_unchanged fuel : forall s o, rcc_loop fuel s = (o, false) -> (length s < fuel)%nat -> o = s.
Proof.
  induction fuel as [|f IH]; intros s o H L; [lia|].
  cbn [rcc_loop] in H. destruct s as [|c r]; [inversion H; reflexivity|].
  destruct (is_prefix [47; 42] (c :: r) || is_prefix [42; 47] (c :: r)); [discriminate|].
  destruct (is_prefix [60; 33; 45; 45] (c :: r)); [discriminate|].
  destruct (is_prefix [45; 45; 62] (c :: r)); [discriminate|].
  destruct (is_prefix [45; 45] (c :: r)); [discriminate|].
  destruct (c =? 35); [discriminate|].
  destruct (rcc_loop f r) as [o' ch] eqn:E. inversion H; subst. f_equal. eapply IH; [exact E|cbn in L; lia].
Qed.

Lemma fs_remove_comments_char : flag_sound t_remove_comments_char.
Proof.
  intros s _ Hne. unfold t_remove_comments_char in *. destruct (rcc_loop (S (length s)) s) as [o ch] eqn:E.
  cbn [t_out t_changed t_err ok_res] in *. destruct ch; [reflexivity|]. exfalso; apply Hne. eapply rcc_unchanged; [exact E|lia].
Qed.

Lemma rpc_unchanged fuel : forall s o, rpc_loop fuel s false = (o, false) -> (length s < fuel)%nat -> o = s.
Proof.
  induction fuel as [|f IH]; intros s o H L; [lia|].
  cbn [rpc_loop] in H. destruct s as [|c r]; [inversion H; reflexivity|].
  destruct (is_prefix [47; 42] (c :: r)); [discriminate|].
  destruct (rpc_loop f r false) as [o' ch] eqn:E. inversion H; subst. f_equal. eapply IH; [exact E|cbn in L; lia].
Qed.

Lemma fs_replace_comments : flag_sound t_replace_comments.
Proof.
  intros s _ Hne. unfold t_replace_comments in *. destruct (rpc_loop (S (length s)) s false) as [o ch] eqn:E.
  cbn [t_out t_changed t_err ok_res] in *. destruct ch; [reflexivity|]. exfalso; apply Hne. eapply rpc_unchanged; [exact E|lia].
Qed.

Lemma esd_unchanged fuel : forall s o, esd_loop fuel s = (o, false) -> (length s < fuel)%nat -> o = s.
Proof.
  induction fuel as [|f IH]; intros s o H L; [lia|].
  cbn [esd_loop] in H. destruct s as [|c r]; [inversion H; reflexivity|].
  destruct r as [|c1 r1]; [inversion H; reflexivity|].
  destruct (c =? 92).
  - destruct (esd_step c1 r1); discriminate.
  - destruct (esd_loop f (c1 :: r1)) as [o' ch] eqn:E. inversion H; subst. f_equal.
    eapply IH; [exact E|cbn in *; lia].
Qed.

Lemma fs_escape_seq_decode : flag_sound t_escape_seq_decode.
Proof.
  intros s _ Hne. unfold t_escape_seq_decode in *. destruct (has_backslash s); [|cbn [t_out t_changed t_err ok_res] in *; congruence].
  destruct (esd_loop (S (length s)) s) as [o ch] eqn:E.
  cbn [t_out t_changed t_err ok_res] in *. destruct ch; [reflexivity|]. exfalso; apply Hne. eapply esd_unchanged; [exact E|lia].
Qed.

(* compressWhitespace: a rune equal to ' ' is the single byte 0x20 *)
From Coq Require Import ZifyN ZifyBool ZifyNat.
Ltac Zify.zify_post_hook ::= Z.div_mod_to_equations.

Lemma decode_rune_space s r size : decode_rune s = (r, size) -> r = 32 ->
  exists t, s = 32 :: t /\ size = 1%nat.
Proof.
  unfold decode_rune, in_rng, rune_error. destruct s as [|b0 t]; [intros H; inversion H; subst; discriminate|].
  destruct (b0 <? 128) eqn:E0.
  { intros H Hr. inversion H; subst. exists t; split; reflexivity. }
  intros H Hr. exfalso. subst r.
  repeat match type of H with
  | (if ?c then _ else _) = _ => destruct c eqn:?
  | match ?l with [] => _ | _ :: _ => _ end = _ => destruct l
  end; inversion H; try discriminate; try lia;
  repeat match goal with Hc : context [if ?c then _ else _] |- _ => destruct c eqn:? end; lia.
Qed.

Lemma cw_changed_mono fuel : forall s, snd (let '(o, _) := cw_loop fuel s true in (o, true)) = true.
Proof. intros s. destruct (cw_loop fuel s true); reflexivity. Qed.

Lemma cw_unchanged_both fuel : forall s o inws, cw_loop fuel s inws = (o, false) -> (length s < fuel)%nat -> o = s.
Proof.
  induction fuel as [|f IH]; intros s o inws H L; [lia|].
  cbn [cw_loop] in H. destruct s as [|b0 t]; [inversion H; reflexivity|].
  destruct (decode_rune (b0 :: t)) as [r size] eqn:D.
  pose proof (decode_rune_size_pos b0 t) as P. pose proof (decode_rune_size_le (b0 :: t)) as Q.
  rewrite D in P, Q. cbn [snd] in P, Q.
  assert (Lk : (length (skipn size (b0 :: t)) < f)%nat) by (rewrite skipn_length; cbn [length] in *; lia).
  destruct (is_latin_space r || (b0 =? 160)) eqn:W.
  - destruct inws.
    + destruct (cw_loop f (skipn size (b0 :: t)) true); discriminate.
    + destruct (cw_loop f (skipn size (b0 :: t)) true) as [o' ch] eqn:E.
      inversion H as [[Ho Hc]]. apply orb_false_iff in Hc as [-> Hr]. apply negb_false_iff, N.eqb_eq in Hr. subst r.
      destruct (decode_rune_space _ _ _ D eq_refl) as (t' & Ht & Hs). inversion Ht; subst.
      cbn [skipn] in E. f_equal. eapply IH; [exact E|cbn in *; lia].
  - destruct (cw_loop f (skipn size (b0 :: t)) false) as [o' ch] eqn:E. inversion H; subst.
    erewrite (IH _ o' false); [apply firstn_skipn|exact E|exact Lk].
Qed.

Lemma fs_compress_whitespace : flag_sound t_compress_whitespace.
Proof.
  intros s _ Hne. unfold t_compress_whitespace in *.
  destruct (cw_needs (S (length s)) s); [|cbn [t_out t_changed t_err ok_res] in *; congruence].
  destruct (cw_loop (S (length s)) s false) as [o ch] eqn:E.
  cbn [t_out t_changed t_err ok_res] in *. destruct ch; [reflexivity|]. exfalso; apply Hne.
  eapply cw_unchanged_both; [exact E|lia].
Qed.

Lemma js_unchanged fuel : forall s o, js_loop fuel s = (o, false) -> (length s < fuel)%nat -> o = s.
Proof.
  induction fuel as [|f IH]; intros s o H L; [lia|].
  cbn [js_loop] in H. destruct s as [|c r]; [inversion H; reflexivity|].
  destruct r as [|c1 r1]; [inversion H; reflexivity|].
  destruct (c =? 92).
  - destruct (js_step c1 r1); discriminate.
  - destruct (js_loop f (c1 :: r1)) as [o' ch] eqn:E. inversion H; subst. f_equal.
    eapply IH; [exact E|cbn in *; lia].
Qed.

Lemma fs_js_decode : flag_sound t_js_decode.
Proof.
  intros s _ Hne. unfold t_js_decode in *. destruct (has_backslash s); [|cbn [t_out t_changed t_err ok_res] in *; congruence].
  destruct (js_loop (S (length s)) s) as [o ch] eqn:E.
  cbn [t_out t_changed t_err ok_res] in *. destruct ch; [reflexivity|]. exfalso; apply Hne. eapply js_unchanged; [exact E|lia].
Qed.

Lemma fs_css_decode : flag_sound t_css_decode.
Proof.
  intros s _ Hne. unfold t_css_decode in *. destruct (has_backslash s); cbn [t_out t_changed t_err ok_res] in *; congruence.
Qed.

Lemma rc_unchanged fuel : forall s o, rc_loop fuel s false = (o, false) -> (length s < fuel)%nat -> o = s.
Proof.
  induction fuel as [|f IH]; intros s o H L; [lia|].
  cbn [rc_loop] in H. destruct s as [|c r]; [inversion H; reflexivity|].
  destruct (is_prefix [47; 42] (c :: r)); [discriminate|].
  destruct (is_prefix [60; 33; 45; 45] (c :: r)); [discriminate|].
  destruct (is_prefix [45; 45] (c :: r)); [discriminate|].
  destruct (c =? 35); [discriminate|].
  destruct (rc_loop f r false) as [o' ch] eqn:E. inversion H; subst. f_equal. eapply IH; [exact E|cbn in L; lia].
Qed.

Lemma fs_remove_comments : flag_sound t_remove_comments.
Proof.
  intros s _ Hne. unfold t_remove_comments in *. destruct (rc_loop (S (length s)) s false) as [o ch] eqn:E.
  cbn [t_out t_changed t_err ok_res] in *. destruct ch; [reflexivity|]. exfalso; apply Hne. eapply rc_unchanged; [exact E|lia].
Qed.

Lemma udu_unchanged tbl fuel : forall s o, udu_loop tbl fuel s = (o, false) -> (length s < fuel)%nat -> o = s.
Proof.
  induction fuel as [|f IH]; intros s o H L; [lia|].
  cbn [udu_loop] in H. destruct s as [|c r]; [inversion H; reflexivity|].
  destruct (c =? 43); [discriminate|].
  destruct (c =? 37).
  - destruct r as [|u r1]; [inversion H; reflexivity|].
    destruct ((u =? 117) || (u =? 85)).
    + match type of H with (match ?X with Some _ => _ | None => _ end) = _ => destruct X as [[b r5]|] end; [discriminate|].
      destruct (udu_loop tbl f r1) as [o' ch] eqn:E. inversion H; subst. f_equal. f_equal.
      eapply IH; [exact E|cbn [length] in *; lia].
    + match type of H with (match ?X with Some _ => _ | None => _ end) = _ => destruct X as [[b r2]|] end; [discriminate|].
      destruct (udu_loop tbl f (u :: r1)) as [o' ch] eqn:E. inversion H; subst. f_equal.
      eapply IH; [exact E|cbn [length] in *; lia].
  - destruct (udu_loop tbl f r) as [o' ch] eqn:E. inversion H; subst. f_equal. eapply IH; [exact E|cbn [length] in *; lia].
Qed.

(* for EVERY best-fit table *)
Lemma fs_url_decode_uni tbl : flag_sound (t_url_decode_uni tbl).
Proof.
  intros s _ Hne. unfold t_url_decode_uni in *. destruct (has_pct_or_plus s); [|cbn [t_out t_changed t_err ok_res] in *; congruence].
  destruct (udu_loop tbl (S (length s)) s) as [o ch] eqn:E.
  cbn [t_out t_changed t_err ok_res] in *. destruct ch; [reflexivity|]. exfalso; apply Hne. eapply udu_unchanged; [exact E|lia].
Qed.

Theorem all_flags_sound_holds : all_flags_sound.
Proof.
  intro t; destruct t; cbn [apply_t].
  - exact fs_none. - exact fs_length. - exact fs_lowercase. - exact fs_uppercase.
  - exact fs_remove_nulls. - exact fs_replace_nulls. - exact fs_trim. - exact fs_trim_left.
  - exact fs_trim_right. - exact fs_hex_encode. - exact fs_hex_decode. - exact fs_base64_encode.
  - exact fs_base64_decode. - exact fs_base64_decode_ext. - exact fs_url_decode. - exact fs_url_encode.
  - exact fs_cmd_line. - exact fs_remove_comments_char. - exact fs_replace_comments.
  - exact fs_escape_seq_decode. - exact fs_compress_whitespace. - exact fs_remove_whitespace.
  - exact fs_utf8_to_unicode. - exact fs_js_decode. - exact fs_css_decode. - exact fs_remove_comments.
Qed.

Theorem multimatch_sees_all_holds ts s v :
  v = s \/ In v (chain_values ts s) -> In v (multimatch_values ts s).
Proof. apply multimatch_sees_all. exact all_flags_sound_holds. Qed.

(* totality / purity: every model is a Gallina function of its input only; the interesting
   content is on the Go side (index bounds), checked by the correspondence run under recover(). *)
Theorem apply_t_pure t s1 s2 : s1 = s2 -> apply_t t s1 = apply_t t s2.
Proof. intros ->; reflexivity. Qed.

(* length equals its standard definition *)
Theorem t_length_spec s : t_out (t_length s) = itoa (N.of_nat (length s)).
Proof. reflexivity. Qed.

(* lowercase / uppercase are the ASCII maps (on the ASCII inputs the model covers) *)
Theorem t_lowercase_spec s : t_out (t_lowercase s) = map ascii_lower s.
Proof. reflexivity. Qed.
Theorem t_uppercase_spec s : t_out (t_uppercase s) = map ascii_upper s.
Proof. reflexivity. Qed.

(* ------------------------------------------------------------------ *)
(* base64Decode (base64Encode s) = s                                    *)
(* ------------------------------------------------------------------ *)
(* what one alphabet character does to the decoder state *)
Definition b64_good (c : N) (k : N) : Prop :=
  forall ext r n x,
    b64_loop ext (c :: r) n x =
      (if n =? 3 then
         let '(o, n2, x2) := b64_loop ext r 0 0 in
         (((x * 64 + k) / 65536) mod 256 :: ((x * 64 + k) / 256) mod 256 :: (x * 64 + k) mod 256 :: o, n2, x2)
       else b64_loop ext r (n + 1) (x * 64 + k)).

Lemma b64_char_good k : k < 64 -> b64_good (b64_char k) k.
Proof.
  intro H.
  assert (Hc : forallb (fun k =>
      let c := b64_char k in
      negb (is_space_latin1 c || (c =? 46)) && negb ((c =? 13) || (c =? 10)) && negb ((c =? 61) || (c =? 32))
      && negb (c =? 45) && negb (c =? 95) && (c <=? 127) && negb (b64_dec c =? 127) && (b64_dec c mod 64 =? k))
      (map N.of_nat (seq 0 64)) = true) by (vm_compute; reflexivity).
  rewrite forallb_forall in Hc. specialize (Hc k).
  assert (Hin : In k (map N.of_nat (seq 0 64))).
  { apply in_map_iff. exists (N.to_nat k). split; [lia|]. apply in_seq. lia. }
  specialize (Hc Hin). cbv zeta in Hc.
  apply andb_true_iff in Hc as [Hc H8]. apply andb_true_iff in Hc as [Hc H7]. apply andb_true_iff in Hc as [Hc H6].
  apply andb_true_iff in Hc as [Hc H5]. apply andb_true_iff in Hc as [Hc H4]. apply andb_true_iff in Hc as [Hc H3].
  apply andb_true_iff in Hc as [H1 H2].
  apply negb_true_iff in H1, H2, H3, H4, H5, H7. apply N.eqb_eq in H8.
  intros ext r n x. cbn [b64_loop].
  rewrite H1, andb_false_r, H2, H3.
  assert (E : (if ext then (if b64_char k =? 45 then 43 else if b64_char k =? 95 then 47 else b64_char k) else b64_char k) = b64_char k)
    by (rewrite H4, H5; destruct ext; reflexivity).
  rewrite E, H6, H7, H8. reflexivity.
Qed.

Lemma b64_idx_lt a b c : a < 256 -> b < 256 -> c < 256 ->
  a / 4 < 64 /\ (a mod 4) * 16 + b / 16 < 64 /\ (b mod 16) * 4 + c / 64 < 64 /\ c mod 64 < 64
  /\ (a mod 4) * 16 < 64 /\ (b mod 16) * 4 < 64.
Proof. intros; repeat split; lia. Qed.

Lemma b64_loop_triple a b c r : a < 256 -> b < 256 -> c < 256 ->
  b64_loop false (base64_encode_b (a :: b :: c :: r)) 0 0 =
  let '(o, n, x) := b64_loop false (base64_encode_b r) 0 0 in (a :: b :: c :: o, n, x).
Proof.
  intros Ha Hb Hc. destruct (b64_idx_lt a b c Ha Hb Hc) as (I1 & I2 & I3 & I4 & _ & _).
  cbn [base64_encode_b].
  rewrite (b64_char_good _ I1). change (0 =? 3) with false. cbv iota.
  rewrite (b64_char_good _ I2). change (0 + 1 =? 3) with false. cbv iota.
  rewrite (b64_char_good _ I3). change (0 + 1 + 1 =? 3) with false. cbv iota.
  rewrite (b64_char_good _ I4). change (0 + 1 + 1 + 1 =? 3) with true. cbv iota.
  destruct (b64_loop false (base64_encode_b r) 0 0) as [[o n] x].
  f_equal. f_equal. f_equal; [|f_equal; [|f_equal]]; lia.
Qed.

Theorem base64_decode_encode : forall s, wf_bytes s -> base64_decode_b false (base64_encode_b s) = s.
Proof.
  assert (G : forall n s, (length s <= n)%nat -> wf_bytes s -> base64_decode_b false (base64_encode_b s) = s).
  { induction n as [|n IH]; intros s L W.
    - destruct s; [reflexivity|cbn in L; lia].
    - destruct s as [|a [|b [|c r]]].
      + reflexivity.
      + inversion W as [|? ? Ha _]; subst. unfold wf_byte in Ha.
        assert (I1 : a / 4 < 64) by lia. assert (I2 : (a mod 4) * 16 < 64) by lia.
        unfold base64_decode_b. cbn [base64_encode_b].
        rewrite (b64_char_good _ I1). change (0 =? 3) with false. cbv iota.
        rewrite (b64_char_good _ I2). change (0 + 1 =? 3) with false. cbv iota.
        cbn [b64_loop]. change (false && _) with false. cbv iota.
        change ((61 =? 13) || (61 =? 10)) with false. cbv iota. change ((61 =? 61) || (61 =? 32)) with true. cbv iota.
        change (0 + 1 + 1 =? 2) with true. cbv iota. cbn [app]. f_equal. lia.
      + inversion W as [|? ? Ha W']; subst. inversion W' as [|? ? Hb _]; subst. unfold wf_byte in Ha, Hb.
        assert (I1 : a / 4 < 64) by lia. assert (I2 : (a mod 4) * 16 + b / 16 < 64) by lia.
        assert (I3 : (b mod 16) * 4 < 64) by lia.
        unfold base64_decode_b. cbn [base64_encode_b].
        rewrite (b64_char_good _ I1). change (0 =? 3) with false. cbv iota.
        rewrite (b64_char_good _ I2). change (0 + 1 =? 3) with false. cbv iota.
        rewrite (b64_char_good _ I3). change (0 + 1 + 1 =? 3) with false. cbv iota.
        cbn [b64_loop]. change (false && _) with false. cbv iota.
        change ((61 =? 13) || (61 =? 10)) with false. cbv iota. change ((61 =? 61) || (61 =? 32)) with true. cbv iota.
        change (0 + 1 + 1 + 1 =? 2) with false. change (0 + 1 + 1 + 1 =? 3) with true. cbv iota. cbn [app].
        f_equal; [|f_equal]; lia.
      + inversion W as [|? ? Ha W1]; subst. inversion W1 as [|? ? Hb W2]; subst. inversion W2 as [|? ? Hc W3]; subst.
        unfold wf_byte in Ha, Hb, Hc.
        unfold base64_decode_b. rewrite (b64_loop_triple a b c r Ha Hb Hc).
        assert (IHr : base64_decode_b false (base64_encode_b r) = r) by (apply IH; [cbn in L; lia|exact W3]).
        unfold base64_decode_b in IHr. destruct (b64_loop false (base64_encode_b r) 0 0) as [[o n'] x].
        cbn [app]. rewrite IHr. reflexivity. }
  intros s W. apply (G (length s)); [lia|exact W].
Qed.

Theorem t_base64_roundtrip s : wf_bytes s -> t_out (t_base64_decode (t_out (t_base64_encode s))) = s.
Proof. intro W. cbn [t_base64_decode t_base64_encode t_out ok_res]. apply base64_decode_encode. exact W. Qed.
