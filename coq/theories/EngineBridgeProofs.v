(* EngineBridgeProofs.v — the composition Match.v (C01) o TCache.v (C12) is the C01 model. *)
From Coq Require Import String Permutation.
From Verif Require Import Base Utf8 Transform TCache TCacheProofs Match MatchProofs EngineBridge.
From Coq Require Import Arith Lia.
Local Open Scope nat_scope.

(* ------------------------------------------------------------------------------------ *)
(* 1. the two transformation semantics agree                                             *)
(* ------------------------------------------------------------------------------------ *)
Lemma bridge_tf_apply t s : b_tf t s = apply_t t s.
Proof. reflexivity. Qed.

(* Rule.executeTransformations: TCache keeps the LIST of failing transformations (the []error),
   Transform.exec_tfs their NUMBER *)
Lemma bridge_run_exec : forall ts v es0,
  fst (tc_run tid b_tf ts (v, es0)) = fst (exec_tfs ts v) /\
  length (snd (tc_run tid b_tf ts (v, es0))) = length es0 + snd (exec_tfs ts v).
Proof.
  induction ts as [|t ts IH]; intros v es0.
  - cbn. split; [reflexivity | lia].
  - unfold tc_run in *. cbn [fold_left exec_tfs].
    assert (Hs : tc_step tid b_tf (v, es0) t =
                 if t_err (apply_t t v) then (v, es0 ++ [t]) else (t_out (apply_t t v), es0)) by reflexivity.
    rewrite Hs. clear Hs. destruct (t_err (apply_t t v)) eqn:E.
    + destruct (IH v (es0 ++ [t])) as [H1 H2]. rewrite H1, H2.
      destruct (exec_tfs ts v) as [o n]. cbn [fst snd]. rewrite app_length. cbn [length]. split; [reflexivity | lia].
    + apply IH.
Qed.

Theorem bridge_exec_is_exec_tfs ts v :
  fst (tc_exec tid b_tf ts v) = fst (exec_tfs ts v) /\
  length (snd (tc_exec tid b_tf ts v)) = snd (exec_tfs ts v).
Proof. unfold tc_exec. destruct (bridge_run_exec ts v []) as [H1 H2]. split; [exact H1 | exact H2]. Qed.

(* Rule.executeTransformationsMultimatch *)
Lemma bridge_multi_loop : forall ts v,
  fst (tc_multi_loop tid b_tf ts v) = exec_tfs_multi ts v /\
  length (snd (tc_multi_loop tid b_tf ts v)) = exec_tfs_multi_errs ts v.
Proof.
  induction ts as [|t ts IH]; intro v; [split; reflexivity|].
  cbn [tc_multi_loop exec_tfs_multi exec_tfs_multi_errs]. rewrite bridge_tf_apply.
  destruct (t_err (apply_t t v)).
  - destruct (IH v) as [H1 H2]. destruct (tc_multi_loop tid b_tf ts v) as [vs es]. cbn [fst snd length] in *.
    split; congruence.
  - destruct (t_changed (apply_t t v)); [|apply IH].
    destruct (IH (t_out (apply_t t v))) as [H1 H2].
    destruct (tc_multi_loop tid b_tf ts (t_out (apply_t t v))) as [vs es]. cbn [fst snd] in *.
    split; congruence.
Qed.

Theorem bridge_exec_multi_is_multimatch_values ts v :
  fst (tc_exec_multi tid b_tf ts v) = multimatch_values ts v /\
  length (snd (tc_exec_multi tid b_tf ts v)) = exec_tfs_multi_errs ts v.
Proof.
  unfold tc_exec_multi, multimatch_values. destruct (bridge_multi_loop ts v) as [H1 H2].
  destruct (tc_multi_loop tid b_tf ts v) as [vs es]. cbn [fst snd] in *. split; congruence.
Qed.

(* tc_uncached, for a plain rule: the one value exec_tfs computes, as many errors as it counts *)
Theorem bridge_uncached_is_exec_tfs ts pids a :
  fst (tc_uncached tid b_tf (TCache.mk_rule ts pids false) a) = [fst (exec_tfs ts (a_val a))] /\
  length (snd (tc_uncached tid b_tf (TCache.mk_rule ts pids false) a)) = snd (exec_tfs ts (a_val a)).
Proof.
  unfold tc_uncached. cbn [r_multi r_ts]. destruct (bridge_exec_is_exec_tfs ts (a_val a)) as [H1 H2].
  destruct (tc_exec tid b_tf ts (a_val a)) as [v es]. cbn [fst snd] in *. split; congruence.
Qed.

(* tc_uncached, for a multiMatch rule: the list multimatch_values computes (original value first) *)
Theorem bridge_uncached_multi_is_multimatch_values ts pids a :
  fst (tc_uncached tid b_tf (TCache.mk_rule ts pids true) a) = multimatch_values ts (a_val a) /\
  length (snd (tc_uncached tid b_tf (TCache.mk_rule ts pids true) a)) = exec_tfs_multi_errs ts (a_val a).
Proof. unfold tc_uncached. cbn [r_multi r_ts]. apply bridge_exec_multi_is_multimatch_values. Qed.

(* ... in the vocabulary of Match.v: the cache-free transformArg of C12 is transform_values of C01 *)
Theorem bridge_uncached_is_transform_values pidf l e :
  fst (tc_uncached tid b_tf (b_rule pidf l) (b_arg e)) = transform_values l (md_value (fst e)) /\
  length (snd (tc_uncached tid b_tf (b_rule pidf l) (b_arg e))) = transform_errs l (md_value (fst e)).
Proof.
  unfold b_rule, transform_values, transform_errs. destruct (l_multi l).
  - apply (bridge_uncached_multi_is_multimatch_values (l_tfs l) (pidf l) (b_arg e)).
  - apply (bridge_uncached_is_exec_tfs (l_tfs l) (pidf l) (b_arg e)).
Qed.

Lemma bridge_uncached_input pidf l e vs es :
  (vs, es) = tc_uncached tid b_tf (b_rule pidf l) (b_arg e) -> (vs, length es) = input_uncached l (fst e).
Proof.
  intro H. destruct (bridge_uncached_is_transform_values pidf l e) as [H1 H2]. rewrite <- H in H1, H2.
  cbn [fst snd] in *. unfold input_uncached. congruence.
Qed.

(* ------------------------------------------------------------------------------------ *)
(* 2. operator inputs: through the cache = cache-free                                    *)
(* ------------------------------------------------------------------------------------ *)
Section Inputs.
Variable sm : nat -> list tid.
Variable pidf : link -> list nat.
Notation inv := (tc_cache_inv tid b_tf sm).
Notation wf := (fun l => tc_rule_wf tid sm (b_rule pidf l)).

(* one GetField result, any starting position *)
Lemma field_inputs_cached_from l : wf l -> forall sel idx cs, inv cs ->
  exists cs', field_inputs_cached pidf l idx sel cs = (field_inputs_uncached l (sel_mds sel), cs') /\ inv cs'.
Proof.
  intro Hwf. induction sel as [|e sel IH]; intros idx cs Hinv.
  - exists cs. split; [reflexivity | exact Hinv].
  - unfold field_inputs_cached in *. cbn [field_inputs_cached_gen].
    destruct (tc_transform_arg_gen tid b_tf true true (b_rule pidf l) (b_arg e) idx cs) as [[vs es] cs1] eqn:E.
    destruct (tc_transform_arg_sound tid b_tf sm _ _ _ _ Hwf Hinv _ _ _ E) as [Eu Hinv1].
    destruct (IH (S idx) cs1 Hinv1) as (cs2 & E2 & Hinv2). rewrite E2.
    exists cs2. split; [|exact Hinv2].
    unfold field_inputs_uncached, sel_mds. cbn [map]. rewrite (bridge_uncached_input pidf l e vs es Eu). reflexivity.
Qed.

Theorem field_inputs_cached_eq_uncached l sel cs : wf l -> inv cs ->
  exists cs', field_inputs_cached pidf l 0 sel cs = (field_inputs_uncached l (sel_mds sel), cs') /\ inv cs'.
Proof. intros Hwf Hinv. apply field_inputs_cached_from; assumption. Qed.

(* one link: its targets in order *)
Theorem link_inputs_cached_eq_uncached l : wf l -> forall sels cs, inv cs ->
  exists cs', link_inputs_cached pidf l sels cs = (link_inputs_uncached l (map sel_mds sels), cs') /\ inv cs'.
Proof.
  intro Hwf. induction sels as [|sel sels IH]; intros cs Hinv.
  - exists cs. split; [reflexivity | exact Hinv].
  - unfold link_inputs_cached in *. cbn [link_inputs_cached_gen].
    destruct (field_inputs_cached_eq_uncached l sel cs Hwf Hinv) as (cs1 & E1 & Hinv1).
    unfold field_inputs_cached in E1. rewrite E1.
    destruct (IH cs1 Hinv1) as (cs2 & E2 & Hinv2). rewrite E2.
    exists cs2. split; [reflexivity | exact Hinv2].
Qed.

(* a sequence of links, the cache handed on *)
Theorem links_inputs_cached_eq_uncached : forall ls cs, Forall (fun c => wf (fst c)) ls -> inv cs ->
  exists cs', links_inputs_cached pidf ls cs = (phase_inputs_uncached (map link_call_mds ls), cs') /\ inv cs'.
Proof.
  induction ls as [|c ls IH]; intros cs Hwf Hinv.
  - exists cs. split; [reflexivity | exact Hinv].
  - inversion Hwf as [|? ? Hc Hls]; subst.
    unfold links_inputs_cached in *. cbn [links_inputs_cached_gen].
    destruct (link_inputs_cached_eq_uncached (fst c) Hc (snd c) cs Hinv) as (cs1 & E1 & Hinv1).
    unfold link_inputs_cached in E1. rewrite E1.
    destruct (IH cs1 Hls Hinv1) as (cs2 & E2 & Hinv2). rewrite E2.
    exists cs2. split; [reflexivity | exact Hinv2].
Qed.

(* a phase: whatever the transaction's cache holds when RuleGroup.Eval starts *)
Theorem phase_inputs_cached_eq_uncached ls cs : Forall (fun c => wf (fst c)) ls ->
  exists cs', phase_inputs_cached pidf ls cs = (phase_inputs_uncached (map link_call_mds ls), cs') /\ inv cs'.
Proof.
  intro Hwf. unfold phase_inputs_cached, phase_inputs_cached_gen.
  apply (links_inputs_cached_eq_uncached ls (tc_phase_start tid cs) Hwf).
  apply tc_phase_start_inv.
Qed.

End Inputs.

(* ------------------------------------------------------------------------------------ *)
(* 3. Match.v's match data is a function of the operator inputs                          *)
(* ------------------------------------------------------------------------------------ *)
Lemma sel_mds_attach ka : forall mds idx, sel_mds (attach_keys ka idx mds) = mds.
Proof.
  induction mds as [|md mds IH]; intro idx; [reflexivity|].
  unfold sel_mds in *. cbn [attach_keys map fst]. rewrite IH. reflexivity.
Qed.

Lemma satisfying_of_inputs X l neg o : forall mds,
  flat_map (satisfying X l neg o) mds = matches_of_inputs X neg o mds (field_inputs_uncached l mds).
Proof.
  induction mds as [|md mds IH]; [reflexivity|].
  unfold field_inputs_uncached in *. cbn [flat_map map matches_of_inputs]. rewrite IH. reflexivity.
Qed.


(* ------------------------------------------------------------------------------------ *)
(* 4. the cached evaluation IS Match.v's evaluation                                      *)
(* ------------------------------------------------------------------------------------ *)
Section Eval.
Variable sm : nat -> list tid.
Variable pidf : link -> list nat.
Variable X : sem.
Notation inv := (tc_cache_inv tid b_tf sm).
Notation wf := (fun l => tc_rule_wf tid sm (b_rule pidf l)).

Lemma eval_targets_c_eq ord ko st l neg o : wf l -> forall cps i cs, inv cs ->
  exists cs', eval_targets_c X ord ko pidf st l neg o i cps cs = (eval_targets X ord st l neg o i cps, cs') /\ inv cs'.
Proof.
  intro Hwf. intros cps. revert st. induction cps as [|c cps IH]; intros st i cs Hinv.
  - exists cs. split; [reflexivity | exact Hinv].
  - cbn [eval_targets_c eval_targets]. unfold target_matches.
    destruct (field_inputs_cached_eq_uncached sm pidf l
                (attach_keys (ko [i]) 0 (get_field X (sub ord i) st (with_rt st c))) cs Hwf Hinv) as (cs1 & E1 & Hinv1).
    rewrite E1, sel_mds_attach. rewrite <- satisfying_of_inputs.
    destruct (IH (fold_left match_variable (flat_map (satisfying X l neg o) (get_field X (sub ord i) st (with_rt st c))) st)
                 (S i) cs1 Hinv1) as (cs2 & E2 & Hinv2). rewrite E2.
    exists cs2. split; [|exact Hinv2].
    destruct (eval_targets X ord _ l neg o (S i) cps) as [rest st']. reflexivity.
Qed.

Lemma link_matches_c_eq ord ko st l cs : wf l -> inv cs ->
  exists cs', link_matches_c X ord ko pidf st l cs = (link_eval X ord st l, cs') /\ inv cs'.
Proof.
  intros Hwf Hinv. unfold link_matches_c, link_eval. destruct (l_kind l) as [svs|neg o].
  - exists cs. split; [reflexivity | exact Hinv].
  - apply eval_targets_c_eq; assumption.
Qed.

Lemma eval_chain_c_eq ord ko : forall ls st lvl cs, links_wf sm pidf ls -> inv cs ->
  exists cs', eval_chain_c X ord ko pidf st lvl ls cs = (eval_chain X ord st lvl ls, cs') /\ inv cs'.
Proof.
  induction ls as [|l ls IH]; intros st lvl cs Hwf Hinv.
  - exists cs. split; [reflexivity | exact Hinv].
  - inversion Hwf as [|? ? Hl Hls]; subst. rewrite eval_chain_cons. cbn [eval_chain_c].
    destruct (link_matches_c_eq (sub ord lvl) (ksub ko lvl) st l cs Hl Hinv) as (cs1 & E1 & Hinv1).
    rewrite E1. unfold link_matches, link_post. destruct (link_eval X (sub ord lvl) st l) as [ms0 st0]. cbn [fst snd].
    destruct (is_nil ms0).
    + exists cs1. split; [reflexivity | exact Hinv1].
    + destruct (IH st0 (S lvl) cs1 Hls Hinv1) as (cs2 & E2 & Hinv2).
      rewrite E2. destruct (eval_chain X ord st0 (S lvl) ls) as [[rest|] st''];
        exists cs2; (split; [reflexivity | exact Hinv2]).
Qed.

Theorem eval_rule_c_eq ord ko st r cs : links_wf sm pidf (rule_links r) -> inv cs ->
  exists cs', eval_rule_c X ord ko pidf st r cs = (eval_rule X ord st r, cs') /\ inv cs'.
Proof. intros Hwf Hinv. unfold eval_rule_c, eval_rule. apply eval_chain_c_eq; assumption. Qed.

Theorem rule_fires_c_eq ord ko st r cs : links_wf sm pidf (rule_links r) -> inv cs ->
  rule_fires_c X ord ko pidf st r cs = rule_fires X ord st r.
Proof.
  intros Hwf Hinv. unfold rule_fires_c, rule_fires.
  destruct (eval_rule_c_eq ord ko st r cs Hwf Hinv) as (cs' & E & _). rewrite E. reflexivity.
Qed.

Theorem eval_rules_c_eq ord ko ph : forall rules st i cs, rules_wf sm pidf rules -> inv cs ->
  exists cs', eval_rules_c X ord ko pidf st ph i rules cs = (eval_rules X ord st ph i rules, cs') /\ inv cs'.
Proof.
  induction rules as [|r rules IH]; intros st i cs Hwf Hinv.
  - exists cs. split; [reflexivity | exact Hinv].
  - inversion Hwf as [|? ? Hr Hrs]; subst. cbn [eval_rules_c eval_rules].
    destruct (in_phase ph r).
    + destruct (eval_rule_c_eq (sub ord i) (ksub ko i) (rule_start st r) r cs Hr Hinv) as (cs1 & E1 & Hinv1).
      rewrite E1. destruct (eval_rule X (sub ord i) (rule_start st r) r) as [res st'].
      destruct (IH st' (S i) cs1 Hrs Hinv1) as (cs2 & E2 & Hinv2). rewrite E2.
      destruct (eval_rules X ord st' ph (S i) rules) as [out st''].
      exists cs2. split; [reflexivity | exact Hinv2].
    + apply IH; assumption.
Qed.

(* a phase: no hypothesis on the cache the phase starts with *)
Theorem eval_phase_c_eq ord ko ph rules st cs : rules_wf sm pidf rules ->
  exists cs', eval_phase_c X ord ko pidf st ph rules cs = (eval_rules X ord st ph 0 rules, cs') /\ inv cs'.
Proof.
  intro Hwf. unfold eval_phase_c. apply eval_rules_c_eq; [exact Hwf|]. apply tc_phase_start_inv.
Qed.

(* a transaction *)
Theorem run_tx_c_eq ord ko q rules cs : rules_wf sm pidf rules ->
  exists cs', run_tx_c X ord ko pidf q rules cs = (run_tx X ord q rules, cs') /\ inv cs'.
Proof.
  intro Hwf. unfold run_tx_c, run_tx.
  destruct (eval_phase_c_eq (sub ord 1) (ksub ko 1) 1%N rules (build1 q) cs Hwf) as (cs1 & E1 & _).
  rewrite E1. destruct (eval_rules X (sub ord 1) (build1 q) 1 0 rules) as [o1 st1].
  destruct (eval_phase_c_eq (sub ord 2) (ksub ko 2) 2%N rules (set_post st1 (map_of_list (q_post q))) cs1 Hwf)
    as (cs2 & E2 & Hinv2).
  rewrite E2. destruct (eval_rules X (sub ord 2) (set_post st1 (map_of_list (q_post q))) 2 0 rules) as [o2 st2].
  exists cs2. split; [reflexivity | exact Hinv2].
Qed.

(* ---- C01's theorems, for the evaluation through the cache ---- *)
Theorem fires_iff_with_cache ord ko st r cs : wf_state st -> ok_oracle ord ->
  links_wf sm pidf (rule_links r) -> inv cs ->
  (rule_fires_c X ord ko pidf st r cs = true <-> chain_holds X ord st 0 (rule_links r)).
Proof. intros Hst Hord Hwf Hinv. rewrite rule_fires_c_eq by assumption. apply rule_fires_iff; assumption. Qed.

Theorem fires_iff_declarative_with_cache ord ko st r cs : wf_state st -> ok_oracle ord ->
  links_wf sm pidf (rule_links r) -> inv cs ->
  Forall (fun l => reads_mvar l = false /\ is_action l = false) (rule_links r) ->
  (rule_fires_c X ord ko pidf st r cs = true <-> Forall (link_holds_rt X st) (rule_links r)).
Proof. intros Hst Hord Hwf Hinv Hl. rewrite rule_fires_c_eq by assumption. apply rule_fires_declarative_rt; assumption. Qed.

Theorem matchdata_exact_with_cache ord ko st r cs mds st' cs' : wf_state st -> ok_oracle ord ->
  links_wf sm pidf (rule_links r) -> inv cs ->
  eval_rule_c X ord ko pidf st r cs = ((Some mds, st'), cs') ->
  Permutation mds (spec_chain_data X ord st 0 (rule_links r)).
Proof.
  intros Hst Hord Hwf Hinv H. destruct (eval_rule_c_eq ord ko st r cs Hwf Hinv) as (cs1 & E & _).
  rewrite E in H. injection H as H _. eapply rule_matchdata_exact; eassumption.
Qed.

Theorem phase_exact_with_cache ord ko ph rules st cs : rules_wf sm pidf rules ->
  map fst (fst (fst (eval_phase_c X ord ko pidf st ph rules cs))) = spec_fired X ord st ph 0 rules.
Proof.
  intro Hwf. destruct (eval_phase_c_eq ord ko ph rules st cs Hwf) as (cs' & E & _). rewrite E. cbn [fst].
  apply phase_exact.
Qed.

Theorem fired_sound_with_cache ord ko ph rules st cs id mds : ok_oracle ord -> wf_state st ->
  rules_wf sm pidf rules ->
  In (id, mds) (fst (fst (eval_phase_c X ord ko pidf st ph rules cs))) ->
  exists r j st0, In r rules /\ r_id r = id /\ id <> 0%N /\ in_phase ph r = true /\ wf_state st0
    /\ chain_holds X (sub ord j) st0 0 (rule_links r)
    /\ Permutation mds (spec_chain_data X (sub ord j) st0 0 (rule_links r)).
Proof.
  intros Hord Hst Hwf H. destruct (eval_phase_c_eq ord ko ph rules st cs Hwf) as (cs' & E & _).
  rewrite E in H. cbn [fst] in H. eapply fired_sound; eassumption.
Qed.

End Eval.

(* ------------------------------------------------------------------------------------ *)
(* 4b. rule sets compiled through the intern table satisfy rules_wf                      *)
(* ------------------------------------------------------------------------------------ *)
Definition no_none (names : list bytes) : Prop := Forall (fun n => bytes_eqb n (str "none"%string) = false) names.

Lemma it_add_ts_names : forall names tb r, no_none names ->
  ir_names (snd (it_add_ts tb r names)) = ir_names r ++ names.
Proof.
  induction names as [|n names IH]; intros tb r Hn.
  - cbn. rewrite app_nil_r. reflexivity.
  - inversion Hn as [|? ? Hn1 Hn2]; subst. unfold it_add_ts in *. cbn [it_add_ts_gen].
    unfold it_add_t_gen. rewrite Hn1.
    destruct (it_intern_gen false tb (ir_cur r) n) as [id tb1].
    rewrite IH by exact Hn2. cbn [ir_names]. rewrite <- app_assoc. reflexivity.
Qed.

Lemma it_compile_names : forall rules tb, Forall (fun rm : list bytes * bool => no_none (fst rm)) rules ->
  map (fun rm : it_rule * bool => (ir_names (fst rm), snd rm)) (snd (it_compile tb rules)) = rules.
Proof.
  induction rules as [|[ns m] rules IH]; intros tb Hn; [reflexivity|].
  inversion Hn as [|? ? Hn1 Hn2]; subst. unfold it_compile in *. cbn [it_compile_gen].
  pose proof (it_add_ts_names ns tb it_rule0 Hn1) as Hns. unfold it_add_ts in Hns.
  destruct (it_add_ts_gen false tb it_rule0 ns) as [tb1 r1]. cbn [snd] in Hns.
  specialize (IH tb1 Hn2). destruct (it_compile_gen false tb1 rules) as [tb2 rs]. cbn [snd map fst] in *.
  rewrite IH, Hns. reflexivity.
Qed.

Section Compiled.
Variable nm : tid -> bytes.
Variable reg : bytes -> tid.
Hypothesis reg_nm : forall t, reg (nm t) = t.
Hypothesis nm_not_none : forall t, nm t <> str "none"%string.

Definition wf_entry (sm : nat -> list tid) (e : list tid * list nat) : Prop :=
  tc_rule_wf tid sm (TCache.mk_rule (fst e) (snd e) false).

Lemma map_reg_nm ts : map reg (map nm ts) = ts.
Proof. rewrite map_map. rewrite <- (map_id ts) at 2. apply map_ext. exact reg_nm. Qed.

Lemma link_names_no_none ls : Forall (fun rm : list bytes * bool => no_none (fst rm)) (map (link_names nm) ls).
Proof.
  apply Forall_forall. intros rm H. apply in_map_iff in H as (l & <- & _). cbn [link_names fst].
  apply Forall_forall. intros n Hn. apply in_map_iff in Hn as (t & <- & _). apply bytes_eqb_neq. apply nm_not_none.
Qed.

(* every row of the table compiled for the links ls is well formed, and every link has a row *)
Lemma pid_table_wf tb ch ls : it_ok tb ch ->
  exists sm, Forall (wf_entry sm) (pid_table nm tb ls) /\ map fst (pid_table nm tb ls) = map (@l_tfs) ls.
Proof.
  intro Hok. unfold pid_table.
  pose proof (it_compile_names (map (link_names nm) ls) tb (link_names_no_none ls)) as Hnames.
  destruct (it_compile tb (map (link_names nm) ls)) as [tb' rs] eqn:E.
  destruct (it_compile_wf tid reg _ tb ch tb' rs Hok E) as (sm & Hwf).
  exists sm. cbn [snd] in *. clear E. revert rs Hnames Hwf.
  induction ls as [|l ls IH]; intros rs Hnames Hwf.
  - split; [constructor | reflexivity].
  - destruct rs as [|rm rs]; [discriminate|]. cbn [map] in Hnames. injection Hnames as Hn1 Hm Hrest.
    inversion Hwf as [|? ? Hw Hws]; subst. destruct (IH rs Hrest Hws) as [I1 I2].
    cbn [map combine]. split; [constructor; [|exact I1] | cbn [fst]; rewrite I2; reflexivity].
    unfold wf_entry, it_to_rule in *. cbn [fst snd]. rewrite Hn1, map_reg_nm in Hw. exact Hw.
Qed.

Lemma pid_lookup_wf sm : forall tbl ts, Forall (wf_entry sm) tbl -> In ts (map fst tbl) ->
  wf_entry sm (ts, pid_lookup tbl ts).
Proof.
  induction tbl as [|e tbl IH]; intros ts Hwf Hin; [destruct Hin|].
  inversion Hwf as [|? ? He Hrest]; subst. cbn [pid_lookup].
  destruct (tids_eq_dec (fst e) ts) as [<-|Hne].
  - destruct e; exact He.
  - apply IH; [exact Hrest|]. destruct Hin as [H|H]; [contradiction | exact H].
Qed.

(* the prefix ids the intern table assigns to a rule set - after ANY history of the
   process-global table - satisfy C12's well-formedness with one meaning function *)
Theorem pidf_compiled_wf hist rules :
  exists sm, rules_wf sm (pidf_compiled nm (fst (it_compile it_init hist)) rules) rules.
Proof.
  destruct (it_history_ok hist) as (ch & Hok).
  destruct (pid_table_wf _ ch (all_links rules) Hok) as (sm & Hwf & Hkeys).
  exists sm. unfold rules_wf, links_wf. apply Forall_forall. intros r Hr. apply Forall_forall. intros l Hl.
  assert (Hin : In (l_tfs l) (map fst (pid_table nm (fst (it_compile it_init hist)) (all_links rules)))).
  { rewrite Hkeys. apply in_map. unfold all_links. apply in_flat_map. exists r. split; assumption. }
  pose proof (pid_lookup_wf sm _ _ Hwf Hin) as H. exact H.
Qed.

End Compiled.

(* end to end: no hypothesis on the prefix ids - they are the ones the intern table assigns *)
Theorem compiled_phase_c_eq nm reg : (forall t, reg (nm t) = t) -> (forall t, nm t <> str "none"%string) ->
  forall hist X ord ko ph rules st cs,
  fst (eval_phase_c X ord ko (pidf_compiled nm (fst (it_compile it_init hist)) rules) st ph rules cs)
  = eval_rules X ord st ph 0 rules.
Proof.
  intros Hreg Hnm hist X ord ko ph rules st cs.
  destruct (pidf_compiled_wf nm reg Hreg Hnm hist rules) as (sm & Hwf).
  destruct (eval_phase_c_eq sm _ X ord ko ph rules st cs Hwf) as (cs' & E & _). rewrite E. reflexivity.
Qed.

Theorem compiled_run_tx_c_eq nm reg : (forall t, reg (nm t) = t) -> (forall t, nm t <> str "none"%string) ->
  forall hist X ord ko q rules cs,
  fst (run_tx_c X ord ko (pidf_compiled nm (fst (it_compile it_init hist)) rules) q rules cs)
  = run_tx X ord q rules.
Proof.
  intros Hreg Hnm hist X ord ko q rules cs.
  destruct (pidf_compiled_wf nm reg Hreg Hnm hist rules) as (sm & Hwf).
  destruct (run_tx_c_eq sm _ X ord ko q rules cs Hwf) as (cs' & E & _). rewrite E. reflexivity.
Qed.

(* ------------------------------------------------------------------------------------ *)
(* 5. executable sanity checks (F09 shape)                                               *)
(* ------------------------------------------------------------------------------------ *)
(* two rules over ARGS sharing the prefix t:lowercase: t:lowercase and t:lowercase,t:trim.
   Their prefix ids as the intern table assigns them: [1] and [1;2]. *)
Definition ex_names : list (list bytes * bool) :=
  [([str "lowercase"%string], false); ([str "lowercase"%string; str "trim"%string], false)].
Example ex_intern_pids : map (fun rm => ir_pids (fst rm)) (snd (it_compile it_init ex_names)) = [[1]; [1; 2]].
Proof. vm_compute. reflexivity. Qed.

Definition ex_pidf (l : link) : list nat :=
  match l_tfs l with
  | [TLowercase] => [1]
  | [TLowercase; TTrim] => [1; 2]
  | _ => []
  end.
Definition ex_sm (id : nat) : list tid :=
  match id with 1 => [TLowercase] | 2 => [TLowercase; TTrim] | _ => [] end.

Definition ex_op : op := mk_op OpStreq (str "two"%string).
Definition ex_l1 : link := mk_link [TPos false VArgs SelAll] (LRule false ex_op) [TLowercase] false.
Definition ex_l2 : link := mk_link [TPos false VArgs SelAll] (LRule false ex_op) [TLowercase; TTrim] false.
Definition ex_rules : list rule := [Match.mk_rule 1 1 ex_l1 []; Match.mk_rule 2 1 ex_l2 []].

Lemma ex_rules_wf : rules_wf ex_sm ex_pidf ex_rules.
Proof.
  repeat constructor; cbn; intros k Hk; repeat (destruct k as [|k]; [reflexivity|]); lia.
Qed.

(* the argument name a twice: values "ONE" and " TWO " *)
Definition ex_one : bytes := str "ONE"%string.
Definition ex_two : bytes := str " TWO "%string.
Definition ex_md (v : bytes) : mdata := (VArgs, str "a"%string, v).
(* every value gets the same variable number and the same key pointer *)
Definition ex_key : b_key := (41, 7).

(* inputs level: the second rule sees the two values in the other order (another hash order /
   an exclusion): same key pointer, same variable, same position, another value *)
Definition ex_calls : list (link * list (list b_sel)) :=
  [(ex_l1, [[(ex_md ex_one, ex_key); (ex_md ex_two, ex_key)]]);
   (ex_l2, [[(ex_md ex_two, ex_key); (ex_md ex_one, ex_key)]]);
   (ex_l1, [[(ex_md ex_two, ex_key); (ex_md ex_one, ex_key)]])].

Example ex_inputs_cached_eq_uncached :
  fst (phase_inputs_cached ex_pidf ex_calls tc_empty) = phase_inputs_uncached (map link_call_mds ex_calls).
Proof. vm_compute. reflexivity. Qed.

Example ex_inputs_values :
  fst (phase_inputs_cached ex_pidf ex_calls tc_empty) =
  [[[([str "one"%string], 0); ([str " two "%string], 0)]];
   [[([str "two"%string], 0); ([str "one"%string], 0)]];
   [[([str " two "%string], 0); ([str "one"%string], 0)]]].
Proof. vm_compute. reflexivity. Qed.

(* the cache is really used: after the phase it holds entries for both prefixes *)
Example ex_cache_populated :
  length (st_cache (snd (phase_inputs_cached ex_pidf ex_calls tc_empty))) = 4.
Proof. vm_compute. reflexivity. Qed.

(* sensitivity: the design before commit 95501c1 (hit decided by the key alone) hands the
   second rule the first rule's value (F09) *)
Example ex_inputs_key_only_differs :
  fst (phase_inputs_cached_gen false true ex_pidf ex_calls tc_empty) <> phase_inputs_uncached (map link_call_mds ex_calls).
Proof. vm_compute. discriminate. Qed.

(* transaction level: ?a=ONE&a=%20TWO%20, both rules in phase 1; the adversarial key oracle gives
   every value the same variable number and key pointer *)
Definition ex_req : request :=
  mk_request [(str "a"%string, ex_one); (str "a"%string, ex_two)] [] [] [] (str "/"%string) (str "GET"%string) [].
Definition ex_ko : bkor := fun _ _ _ => ex_key.

Example ex_tx_cached_eq_uncached :
  fst (run_tx_c csem ord_id ex_ko ex_pidf ex_req ex_rules tc_empty) = run_tx csem ord_id ex_req ex_rules.
Proof. vm_compute. reflexivity. Qed.

(* rule 1 (t:lowercase) does not fire on " two ", rule 2 (t:lowercase,t:trim) fires once *)
Example ex_tx_result :
  fst (run_tx_c csem ord_id ex_ko ex_pidf ex_req ex_rules tc_empty) =
  [(2%N, [((VArgs, str "a"%string, str "two"%string), 0)])].
Proof. vm_compute. reflexivity. Qed.

(* the same with the prefix ids computed by the intern table from the names as written *)
Definition ex_nm (t : tid) : bytes :=
  match t with TLowercase => str "lowercase"%string | TTrim => str "trim"%string | _ => str "other"%string end.
Example ex_pidf_compiled :
  map (pidf_compiled ex_nm it_init ex_rules) [ex_l1; ex_l2] = [[1]; [1; 2]].
Proof. vm_compute. reflexivity. Qed.
Example ex_tx_compiled_cached_eq_uncached :
  fst (run_tx_c csem ord_id ex_ko (pidf_compiled ex_nm it_init ex_rules) ex_req ex_rules tc_empty)
  = run_tx csem ord_id ex_req ex_rules.
Proof. vm_compute. reflexivity. Qed.
