(* CorrC20.v — correspondence checker for C20: evaluates the Faults.v model (current code variant)
   on the call lists, configurations and INJECTED FAULTS the Go harness ran against the real
   Transaction, and compares every per-call observable and the state after Close.

   The injections are the model of the harness's fault mechanisms:
     InjLimit call tgt L     RLIMIT_FSIZE = L around the call (SIGXFSZ ignored): a write of len > 0
                             bytes at offset off with off + len > L gets L - off bytes out, then EFBIG
     InjFail call kind tgt g every operation of that kind on that file class during the call fails
                             (handle closed behind the buffer's back; directory moved away; file
                             pre-removed: g = 1 "already gone")
     InjFailAt call kind tgt pos g   the same for the one operation at position pos (the Remove of the
                             pos-th entry of FILES_TMPNAMES: exactly that upload was pre-removed) *)
From Verif Require Import Base Faults.
Local Open Scope nat_scope.

Inductive inj :=
  | InjLimit (call : nat) (tgt : target) (limit : nat)
  | InjFail (call : nat) (kind : opkind) (tgt : target) (gone : nat)
  | InjFailAt (call : nat) (kind : opkind) (tgt : target) (pos : nat) (gone : nat).

Definition inj_hit (o : opinfo) (i : inj) : option nat :=
  match i with
  | InjLimit c t L =>
    if (oi_call o =? c) && target_eqb (oi_tgt o) t && opkind_eqb (oi_kind o) OWrite
       && (0 <? oi_len o) && (L <? oi_off o + oi_len o)
    then Some (L - oi_off o) else None
  | InjFail c k t g =>
    if (oi_call o =? c) && opkind_eqb (oi_kind o) k && target_eqb (oi_tgt o) t then Some g else None
  | InjFailAt c k t p g =>
    if (oi_call o =? c) && opkind_eqb (oi_kind o) k && target_eqb (oi_tgt o) t && (oi_off o =? p)
    then Some g else None
  end.

Fixpoint oracle_of (l : list inj) (o : opinfo) : option nat :=
  match l with
  | [] => None
  | i :: r => match inj_hit o i with Some k => Some k | None => oracle_of r o end
  end.

(* what the harness observes after every call *)
Record obs := mkobs {
  o_err : bool; o_intr : bool;
  o_phase : nat;
  o_inbound : bool; o_rberr : bool; o_rbperr : bool; o_mpstrict : bool;
  o_p2 : nat; o_e : bool;
  o_ntmp : nat; o_nfiles : nat;
  o_len : nat; o_memlen : nat; o_spilled : bool;
  o_logs : list logmsg;          (* Error/Warn entries of this call, oldest first *)
  o_tmp : list nat;              (* sizes of the files in TmpDir, ascending *)
  o_up : list nat;               (* sizes of the files in UploadDir, ascending *)
  o_open : nat                   (* open file descriptors above the baseline *)
}.

(* after Close, and after NewTransaction handed the same object out again *)
Record fin := mkfin {
  f_ok : bool;                   (* Close returned nil *)
  f_tmp : list nat; f_up : list nat; f_open : nat;
  f_clean : bool                 (* the recycled object is in the initial state *)
}.

Inductive case :=
  | Case (c : cfg) (pre_tmp pre_up : list nat) (pr : presult) (injs : list inj)
         (calls : list call) (observed : list obs) (final : fin).

Fixpoint insert_nat (x : nat) (l : list nat) : list nat :=
  match l with
  | [] => [x]
  | y :: r => if x <=? y then x :: l else y :: insert_nat x r
  end.
Definition sort_nat (l : list nat) : list nat := fold_right insert_nat [] l.

Definition sizes_in (d : dir) (l : list file) : list nat :=
  sort_nat (map (fun f => length (f_data f)) (filter (fun f => dir_eqb (f_dir f) d) l)).

Fixpoint mk_files (d : dir) (id : nat) (sizes : list nat) : list file :=
  match sizes with
  | [] => []
  | s :: r => mkfile id d (repeat 0%N s) :: mk_files d (S id) r
  end.

Definition init_fs (pre_tmp pre_up : list nat) : fsys :=
  mkfs (mk_files DTmp 0 pre_tmp ++ mk_files DUpload (length pre_tmp) pre_up)
       (length pre_tmp + length pre_up) [].

Definition obs_of (x : world * ret) : obs :=
  let '(w, r) := x in
  let t := w_tx w in
  mkobs (r_err r) (r_intr r) (t_phase t) (t_inbound t) (t_rberr t) (t_rbperr t) (t_mpstrict t)
        (t_p2 t) (t_e t) (length (t_tmpnames t)) (t_nfiles t)
        (bb_len (t_buf t)) (length (bb_mem (t_buf t)))
        (match bb_writer (t_buf t) with Some _ => true | None => false end)
        (rev (w_log w))
        (sizes_in DTmp (fs_files (w_fs w))) (sizes_in DUpload (fs_files (w_fs w)))
        (length (fs_open (w_fs w))).

Fixpoint list_eqb {A} (eqb : A -> A -> bool) (a b : list A) : bool :=
  match a, b with
  | [], [] => true
  | x :: a', y :: b' => eqb x y && list_eqb eqb a' b'
  | _, _ => false
  end.

Definition obs_eqb (a b : obs) : bool :=
  Bool.eqb (o_err a) (o_err b) && Bool.eqb (o_intr a) (o_intr b)
  && (o_phase a =? o_phase b)
  && Bool.eqb (o_inbound a) (o_inbound b) && Bool.eqb (o_rberr a) (o_rberr b)
  && Bool.eqb (o_rbperr a) (o_rbperr b) && Bool.eqb (o_mpstrict a) (o_mpstrict b)
  && (o_p2 a =? o_p2 b) && Bool.eqb (o_e a) (o_e b)
  && (o_ntmp a =? o_ntmp b) && (o_nfiles a =? o_nfiles b)
  && (o_len a =? o_len b) && (o_memlen a =? o_memlen b) && Bool.eqb (o_spilled a) (o_spilled b)
  && list_eqb logmsg_eqb (o_logs a) (o_logs b)
  && list_eqb Nat.eqb (o_tmp a) (o_tmp b) && list_eqb Nat.eqb (o_up a) (o_up b)
  && (o_open a =? o_open b).

Definition tx_is_init (t : txs) : bool :=
  (t_phase t =? 0) && (length (bb_mem (t_buf t)) =? 0) && (bb_len (t_buf t) =? 0)
  && (match bb_writer (t_buf t) with None => true | Some _ => false end)
  && negb (t_intr t) && negb (t_inbound t) && negb (t_rberr t) && negb (t_rbperr t)
  && negb (t_mpstrict t) && (length (t_tmpnames t) =? 0) && (t_nfiles t =? 0) && (t_p2 t =? 0)
  && negb (t_e t) && negb (t_relevant t).

Definition fin_of (x : bool * world) : fin :=
  let '(okc, w) := x in
  mkfin okc (sizes_in DTmp (fs_files (w_fs w))) (sizes_in DUpload (fs_files (w_fs w)))
        (length (fs_open (w_fs w))) (tx_is_init (tx_renew (w_tx w))).

Definition fin_eqb (a b : fin) : bool :=
  Bool.eqb (f_ok a) (f_ok b) && list_eqb Nat.eqb (f_tmp a) (f_tmp b)
  && list_eqb Nat.eqb (f_up a) (f_up b) && (f_open a =? f_open b) && Bool.eqb (f_clean a) (f_clean b).

Definition ok (k : case) : bool :=
  match k with
  | Case c pt pu pr injs calls observed final =>
    let S := oracle_of injs in
    let parse := fun _ : bytes => pr in
    let w0 := init_world (init_fs pt pu) in
    list_eqb obs_eqb (map obs_of (trace parse cur S c calls w0)) observed
    && fin_eqb (fin_of (finish parse cur S c calls w0)) final
  end.

Definition mismatches (l : list case) : list nat := mismatches_of ok l.
