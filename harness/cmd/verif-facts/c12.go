package main

// C12's correspondence evaluates the cache model at the Unicode registry (CaseMap.apply_tu over the case
// tables of gen/FactsC14.v): the C12 check regenerates and re-checks those facts itself so that it does
// not depend on a C14 run having produced them.
func init() { extractors["C12"] = factsC14 }
