(* PoolProofs.v — isolation of recycled transactions (C05), parametric in the source facts. *)
From Coq Require Import String List Bool Arith Lia Permutation.
From Verif Require Import Pool.
Import ListNotations.
Open Scope string_scope.

Lemma mem_true s l : mem s l = true <-> In s l.
Proof.
  unfold mem. rewrite existsb_exists. split.
  - intros (x & Hx & E). apply String.eqb_eq in E. subst. exact Hx.
  - intro H. exists s. split; [exact H | apply String.eqb_refl].
Qed.

Lemma lookup_in f t l : lookup f l = Some t -> In (f, t) l.
Proof.
  induction l as [|[k v] r IH]; cbn; [discriminate|].
  destruct (String.eqb f k) eqn:E.
  - intro H; inversion H; subst. apply String.eqb_eq in E. subst. left; reflexivity.
  - intro H. right. apply IH. exact H.
Qed.

Lemma list_eqb_sub a b s : list_eqb a b = true -> mem s a = true -> mem s b = true.
Proof.
  unfold list_eqb. intros H Hs. apply andb_true_iff in H as [_ H]. rewrite forallb_forall in H.
  apply H. apply mem_true. exact Hs.
Qed.

Section Isolation.
  Variable src : source_facts.
  Hypothesis Htx : tx_fields_ok src = true.
  Hypothesis Hvar : var_fields_ok src = true.
  Hypothesis Hclose : close_ok src = true.

  Lemma close_facts :
    sf_reset_via_all src = true /\ sf_eval_clears_cache src = true
    /\ mem "tx.variables.reset()" (sf_close_calls src) = true
    /\ mem "tx.requestBodyBuffer.Reset()" (sf_close_calls src) = true
    /\ mem "tx.responseBodyBuffer.Reset()" (sf_close_calls src) = true.
  Proof.
    unfold close_ok in Hclose. repeat (apply andb_true_iff in Hclose as [Hclose ?]). auto.
  Qed.

  Lemma stateful_var_is_reset f t :
    lookup f (sf_var_types src) = Some t -> mem t stateless_types = false -> var_is_reset src f = true.
  Proof.
    intros L S. destruct close_facts as (R & _ & C & _ & _).
    unfold var_fields_ok in Hvar. rewrite forallb_forall in Hvar.
    specialize (Hvar (f, t) (lookup_in _ _ _ L)). cbv beta iota in Hvar.
    apply andb_true_iff in Hvar as [_ Hv]. rewrite S in Hv. cbn [orb] in Hv. apply andb_true_iff in Hv as [V T].
    unfold var_is_reset. rewrite R, C, V, L, T. reflexivity.
  Qed.

  Theorem recycled_equals_fresh : forall (w : waf_defaults) (o : obj) (k : string),
    observable src k = true ->
    new_transaction src w (close src o) k = new_transaction src w brand_new k.
  Proof.
    intros w o k Hobs. unfold observable in Hobs. unfold new_transaction.
    destruct (var_field_of k) as [f|] eqn:VF.
    - destruct (lookup f (sf_var_types src)) as [t|] eqn:L; [|discriminate].
      apply negb_true_iff in Hobs.
      destruct (mem f (sf_var_defaults src)); [reflexivity|].
      cbn [o_fresh close brand_new o_val]. rewrite VF.
      rewrite (stateful_var_is_reset f t L Hobs). reflexivity.
    - apply andb_true_iff in Hobs as [Hin Hnc].
      unfold tx_fields_ok in Htx. apply andb_true_iff in Htx as [Htx1 _]. apply andb_true_iff in Htx1 as [Htx1 _].
      apply andb_true_iff in Htx1 as [Hcont Hall]. rewrite forallb_forall in Hall.
      specialize (Hall k (proj1 (mem_true _ _) Hin)).
      destruct (mem k (sf_assigned_always src)); [reflexivity|]. cbn in Hall. rewrite Hall.
      cbn [o_fresh close brand_new o_val]. rewrite VF.
      pose proof (list_eqb_sub _ _ k Hcont Hall) as Hc.
      destruct close_facts as (_ & EC & _ & RB & SB).
      destruct (String.eqb k "requestBodyBuffer") eqn:E1; [rewrite RB; reflexivity|].
      destruct (String.eqb k "responseBodyBuffer") eqn:E2; [rewrite SB; reflexivity|].
      destruct (String.eqb k "variables") eqn:E3; [reflexivity|].
      exfalso. unfold mem, containers in Hc. cbn [existsb] in Hc. rewrite E1, E2, E3 in Hc. cbn in Hc.
      rewrite orb_false_r in Hc. rewrite Hc, EC in Hnc. discriminate.
  Qed.

  (* ---- histories ---- *)
  Variable w : waf_defaults.

  Definition pool_closed (s : pool_state) : Prop :=
    Forall (fun io => exists o', snd io = close src o') (p_pool s).

  Lemma hstep_pool_closed s h : pool_closed s -> pool_closed (hstep src w s h).
  Proof.
    unfold pool_closed. intro H. destruct h as [|id v|id]; cbn [hstep].
    - destruct (p_pool s) as [|[i o] r] eqn:E; cbn [p_pool]; [constructor|]. inversion H; assumption.
    - destruct (find_id id (p_live s)); exact H.
    - destruct (find_id id (p_live s)) as [o|]; [|exact H]. cbn [p_pool]. constructor; [|exact H].
      exists o. reflexivity.
  Qed.

  Lemma hrun_pool_closed hs : pool_closed (hrun src w hs).
  Proof.
    unfold hrun. assert (G : forall s, pool_closed s -> pool_closed (fold_left (hstep src w) hs s)).
    { induction hs as [|h hs IH]; intros s Hs; [exact Hs|]. cbn. apply IH. apply hstep_pool_closed. exact Hs. }
    apply G. constructor.
  Qed.

  (* the state a probe transaction starts from, after ANY history on the same WAF *)
  Definition probe_start (s : pool_state) : string -> nat :=
    match p_pool s with
    | (_, o) :: _ => new_transaction src w o
    | [] => new_transaction src w brand_new
    end.

  Theorem probe_independent_of_history : forall hs k,
    observable src k = true ->
    probe_start (hrun src w hs) k = new_transaction src w brand_new k.
  Proof.
    intros hs k Hk. unfold probe_start. pose proof (hrun_pool_closed hs) as H. unfold pool_closed in H.
    destruct (p_pool (hrun src w hs)) as [|[i o] r]; [reflexivity|].
    inversion H as [|? ? [o' Ho'] ?]; subst. cbn [snd] in Ho'. subst o. apply recycled_equals_fresh. exact Hk.
  Qed.
End Isolation.

(* ---- no aliasing when every Close is of a live transaction ---- *)
Lemma NoDup_app_remove_l {A} (l l' : list A) : NoDup (l ++ l') -> NoDup l'.
Proof. induction l as [|a l IH]; cbn; [tauto|]. intro H. inversion H; auto. Qed.

Definition ids (l : list (nat * obj)) : list nat := map fst l.

Lemma remove_id_ids_incl id l x : In x (ids (remove_id id l)) -> In x (ids l).
Proof.
  induction l as [|[i o] r IH]; cbn; [tauto|]. destruct (Nat.eqb i id); cbn; [tauto|]. intros [H|H]; [left; exact H|right; apply IH; exact H].
Qed.

Lemma remove_id_nodup id l : NoDup (ids l) -> NoDup (ids (remove_id id l)).
Proof.
  induction l as [|[i o] r IH]; cbn; [tauto|]. intro H. inversion H; subst.
  destruct (Nat.eqb i id); [assumption|]. cbn. constructor; [|apply IH; assumption].
  intro Hin. apply remove_id_ids_incl in Hin. contradiction.
Qed.

Lemma find_id_in id l o : find_id id l = Some o -> In id (ids l).
Proof.
  induction l as [|[i o'] r IH]; cbn; [discriminate|]. destruct (Nat.eqb i id) eqn:E.
  - apply Nat.eqb_eq in E. intros _. left. exact E.
  - intro H. right. apply IH. exact H.
Qed.

Lemma remove_id_not_in id l : NoDup (ids l) -> ~ In id (ids (remove_id id l)).
Proof.
  induction l as [|[i o] r IH]; cbn; [tauto|]. intro H. inversion H; subst.
  destruct (Nat.eqb i id) eqn:E.
  - apply Nat.eqb_eq in E. subst. assumption.
  - cbn. intros [F|F]; [apply Nat.eqb_neq in E; contradiction|]. apply IH in F; assumption.
Qed.

Definition alias_free (s : pool_state) : Prop :=
  NoDup (ids (p_pool s) ++ ids (p_live s)) /\ (forall x, In x (ids (p_pool s) ++ ids (p_live s)) -> x < p_next s).

Lemma hstep_alias_free src w s h : alias_free s -> alias_free (hstep src w s h).
Proof.
  intros [ND LT]. destruct h as [|id v|id]; cbn [hstep].
  - destruct (p_pool s) as [|[i o] r] eqn:E; unfold alias_free; cbn [p_pool p_live p_next ids map fst app] in *.
    + split.
      * constructor; [|exact ND]. intro Hin. apply LT in Hin. lia.
      * intros x [<-|Hx]; [lia|]. apply LT in Hx. lia.
    + split.
      * apply NoDup_cons_iff in ND as [Hni ND]. apply NoDup_app_remove_l in ND as NDl.
        (* move i from the pool side to the live side *)
        assert (P : Permutation (i :: ids r ++ ids (p_live s)) (ids r ++ i :: ids (p_live s)))
          by apply Permutation_middle.
        eapply Permutation_NoDup; [exact P|]. constructor; assumption.
      * intros x Hx. apply LT. apply in_app_or in Hx as [Hx|[<-|Hx]]; [right; apply in_or_app; left; exact Hx|left; reflexivity|right; apply in_or_app; right; exact Hx].
  - destruct (find_id id (p_live s)) as [o|] eqn:F; [|split; assumption].
    unfold alias_free; cbn [p_pool p_live p_next].
    change (ids ((id, {| o_fresh := false; o_val := v |}) :: remove_id id (p_live s))) with (id :: ids (remove_id id (p_live s))).
    pose proof (find_id_in _ _ _ F) as Hin.
    apply NoDup_app_remove_l in ND as NDlive.
    split.
    + assert (P : Permutation (id :: ids (p_pool s) ++ ids (remove_id id (p_live s)))
                                          (ids (p_pool s) ++ id :: ids (remove_id id (p_live s))))
        by apply Permutation_middle.
      eapply Permutation_NoDup; [exact P|]. constructor.
      * intro H. apply in_app_or in H as [H|H].
        -- (* id in pool and in live contradicts ND *)
           clear - ND H Hin. induction (ids (p_pool s)) as [|a l IH]; [contradiction|].
           cbn in ND. apply NoDup_cons_iff in ND as [Hn ND]. destruct H as [<-|H].
           ++ apply Hn. apply in_or_app. right. exact Hin.
           ++ apply IH; assumption.
        -- eapply remove_id_not_in; [exact NDlive|exact H].
      * clear - ND. induction (ids (p_pool s)) as [|a l IH]; cbn in *.
        -- apply remove_id_nodup. exact ND.
        -- apply NoDup_cons_iff in ND as [Hn ND]. constructor; [|apply IH; exact ND].
           intro H. apply Hn. apply in_app_or in H as [H|H]; apply in_or_app; [left; exact H|right; eapply remove_id_ids_incl; exact H].
    + intros x Hx. apply in_app_or in Hx as [Hx|[<-|Hx]].
      * apply LT. apply in_or_app. left. exact Hx.
      * apply LT. apply in_or_app. right. exact Hin.
      * apply LT. apply in_or_app. right. eapply remove_id_ids_incl. exact Hx.
  - destruct (find_id id (p_live s)) as [o|] eqn:F; [|split; assumption].
    unfold alias_free; cbn [p_pool p_live p_next].
    change (ids ((id, close src o) :: p_pool s)) with (id :: ids (p_pool s)). cbn [app].
    pose proof (find_id_in _ _ _ F) as Hin.
    apply NoDup_app_remove_l in ND as NDlive.
    split.
    + constructor.
      * intro H. apply in_app_or in H as [H|H].
        -- clear - ND H Hin. induction (ids (p_pool s)) as [|a l IH]; [contradiction|].
           cbn in ND. apply NoDup_cons_iff in ND as [Hn ND]. destruct H as [<-|H].
           ++ apply Hn. apply in_or_app. right. exact Hin.
           ++ apply IH; assumption.
        -- eapply remove_id_not_in; [exact NDlive|exact H].
      * clear - ND. induction (ids (p_pool s)) as [|a l IH]; cbn in *.
        -- apply remove_id_nodup. exact ND.
        -- apply NoDup_cons_iff in ND as [Hn ND]. constructor; [|apply IH; exact ND].
           intro H. apply Hn. apply in_app_or in H as [H|H]; apply in_or_app; [left; exact H|right; eapply remove_id_ids_incl; exact H].
    + intros x [<-|Hx].
      * apply LT. apply in_or_app. right. exact Hin.
      * apply LT. apply in_app_or in Hx as [Hx|Hx]; apply in_or_app; [left; exact Hx|right; eapply remove_id_ids_incl; exact Hx].
Qed.

(* every reachable state: no object is live twice, none is both pooled and live *)
Theorem no_aliasing src w hs : alias_free (hrun src w hs).
Proof.
  unfold hrun. assert (G : forall s, alias_free s -> alias_free (fold_left (hstep src w) hs s)).
  { induction hs as [|h hs IH]; intros s Hs; [exact Hs|]. cbn. apply IH. apply hstep_alias_free. exact Hs. }
  apply G. split; [constructor|intros x []].
Qed.

Corollary live_objects_distinct src w hs : NoDup (ids (p_live (hrun src w hs))).
Proof. destruct (no_aliasing src w hs) as [ND _]. apply NoDup_app_remove_l in ND. exact ND. Qed.

(* F22 (known finding): a second Close of the same object breaks the invariant — two later
   transactions are the same object *)
Theorem double_close_refuted : exists src w s id o,
  alias_free s /\
  let s1 := double_close_step src (hstep src w s (HClose id)) id o in
  let s2 := hstep src w (hstep src w s1 HNew) HNew in
  ~ NoDup (ids (p_live s2)).
Proof.
  set (src := {| sf_tx_fields := []; sf_assigned_always := []; sf_assigned_first_only := []; sf_var_types := [];
                 sf_var_constructed := []; sf_var_visited := []; sf_var_defaults := []; sf_types_with_reset := [];
                 sf_reset_via_all := true; sf_close_calls := []; sf_eval_clears_cache := true |}).
  set (o := {| o_fresh := false; o_val := fun _ => 0 |}).
  exists src, (fun _ => 0), {| p_pool := []; p_live := [(0, o)]; p_next := 1 |}, 0, o.
  split.
  - split; cbn; [repeat constructor; intros []|intros x [<-|[]]; lia].
  - cbn. intro H. inversion H as [|? ? Hn _]; subst. apply Hn. left. reflexivity.
Qed.
