(* CorrC01.v — correspondence checker for C01: evaluates Match.run_tx (the model of rule
   matching, with the concrete semantics csem and the identity order oracle) on the rule sets
   and requests the Go harness ran through real WAFs, and compares the fired rules (in order)
   and their match data (as multisets: Go's map iteration order is not observable here). *)
From Verif Require Import Base Transform CaseMap Match MatchFold.
Open Scope N_scope.

Inductive case :=
  | Case (q : request) (rules : list rule) (obs : list fired)
  (* the same with SecRuleRemoveById directives after the rules *)
  | CaseR (q : request) (rules : list rule) (rms : list removal) (obs : list fired)
  (* the tiny key-pattern matcher against Go's regexp on the pattern's source text *)
  | CRx (p : rxpat) (src : bytes) (lowsrc : bytes) (k : bytes) (res : bool)
  (* a case-insensitive NamedCollection filled with (name, value) pairs of ARBITRARY bytes, then
     FindString(k) (names = false) or its Names view (names = true): MatchFold's collections with
     strings.ToLower = cm_fold lower_table (table regenerated from Go's unicode package) *)
  | CFold (l : list entry) (names : bool) (k : bytes) (obs : list entry)
  (* one operator evaluation against the registered Go operator *)
  | COp (o : op) (v : bytes) (res : bool).

Fixpoint remove1 {A} (eqb : A -> A -> bool) (x : A) (l : list A) : option (list A) :=
  match l with
  | [] => None
  | y :: r => if eqb x y then Some r
              else match remove1 eqb x r with Some r' => Some (y :: r') | None => None end
  end.
Fixpoint perm_eqb {A} (eqb : A -> A -> bool) (a b : list A) : bool :=
  match a with
  | [] => is_nil b
  | x :: a' => match remove1 eqb x b with Some b' => perm_eqb eqb a' b' | None => false end
  end.

Definition md_eqb (a b : mdata * nat) : bool :=
  let '((v1, k1, x1), l1) := a in
  let '((v2, k2, x2), l2) := b in
  var_eqb v1 v2 && bytes_eqb k1 k2 && bytes_eqb x1 x2 && Nat.eqb l1 l2.

Fixpoint fired_eqb (a b : list fired) : bool :=
  match a, b with
  | [], [] => true
  | (i, m) :: a', (j, n) :: b' => (i =? j) && perm_eqb md_eqb m n && fired_eqb a' b'
  | _, _ => false
  end.

(* lower_table: Go's unicode.ToLower as a range table; the shards pass VerifGen.FactsC14.lower_table (regenerated
   on every run); theories never import generated files, so that a fresh tree builds before any translator ran *)
Definition ok (lower_table : list case_range) (c : case) : bool :=
  match c with
  | Case q rules obs => fired_eqb (run_tx csem ord_id q rules) obs
  | CaseR q rules rms obs => fired_eqb (run_tx csem ord_id q (remove_rules rms rules)) obs
  | CRx p src lowsrc k res =>
    bytes_eqb (rx_small_src p) src && bytes_eqb (rx_small_src (rx_small_low p)) lowsrc
    && Bool.eqb (rx_small p k) res
  | CFold l names k obs =>
    let m := fmap_of_list (cm_fold lower_table) l in
    perm_eqb (fun a b : entry => bytes_eqb (fst a) (fst b) && bytes_eqb (snd a) (snd b))
             (if names then names_view (ffind_string (cm_fold lower_table) m k)
              else ffind_string_map (cm_fold lower_table) m k) obs
  | COp o v res => Bool.eqb (op_small o v) res
  end.

Definition mismatches (lower_table : list case_range) (l : list case) : list nat := mismatches_of (ok lower_table) l.
