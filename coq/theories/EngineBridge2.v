(* EngineBridge2.v — composition of the C09 model (Setvar.v: doEvaluate's per-target / per-value
   loop with the ACTIONS that run on every match; the operator is a parameter, the number of
   matched values of a link is whatever its own evaluation finds) with the C01 model (Match.v:
   WHICH values a link matches - selection, exclusions, counts, transformations, operator,
   negation - with a declarative specification).

   Definitions only (proofs: EngineBridge2Proofs.v).

   The two models have their own rules, requests and states.  The bridge is a TRANSLATION:
     - a bridged link (blink) is a Match.v link together with a Setvar.v link that supplies what
       Match.v does not have (ids, actions, msg/logdata, severity, capture, chain flag); bl_sv
       builds the Setvar.v link whose targets / operator / negation / transformations / multiMatch
       are those of the Match.v link;
     - Setvar's operator parameter is instantiated by b2_op: Match.v's operator semantics (opev X)
       on the transformed value, no captures;
     - a Match.v state st and a Setvar.v environment e must describe the same request (b2_agree).
   Covered fragment (boolean guard b2_link_ok): targets over ARGS, ARGS_GET, REQUEST_HEADERS with
   no key / a string key, with or without & (count), no exclusions, no regex keys; any operator of
   Match.v, negation, any transformation list, multiMatch, SecAction links, chains of any length.
   Outside: targets that read what the link's own matches / actions change while it is being
   evaluated (TX, MATCHED_VAR: not in Setvar.v's covered variable table; see b2_same_link_matched_var_agree in the proofs file), request bodies
   (Setvar.v's ARGS is the query string only: b2_agree asks for empty ARGS_POST / path arguments). *)
From Coq Require Import String ZArith.
From Verif Require Import Base Utf8 Transform Match Setvar SetvarProofs.
Open Scope N_scope.

(* ------------------------------------------------------------------------------------ *)
(* variables, targets, operator                                                          *)
(* ------------------------------------------------------------------------------------ *)
Definition b2_var (v : Match.var) : Setvar.var :=
  match v with
  | Match.VArgs => Setvar.VArgs
  | Match.VArgsGet => Setvar.VArgsGet
  | Match.VReqHeaders => Setvar.VHeaders
  | Match.VTx => Setvar.VTx
  | Match.VMatchedVar => Setvar.VMatchedVar
  | _ => Setvar.VUnknown
  end.
Definition b2_var_ok (v : Match.var) : bool :=
  match v with Match.VArgs | Match.VArgsGet | Match.VReqHeaders => true | _ => false end.

(* the compiled target (ruleVariableParams): variable, KeyStr as newRuleVariableParams stores it, Count *)
Definition b2_target (X : sem) (t : rtarget) : Setvar.target :=
  {| tg_var := b2_var (rt_var t); tg_key := c_keystr (compile_target X t); tg_count := rt_count t |}.

Definition b2_sel_ok (s : sel) : bool := match s with SelRx _ => false | _ => true end.
Definition b2_rtarget_ok (t : rtarget) : bool :=
  b2_var_ok (rt_var t) && b2_sel_ok (rt_sel t) && is_nil (rt_negs t).

(* Setvar's operator parameter := Match's operator on the (transformed) value; no captures *)
Definition b2_op (X : sem) : op -> env -> st -> bytes -> bool * list (N * bytes) :=
  fun o _ _ v => (opev X o v, []).

(* ------------------------------------------------------------------------------------ *)
(* links and rules                                                                       *)
(* ------------------------------------------------------------------------------------ *)
Record blink := { bl_m : Match.link; bl_d : Setvar.link op }.

Definition b2_lop (X : sem) (ml : Match.link) : option (list Setvar.target * op * bool) :=
  match Match.l_kind ml with
  | LAction _ => None
  | LRule neg o => Some (map (b2_target X) (targets_of_items (Match.l_items ml)), o, neg)
  end.

(* the Setvar.v link: decoration from bl_d, matching from bl_m *)
Definition bl_sv (X : sem) (b : blink) : Setvar.link op :=
  {| Setvar.l_id := Setvar.l_id (bl_d b); Setvar.l_logid := Setvar.l_logid (bl_d b);
     Setvar.l_parent := Setvar.l_parent (bl_d b);
     Setvar.l_op := b2_lop X (bl_m b);
     Setvar.l_tfs := Match.l_tfs (bl_m b); Setvar.l_multi := Match.l_multi (bl_m b);
     Setvar.l_capture := Setvar.l_capture (bl_d b); Setvar.l_haschain := Setvar.l_haschain (bl_d b);
     Setvar.l_msg := Setvar.l_msg (bl_d b); Setvar.l_logdata := Setvar.l_logdata (bl_d b);
     Setvar.l_sev := Setvar.l_sev (bl_d b); Setvar.l_actions := Setvar.l_actions (bl_d b) |}.

Definition b2_link_ok (b : blink) : bool :=
  forallb b2_rtarget_ok (targets_of_items (Match.l_items (bl_m b))).

Record brule := { br_phase : N; br_head : blink; br_chain : list blink }.
Definition br_links (r : brule) : list blink := br_head r :: br_chain r.
Definition br_sv (X : sem) (r : brule) : Setvar.rule op :=
  {| Setvar.r_phase := br_phase r; Setvar.r_head := bl_sv X (br_head r);
     Setvar.r_chain := map (bl_sv X) (br_chain r) |}.
Definition br_ok (r : brule) : bool := forallb b2_link_ok (br_links r).

(* ------------------------------------------------------------------------------------ *)
(* the same request in both models                                                       *)
(* ------------------------------------------------------------------------------------ *)
Definition b2_env (q : request) : env := {| e_args := q_get q; e_hdrs := q_hdr q |}.

(* "the Match.v state st and the environment e describe the same request" is the Prop b2_agree of
   the proofs file; b2_env q agrees with Match.build1 q *)

(* ------------------------------------------------------------------------------------ *)
(* match data of both models as (variable name, key, value) triples                      *)
(* ------------------------------------------------------------------------------------ *)
Definition b2_triple := (bytes * bytes * bytes)%type.
Definition sv_triple (m : Setvar.mdata) : b2_triple := (md_var m, md_key m, Setvar.md_value m).
Definition m_triple (m : Match.mdata) : b2_triple := (var_name (b2_var (fst (fst m))), snd (fst m), snd m).

(* ------------------------------------------------------------------------------------ *)
(* the number of matches of a link, by Match.v's DECLARATIVE specification               *)
(* ------------------------------------------------------------------------------------ *)
(* spec_link_matches X st l = for every raw target t, for every entry spec_selects X st t selects
   (case-insensitive key / everything, or the count), every transformed value satisfying the
   operator xor '!' *)
Definition b2_count (X : sem) (st : state) (b : blink) : nat :=
  List.length (spec_link_matches X st (bl_m b)).

(* the chain walk: link k+1 is evaluated only if link k matched something *)
Fixpoint b2_chain_counts (X : sem) (st : state) (bs : list blink) : list nat :=
  match bs with
  | [] => []
  | b :: r => b2_count X st b :: (if Nat.eqb (b2_count X st b) 0 then [] else b2_chain_counts X st r)
  end.

Open Scope Z_scope.
Fixpoint b2_chain_sum (f : Setvar.link op -> Z) (X : sem) (st : state) (bs : list blink) : Z :=
  match bs with
  | [] => 0
  | b :: r => Z.of_nat (b2_count X st b) * f (bl_sv X b)
              + (if Nat.eqb (b2_count X st b) 0 then 0 else b2_chain_sum f X st r)
  end.
Definition b2_rule_sum (f : Setvar.link op -> Z) (X : sem) (st : state) (r : brule) : Z :=
  b2_chain_sum f X st (br_links r).

(* the sum over the rules a transaction evaluates: SetvarProofs.rules_sum / phase_sum /
   phases_sum / tx_sum with the number of matches of every link given by Match.v's specification
   (the Setvar.v state is only consulted for "has a disruptive action interrupted the
   transaction", as in RuleGroup.Eval) *)
Fixpoint b2_rules_sum (f : Setvar.link op -> Z) (X : sem) (st : state) (e : env) (phase : N)
         (rs : list brule) (s : Setvar.st) : Z :=
  match rs with
  | [] => 0
  | r :: rest =>
    match s_interrupted s, negb (phase =? 5)%N with
    | Some _, true => 0
    | _, _ =>
      if (br_phase r =? phase)%N then
        b2_rule_sum f X st r +
        b2_rules_sum f X st e phase rest
          (st_with_capture (Setvar.eval_rule (b2_op X) e (br_sv X r) (st_reset_mvs s)) false)
      else b2_rules_sum f X st e phase rest s
    end
  end.
Definition b2_phase_sum (f : Setvar.link op -> Z) (X : sem) (st : state) (e : env) (rs : list brule)
           (s : Setvar.st) (phase : N) : Z :=
  match s_interrupted s, negb (phase =? 5)%N with
  | Some _, true => 0
  | _, _ => b2_rules_sum f X st e phase rs s
  end.
Fixpoint b2_phases_sum (f : Setvar.link op -> Z) (X : sem) (st : state) (e : env) (rs : list brule)
         (ps : list N) (s : Setvar.st) : Z :=
  match ps with
  | [] => 0
  | p :: r => b2_phase_sum f X st e rs s p +
              b2_phases_sum f X st e rs r (Setvar.eval_phase (b2_op X) e (map (br_sv X) rs) s p)
  end.
Definition b2_tx_sum (f : Setvar.link op -> Z) (X : sem) (st : state) (e : env) (rs : list brule)
           (s : Setvar.st) : Z :=
  b2_phases_sum f X st e rs [1; 2; 3; 4; 5]%N s.

(* no disruptive action that interrupts (deny): then nothing stops the walk over the phases and
   the sum is a plain sum over phases 1..5, rules in configuration order, links of the chain *)
Definition b2_no_deny_acts (acts : list action) : bool :=
  forallb (fun a => match a with ADisr _ true => false | _ => true end) acts.
Definition br_no_deny (r : brule) : bool := b2_no_deny_acts (Setvar.l_actions (bl_d (br_head r))).

Definition b2_plain_phase_sum (f : Setvar.link op -> Z) (X : sem) (st : state) (rs : list brule) (phase : N) : Z :=
  fold_right Z.add 0 (map (fun r => if (br_phase r =? phase)%N then b2_rule_sum f X st r else 0) rs).
Definition b2_plain_tx_sum (f : Setvar.link op -> Z) (X : sem) (st : state) (rs : list brule) : Z :=
  fold_right Z.add 0 (map (b2_plain_phase_sum f X st rs) [1; 2; 3; 4; 5]%N).
