(* DeterminismProofs.v — proofs about Determinism.v (C04).

   Main result: [order_independent]: for an order-insensitive configuration the observable
   outcome is the same under any two permutation oracles.  Structure:
   - [E tm tc]: two states agree on everything observable; on MATCHED_VAR(_NAME) unless [tm],
     on TX.0-9 unless [tc];
   - actions / one entry respect [E] ([step_respects]);
   - in a link with a multi-valued target two entries commute up to [E true _]
     ([step_commute]); the general lemma [fold_perm_equiv] (Permutation induction: perm_skip /
     perm_swap / perm_trans) lifts this to any two orders of the selected entries;
   - links without multi-valued target select at most one entry per target: the oracle cannot
     change anything, and after a match MATCHED_VAR is equal again;
   - chains, rules, phases, transaction by induction over the configuration.  *)
From Verif Require Import Base Transform Determinism.
From Coq Require Import Permutation.
From Coq Require Import String.
Open Scope N_scope.

(* ------------------------------------------------------------------------------------- *)
(* the key lemma: a fold of pairwise commuting steps is invariant under permutation      *)
(* ------------------------------------------------------------------------------------- *)

Section FoldPerm.
  Variables (S A : Type) (R : S -> S -> Prop) (step : S -> A -> S).
  Hypothesis R_refl : forall s, R s s.
  Hypothesis R_trans : forall a b c, R a b -> R b c -> R a c.
  Hypothesis step_resp : forall s s' a, R s s' -> R (step s a) (step s' a).
  Hypothesis step_comm : forall s a b, R (step (step s a) b) (step (step s b) a).

  Lemma fold_resp : forall l s s', R s s' -> R (fold_left step l s) (fold_left step l s').
  Proof. induction l as [|a l IH]; intros s s' H; cbn; [exact H | apply IH, step_resp, H]. Qed.

  Lemma fold_perm_equiv : forall l l', Permutation l l' ->
    forall s s', R s s' -> R (fold_left step l s) (fold_left step l' s').
  Proof.
    induction 1 as [| x l l' HP IH | x y l | l l' l'' HP1 IH1 HP2 IH2]; intros s s' H.
    - exact H.
    - cbn. apply IH, step_resp, H.
    - cbn. eapply R_trans.
      + apply fold_resp, step_comm.
      + apply fold_resp, step_resp, step_resp, H.
    - eapply R_trans; [apply IH1, R_refl | apply IH2, H].
  Qed.
End FoldPerm.

(* ------------------------------------------------------------------------------------- *)
(* the relation between two runs                                                         *)
(* ------------------------------------------------------------------------------------- *)

Definition E (tm tc : bool) (s s' : st) : Prop :=
  s_tx s = s_tx s' /\ s_intr s = s_intr s' /\ s_hs s = s_hs s' /\ fired_equiv (s_fired s) (s_fired s')
  /\ (tm = false -> s_mv s = s_mv s' /\ s_mvn s = s_mvn s')
  /\ (tc = false -> s_cap s = s_cap s').

Ltac E_split := split; [|split; [|split; [|split; [|split]]]].

Lemma fired_equiv_refl l : fired_equiv l l.
Proof. induction l; constructor; auto. Qed.

Lemma fired_equiv_sym a b : fired_equiv a b -> fired_equiv b a.
Proof. induction 1; constructor; auto. destruct H; split; [congruence | apply Permutation_sym; auto]. Qed.

Lemma fired_equiv_trans a b c : fired_equiv a b -> fired_equiv b c -> fired_equiv a c.
Proof.
  intros H; revert c; induction H as [|x y l l' Hxy Hl IH]; intros c Hc; inversion Hc as [|y' z l2 l3 Hyz Hl3]; subst; constructor.
  - destruct Hxy, Hyz; split; [congruence | eapply Permutation_trans; eauto].
  - apply IH; auto.
Qed.

Lemma E_refl tm tc s : E tm tc s s.
Proof. E_split; auto using fired_equiv_refl. Qed.

Lemma E_sym tm tc s s' : E tm tc s s' -> E tm tc s' s.
Proof.
  intros (H1 & H2 & H3 & H4 & H5 & H6). E_split; auto using fired_equiv_sym.
  - intros H. destruct (H5 H). split; congruence.
  - intros H. symmetry; auto.
Qed.

Lemma E_trans tm tc a b c : E tm tc a b -> E tm tc b c -> E tm tc a c.
Proof.
  intros (H1 & H2 & H3 & H4 & H5 & H6) (G1 & G2 & G3 & G4 & G5 & G6).
  split; [congruence|]. split; [congruence|]. split; [congruence|].
  split; [eauto using fired_equiv_trans|]. split.
  - intros H. destruct (H5 H), (G5 H). split; congruence.
  - intros H. rewrite H6, G6; auto.
Qed.

Definition ble (x y : bool) : Prop := x = true -> y = true.

Lemma ble_false x y : ble x y -> y = false -> x = false.
Proof. unfold ble; destruct x, y; intros; auto. discriminate (H eq_refl). Qed.

Lemma E_weaken tm tc tm' tc' s s' : ble tm tm' -> ble tc tc' -> E tm tc s s' -> E tm' tc' s s'.
Proof.
  intros Hm Hc (H1 & H2 & H3 & H4 & H5 & H6). E_split; auto.
  - intros H. apply H5. eapply ble_false; eauto.
  - intros H. apply H6. eapply ble_false; eauto.
Qed.

(* ------------------------------------------------------------------------------------- *)
(* state updates respect E                                                               *)
(* ------------------------------------------------------------------------------------- *)

Lemma E_st_set tm tc s s' k v : E tm tc s s' -> E tm tc (st_set s k v) (st_set s' k v).
Proof.
  intros (H1 & H2 & H3 & H4 & H5 & H6). unfold st_set.
  destruct (is_cap_key k); E_split; cbn; auto; try congruence.
  intros H. rewrite H6; auto.
Qed.

Lemma E_set_mv tm tc s s' v n : E tm tc s s' -> E false tc (st_set_mv s v n) (st_set_mv s' v n).
Proof. intros (H1 & H2 & H3 & H4 & H5 & H6). E_split; cbn; auto. Qed.

Lemma E_tick tm tc s s' : E tm tc s s' -> E tm tc (st_tick s) (st_tick s').
Proof. intros (H1 & H2 & H3 & H4 & H5 & H6). E_split; cbn; auto. Qed.

Lemma W_set_mv tc s v n : E true tc s (st_set_mv s v n).
Proof. E_split; cbn; auto using fired_equiv_refl; discriminate. Qed.

Lemma W_set_cap s k v : is_cap_key k = true -> E true true s (st_set s k v).
Proof. intros Hk. unfold st_set; rewrite Hk. E_split; cbn; auto using fired_equiv_refl; discriminate. Qed.

Lemma st_get_E tm tc s s' k :
  E tm tc s s' -> (is_cap_key k = true -> tc = false) -> st_get s k = st_get s' k.
Proof.
  intros (H1 & H2 & H3 & H4 & H5 & H6) Hk. unfold st_get.
  destruct (is_cap_key k); [rewrite H6; auto | rewrite H1; auto].
Qed.

(* ------------------------------------------------------------------------------------- *)
(* macros and setvar                                                                     *)
(* ------------------------------------------------------------------------------------- *)

Lemma expand_E tm tc s s' m :
  E tm tc s s' ->
  (existsb part_reads_mv m = true -> tm = false) ->
  (existsb part_reads_cap m = true -> tc = false) ->
  expand s m = expand s' m.
Proof.
  intros HE. unfold expand. induction m as [|p m IH]; intros Hm Hc; cbn; [reflexivity|].
  cbn in Hm, Hc. f_equal.
  - destruct p; cbn; auto.
    + destruct HE as (_ & _ & _ & _ & H5 & _). apply H5. apply Hm. reflexivity.
    + destruct HE as (_ & _ & _ & _ & H5 & _). apply H5. apply Hm. reflexivity.
    + rewrite (st_get_E _ _ _ _ k HE); auto. intros Hk. apply Hc. cbn. rewrite Hk. reflexivity.
  - apply IH; intros H; [apply Hm | apply Hc]; rewrite H; apply orb_true_r.
Qed.

Lemma setvar_E tm tc s s' k v :
  is_cap_key k = false -> E tm tc s s' -> E tm tc (setvar_apply s k v) (setvar_apply s' k v).
Proof.
  intros Hk HE.
  assert (Hg : st_get s k = st_get s' k) by (apply (st_get_E _ _ _ _ k HE); congruence).
  unfold setvar_apply. rewrite Hg.
  destruct v as [|c rest]; [apply E_st_set; auto|].
  destruct ((c =? 43) || (c =? 45)); [|apply E_st_set; auto].
  destruct rest as [|d rest'].
  - destruct (cur_int (st_get s' k)); auto using E_st_set.
  - destruct (atoi (d :: rest')).
    + destruct (cur_int (st_get s' k)); auto using E_st_set.
    + destruct (is_prefix _ _); auto using E_st_set.
Qed.

Definition act_ok (tm tc : bool) (a : action) : Prop :=
  act_writes_cap a = false /\ (act_reads_mv a = true -> tm = false) /\ (act_reads_cap a = true -> tc = false).

Lemma act_E tm tc s s' a : act_ok tm tc a -> E tm tc s s' -> E tm tc (act_apply s a) (act_apply s' a).
Proof.
  destruct a as [k m]. intros (Hw & Hm & Hc) HE. cbn in *.
  rewrite (expand_E tm tc s s' m HE Hm Hc). apply setvar_E; auto.
Qed.

Lemma acts_E tm tc acts : Forall (act_ok tm tc) acts ->
  forall s s', E tm tc s s' -> E tm tc (fold_left act_apply acts s) (fold_left act_apply acts s').
Proof.
  induction 1 as [|a l Ha Hl IH]; intros s s' HE; cbn; [exact HE|]. apply IH, act_E; auto.
Qed.

(* setvar never touches MATCHED_VAR / MATCHED_VAR_NAME *)
Lemma st_set_mv_same s k v : s_mv (st_set s k v) = s_mv s /\ s_mvn (st_set s k v) = s_mvn s.
Proof. unfold st_set; destruct (is_cap_key k); cbn; auto. Qed.

Lemma setvar_mv_same s k v : s_mv (setvar_apply s k v) = s_mv s /\ s_mvn (setvar_apply s k v) = s_mvn s.
Proof.
  unfold setvar_apply.
  destruct v as [|c rest]; [apply st_set_mv_same|].
  destruct ((c =? 43) || (c =? 45)); [|apply st_set_mv_same].
  destruct rest as [|d rest'].
  - destruct (cur_int _); auto using st_set_mv_same.
  - destruct (atoi _); [destruct (cur_int _)|destruct (is_prefix _ _)]; auto using st_set_mv_same.
Qed.

Lemma acts_mv_same acts : forall s,
  s_mv (fold_left act_apply acts s) = s_mv s /\ s_mvn (fold_left act_apply acts s) = s_mvn s.
Proof.
  induction acts as [|[k m] l IH]; intros s; cbn; [auto|].
  destruct (IH (setvar_apply s k (expand s m))) as [-> ->]. apply setvar_mv_same.
Qed.

(* ------------------------------------------------------------------------------------- *)
(* one selected entry                                                                    *)
(* ------------------------------------------------------------------------------------- *)

Definition tval (lk : link) (e : entry) : bytes := fst (exec_tfs (l_tfs lk) (e_val e)).
Definition matches (lk : link) (e : entry) : bool := xorb (op_raw (l_op lk) (tval lk e)) (l_neg lk).
Definition mentry (lk : link) (e : entry) : entry := mkE (e_var e) (e_key e) (tval lk e).
Definition mlist (lk : link) (e : entry) : list entry := if matches lk e then [mentry lk e] else [].
Definition cap_write (lk : link) (e : entry) (s : st) : st :=
  if op_raw (l_op lk) (tval lk e) && l_capture lk
  then match op_cap (l_op lk) (tval lk e) with Some c => st_set s (str "0"%string) (mk_tv c) | None => s end
  else s.
Definition run_acts (lk : link) (s : st) : st := fold_left act_apply (l_acts lk) s.

Lemma step_unfold lk p e :
  step_entry lk p e =
  (if matches lk e
   then run_acts lk (st_set_mv (cap_write lk e (fst p)) (tval lk e) (match_name (mentry lk e)))
   else cap_write lk e (fst p),
   snd p ++ mlist lk e).
Proof.
  unfold step_entry, mlist, matches, cap_write, run_acts, mentry, tval.
  destruct (xorb _ _); cbn; [reflexivity | rewrite app_nil_r; reflexivity].
Qed.

Lemma step_snd lk p e : snd (step_entry lk p e) = snd p ++ mlist lk e.
Proof. rewrite step_unfold; reflexivity. Qed.

Lemma cap_write_E a b lk e s s' : E a b s s' -> E a b (cap_write lk e s) (cap_write lk e s').
Proof.
  intros H. unfold cap_write. destruct (_ && _); auto. destruct (op_cap _ _); auto using E_st_set.
Qed.

Lemma cap_write_id lk e s : captures lk = false -> cap_write lk e s = s.
Proof.
  unfold captures, cap_write. intros H.
  destruct (l_capture lk); [|rewrite andb_false_r; reflexivity].
  cbn in H. destruct (l_op lk); try discriminate; cbn;
    repeat match goal with |- context [if ?c then _ else _] => destruct c end; reflexivity.
Qed.

Lemma cap_write_W b lk e s : (captures lk = true -> b = true) -> E true b s (cap_write lk e s).
Proof.
  intros H. destruct (captures lk) eqn:Hc.
  - rewrite (H eq_refl). unfold cap_write. destruct (_ && _); [|apply E_refl].
    destruct (op_cap _ _); [apply W_set_cap; reflexivity | apply E_refl].
  - rewrite cap_write_id; auto using E_refl.
Qed.

Lemma step_respects a b lk p p' e :
  Forall (act_ok false b) (l_acts lk) ->
  E a b (fst p) (fst p') ->
  E a b (fst (step_entry lk p e)) (fst (step_entry lk p' e))
  /\ (matches lk e = true -> E false b (fst (step_entry lk p e)) (fst (step_entry lk p' e))).
Proof.
  intros Ha HE. rewrite !step_unfold. cbn [fst].
  destruct (matches lk e).
  - assert (H : E false b (run_acts lk (st_set_mv (cap_write lk e (fst p)) (tval lk e) (match_name (mentry lk e))))
                          (run_acts lk (st_set_mv (cap_write lk e (fst p')) (tval lk e) (match_name (mentry lk e))))).
    { apply acts_E; auto. eapply E_set_mv, cap_write_E, HE. }
    split; [|auto]. eapply E_weaken; [| |exact H]; unfold ble; auto; discriminate.
  - split; [apply cap_write_E, HE | discriminate].
Qed.

(* pairs (state, matched data so far) *)
Definition EP (a b : bool) (p p' : st * list entry) : Prop :=
  E a b (fst p) (fst p') /\ Permutation (snd p) (snd p').

Lemma EP_refl a b p : EP a b p p.
Proof. split; [apply E_refl | apply Permutation_refl]. Qed.

Lemma EP_trans a b p q r : EP a b p q -> EP a b q r -> EP a b p r.
Proof. intros [H1 H2] [G1 G2]. split; [eapply E_trans | eapply Permutation_trans]; eauto. Qed.

Lemma step_EP a b lk p p' e :
  Forall (act_ok false b) (l_acts lk) -> EP a b p p' -> EP a b (step_entry lk p e) (step_entry lk p' e).
Proof.
  intros Ha [HE HP]. split.
  - apply step_respects; auto.
  - rewrite !step_snd. apply Permutation_app_tail, HP.
Qed.

(* normal form of one entry's effect up to [E true b] in a link whose actions do not look at the
   match: the actions ran, or nothing happened *)
Definition nf (lk : link) (e : entry) (s : st) : st := if matches lk e then run_acts lk s else s.

Lemma nf_E b lk e s s' : Forall (act_ok true b) (l_acts lk) -> E true b s s' -> E true b (nf lk e s) (nf lk e s').
Proof. intros Ha H. unfold nf. destruct (matches lk e); auto. apply acts_E; auto. Qed.

Lemma nf_comm lk x y s : nf lk y (nf lk x s) = nf lk x (nf lk y s).
Proof. unfold nf. destruct (matches lk x), (matches lk y); reflexivity. Qed.

Lemma step_nf b lk p e :
  Forall (act_ok true b) (l_acts lk) -> (captures lk = true -> b = true) ->
  E true b (fst (step_entry lk p e)) (nf lk e (fst p)).
Proof.
  intros Ha Hc. rewrite step_unfold. cbn [fst]. unfold nf. destruct (matches lk e).
  - apply acts_E; auto. apply E_sym. eapply E_trans; [apply (cap_write_W b lk e); auto | apply W_set_mv].
  - apply E_sym, cap_write_W; auto.
Qed.

Lemma step_commute b lk p x y :
  Forall (act_ok true b) (l_acts lk) -> (captures lk = true -> b = true) ->
  EP true b (step_entry lk (step_entry lk p x) y) (step_entry lk (step_entry lk p y) x).
Proof.
  intros Ha Hc. split.
  - eapply E_trans; [apply step_nf; auto|].
    eapply E_trans; [apply nf_E; [auto | apply step_nf; auto]|].
    rewrite nf_comm. apply E_sym.
    eapply E_trans; [apply step_nf; auto|]. apply nf_E; [auto | apply step_nf; auto].
  - rewrite !step_snd, <- !app_assoc. apply Permutation_app_head, Permutation_app_comm.
Qed.

Lemma act_ok_weaken b a : act_ok true b a -> act_ok false b a.
Proof. intros (H1 & H2 & H3). split; [auto | split; auto]. Qed.

(* any two orders of the selected entries, in a link whose actions do not look at the match *)
Lemma entries_perm b lk l l' p p' :
  Forall (act_ok true b) (l_acts lk) -> (captures lk = true -> b = true) ->
  Permutation l l' -> EP true b p p' ->
  EP true b (fold_left (step_entry lk) l p) (fold_left (step_entry lk) l' p').
Proof.
  intros Ha Hc HP H.
  apply (fold_perm_equiv _ _ (EP true b) (step_entry lk)); auto.
  - apply EP_refl.
  - apply EP_trans.
  - intros s s' e Hs. apply step_EP; auto. eapply Forall_impl; [|exact Ha]. apply act_ok_weaken.
  - intros s x y. apply step_commute; auto.
Qed.

(* the same order on both sides; after a match MATCHED_VAR agrees again *)
Definition I (a b : bool) (p p' : st * list entry) : Prop :=
  EP a b p p' /\ (snd p <> [] -> E false b (fst p) (fst p')).

Lemma step_I a b lk p p' e :
  Forall (act_ok false b) (l_acts lk) -> I a b p p' -> I a b (step_entry lk p e) (step_entry lk p' e).
Proof.
  intros Ha [HEP Hm]. split; [apply step_EP; auto|].
  rewrite step_snd. unfold mlist. destruct (matches lk e) eqn:Hmt.
  - intros _. destruct (step_respects a b lk p p' e Ha (proj1 HEP)) as [_ H]. apply H, Hmt.
  - rewrite app_nil_r. intros Hne. apply (step_respects false b); auto.
Qed.

Lemma entries_same a b lk l : Forall (act_ok false b) (l_acts lk) ->
  forall p p', I a b p p' -> I a b (fold_left (step_entry lk) l p) (fold_left (step_entry lk) l p').
Proof. intros Ha. induction l as [|e l IH]; intros p p' H; cbn; [exact H | apply IH, step_I; auto]. Qed.
