// Package c17 drives the correspondence for C17 (rule exclusions and updates equal the rewritten
// rule set). A case is a base rule set (source form) + optional SecDefaultAction lines + at most ONE
// configuration-time directive (SecRuleRemoveById/ByTag/ByMsg, SecRuleUpdateTargetById/ByTag,
// SecRuleUpdateActionById) or ctl:ruleRemove* actions carried by rules of the set, and a few requests.
// The real parser compiles the SecLang text, real transactions run phases 1 and 2, the observables are
// the matched rules (id + multiset of matched (variable,key,value)) and the interruption.
//   (a) Coq evaluates Config.v (cf_compile, cf_apply, cf_outcome) on the same source and compares;
//   (b) rewrite.go renders the EXPLICITLY REWRITTEN SecLang text (independently of the model) and the
//       implementation of the directive / ctl form must behave like the implementation of that text;
//   (c) ctl locality: after a transaction that executed the ctl, a second transaction on the same WAF
//       behaves like on a fresh WAF.
package c17

import (
	"encoding/json"
	"fmt"
	"os"
	"path/filepath"
	"sort"
	"strconv"
	"strings"

	"github.com/corazawaf/coraza/v3"
	"github.com/corazawaf/coraza/v3/verifharness/vh"
)

func init() { vh.Register("C17", Run) }

// ---- case description (JSON) ----

type keyJ struct {
	K string `json:"k"` // none | str | rx
	V string `json:"v,omitempty"`
}

type titemJ struct {
	Neg bool   `json:"neg,omitempty"`
	Cnt bool   `json:"cnt,omitempty"`
	Var string `json:"var"` // ARGS | ARGS_NAMES | REQUEST_HEADERS | REQUEST_METHOD
	Key keyJ   `json:"key"`
}

type opJ struct {
	Neg bool   `json:"neg,omitempty"`
	K   string `json:"k"` // contains | streq | always
	Lit string `json:"lit,omitempty"`
}

type specJ struct {
	Range bool `json:"range,omitempty"`
	A     int  `json:"a"`
	B     int  `json:"b,omitempty"`
}

type ctlJ struct {
	Kind string  `json:"kind"` // rmId | rmTag | rmMsg | rmTargetId | rmTargetTag | rmTargetMsg
	Spec *specJ  `json:"spec,omitempty"`
	Val  string  `json:"val,omitempty"`
	Var  string  `json:"var,omitempty"`
	Key  *keyJ   `json:"key,omitempty"`
}

type actJ struct {
	A   string `json:"a"` // tag | msg | status | disr | ctl | skipAfter | skip | nop
	V   string `json:"v,omitempty"`
	N   int    `json:"n,omitempty"`
	Ctl *ctlJ  `json:"ctl,omitempty"`
}

type linkJ struct {
	Targets []titemJ `json:"targets"`
	Op      opJ      `json:"op"`
	Acts    []actJ   `json:"acts,omitempty"`
}

type itemJ struct {
	Marker string  `json:"marker,omitempty"`
	ID     int     `json:"id,omitempty"`
	Phase  int     `json:"phase,omitempty"`
	Links  []linkJ `json:"links,omitempty"`
}

type dirJ struct {
	Kind   string   `json:"kind"` // rmId | rmTag | rmMsg | updTargetId | updTargetTag | updActionId
	Specs  []specJ  `json:"specs,omitempty"`
	Val    string   `json:"val,omitempty"`
	Items  []titemJ `json:"items,omitempty"`
	Acts   []actJ   `json:"acts,omitempty"`
	Quoted bool     `json:"quoted,omitempty"` // render the id list / tag inside double quotes
}

type dfltJ struct {
	Phase int    `json:"phase"`
	Disr  string `json:"disr"`
}

type reqJ struct {
	Method  string      `json:"method"`
	Args    [][2]string `json:"args,omitempty"`
	Headers [][2]string `json:"headers,omitempty"`
}

type mdJ struct {
	Var string `json:"var"`
	Key string `json:"key"`
	Val string `json:"val"`
}

type matchJ struct {
	ID    int   `json:"id"`
	Datas []mdJ `json:"datas"`
}

type intrJ struct {
	Status int    `json:"status"`
	RuleID int    `json:"rule_id"`
	Action string `json:"action"`
}

type obsJ struct {
	Matched []matchJ `json:"matched"`
	Intr    *intrJ   `json:"intr,omitempty"`
}

type caseJ struct {
	Dflt       []dfltJ `json:"dflt,omitempty"`
	Src        []itemJ `json:"src"`
	Dir        *dirJ   `json:"dir,omitempty"`
	Reqs       []reqJ  `json:"reqs"`
	Shape      string  `json:"shape,omitempty"`
	Conf       string  `json:"conf,omitempty"`
	Rewritten  string  `json:"rewritten,omitempty"`
	Err        string  `json:"err,omitempty"`
	Obs        []obsJ  `json:"obs,omitempty"`
	FindingKey string  `json:"finding_key,omitempty"`
	Changes    bool    `json:"changes_outcome,omitempty"` // the directive / ctl changed an observable of some request
}

// ---- SecLang text ----

func keyText(k keyJ) string {
	switch k.K {
	case "str":
		return ":" + k.V
	case "rx":
		return ":/" + k.V + "/"
	}
	return ""
}

func titemText(t titemJ) string {
	p := ""
	if t.Neg {
		p = "!"
	} else if t.Cnt {
		p = "&"
	}
	return p + t.Var + keyText(t.Key)
}

func targetsText(ts []titemJ) string {
	s := make([]string, len(ts))
	for i, t := range ts {
		s[i] = titemText(t)
	}
	return strings.Join(s, "|")
}

func opText(o opJ) string {
	n := ""
	if o.Neg {
		n = "!"
	}
	switch o.K {
	case "contains":
		return n + "@contains " + o.Lit
	case "streq":
		return n + "@streq " + o.Lit
	}
	return n + "@unconditionalMatch"
}

func specText(s specJ) string {
	if s.Range {
		return strconv.Itoa(s.A) + "-" + strconv.Itoa(s.B)
	}
	return strconv.Itoa(s.A)
}

func ctlText(c *ctlJ) string {
	tgt := func() string { return ";" + c.Var + keyText(*c.Key) }
	switch c.Kind {
	case "rmId":
		return "ctl:ruleRemoveById=" + specText(*c.Spec)
	case "rmTag":
		return "ctl:ruleRemoveByTag=" + c.Val
	case "rmMsg":
		return "ctl:ruleRemoveByMsg=" + c.Val
	case "rmTargetId":
		return "ctl:ruleRemoveTargetById=" + specText(*c.Spec) + tgt()
	case "rmTargetTag":
		return "ctl:ruleRemoveTargetByTag=" + c.Val + tgt()
	case "rmTargetMsg":
		return "ctl:ruleRemoveTargetByMsg=" + c.Val + tgt()
	}
	panic("ctl kind " + c.Kind)
}

func actText(a actJ) string {
	switch a.A {
	case "tag":
		return "tag:" + a.V
	case "msg":
		return "msg:'" + a.V + "'"
	case "status":
		return "status:" + strconv.Itoa(a.N)
	case "disr":
		return a.V
	case "ctl":
		return ctlText(a.Ctl)
	case "skipAfter":
		return "skipAfter:" + a.V
	case "skip":
		return "skip:" + strconv.Itoa(a.N)
	case "nop":
		return "nolog"
	}
	panic("action " + a.A)
}

func actsText(as []actJ) []string {
	s := make([]string, len(as))
	for i, a := range as {
		s[i] = actText(a)
	}
	return s
}

func srcText(src []itemJ) string {
	var b strings.Builder
	for _, it := range src {
		if it.Marker != "" {
			b.WriteString("SecMarker " + it.Marker + "\n")
			continue
		}
		for j, l := range it.Links {
			var acts []string
			if j == 0 {
				acts = append(acts, "id:"+strconv.Itoa(it.ID), "phase:"+strconv.Itoa(it.Phase))
			}
			acts = append(acts, actsText(l.Acts)...)
			if j+1 < len(it.Links) {
				acts = append(acts, "chain")
			}
			line := strings.Repeat("  ", j) + "SecRule " + targetsText(l.Targets) + " \"" + opText(l.Op) + "\""
			if len(acts) > 0 {
				line += " \"" + strings.Join(acts, ",") + "\""
			}
			b.WriteString(line + "\n")
		}
	}
	return b.String()
}

func dirText(d *dirJ) string {
	specs := make([]string, len(d.Specs))
	for i, s := range d.Specs {
		specs[i] = specText(s)
	}
	ids := strings.Join(specs, " ")
	q := func(s string) string {
		if d.Quoted {
			return "\"" + s + "\""
		}
		return s
	}
	switch d.Kind {
	case "rmId":
		return "SecRuleRemoveById " + q(ids) + "\n"
	case "rmTag":
		return "SecRuleRemoveByTag " + q(d.Val) + "\n"
	case "rmMsg":
		return "SecRuleRemoveByMsg \"" + d.Val + "\"\n"
	case "updTargetId":
		return "SecRuleUpdateTargetById " + ids + " \"" + targetsText(d.Items) + "\"\n"
	case "updTargetTag":
		return "SecRuleUpdateTargetByTag " + q(d.Val) + " \"" + targetsText(d.Items) + "\"\n"
	case "updActionId":
		return "SecRuleUpdateActionById " + ids + " \"" + strings.Join(actsText(d.Acts), ",") + "\"\n"
	}
	panic("directive " + d.Kind)
}

func confText(dflt []dfltJ, src []itemJ, d *dirJ) string {
	var b strings.Builder
	b.WriteString("SecRuleEngine On\n")
	for _, df := range dflt {
		fmt.Fprintf(&b, "SecDefaultAction \"phase:%d,log,auditlog,%s\"\n", df.Phase, df.Disr)
	}
	b.WriteString(srcText(src))
	if d != nil {
		b.WriteString(dirText(d))
	}
	return b.String()
}

// ---- running the implementation ----

func newWAF(conf string) (w coraza.WAF, err error) {
	defer func() {
		if r := recover(); r != nil {
			err = fmt.Errorf("panic: %v", r)
		}
	}()
	return coraza.NewWAF(coraza.NewWAFConfig().WithDirectives(conf))
}

func runTx(w coraza.WAF, r reqJ) (o obsJ, fail string) {
	defer func() {
		if rec := recover(); rec != nil {
			fail = fmt.Sprintf("panic: %v", rec)
		}
	}()
	tx := w.NewTransaction()
	defer tx.Close()
	tx.ProcessConnection("10.0.0.1", 40000, "10.0.0.2", 80)
	q := make([]string, len(r.Args))
	for i, a := range r.Args {
		q[i] = a[0] + "=" + a[1]
	}
	uri := "/p"
	if len(q) > 0 {
		uri += "?" + strings.Join(q, "&")
	}
	tx.ProcessURI(uri, r.Method, "HTTP/1.1")
	for _, h := range r.Headers {
		tx.AddRequestHeader(h[0], h[1])
	}
	tx.ProcessRequestHeaders()
	if _, err := tx.ProcessRequestBody(); err != nil {
		return o, "ProcessRequestBody: " + err.Error()
	}
	o.Matched = []matchJ{}
	for _, m := range tx.MatchedRules() {
		mj := matchJ{ID: m.Rule().ID(), Datas: []mdJ{}}
		for _, d := range m.MatchedDatas() {
			mj.Datas = append(mj.Datas, mdJ{Var: d.Variable().Name(), Key: d.Key(), Val: d.Value()})
		}
		sort.Slice(mj.Datas, func(i, j int) bool {
			a, b := mj.Datas[i], mj.Datas[j]
			if a.Var != b.Var {
				return a.Var < b.Var
			}
			if a.Key != b.Key {
				return a.Key < b.Key
			}
			return a.Val < b.Val
		})
		o.Matched = append(o.Matched, mj)
	}
	if it := tx.Interruption(); it != nil {
		o.Intr = &intrJ{Status: it.Status, RuleID: it.RuleID, Action: it.Action}
	}
	tx.ProcessLogging()
	return o, ""
}

func obsEqual(a, b obsJ) bool {
	ja, _ := json.Marshal(a)
	jb, _ := json.Marshal(b)
	return string(ja) == string(jb)
}

func obsStr(o obsJ) string {
	j, _ := json.Marshal(o)
	return string(j)
}

// ---- Coq terms ----

func varTerm(v string) string {
	switch v {
	case "ARGS":
		return "VArgs"
	case "ARGS_NAMES":
		return "VArgsNames"
	case "REQUEST_HEADERS":
		return "VHeaders"
	case "REQUEST_METHOD":
		return "VMethod"
	}
	panic("variable " + v)
}

func keyTerm(k keyJ) string {
	switch k.K {
	case "str":
		return "(KStr " + vh.HxS(k.V) + ")"
	case "rx":
		return "(KRx " + vh.HxS(k.V) + ")"
	}
	return "KNone"
}

func titemTerm(t titemJ) string {
	if t.Neg {
		return "TNeg " + varTerm(t.Var) + " " + keyTerm(t.Key)
	}
	return "TPos " + vh.Bool(t.Cnt) + " " + varTerm(t.Var) + " " + keyTerm(t.Key)
}

func titemsTerm(ts []titemJ) string {
	s := make([]string, len(ts))
	for i, t := range ts {
		s[i] = titemTerm(t)
	}
	return vh.List(s)
}

func opTerm(o opJ) string {
	k := "OAlways"
	switch o.K {
	case "contains":
		k = "(OContains " + vh.HxS(o.Lit) + ")"
	case "streq":
		k = "(OStreq " + vh.HxS(o.Lit) + ")"
	}
	return "(mkOp " + vh.Bool(o.Neg) + " " + k + ")"
}

func specTerm(s specJ) string {
	if s.Range {
		return fmt.Sprintf("(IdRange %d %d)", s.A, s.B)
	}
	return fmt.Sprintf("(IdOne %d)", s.A)
}

func specsTerm(ss []specJ) string {
	s := make([]string, len(ss))
	for i, x := range ss {
		s[i] = specTerm(x)
	}
	return vh.List(s)
}

func ctlTerm(c *ctlJ) string {
	switch c.Kind {
	case "rmId":
		return "(CRmId " + specTerm(*c.Spec) + ")"
	case "rmTag":
		return "(CRmTag " + vh.HxS(c.Val) + ")"
	case "rmMsg":
		return "(CRmMsg " + vh.HxS(c.Val) + ")"
	case "rmTargetId":
		return "(CRmTargetId " + specTerm(*c.Spec) + " " + varTerm(c.Var) + " " + keyTerm(*c.Key) + ")"
	case "rmTargetTag":
		return "(CRmTargetTag " + vh.HxS(c.Val) + " " + varTerm(c.Var) + " " + keyTerm(*c.Key) + ")"
	case "rmTargetMsg":
		return "(CRmTargetMsg " + vh.HxS(c.Val) + " " + varTerm(c.Var) + " " + keyTerm(*c.Key) + ")"
	}
	panic("ctl kind " + c.Kind)
}

func disrTerm(d string) string {
	switch d {
	case "pass":
		return "DPass"
	case "deny":
		return "DDeny"
	case "drop":
		return "DDrop"
	case "block":
		return "DBlock"
	}
	panic("disruptive " + d)
}

func actTerm(a actJ) string {
	switch a.A {
	case "tag":
		return "ATag " + vh.HxS(a.V)
	case "msg":
		return "AMsg " + vh.HxS(a.V)
	case "status":
		return fmt.Sprintf("AStatus %d", a.N)
	case "disr":
		return "ADisr " + disrTerm(a.V)
	case "ctl":
		return "ACtl " + ctlTerm(a.Ctl)
	case "skipAfter":
		return "ASkipAfter " + vh.HxS(a.V)
	case "skip":
		return fmt.Sprintf("ASkip %d", a.N)
	case "nop":
		return "ANop"
	}
	panic("action " + a.A)
}

func actsTerm(as []actJ) string {
	s := make([]string, len(as))
	for i, a := range as {
		s[i] = actTerm(a)
	}
	return vh.List(s)
}

func linkTerm(l linkJ) string {
	return "mkLinkSrc " + titemsTerm(l.Targets) + " " + opTerm(l.Op) + " " + actsTerm(l.Acts)
}

func srcTerm(src []itemJ) string {
	s := make([]string, len(src))
	for i, it := range src {
		if it.Marker != "" {
			s[i] = "SMarker " + vh.HxS(it.Marker)
			continue
		}
		ch := make([]string, len(it.Links)-1)
		for j, l := range it.Links[1:] {
			ch[j] = linkTerm(l)
		}
		s[i] = fmt.Sprintf("SRule %d %d (%s) %s", it.ID, it.Phase, linkTerm(it.Links[0]), vh.List(ch))
	}
	return vh.List(s)
}

func dirTerm(d *dirJ) string {
	if d == nil {
		return "None"
	}
	switch d.Kind {
	case "rmId":
		return "(Some (DRemoveById " + specsTerm(d.Specs) + "))"
	case "rmTag":
		return "(Some (DRemoveByTag " + vh.HxS(d.Val) + "))"
	case "rmMsg":
		return "(Some (DRemoveByMsg " + vh.HxS(d.Val) + "))"
	case "updTargetId":
		return "(Some (DUpdTargetById " + specsTerm(d.Specs) + " " + titemsTerm(d.Items) + "))"
	case "updTargetTag":
		return "(Some (DUpdTargetByTag " + vh.HxS(d.Val) + " " + titemsTerm(d.Items) + "))"
	case "updActionId":
		return "(Some (DUpdActionById " + specsTerm(d.Specs) + " " + actsTerm(d.Acts) + "))"
	}
	panic("directive " + d.Kind)
}

func pairsTerm(l [][2]string) string {
	s := make([]string, len(l))
	for i, p := range l {
		s[i] = "(" + vh.HxS(p[0]) + ", " + vh.HxS(p[1]) + ")"
	}
	return vh.List(s)
}

func reqTerm(r reqJ) string {
	return "(mkReq " + vh.HxS(r.Method) + " " + pairsTerm(r.Args) + " " + pairsTerm(r.Headers) + ")"
}

func obsTerm(o obsJ) string {
	ms := make([]string, len(o.Matched))
	for i, m := range o.Matched {
		ds := make([]string, len(m.Datas))
		for j, d := range m.Datas {
			ds[j] = "(" + varTerm(d.Var) + ", " + vh.HxS(d.Key) + ", " + vh.HxS(d.Val) + ")"
		}
		ms[i] = fmt.Sprintf("(%d, %s)", m.ID, vh.List(ds))
	}
	it := "None"
	if o.Intr != nil {
		it = fmt.Sprintf("(Some (%d, %d, %s))", o.Intr.Status, o.Intr.RuleID, disrTerm(o.Intr.Action))
	}
	return "(" + vh.List(ms) + ", " + it + ")"
}

func caseTerm(c *caseJ) string {
	df := make([]string, len(c.Dflt))
	for i, d := range c.Dflt {
		df[i] = fmt.Sprintf("(%d, %s)", d.Phase, disrTerm(d.Disr))
	}
	runs := make([]string, len(c.Obs))
	for i := range c.Obs {
		runs[i] = "(" + reqTerm(c.Reqs[i]) + ", " + obsTerm(c.Obs[i]) + ")"
	}
	return "Case " + vh.List(df) + " " + srcTerm(c.Src) + " " + dirTerm(c.Dir) + " " + vh.Bool(c.Err != "") + " " + vh.List(runs)
}

// ---- known findings (adaptive: a class of cases is run through the oracle only once its key is listed) ----

func knownKeys() map[string]bool {
	keys := map[string]bool{}
	dir := os.Getenv("VERIF_DIR")
	if dir == "" {
		dir = "/verif"
	}
	b, err := os.ReadFile(filepath.Join(dir, "KNOWN_FINDINGS.txt"))
	if err != nil {
		return keys
	}
	for _, line := range strings.Split(string(b), "\n") {
		if !strings.HasPrefix(line, "finding:") {
			continue
		}
		for _, f := range strings.Fields(line) {
			if strings.HasPrefix(f, "key=") {
				keys[strings.TrimPrefix(f, "key=")] = true
			}
		}
	}
	return keys
}

const (
	keyZero  = "c17-id-zero-hits-secmarkers"
	keyBlock = "c17-update-action-block-ignores-default"
	keyRxCase = "c17-ctl-target-regex-case"
)

// ---- driver ----

const shardSize = 250

func Run(cfg vh.Config) (*vh.Result, error) {
	res := &vh.Result{InputDistribution: map[string]int{}}
	res.Rule = "a case is non-trivial when the directive / executed ctl changes the observable outcome (matched rules, matched data or interruption) of at least one of its requests compared with the same rule set without it, or when the parser refuses the directive"
	dist := vh.Counter(res.InputDistribution)
	known := knownKeys()

	var cs []*caseJ
	if cfg.Replay != "" {
		raw, err := os.ReadFile(cfg.Replay)
		if err != nil {
			return nil, err
		}
		var wrap struct {
			Case json.RawMessage `json:"case"`
		}
		doc := raw
		if json.Unmarshal(raw, &wrap) == nil && len(wrap.Case) > 0 {
			doc = wrap.Case
		}
		c := &caseJ{}
		if err := json.Unmarshal(doc, c); err != nil {
			return nil, err
		}
		c.Obs, c.Err, c.Conf, c.Rewritten = nil, "", "", ""
		cs = append(cs, c)
	} else {
		docs, names := vh.LoadCorpus(cfg.Corpus)
		for i, d := range docs {
			c := &caseJ{}
			if err := json.Unmarshal(d, c); err != nil {
				return nil, fmt.Errorf("corpus %s: %v", names[i], err)
			}
			c.Shape = "corpus:" + names[i]
			cs = append(cs, c)
		}
		cs = append(cs, generate(cfg)...)
	}

	var (
		terms   []string
		cases   []any
		shardNo int
		nontriv = map[string]bool{}
		skipped = map[string]int{}
		reproduced = map[string]bool{}
	)
	flush := func() error {
		if len(terms) == 0 {
			return nil
		}
		info, err := vh.WriteShard(cfg.OutDir, vh.Shard{
			Name:      fmt.Sprintf("C17_%d", shardNo),
			Imports:   "From Verif Require Import Base Config CorrC17.",
			CaseType:  "CorrC17.case",
			MismatchF: "CorrC17.mismatches",
			Terms:     terms, Cases: cases,
		})
		if err != nil {
			return err
		}
		res.Shards = append(res.Shards, info)
		shardNo++
		terms, cases = nil, nil
		return nil
	}
	fail := func(key, what string, c *caseJ) {
		res.OracleFailures = append(res.OracleFailures, vh.OracleFailure{Key: key, What: what, Case: c})
	}

	for _, c := range cs {
		c.Conf = confText(c.Dflt, c.Src, c.Dir)
		dist.Inc("shape:" + shapeClass(c.Shape))
		w, err := newWAF(c.Conf)
		if err != nil {
			c.Err = err.Error()
			if strings.HasPrefix(c.Err, "panic") {
				fail("c17-config-panic", "the parser panicked: "+c.Err, c)
			}
			if c.Dir == nil {
				// a base rule set the parser rejects is a generator bug, not a finding
				return nil, fmt.Errorf("base rule set rejected (%s): %v\n%s", c.Shape, err, c.Conf)
			}
			nontriv[c.Conf] = true
			dist.Inc("directive-refused")
		} else {
			for _, r := range c.Reqs {
				o, f := runTx(w, r)
				res.Evaluations++
				if f != "" {
					fail("c17-run-failed", f, c)
				}
				c.Obs = append(c.Obs, o)
			}
		}
		terms = append(terms, caseTerm(c))
		cases = append(cases, c)
		if len(terms) >= shardSize {
			if err := flush(); err != nil {
				return nil, err
			}
		}
		if err != nil {
			continue
		}

		// non-triviality: compare with the same rule set without the directive / without the ctl actions
		base := confText(c.Dflt, stripCtl(c.Src), nil)
		if bw, berr := newWAF(base); berr == nil {
			for i, r := range c.Reqs {
				if bo, _ := runTx(bw, r); !obsEqual(bo, c.Obs[i]) {
					nontriv[c.Conf] = true
				}
			}
		}
		if nontriv[c.Conf] {
			c.Changes = true
			dist.Inc("changes-outcome:" + shapeClass(c.Shape))
		}

		// (b) the property's own oracle: directive / ctl form vs explicitly rewritten text
		class := deviationClass(c)
		if class != "" && !known[class] {
			skipped[class]++
		} else {
			for i, r := range c.Reqs {
				rw, why := rewrittenFor(c, i)
				if rw == "" {
					skipped[why]++
					continue
				}
				if i == 0 {
					c.Rewritten = rw
				}
				rwaf, rerr := newWAF(rw)
				if rerr != nil {
					return nil, fmt.Errorf("rewritten rule set rejected (%s): %v\n%s", c.Shape, rerr, rw)
				}
				ro, f := runTx(rwaf, r)
				res.OracleEvaluations++
				if f != "" {
					fail("c17-run-failed", f, c)
					continue
				}
				if !obsEqual(ro, c.Obs[i]) {
					key := "c17-rewrite-mismatch"
					if class != "" {
						// a listed deviation class: the difference must be the LISTED one. Where the deviating
						// behaviour can itself be written as SecLang text (asCoded), the form has to equal that
						// text, anything else stays a violation; the model comparison (a) covers the rest.
						key = class
						if ac := asCodedFor(c, i, class); ac != "" {
							if awaf, aerr := newWAF(ac); aerr == nil {
								ao, _ := runTx(awaf, r)
								res.OracleEvaluations++
								if !obsEqual(ao, c.Obs[i]) {
									key = "c17-rewrite-mismatch"
								}
							}
						}
						if key == class {
							reproduced[class] = true
						}
					}
					cc := *c
					cc.Reqs, cc.Obs, cc.Rewritten = []reqJ{r}, []obsJ{c.Obs[i]}, rw
					fail(key, fmt.Sprintf("directive/ctl form and explicitly rewritten rule set differ on request %d: form %s, rewritten %s", i, obsStr(c.Obs[i]), obsStr(ro)), &cc)
				}
			}
		}

		// (c) ctl locality: a transaction that executes the ctl, then every request again on the same WAF
		if hasCtl(c.Src) {
			fresh := c.Obs
			for i, r := range c.Reqs {
				o, _ := runTx(w, r)
				res.OracleEvaluations++
				if !obsEqual(o, fresh[i]) {
					cc := *c
					cc.Reqs = []reqJ{r}
					fail("c17-ctl-not-local", fmt.Sprintf("request %d replayed on the WAF that already served ctl transactions differs: fresh %s, later %s", i, obsStr(fresh[i]), obsStr(o)), &cc)
				}
			}
		}
		if len(res.Samples) < 4 && nontriv[c.Conf] && len(cases)%9 == 0 {
			res.Samples = append(res.Samples, c)
		}
	}
	if err := flush(); err != nil {
		return nil, err
	}
	res.DistinctNontrivial = len(nontriv)
	res.Exhaustive = false
	for k := range reproduced {
		res.KnownReproduced = append(res.KnownReproduced, k)
	}
	sort.Strings(res.KnownReproduced)
	for k, n := range skipped {
		res.Notes = append(res.Notes, fmt.Sprintf("oracle (b) not applicable / steered around: %s x%d", k, n))
	}
	sort.Strings(res.Notes)
	res.Notes = append(res.Notes, fmt.Sprintf("%d configurations, %d transactions, %d oracle transactions", len(cs), res.Evaluations, res.OracleEvaluations))
	return res, nil
}

func shapeClass(s string) string {
	if i := strings.Index(s, ":"); i >= 0 && strings.HasPrefix(s, "corpus") {
		return "corpus"
	}
	if i := strings.Index(s, "/"); i >= 0 {
		return s[:i]
	}
	return s
}
