From Verif Require Import Base Utf8 Transform.
From Verif Require Import CaseMap.
From Coq Require Import ZifyBool ZifyN ZifyNat.
Open Scope N_scope.
Ltac Zify.zify_post_hook ::= Z.div_mod_to_equations.

(* on a sorted table the early exit changes nothing *)
Lemma map_rune_full_below prev tbl r : tbl_sorted_from prev tbl = true -> r <= prev -> map_rune_full tbl r = r.
Proof.
  revert prev; induction tbl as [|[[[lo hi] st] tg] rest IH]; intros prev Hs Hr; [reflexivity|].
  cbn [tbl_sorted_from map_rune_full] in *.
  apply andb_true_iff in Hs as [Hs H4]. apply andb_true_iff in Hs as [Hs H3]. apply andb_true_iff in Hs as [H1 H2].
  assert ((lo <=? r) = false) as -> by lia. cbn [andb]. apply (IH hi); [exact H4|lia].
Qed.

Lemma map_rune_sorted_from prev tbl r : tbl_sorted_from prev tbl = true -> map_rune tbl r = map_rune_full tbl r.
Proof.
  revert prev; induction tbl as [|[[[lo hi] st] tg] rest IH]; intros prev Hs; [reflexivity|].
  cbn [tbl_sorted_from map_rune map_rune_full] in *.
  apply andb_true_iff in Hs as [Hs H4]. apply andb_true_iff in Hs as [Hs H3]. apply andb_true_iff in Hs as [H1 H2].
  destruct (r <? lo) eqn:E.
  - assert ((lo <=? r) = false) as -> by lia. cbn [andb]. symmetry. apply (map_rune_full_below hi); [exact H4|lia].
  - assert ((lo <=? r) = true) as -> by lia. cbn [andb]. destruct ((r <=? hi) && ((r - lo) mod st =? 0)); [reflexivity|].
    apply (IH hi). exact H4.
Qed.

Theorem map_rune_sorted tbl r : tbl_sorted tbl = true -> map_rune tbl r = map_rune_full tbl r.
Proof.
  destruct tbl as [|[[[lo hi] st] tg] rest]; [reflexivity|]. intros Hs.
  cbn [tbl_sorted] in Hs. apply andb_true_iff in Hs as [Hs H4]. apply andb_true_iff in Hs as [H1 H2].
  cbn [map_rune map_rune_full].
  destruct (r <? lo) eqn:E.
  - assert ((lo <=? r) = false) as -> by lia. cbn [andb]. symmetry. apply (map_rune_full_below hi); [exact H4|lia].
  - assert ((lo <=? r) = true) as -> by lia. cbn [andb]. destruct ((r <=? hi) && ((r - lo) mod st =? 0)); [reflexivity|].
    apply (map_rune_sorted_from hi). exact H4.
Qed.

Lemma tbl_ascii_ok_spec f tbl c : tbl_ascii_ok f tbl = true -> c < 128 -> map_rune tbl c = f c.
Proof.
  unfold tbl_ascii_ok. intros H Hc. rewrite forallb_forall in H.
  apply N.eqb_eq. apply H. apply in_map_iff. exists (N.to_nat c). split; [lia|].
  apply in_seq. lia.
Qed.

Lemma ascii_lower_lt c : c < 128 -> ascii_lower c < 128.
Proof. unfold ascii_lower. intros. repeat match goal with |- context [if ?b then _ else _] => destruct b eqn:? end; lia. Qed.
Lemma ascii_upper_lt c : c < 128 -> ascii_upper c < 128.
Proof. unfold ascii_upper. intros. repeat match goal with |- context [if ?b then _ else _] => destruct b eqn:? end; lia. Qed.

Lemma encode_rune_ascii c : c < 128 -> encode_rune c = [c].
Proof.
  intros H. unfold encode_rune, in_rng.
  destruct ((1114111 <? c) || ((55296 <=? c) && (c <=? 57343))) eqn:E; [lia|].
  destruct (c <? 128) eqn:E2; [reflexivity|lia].
Qed.

Lemma utf8_map_fuel_ascii f g fuel s :
  (forall c, c < 128 -> f c = g c) -> (forall c, c < 128 -> g c < 128) ->
  all_ascii s = true -> (length s <= fuel)%nat -> utf8_map_fuel f fuel s = map g s.
Proof.
  intros Hf Hg. revert s. induction fuel as [|k IH]; intros s Ha Hl.
  - destruct s; [reflexivity|cbn in Hl; lia].
  - destruct s as [|b s]; [reflexivity|].
    cbn [all_ascii forallb] in Ha. apply andb_true_iff in Ha as [Hb Ha].
    cbn [utf8_map_fuel]. unfold decode_rune. rewrite Hb. cbn [skipn map].
    assert (b < 128) as Hb' by lia.
    rewrite Hf by exact Hb'. rewrite encode_rune_ascii by (apply Hg; exact Hb').
    cbn [app]. f_equal. apply IH; [exact Ha|cbn in Hl; lia].
Qed.

Lemma t_case_ascii_lower tbl s :
  tbl_ascii_ok ascii_lower tbl = true -> all_ascii s = true -> t_case tbl s = t_lowercase s.
Proof.
  intros Ht Ha. unfold t_case, t_lowercase, utf8_map.
  rewrite (utf8_map_fuel_ascii (map_rune tbl) ascii_lower);
    [reflexivity| intros c Hc; apply tbl_ascii_ok_spec; assumption | apply ascii_lower_lt | exact Ha | lia].
Qed.
Lemma t_case_ascii_upper tbl s :
  tbl_ascii_ok ascii_upper tbl = true -> all_ascii s = true -> t_case tbl s = t_uppercase s.
Proof.
  intros Ht Ha. unfold t_case, t_uppercase, utf8_map.
  rewrite (utf8_map_fuel_ascii (map_rune tbl) ascii_upper);
    [reflexivity| intros c Hc; apply tbl_ascii_ok_spec; assumption | apply ascii_upper_lt | exact Ha | lia].
Qed.

(* change flag: sound and complete for every table and every input *)
Lemma t_case_flag tbl s : t_changed (t_case tbl s) = false <-> t_out (t_case tbl s) = s.
Proof.
  unfold t_case, ok_res; cbn. rewrite negb_false_iff, bytes_eqb_eq. split; congruence.
Qed.
Lemma t_case_no_error tbl s : t_err (t_case tbl s) = false.
Proof. reflexivity. Qed.

(* ---- valid UTF-8 in, the identity mapping: nothing changes; any mapping: valid UTF-8 out ---- *)
From Verif Require Import Utf8Proofs.

Lemma wf_bytes_skipn n s : wf_bytes s -> wf_bytes (skipn n s).
Proof.
  unfold wf_bytes. revert s; induction n as [|n IH]; intros s H; [exact H|].
  destruct s as [|b s]; [exact H|]. cbn [skipn]. apply IH. inversion H; assumption.
Qed.

Lemma utf8_map_fuel_id fuel s :
  wf_bytes s -> (length s <= fuel)%nat -> valid_utf8_fuel fuel s = true -> utf8_map_fuel (fun r => r) fuel s = s.
Proof.
  revert s; induction fuel as [|k IH]; intros s Hwf Hl Hv.
  - destruct s; [reflexivity|discriminate].
  - destruct s as [|b0 s]; [reflexivity|].
    cbn [utf8_map_fuel valid_utf8_fuel] in *.
    destruct (decode_rune (b0 :: s)) as [r w] eqn:D.
    apply andb_true_iff in Hv as [Hstep Hrest].
    pose proof (decode_rune_size_pos b0 s) as Hp. pose proof (decode_rune_size_le (b0 :: s)) as Hle.
    rewrite D in Hp, Hle. cbn [snd] in Hp, Hle.
    rewrite (encode_decode (b0 :: s) r w Hwf D Hstep).
    rewrite IH; [apply firstn_skipn | apply wf_bytes_skipn; exact Hwf | | exact Hrest].
    rewrite skipn_length. cbn [length] in *. lia.
Qed.

Theorem utf8_map_id s : wf_bytes s -> valid_utf8 s = true -> utf8_map (fun r => r) s = s.
Proof. intros Hwf Hv. apply utf8_map_fuel_id; [exact Hwf|lia|exact Hv]. Qed.

Lemma encode_rune_len r : (1 <= length (encode_rune r) <= 4)%nat.
Proof. unfold encode_rune. repeat match goal with |- context [if ?c then _ else _] => destruct c end; cbn [length]; lia. Qed.

Lemma encode_rune_head r : match encode_rune r with b0 :: _ => (b0 <? 128) || Nat.ltb 1 (length (encode_rune r)) | [] => false end = true.
Proof.
  unfold encode_rune. repeat match goal with |- context [if ?c then _ else _] => destruct c eqn:? end;
  apply orb_true_iff; first [left; assumption | right; reflexivity].
Qed.

Lemma skipn_app_len {A} (a b : list A) : skipn (length a) (a ++ b) = b.
Proof. induction a as [|x a IH]; [reflexivity|exact IH]. Qed.

Lemma valid_utf8_fuel_encode r t fuel :
  (length (encode_rune r ++ t) <= fuel)%nat ->
  valid_utf8_fuel (fuel - length (encode_rune r)) t = true ->
  valid_utf8_fuel fuel (encode_rune r ++ t) = true.
Proof.
  intros Hl Ht. pose proof (encode_rune_len r) as Hlen. pose proof (encode_rune_head r) as Hh.
  destruct fuel as [|k]; [rewrite app_length in Hl; lia|].
  pose proof (decode_encode r t) as D.
  destruct (encode_rune r) as [|b0 e] eqn:E; [cbn in Hlen; lia|].
  cbn [app] in D. cbn [app valid_utf8_fuel]. rewrite D. rewrite Hh. cbn [andb].
  change (b0 :: e ++ t) with ((b0 :: e) ++ t). rewrite skipn_app_len.
  cbn [length] in Ht. replace (S k - S (length e))%nat with (k - length e)%nat in Ht by lia.
  assert (M : forall f1 f2 u, (length u <= f1)%nat -> (f1 <= f2)%nat -> valid_utf8_fuel f1 u = true -> valid_utf8_fuel f2 u = true).
  { clear. induction f1 as [|f1 IH]; intros f2 u Hl Hf Hv.
    - destruct u; [destruct f2; reflexivity|cbn in Hl; lia].
    - destruct f2 as [|f2]; [lia|]. destruct u as [|b u]; [reflexivity|].
      cbn [valid_utf8_fuel] in *. destruct (decode_rune (b :: u)) as [r w] eqn:D.
      apply andb_true_iff in Hv as [H1 H2]. rewrite H1. cbn [andb].
      pose proof (decode_rune_size_pos b u) as Hp. rewrite D in Hp. cbn [snd] in Hp.
      apply (IH f2); [rewrite skipn_length; cbn [length] in *; lia|lia|exact H2]. }
  apply (M (k - length e)%nat k); [|lia|exact Ht].
  rewrite app_length in Hl. cbn [length] in Hl. lia.
Qed.

Lemma utf8_map_fuel_len f fuel s : (length (utf8_map_fuel f fuel s) <= 4 * fuel)%nat.
Proof.
  revert s; induction fuel as [|k IH]; intros s; [cbn; lia|].
  destruct s as [|b s]; [cbn; lia|]. cbn [utf8_map_fuel].
  destruct (decode_rune (b :: s)) as [r w]. rewrite app_length.
  pose proof (encode_rune_len (f r)). specialize (IH (skipn w (b :: s))). lia.
Qed.

Lemma valid_utf8_fuel_map f fuel s big :
  (4 * fuel <= big)%nat -> valid_utf8_fuel big (utf8_map_fuel f fuel s) = true.
Proof.
  revert s big; induction fuel as [|k IH]; intros s big Hb.
  - cbn. destruct big; reflexivity.
  - destruct s as [|b s]; [cbn; destruct big; reflexivity|].
    cbn [utf8_map_fuel]. destruct (decode_rune (b :: s)) as [r w].
    pose proof (encode_rune_len (f r)) as Hlen.
    apply valid_utf8_fuel_encode.
    + rewrite app_length. pose proof (utf8_map_fuel_len f k (skipn w (b :: s))). lia.
    + apply IH. lia.
Qed.

Lemma valid_utf8_fuel_mono f1 f2 u :
  (length u <= f1)%nat -> (f1 <= f2)%nat -> valid_utf8_fuel f2 u = true -> valid_utf8_fuel f1 u = true.
Proof.
  revert f2 u; induction f1 as [|f1 IH]; intros f2 u Hl Hf Hv.
  - destruct u; [reflexivity|cbn in Hl; lia].
  - destruct f2 as [|f2]; [lia|]. destruct u as [|b u]; [reflexivity|].
    cbn [valid_utf8_fuel] in *. destruct (decode_rune (b :: u)) as [r w] eqn:D.
    apply andb_true_iff in Hv as [H1 H2]. rewrite H1. cbn [andb].
    pose proof (decode_rune_size_pos b u) as Hp. rewrite D in Hp. cbn [snd] in Hp.
    apply (IH f2); [rewrite skipn_length; cbn [length] in *; lia|lia|exact H2].
Qed.

(* the output of a case mapping is always valid UTF-8, whatever the input bytes and the table *)
Theorem utf8_map_valid f s : valid_utf8 (utf8_map f s) = true.
Proof.
  unfold valid_utf8, utf8_map.
  apply (valid_utf8_fuel_mono _ (4 * length s)%nat); [lia|apply utf8_map_fuel_len|].
  apply valid_utf8_fuel_map. lia.
Qed.

(* ---- the generic loops: same theorems as TransformProofs, for any apply function with sound flags ---- *)
From Verif Require Import TransformProofs.

Section GenericProofs.
  Variable ap : tid -> bytes -> tres.
  Hypothesis FS : forall t, flag_sound (ap t).

  Lemma multi_covers_chain_g ts : forall s seen,
    In s seen -> forall v, In v (chain_values_g ap ts s) -> In v (seen ++ exec_tfs_multi_g ap ts s).
  Proof.
    induction ts as [|t ts IH]; intros s seen Hs v Hv; [contradiction|].
    cbn [chain_values_g exec_tfs_multi_g] in *.
    destruct (t_err (ap t s)) eqn:Ee.
    - destruct Hv as [<-|Hv]; [apply in_or_app; left; exact Hs|]. apply IH; assumption.
    - destruct (t_changed (ap t s)) eqn:Ec.
      + replace (seen ++ t_out (ap t s) :: exec_tfs_multi_g ap ts (t_out (ap t s)))
          with ((seen ++ [t_out (ap t s)]) ++ exec_tfs_multi_g ap ts (t_out (ap t s)))
          by (rewrite <- app_assoc; reflexivity).
        destruct Hv as [<-|Hv].
        * apply in_or_app; left. apply in_or_app; right. left; reflexivity.
        * apply IH; [apply in_or_app; right; left; reflexivity | exact Hv].
      + assert (E : t_out (ap t s) = s).
        { destruct (bytes_eqb (t_out (ap t s)) s) eqn:B; [apply bytes_eqb_eq; exact B|].
          apply bytes_eqb_neq in B. pose proof (FS t s Ee B). congruence. }
        rewrite E in *. destruct Hv as [<-|Hv]; [apply in_or_app; left; exact Hs|]. apply IH; assumption.
  Qed.

  Theorem multimatch_sees_all_g ts s v :
    v = s \/ In v (chain_values_g ap ts s) -> In v (multimatch_values_g ap ts s).
  Proof.
    unfold multimatch_values_g. intros [->|H]; [left; reflexivity|].
    change (s :: exec_tfs_multi_g ap ts s) with ([s] ++ exec_tfs_multi_g ap ts s).
    apply multi_covers_chain_g; [left; reflexivity | exact H].
  Qed.
End GenericProofs.

Lemma chain_last_g ap ts : forall s, last (chain_values_g ap ts s) s = fst (exec_tfs_g ap ts s).
Proof.
  induction ts as [|t ts IH]; intro s; [reflexivity|].
  cbn [chain_values_g exec_tfs_g]. rewrite last_cons_any. destruct (t_err (ap t s)).
  - rewrite IH. destruct (exec_tfs_g ap ts s); reflexivity.
  - apply IH.
Qed.

(* the generic loops instantiated with apply_t are the loops of Transform.v *)
Lemma exec_tfs_g_apply_t ts : forall s, exec_tfs_g apply_t ts s = exec_tfs ts s.
Proof. induction ts as [|t ts IH]; intro s; [reflexivity|]. cbn [exec_tfs_g exec_tfs]. rewrite !IH. reflexivity. Qed.
Lemma exec_tfs_multi_g_apply_t ts : forall s, exec_tfs_multi_g apply_t ts s = exec_tfs_multi ts s.
Proof. induction ts as [|t ts IH]; intro s; [reflexivity|]. cbn [exec_tfs_multi_g exec_tfs_multi]. rewrite !IH. reflexivity. Qed.

Lemma fs_case tbl : flag_sound (t_case tbl).
Proof.
  intros s _ Hne. destruct (t_changed (t_case tbl s)) eqn:E; [reflexivity|].
  apply t_case_flag in E. contradiction.
Qed.

Theorem all_flags_sound_u lo up : forall t, flag_sound (apply_tu lo up t).
Proof.
  intros t. destruct t; try exact (all_flags_sound_holds _); apply fs_case.
Qed.

(* on all-ASCII input the Unicode registry is the ASCII registry of Transform.v (used by the engine models) *)
Theorem apply_tu_ascii lo up t s :
  tbl_ascii_ok ascii_lower lo = true -> tbl_ascii_ok ascii_upper up = true -> all_ascii s = true ->
  apply_tu lo up t s = apply_t t s.
Proof.
  intros Hl Hu Ha. destruct t; try reflexivity; cbn [apply_tu apply_t].
  - apply t_case_ascii_lower; assumption.
  - apply t_case_ascii_upper; assumption.
Qed.

(* the deviation recorded as F33: a byte that is not valid UTF-8 is rewritten to U+FFFD (3 bytes), whatever the table *)
Theorem t_case_invalid_byte_refuted tbl :
  map_rune tbl rune_error = rune_error ->
  t_out (t_case tbl [255]) = [239; 191; 189] /\ t_changed (t_case tbl [255]) = true.
Proof.
  intros H. unfold t_case, utf8_map. cbn [length utf8_map_fuel]. 
  change (decode_rune [255]) with (rune_error, 1%nat). cbn [skipn]. rewrite H.
  split; reflexivity.
Qed.
