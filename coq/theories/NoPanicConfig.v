(* NoPanicConfig.v — C07, one level up from NoPanic.v: whole configurations and whole
   transactions over the handlers that NoPanic.v models.
     internal/seclang/parser.go      parseString (line assembly: TrimSpace, comments, backticks,
                                     trailing-backslash continuation), evaluateLine (dispatch, quote trim)
     internal/seclang/directives.go  directiveSecAction, directiveSecRule, directiveSecMarker,
                                     directiveSecRuleRemoveByMsg
     internal/seclang/rule_parser.go ParseRule (operator-less and with operator), ParseActions,
                                     applyParsedActions (Init of every parsed action)
     internal/actions/*.go           Init of id, phase, msg, logdata, tag, pass, log, nolog, auditlog,
                                     noauditlog, setvar
     internal/corazawaf/rulegroup.go Add (duplicate id), DeleteByMsg, Eval (phase loop)
     internal/corazawaf/rule.go      doEvaluate for operator-less rules: non-disruptive actions in
                                     order (setvar), then expansion of msg; MatchRule for id <> 0
   Everything outside this fragment (other directives, other actions, chains, rules with an operator
   at request time) is reported as [Ok None] ("unmodelled": search only), never silently mapped
   to ok/error.  SecDefaultAction, ParseDefaultActions, the built-in phase-2 default and mergeActions
   are modelled (the picked default disruptive action is an option: None = nil F).  No proofs here. *)
From Coq Require Import String.
From Verif Require Import Base NoPanic.
Open Scope Z_scope.

(* outcome (option A): Ok None = left the modelled fragment *)
Definition np_cbind {A B} (o : outcome (option A)) (f : A -> outcome (option B)) : outcome (option B) :=
  match o with Ok (Some a) => f a | Ok None => Ok None | Err => Err | Panic => Panic end.
Notation "'do?' x <- o ; k" := (np_cbind o (fun x => k)) (at level 200, x pattern, o at level 100, k at level 200).

Definition np_lift {A} (o : outcome A) : outcome (option A) :=
  match o with Ok a => Ok (Some a) | Err => Err | Panic => Panic end.

(* a compiled rule, as far as the modelled request-time path looks at it *)
Record np_crule := {
  cr_id : Z; cr_phase : Z;
  cr_msg : option (list np_token); cr_msgtext : option bytes;
  cr_logdata : option (list np_token);
  cr_setvars : list np_setvar;
  cr_marker : bool; cr_hasop : bool;
  cr_disr : bool   (* carries deny / drop / block: request time leaves the modelled fragment *) }.

Definition np_new_rule : np_crule :=
  {| cr_id := 0; cr_phase := 2; cr_msg := None; cr_msgtext := None; cr_logdata := None;
     cr_setvars := []; cr_marker := false; cr_hasop := false; cr_disr := false |}.

Definition bs (s : string) : bytes := str s.

(* types.ParseRulePhase *)
Definition np_parse_phase (d : bytes) : option Z :=
  let i := if bytes_eqb d (bs "request") then 2
           else if bytes_eqb d (bs "response") then 4
           else if bytes_eqb d (bs "logging") then 5
           else match np_atoi d with Some v => v | None => 0 end in
  if (5 <? i) || (i <? 1) then None else Some i.

Definition np_flag_actions : list string := ["pass"; "log"; "nolog"; "auditlog"; "noauditlog"]%string.

(* Init of one parsed action on the rule being built *)
Definition np_action_init (r : np_crule) (key val : bytes) : outcome (option np_crule) :=
  if bytes_eqb key (bs "id") then
    (if np_len val =? 0 then Err else
     match np_atoi val with
     | None => Err
     | Some i => if i <=? 0 then Err else
       Ok (Some {| cr_id := i; cr_phase := cr_phase r; cr_msg := cr_msg r; cr_msgtext := cr_msgtext r; cr_logdata := cr_logdata r;
                   cr_setvars := cr_setvars r; cr_marker := cr_marker r; cr_hasop := cr_hasop r; cr_disr := cr_disr r |})
     end)
  else if bytes_eqb key (bs "phase") then
    (if np_len val =? 0 then Err else
     match np_parse_phase val with
     | None => Err
     | Some p => Ok (Some {| cr_id := cr_id r; cr_phase := p; cr_msg := cr_msg r; cr_msgtext := cr_msgtext r; cr_logdata := cr_logdata r;
                             cr_setvars := cr_setvars r; cr_marker := cr_marker r; cr_hasop := cr_hasop r; cr_disr := cr_disr r |})
     end)
  else if bytes_eqb key (bs "msg") then
    (do! d <- np_maybe_remove_quotes val;
     if np_len d =? 0 then Err else
     do! m <- np_new_macro d;
     Ok (Some {| cr_id := cr_id r; cr_phase := cr_phase r; cr_msg := Some m; cr_msgtext := Some d; cr_logdata := cr_logdata r;
                 cr_setvars := cr_setvars r; cr_marker := cr_marker r; cr_hasop := cr_hasop r; cr_disr := cr_disr r |}))
  else if bytes_eqb key (bs "logdata") then
    (if np_len val =? 0 then Err else
     do! m <- np_new_macro val;
     Ok (Some {| cr_id := cr_id r; cr_phase := cr_phase r; cr_msg := cr_msg r; cr_msgtext := cr_msgtext r; cr_logdata := Some m;
                 cr_setvars := cr_setvars r; cr_marker := cr_marker r; cr_hasop := cr_hasop r; cr_disr := cr_disr r |}))
  else if bytes_eqb key (bs "tag") then
    (if np_len val =? 0 then Err else Ok (Some r))
  else if existsb (fun n => bytes_eqb key (str n)) np_flag_actions then
    (if 0 <? np_len val then Err else Ok (Some r))
  else if existsb (fun n => bytes_eqb key (str n)) ["deny"; "drop"; "block"]%string then
    (if 0 <? np_len val then Err else
     Ok (Some {| cr_id := cr_id r; cr_phase := cr_phase r; cr_msg := cr_msg r; cr_msgtext := cr_msgtext r; cr_logdata := cr_logdata r;
                 cr_setvars := cr_setvars r; cr_marker := cr_marker r; cr_hasop := cr_hasop r; cr_disr := true |}))
  else if bytes_eqb key (bs "setvar") then
    (do! sv <- np_setvar_init val;
     Ok (Some {| cr_id := cr_id r; cr_phase := cr_phase r; cr_msg := cr_msg r; cr_msgtext := cr_msgtext r; cr_logdata := cr_logdata r;
                 cr_setvars := cr_setvars r ++ [sv]; cr_marker := cr_marker r; cr_hasop := cr_hasop r; cr_disr := cr_disr r |}))
  else Ok None.   (* a registered action whose Init is not modelled *)

Fixpoint np_apply_actions (r : np_crule) (acts : list np_raction) : outcome (option np_crule) :=
  match acts with
  | [] => Ok (Some r)
  | a :: t => do? r' <- np_action_init r (ra_key a) (ra_val a); np_apply_actions r' t
  end.

(* ---- SecDefaultAction: ParseDefaultActions, the built-in phase-2 default, mergeActions ---- *)
Definition np_metadata_names : list string := ["id"; "phase"; "msg"; "tag"; "rev"; "ver"; "severity"; "maturity"]%string.
Definition np_is_metadata (key : bytes) : bool := existsb (fun n => bytes_eqb key (str n)) np_metadata_names.

(* the loop of ParseDefaultActions: (phase, a disruptive action was seen) *)
Fixpoint np_pda_loop (acts : list np_raction) (phase : Z) (hasdis : bool) : outcome (Z * bool) :=
  match acts with
  | [] => Ok (phase, hasdis)
  | a :: t =>
    if bytes_eqb (ra_key a) (bs "phase") then
      match np_parse_phase (ra_val a) with None => Err | Some p => np_pda_loop t p hasdis end
    else if np_is_metadata (ra_key a) then Err
    else if bytes_eqb (ra_key a) (bs "t") then Err
    else np_pda_loop t phase (hasdis || ra_disr a)
  end.

Definition np_parse_default (raw : bytes) : outcome (Z * list np_raction) :=
  do! acts <- np_parse_actions raw;
  do! ph <- np_pda_loop acts 0 false;
  if fst ph =? 0 then Err else if negb (snd ph) then Err else Ok (fst ph, acts).

Definition np_defmap := list (Z * list np_raction).

(* ParseRule re-parses every SecDefaultAction seen so far; a second one for the same phase is an error *)
Fixpoint np_defaults_build (dl : list bytes) (m : np_defmap) : outcome np_defmap :=
  match dl with
  | [] => Ok m
  | raw :: t => do! pa <- np_parse_default raw;
                if existsb (fun e => fst e =? fst pa) m then Err else np_defaults_build t (m ++ [pa])
  end.

(* parseActions "phase:2,log,auditlog,pass" *)
Definition np_builtin_default : list np_raction :=
  [ {| ra_key := bs "phase"; ra_val := bs "2"; ra_disr := false |}; {| ra_key := bs "log"; ra_val := []; ra_disr := false |};
    {| ra_key := bs "auditlog"; ra_val := []; ra_disr := false |}; {| ra_key := bs "pass"; ra_val := []; ra_disr := true |} ].

Definition np_defaults (dl : list bytes) : outcome np_defmap :=
  do! m <- np_defaults_build dl [];
  Ok (if existsb (fun e => fst e =? 2) m then m else m ++ [(2, np_builtin_default)]).

Fixpoint np_defmap_find (p : Z) (m : np_defmap) : option (list np_raction) :=
  match m with [] => None | (q, a) :: t => if q =? p then Some a else np_defmap_find p t end.

(* `var da ruleAction` ... `da = action`: None is the zero value (F == nil) *)
Fixpoint np_last_disr (l : list np_raction) (acc : option np_raction) : option np_raction :=
  match l with [] => acc | a :: t => np_last_disr t (if ra_disr a then Some a else acc) end.

Definition np_is_block (a : np_raction) : bool := ra_disr a && bytes_eqb (ra_key a) (bs "block").

(* mergeActions: an element None is a ruleAction whose F is nil *)
Definition np_merge (origin defaults : list np_raction) : list (option np_raction) :=
  let res0 := filter (fun a => negb (ra_disr a) && negb (np_is_metadata (ra_key a))) defaults in
  let da := np_last_disr defaults None in
  let has := existsb (fun a => ra_disr a && negb (np_is_block a)) origin in
  map Some res0 ++ map Some (filter (fun a => negb (np_is_block a)) origin) ++ (if has then [] else [da]).

(* the second loop of applyParsedActions: action.F.Init on every non-metadata action *)
Fixpoint np_apply_merged (r : np_crule) (l : list (option np_raction)) : outcome (option np_crule) :=
  match l with
  | [] => Ok (Some r)
  | None :: _ => Panic                      (* nil F *)
  | Some a :: t =>
    if np_is_metadata (ra_key a) then np_apply_merged r t
    else (do? r' <- np_action_init r (ra_key a) (ra_val a); np_apply_merged r' t)
  end.

(* applyParsedActions: metadata actions first, then the merge with the defaults of the rule's phase *)
Definition np_apply_parsed (defs : np_defmap) (r : np_crule) (acts : list np_raction) : outcome (option np_crule) :=
  do? r1 <- np_apply_actions r (filter (fun a => np_is_metadata (ra_key a)) acts);
  np_apply_merged r1 (match np_defmap_find (cr_phase r1) defs with
                      | Some d => np_merge acts d
                      | None => map Some acts
                      end).

(* RuleParser.ParseActions *)
Definition np_compile_actions (defs : np_defmap) (r : np_crule) (text : bytes) : outcome (option np_crule) :=
  do! acts <- np_parse_actions text; np_apply_parsed defs r acts.

(* operators whose constructor cannot fail on a non-empty macro-free argument *)
Definition np_safe_operators : list string :=
  ["unconditionalMatch"; "noMatch"; "streq"; "contains"; "beginsWith"; "endsWith"; "strmatch"; "within"]%string.

(* ParseRule *)
Definition np_parse_rule (dl : list bytes) (with_op : bool) (data : bytes) : outcome (option np_crule) :=
  match np_trim_space data with
  | [] => Err
  | _ =>
    do! defs <- np_defaults dl;
    if with_op then
      do! pao <- np_parse_action_operator data;
      let '(vars, op, acts) := pao in
      do! pv <- np_parse_variables vars;
      do! o <- np_parse_operator op;
      (* regexp.Compile of regex keys and the operators' own argument checks are oracles *)
      if pv_sawrx pv
         || negb (existsb (fun n => bytes_eqb (fst o) (str n)) np_safe_operators)
         || (np_len (snd o) =? 0) || existsb (fun c => isb c 37) (snd o)
      then Ok None
      else
        let r := {| cr_id := 0; cr_phase := 2; cr_msg := None; cr_msgtext := None; cr_logdata := None;
                    cr_setvars := []; cr_marker := false; cr_hasop := true; cr_disr := false |} in
        (if np_len acts =? 0 then Ok (Some r) else np_compile_actions defs r acts)
    else
      do! raw <- np_maybe_remove_quotes data;
      np_compile_actions defs np_new_rule raw
  end.

(* RuleGroup.Add: the id is optional, a non-zero id must be unique *)
Definition np_rules_add (rules : list np_crule) (r : np_crule) : outcome (list np_crule) :=
  if negb (cr_id r =? 0) && existsb (fun x => cr_id x =? cr_id r) rules then Err else Ok (rules ++ [r]).

(* strings.Trim(opts, double-quote) *)
Definition np_is_dq (c : N) : bool := isb c 34.
Definition np_trim_dq (s : bytes) : bytes := np_trim_right_f np_is_dq (np_trim_left_f np_is_dq s).

Definition np_known_directives : list string := [
  "seccomponentsignature"; "secmarker"; "secaction"; "secrule"; "secresponsebodyaccess"; "secrequestbodylimit";
  "secrequestbodyaccess"; "secrequestbodyjsondepthlimit"; "secruleengine"; "secwebappid"; "secserversignature";
  "secruleremovebytag"; "secruleremovebymsg"; "secruleremovebyid"; "secresponsebodymimetypesclear";
  "secresponsebodymimetype"; "secresponsebodylimitaction"; "secresponsebodylimit"; "secrequestbodylimitaction";
  "secrequestbodyinmemorylimit"; "secremoterulesfailaction"; "secremoterules"; "secconnwritestatelimit"; "secsensorid";
  "secconnreadstatelimit"; "secpcrematchlimitrecursion"; "secpcrematchlimit"; "sechttpblkey"; "secgsblookupdb";
  "sechashmethodpm"; "sechashmethodrx"; "sechashparam"; "sechashkey"; "sechashengine"; "secdefaultaction";
  "secconnengine"; "seccollectiontimeout"; "secauditlog"; "secauditlogtype"; "secauditlogformat";
  "secauditlogstoragedir"; "secauditlogdirmode"; "secauditlogfilemode"; "secauditlogrelevantstatus";
  "secauditlogparts"; "secauditengine"; "secdatadir"; "secuploadkeepfiles"; "secuploadfilemode"; "secuploadfilelimit";
  "secuploaddir"; "secrequestbodynofileslimit"; "secdebuglog"; "secdebugloglevel"; "secruleupdatetargetbyid";
  "secruleupdateactionbyid"; "secruleupdatetargetbytag"; "secignorerulecompilationerrors"; "secdataset";
  "secargumentslimit"; "secrxprefilter"; "secargumentseparator"; "seccookieformat"; "secruleupdatetargetbymsg";
  "secrulescript"; "secruleperftime"; "secunicodemap"; "sectmpdir"; "include"
]%string.

(* DeleteByMsg on compiled rules, through the model of NoPanic.v *)
Definition np_rules_delete_by_msg (rules : list np_crule) (msg : bytes) : outcome (list np_crule) :=
  do! kept <- np_delete_by_msg true (map (fun r => {| r_id := cr_id r; r_msg := cr_msgtext r |}) rules) msg;
  (* same filter on the full records *)
  Ok (filter (fun r => match cr_msgtext r with None => true | Some m => negb (bytes_eqb m msg) end) rules).

(* Parser.evaluateLine *)
Definition np_cstate := (list np_crule * list bytes)%type.   (* rules, raw SecDefaultAction arguments *)

Definition np_evaluate_line (st : np_cstate) (l : bytes) : outcome (option np_cstate) :=
  let '(rules, dl) := st in
  let withr (o : outcome (list np_crule)) : outcome (option np_cstate) := np_lift (do! x <- o; Ok (x, dl)) in
  if np_len l =? 0 then Err else
  do! c0 <- np_at l 0;
  if isb c0 35 then Err else
  let '(dir, opts0, _) := np_cut 32 l in
  let d := np_lower dir in
  do! opts <- (if 3 <=? np_len opts0
               then (do! a <- np_at opts0 0; do! z <- np_at opts0 (np_len opts0 - 1);
                     Ok (if isb a 34 && isb z 34 then np_trim_dq opts0 else opts0))
               else Ok opts0);
  if negb (existsb (fun n => bytes_eqb d (str n)) np_known_directives) then Err
  else if bytes_eqb d (bs "secaction") then
    (if np_len opts =? 0 then Err else
     do? r <- np_parse_rule dl false opts; withr (np_rules_add rules r))
  else if bytes_eqb d (bs "secrule") then
    (if np_len opts =? 0 then Err else
     do? r <- np_parse_rule dl true opts; withr (np_rules_add rules r))
  else if bytes_eqb d (bs "secmarker") then
    (if np_len opts =? 0 then Err else
     withr (np_rules_add rules {| cr_id := 0; cr_phase := 0; cr_msg := None; cr_msgtext := None; cr_logdata := None;
                                    cr_setvars := []; cr_marker := true; cr_hasop := false; cr_disr := false |}))
  else if bytes_eqb d (bs "secruleremovebymsg") then
    (if np_len opts =? 0 then Err else withr (np_rules_delete_by_msg rules opts))
  else if bytes_eqb d (bs "secdefaultaction") then
    (if np_len opts =? 0 then Err else Ok (Some (rules, dl ++ [opts])))
  else Ok None.   (* a directive whose handler is not modelled *)

(* bufio.ScanLines: split at LF, drop one trailing CR *)
Fixpoint np_split_lines (s cur : bytes) : list bytes :=
  match s with
  | [] => match cur with [] => [] | _ => [cur] end
  | c :: r => if isb c 10 then cur :: np_split_lines r [] else np_split_lines r (cur ++ [c])
  end.
Definition np_drop_cr (l : bytes) : bytes :=
  match rev l with c :: r => if isb c 13 then rev r else l | [] => l end.

(* strings.TrimSuffix(line, backslash) *)
Definition np_drop_last (l : bytes) : bytes := rev (tl (rev l)).

(* Parser.parseString: the loop over scanner lines; state = (line buffer, inside backticks) *)
Fixpoint np_parse_lines (lines : list bytes) (buf : bytes) (inbt : bool) (rules : np_cstate)
  : outcome (option np_cstate) :=
  match lines with
  | [] => if inbt then Err else Ok (Some rules)
  | raw :: rest =>
    let line := np_trim_space (np_drop_cr raw) in
    let n := np_len line in
    if n =? 0 then np_parse_lines rest buf inbt rules else
    do! c0 <- np_at line 0;
    if isb c0 35 then np_parse_lines rest buf inbt rules else
    do! cl <- np_at line (n - 1);
    let inbt' := if negb inbt && isb cl 96 then true else if inbt && isb c0 96 then false else inbt in
    if inbt' then np_parse_lines rest (buf ++ line ++ [10%N]) inbt' rules
    else if isb cl 92 then np_parse_lines rest (buf ++ np_drop_last line) inbt' rules
    else
      do? rules' <- np_evaluate_line rules (buf ++ line);
      np_parse_lines rest [] inbt' rules'
  end.

(* NewWAF(...WithDirectives(text)) for the modelled fragment *)
Definition np_compile_config (text : bytes) : outcome (option (list np_crule)) :=
  do? st <- np_parse_lines (np_split_lines text []) [] false ([], []); Ok (Some (fst st)).

(* ------------------------------------------------------------------------------------ *)
(* request time                                                                         *)
(* ------------------------------------------------------------------------------------ *)
Definition np_kv := list (bytes * list bytes).

Fixpoint np_kv_remove (k : bytes) (l : np_kv) : np_kv :=
  match l with
  | [] => []
  | (k', v) :: r => if bytes_eqb k k' then np_kv_remove k r else (k', v) :: np_kv_remove k r
  end.
Definition np_apply_effect (e : np_sv_effect) (kv : np_kv) : np_kv :=
  match e with
  | SvNone => kv
  | SvRemove k => np_kv_remove k kv
  | SvSet k v => (k, [v]) :: np_kv_remove k kv
  end.

(* the transaction: every collection except TX is fixed ([base]), TX is the running state *)
Definition np_tx_with (base : np_tx) (kv : np_kv) : np_tx :=
  fun v => if (v =? np_var_tx)%N then Some (CKeyed kv) else base v.

Fixpoint np_run_setvars (base : np_tx) (svs : list np_setvar) (kv : np_kv) : outcome np_kv :=
  match svs with
  | [] => Ok kv
  | sv :: t => do! e <- np_setvar_eval true sv (np_tx_with base kv); np_run_setvars base t (np_apply_effect e kv)
  end.

(* Rule.doEvaluate of an operator-less rule: setvars in order, then msg is expanded; a rule with
   id <> 0 is recorded with its message *)
Definition np_run_rule (base : np_tx) (r : np_crule) (st : np_kv * list (Z * bytes))
  : outcome (option (np_kv * list (Z * bytes))) :=
  let '(kv, log) := st in
  if cr_marker r then Ok (Some st)
  else if cr_hasop r || cr_disr r then Ok None
  else
    do! kv' <- np_run_setvars base (cr_setvars r) kv;
    do! m <- (match cr_msg r with None => Ok [] | Some toks => np_expand true (np_tx_with base kv') toks end);
    do! _ <- (match cr_logdata r with None => Ok [] | Some toks => np_expand true (np_tx_with base kv') toks end);
    Ok (Some (kv', if cr_id r =? 0 then log else log ++ [(cr_id r, m)])).

(* RuleGroup.Eval(phase): the rules of that phase in configuration order *)
Fixpoint np_run_phase (base : np_tx) (phase : Z) (rules : list np_crule) (st : np_kv * list (Z * bytes))
  : outcome (option (np_kv * list (Z * bytes))) :=
  match rules with
  | [] => Ok (Some st)
  | r :: t =>
    if cr_marker r || (cr_phase r =? phase)
    then (do? st' <- np_run_rule base r st; np_run_phase base phase t st')
    else np_run_phase base phase t st
  end.

(* ProcessRequestHeaders .. ProcessLogging *)
Definition np_run_config (base : np_tx) (rules : list np_crule) (kv : np_kv) : outcome (option (np_kv * list (Z * bytes))) :=
  do? s1 <- np_run_phase base 1 rules (kv, []);
  do? s2 <- np_run_phase base 2 rules s1;
  do? s3 <- np_run_phase base 3 rules s2;
  do? s4 <- np_run_phase base 4 rules s3;
  np_run_phase base 5 rules s4.

(* compile, then run *)
Definition np_compile_and_run (base : np_tx) (text : bytes) : outcome (option (np_kv * list (Z * bytes))) :=
  do? rules <- np_compile_config text; np_run_config base rules [].

(* the macros of a compiled configuration only name variables the run model keeps (TX and the
   collections that do not change during a transaction): guard of the run correspondence *)
Definition np_static_vars : list N := [0; 63; 12; 25; 27; 26; 14]%N.   (* Unknown TX REMOTE_ADDR REQUEST_METHOD REQUEST_URI REQUEST_PROTOCOL REMOTE_PORT *)
Definition np_toks_static (t : list np_token) : bool :=
  forallb (fun k => existsb (fun v => (v =? mt_var k)%N) np_static_vars) t.
Definition np_opt_static (o : option (list np_token)) : bool := match o with None => true | Some t => np_toks_static t end.
Definition np_rule_static (r : np_crule) : bool :=
  np_opt_static (cr_msg r) && np_opt_static (cr_logdata r) &&
  forallb (fun sv => np_opt_static (sv_key sv) && np_opt_static (sv_value sv)) (cr_setvars r).
