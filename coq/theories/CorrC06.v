(* CorrC06.v — correspondence checker for C06: evaluates the Conc.v models on what the Go harness
   observed on the real code.
     CTx     : outcome of a transaction on the F27-shaped rule (observed ALONE and inside the
               concurrent stress run) vs the model's run-alone outcome
     CIntern : ids returned by the real transformationID for chains of names, starting from the
               real table's content, vs it_intern
     CMemo   : results of a sequential script of memoize Do / Release and the final cache content
               (owner sets per key, through a verif hook) vs mm_step run to completion per operation
     CCw     : a sequential script of Writes through the real concurrentWriter, some made while the
               file size limit makes every index write fail: index bytes and per-Write error flags
     CSet    : the per-transaction settings of a transaction taken from the pool after an arbitrary
               history (sequential and inside the concurrent run), right after NewTransaction and
               after its ctl rules, vs the settings of the transaction run ALONE (st_alone)
     CAudit  : the bytes of a serial audit log written by concurrent writers must be explained by
               the model under some schedule (au_explain, proved sound) *)
From Verif Require Import Base Conc.
Open Scope nat_scope.

Inductive case :=
  | CTx (excs : list bytes) (needle : bytes) (args : list (bytes * bytes)) (ecol : list bytes)
        (observed : list (bytes * bytes))
  | CIntern (tbl : list (nat * bytes)) (chains : list (list bytes)) (ids : list (list nat))
  | CMemo (errkeys : list nat) (ops : list mm_sop) (res : list (nat * option nat * bool))
          (snap : list (nat * list nat))
  | CAudit (writers : list (list bytes)) (log : bytes)
  | CCw (writes : list (list bytes * bool)) (index : bytes) (results : list bool)
  | CSet (waf : list nat) (ctls : list st_act) (at_start after_ctl : list nat).

Definition c6_kv_eqb (a b : bytes * bytes) : bool := bytes_eqb (fst a) (fst b) && bytes_eqb (snd a) (snd b).
Definition c6_count (x : bytes * bytes) (l : list (bytes * bytes)) : nat := length (filter (c6_kv_eqb x) l).
Definition c6_ms_eqb (a b : list (bytes * bytes)) : bool :=
  Nat.eqb (length a) (length b) && forallb (fun x => Nat.eqb (c6_count x a) (c6_count x b)) a.

Fixpoint c6_list_eqb {A} (eqb : A -> A -> bool) (a b : list A) : bool :=
  match a, b with
  | [], [] => true
  | x :: a', y :: b' => eqb x y && c6_list_eqb eqb a' b'
  | _, _ => false
  end.

Fixpoint c6_insert (x : nat) (l : list nat) : list nat :=
  match l with
  | [] => [x]
  | y :: r => if x <=? y then x :: l else y :: c6_insert x r
  end.
Definition c6_sort (l : list nat) : list nat := fold_right c6_insert [] l.

Fixpoint c6_insert_kv (x : nat * list nat) (l : list (nat * list nat)) : list (nat * list nat) :=
  match l with
  | [] => [x]
  | y :: r => if fst x <=? fst y then x :: l else y :: c6_insert_kv x r
  end.
Definition c6_sort_snap (l : list (nat * list nat)) : list (nat * list nat) :=
  fold_right c6_insert_kv [] (map (fun ko => (fst ko, c6_sort (snd ko))) l).

Definition c6_opt_eqb (a b : option nat) : bool :=
  match a, b with
  | None, None => true
  | Some x, Some y => Nat.eqb x y
  | _, _ => false
  end.
Definition c6_res_eqb (a b : nat * option nat * bool) : bool :=
  Nat.eqb (fst (fst a)) (fst (fst b)) && c6_opt_eqb (snd (fst a)) (snd (fst b)) && Bool.eqb (snd a) (snd b).
Definition c6_snap_eqb (a b : nat * list nat) : bool :=
  Nat.eqb (fst a) (fst b) && c6_list_eqb Nat.eqb (snd a) (snd b).

Definition c6_fn (errkeys : list nat) (k : nat) : option nat :=
  if existsb (Nat.eqb k) errkeys then None else Some k.

Definition ok (c : case) : bool :=
  match c with
  | CTx excs needle args ecol observed =>
    c6_ms_eqb (cc_solo_outcome true (cc_waf_of excs needle) (mk_cc_inp args ecol)) observed
  | CIntern tbl chains ids =>
    c6_list_eqb (c6_list_eqb Nat.eqb) (snd (it_chains tbl chains)) ids
  | CMemo errkeys ops res snap =>
    let '(s, r) := mm_seq (c6_fn errkeys) ops in
    c6_list_eqb c6_res_eqb r res && c6_list_eqb c6_snap_eqb (c6_sort_snap (mm_snapshot s)) (c6_sort_snap snap)
  | CAudit writers log =>
    match au_explain (S (length log)) writers log with Some _ => true | None => false end
  | CCw writes index results =>
    let '(s, res) := cw_seq writes in
    bytes_eqb (cw_index s) index && c6_list_eqb Bool.eqb res results && negb (cw_locked s)
  | CSet waf ctls at_start after_ctl =>
    let '(a, b) := st_alone waf ctls in
    c6_list_eqb Nat.eqb a at_start && c6_list_eqb Nat.eqb b after_ctl
  end.

Definition mismatches (l : list case) : list nat := mismatches_of ok l.
