package c03

import (
	"fmt"
	"math/rand"
	"sort"
	"strings"

	"github.com/corazawaf/coraza/v3/verifharness/vh"
)

var namePool = []string{"a", "A", "b", "B", "ab", "aB", "a b", "a%41", "\xff", "a=b", "a&b", "x.y", "a+b", "%", "a;b", "-", "a#b",
	"a?b", "a/b", "", "\x00", "\xc3\xbc", "\xc3\x9c", "json", "0", "a.0", "q[]", "a\n", " a", "Content-Type", "cookie"}
var valPool = []string{"", "1", "a b", "%41", "+", "&=", "\x00", "\xff", "\xc3\xbc", "a#b", "%", "%4", "%zz", "a;b", "\n", "=", "%25",
	"a%2", "%%41", "\\u0041", "\"", "\\", "<x a='1'>", " ", "  v  ", "v;", "a,b", "\x7f", "\xfe\xff", "0123456789ab"}

func randBytes(r *rand.Rand, n int) string {
	b := make([]byte, n)
	for i := range b {
		b[i] = byte(r.Intn(256))
	}
	return string(b)
}
func pick(r *rand.Rand, pool []string) string {
	if r.Intn(8) == 0 {
		return randBytes(r, r.Intn(6))
	}
	return pool[r.Intn(len(pool))]
}
func asciiOnly(r *rand.Rand, pool []string) string {
	for {
		s := pick(r, pool)
		if isASCII(s) {
			return s
		}
	}
}

// genPairs: 0-8 pairs with repeated names and case variants
func genPairs(r *rand.Rand, asciiKeys bool) []pair {
	n := r.Intn(9)
	l := make([]pair, 0, n)
	for i := 0; i < n; i++ {
		var k string
		switch {
		case len(l) > 0 && r.Intn(4) == 0:
			k = l[r.Intn(len(l))].K // repeated name
		case len(l) > 0 && r.Intn(6) == 0:
			k = strings.ToUpper(l[r.Intn(len(l))].K) // case variant
			if !isASCII(k) {
				k = "A"
			}
		case asciiKeys:
			k = asciiOnly(r, namePool)
		default:
			k = pick(r, namePool)
		}
		l = append(l, pair{k, pick(r, valPool)})
	}
	return l
}

func enumerate(alpha string, maxLen int, f func(string)) {
	var rec func(prefix string, left int)
	rec = func(prefix string, left int) {
		f(prefix)
		if left == 0 {
			return
		}
		for i := 0; i < len(alpha); i++ {
			rec(prefix+string(alpha[i]), left-1)
		}
	}
	rec("", maxLen)
}

func randFrom(r *rand.Rand, alpha string, n int) string {
	b := make([]byte, n)
	for i := range b {
		if r.Intn(12) == 0 {
			b[i] = byte(r.Intn(256))
		} else {
			b[i] = alpha[r.Intn(len(alpha))]
		}
	}
	return string(b)
}

var pathPool = []string{"/", "/p", "/a/b.php", "/a/b/", "/a\\b", "/a%20b", "/\xc3\xbc", "/a/../b", "/index.php/extra", "/a.b/c-d_e~f"}
// content types AddRequestHeader takes for a urlencoded body (round-trip oracle applies): the
// media type up to the first ';', white space trimmed, any letter case ...
var ctAccepted = []string{"application/x-www-form-urlencoded", "APPLICATION/X-WWW-FORM-URLENCODED",
	"application/x-www-form-urlencoded; charset=UTF-8", "Application/X-Www-Form-Urlencoded;charset=utf-8",
	"application/x-www-form-urlencoded;", "application/x-www-form-urlencoded;;x", "application/x-www-form-urlencoded; a=\"b;c\"",
	"application/x-www-form-urlencoded ;charset=UTF-8", "application/x-www-form-urlencoded ", "application/x-www-form-urlencoded\t",
	" application/x-www-form-urlencoded", "\t application/x-www-form-urlencoded \r\n; x", "application/x-www-form-urlencoded \v\f;"}

// ... and everything else (model correspondence only)
var ctPool = append(append([]string{}, ctAccepted...),
	"application/x-www-form-urlencodedx", "application/x-www-form-urlencoded,x", "application/x-www-form- urlencoded",
	"x application/x-www-form-urlencoded", ";application/x-www-form-urlencoded", "application/x-www-form-urlencoded x;",
	"multipart/form-data; boundary=xyz", "Multipart/Form-Data", "multipart/form-datax", " multipart/form-data", "text/plain", "application/json", "text/xml", "")
var ctlPool = []string{"", "", "JSON", "json", "XML", "URLENCODED", "RAW", "MULTIPART", "FOO"}

func cookieSafe(p pair) bool {
	isWS := func(c byte) bool { return c == ' ' || c == '\t' || c == '\n' || c == '\r' }
	if p.K == "" || strings.ContainsAny(p.K, ";=") || isWS(p.K[0]) || isWS(p.K[len(p.K)-1]) {
		return false
	}
	if strings.Contains(p.V, ";") || (p.V != "" && isWS(p.V[len(p.V)-1])) {
		return false
	}
	return true
}

// ---- JSON trees ----
var jsonKeyPool = []string{"a", "A", "b", "a.b", "a", "0", "1", "", "x y", "k\"q", "k\\", "\xc3\xbc", "json", "a.0", "B", "b.c", "\n"}
var jsonRawPool = []string{"0", "-1", "1.5e3", "12345678901234567890", "true", "false", "0.10"}

func genTree(r *rand.Rand, depth int) jnode {
	k := r.Intn(10)
	if depth == 0 && k >= 6 {
		k = r.Intn(6)
	}
	switch {
	case k < 3:
		return jnode{T: "s", S: hx(pick(r, valPool))}
	case k == 3:
		return jnode{T: "null"}
	case k < 6:
		return jnode{T: "raw", S: hx(jsonRawPool[r.Intn(len(jsonRawPool))])}
	case k < 8:
		n := r.Intn(4)
		a := jnode{T: "arr"}
		for i := 0; i < n; i++ {
			a.Items = append(a.Items, genTree(r, depth-1))
		}
		return a
	default:
		n := r.Intn(5)
		o := jnode{T: "obj"}
		for i := 0; i < n; i++ {
			o.Keys = append(o.Keys, hx(jsonKeyPool[r.Intn(len(jsonKeyPool))]))
			o.Items = append(o.Items, genTree(r, depth-1))
		}
		return o
	}
}

// a different, still valid, serialisation: whitespace, \uXXXX escapes for ASCII, \/ , \n
func (n *jnode) serialiseAlt(r *rand.Rand) string {
	ws := func() string { return []string{"", " ", "\n", "\t ", ""}[r.Intn(5)] }
	str := func(s string) string {
		var b strings.Builder
		b.WriteByte('"')
		for i := 0; i < len(s); i++ {
			c := s[i]
			switch {
			case c == '"':
				b.WriteString(`\"`)
			case c == '\\':
				b.WriteString(`\\`)
			case c == '\n' && r.Intn(2) == 0:
				b.WriteString(`\n`)
			case c == '/' && r.Intn(2) == 0:
				b.WriteString(`\/`)
			case c < 0x20 || (c < 0x80 && r.Intn(4) == 0):
				b.WriteString(`\u00`)
				b.WriteByte(hexLo[c>>4])
				b.WriteByte(hexUp[c&15])
			default:
				b.WriteByte(c)
			}
		}
		b.WriteByte('"')
		return b.String()
	}
	switch n.T {
	case "s":
		return str(unhx(n.S))
	case "null":
		return "null"
	case "raw":
		return unhx(n.S)
	case "arr":
		it := make([]string, len(n.Items))
		for i := range n.Items {
			it[i] = ws() + n.Items[i].serialiseAlt(r) + ws()
		}
		return "[" + ws() + strings.Join(it, ",") + "]"
	default:
		it := make([]string, len(n.Items))
		for i := range n.Items {
			it[i] = ws() + str(unhx(n.Keys[i])) + ws() + ":" + ws() + n.Items[i].serialiseAlt(r) + ws()
		}
		return "{" + ws() + strings.Join(it, ",") + "}"
	}
}

func (rn *runner) generate() error {
	cfg := rn.cfg
	r := vh.Rng(cfg.Seed, "c03")
	run := func(c *caseJSON) error { return rn.runCase(c) }

	// 1. ParseQuery directly: exhaustive over the metacharacters of the decoder
	enumerate("a%+=&4z", cfg.Pick(4, 5), func(s string) { _ = run(&caseJSON{Kind: "parsequery", QHex: hx(s)}) })
	for i := 0; i < cfg.Pick(250, 2000); i++ {
		c := &caseJSON{Kind: "parsequery", QHex: hx(randFrom(r, "aA%+=&;4fFgz \x00\xff", 5+r.Intn(16)))}
		if r.Intn(4) == 0 {
			c.Sep = ';'
		}
		_ = run(c)
	}
	// every byte after '%' and in second position
	for b := 0; b < 256; b++ {
		_ = run(&caseJSON{Kind: "parsequery", QHex: hx("k=%" + string([]byte{byte(b)}) + "1x")})
		_ = run(&caseJSON{Kind: "parsequery", QHex: hx("k=%4" + string([]byte{byte(b)}))})
		_ = run(&caseJSON{Kind: "parsequery", QHex: hx(string([]byte{byte(b)}) + "=" + string([]byte{byte(b)}))})
	}
	// 2. ParseCookies directly
	enumerate("a=; \tb", cfg.Pick(4, 5), func(s string) { _ = run(&caseJSON{Kind: "parsecookies", QHex: hx(s)}) })
	for i := 0; i < cfg.Pick(250, 2000); i++ {
		_ = run(&caseJSON{Kind: "parsecookies", QHex: hx(randFrom(r, "aAb=; \t\r\n%+\"", 4+r.Intn(20)))})
	}
	// 3. encoder cross-check
	for i := 0; i < cfg.Pick(150, 1500); i++ {
		_ = run(&caseJSON{Kind: "enc", Pairs: pairsHex(genPairs(r, false))})
	}
	for b := 0; b < 256; b++ {
		_ = run(&caseJSON{Kind: "enc", Pairs: pairsHex([]pair{{string([]byte{byte(b)}), "v" + string([]byte{byte(b)})}})})
	}

	// 4. ProcessURI
	// 4a. round trip of pair lists through the query string, argument limits around n
	for i := 0; i < cfg.Pick(400, 2500); i++ {
		limited := r.Intn(2) == 0
		l := genPairs(r, limited)
		c := &caseJSON{Kind: "uri", Via: "query", Orig: pairsHex(l)}
		if limited {
			n := distinctFolded(l)
			exact := map[string]bool{}
			for _, p := range l {
				exact[p.K] = true
			}
			if len(exact) > 6 { // the order oracle is enumerated for up to 6 groups of the parsed map
				continue
			}
			c.Limit = []int{1, 2, n - 1, n, n + 1, len(l)}[r.Intn(6)]
			if c.Limit < 1 {
				c.Limit = 1
			}
		}
		var q string
		switch r.Intn(3) {
		case 0:
			q = encQueryCanon(l)
		case 1:
			q = encQueryRand(r, l, rawOKQuery)
		default:
			// raw control bytes now and then: url.ParseRequestURI refuses them (URLENCODED_ERROR path)
			q = encQueryRand(r, l, func(c byte) bool { return rawOKQuery(c) || (c < 0x20 && r.Intn(3) == 0) })
		}
		uri := pathPool[r.Intn(len(pathPool))] + "?" + q
		if r.Intn(5) == 0 {
			uri += "#frag?x=1&" + q
		}
		c.URIHex = hx(uri)
		if err := run(c); err != nil {
			return err
		}
	}
	// 4b. raw URIs: exhaustive small scope over the URI metacharacters
	enumerate("/?#=&a%\\.", cfg.Pick(3, 4), func(s string) { _ = run(&caseJSON{Kind: "uri", URIHex: hx(s)}) })
	for i := 0; i < cfg.Pick(200, 1000); i++ {
		c := &caseJSON{Kind: "uri", URIHex: hx(randFrom(r, "/?#=&aA%4z+\\.: *", 1+r.Intn(14)))}
		if r.Intn(3) == 0 {
			c.URIHex = hx("/" + randFrom(r, "/?#=&aA%4z+\\.;", r.Intn(14)))
		}
		if err := run(c); err != nil {
			return err
		}
	}
	// 4c. invalid escapes at every offset of a value
	for _, esc := range []string{"%", "%4", "%zz", "%4g", "%g4", "%%41", "%25", "%2541", "+", "%2B", "%00", "%ff", "%FF"} {
		for off := 0; off <= 4; off++ {
			v := "abcd"[:off] + esc + "abcd"[off:]
			_ = run(&caseJSON{Kind: "uri", URIHex: hx("/p?k=" + v + "&" + v + "=1")})
		}
	}

	// 5. headers and cookies
	for i := 0; i < cfg.Pick(250, 1000); i++ {
		l := genPairs(r, false)
		if r.Intn(3) == 0 {
			l = append(l, pair{[]string{"Content-Type", "content-type", "CONTENT-TYPE"}[r.Intn(3)], ctPool[r.Intn(len(ctPool))]})
		}
		if r.Intn(3) == 0 {
			l = append(l, pair{[]string{"Cookie", "cookie", "COOKIE"}[r.Intn(3)], randFrom(r, "aAb=; \t%", r.Intn(16))})
		}
		r.Shuffle(len(l), func(i, j int) { l[i], l[j] = l[j], l[i] })
		if err := run(&caseJSON{Kind: "headers", Via: "headers", Pairs: pairsHex(l)}); err != nil {
			return err
		}
	}
	for i := 0; i < cfg.Pick(250, 1000); i++ {
		var l []pair
		for _, p := range genPairs(r, false) {
			if cookieSafe(p) {
				l = append(l, p)
			}
		}
		val := encCookieCanon(l)
		if r.Intn(3) == 0 { // optional white space around the pairs
			parts := make([]string, len(l))
			for i, p := range l {
				parts[i] = []string{"", " ", "\t"}[r.Intn(3)] + p.K + []string{"", " "}[r.Intn(2)] + "=" + p.V + []string{"", " ", " \t"}[r.Intn(3)]
			}
			val = strings.Join(parts, ";")
		}
		hs := []pair{{"Host", "x"}, {[]string{"Cookie", "cookie"}[r.Intn(2)], val}}
		if len(l) > 1 && r.Intn(4) == 0 { // two Cookie headers
			k := 1 + r.Intn(len(l)-1)
			hs = []pair{{"Cookie", encCookieCanon(l[:k])}, {"cookie", encCookieCanon(l[k:])}}
		}
		if err := run(&caseJSON{Kind: "headers", Via: "cookie", Pairs: pairsHex(hs), Orig: pairsHex(l)}); err != nil {
			return err
		}
	}

	// 6. request bodies
	// 6a. round trip through a urlencoded body
	for i := 0; i < cfg.Pick(250, 1200); i++ {
		l := genPairs(r, false)
		body := encQueryCanon(l)
		if r.Intn(2) == 0 {
			body = encQueryRand(r, l, rawOKBody)
		}
		c := &caseJSON{Kind: "body", Via: "urlencoded", Orig: pairsHex(l), Access: true, BodyHex: hx(body),
			Pairs: pairsHex([]pair{{[]string{"Content-Type", "content-type", "CONTENT-TYPE"}[r.Intn(3)], ctAccepted[r.Intn(len(ctAccepted))]}})}
		if body == "" {
			c.Via = ""
		}
		if err := run(c); err != nil {
			return err
		}
	}
	// 6b. processor selection matrix
	bodies := []string{"a=1&A=2&a=3", "{\"a\":1}", "{\"a\":", "<r a=\"1\">t</r>", "<r><unclosed></r>", "", "\x00\xff&=%", "x", "[1,2", "nul"}
	for i := 0; i < cfg.Pick(350, 1200); i++ {
		c := &caseJSON{Kind: "body", Access: r.Intn(5) != 0, Force: r.Intn(3) == 0, Ctl: ctlPool[r.Intn(len(ctlPool))],
			BodyHex: hx(bodies[r.Intn(len(bodies))])}
		var hs []pair
		if r.Intn(4) != 0 {
			hs = append(hs, pair{"Content-Type", ctPool[r.Intn(len(ctPool))]})
		}
		c.Pairs = pairsHex(hs)
		body := unhx(c.BodyHex)
		if body == "{\"a\":1}" {
			c.Tree = &jnode{T: "obj", Keys: []string{hx("a")}, Items: []jnode{{T: "raw", S: hx("1")}}}
			c.Canon = true
		}
		if err := run(c); err != nil {
			return err
		}
	}
	// 6c. JSON trees (ctl:requestBodyProcessor=JSON), depth limits
	for i := 0; i < cfg.Pick(400, 2500); i++ {
		t := genTree(r, 3)
		if r.Intn(4) == 0 { // an object of strings built from a pair list
			l := genPairs(r, true)
			t = jnode{T: "obj"}
			for _, p := range l {
				t.Keys = append(t.Keys, hx(p.K))
				t.Items = append(t.Items, jnode{T: "s", S: hx(p.V)})
			}
		}
		var paths []string
		t.allPaths("json", &paths)
		if len(paths) > 24 {
			continue
		}
		c := &caseJSON{Kind: "body", Via: "jsontree", Access: true, Ctl: "JSON", Tree: &t, Canon: true,
			Pairs: pairsHex([]pair{{"Content-Type", "application/json"}})}
		if r.Intn(3) == 0 {
			c.Depth = 1 + r.Intn(4)
		}
		if r.Intn(4) == 0 {
			c.Canon = false
			c.BodyHex = hx(t.serialiseAlt(r))
		}
		if err := run(c); err != nil {
			return err
		}
	}

	// 6d. bodies delivered in 1-4 chunks through WriteRequestBody / ReadRequestBodyFrom with
	// SecRequestBodyLimit around the body size and on chunk boundaries, both limit actions
	for i := 0; i < cfg.Pick(350, 3000); i++ {
		c := &caseJSON{Kind: "chunked", Reject: r.Intn(2) == 0}
		var body string
		switch r.Intn(5) {
		case 0: // JSON object of strings
			l := genPairs(r, true)
			t := jnode{T: "obj"}
			seen := map[string]bool{}
			for _, p := range l {
				if seen[lowerASCII(p.K)] {
					continue
				}
				seen[lowerASCII(p.K)] = true
				t.Keys = append(t.Keys, hx(p.K))
				t.Items = append(t.Items, jnode{T: "s", S: hx(p.V)})
			}
			c.Tree, c.Via, c.Ctl = &t, "jsontree", "JSON"
			c.Pairs = pairsHex([]pair{{"Content-Type", "application/json"}})
			body = t.serialise()
		case 1: // raw
			body = randFrom(r, "ab=&%\x00 ", 1+r.Intn(40))
			c.Via, c.Ctl, c.BodyHex = "raw", "RAW", hx(body)
			c.Pairs = pairsHex([]pair{{"Content-Type", "text/plain"}})
		default:
			l := genPairs(r, false)
			if len(l) == 0 {
				l = []pair{{"a", "1"}}
			}
			body = encQueryCanon(l)
			if r.Intn(2) == 0 {
				body = encQueryRand(r, l, rawOKBody)
			}
			c.Via, c.Orig, c.BodyHex = "urlencoded", pairsHex(l), hx(body)
			c.Pairs = pairsHex([]pair{{"Content-Type", ctAccepted[r.Intn(len(ctAccepted))]}})
		}
		n := len(body)
		// split points
		k := 1 + r.Intn(4)
		var cuts []int
		for j := 1; j < k && n > 1; j++ {
			cuts = append(cuts, 1+r.Intn(n-1))
		}
		sortInts(cuts)
		prev := 0
		api := r.Intn(4) // 3 = mixed
		for _, x := range append(cuts, n) {
			a := api
			if api == 3 {
				a = r.Intn(3)
			}
			c.Chunks = append(c.Chunks, chunkJSON{API: a, Len: x - prev})
			prev = x
		}
		choices := []int{n - 1, n, n + 1, n + 50, 1, n / 2}
		for _, x := range cuts { // a chunk boundary exactly on the limit, and next to it
			choices = append(choices, x, x, x, x+1, x-1)
		}
		c.BodyLimit = choices[r.Intn(len(choices))]
		if c.BodyLimit < 1 {
			c.BodyLimit = 1
		}
		if err := run(c); err != nil {
			return err
		}
	}
	// the witness shape of the seeded defect class: first chunk ends exactly on the limit
	for _, rej := range []bool{false, true} {
		for _, api := range []int{0, 1, 2} {
			l := []pair{{"a", "11111"}, {"b", "22222"}, {"evil", "payload"}}
			if err := run(&caseJSON{Kind: "chunked", Reject: rej, Via: "urlencoded", Orig: pairsHex(l), BodyHex: hx(encQueryCanon(l)),
				Pairs: pairsHex([]pair{{"Content-Type", "application/x-www-form-urlencoded"}}), BodyLimit: 16,
				Chunks: []chunkJSON{{api, 7}, {api, 9}, {api, 3}, {api, 100}}}); err != nil {
				return err
			}
		}
	}

	// 6d'. every body kind in 1-5 chunks around an explicit SecRequestBodyInMemoryLimit below the body
	// limit (the buffer spills to a temp file): WriteRequestBody / ReadRequestBodyFrom, split points at
	// and next to the in-memory limit; must expose the same as the one-piece delivery
	for i := 0; i < cfg.Pick(260, 2500); i++ {
		c := &caseJSON{Kind: "chunked", Reject: r.Intn(2) == 0}
		var body string
		switch r.Intn(6) {
		case 0:
			l := genPairs(r, true)
			t := jnode{T: "obj"}
			seen := map[string]bool{}
			for _, p := range l {
				if seen[lowerASCII(p.K)] {
					continue
				}
				seen[lowerASCII(p.K)] = true
				t.Keys = append(t.Keys, hx(p.K))
				t.Items = append(t.Items, jnode{T: "s", S: hx(p.V)})
			}
			c.Tree, c.Via, c.Ctl = &t, "jsontree", "JSON"
			c.Pairs = pairsHex([]pair{{"Content-Type", "application/json"}})
			body = t.serialise()
		case 1:
			body = randFrom(r, "ab=&%\x00 ", 8+r.Intn(60))
			c.Via, c.Ctl, c.BodyHex = "raw", "RAW", hx(body)
			c.Pairs = pairsHex([]pair{{"Content-Type", "text/plain"}})
		case 2:
			parts := [][3]string{{hx("note"), "", hx("hello world")}, {hx("up"), hx("e.php"), hx(randFrom(r, "abc<?>", 5+r.Intn(40)))}, {hx("z"), "", hx("last=1")}}
			body = mpPrint("XbOuNdArY7", parts)
			c.Via, c.BodyHex = "multipart", hx(body)
			c.Pairs = pairsHex([]pair{{"Content-Type", "multipart/form-data; boundary=XbOuNdArY7"}})
		case 3:
			body = "<root a=\"1\"><e b=\"" + randFrom(r, "abc", 3+r.Intn(10)) + "\">text " + randFrom(r, "xyz ", r.Intn(30)) + "</e><f>more</f></root>"
			c.Via, c.Ctl, c.BodyHex = "xml", "XML", hx(body)
			c.Pairs = pairsHex([]pair{{"Content-Type", "text/xml"}})
		default:
			l := genPairs(r, false)
			for len(encQueryCanon(l)) < 12 {
				l = append(l, pair{"k" + string(rune('a'+r.Intn(26))), pick(r, valPool)})
			}
			body = encQueryCanon(l)
			c.Via, c.Orig, c.BodyHex = "urlencoded", pairsHex(l), hx(body)
			c.Pairs = pairsHex([]pair{{"Content-Type", ctAccepted[r.Intn(len(ctAccepted))]}})
		}
		n := len(body)
		if n < 4 {
			continue
		}
		c.InMem = 1 + r.Intn(n-1)
		if r.Intn(3) == 0 {
			c.InMem = []int{1, 2, n / 2, n - 1}[r.Intn(4)]
		}
		if c.InMem < 1 {
			c.InMem = 1
		}
		c.BodyLimit = n + 1 + r.Intn(60)
		// split points: around the in-memory limit and elsewhere
		k := 1 + r.Intn(5)
		cutSet := map[int]bool{}
		for j := 1; j < k; j++ {
			x := 1 + r.Intn(n-1)
			if r.Intn(2) == 0 {
				x = c.InMem + r.Intn(5) - 2
			}
			if x >= 1 && x < n {
				cutSet[x] = true
			}
		}
		var cuts []int
		for x := range cutSet {
			cuts = append(cuts, x)
		}
		sortInts(cuts)
		prev := 0
		api := r.Intn(4)
		for _, x := range append(cuts, n) {
			a := api
			if api == 3 {
				a = r.Intn(3)
			}
			c.Chunks = append(c.Chunks, chunkJSON{API: a, Len: x - prev})
			prev = x
		}
		if err := run(c); err != nil {
			return err
		}
	}
	// the three-step shape: held in memory, a chunk crossing the in-memory limit, a later small chunk
	for _, api := range []int{0, 1, 2} {
		l := []pair{{"a", "11111"}, {"b", "22222"}, {"evil", "payload"}, {"c", "3"}}
		if err := run(&caseJSON{Kind: "chunked", Via: "urlencoded", Orig: pairsHex(l), BodyHex: hx(encQueryCanon(l)),
			Pairs: pairsHex([]pair{{"Content-Type", "application/x-www-form-urlencoded"}}), BodyLimit: 200, InMem: 10,
			Chunks: []chunkJSON{{api, 6}, {api, 9}, {api, 5}, {api, 4}, {api, 100}}}); err != nil {
			return err
		}
	}

	// 6e. multipart bodies with 1-3 fields and 1-2 files cut at every offset class, delivered
	// directly (the client stopped) and through a ProcessPartial limit
	mpContents := []string{"hello", "", "a", "0123456789", "<?php x ?>", "v=1&w=2", "line1\r\nline2", "--dash", "a\r", "\x00\xff\xfe"}
	for i := 0; i < cfg.Pick(40, 300); i++ {
		var parts [][3]string
		nf, nu := 1+r.Intn(3), 1+r.Intn(2)
		for j := 0; j < nf; j++ {
			parts = append(parts, [3]string{hx(fmt.Sprintf("f%d", j)), "", hx(mpContents[r.Intn(len(mpContents))])})
		}
		for j := 0; j < nu; j++ {
			parts = append(parts, [3]string{hx(fmt.Sprintf("up%d", j)), hx(fmt.Sprintf("file%d.php", j)), hx(mpContents[r.Intn(len(mpContents))] + randFrom(r, "abc", r.Intn(12)))})
		}
		r.Shuffle(len(parts), func(a, b int) { parts[a], parts[b] = parts[b], parts[a] })
		l := buildMultipart(parts)
		cutSet := map[int]bool{len(l.body): true, len(l.body) - 1: true, len(l.body) - 3: true}
		for j := range parts {
			h, e := l.hdrEnd[j], l.contentEnd[j]
			for _, x := range []int{h - 30, h - 12, h - 3, h - 2, h - 1, h, h + 1, (h + e) / 2, e - 1, e, e + 1, e + 2, e + 3, e + 6, e + 2 + 2 + len(mpBoundary)} {
				if x >= 1 && x <= len(l.body) {
					cutSet[x] = true
				}
			}
		}
		if cfg.Thorough() && i%10 == 0 {
			for x := 1; x <= len(l.body); x++ {
				cutSet[x] = true
			}
		}
		for x := range cutSet {
			if x < 1 {
				continue
			}
			if err := run(&caseJSON{Kind: "mptrunc", Parts: parts, Cut: x, Partial: x%2 == 0}); err != nil {
				return err
			}
		}
	}

	// 6f. well-formed multipart bodies printed from part lists (modelled: Decode.mp_parse / mp_collect)
	mpNames := []string{"a", "A", "f", "file", "a b", "q\"uote", "semi;colon", "back\\slash", "eq=x", "\xc3\xbc", "\xff", "n,a", "a/b", "", "x\\\"y", "tab\tx", "(p)", "k[0]", "per%41cent", "name*"}
	mpFiles := []string{"a.txt", "e.php", "A.TXT", "q\"uote.txt", "semi;colon.bin", "C:\\dir\\f.txt", "\xc3\xbc.txt", "sp ace.txt", "x\\\"y", "a.txt", "..\\..\\etc", "f=1"}
	mpBodies := []string{"", "hello", "a", "line1\r\nline2", "--", "\r\n", "\r\n--", "--XbOuNdArY7", "\r\n-", "\x00\xff", "v=1&w=2;%41+", "\r", "\n--XbOuNdArY7", "Content-Disposition: form-data; name=\"x\"", "\r\n--XbOuNdArY"}
	mpBounds := []string{"XbOuNdArY7", "b", "----WebKitFormBoundary7MA4YWxk", "a-b_1.2", "0"}
	for i := 0; i < cfg.Pick(260, 2500); i++ {
		b := mpBounds[r.Intn(len(mpBounds))]
		var parts [][3]string
		for j, n := 0, r.Intn(6); j < n; j++ {
			name := mpNames[r.Intn(len(mpNames))]
			content := mpBodies[r.Intn(len(mpBodies))]
			if r.Intn(3) == 0 {
				content += randFrom(r, "ab\r\n-=", r.Intn(30))
			}
			fn := ""
			if r.Intn(3) == 0 {
				fn = mpFiles[r.Intn(len(mpFiles))]
			}
			parts = append(parts, [3]string{hx(name), hx(fn), hx(content)})
		}
		if !mpPartsOK(b, parts) {
			continue
		}
		if err := run(&caseJSON{Kind: "mpmodel", Boundary: b, Parts: parts}); err != nil {
			return err
		}
	}

	// 7. multipart and XML: implementation-side round trip only (stdlib parsers are not modelled)
	mpName := func() string {
		const alpha = "abAB xy_-.[]%;=\"\\"
		b := make([]byte, 1+r.Intn(6))
		for i := range b {
			b[i] = alpha[r.Intn(len(alpha))]
		}
		return string(b)
	}
	for i := 0; i < cfg.Pick(150, 1500); i++ {
		var fields []pair
		for j, n := 0, r.Intn(5); j < n; j++ {
			name := mpName()
			if !isASCII(name) || strings.ContainsAny(name, "\r\n\x00") {
				name = "f"
			}
			fields = append(fields, pair{name, pick(r, valPool)})
		}
		var files [][3]string
		for j, n := 0, r.Intn(3); j < n; j++ {
			name, fn := mpName(), mpName()
			if !isASCII(name+fn) || strings.ContainsAny(name+fn, "\r\n\x00") {
				name, fn = "file", "a.txt"
			}
			files = append(files, [3]string{hx(name), hx(fn), hx(randBytes(r, r.Intn(40)))})
		}
		if err := run(&caseJSON{Kind: "multipart", Orig: pairsHex(fields), Files: files}); err != nil {
			return err
		}
	}
	xmlVals := []string{"v", "a b", "1<2", "x&y", "\"q\"", "\xc3\xbc", "a'b", "%41", "+", "a>b", "t1"}
	for i := 0; i < cfg.Pick(150, 1500); i++ {
		var els []pair
		for j, n := 0, r.Intn(5); j < n; j++ {
			els = append(els, pair{xmlVals[r.Intn(len(xmlVals))], xmlVals[r.Intn(len(xmlVals))]})
		}
		if err := run(&caseJSON{Kind: "xml", Orig: pairsHex(els)}); err != nil {
			return err
		}
	}
	return nil
}

func sortInts(a []int) { sort.Ints(a) }
