(* MatchFoldProofs.v — keyed selection is exact for EVERY key folding F (hence for strings.ToLower
   on arbitrary bytes, cm_fold lower_table): a bucket holds exactly the entries whose folded name
   is the bucket key, in insertion order; FindString(k) returns exactly the entries e with
   F (name e) = F k; FindRegex exactly those whose folded name the pattern accepts.  On ASCII names
   cm_fold tbl is Match.key_lower, so these collections ARE the ones of Match.v (validated by the
   correspondence); for other names the statements say what Go's maps do (collisions included). *)
From Coq Require Import Permutation String.
From Verif Require Import Base Utf8 Transform CaseMap CaseMapProofs Match MatchProofs MatchFold.
Open Scope N_scope.

Section Fold.
Variable F : bytes -> bytes.

Lemma fmap_add_keys m k v x :
  In x (map fst (fmap_add F m k v)) -> In x (map fst m) \/ x = F k.
Proof.
  induction m as [|b r IH]; cbn.
  - intros [H|[]]; auto.
  - destruct (bytes_eqb (fst b) (F k)); cbn; intros [H|H]; auto.
    destruct (IH H); auto.
Qed.

Lemma fmap_add_wf m k v : fwf_map F m -> fwf_map F (fmap_add F m k v).
Proof.
  induction m as [|b r IH]; intros [HF HN]; cbn.
  - split; [|constructor; [intros []|constructor]].
    constructor; [|constructor]. unfold fbucket_ok; cbn. constructor; [reflexivity|constructor].
  - inversion HF as [|? ? Hb HFr]; subst. inversion HN as [|? ? Hnin HNr]; subst.
    destruct (bytes_eqb (fst b) (F k)) eqn:E.
    + apply bytes_eqb_eq in E. split; cbn.
      * constructor; [|assumption]. unfold fbucket_ok in *; cbn. apply Forall_app; split; [assumption|].
        constructor; [cbn [fst]; symmetry; exact E|constructor].
      * constructor; assumption.
    + destruct (IH (conj HFr HNr)) as [HF' HN']. split; cbn.
      * constructor; assumption.
      * constructor; [|assumption]. intro Hin. apply fmap_add_keys in Hin as [Hin|Heq]; [contradiction|].
        rewrite Heq, bytes_eqb_refl in E. discriminate.
Qed.

Lemma ffold_add_wf l : forall m, fwf_map F m -> fwf_map F (fold_left (fun m e => fmap_add F m (fst e) (snd e)) l m).
Proof. induction l as [|e l IH]; cbn; intros m H; [assumption|]. apply IH, fmap_add_wf, H. Qed.

Theorem fmap_of_list_wf l : fwf_map F (fmap_of_list F l).
Proof. apply ffold_add_wf. split; constructor. Qed.

Lemma fmap_add_flat m k v : Permutation (flat_entries (fmap_add F m k v)) (flat_entries m ++ [(k, v)]).
Proof.
  unfold flat_entries. induction m as [|b r IH]; cbn.
  - apply Permutation_refl.
  - destruct (bytes_eqb (fst b) (F k)); cbn.
    + rewrite <- !app_assoc. apply Permutation_app_head. apply Permutation_app_comm.
    + rewrite <- app_assoc. apply Permutation_app_head. exact IH.
Qed.

Lemma ffold_add_flat l : forall m,
  Permutation (flat_entries (fold_left (fun m e => fmap_add F m (fst e) (snd e)) l m)) (flat_entries m ++ l).
Proof.
  induction l as [|e l IH]; cbn; intro m.
  - rewrite app_nil_r. apply Permutation_refl.
  - eapply Permutation_trans; [apply IH|].
    eapply Permutation_trans; [apply Permutation_app_tail, fmap_add_flat|].
    rewrite <- app_assoc. cbn. destruct e; apply Permutation_refl.
Qed.

(* nothing is lost or invented, whatever the names *)
Theorem fmap_of_list_entries l : Permutation (flat_entries (fmap_of_list F l)) l.
Proof. exact (ffold_add_flat l []). Qed.

Lemma fin_flat_key (m : gomap) e :
  Forall (fbucket_ok F) m -> In e (flat_entries m) -> In (F (fst e)) (map fst m).
Proof.
  unfold flat_entries. induction 1 as [|b r Hb _ IH]; cbn; [auto|].
  intro H. apply in_app_or in H as [H|H]; [left|right; auto].
  unfold fbucket_ok in Hb. rewrite Forall_forall in Hb. symmetry; auto.
Qed.

Lemma fmap_lookup_spec m lk : fwf_map F m ->
  map_lookup m lk = filter (fun e => bytes_eqb lk (F (fst e))) (flat_entries m).
Proof.
  unfold flat_entries. induction m as [|b r IH]; intros [HF HN]; cbn; [reflexivity|].
  inversion HF as [|? ? Hb HFr]; subst. inversion HN as [|? ? Hnin HNr]; subst.
  rewrite filter_app. destruct (bytes_eqb (fst b) lk) eqn:E.
  - apply bytes_eqb_eq in E; subst lk.
    rewrite filter_all, filter_none; [rewrite app_nil_r; reflexivity| |].
    + rewrite Forall_forall. intros e He. apply bytes_eqb_neq. intro Heq.
      apply Hnin. rewrite Heq. apply fin_flat_key; assumption.
    + unfold fbucket_ok in Hb. eapply Forall_impl; [|exact Hb]. cbn. intros e He. rewrite He. apply bytes_eqb_refl.
  - rewrite filter_none; [cbn; apply IH; split; assumption|].
    unfold fbucket_ok in Hb. eapply Forall_impl; [|exact Hb]. cbn. intros e He. rewrite He.
    rewrite bytes_eqb_sym. exact E.
Qed.

(* FindString(k) on the collection built from the request's pairs: exactly the entries whose
   folded name equals the folded key (as a multiset; within the bucket: insertion order) *)
Theorem ffind_string_spec l k :
  Permutation (ffind_string F (fmap_of_list F l) k) (filter (fun e => bytes_eqb (F k) (F (fst e))) l).
Proof.
  unfold ffind_string. rewrite (fmap_lookup_spec _ _ (fmap_of_list_wf l)).
  apply Permutation_filter, fmap_of_list_entries.
Qed.

Lemma ffilter_buckets_spec (f : bytes -> bool) m : Forall (fbucket_ok F) m ->
  flat_entries (filter (fun b => f (fst b)) m) = filter (fun e => f (F (fst e))) (flat_entries m).
Proof.
  unfold flat_entries. induction 1 as [|b r Hb _ IH]; cbn; [reflexivity|].
  rewrite filter_app. unfold fbucket_ok in Hb. destruct (f (fst b)) eqn:E; cbn.
  - rewrite (filter_all _ (snd b)); [f_equal; exact IH|].
    eapply Forall_impl; [|exact Hb]. cbn. intros e He. rewrite He. exact E.
  - rewrite (filter_none _ (snd b)); [exact IH|].
    eapply Forall_impl; [|exact Hb]. cbn. intros e He. rewrite He. exact E.
Qed.

(* FindRegex: exactly the entries whose folded name the pattern accepts *)
Theorem ffind_regex_spec rx l :
  Permutation (ffind_regex rx (fmap_of_list F l)) (filter (fun e => rx (F (fst e))) l).
Proof.
  unfold ffind_regex. rewrite ffilter_buckets_spec by apply fmap_of_list_wf.
  apply Permutation_filter, fmap_of_list_entries.
Qed.
End Fold.

(* ---- the table-parametric fold: strings.ToLower ---- *)
Lemma cm_fold_ascii tbl k : tbl_ascii_ok ascii_lower tbl = true -> all_ascii k = true -> cm_fold tbl k = key_lower k.
Proof.
  intros Ht Ha. unfold cm_fold, key_lower, lower_ascii, utf8_map.
  apply (utf8_map_fuel_ascii (map_rune tbl) ascii_lower);
    [intros c Hc; apply tbl_ascii_ok_spec; assumption | apply ascii_lower_lt | exact Ha | lia].
Qed.

Lemma fmap_add_ext F G m k v : F k = G k -> fmap_add F m k v = fmap_add G m k v.
Proof. intro H. induction m as [|b r IH]; cbn; rewrite H; [reflexivity|]. rewrite IH. reflexivity. Qed.

(* on ASCII names the collections folded with strings.ToLower ARE the collections of Match.v *)
Theorem fmap_of_list_ascii tbl l : tbl_ascii_ok ascii_lower tbl = true ->
  Forall (fun e => all_ascii (fst e) = true) l ->
  fmap_of_list (cm_fold tbl) l = map_of_list l.
Proof.
  intros Ht. unfold fmap_of_list, map_of_list. generalize (@nil bucket) as m.
  induction l as [|e l IH]; intros m HF; cbn [fold_left]; [reflexivity|].
  inversion HF as [|? ? He HFl]; subst. rewrite <- IH by assumption. f_equal.
  change (map_add m (fst e) (snd e)) with (fmap_add key_lower m (fst e) (snd e)).
  apply fmap_add_ext, cm_fold_ascii; assumption.
Qed.

(* ---- what Go's table does to the names ASCII reasoning gets wrong (computed on three entries of the table
   that verif-facts regenerates as FactsC14.lower_table: A-Z, U+0130 -> i, U+212A -> k) ---- *)
Definition lower_table : list case_range := [(65, 90, 1, 97); (304, 304, 1, 105); (8490, 8490, 1, 107)].
Definition kelvin : bytes := [226; 132; 170].          (* U+212A KELVIN SIGN *)
Definition idot : bytes := [196; 176].                 (* U+0130 *)

Example fold_kelvin : cm_fold lower_table kelvin = str "k"%string /\ cm_fold lower_table idot = str "i"%string
  /\ cm_fold lower_table [255] = [239; 191; 189] /\ cm_fold lower_table [254] = [239; 191; 189].
Proof. vm_compute. repeat split. Qed.

(* ARGS:k selects the argument named U+212A; the arguments named \xff and \xfe share one bucket *)
Example select_kelvin :
  ffind_string (cm_fold lower_table) (fmap_of_list (cm_fold lower_table) [(kelvin, str "v1"%string); (str "K"%string, str "v2"%string); (str "j"%string, str "v3"%string)]) (str "k"%string)
  = [(kelvin, str "v1"%string); (str "K"%string, str "v2"%string)]
  /\ List.length (fmap_of_list (cm_fold lower_table) [([255], []); ([254], [])]) = 1%nat.
Proof. vm_compute. split; reflexivity. Qed.
