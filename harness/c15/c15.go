// Package c15 drives the correspondence for C15 (built-in operators decide exactly their
// documented predicates): direct calls of the registered operators through the internal
// registry, ParseOperator through a verif hook, and single-rule WAFs with `capture` whose
// TX.0-9 are copied out by setvar; everything observed is compared inside Coq with the models
// of Operators.v. @ipMatch is checked on the implementation side only (bit arithmetic on the
// generated addresses as oracle).
package c15

import (
	"encoding/hex"
	"encoding/json"
	"fmt"
	"os"
	"regexp"
	"strconv"
	"strings"
	"testing/fstest"
	"unicode"
	"unicode/utf8"

	"rsc.io/binaryregexp"

	"github.com/corazawaf/coraza/v3/experimental/plugins/macro"
	"github.com/corazawaf/coraza/v3/experimental/plugins/plugintypes"
	"github.com/corazawaf/coraza/v3/internal/corazawaf"
	"github.com/corazawaf/coraza/v3/internal/memoize"
	"github.com/corazawaf/coraza/v3/internal/operators"
	"github.com/corazawaf/coraza/v3/internal/seclang"
	"github.com/corazawaf/coraza/v3/verifharness/vh"
)

func init() { vh.Register("C15", Run) }

// caseJSON is the replayable description of one case: inputs first, observations after.
type caseJSON struct {
	Kind     string      `json:"kind"` // mop pm pmf pmd vbr vue vutf8 rx parse rule ipmatch
	Op       string      `json:"op,omitempty"`
	ArgHex   string      `json:"arg_hex,omitempty"`
	Tx       [][2]string `json:"tx_hex,omitempty"` // key (ASCII), value (hex)
	ValueHex string      `json:"value_hex"`
	Capture  bool        `json:"capture,omitempty"`
	Prefilter bool       `json:"prefilter,omitempty"` // SecRxPreFilter On / OperatorOptions.RxPreFilterEnabled
	Phrases  []string    `json:"phrases_hex,omitempty"`
	// observations
	Res      string    `json:"res,omitempty"` // true | false | error
	Caps     []*string `json:"caps_hex,omitempty"`
	Copies   []string  `json:"copies_hex,omitempty"`
	Fn       string    `json:"fn_hex,omitempty"`
	Data     string    `json:"data_hex,omitempty"`
	Neg      bool      `json:"neg,omitempty"`
	RxIdx    []int     `json:"rx_idx,omitempty"`
	Note     string    `json:"note,omitempty"`
	Finding  string    `json:"finding_key,omitempty"`
	Property string    `json:"property,omitempty"`
	Steps    []stepJSON `json:"steps,omitempty"` // capseq / ruleseq
}

// stepJSON is one evaluation of a sequence case. capseq: Op is "rx" or "pm" (capturing, direct
// call on the shared transaction). ruleseq: ArgHex is the operator text of the rule.
type stepJSON struct {
	Op       string   `json:"op,omitempty"`
	ArgHex   string   `json:"arg_hex"`
	ValueHex string   `json:"value_hex"`
	Capture  bool     `json:"capture,omitempty"`
	Res      string   `json:"res,omitempty"`
	Caps     []*string `json:"caps_hex,omitempty"`
}

func hx(s string) string   { return hex.EncodeToString([]byte(s)) }
func unhx(h string) string { b, _ := hex.DecodeString(h); return string(b) }

var mopCoq = map[string]string{
	"streq": "OStreq", "contains": "OContains", "strmatch": "OStrmatch", "beginsWith": "OBeginsWith",
	"endsWith": "OEndsWith", "within": "OWithin", "eq": "OEq", "ge": "OGe", "gt": "OGt", "le": "OLe", "lt": "OLt",
}
var strOps = []string{"streq", "contains", "strmatch", "beginsWith", "endsWith", "within"}
var numOps = []string{"eq", "ge", "gt", "le", "lt"}

var theWAF = corazawaf.NewWAF()

func newTx(capture bool, txv [][2]string) *corazawaf.Transaction {
	tx := theWAF.NewTransaction()
	tx.Capture = capture
	for _, kv := range txv {
		tx.Variables().TX().Set(kv[0], []string{unhx(kv[1])})
	}
	return tx
}

func readCaps(tx plugintypes.TransactionState) []*string {
	res := make([]*string, 10)
	for i := 0; i < 10; i++ {
		v := tx.Variables().TX().Get(strconv.Itoa(i))
		if len(v) > 0 {
			h := hx(v[0])
			res[i] = &h
		}
	}
	return res
}

func optBool(res string) string {
	switch res {
	case "true":
		return "(Some true)"
	case "false":
		return "(Some false)"
	}
	return "None"
}

// capsTerm prints TX.0-9 with trailing empty entries dropped (they always exist: a new
// transaction sets them to ""); an absent entry is printed as "<absent>" and never matches.
func capsTerm(c []*string) string {
	items := make([]string, len(c))
	for i, p := range c {
		if p == nil {
			items[i] = "<absent>"
		} else {
			items[i] = unhx(*p)
		}
	}
	return vh.HxList(trimEmpties(items))
}

func trimEmpties(l []string) []string {
	n := len(l)
	for n > 0 && l[n-1] == "" {
		n--
	}
	return l[:n]
}

func txTerm(txv [][2]string) string {
	items := make([]string, len(txv))
	// the model's tx_get returns the first binding: later Set calls win in Go, so reverse
	for i, kv := range txv {
		items[len(txv)-1-i] = "(" + vh.HxS(strings.ToLower(kv[0])) + ", " + vh.HxS(unhx(kv[1])) + ")"
	}
	return vh.List(items)
}

// lowerTable lists (rune, unicode.ToLower(rune)) for the non-ASCII runes of s that change.
func lowerTable(s string) string {
	seen := map[rune]bool{}
	var items []string
	for _, r := range s {
		if r < 128 || seen[r] {
			continue
		}
		seen[r] = true
		if l := unicode.ToLower(r); l != r {
			items = append(items, fmt.Sprintf("(%d, %d)", r, l))
		}
	}
	return vh.List(items)
}

func boolStr(b bool) string {
	if b {
		return "true"
	}
	return "false"
}

type runner struct {
	cfg      vh.Config
	res      *vh.Result
	terms    []string
	cases    []any
	seen     map[string]bool
	nontriv  int
	oracleN  int
	pf       bool // current SecRxPreFilter setting for @rx cases
	memo     *memoize.Memoizer
	memoID   uint64
	memoUses int
}

// mz returns the memoizer of the current simulated WAF: operators are built through the real
// process-wide memoize cache (as ParseOperator does), so a compiled artefact cached under a key
// that does not determine it (a data-set name, a file name) is handed to the next operator with
// different content. Every 400 constructions a new "WAF" starts and the old one is released.
func (r *runner) mz() *memoize.Memoizer {
	if r.memo == nil || r.memoUses >= 400 {
		if r.memo != nil {
			memoize.Release(r.memoID)
		}
		r.memoID++
		r.memo = memoize.NewMemoizer(1<<40 + r.memoID)
		r.memoUses = 0
	}
	r.memoUses++
	return r.memo
}

func (r *runner) fail(key, what string, c any) {
	r.res.OracleFailures = append(r.res.OracleFailures, vh.OracleFailure{Key: key, What: what, Case: c})
}

func (r *runner) emit(term string, cj *caseJSON, nontrivial bool, dist string) {
	r.res.Evaluations++
	r.res.InputDistribution[dist]++
	k := cj.Kind + "|" + cj.Op + "|" + cj.ArgHex + "|" + cj.ValueHex + "|" + fmt.Sprint(cj.Capture, cj.Prefilter, cj.Tx, cj.Phrases, cj.Steps)
	if !r.seen[k] {
		r.seen[k] = true
		if nontrivial {
			r.nontriv++
		}
	}
	r.terms = append(r.terms, term)
	r.cases = append(r.cases, cj)
}

// evalSafe calls op.Evaluate with a recover (a panic is an oracle failure)
func (r *runner) evalSafe(op plugintypes.Operator, tx plugintypes.TransactionState, v string, cj *caseJSON) (res bool, ok bool) {
	defer func() {
		if p := recover(); p != nil {
			r.fail("c15-panic-"+cj.Kind, fmt.Sprintf("operator panicked: %v", p), cj)
			ok = false
		}
	}()
	return op.Evaluate(tx, v), true
}

// ---- kinds ----

func (r *runner) runMop(opName, arg string, txv [][2]string, value string) {
	cj := &caseJSON{Kind: "mop", Op: opName, ArgHex: hx(arg), Tx: txv, ValueHex: hx(value)}
	op, err := operators.Get(opName, plugintypes.OperatorOptions{Arguments: arg, Memoizer: r.mz()})
	if err != nil {
		cj.Res = "error"
	} else {
		tx := newTx(false, txv)
		b, ok := r.evalSafe(op, tx, value, cj)
		// purity: the same call again gives the same answer
		b2, _ := r.evalSafe(op, tx, value, cj)
		r.oracleN++
		if b != b2 {
			r.fail("c15-impure-"+opName, "same operator, same input, different result", cj)
		}
		tx.Close()
		if !ok {
			return
		}
		cj.Res = boolStr(b)
	}
	term := fmt.Sprintf("CMop %s %s %s %s %s", mopCoq[opName], vh.HxS(arg), txTerm(txv), vh.HxS(value), optBool(cj.Res))
	r.emit(term, cj, cj.Res == "true" || cj.Res == "error", "mop_"+opName+"_"+cj.Res)
}

func (r *runner) pmCommon(kind string, op plugintypes.Operator, cj *caseJSON, value string, capture bool, head string) {
	tx := newTx(capture, nil)
	b, ok := r.evalSafe(op, tx, value, cj)
	cj.Caps = readCaps(tx)
	tx.Close()
	if !ok {
		return
	}
	cj.Res = boolStr(b)
	term := fmt.Sprintf("%s %s %s %s %s", head, vh.HxS(value), vh.Bool(capture), vh.Bool(b), capsTerm(cj.Caps))
	r.emit(term, cj, b, kind+"_"+cj.Res)
}

func (r *runner) runPm(arg, value string, capture bool) {
	cj := &caseJSON{Kind: "pm", ArgHex: hx(arg), ValueHex: hx(value), Capture: capture}
	op, err := operators.Get("pm", plugintypes.OperatorOptions{Arguments: arg, Memoizer: r.mz()})
	if err != nil {
		r.fail("c15-pm-ctor", "newPM returned an error: "+err.Error(), cj)
		return
	}
	r.pmCommon("pm", op, cj, value, capture, fmt.Sprintf("CPm %s %s", lowerTable(arg), vh.HxS(arg)))
	// implementation-side oracle (ASCII arguments): the documented predicate itself
	if isASCII(arg) {
		r.oracleN++
		want := false
		lv := asciiLower(value)
		for _, p := range strings.Split(arg, " ") {
			if p != "" && strings.Contains(lv, asciiLower(p)) {
				want = true
			}
		}
		if want != (cj.Res == "true") {
			r.fail("c15-pm-predicate", "@pm differs from 'some non-empty phrase occurs ASCII-case-insensitively'", cj)
		}
	}
}

func (r *runner) runPmf(data, value string, capture bool) {
	cj := &caseJSON{Kind: "pmf", ArgHex: hx(data), ValueHex: hx(value), Capture: capture}
	fsys := fstest.MapFS{"d/phrases.data": &fstest.MapFile{Data: []byte(data)}}
	op, err := operators.Get("pmFromFile", plugintypes.OperatorOptions{Arguments: "phrases.data", Path: []string{"d"}, Root: fsys, Memoizer: r.mz()})
	if err != nil {
		r.fail("c15-pmf-ctor", "newPMFromFile returned an error: "+err.Error(), cj)
		return
	}
	r.pmCommon("pmf", op, cj, value, capture, fmt.Sprintf("CPmf %s %s", lowerTable(data), vh.HxS(data)))
}

func (r *runner) runPmd(phrases []string, value string, capture bool) {
	ph := make([]string, len(phrases))
	for i, p := range phrases {
		ph[i] = hx(p)
	}
	cj := &caseJSON{Kind: "pmd", Phrases: ph, ValueHex: hx(value), Capture: capture}
	op, err := operators.Get("pmFromDataset", plugintypes.OperatorOptions{Arguments: "ds", Datasets: map[string][]string{"ds": phrases}, Memoizer: r.mz()})
	if err != nil {
		r.fail("c15-pmd-ctor", "newPMFromDataset returned an error: "+err.Error(), cj)
		return
	}
	r.pmCommon("pmd", op, cj, value, capture, fmt.Sprintf("CPmd %s", vh.HxList(phrases)))
}

func (r *runner) runSimple(kind, opName, arg, value string) {
	cj := &caseJSON{Kind: kind, ArgHex: hx(arg), ValueHex: hx(value)}
	op, err := operators.Get(opName, plugintypes.OperatorOptions{Arguments: arg, Memoizer: r.mz()})
	if err != nil {
		cj.Res = "error"
	} else {
		tx := newTx(false, nil)
		b, ok := r.evalSafe(op, tx, value, cj)
		tx.Close()
		if !ok {
			return
		}
		cj.Res = boolStr(b)
	}
	var term string
	switch kind {
	case "vbr":
		term = fmt.Sprintf("CVbr %s %s %s", vh.HxS(arg), vh.HxS(value), optBool(cj.Res))
	case "vue":
		term = fmt.Sprintf("CVue %s %s", vh.HxS(value), vh.Bool(cj.Res == "true"))
	case "vutf8":
		term = fmt.Sprintf("CVutf8 %s %s", vh.HxS(value), vh.Bool(cj.Res == "true"))
		r.oracleN++
		if (cj.Res == "true") == utf8.ValidString(value) {
			r.fail("c15-vutf8-stdlib", "@validateUtf8Encoding differs from !utf8.ValidString", cj)
		}
	}
	r.emit(term, cj, cj.Res != "false", kind+"_"+cj.Res)
}

func zlist(idx []int) string {
	items := make([]string, len(idx))
	for i, v := range idx {
		items[i] = vh.Z(int64(v))
	}
	return vh.List(items)
}

// rxOracle: what the regexp engine selected by newRX answers for "(?sm)"+pattern (the binary
// matcher for patterns with byte escapes that are not valid UTF-8, Go's regexp otherwise).
func rxOracle(pat, value string) (idx []int, matched bool, ok bool) {
	data := "(?sm)" + pat
	if operators.VerifC15MatchesArbitraryBytes(data) {
		re, err := binaryregexp.Compile(data)
		if err != nil {
			return nil, false, false
		}
		m := re.FindStringSubmatchIndex(value)
		return m, m != nil, true
	}
	re, err := regexp.Compile(data)
	if err != nil {
		return nil, false, false
	}
	m := re.FindStringSubmatchIndex(value)
	return m, m != nil, true
}

// rxResult evaluates @rx pat on value without capture (ok=false: the pattern does not compile)
func rxResult(pat, value string) (res bool, ok bool) {
	op, err := operators.Get("rx", plugintypes.OperatorOptions{Arguments: pat})
	if err != nil {
		return false, false
	}
	tx := newTx(false, nil)
	defer tx.Close()
	return op.Evaluate(tx, value), true
}

func (r *runner) runRx(pat, value string, capture bool) {
	cj := &caseJSON{Kind: "rx", ArgHex: hx(pat), ValueHex: hx(value), Capture: capture, Prefilter: r.pf}
	idx, matched, ok := rxOracle(pat, value)
	op, err := operators.Get("rx", plugintypes.OperatorOptions{Arguments: pat, RxPreFilterEnabled: r.pf, Memoizer: r.mz()})
	if !ok || err != nil {
		if ok != (err == nil) {
			r.fail("c15-rx-compile", "@rx and regexp.Compile((?sm)pattern) disagree on validity", cj)
		}
		return
	}
	tx := newTx(capture, nil)
	b, ok2 := r.evalSafe(op, tx, value, cj)
	cj.Caps = readCaps(tx)
	tx.Close()
	if !ok2 {
		return
	}
	cj.Res = boolStr(b)
	cj.RxIdx = idx
	m := "None"
	if matched {
		m = "(Some " + zlist(idx) + ")"
	}
	term := fmt.Sprintf("CRx %s %s %s %s %s", m, vh.HxS(value), vh.Bool(capture), vh.Bool(b), capsTerm(cj.Caps))
	r.emit(term, cj, b, "rx_"+cj.Res+pfTag(r.pf))
}

func (r *runner) runParse(optext string) {
	cj := &caseJSON{Kind: "parse", ArgHex: hx(optext)}
	var fn, data string
	var neg bool
	var err error
	func() {
		defer func() {
			if p := recover(); p != nil {
				err = fmt.Errorf("panic: %v", p)
				r.fail("c15-parse-panic", fmt.Sprintf("ParseOperator panicked: %v", p), cj)
			}
		}()
		fn, data, neg, _, err = seclang.VerifC15ParseOperator(optext, nil, nil, "")
	}()
	known := err == nil
	cj.Res = boolStr(known)
	cj.Fn, cj.Data, cj.Neg = hx(fn), hx(data), neg
	term := fmt.Sprintf("CParse %s %s %s %s %s", vh.HxS(optext), vh.Bool(known), vh.HxS(fn), vh.HxS(data), vh.Bool(neg))
	r.emit(term, cj, known, "parse_"+cj.Res)
}

// runRule: SecRule REQUEST_HEADERS:x "<optext>" "id:1,phase:1,pass[,capture],setvar..." on one value.
// optext must not contain '"', '\\', newlines or backticks (directive quoting is property C16).
func (r *runner) runRule(optext string, txv [][2]string, value string, capture bool, finding string) {
	cj := &caseJSON{Kind: "rule", ArgHex: hx(optext), Tx: txv, ValueHex: hx(value), Capture: capture, Finding: finding, Prefilter: r.pf}
	var sb strings.Builder
	if r.pf {
		sb.WriteString("SecRxPreFilter On\n")
	}
	for i, kv := range txv {
		fmt.Fprintf(&sb, "SecAction \"id:%d,phase:1,pass,nolog,setvar:tx.%s=%s\"\n", 100+i, kv[0], unhx(kv[1]))
	}
	acts := "id:1,phase:1,pass,nolog"
	if capture {
		acts += ",capture"
	}
	acts += ",setvar:tx.m=1"
	for i := 0; i < 10; i++ {
		acts += fmt.Sprintf(",setvar:tx.c%d=%%{tx.%d}", i, i)
	}
	fmt.Fprintf(&sb, "SecRule REQUEST_HEADERS:x \"%s\" \"%s\"\n", optext, acts)
	waf := corazawaf.NewWAF()
	p := seclang.NewParser(waf)
	err := p.FromString(sb.String())
	// what the model needs from the outside world
	_, name, arg := modelParse(optext)
	ltbl := "[]"
	rxm := "None"
	if name == "pm" {
		ltbl = lowerTable(arg)
	}
	if name == "rx" {
		idx, matched, ok := rxOracle(arg, value)
		if !ok || err != nil {
			// validity of a pattern is decided by the regexp package (oracle), not by the model
			r.oracleN++
			if ok != (err == nil) {
				r.fail("c15-rx-compile", "rule compilation and regexp.Compile((?sm)pattern) disagree on validity", cj)
			}
			return
		}
		if matched {
			rxm = "(Some " + zlist(idx) + ")"
			cj.RxIdx = idx
		}
	}
	obs := "None"
	nontrivial := false
	if err != nil {
		cj.Res = "error"
		cj.Note = err.Error()
		nontrivial = true
	} else {
		tx := waf.NewTransaction()
		tx.AddRequestHeader("x", value)
		if it := tx.ProcessRequestHeaders(); it != nil {
			r.fail("c15-rule-interruption", "a pass rule interrupted", cj)
		}
		matched := len(tx.Variables().TX().Get("m")) > 0
		cj.Res = boolStr(matched)
		cj.Caps = readCaps(tx)
		copies := make([]string, 10)
		for i := range copies {
			if v := tx.Variables().TX().Get("c" + strconv.Itoa(i)); len(v) > 0 {
				copies[i] = v[0]
			}
			cj.Copies = append(cj.Copies, hx(copies[i]))
		}
		tx.ProcessLogging()
		tx.Close()
		obs = fmt.Sprintf("(Some (%s, %s, %s))", vh.Bool(matched), capsTerm(cj.Caps), vh.HxList(trimEmpties(copies)))
		nontrivial = matched
	}
	term := fmt.Sprintf("CRule %s %s %s %s %s %s %s", vh.HxS(optext), ltbl, rxm, vh.Bool(capture), txTerm(txv), vh.HxS(value), obs)
	r.emit(term, cj, nontrivial, "rule_"+name+"_"+cj.Res+pfTag(r.pf))
}

// runCapSeq: capturing @rx / @pm evaluations one after the other on ONE transaction state, so
// every evaluation after the first starts from a non-empty TX.0-9; TX.0-9 is read after each.
func (r *runner) runCapSeq(steps []stepJSON) {
	cj := &caseJSON{Kind: "capseq", Prefilter: r.pf}
	tx := newTx(true, nil)
	defer tx.Close()
	var sterms, oterms []string
	any := false
	for _, st := range steps {
		arg, v := unhx(st.ArgHex), unhx(st.ValueHex)
		out := stepJSON{Op: st.Op, ArgHex: st.ArgHex, ValueHex: st.ValueHex, Capture: true}
		var op plugintypes.Operator
		var err error
		switch st.Op {
		case "rx":
			idx, matched, ok := rxOracle(arg, v)
			op, err = operators.Get("rx", plugintypes.OperatorOptions{Arguments: arg, RxPreFilterEnabled: r.pf, Memoizer: r.mz()})
			if !ok || err != nil {
				return
			}
			m := "None"
			if matched {
				m = "(Some " + zlist(idx) + ")"
			}
			sterms = append(sterms, fmt.Sprintf("SRx %s %s", m, vh.HxS(v)))
		case "pm":
			op, err = operators.Get("pm", plugintypes.OperatorOptions{Arguments: arg, Memoizer: r.mz()})
			if err != nil {
				return
			}
			sterms = append(sterms, fmt.Sprintf("SPm %s %s %s", lowerTable(arg), vh.HxS(arg), vh.HxS(v)))
		default:
			return
		}
		b, ok := r.evalSafe(op, tx, v, cj)
		if !ok {
			return
		}
		any = any || b
		out.Res = boolStr(b)
		out.Caps = readCaps(tx)
		cj.Steps = append(cj.Steps, out)
		oterms = append(oterms, fmt.Sprintf("(%s, %s)", vh.Bool(b), capsTerm(out.Caps)))
	}
	r.emit(fmt.Sprintf("CCapSeq %s %s", vh.List(sterms), vh.List(oterms)), cj, any, fmt.Sprintf("capseq_len%d%s", len(steps), pfTag(r.pf)))
}

// runRuleSeq: several rules in one WAF (rule i inspects REQUEST_HEADERS:h<i>), so a later
// capturing rule starts from the TX.0-9 an earlier one left; observed: matched flags, final TX.0-9.
func (r *runner) runRuleSeq(steps []stepJSON) {
	cj := &caseJSON{Kind: "ruleseq", Prefilter: r.pf}
	var sb strings.Builder
	if r.pf {
		sb.WriteString("SecRxPreFilter On\n")
	}
	for i, st := range steps {
		acts := fmt.Sprintf("id:%d,phase:1,pass,nolog", i+1)
		if st.Capture {
			acts += ",capture"
		}
		acts += fmt.Sprintf(",setvar:tx.m%d=1", i+1)
		fmt.Fprintf(&sb, "SecRule REQUEST_HEADERS:h%d \"%s\" \"%s\"\n", i+1, unhx(st.ArgHex), acts)
	}
	waf := corazawaf.NewWAF()
	err := seclang.NewParser(waf).FromString(sb.String())
	var rterms []string
	for _, st := range steps {
		optext, v := unhx(st.ArgHex), unhx(st.ValueHex)
		_, name, arg := modelParse(optext)
		ltbl, rxm := "[]", "None"
		if name == "pm" {
			ltbl = lowerTable(arg)
		}
		if name == "rx" {
			idx, matched, ok := rxOracle(arg, v)
			if !ok || err != nil {
				return
			}
			if matched {
				rxm = "(Some " + zlist(idx) + ")"
			}
		}
		rterms = append(rterms, fmt.Sprintf("(%s, %s, %s, %s, %s)", vh.HxS(optext), ltbl, rxm, vh.Bool(st.Capture), vh.HxS(v)))
		cj.Steps = append(cj.Steps, stepJSON{ArgHex: st.ArgHex, ValueHex: st.ValueHex, Capture: st.Capture})
	}
	obs := "None"
	nontrivial := false
	if err != nil {
		cj.Res = "error"
		cj.Note = err.Error()
	} else {
		tx := waf.NewTransaction()
		for i, st := range steps {
			tx.AddRequestHeader(fmt.Sprintf("h%d", i+1), unhx(st.ValueHex))
		}
		if it := tx.ProcessRequestHeaders(); it != nil {
			r.fail("c15-rule-interruption", "a pass rule interrupted", cj)
		}
		flags := make([]string, len(steps))
		for i := range steps {
			m := len(tx.Variables().TX().Get(fmt.Sprintf("m%d", i+1))) > 0
			flags[i] = vh.Bool(m)
			cj.Steps[i].Res = boolStr(m)
			nontrivial = nontrivial || m
		}
		cj.Caps = readCaps(tx)
		tx.ProcessLogging()
		tx.Close()
		obs = fmt.Sprintf("(Some (%s, %s))", vh.List(flags), capsTerm(cj.Caps))
	}
	r.emit(fmt.Sprintf("CRuleSeq %s %s", vh.List(rterms), obs), cj, nontrivial, fmt.Sprintf("ruleseq_len%d%s", len(steps), pfTag(r.pf)))
}

// modelParse mirrors ParseOperator just enough to know which oracle data a rule case needs
// (the Coq model decides everything else).
func modelParse(o string) (raw, name, arg string) {
	switch {
	case len(o) == 0 || o[0] != '@' && o[0] != '!':
		o = "@rx " + o
	case o == "!":
		o = "!@rx"
	case len(o) > 1 && o[0] == '!' && o[1] != '@':
		o = "!@rx " + o[1:]
	}
	raw, rest, _ := strings.Cut(o, " ")
	name = strings.TrimSpace(raw)
	arg = strings.TrimSpace(rest)
	if strings.HasPrefix(name, "@") {
		name = name[1:]
	} else if len(name) > 2 && strings.HasPrefix(name, "!@") {
		name = name[2:]
	}
	return raw, name, arg
}

func pfTag(pf bool) string {
	if pf {
		return "_prefilter"
	}
	return ""
}

func isASCII(s string) bool {
	for i := 0; i < len(s); i++ {
		if s[i] >= 0x80 {
			return false
		}
	}
	return true
}

func asciiLower(s string) string {
	b := []byte(s)
	for i, c := range b {
		if 'A' <= c && c <= 'Z' {
			b[i] = c + 32
		}
	}
	return string(b)
}

// ---- replay / corpus ----

func (r *runner) runDoc(doc json.RawMessage) {
	var c caseJSON
	if json.Unmarshal(doc, &c) != nil {
		return
	}
	arg, value := unhx(c.ArgHex), unhx(c.ValueHex)
	r.pf = c.Prefilter
	defer func() { r.pf = false }()
	switch c.Kind {
	case "mop":
		r.runMop(c.Op, arg, c.Tx, value)
	case "pm":
		r.runPm(arg, value, c.Capture)
	case "pmf":
		r.runPmf(arg, value, c.Capture)
	case "pmd":
		ps := make([]string, len(c.Phrases))
		for i, p := range c.Phrases {
			ps[i] = unhx(p)
		}
		r.runPmd(ps, value, c.Capture)
	case "vbr":
		r.runSimple("vbr", "validateByteRange", arg, value)
	case "vue":
		r.runSimple("vue", "validateUrlEncoding", "", value)
	case "vutf8":
		r.runSimple("vutf8", "validateUtf8Encoding", "", value)
	case "rx":
		r.runRx(arg, value, c.Capture)
	case "parse":
		r.runParse(arg)
	case "rule":
		r.runRule(arg, c.Tx, value, c.Capture, c.Finding)
	case "ipm":
		r.runIpm(c.Op == "ipMatchFromFile", arg, value)
	case "capseq":
		r.runCapSeq(c.Steps)
	case "ruleseq":
		r.runRuleSeq(c.Steps)
	case "ipmatch":
		r.ipMatchDoc(c)
	}
}

func Run(cfg vh.Config) (*vh.Result, error) {
	res := &vh.Result{InputDistribution: map[string]int{}}
	res.Rule = "direct calls of every modelled operator through operators.Get + Evaluate on a real transaction, ParseOperator through the verif hook, and single-rule WAFs (SecRule REQUEST_HEADERS:x \"<operator>\" with capture and setvar copies of TX.0-9): exhaustive small scopes per operator (all argument/value pairs over 2-3 letter alphabets, every single byte, every macro text up to length 4 over %{}.txa, every %-string up to length 5) plus structured random cases (phrase at the very end, value shorter than the shortest phrase, more than ten hits, byte ranges touching 0/255, reversed, overlapping, malformed, numeric strings with signs/overflow/junk, invalid UTF-8 of every shape); a case is non-trivial when the operator matches or the constructor rejects the argument; distinct = distinct (kind, operator, argument, TX, value, capture)"
	r := &runner{cfg: cfg, res: res, seen: map[string]bool{}}
	if cfg.Replay != "" {
		b, err := os.ReadFile(cfg.Replay)
		if err != nil {
			return nil, err
		}
		var rp struct {
			Case json.RawMessage `json:"case"`
		}
		if json.Unmarshal(b, &rp) == nil && rp.Case != nil {
			r.runDoc(rp.Case)
		} else {
			r.runDoc(b)
		}
	} else {
		docs, _ := vh.LoadCorpus(cfg.Corpus)
		for _, d := range docs {
			r.runDoc(d)
		}
		res.InputDistribution["corpus"] = len(docs)
		r.generate()
	}
	res.OracleEvaluations = r.oracleN
	res.DistinctNontrivial = r.nontriv
	const per = 2500
	for i, k := 0, 0; i < len(r.terms); i, k = i+per, k+1 {
		j := i + per
		if j > len(r.terms) {
			j = len(r.terms)
		}
		info, err := vh.WriteShard(cfg.OutDir, vh.Shard{
			Name: fmt.Sprintf("C15_%d", k), Imports: "From Verif Require Import Base Operators CorrC15.",
			CaseType: "CorrC15.case", MismatchF: "CorrC15.mismatches", Terms: r.terms[i:j], Cases: r.cases[i:j],
		})
		if err != nil {
			return nil, err
		}
		res.Shards = append(res.Shards, info)
	}
	for i := 0; i < len(r.cases) && len(res.Samples) < 8; i += 1 + len(r.cases)/8 {
		res.Samples = append(res.Samples, r.cases[i])
	}
	return res, nil
}

var _ = macro.NewMacro
