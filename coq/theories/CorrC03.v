(* CorrC03.v — correspondence checker for C03: evaluates the Decode.v model on the inputs the Go
   harness fed to the real Transaction API / parsers and compares with what was observed.
   Go map iteration order is an oracle: where the outcome can depend on it (argument limit hit,
   JSON keys that collide after case folding) the check is "some visiting order of the parsed
   map explains the observation" (all permutations for up to 6 groups of arguments; for JSON one
   survivor per colliding bucket). *)
From Coq Require Import String.
From Verif Require Import Base Decode.
Open Scope N_scope.

Definition kv_eqb (a b : kv) : bool := bytes_eqb (fst a) (fst b) && bytes_eqb (snd a) (snd b).

(* multiset equality of lists of pairs *)
Fixpoint ms_remove (x : kv) (l : list kv) : option (list kv) :=
  match l with
  | [] => None
  | y :: r => if kv_eqb x y then Some r
              else match ms_remove x r with Some r' => Some (y :: r') | None => None end
  end.
Fixpoint ms_eqb (a b : list kv) : bool :=
  match a with
  | [] => match b with [] => true | _ => false end
  | x :: a' => match ms_remove x b with Some b' => ms_eqb a' b' | None => false end
  end.

Fixpoint list_bytes_eqb (a b : list bytes) : bool :=
  match a, b with
  | [], [] => true
  | x :: a', y :: b' => bytes_eqb x y && list_bytes_eqb a' b'
  | _, _ => false
  end.

(* map[string][]string compared without order of keys *)
Definition gmap_eqb (a b : gmap) : bool :=
  Nat.eqb (length a) (length b) &&
  forallb (fun e => match snd e with [] => false | _ => list_bytes_eqb (snd e) (gmap_get (fst e) b) end) a.

(* visiting orders of a Go map with few entries *)
Fixpoint insert_all {A} (x : A) (l : list A) : list (list A) :=
  match l with
  | [] => [[x]]
  | y :: r => (x :: l) :: map (fun t => y :: t) (insert_all x r)
  end.
Fixpoint perms {A} (l : list A) : list (list A) :=
  match l with
  | [] => [[]]
  | x :: r => flat_map (insert_all x) (perms r)
  end.
Definition orders {A} (l : list A) : list (list A) :=
  if (length l <=? 6)%nat then perms l else [l; rev l].

(* visiting orders of the JSON res map that can make a difference: SetIndex(key, 0, v) keeps,
   per folded key, the entry visited last; so it is enough to choose one survivor per bucket and
   visit the survivors last (product of the bucket sizes instead of n! orders) *)
Fixpoint choices {A} (groups : list (list A)) : list (list A) :=
  match groups with
  | [] => [[]]
  | g :: r => flat_map (fun w => map (cons w) (choices r)) g
  end.
Definition json_orders (res : list jwrite) : list (list jwrite) :=
  let buckets := fold_left (fun m e => dc_bucket_add (lower_ascii (fst e)) e m) res [] in
  map (fun surv => filter (fun e => negb (existsb (kv_eqb e) surv)) res ++ surv) (choices (map snd buckets)).

Definition upper_ascii (s : bytes) : bytes := map ascii_upper s.

Definition opt_uri (p : option (bytes * bytes * bytes)) : option uri_parts :=
  match p with Some (a, b, c) => Some (mk_uri a b c) | None => None end.
Definition uri_parts_eqb (a b : uri_parts) : bool :=
  bytes_eqb (u_path a) (u_path b) && bytes_eqb (u_rawquery a) (u_rawquery b) && bytes_eqb (u_string a) (u_string b).

Inductive case :=
  (* internal/url.ParseQuery called directly *)
  | CP (q : bytes) (sep : byte) (obs : gmap)
  (* internal/cookies.ParseCookies called directly *)
  | CK (raw : bytes) (obs : gmap)
  (* the harness' canonical encoders against the Coq encoders *)
  | CE (l : list kv) (q ck : bytes)
  (* Transaction.ProcessURI: uri, what url.ParseRequestURI answered (path, raw query, String()),
     SecArgumentsLimit; observed ARGS_GET, ARGS_GET_NAMES, ARGS, ARGS_NAMES, ARGS_COMBINED_SIZE,
     [REQUEST_URI; REQUEST_URI_RAW; QUERY_STRING; REQUEST_BASENAME; REQUEST_FILENAME; REQUEST_LINE],
     URLENCODED_ERROR set *)
  | CQ (uri : bytes) (parse : option (bytes * bytes * bytes)) (limit : nat)
       (o_get : list kv) (o_views : option (list kv * list kv * list kv)) (o_size : nat) (o_singles : list bytes) (o_uerr : bool)
  (* Transaction.AddRequestHeader sequence: observed REQUEST_HEADERS, REQUEST_HEADERS_NAMES,
     REQUEST_COOKIES, REQUEST_COOKIES_NAMES, REQBODY_PROCESSOR *)
  | CH (hs : list kv) (o_headers o_cookies : list kv) (o_names : option (list kv * list kv)) (o_rbp : bytes)
  (* headers, optional ctl:requestBodyProcessor, body through WriteRequestBody + ProcessRequestBody;
     jt = the tree the JSON body was serialised from (canon: by the canonical serialiser);
     cmp_args = ARGS_POST is modelled for this case *)
  | CB (access force : bool) (depth : nat) (hs : list kv) (ctl : option bytes) (body : bytes)
       (jt : option json) (canon : bool) (ext_err : bool) (cmp_args : bool)
       (o_post : list kv) (o_post_names : option (list kv)) (o_body o_len o_rbp : bytes) (o_err : bool)
  (* the body delivered in chunks (api 0 = WriteRequestBody, 1 = ReadRequestBodyFrom with Len,
     2 = ReadRequestBodyFrom without) under SecRequestBodyLimit / SecRequestBodyLimitAction;
     observed ARGS_POST, REQUEST_BODY, REQBODY_PROCESSOR, REQBODY_ERROR, INBOUND_DATA_ERROR,
     interruption *)
  | CS (limit : nat) (reject : bool) (hs : list kv) (ctl : option bytes) (chunks : list (nat * bytes))
       (jt : option json) (ext_err : bool) (cmp_args : bool)
       (o_post : list kv) (o_body o_rbp : bytes) (o_err o_inbound o_interrupted : bool)
  (* a well-formed multipart/form-data body printed from parts (name, filename, content) with
     boundary b; observed ARGS_POST, FILES, FILES_NAMES, FILES_SIZES, MULTIPART_PART_HEADERS,
     FILES_COMBINED_SIZE, REQBODY_ERROR or MULTIPART_STRICT_ERROR *)
  | CM (b : bytes) (parts : list (bytes * bytes * bytes)) (body : bytes)
       (o_post o_files o_names o_sizes o_hdrs : list kv) (o_combined : bytes) (o_err : bool).

Definition mpart_eqb (a b : mpart) : bool :=
  bytes_eqb (mp_name a) (mp_name b) && bytes_eqb (mp_filename a) (mp_filename b) && bytes_eqb (mp_content a) (mp_content b).
Fixpoint mparts_eqb (a b : list mpart) : bool :=
  match a, b with
  | [], [] => true
  | x :: a', y :: b' => mpart_eqb x y && mparts_eqb a' b'
  | _, _ => false
  end.

Definition cookie_ord (raw : bytes) : gmap := parse_cookies raw.

(* the derived views (ARGS_GET_NAMES, ARGS, ARGS_NAMES; *_NAMES) are printed for one case in
   four only, to keep the case files small *)
Definition check_q (t : txv) (o_get : list kv) (o_views : option (list kv * list kv * list kv)) (o_size : nat)
    (o_singles : list bytes) (o_uerr : bool) : bool :=
  ms_eqb (cm_find_all (v_args_get t)) o_get &&
  match o_views with
  | Some (o_get_names, o_args, o_args_names) =>
    ms_eqb (cm_names (v_args_get t)) o_get_names && ms_eqb (var_args t) o_args && ms_eqb (var_args_names t) o_args_names
  | None => true
  end &&
  Nat.eqb (var_args_combined_size t) o_size &&
  list_bytes_eqb [v_uri t; v_uri_raw t; v_query_string t; v_basename t; v_filename t; v_request_line t] o_singles &&
  Bool.eqb (v_urlencoded_error t) o_uerr.

Definition ok (c : case) : bool :=
  match c with
  | CP q sep obs => gmap_eqb (parse_query q sep) obs && gmap_eqb obs (parse_query q sep)
  | CK raw obs => gmap_eqb (parse_cookies raw) obs && gmap_eqb obs (parse_cookies raw)
  | CE l q ck => bytes_eqb (enc_query l) q && bytes_eqb (enc_cookie l) ck
  | CQ uri parse limit o_get o_views o_size o_singles o_uerr =>
    let u := dc_cut_fragment uri in
    let pu := opt_uri parse in
    (* the partial specification of url.ParseRequestURI agrees with the real answer *)
    (if dc_simple_uri u
     then match dc_simple_parse_uri u, pu with Some a, Some b => uri_parts_eqb a b | _, _ => false end
     else true) &&
    let groups := match pu with Some p => parse_query (u_rawquery p) 38 | None => [] end in
    existsb (fun ord =>
      check_q (process_uri lower_ascii (fun _ => pu) limit (fun _ => ord) txv_empty uri (str "GET"%string) (str "HTTP/1.1"%string))
              o_get o_views o_size o_singles o_uerr) (orders groups)
  | CH hs o_headers o_cookies o_names o_rbp =>
    let t := fold_left (fun t h => add_request_header lower_ascii cookie_ord t (fst h) (snd h)) hs txv_empty in
    ms_eqb (cm_find_all (v_headers t)) o_headers && ms_eqb (cm_find_all (v_cookies t)) o_cookies &&
    match o_names with
    | Some (o_hnames, o_cnames) => ms_eqb (cm_names (v_headers t)) o_hnames && ms_eqb (cm_names (v_cookies t)) o_cnames
    | None => true
    end &&
    bytes_eqb (v_rbp t) o_rbp
  | CB access force depth hs ctl body jt canon ext_err cmp_args o_post o_post_names o_body o_len o_rbp o_err =>
    let t0 := fold_left (fun t h => add_request_header lower_ascii cookie_ord t (fst h) (snd h)) hs txv_empty in
    let t1 := match ctl with Some p => set_rbp t0 (upper_ascii p) | None => t0 end in
    let cfg := mk_bcfg access force depth in
    let res := match jt with Some tree => json_res (fst (read_json tree depth)) | None => [] end in
    (match jt with Some tree => if canon then bytes_eqb (enc_json tree) body else true | None => true end) &&
    existsb (fun ord =>
      let o := mk_borc (parse_query body 38) jt (fun _ => ord) ext_err in
      let t := process_request_body lower_ascii cfg o t1 body in
      (if cmp_args then ms_eqb (cm_find_all (v_args_post t)) o_post &&
                        match o_post_names with Some n => ms_eqb (cm_names (v_args_post t)) n | None => true end
       else true) &&
      bytes_eqb (v_request_body t) o_body && bytes_eqb (v_request_body_length t) o_len &&
      bytes_eqb (v_rbp t) o_rbp && Bool.eqb (v_reqbody_error t) o_err) (json_orders res)
  | CS limit reject hs ctl chunks jt ext_err cmp_args o_post o_body o_rbp o_err o_inbound o_interrupted =>
    let t0 := fold_left (fun t h => add_request_header lower_ascii cookie_ord t (fst h) (snd h)) hs txv_empty in
    let t1 := match ctl with Some p => set_rbp t0 (upper_ascii p) | None => t0 end in
    let cfg := mk_bcfg true false 1024 in
    let res := match jt with Some tree => json_res (fst (read_json tree 1024)) | None => [] end in
    let cs := map (fun c => (match fst c with O => ViaWrite | S O => ViaReadLen | _ => ViaReadNoLen end, snd c)) chunks in
    existsb (fun ord =>
      let process := fun buf t =>
        process_request_body lower_ascii cfg (mk_borc (parse_query buf 38) jt (fun _ => ord) ext_err) t buf in
      let s := body_stream limit reject process cs t1 in
      let t := bs_tx s in
      (if cmp_args then ms_eqb (cm_find_all (v_args_post t)) o_post else true) &&
      bytes_eqb (v_request_body t) o_body && bytes_eqb (v_rbp t) o_rbp &&
      Bool.eqb (v_reqbody_error t) o_err && Bool.eqb (bs_inbound s) o_inbound &&
      Bool.eqb (bs_interrupted s) o_interrupted) (json_orders res)
  | CM b parts body o_post o_files o_names o_sizes o_hdrs o_combined o_err =>
    let ps := map (fun t => mk_mpart (fst (fst t)) (snd (fst t)) (snd t)) parts in
    (* the harness' printer is the Coq printer; the specification parser reads the parts back *)
    bytes_eqb (mp_print b ps) body &&
    match mp_parse b body with
    | Some q =>
      mparts_eqb q ps &&
      let v := mp_collect lower_ascii q in
      ms_eqb (cm_find_all (mv_post v)) o_post && ms_eqb (cm_find_all (mv_files v)) o_files &&
      ms_eqb (cm_find_all (mv_files_names v)) o_names && ms_eqb (cm_find_all (mv_files_sizes v)) o_sizes &&
      ms_eqb (cm_find_all (mv_part_headers v)) o_hdrs &&
      bytes_eqb (itoa (N.of_nat (mv_combined v))) o_combined && negb o_err
    | None => false
    end
  end.

Definition mismatches (l : list case) : list nat := mismatches_of ok l.
