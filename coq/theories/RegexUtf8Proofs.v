(* RegexUtf8Proofs.v — facts about Go's UTF-8 decoding/encoding (Utf8.v) used by the regex
   semantics proofs of C11: what one decoded rune says about the bytes, encode-then-decode. *)
From Verif Require Import Base Utf8 Regex.
From Coq Require Import Arith ZifyN ZifyBool ZifyNat.
Ltac Zify.zify_post_hook ::= Z.div_mod_to_equations.
Open Scope N_scope.
(* ====================================================================================== *)
(* UTF-8 decoding facts                                                                    *)
(* ====================================================================================== *)

Lemma in_rng_true lo hi b : in_rng lo hi b = true -> lo <= b /\ b <= hi.
Proof. unfold in_rng. intro H. apply andb_true_iff in H. destruct H as [H1 H2]. apply N.leb_le in H1, H2. lia. Qed.

Ltac dcmp := repeat match goal with
  | |- context [?a <? ?b] => destruct (N.ltb_spec a b)
  | |- context [?a <=? ?b] => destruct (N.leb_spec a b)
  end; cbn [orb andb negb] in *; try lia; try reflexivity.

Lemma enc1 c : c < 128 -> encode_rune c = [c] /\ rune_len c = 1%nat /\ valid_rune c = true.
Proof. intro H. unfold encode_rune, rune_len, valid_rune, in_rng. repeat split; dcmp. Qed.
Lemma enc2 c : 128 <= c -> c < 2048 ->
  encode_rune c = [192 + c / 64; 128 + c mod 64] /\ rune_len c = 2%nat /\ valid_rune c = true.
Proof. intros H1 H2. unfold encode_rune, rune_len, valid_rune, in_rng. repeat split; dcmp. Qed.
Lemma enc3 c : 2048 <= c -> c < 65536 -> (c < 55296 \/ 57343 < c) ->
  encode_rune c = [224 + c / 4096; 128 + (c / 64) mod 64; 128 + c mod 64] /\ rune_len c = 3%nat /\ valid_rune c = true.
Proof. intros H1 H2 H3. unfold encode_rune, rune_len, valid_rune, in_rng. repeat split; dcmp. Qed.
Lemma enc4 c : 65536 <= c -> c <= 1114111 ->
  encode_rune c = [240 + c / 262144; 128 + (c / 4096) mod 64; 128 + (c / 64) mod 64; 128 + c mod 64]
  /\ rune_len c = 4%nat /\ valid_rune c = true.
Proof. intros H1 H2. unfold encode_rune, rune_len, valid_rune, in_rng. repeat split; dcmp. Qed.

(* what one decoding step tells: the width is positive; a rune other than U+FFFD comes from its
   own (shortest, valid) encoding *)
Lemma decode_rune_spec s c n :
  s <> [] -> decode_rune s = (c, n) ->
  (1 <= n)%nat /\ (c <> rune_error -> n = rune_len c /\ firstn n s = encode_rune c /\ valid_rune c = true).
Proof.
  intros Hs H. destruct s as [|b0 r]; [congruence|]. clear Hs.
  unfold decode_rune in H.
  destruct (b0 <? 128) eqn:E0.
  { inversion H; subst. split; [lia|]. intros _. apply N.ltb_lt in E0.
    destruct (enc1 c E0) as [A [B C]]. rewrite A, B, C. auto. }
  apply N.ltb_ge in E0.
  destruct (in_rng 194 223 b0) eqn:E1.
  { apply in_rng_true in E1.
    destruct r as [|b1 r]; [inversion H; subst; split; [lia|congruence]|].
    destruct (in_rng 128 191 b1) eqn:E2; [|inversion H; subst; split; [lia|congruence]].
    apply in_rng_true in E2. inversion H; subst. clear H. split; [lia|]. intros _.
    assert (A0 : b0 mod 32 = b0 - 192) by lia.
    assert (A1 : b1 mod 64 = b1 - 128) by lia.
    rewrite A0, A1.
    set (c := (b0 - 192) * 64 + (b1 - 128)).
    assert (Hc : 128 <= c /\ c < 2048) by (unfold c; lia).
    destruct (enc2 c (proj1 Hc) (proj2 Hc)) as [A [B C]]. rewrite A, B, C.
    assert (B0 : 192 + c / 64 = b0) by (unfold c; lia).
    assert (B1 : 128 + c mod 64 = b1) by (unfold c; lia).
    rewrite B0, B1. auto. }
  destruct (in_rng 224 239 b0) eqn:E2.
  { apply in_rng_true in E2.
    destruct r as [|b1 [|b2 r]]; try (inversion H; subst; split; [lia|congruence]).
    match type of H with (if ?c then _ else _) = _ => destruct c eqn:E3 end;
      [|inversion H; subst; split; [lia|congruence]].
    apply andb_true_iff in E3. destruct E3 as [E3 E4]. apply in_rng_true in E3, E4.
    inversion H; subst. clear H. split; [lia|]. intros _.
    assert (A0 : b0 mod 16 = b0 - 224) by lia.
    assert (A1 : b1 mod 64 = b1 - 128).
    { destruct (b0 =? 224) eqn:Ea; destruct (b0 =? 237) eqn:Eb; lia. }
    assert (A2 : b2 mod 64 = b2 - 128) by lia.
    rewrite A0, A1, A2.
    set (c := (b0 - 224) * 4096 + (b1 - 128) * 64 + (b2 - 128)).
    assert (Hc : 2048 <= c /\ c < 65536 /\ (c < 55296 \/ 57343 < c)).
    { unfold c. destruct (b0 =? 224) eqn:Ea; destruct (b0 =? 237) eqn:Eb; lia. }
    destruct Hc as [H1 [H2 H3]].
    destruct (enc3 c H1 H2 H3) as [A [B C]]. rewrite A, B, C.
    assert (B0 : 224 + c / 4096 = b0).
    { unfold c. destruct (b0 =? 224) eqn:Ea; destruct (b0 =? 237) eqn:Eb; lia. }
    assert (B1 : 128 + (c / 64) mod 64 = b1).
    { unfold c. destruct (b0 =? 224) eqn:Ea; destruct (b0 =? 237) eqn:Eb; lia. }
    assert (B2 : 128 + c mod 64 = b2) by (unfold c; lia).
    rewrite B0, B1, B2. auto. }
  destruct (in_rng 240 244 b0) eqn:E3.
  { apply in_rng_true in E3.
    destruct r as [|b1 [|b2 [|b3 r]]]; try (inversion H; subst; split; [lia|congruence]).
    match type of H with (if ?c then _ else _) = _ => destruct c eqn:E4 end;
      [|inversion H; subst; split; [lia|congruence]].
    apply andb_true_iff in E4. destruct E4 as [E4 E6]. apply andb_true_iff in E4. destruct E4 as [E4 E5].
    apply in_rng_true in E4, E5, E6.
    inversion H; subst. clear H. split; [lia|]. intros _.
    assert (A0 : b0 mod 8 = b0 - 240) by lia.
    assert (A1 : b1 mod 64 = b1 - 128).
    { destruct (b0 =? 240) eqn:Ea; destruct (b0 =? 244) eqn:Eb; lia. }
    assert (A2 : b2 mod 64 = b2 - 128) by lia.
    assert (A3 : b3 mod 64 = b3 - 128) by lia.
    rewrite A0, A1, A2, A3.
    set (c := (b0 - 240) * 262144 + (b1 - 128) * 4096 + (b2 - 128) * 64 + (b3 - 128)).
    assert (Hc : 65536 <= c /\ c <= 1114111).
    { unfold c. destruct (b0 =? 240) eqn:Ea; destruct (b0 =? 244) eqn:Eb; lia. }
    destruct (enc4 c (proj1 Hc) (proj2 Hc)) as [A [B C]]. rewrite A, B, C.
    assert (B0 : 240 + c / 262144 = b0).
    { unfold c. destruct (b0 =? 240) eqn:Ea; destruct (b0 =? 244) eqn:Eb; lia. }
    assert (B1 : 128 + (c / 4096) mod 64 = b1).
    { unfold c. destruct (b0 =? 240) eqn:Ea; destruct (b0 =? 244) eqn:Eb; lia. }
    assert (B2 : 128 + (c / 64) mod 64 = b2) by (unfold c; lia).
    assert (B3 : 128 + c mod 64 = b3) by (unfold c; lia).
    rewrite B0, B1, B2, B3. auto. }
  inversion H; subst. split; [lia|congruence].
Qed.

Lemma decode_rune_ascii b s : b < 128 -> decode_rune (b :: s) = (b, 1%nat).
Proof. intro H. unfold decode_rune. replace (b <? 128) with true by (symmetry; apply N.ltb_lt; lia). reflexivity. Qed.


(* ====================================================================================== *)
(* encoding then decoding                                                                  *)
(* ====================================================================================== *)

Lemma in_rng_intro lo hi b : lo <= b -> b <= hi -> in_rng lo hi b = true.
Proof. intros. unfold in_rng. apply andb_true_iff. split; apply N.leb_le; lia. Qed.

Lemma decode_encode r rest : valid_rune r = true ->
  decode_rune (encode_rune r ++ rest) = (r, rune_len r).
Proof.
  intro Hv. unfold valid_rune in Hv.
  assert (Hr : r < 55296 \/ (57343 < r /\ r <= 1114111)).
  { apply orb_true_iff in Hv. destruct Hv as [H|H]; [left; apply N.ltb_lt; exact H|right].
    apply andb_true_iff in H. destruct H as [H1 H2]. apply N.ltb_lt in H1. apply N.leb_le in H2. lia. }
  clear Hv.
  destruct (N.lt_ge_cases r 128) as [H1|H1].
  { destruct (enc1 r H1) as [-> [-> _]]. cbn [app]. apply decode_rune_ascii. exact H1. }
  destruct (N.lt_ge_cases r 2048) as [H2|H2].
  { destruct (enc2 r H1 H2) as [-> [-> _]]. cbn [app]. unfold decode_rune.
    replace (192 + r / 64 <? 128) with false by (symmetry; apply N.ltb_ge; lia).
    rewrite (in_rng_intro 194 223) by lia. rewrite (in_rng_intro 128 191) by lia.
    f_equal. lia. }
  destruct (N.lt_ge_cases r 65536) as [H3|H3].
  { assert (Hs : r < 55296 \/ 57343 < r) by lia.
    destruct (enc3 r H2 H3 Hs) as [-> [-> _]]. cbn [app]. unfold decode_rune.
    replace (224 + r / 4096 <? 128) with false by (symmetry; apply N.ltb_ge; lia).
    replace (in_rng 194 223 (224 + r / 4096)) with false by (symmetry; unfold in_rng; lia).
    rewrite (in_rng_intro 224 239) by lia.
    assert (Hb1 : in_rng (if 224 + r / 4096 =? 224 then 160 else 128) (if 224 + r / 4096 =? 237 then 159 else 191)
                         (128 + (r / 64) mod 64) = true).
    { destruct (224 + r / 4096 =? 224) eqn:Ea; destruct (224 + r / 4096 =? 237) eqn:Eb; apply in_rng_intro; lia. }
    rewrite Hb1. rewrite (in_rng_intro 128 191) by lia. cbn [andb]. f_equal. lia. }
  { assert (H4 : r <= 1114111) by lia.
    destruct (enc4 r H3 H4) as [-> [-> _]]. cbn [app]. unfold decode_rune.
    replace (240 + r / 262144 <? 128) with false by (symmetry; apply N.ltb_ge; lia).
    replace (in_rng 194 223 (240 + r / 262144)) with false by (symmetry; unfold in_rng; lia).
    replace (in_rng 224 239 (240 + r / 262144)) with false by (symmetry; unfold in_rng; lia).
    rewrite (in_rng_intro 240 244) by lia.
    assert (Hb1 : in_rng (if 240 + r / 262144 =? 240 then 144 else 128) (if 240 + r / 262144 =? 244 then 143 else 191)
                         (128 + (r / 4096) mod 64) = true).
    { destruct (240 + r / 262144 =? 240) eqn:Ea; destruct (240 + r / 262144 =? 244) eqn:Eb; apply in_rng_intro; lia. }
    rewrite Hb1. rewrite (in_rng_intro 128 191 (128 + (r / 64) mod 64)) by lia.
    rewrite (in_rng_intro 128 191 (128 + r mod 64)) by lia. cbn [andb]. f_equal. lia. }
Qed.

Lemma encode_rune_length r : valid_rune r = true -> length (encode_rune r) = rune_len r.
Proof.
  intro Hv. pose proof (decode_encode r [] Hv) as H. rewrite app_nil_r in H.
  unfold valid_rune in Hv.
  destruct (N.lt_ge_cases r 128) as [H1|H1]; [destruct (enc1 r H1) as [-> [-> _]]; reflexivity|].
  destruct (N.lt_ge_cases r 2048) as [H2|H2]; [destruct (enc2 r H1 H2) as [-> [-> _]]; reflexivity|].
  destruct (N.lt_ge_cases r 65536) as [H3|H3].
  - assert (Hs : r < 55296 \/ 57343 < r).
    { apply orb_true_iff in Hv. destruct Hv as [Hv|Hv]; [left; apply N.ltb_lt; exact Hv|right].
      apply andb_true_iff in Hv. destruct Hv as [Hv _]. apply N.ltb_lt in Hv. exact Hv. }
    destruct (enc3 r H2 H3 Hs) as [-> [-> _]]; reflexivity.
  - assert (H4 : r <= 1114111).
    { apply orb_true_iff in Hv. destruct Hv as [Hv|Hv]; [apply N.ltb_lt in Hv; lia|].
      apply andb_true_iff in Hv. destruct Hv as [_ Hv]. apply N.leb_le in Hv. exact Hv. }
    destruct (enc4 r H3 H4) as [-> [-> _]]; reflexivity.
Qed.

