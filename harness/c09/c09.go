// Package c09 drives the correspondence for C09 (non-disruptive actions run once per match;
// counters add up exactly): generated rule sets whose actions increment / decrement / assign /
// delete / macro-copy TX variables are compiled by the real SecLang parser, read back from the
// compiled WAF (hook VerifC09Dump), run by real transactions over requests with 0..5 matching
// values per rule in every phase, and the final TX collection, MATCHED_*, HIGHEST_SEVERITY,
// matched rules (messages, logdata) and the debug-log trace of every action execution are
// compared with the Gallina model of Setvar.v. Direct calls of setvar Init, macro.NewMacro and
// strconv.Atoi/Itoa tie the parsing models.
package c09

import (
	"encoding/json"
	"fmt"
	"io"
	"os"
	"regexp"
	"sort"
	"strconv"
	"strings"

	"github.com/corazawaf/coraza/v3/debuglog"
	"github.com/corazawaf/coraza/v3/experimental/plugins/macro"
	"github.com/corazawaf/coraza/v3/experimental/plugins/plugintypes"
	"github.com/corazawaf/coraza/v3/internal/actions"
	"github.com/corazawaf/coraza/v3/internal/corazawaf"
	"github.com/corazawaf/coraza/v3/internal/seclang"
	"github.com/corazawaf/coraza/v3/types"
	"github.com/corazawaf/coraza/v3/verifharness/vh"
)

func init() { vh.Register("C09", Run) }

// ---------------------------------------------------------------------------------------
// interning of byte strings: every distinct string is written once per shard as a definition
// (Coq elaborates a hex literal at ~40us per character; traces repeat the same few strings)
// ---------------------------------------------------------------------------------------

var internIDs = map[string]string{}
var internDefs = map[string]string{}

func hxs(s string) string {
	if s == "" {
		return "(@nil N)"
	}
	if id, ok := internIDs[s]; ok {
		return id
	}
	id := fmt.Sprintf("k%d", len(internIDs))
	internIDs[s] = id
	internDefs[id] = vh.HxS(s)
	return id
}

func hxList(l []string) string {
	items := make([]string, len(l))
	for i, s := range l {
		items[i] = hxs(s)
	}
	return vh.List(items)
}

var internRe = regexp.MustCompile(`\bk[0-9]+\b`)

// preludeFor builds one table definition with the strings a shard uses and rewrites the
// shard's terms to index it (one Coq command instead of one per string).
func preludeFor(terms []string) (string, []string) {
	local := map[string]int{}
	var defs []string
	out := make([]string, len(terms))
	for i, t := range terms {
		out[i] = internRe.ReplaceAllStringFunc(t, func(id string) string {
			j, ok := local[id]
			if !ok {
				j = len(local)
				local[id] = j
				defs = append(defs, internDefs[id])
			}
			return fmt.Sprintf("(K %d%%nat)", j)
		})
	}
	if len(defs) == 0 {
		defs = append(defs, "(@nil N)")
	}
	return "Definition ktab : list bytes := [\n  " + strings.Join(defs, ";\n  ") + "\n].\nDefinition K (i : nat) : bytes := nth i ktab [].", out
}

// ---------------------------------------------------------------------------------------
// case descriptions (also the replay / corpus format)
// ---------------------------------------------------------------------------------------

type Target struct {
	Var   string `json:"var"`
	Key   string `json:"key,omitempty"`
	Count bool   `json:"count,omitempty"`
}

type LinkDesc struct {
	Targets  []Target `json:"targets,omitempty"` // empty = SecAction
	Op       string   `json:"op,omitempty"`      // unconditionalMatch beginsWith contains streq eq gt ge lt le rx
	OpArg    string   `json:"op_arg,omitempty"`  // for rx: the literal after ^
	Neg      bool     `json:"neg,omitempty"`
	Tfs      []string `json:"tfs,omitempty"`
	Multi    bool     `json:"multi,omitempty"`
	Capture  bool     `json:"capture,omitempty"`
	Msg      string   `json:"msg,omitempty"`
	LogData  string   `json:"logdata,omitempty"`
	Severity string   `json:"severity,omitempty"`
	Actions  []string `json:"actions,omitempty"` // setvar:..., deny, pass, log, nolog, auditlog
}

type RuleDesc struct {
	ID    int        `json:"id"`
	Phase int        `json:"phase"`
	Links []LinkDesc `json:"links"`
}

type Req struct {
	Args [][2]string `json:"args,omitempty"`
	Hdrs [][2]string `json:"hdrs,omitempty"`
}

type Case struct {
	Kind    string      `json:"kind"` // run | init | macro | atoi | itoa
	Ordered bool        `json:"ordered,omitempty"`
	Args    [][2]string `json:"args,omitempty"`
	Hdrs    [][2]string `json:"hdrs,omitempty"`
	// requests processed and closed on the same WAF between the fresh run of this request and its re-run
	// on the recycled transaction object (the re-run is transaction number len(Priors)+2 of the WAF)
	Priors  []Req       `json:"priors,omitempty"`
	Rules   []RuleDesc  `json:"rules,omitempty"`
	Raw     string      `json:"raw,omitempty"`     // init / macro / atoi input (hex when RawHex)
	RawHex  string      `json:"raw_hex,omitempty"` // bytes of Raw when not printable
	Z       int64       `json:"z,omitempty"`       // itoa input
	// expectation of the property's own oracle (sum family), when known
	Expect map[string]string `json:"expect,omitempty"`
	Shape  string            `json:"shape,omitempty"`
	// observations (filled by the run; informative in replays)
	Config     string              `json:"config,omitempty"`
	ObsTX      map[string][]string `json:"obs_tx,omitempty"`
	ObsHS      string              `json:"obs_hs,omitempty"`
	ObsInt     int                 `json:"obs_interruption_rule,omitempty"`
	ObsMatched []int               `json:"obs_matched_ids,omitempty"`
	ObsTrace   []string            `json:"obs_trace,omitempty"`
	Obs        string              `json:"obs,omitempty"`
	Nth        int                 `json:"nth_transaction_of_waf,omitempty"`
	PoolReused bool                `json:"pool_object_reused,omitempty"`
	FindingKey string              `json:"finding_key,omitempty"`
}

func (c *Case) raw() string {
	if c.RawHex != "" {
		return unhex(c.RawHex)
	}
	return c.Raw
}

// ---------------------------------------------------------------------------------------
// rendering to SecLang
// ---------------------------------------------------------------------------------------

func quoteAct(s string) string {
	// action values are wrapped in single quotes when they contain a separator
	name, val, ok := strings.Cut(s, ":")
	if !ok {
		return s
	}
	if strings.ContainsAny(val, ", '\"") {
		return name + ":'" + strings.ReplaceAll(val, "'", "\\'") + "'"
	}
	return s
}

func renderLink(id, phase int, l LinkDesc, chain bool) string {
	var acts []string
	if id != 0 {
		acts = append(acts, fmt.Sprintf("id:%d", id), fmt.Sprintf("phase:%d", phase))
	}
	for _, t := range l.Tfs {
		acts = append(acts, "t:"+t)
	}
	if l.Multi {
		acts = append(acts, "multiMatch")
	}
	if l.Capture {
		acts = append(acts, "capture")
	}
	if l.Msg != "" {
		acts = append(acts, "msg:'"+l.Msg+"'")
	}
	if l.LogData != "" {
		acts = append(acts, "logdata:'"+l.LogData+"'")
	}
	if l.Severity != "" {
		acts = append(acts, "severity:"+l.Severity)
	}
	for _, a := range l.Actions {
		acts = append(acts, quoteAct(a))
	}
	if chain {
		acts = append(acts, "chain")
	}
	al := strings.Join(acts, ",")
	if len(l.Targets) == 0 {
		return fmt.Sprintf("SecAction \"%s\"", al)
	}
	var ts []string
	for _, t := range l.Targets {
		s := t.Var
		if t.Count {
			s = "&" + s
		}
		if t.Key != "" {
			s += ":" + t.Key
		}
		ts = append(ts, s)
	}
	op := "@" + l.Op
	if l.Neg {
		op = "!" + op
	}
	arg := l.OpArg
	if l.Op == "rx" {
		arg = "^" + arg
	}
	if l.Op == "rxg" {
		op = strings.Replace(op, "@rxg", "@rx", 1)
	}
	if l.Op != "unconditionalMatch" {
		op += " " + arg
	}
	if al == "" {
		return fmt.Sprintf("SecRule %s \"%s\"", strings.Join(ts, "|"), op)
	}
	return fmt.Sprintf("SecRule %s \"%s\" \"%s\"", strings.Join(ts, "|"), op, al)
}

func renderRules(rs []RuleDesc) string {
	var b strings.Builder
	b.WriteString("SecRuleEngine On\n")
	for _, r := range rs {
		for i, l := range r.Links {
			id := 0
			if i == 0 {
				id = r.ID
			}
			b.WriteString(strings.Repeat("  ", i))
			b.WriteString(renderLink(id, r.Phase, l, i+1 < len(r.Links)))
			b.WriteString("\n")
		}
	}
	return b.String()
}

// ---------------------------------------------------------------------------------------
// the debug logger that records action executions
// ---------------------------------------------------------------------------------------

type sink struct {
	events []string // Coq terms
	human  []string
}

type capEvent struct {
	s      *sink
	strs   map[string]string
	ints   map[string]int
	active bool
}

func (e *capEvent) Msg(msg string) {
	if !e.active {
		return
	}
	switch msg {
	case "Matching rule":
		e.s.events = append(e.s.events, fmt.Sprintf("OMatching %s %s %s", vh.Z(int64(e.ints["rule_id"])), hxs(e.strs["variable_name"]), hxs(e.strs["key"])))
		e.s.human = append(e.s.human, fmt.Sprintf("matching rule=%d %s:%s", e.ints["rule_id"], e.strs["variable_name"], e.strs["key"]))
	case "Evaluating action":
		e.s.events = append(e.s.events, "OAct "+hxs(e.strs["action"]))
		e.s.human = append(e.s.human, "act "+e.strs["action"])
	case "Action evaluated":
		e.s.events = append(e.s.events, fmt.Sprintf("OSetvar %s %s %s", hxs(e.strs["var_key"]), hxs(e.strs["var_value"]), vh.Z(int64(e.ints["rule_id"]))))
		e.s.human = append(e.s.human, fmt.Sprintf("setvar %q=%q rule=%d", e.strs["var_key"], e.strs["var_value"], e.ints["rule_id"]))
	case "Evaluating flow action for rule":
		e.s.events = append(e.s.events, "OFlow "+hxs(e.strs["action"]))
		e.s.human = append(e.s.human, "flow "+e.strs["action"])
	case "Executing disruptive action for rule":
		e.s.events = append(e.s.events, "ODisr "+hxs(e.strs["action"]))
		e.s.human = append(e.s.human, "disruptive "+e.strs["action"])
	case "Rule matched":
		e.s.events = append(e.s.events, "ORuleMatched "+vh.Z(int64(e.ints["rule_id"])))
		e.s.human = append(e.s.human, fmt.Sprintf("rule matched %d", e.ints["rule_id"]))
	}
}
func (e *capEvent) Str(key, val string) debuglog.Event {
	if e.active {
		e.strs[key] = val
	}
	return e
}
func (e *capEvent) Err(err error) debuglog.Event         { return e }
func (e *capEvent) Bool(key string, b bool) debuglog.Event { return e }
func (e *capEvent) Int(key string, i int) debuglog.Event {
	if e.active {
		e.ints[key] = i
	}
	return e
}
func (e *capEvent) Uint(key string, i uint) debuglog.Event { return e }
func (e *capEvent) Stringer(key string, val fmt.Stringer) debuglog.Event {
	return e
}
func (e *capEvent) IsEnabled() bool { return e.active }

type capLogger struct {
	s   *sink
	ctx []debuglog.ContextField
}

func (l capLogger) WithOutput(w io.Writer) debuglog.Logger     { return l }
func (l capLogger) WithLevel(lvl debuglog.Level) debuglog.Logger { return l }
func (l capLogger) With(fs ...debuglog.ContextField) debuglog.Logger {
	n := capLogger{s: l.s}
	n.ctx = append(append([]debuglog.ContextField{}, l.ctx...), fs...)
	return n
}
func (l capLogger) ev(active bool) debuglog.Event {
	var e debuglog.Event = &capEvent{s: l.s, strs: map[string]string{}, ints: map[string]int{}, active: active}
	if active {
		for _, f := range l.ctx {
			e = f(e)
		}
	}
	return e
}
func (l capLogger) Trace() debuglog.Event { return l.ev(false) }
func (l capLogger) Debug() debuglog.Event { return l.ev(true) }
func (l capLogger) Info() debuglog.Event  { return l.ev(false) }
func (l capLogger) Warn() debuglog.Event  { return l.ev(false) }
func (l capLogger) Error() debuglog.Event { return l.ev(false) }

// ---------------------------------------------------------------------------------------
// translation of the compiled rule set into the model's rule terms
// ---------------------------------------------------------------------------------------

var varCoq = map[string]string{
	"TX": "VTx", "ARGS": "VArgs", "ARGS_GET": "VArgsGet", "REQUEST_HEADERS": "VHeaders", "RULE": "VRule",
	"MATCHED_VAR": "VMatchedVar", "MATCHED_VAR_NAME": "VMatchedVarName", "MATCHED_VARS": "VMatchedVars",
	"HIGHEST_SEVERITY": "VHighestSeverity",
}

var tfCoq = map[string]string{
	"none": "TNone", "lowercase": "TLowercase", "uppercase": "TUppercase", "trim": "TTrim", "trimLeft": "TTrimLeft",
	"trimRight": "TTrimRight", "removeNulls": "TRemoveNulls", "length": "TLength", "urlDecode": "TUrlDecode",
	"compressWhitespace": "TCompressWhitespace", "removeWhitespace": "TRemoveWhitespace", "hexEncode": "THexEncode",
}

var opKind = map[string]int{
	"unconditionalMatch": 0, "beginsWith": 1, "contains": 2, "streq": 3, "eq": 4, "gt": 5, "ge": 6, "lt": 7, "le": 8, "rx": 9, "rxg": 9,
}

func optHx(present bool, s string) string { return vh.OptionOf(present, hxs(s)) }

func linkTerm(c *Case, r *corazawaf.Rule, d LinkDesc) (string, error) {
	dump := corazawaf.VerifC09Dump(r)
	op := "None"
	if dump.HasOperator {
		var ts []string
		for _, t := range dump.Targets {
			cv, ok := varCoq[t.Name]
			if !ok || t.HasRx || t.NumExceptions != 0 {
				return "", fmt.Errorf("target outside the model: %+v", t)
			}
			ts = append(ts, fmt.Sprintf("Build_target %s %s %s", cv, hxs(t.KeyStr), vh.Bool(t.Count)))
		}
		fn := strings.TrimPrefix(strings.TrimPrefix(dump.OpFunction, "!"), "@")
		k, ok := opKind[fn]
		if !ok {
			return "", fmt.Errorf("operator outside the model: %q", dump.OpFunction)
		}
		arg := dump.OpData
		if d.Op == "rxg" {
			if fn != "rx" || arg != d.OpArg {
				return "", fmt.Errorf("rx pattern changed by the parser: %q vs %q", arg, d.OpArg)
			}
			tbl, err := rxTable(c, d)
			if err != nil {
				return "", err
			}
			op = fmt.Sprintf("(Some (%s, ROpRx %s, %s))", vh.List(ts), tbl, vh.Bool(dump.OpNegation))
		} else {
			if fn == "rx" {
				if !strings.HasPrefix(arg, "^") {
					return "", fmt.Errorf("rx pattern outside the model: %q", arg)
				}
				arg = arg[1:]
			}
			op = fmt.Sprintf("(Some (%s, ROp %s %s, %s))", vh.List(ts), vh.N(int64(k)), hxs(arg), vh.Bool(dump.OpNegation))
		}
	}
	if dump.NumTransformations != len(d.Tfs) {
		return "", fmt.Errorf("compiled rule has %d transformations, description %d", dump.NumTransformations, len(d.Tfs))
	}
	var tfs []string
	for _, t := range d.Tfs {
		c, ok := tfCoq[t]
		if !ok {
			return "", fmt.Errorf("transformation outside the model: %s", t)
		}
		tfs = append(tfs, c)
	}
	var acts []string
	for _, a := range dump.Actions {
		switch a.Type {
		case plugintypes.ActionTypeNondisruptive:
			if key, val, rm, ok := actions.VerifC09Setvar(a.Function); ok {
				raw := "tx." + key.String()
				if rm {
					raw = "!" + raw
				}
				if val != nil {
					raw += "=" + val.String()
				}
				acts = append(acts, "RSetvar "+hxs(raw))
			} else {
				acts = append(acts, "RNd "+hxs(a.Name))
			}
		case plugintypes.ActionTypeDisruptive:
			if a.Name != "deny" && a.Name != "pass" {
				return "", fmt.Errorf("disruptive action outside the model: %s", a.Name)
			}
			acts = append(acts, fmt.Sprintf("RDisr %s %s", hxs(a.Name), vh.Bool(a.Name == "deny")))
		case plugintypes.ActionTypeFlow:
			if a.Name != "chain" {
				return "", fmt.Errorf("flow action outside the model: %s", a.Name)
			}
			acts = append(acts, "RFlow "+hxs(a.Name))
		default:
			acts = append(acts, "ROther "+hxs(a.Name))
		}
	}
	sev := "None"
	if r.Severity_ != types.RuleSeverityUnset {
		sev = "(Some " + vh.Z(int64(r.Severity_.Int())) + ")"
	}
	msg, ld := "None", "None"
	if r.Msg != nil {
		msg = optHx(true, r.Msg.String())
	}
	if r.LogData != nil {
		ld = optHx(true, r.LogData.String())
	}
	return fmt.Sprintf("(RL %s %s %s %s %s %s %s %s %s %s %s %s)", vh.Z(int64(r.ID_)), hxs(r.LogID_), vh.Z(int64(r.ParentID_)), op,
		vh.List(tfs), vh.Bool(r.MultiMatch), vh.Bool(r.Capture), vh.Bool(r.HasChain), msg, ld, sev, vh.List(acts)), nil
}

// rxTable is the regexp oracle of an "rxg" link: Go's regexp package (not Coraza's operator) is run
// on every value the link can be evaluated against (all request values under the link's
// transformations), and for each matching value the fields rx.go is specified to hand to
// CaptureField are listed: groups 0..9 of the pattern, "" for a group that did not participate.
func rxTable(c *Case, d LinkDesc) (string, error) {
	re, err := regexp.Compile("(?sm)" + d.OpArg)
	if err != nil {
		return "", err
	}
	for _, t := range d.Targets {
		if t.Count || (t.Var != "ARGS" && t.Var != "ARGS_GET" && t.Var != "REQUEST_HEADERS") {
			return "", fmt.Errorf("rxg link with a target whose values the harness cannot enumerate: %+v", t)
		}
	}
	seen := map[string]bool{}
	var items []string
	for _, l := range [][][2]string{c.Args, c.Hdrs} {
		for _, p := range l {
			for _, v := range candValues(d.Tfs, d.Multi, p[1]) {
				if seen[v] {
					continue
				}
				seen[v] = true
				m := re.FindStringSubmatchIndex(v)
				if m == nil {
					continue
				}
				var caps []string
				for i := 0; i < len(m)/2 && i < 10; i++ {
					g := ""
					if m[2*i] >= 0 {
						g = v[m[2*i]:m[2*i+1]]
					}
					caps = append(caps, fmt.Sprintf("(%s, %s)", vh.N(int64(i)), hxs(g)))
				}
				items = append(items, fmt.Sprintf("(%s, %s)", hxs(v), vh.List(caps)))
			}
		}
	}
	return vh.List(items), nil
}

func pairList(l [][2]string) string {
	items := make([]string, len(l))
	for i, p := range l {
		items[i] = "(" + hxs(p[0]) + ", " + hxs(p[1]) + ")"
	}
	return vh.List(items)
}

func groupTerm(keys []string, m map[string][]string) string {
	items := make([]string, len(keys))
	for i, k := range keys {
		items[i] = "(" + hxs(k) + ", " + hxList(m[k]) + ")"
	}
	return vh.List(items)
}

// ---------------------------------------------------------------------------------------
// running one case on the implementation
// ---------------------------------------------------------------------------------------

type outcome struct {
	term string
	tx   map[string][]string
	ok   bool
}

func runCase(c *Case) (terms []string, err error) {
	defer func() {
		if r := recover(); r != nil {
			err = fmt.Errorf("panic: %v", r)
		}
	}()
	switch c.Kind {
	case "run":
		return runTx(c)
	case "init":
		return []string{runInit(c)}, nil
	case "macro":
		return []string{runMacro(c)}, nil
	case "atoi":
		v, e := strconv.Atoi(c.raw())
		c.Obs = fmt.Sprintf("%d err=%v", v, e != nil)
		return []string{fmt.Sprintf("CAtoi %s %s %s", hxs(c.raw()), vh.Bool(e == nil), vh.Z(int64(v)))}, nil
	case "itoa":
		o := strconv.Itoa(int(c.Z))
		c.Obs = o
		return []string{fmt.Sprintf("CItoa %s %s", vh.Z(c.Z), hxs(o))}, nil
	}
	return nil, fmt.Errorf("unknown case kind %q", c.Kind)
}

func tokTerm(m macro.Macro) string {
	var items []string
	for _, t := range macro.VerifC09Tokens(m) {
		items = append(items, fmt.Sprintf("OTok %s %s %s", hxs(t.Text), hxs(t.Variable), hxs(t.Key)))
	}
	return vh.List(items)
}

func runInit(c *Case) string {
	a, err := actions.Get("setvar")
	if err != nil {
		panic(err)
	}
	r := corazawaf.NewRule()
	e := a.Init(r, c.raw())
	if e != nil {
		c.Obs = "error: " + e.Error()
		return fmt.Sprintf("CInit %s false false [] false []", hxs(c.raw()))
	}
	key, val, rm, _ := actions.VerifC09Setvar(a)
	c.Obs = "ok"
	vt := "[]"
	if val != nil {
		vt = tokTerm(val)
	}
	return fmt.Sprintf("CInit %s true %s %s %s %s", hxs(c.raw()), vh.Bool(rm), tokTerm(key), vh.Bool(val != nil), vt)
}

func runMacro(c *Case) string {
	m, e := macro.NewMacro(c.raw())
	if e != nil {
		c.Obs = "error: " + e.Error()
		return fmt.Sprintf("CMacro %s false []", hxs(c.raw()))
	}
	c.Obs = "ok"
	return fmt.Sprintf("CMacro %s true %s", hxs(c.raw()), tokTerm(m))
}

// observation of one transaction
type txObs struct {
	term    string // the observation arguments of CRun (everything after the rule list)
	tx      map[string][]string
	hs      string
	intr    int
	matched []int
	human   []string
	digest  string
}

func reqList(l []Req) string {
	items := make([]string, len(l))
	for i, r := range l {
		items[i] = "(" + pairList(r.Args) + ", " + pairList(r.Hdrs) + ")"
	}
	return vh.List(items)
}

// runRequest drives one transaction through the five phases; observe = record what it did.
func runRequest(waf *corazawaf.WAF, sk *sink, req Req, observe bool) (*corazawaf.Transaction, *txObs, error) {
	tx := waf.NewTransaction()
	sk.events, sk.human = nil, nil
	tx.ProcessConnection("10.0.0.1", 1234, "10.0.0.2", 80)
	tx.ProcessURI("/p", "GET", "HTTP/1.1")
	for _, a := range req.Args {
		tx.AddGetRequestArgument(a[0], a[1])
	}
	for _, h := range req.Hdrs {
		tx.AddRequestHeader(h[0], h[1])
	}
	tx.ProcessRequestHeaders()
	if _, err := tx.ProcessRequestBody(); err != nil {
		return tx, nil, err
	}
	tx.ProcessResponseHeaders(200, "HTTP/1.1")
	if _, err := tx.ProcessResponseBody(); err != nil {
		return tx, nil, err
	}
	tx.ProcessLogging()
	if !observe {
		return tx, nil, nil
	}
	o := &txObs{tx: map[string][]string{}}
	var txKeys []string
	for _, md := range tx.Variables().TX().FindAll() {
		if _, ok := o.tx[md.Key()]; !ok {
			txKeys = append(txKeys, md.Key())
		}
		o.tx[md.Key()] = append(o.tx[md.Key()], md.Value())
	}
	sort.Strings(txKeys)
	mvm := map[string][]string{}
	var mvKeys []string
	for _, md := range tx.Variables().MatchedVars().FindAll() {
		k := strings.ToLower(md.Key())
		if _, ok := mvm[k]; !ok {
			mvKeys = append(mvKeys, k)
		}
		mvm[k] = append(mvm[k], md.Value())
	}
	sort.Strings(mvKeys)
	o.hs = tx.Variables().HighestSeverity().Get()
	mv := tx.Variables().MatchedVar().Get()
	mvn := tx.Variables().MatchedVarName().Get()
	if it := tx.Interruption(); it != nil {
		o.intr = it.RuleID
	}
	var mrs []string
	for _, mr := range tx.MatchedRules() {
		var mds []string
		for _, md := range mr.MatchedDatas() {
			mds = append(mds, fmt.Sprintf("OMD %s %s %s %s %s", hxs(md.Variable().Name()), hxs(md.Key()), hxs(md.Value()), hxs(md.Message()), hxs(md.Data())))
		}
		mrs = append(mrs, fmt.Sprintf("OMR %s %s %s %s %s", vh.Z(int64(mr.Rule().ID())), vh.Z(int64(mr.Rule().Severity().Int())), hxs(mr.Message()), hxs(mr.Data()), vh.List(mds)))
		o.matched = append(o.matched, mr.Rule().ID())
	}
	o.human = sk.human
	// order-independent digest (hash-order cases are compared on it only)
	o.digest = fmt.Sprintf("%s|%s|%d|%v|%d", groupTerm(txKeys, o.tx), o.hs, o.intr, o.matched, len(sk.events))
	o.term = fmt.Sprintf("%s %s %s %s %s %s %s %s", groupTerm(txKeys, o.tx), hxs(o.hs), hxs(mv), hxs(mvn), groupTerm(mvKeys, mvm), vh.Z(int64(o.intr)), vh.List(mrs), vh.List(sk.events))
	return tx, o, nil
}

// runTx runs the case's request as the FIRST transaction of a freshly built WAF, closes it, runs and
// closes the prior requests, and runs the same request again on the recycled transaction object
// (transaction number len(Priors)+2 of the WAF). Both observations are checked against the model:
// one Coq case when they agree (the model is evaluated through the whole history), two otherwise.
func runTx(c *Case) ([]string, error) {
	conf := renderRules(c.Rules)
	c.Config = conf
	sk := &sink{}
	waf := corazawaf.NewWAF()
	waf.Logger = capLogger{s: sk}
	if err := seclang.NewParser(waf).FromString(conf); err != nil {
		return nil, fmt.Errorf("config does not compile: %v\n%s", err, conf)
	}
	// translate the compiled rules
	compiled := waf.Rules.GetRules()
	if len(compiled) != len(c.Rules) {
		return nil, fmt.Errorf("compiled %d rules, described %d", len(compiled), len(c.Rules))
	}
	var rterms []string
	for i := range compiled {
		r := &compiled[i]
		d := c.Rules[i]
		var links []string
		j := 0
		for lr := r; lr != nil; lr = lr.Chain {
			if j >= len(d.Links) {
				return nil, fmt.Errorf("chain longer than described")
			}
			t, err := linkTerm(c, lr, d.Links[j])
			if err != nil {
				return nil, err
			}
			links = append(links, t)
			j++
		}
		if j != len(d.Links) {
			return nil, fmt.Errorf("chain shorter than described")
		}
		rterms = append(rterms, fmt.Sprintf("RR %s %s %s", vh.N(int64(r.Phase_)), links[0], vh.List(links[1:])))
	}

	self := Req{Args: c.Args, Hdrs: c.Hdrs}
	tx, first, err := runRequest(waf, sk, self, true)
	if err != nil {
		return nil, err
	}
	reused := true
	prev := tx
	tx.Close()
	for _, p := range c.Priors {
		t, _, err := runRequest(waf, sk, p, false)
		if err != nil {
			return nil, err
		}
		reused = reused && t == prev
		prev = t
		t.Close()
	}
	tx, nth, err := runRequest(waf, sk, self, true)
	if err != nil {
		return nil, err
	}
	reused = reused && tx == prev
	tx.Close()

	c.Nth, c.PoolReused = len(c.Priors)+2, reused
	c.ObsTX, c.ObsHS, c.ObsInt, c.ObsMatched = nth.tx, nth.hs, nth.intr, nth.matched
	c.ObsTrace = nth.human
	if len(c.ObsTrace) > 60 {
		c.ObsTrace = append(append([]string{}, c.ObsTrace[:60]...), "...")
	}
	history := append([]Req{self}, c.Priors...)
	mk := func(priors string, obs string) string {
		return "CRun " + vh.Bool(c.Ordered) + " " + priors + " " + pairList(c.Args) + " " + pairList(c.Hdrs) + " " + vh.List(rterms) + " " + obs
	}
	if first.term == nth.term || (!c.Ordered && first.digest == nth.digest) {
		return []string{mk(reqList(history), nth.term)}, nil
	}
	// the recycled transaction behaved differently: both observations go to the model
	c.Obs = fmt.Sprintf("first transaction of the WAF: HIGHEST_SEVERITY=%q TX=%v matched=%v", first.hs, first.tx, first.matched)
	return []string{mk("[]", first.term), mk(reqList(history), nth.term)}, nil
}

func unhex(h string) string {
	b := make([]byte, len(h)/2)
	for i := range b {
		v, _ := strconv.ParseUint(h[2*i:2*i+2], 16, 8)
		b[i] = byte(v)
	}
	return string(b)
}

// ---------------------------------------------------------------------------------------
// driver
// ---------------------------------------------------------------------------------------

func Run(cfg vh.Config) (*vh.Result, error) {
	res := &vh.Result{InputDistribution: map[string]int{}}
	res.Rule = "a run case is non-trivial when at least one setvar action executed (trace contains an 'Action evaluated' line) and at least one rule matched more than zero values; a direct case (init/macro/atoi/itoa) is non-trivial when the input is non-empty; distinct = distinct (configuration, request) or distinct input"
	var terms []string
	var cases []any
	seen := map[string]bool{}
	fail := func(key, what string, c any) {
		res.OracleFailures = append(res.OracleFailures, vh.OracleFailure{Key: key, What: what, Case: c})
	}
	add := func(c *Case) {
		ts, err := runCase(c)
		res.Evaluations++
		if err != nil {
			fail("c09-harness", "case could not be run: "+err.Error(), c)
			return
		}
		res.InputDistribution["kind_"+c.Kind]++
		key := c.Kind + "|" + c.Config + "|" + fmt.Sprint(c.Args, c.Hdrs) + "|" + c.raw() + "|" + fmt.Sprint(c.Z)
		if !seen[key] {
			seen[key] = true
			if c.Kind == "run" {
				nsv := 0
				for _, e := range c.ObsTrace {
					if strings.HasPrefix(e, "setvar ") {
						nsv++
					}
				}
				if nsv > 0 {
					res.DistinctNontrivial++
				}
			} else if c.raw() != "" || c.Kind == "itoa" {
				res.DistinctNontrivial++
			}
		}
		if c.Kind == "run" {
			describe(c, res.InputDistribution)
			res.InputDistribution[fmt.Sprintf("nth_transaction_%d", c.Nth)]++
			if c.PoolReused {
				res.InputDistribution["pool_object_reused"]++
			}
			checkExpect(c, fail, res)
			res.OracleEvaluations++
			if len(ts) > 1 {
				// implementation-side oracle: the same request on the same WAF must not depend on what the pooled object served before
				fail("c09-recycled-transaction", fmt.Sprintf("the request behaves differently as transaction %d of the WAF (recycled object) than as the first one; %s", c.Nth, c.Obs), c)
			}
		}
		for _, t := range ts {
			terms = append(terms, t)
			cases = append(cases, c)
		}
	}

	if cfg.Replay != "" {
		b, err := os.ReadFile(cfg.Replay)
		if err != nil {
			return nil, err
		}
		var rp struct {
			Case json.RawMessage `json:"case"`
		}
		var c Case
		if json.Unmarshal(b, &rp) == nil && rp.Case != nil {
			if err := json.Unmarshal(rp.Case, &c); err != nil {
				return nil, err
			}
		} else if err := json.Unmarshal(b, &c); err != nil {
			return nil, err
		}
		add(&c)
	} else {
		docs, _ := vh.LoadCorpus(cfg.Corpus)
		for _, d := range docs {
			var c Case
			if json.Unmarshal(d, &c) == nil && c.Kind != "" {
				add(&c)
			}
		}
		res.InputDistribution["corpus"] = len(docs)
		rng := vh.Rng(cfg.Seed, "c09")
		for _, c := range directCases(rng, cfg) {
			add(c)
		}
		for _, c := range fixedRunCases() {
			add(withPriors(rng, c))
		}
		for i := 0; i < cfg.Pick(120, 1500); i++ {
			add(withPriors(rng, genSum(rng)))
		}
		for i := 0; i < cfg.Pick(90, 1500); i++ {
			add(withPriors(rng, genCap(rng)))
		}
		for i := 0; i < cfg.Pick(360, 6000); i++ {
			add(withPriors(rng, genRun(rng, true)))
		}
		for i := 0; i < cfg.Pick(70, 1500); i++ {
			add(withPriors(rng, genRun(rng, false)))
		}
	}

	// shards: direct cases are tiny (1000 per shard); run cases carry a whole rule set and trace (60 per shard)
	var dTerms, rTerms []string
	var dCases, rCases []any
	for i, c := range cases {
		if c.(*Case).Kind == "run" {
			rTerms, rCases = append(rTerms, terms[i]), append(rCases, c)
		} else {
			dTerms, dCases = append(dTerms, terms[i]), append(dCases, c)
		}
	}
	k := 0
	emit := func(ts []string, cs []any, per int) error {
		for i := 0; i < len(ts); i, k = i+per, k+1 {
			j := i + per
			if j > len(ts) {
				j = len(ts)
			}
			prelude, rewritten := preludeFor(ts[i:j])
			info, err := vh.WriteShard(cfg.OutDir, vh.Shard{
				Name: fmt.Sprintf("C09_%d", k), Imports: "From Verif Require Import Base Transform Setvar CorrC09.",
				CaseType: "CorrC09.case", MismatchF: "CorrC09.mismatches", Terms: rewritten, Cases: cs[i:j], Prelude: prelude,
			})
			if err != nil {
				return err
			}
			res.Shards = append(res.Shards, info)
		}
		return nil
	}
	if err := emit(dTerms, dCases, 1000); err != nil {
		return nil, err
	}
	if err := emit(rTerms, rCases, cfg.Pick(60, 400)); err != nil {
		return nil, err
	}
	for i := 0; i < len(cases) && len(res.Samples) < 6; i += 1 + len(cases)/6 {
		res.Samples = append(res.Samples, cases[i])
	}
	return res, nil
}

// describe fills the input-distribution histogram of a run case.
func describe(c *Case, h map[string]int) {
	if c.Ordered {
		h["run_ordered"]++
	} else {
		h["run_hash_order"]++
	}
	if c.Shape != "" {
		h["shape_"+c.Shape]++
	}
	maxm := 0
	nm := 0
	cur := 0
	for _, e := range c.ObsTrace {
		if strings.HasPrefix(e, "matching ") {
			nm++
		}
	}
	_ = cur
	// matches per rule evaluation: count "matching" lines per rule id
	per := map[string]int{}
	for _, e := range c.ObsTrace {
		if strings.HasPrefix(e, "matching ") {
			f := strings.Fields(e)
			per[f[1]]++
			if per[f[1]] > maxm {
				maxm = per[f[1]]
			}
		}
	}
	switch {
	case maxm == 0:
		h["max_matches_per_rule_0"]++
	case maxm == 1:
		h["max_matches_per_rule_1"]++
	case maxm <= 3:
		h["max_matches_per_rule_2-3"]++
	case maxm <= 5:
		h["max_matches_per_rule_4-5"]++
	default:
		h["max_matches_per_rule_>5"]++
	}
	for _, r := range c.Rules {
		h[fmt.Sprintf("rule_phase_%d", r.Phase)]++
		if len(r.Links) > 1 {
			h[fmt.Sprintf("chain_len_%d", len(r.Links))]++
		}
		for _, l := range r.Links {
			if l.Multi {
				h["multimatch_links"]++
			}
			if l.Capture {
				h["capture_links"]++
			}
			for _, a := range l.Actions {
				if !strings.HasPrefix(a, "setvar:") {
					continue
				}
				v := a[len("setvar:"):]
				switch {
				case strings.HasPrefix(v, "!"):
					h["setvar_delete"]++
				case !strings.Contains(v, "="):
					h["setvar_novalue"]++
				case strings.Contains(v, "=+"):
					h["setvar_increment"]++
				case strings.Contains(v, "=-"):
					h["setvar_decrement"]++
				default:
					h["setvar_assign"]++
				}
				k, val, _ := strings.Cut(v, "=")
				if strings.Contains(k, "%{") {
					h["setvar_macro_key"]++
				}
				if strings.Contains(val, "%{") {
					h["setvar_macro_value"]++
				}
			}
		}
	}
	if c.ObsInt != 0 {
		h["interrupted"]++
	}
	if c.ObsHS != "255" {
		h["highest_severity_set"]++
	}
}

// checkExpect is the implementation-side oracle of the property: the final TX values the
// harness predicted independently of the model (exact sums over matches).
func checkExpect(c *Case, fail func(key, what string, c any), res *vh.Result) {
	if len(c.Expect) == 0 {
		return
	}
	res.OracleEvaluations++
	for k, want := range c.Expect {
		var got string
		switch k {
		case "HIGHEST_SEVERITY":
			got = c.ObsHS
		default:
			if v := c.ObsTX[k]; len(v) == 1 {
				got = v[0]
			} else if len(v) == 0 {
				got = "<unset>"
			} else {
				got = "<multi>"
			}
		}
		if got != want {
			fail("c09-sum", fmt.Sprintf("TX/%s = %q at the end of the transaction, the sum over all matches is %q", k, got, want), c)
			return
		}
	}
}
