(* ConfigProofs.v — lemmas and proofs for C17 over Config.v *)
From Verif Require Import Base Config.
Open Scope N_scope.

(* a WAF serving transactions one after the other: every transaction sees the same rule list *)
Lemma serve_local : forall rx rules rqs1 rq rqs2,
  nth (length rqs1) (cf_serve rx rules (rqs1 ++ rq :: rqs2)) ([], None) = cf_outcome rx rules rq.
Proof.
  intros. unfold cf_serve. rewrite map_app. cbn [map].
  rewrite app_nth2; rewrite map_length; [|lia]. rewrite Nat.sub_diag. reflexivity.
Qed.
