package c15

import (
	"testing/fstest"

	"github.com/corazawaf/coraza/v3/verifharness/vh"
	"fmt"
	"math/big"
	"math/rand"
	"net"
	"strings"

	"github.com/corazawaf/coraza/v3/experimental/plugins/plugintypes"
	"github.com/corazawaf/coraza/v3/internal/operators"
)

// @ipMatch is a thin wrapper around net.ParseCIDR / net.IPNet.Contains; it is not modelled in
// Coq. The oracle below decides membership by integer arithmetic on the generated addresses
// (first plen bits equal) and, for free-form arguments, by net.IPNet.Contains itself.

func ipMatchEval(arg, value string) (bool, error) {
	op, err := operators.Get("ipMatch", plugintypes.OperatorOptions{Arguments: arg})
	if err != nil {
		return false, err
	}
	tx := newTx(false, nil)
	defer tx.Close()
	return op.Evaluate(tx, value), nil
}

func v4str(a uint32) string {
	return fmt.Sprintf("%d.%d.%d.%d", a>>24, (a>>16)&255, (a>>8)&255, a&255)
}

func v6str(a *big.Int) string {
	b := a.FillBytes(make([]byte, 16))
	parts := make([]string, 8)
	for i := range parts {
		parts[i] = fmt.Sprintf("%x", int(b[2*i])<<8|int(b[2*i+1]))
	}
	return strings.Join(parts, ":")
}

func (r *runner) ipCheck(arg, value string, want bool, how string) {
	cj := &caseJSON{Kind: "ipmatch", ArgHex: hx(arg), ValueHex: hx(value), Note: how}
	got, err := ipMatchEval(arg, value)
	r.oracleN++
	r.res.InputDistribution["ipmatch_"+boolStr(want)]++
	if err != nil {
		r.fail("c15-ipmatch-ctor", "newIPMatch returned an error: "+err.Error(), cj)
		return
	}
	cj.Res = boolStr(got)
	if got != want {
		r.fail("c15-ipmatch", "@ipMatch differs from CIDR membership ("+how+")", cj)
	}
}

// free-form reference: what the documentation says, via the standard library
func ipRef(arg, value string) bool {
	ip := net.ParseIP(value)
	for _, sb := range strings.Split(arg, ",") {
		sb = strings.TrimSpace(sb)
		if sb == "" {
			continue
		}
		if !strings.Contains(sb, "/") {
			if strings.Contains(sb, ":") {
				sb += "/128"
			} else if strings.Contains(sb, ".") {
				sb += "/32"
			}
		}
		_, n, err := net.ParseCIDR(sb)
		if err == nil && n.Contains(ip) {
			return true
		}
	}
	return false
}

func (r *runner) ipMatchDoc(c caseJSON) {
	arg, value := unhx(c.ArgHex), unhx(c.ValueHex)
	r.ipCheck(arg, value, ipRef(arg, value), "net.IPNet.Contains")
}

func (r *runner) genIPMatch(rng *rand.Rand) {
	n := r.cfg.Pick(1500, 60000)
	for i := 0; i < n; i++ {
		if rng.Intn(3) > 0 {
			// IPv4 list
			k := 1 + rng.Intn(3)
			var items []string
			type cidr struct {
				a    uint32
				plen int
			}
			var cs []cidr
			for j := 0; j < k; j++ {
				a := rng.Uint32()
				plen := []int{0, 1, 7, 8, 9, 16, 23, 24, 25, 31, 32, 32}[rng.Intn(12)]
				if rng.Intn(3) == 0 {
					items = append(items, v4str(a)) // bare address: /32
					cs = append(cs, cidr{a, 32})
				} else {
					items = append(items, fmt.Sprintf("%s/%d", v4str(a), plen))
					cs = append(cs, cidr{a, plen})
				}
			}
			probe := rng.Uint32()
			if rng.Intn(2) == 0 { // near a boundary of one of the networks
				c := cs[rng.Intn(len(cs))]
				probe = c.a
				if c.plen < 32 {
					switch rng.Intn(4) {
					case 0:
						probe ^= 1 << uint(31-c.plen) // first host bit flipped: still inside
					case 1:
						if c.plen > 0 {
							probe ^= 1 << uint(32-c.plen) // last network bit flipped: outside
						}
					case 2:
						probe |= (1 << uint(32-c.plen)) - 1 // broadcast address of the block
					}
				} else if rng.Intn(2) == 0 {
					probe ^= 1
				}
			}
			want := false
			for _, c := range cs {
				if c.plen == 0 || probe>>uint(32-c.plen) == c.a>>uint(32-c.plen) {
					want = true
				}
			}
			sep := []string{",", ", ", " ,"}[rng.Intn(3)]
			r.ipCheck(strings.Join(items, sep), v4str(probe), want, "first plen bits equal (IPv4)")
		} else {
			a := new(big.Int).Rand(rng, new(big.Int).Lsh(big.NewInt(1), 128))
			plen := []int{0, 1, 16, 32, 48, 63, 64, 65, 96, 127, 128, 128}[rng.Intn(12)]
			arg := fmt.Sprintf("%s/%d", v6str(a), plen)
			if plen == 128 && rng.Intn(2) == 0 {
				arg = v6str(a)
			}
			probe := new(big.Int).Set(a)
			switch rng.Intn(4) {
			case 0:
				if plen < 128 {
					probe.Xor(probe, new(big.Int).Lsh(big.NewInt(1), uint(127-plen)))
				}
			case 1:
				if plen > 0 {
					probe.Xor(probe, new(big.Int).Lsh(big.NewInt(1), uint(128-plen)))
				}
			case 2:
				probe = new(big.Int).Rand(rng, new(big.Int).Lsh(big.NewInt(1), 128))
			}
			sh := uint(128 - plen)
			want := new(big.Int).Rsh(probe, sh).Cmp(new(big.Int).Rsh(a, sh)) == 0
			r.ipCheck(arg, v6str(probe), want, "first plen bits equal (IPv6)")
		}
	}
	// free-form arguments against the standard library
	for _, arg := range []string{"", ",", "10.0.0.0/8,", "10.0.0.0/33", "10.0.0/8", "garbage", "garbage,192.168.1.1", "::1", "::ffff:10.0.0.1", "10.0.0.1/32 , ::1/128", "1.2.3.4/0", "fe80::/10"} {
		for _, v := range []string{"10.0.0.1", "192.168.1.1", "::1", "", "garbage", "10.0.0.1 ", "::ffff:10.0.0.1", "fe80::1", "1.2.3.4", "010.0.0.1"} {
			r.ipCheck(arg, v, ipRef(arg, v), "net.IPNet.Contains")
		}
	}
}

// runIpm: @ipMatch / @ipMatchFromFile compared with the Gallina model (Operators.v ipm_*), which
// covers the IPv4 forms; arguments or values containing ':' (IPv6 forms) stay on the
// implementation-side oracle above and are not sent to Coq.
func (r *runner) runIpm(file bool, arg, value string) {
	name := "ipMatch"
	opts := plugintypes.OperatorOptions{Arguments: arg, Memoizer: r.mz()}
	if file {
		name = "ipMatchFromFile"
		opts = plugintypes.OperatorOptions{Arguments: "ips.data", Path: []string{"d"}, Memoizer: r.mz(),
			Root: fstest.MapFS{"d/ips.data": &fstest.MapFile{Data: []byte(arg)}}}
	}
	cj := &caseJSON{Kind: "ipm", Op: name, ArgHex: hx(arg), ValueHex: hx(value)}
	op, err := operators.Get(name, opts)
	if err != nil {
		r.fail("c15-ipmatch-ctor", name+" constructor returned an error: "+err.Error(), cj)
		return
	}
	tx := newTx(false, nil)
	b, ok := r.evalSafe(op, tx, value, cj)
	tx.Close()
	if !ok {
		return
	}
	cj.Res = boolStr(b)
	if strings.Contains(arg, ":") || strings.Contains(value, ":") {
		r.res.InputDistribution["ipm_ipv6_oracle_only"]++
		return
	}
	r.emit(fmt.Sprintf("CIpm %s %s %s %s", vh.Bool(file), vh.HxS(arg), vh.HxS(value), vh.Bool(b)), cj, b, "ipm_"+cj.Res)
}

// genIpmModel: deterministic grid + random cases from their OWN PRNG stream (appended after all
// earlier families so that their random draws are unchanged).
func (r *runner) genIpmModel() {
	cfg := r.cfg
	rng := vh.Rng(cfg.Seed, "C15-growth2")
	v4 := func(a uint32) string { return v4str(a) }
	plens := []int{0, 1, 8, 15, 16, 24, 31, 32}
	addrs := []uint32{0x0a010203, 0xc0a80180, 0xffffffff, 0, 0x7fffffff, 0x80000000}
	for _, a := range addrs {
		for _, n := range plens {
			arg := fmt.Sprintf("%s/%d", v4(a), n)
			var size uint64 = 1 << uint(32-n)
			base := uint64(a) &^ (size - 1)
			probes := []uint64{base, base + size - 1, uint64(a)}
			if base > 0 {
				probes = append(probes, base-1)
			}
			if base+size <= 0xffffffff {
				probes = append(probes, base+size)
			}
			for _, p := range probes {
				r.runIpm(false, arg, v4(uint32(p)))
			}
		}
		r.runIpm(false, v4(a), v4(a))
		r.runIpm(false, v4(a), v4(a^1))
	}
	items := []string{"10.0.0.0/8", "10.0.0/8", "10.0.0.0/33", "10.0.0.0/", "10.0.0.0/08", "10.0.0.0/008", "010.0.0.1", "10.0.0.01/32", "10.0.0.1/32/1", "garbage", "",
		"1.2.3.4.5", "256.1.1.1", ".1.2.3", "1..2.3", "1.2.3.", "1.2.3", "1.2.3.4 /8", "1.2.3.4/ 8", "\t10.0.0.0/8\n", "10.0.0.0/+8", "10.0.0.0/8x", "0.0.0.0/0",
		"255.255.255.255", "1%2.3.4", "1.2.3.4%eth0", "10.0.0.0/99999999999999999999", "192.168.1.1", "/8", "10", "10/8", "\xc2\xa010.1.0.0/16\xc2\xa0", "10.0.0.0\\8", "00.0.0.0/0", "0.0.0.0/00"}
	values := []string{"10.0.0.1", "10.255.255.255", "11.0.0.0", "9.255.255.255", "192.168.1.1", "1.2.3.4", "10.0.0.1 ", " 10.0.0.1", "010.0.0.1", "10.0.0.01", "10.0.0.1.",
		"10.0.0", "", "garbage", "10.0.0.256", "1e1.0.0.1", "10.0.0.1/32", "1.2.3.4%eth0", "10.1.2.3", "0.0.0.0", "255.255.255.255", "10.0.0.1\n", "10,0.0.1", "0010.0.0.1", "10.0.0.1\x00"}
	for i, it := range items {
		for j, v := range values {
			if cfg.Thorough() || (i+j)%2 == 0 {
				r.runIpm(false, it, v)
			}
		}
		r.runIpm(false, "garbage, "+it+" ,172.16.0.0/12", "172.16.5.5")
		r.runIpm(false, " "+it+" , 10.1.0.0/16", "10.1.2.3")
	}
	mkItem := func() string {
		a := rng.Uint32()
		if rng.Intn(3) == 0 {
			a = []uint32{0x0a000000, 0xc0a80000, 0xac100000}[rng.Intn(3)] | uint32(rng.Intn(1<<16))
		}
		it := v4(a)
		if rng.Intn(4) > 0 {
			it += fmt.Sprintf("/%d", []int{0, 4, 8, 12, 16, 20, 24, 28, 30, 31, 32, 33}[rng.Intn(12)])
		}
		if rng.Intn(8) == 0 {
			it = pick(rng, items)
		}
		return pick(rng, []string{"", "", " ", "\t"}) + it + pick(rng, []string{"", "", " "})
	}
	for i := 0; i < cfg.Pick(500, 10000); i++ {
		n := 1 + rng.Intn(4)
		its := make([]string, n)
		for j := range its {
			its[j] = mkItem()
		}
		arg := strings.Join(its, ",")
		v := v4(rng.Uint32())
		switch rng.Intn(4) {
		case 0: // an address inside / just outside one of the listed blocks
			f := strings.TrimSpace(its[rng.Intn(n)])
			if ip, nw, err := net.ParseCIDR(f); err == nil && ip.To4() != nil {
				ones, _ := nw.Mask.Size()
				b4 := nw.IP.To4()
				base := uint64(b4[0])<<24 | uint64(b4[1])<<16 | uint64(b4[2])<<8 | uint64(b4[3])
				size := uint64(1) << uint(32-ones)
				p := []uint64{base, base + size - 1, base + size, base - 1}[rng.Intn(4)]
				v = v4(uint32(p))
			}
		case 1:
			v = pick(rng, values)
		}
		r.runIpm(false, arg, v)
	}
	// @ipMatchFromFile: one item per line, comments, blank lines, CRLF, indentation
	files := []string{"10.0.0.0/8\n192.168.1.1\n", "# list\r\n10.0.0.0/8\r\n\r\n  172.16.0.0/12  \r\n", "10.0.0.0/8", "#10.0.0.0/8\n11.0.0.0/8", "", "garbage\n10.1.2.3\n",
		"10.0.0.0/8,11.0.0.0/8\n", " # c\n\t12.0.0.0/8"}
	for _, f := range files {
		for _, v := range []string{"10.1.2.3", "11.1.2.3", "192.168.1.1", "172.16.9.9", "12.0.0.1", "", "garbage"} {
			r.runIpm(true, f, v)
		}
	}
}
