(* CorrC09.v — correspondence checker for C09: evaluates the Setvar.v model on the rule sets,
   requests and direct calls the Go harness ran and compares with what the implementation did. *)
From Verif Require Import Base Transform Setvar.
Open Scope N_scope.

(* ---- rule sets as read back from the compiled WAF (hook VerifC09Dump), still as text ---- *)
Inductive rawop := ROp (kind : N) (arg : bytes) | ROpRx (tbl : list (bytes * list (N * bytes))).
Inductive rawaction :=
  | RNd (name : bytes) | RSetvar (raw : bytes) | RDisr (name : bytes) (deny : bool)
  | RFlow (name : bytes) | ROther (name : bytes).
Inductive rawlink :=
  RL (id : Z) (logid : bytes) (parent : Z) (op : option (list target * rawop * bool)) (tfs : list tid)
     (multi capture haschain : bool) (msg logdata : option bytes) (sev : option Z) (acts : list rawaction).
Inductive rawrule := RR (phase : N) (head : rawlink) (chain : list rawlink).

Definition compile_op (o : rawop) : option cop :=
  match o with
  | ROpRx tbl => Some (OpRxTable tbl)
  | ROp k a =>
  if k =? 0 then Some OpUncond
  else if k =? 9 then Some (OpRxPrefix a)
  else match macro_compile a with
       | None => None
       | Some m =>
         if k =? 1 then Some (OpBeginsWith m) else if k =? 2 then Some (OpContains m)
         else if k =? 3 then Some (OpStreq m) else if k =? 4 then Some (OpEq m)
         else if k =? 5 then Some (OpGt m) else if k =? 6 then Some (OpGe m)
         else if k =? 7 then Some (OpLt m) else if k =? 8 then Some (OpLe m) else None
       end
  end.

Fixpoint compile_actions (l : list rawaction) : option (list action) :=
  match l with
  | [] => Some []
  | a :: r =>
    match compile_actions r with
    | None => None
    | Some r' =>
      match a with
      | RNd n => Some (ANd n :: r')
      | RSetvar raw => match setvar_init raw with Some sv => Some (ASetvar sv :: r') | None => None end
      | RDisr n d => Some (ADisr n d :: r')
      | RFlow n => Some (AFlow n :: r')
      | ROther n => Some (AOther n :: r')
      end
    end
  end.

Definition compile_opt_macro (m : option bytes) : option (option macro) :=
  match m with
  | None => Some None
  | Some raw => match macro_compile raw with Some c => Some (Some c) | None => None end
  end.

Definition compile_link (l : rawlink) : option (link cop) :=
  let '(RL id logid parent op tfs multi capture haschain msg logdata sev acts) := l in
  match compile_actions acts, compile_opt_macro msg, compile_opt_macro logdata with
  | Some a, Some m, Some d =>
    match op with
    | None => Some {| l_id := id; l_logid := logid; l_parent := parent; l_op := None; l_tfs := tfs; l_multi := multi;
                      l_capture := capture; l_haschain := haschain; l_msg := m; l_logdata := d; l_sev := sev;
                      l_actions := a |}
    | Some (ts, o, neg) =>
      match compile_op o with
      | None => None
      | Some co => Some {| l_id := id; l_logid := logid; l_parent := parent; l_op := Some (ts, co, neg); l_tfs := tfs;
                           l_multi := multi; l_capture := capture; l_haschain := haschain; l_msg := m;
                           l_logdata := d; l_sev := sev; l_actions := a |}
      end
    end
  | _, _, _ => None
  end.

Fixpoint compile_links (l : list rawlink) : option (list (link cop)) :=
  match l with
  | [] => Some []
  | x :: r => match compile_link x, compile_links r with
              | Some x', Some r' => Some (x' :: r') | _, _ => None end
  end.

Definition compile_rule (r : rawrule) : option (rule cop) :=
  let '(RR ph h c) := r in
  match compile_link h, compile_links c with
  | Some h', Some c' => Some {| r_phase := ph; r_head := h'; r_chain := c' |}
  | _, _ => None
  end.

Fixpoint compile_rules (l : list rawrule) : option (list (rule cop)) :=
  match l with
  | [] => Some []
  | x :: r => match compile_rule x, compile_rules r with
              | Some x', Some r' => Some (x' :: r') | _, _ => None end
  end.

(* the whole transaction of a case, as the theorems of SetvarProofs talk about it *)
Definition mk_env (r : list (bytes * bytes) * list (bytes * bytes)) : env :=
  {| e_args := fst r; e_hdrs := snd r |}.
Definition run_model (priors : list (list (bytes * bytes) * list (bytes * bytes)))
           (args hdrs : list (bytes * bytes)) (rs : list (rule cop)) : st :=
  eval_nth_tx cop_eval rs (map mk_env priors) {| e_args := args; e_hdrs := hdrs |}.

(* ---- observations ---- *)
Inductive oevent :=
  | OMatching (rid : Z) (vn key : bytes) | OAct (name : bytes) | OSetvar (key value : bytes) (rid : Z)
  | OFlow (name : bytes) | ODisr (name : bytes) | ORuleMatched (rid : Z).
Inductive omd := OMD (var key value msg data : bytes).
Inductive omr := OMR (id : Z) (sev : Z) (msg data : bytes) (mds : list omd).
Inductive otoken := OTok (text vname key : bytes).

Definition erase (e : event) : oevent :=
  match e with
  | EvMatching r v k => OMatching r v k | EvAct _ _ n => OAct n | EvSetvar k v r => OSetvar k v r
  | EvFlow n => OFlow n | EvDisr n => ODisr n | EvRuleMatched r => ORuleMatched r
  end.

Definition oevent_eqb (a b : oevent) : bool :=
  match a, b with
  | OMatching r v k, OMatching r' v' k' => Z.eqb r r' && bytes_eqb v v' && bytes_eqb k k'
  | OAct n, OAct n' => bytes_eqb n n'
  | OSetvar k v r, OSetvar k' v' r' => bytes_eqb k k' && bytes_eqb v v' && Z.eqb r r'
  | OFlow n, OFlow n' => bytes_eqb n n'
  | ODisr n, ODisr n' => bytes_eqb n n'
  | ORuleMatched r, ORuleMatched r' => Z.eqb r r'
  | _, _ => false
  end.

Fixpoint list_eqb {A} (eqb : A -> A -> bool) (a b : list A) : bool :=
  match a, b with
  | [], [] => true
  | x :: a', y :: b' => eqb x y && list_eqb eqb a' b'
  | _, _ => false
  end.

Definition md_eqb (m : mdata) (o : omd) : bool :=
  let '(OMD v k x msg d) := o in
  bytes_eqb (md_var m) v && bytes_eqb (md_key m) k && bytes_eqb (md_value m) x &&
  bytes_eqb (md_msg m) msg && bytes_eqb (md_data m) d.
Fixpoint mds_eqb (a : list mdata) (b : list omd) : bool :=
  match a, b with
  | [], [] => true
  | x :: a', y :: b' => md_eqb x y && mds_eqb a' b'
  | _, _ => false
  end.
Definition mr_eqb (m : mrule) (o : omr) : bool :=
  let '(OMR id sev msg d mds) := o in
  Z.eqb (mr_id m) id && Z.eqb (match mr_sev m with Some x => x | None => (-1)%Z end) sev && bytes_eqb (mr_msg m) msg && bytes_eqb (mr_data m) d && mds_eqb (mr_mds m) mds.
Fixpoint mrs_eqb (a : list mrule) (b : list omr) : bool :=
  match a, b with
  | [], [] => true
  | x :: a', y :: b' => mr_eqb x y && mrs_eqb a' b'
  | _, _ => false
  end.
Definition mr_ids_eqb (a : list mrule) (b : list omr) : bool :=
  list_eqb Z.eqb (map mr_id a) (map (fun o => let '(OMR id _ _ _ _) := o in id) b).

Definition tok_eqb (t : token) (o : otoken) : bool :=
  let '(OTok tx vn k) := o in
  bytes_eqb (tk_text t) tx && bytes_eqb (var_name (tk_var t)) vn && bytes_eqb (tk_key t) k.
Fixpoint toks_eqb (a : list token) (b : list otoken) : bool :=
  match a, b with
  | [], [] => true
  | x :: a', y :: b' => tok_eqb x y && toks_eqb a' b'
  | _, _ => false
  end.

(* the Go map dump (distinct keys, any order) against the model's association list *)
Definition txmap_eqb (m : txmap) (obs : list (bytes * list bytes)) : bool :=
  Nat.eqb (length m) (length obs) &&
  forallb (fun kv => list_eqb bytes_eqb (tx_get m (fst kv)) (snd kv)) obs.

(* MATCHED_VARS: per (lower-cased) name the values in Add order, and the same total *)
Definition mvs_eqb (m : list (bytes * bytes)) (obs : list (bytes * list bytes)) : bool :=
  Nat.eqb (length m) (length (flat_map snd obs)) &&
  forallb (fun kv => list_eqb bytes_eqb (sv_pairs_get m (fst kv)) (snd kv)) obs.

Inductive case :=
  | CRun (ordered : bool) (priors : list (list (bytes * bytes) * list (bytes * bytes)))
         (args hdrs : list (bytes * bytes)) (rules : list rawrule)
         (otx : list (bytes * list bytes)) (ohs omv omvn : bytes) (omvs : list (bytes * list bytes))
         (oint : Z) (omatched : list omr) (otrace : list oevent)
  | CInit (raw : bytes) (ook orm : bool) (okey : list otoken) (ohasval : bool) (oval : list otoken)
  | CMacro (raw : bytes) (ook : bool) (otoks : list otoken)
  | CAtoi (s : bytes) (ook : bool) (oval : Z)
  | CItoa (z : Z) (o : bytes).

Definition ok (c : case) : bool :=
  match c with
  | CRun ordered priors args hdrs rules otx ohs omv omvn omvs oint omatched otrace =>
    match compile_rules rules with
    | None => false
    | Some rs =>
      let s := run_model priors args hdrs rs in
      txmap_eqb (s_tx s) otx && bytes_eqb (s_hs s) ohs &&
      Z.eqb (match s_interrupted s with Some i => i | None => 0%Z end) oint &&
      if ordered then
        bytes_eqb (s_mv s) omv && bytes_eqb (s_mvn s) omvn && mvs_eqb (s_mvs s) omvs &&
        mrs_eqb (rev (s_matched s)) omatched &&
        list_eqb oevent_eqb (map erase (rev (s_trace s))) otrace
      else
        mr_ids_eqb (rev (s_matched s)) omatched && Nat.eqb (length (s_trace s)) (length otrace)
    end
  | CInit raw ook orm okey ohasval oval =>
    match setvar_init raw with
    | None => negb ook
    | Some a => ook && Bool.eqb (sv_remove a) orm && toks_eqb (sv_key a) okey &&
                match sv_value a with
                | Some v => ohasval && toks_eqb v oval
                | None => negb ohasval
                end
    end
  | CMacro raw ook otoks =>
    match macro_compile raw with
    | None => negb ook
    | Some m => ook && toks_eqb m otoks
    end
  | CAtoi s ook oval =>
    match atoi s with
    | AOk z => ook && Z.eqb z oval
    | AErr z => negb ook && Z.eqb z oval
    end
  | CItoa z o => bytes_eqb (z_itoa z) o
  end.

Definition mismatches (l : list case) : list nat := mismatches_of ok l.
