// verif-facts <Cxx> -repo /repo -out <dir>
// The translator: re-reads the repository's Go source (go/ast) and regenerates
// <dir>/Facts<Cxx>.v — definitions extracted from what the code says NOW, followed by
// the obligations over them (proved by computation or by instantiating parametric lemmas of
// the hand-written development).  A change in the source changes the generated file and
// the obligation fails.
package main

import (
	"flag"
	"fmt"
	"go/ast"
	"go/parser"
	"go/printer"
	"go/token"
	"os"
	"path/filepath"
	"sort"
	"strings"
)

type extractor func(repo, out string) error

var extractors = map[string]extractor{}

func main() {
	if len(os.Args) < 2 {
		fmt.Fprintln(os.Stderr, "usage: verif-facts <Cxx> -repo DIR -out DIR")
		os.Exit(2)
	}
	prop := strings.ToUpper(os.Args[1])
	fs := flag.NewFlagSet("verif-facts", flag.ExitOnError)
	repo := fs.String("repo", "/repo", "repository root")
	out := fs.String("out", "", "output directory (coq/gen)")
	_ = fs.Parse(os.Args[2:])
	ex, ok := extractors[prop]
	if !ok {
		fmt.Fprintf(os.Stderr, "no facts extractor for %s\n", prop)
		os.Exit(2)
	}
	if err := os.MkdirAll(*out, 0o755); err != nil {
		fmt.Fprintln(os.Stderr, err)
		os.Exit(3)
	}
	if err := ex(*repo, *out); err != nil {
		fmt.Fprintln(os.Stderr, "verif-facts:", err)
		os.Exit(3)
	}
}

// ---- helpers shared by the extractors ----

type pkgFiles struct {
	fset  *token.FileSet
	files map[string]*ast.File
}

// parseDir parses the non-test Go files of one directory (build tags are ignored except that
// files whose name ends in _test.go or whose first build constraint mentions "verif" are skipped).
func parseDir(dir string) (*pkgFiles, error) {
	fset := token.NewFileSet()
	ents, err := os.ReadDir(dir)
	if err != nil {
		return nil, err
	}
	p := &pkgFiles{fset: fset, files: map[string]*ast.File{}}
	for _, e := range ents {
		n := e.Name()
		if !strings.HasSuffix(n, ".go") || strings.HasSuffix(n, "_test.go") || strings.HasPrefix(n, "zz_verif") {
			continue
		}
		f, err := parser.ParseFile(fset, filepath.Join(dir, n), nil, parser.ParseComments)
		if err != nil {
			return nil, err
		}
		p.files[n] = f
	}
	return p, nil
}

func (p *pkgFiles) src(n ast.Node) string {
	var b strings.Builder
	_ = printer.Fprint(&b, p.fset, n)
	return b.String()
}

func (p *pkgFiles) findFunc(recv, name string) (*ast.FuncDecl, string) {
	names := make([]string, 0, len(p.files))
	for n := range p.files {
		names = append(names, n)
	}
	sort.Strings(names)
	for _, fn := range names {
		for _, d := range p.files[fn].Decls {
			fd, ok := d.(*ast.FuncDecl)
			if !ok || fd.Name.Name != name {
				continue
			}
			r := ""
			if fd.Recv != nil && len(fd.Recv.List) == 1 {
				r = strings.TrimPrefix(p.src(fd.Recv.List[0].Type), "*")
			}
			if r == recv {
				return fd, fn
			}
		}
	}
	return nil, ""
}

func (p *pkgFiles) findStruct(name string) *ast.StructType {
	for _, f := range p.files {
		for _, d := range f.Decls {
			gd, ok := d.(*ast.GenDecl)
			if !ok {
				continue
			}
			for _, s := range gd.Specs {
				ts, ok := s.(*ast.TypeSpec)
				if ok && ts.Name.Name == name {
					if st, ok := ts.Type.(*ast.StructType); ok {
						return st
					}
				}
			}
		}
	}
	return nil
}

func coqStr(s string) string { return `"` + strings.ReplaceAll(s, `"`, `""`) + `"` }

func coqStrList(l []string) string {
	q := make([]string, len(l))
	for i, s := range l {
		q[i] = coqStr(s)
	}
	return "[" + strings.Join(q, "; ") + "]"
}

func uniq(l []string) []string {
	seen := map[string]bool{}
	var r []string
	for _, s := range l {
		if !seen[s] {
			seen[s] = true
			r = append(r, s)
		}
	}
	return r
}
