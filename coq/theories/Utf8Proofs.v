(* Utf8Proofs.v — the two round trips of Go's utf8.DecodeRune / EncodeRune as modelled in Utf8.v. *)
From Verif Require Import Base Utf8.
From Coq Require Import ZifyBool ZifyN ZifyNat.
Open Scope N_scope.
Ltac Zify.zify_post_hook ::= Z.div_mod_to_equations.

Definition rune_norm (r : N) : N :=
  if (1114111 <? r) || in_rng 55296 57343 r then rune_error else r.

Ltac brk :=
  repeat match goal with
  | |- context [if ?c then _ else _] => let E := fresh "E" in destruct c eqn:E
  end.

(* decoding what EncodeRune wrote gives the (normalised) rune back and consumes exactly those bytes *)
Lemma decode_encode r t :
  decode_rune (encode_rune r ++ t) = (rune_norm r, length (encode_rune r)).
Proof.
  unfold encode_rune, rune_norm.
  set (r' := if (1114111 <? r) || in_rng 55296 57343 r then rune_error else r).
  assert (Hr : r' <= 1114111 /\ ~ (55296 <= r' <= 57343)).
  { subst r'. unfold in_rng, rune_error. brk; lia. }
  clearbody r'. destruct Hr as [Hmax Hsur].
  destruct (r' <? 128) eqn:E1.
  { cbn [app decode_rune length]. rewrite E1. reflexivity. }
  destruct (r' <? 2048) eqn:E2.
  { cbn [app length]. unfold decode_rune, in_rng.
    assert ((192 + r' / 64 <? 128) = false) as -> by lia.
    assert (((194 <=? 192 + r' / 64) && (192 + r' / 64 <=? 223)) = true) as -> by lia.
    assert (((128 <=? 128 + r' mod 64) && (128 + r' mod 64 <=? 191)) = true) as -> by lia.
    f_equal. lia. }
  destruct (r' <? 65536) eqn:E3.
  { cbn [app length]. unfold decode_rune, in_rng.
    assert ((224 + r' / 4096 <? 128) = false) as -> by lia.
    assert (((194 <=? 224 + r' / 4096) && (224 + r' / 4096 <=? 223)) = false) as -> by lia.
    assert (((224 <=? 224 + r' / 4096) && (224 + r' / 4096 <=? 239)) = true) as -> by lia.
    match goal with |- (if ?c then _ else _) = _ => assert (c = true) as -> end.
    { destruct (224 + r' / 4096 =? 224) eqn:A; destruct (224 + r' / 4096 =? 237) eqn:B; lia. }
    f_equal. lia. }
  cbn [app length]. unfold decode_rune, in_rng.
  assert ((240 + r' / 262144 <? 128) = false) as -> by lia.
  assert (((194 <=? 240 + r' / 262144) && (240 + r' / 262144 <=? 223)) = false) as -> by lia.
  assert (((224 <=? 240 + r' / 262144) && (240 + r' / 262144 <=? 239)) = false) as -> by lia.
  assert (((240 <=? 240 + r' / 262144) && (240 + r' / 262144 <=? 244)) = true) as -> by lia.
  match goal with |- (if ?c then _ else _) = _ => assert (c = true) as -> end.
  { destruct (240 + r' / 262144 =? 240) eqn:A; destruct (240 + r' / 262144 =? 244) eqn:B; lia. }
  f_equal. lia.
Qed.

(* a decoding step that did not fall back to the width-1 replacement re-encodes to the bytes it read *)
Lemma encode_decode s r w :
  wf_bytes s -> decode_rune s = (r, w) -> (match s with b0 :: _ => (b0 <? 128) || Nat.ltb 1 w | [] => false end) = true ->
  encode_rune r = firstn w s.
Proof.
  intros Hwf Hd Hv. destruct s as [|b0 s]; [discriminate|].
  unfold decode_rune in Hd.
  destruct (b0 <? 128) eqn:E0.
  { inversion Hd; subst. cbn [firstn]. unfold encode_rune, in_rng, rune_error.
    assert (((1114111 <? r) || ((55296 <=? r) && (r <=? 57343))) = false) as -> by lia.
    rewrite E0. reflexivity. }
  cbn [orb] in Hv.
  unfold in_rng in Hd.
  destruct ((194 <=? b0) && (b0 <=? 223)) eqn:E1.
  { destruct s as [|b1 s]; [inversion Hd; subst; discriminate|].
    destruct ((128 <=? b1) && (b1 <=? 191)) eqn:F1; [|inversion Hd; subst; discriminate].
    inversion Hd; subst. cbn [firstn]. unfold encode_rune, in_rng, rune_error.
    match goal with |- context [if ?c then 65533 else ?x] => assert (c = false) as -> by lia end.
    match goal with |- context [if ?c <? 128 then _ else _] => assert ((c <? 128) = false) as -> by lia end.
    match goal with |- context [if ?c <? 2048 then _ else _] => assert ((c <? 2048) = true) as -> by lia end.
    f_equal; [lia|f_equal; lia]. }
  destruct ((224 <=? b0) && (b0 <=? 239)) eqn:E2.
  { destruct s as [|b1 [|b2 s]]; try (inversion Hd; subst; discriminate).
    match type of Hd with (if ?c then _ else _) = _ => destruct c eqn:F end; [|inversion Hd; subst; discriminate].
    inversion Hd; subst. cbn [firstn]. unfold encode_rune, in_rng, rune_error.
    assert (G : (b0 = 224 -> 160 <= b1) /\ 128 <= b1 /\ (b0 = 237 -> b1 <= 159) /\ b1 <= 191 /\ 128 <= b2 <= 191).
    { destruct (b0 =? 224) eqn:?; destruct (b0 =? 237) eqn:?; lia. }
    clear F.
    match goal with |- context [if ?c then 65533 else ?x] => assert (c = false) as -> by (lia) end.
    match goal with |- context [if ?c <? 128 then _ else _] => assert ((c <? 128) = false) as -> by (lia) end.
    match goal with |- context [if ?c <? 2048 then _ else _] => assert ((c <? 2048) = false) as -> by (lia) end.
    match goal with |- context [if ?c <? 65536 then _ else _] => assert ((c <? 65536) = true) as -> by lia end.
    f_equal; [lia|f_equal; [lia|f_equal; lia]]. }
  destruct ((240 <=? b0) && (b0 <=? 244)) eqn:E3.
  { destruct s as [|b1 [|b2 [|b3 s]]]; try (inversion Hd; subst; discriminate).
    match type of Hd with (if ?c then _ else _) = _ => destruct c eqn:F end; [|inversion Hd; subst; discriminate].
    inversion Hd; subst. cbn [firstn]. unfold encode_rune, in_rng, rune_error.
    assert (G : (b0 = 240 -> 144 <= b1) /\ 128 <= b1 /\ (b0 = 244 -> b1 <= 143) /\ b1 <= 191 /\ 128 <= b2 <= 191 /\ 128 <= b3 <= 191).
    { destruct (b0 =? 240) eqn:?; destruct (b0 =? 244) eqn:?; lia. }
    clear F.
    match goal with |- context [if ?c then 65533 else ?x] => assert (c = false) as -> by (lia) end.
    match goal with |- context [if ?c <? 128 then _ else _] => assert ((c <? 128) = false) as -> by (lia) end.
    match goal with |- context [if ?c <? 2048 then _ else _] => assert ((c <? 2048) = false) as -> by (lia) end.
    match goal with |- context [if ?c <? 65536 then _ else _] => assert ((c <? 65536) = false) as -> by (lia) end.
    f_equal; [lia|f_equal; [lia|f_equal; [lia|f_equal; lia]]]. }
  inversion Hd; subst. discriminate.
Qed.
