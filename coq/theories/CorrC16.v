(* CorrC16.v — correspondence checker for C16: evaluates the Parser.v model on the texts the
   Go harness gave to Coraza and compares with what Coraza compiled (or that it refused). *)
From Coq Require Import String.
From Verif Require Import Base Parser.
Open Scope N_scope.

(* what the implementation did with a configuration text *)
Inductive obs :=
  | ObsOk (ds : list dump)   (* FromString returned nil; the rules of the WAF, dumped *)
  | ObsSyntax                (* an error of the text layer / id check (modelled) *)
  | ObsExt.                  (* an error of a layer outside the model (regexp compile, operator
                                 or action Init): nothing is compared *)

Inductive vobs := VOk (vs : list vdump) | VSyntax | VExt.

Inductive case :=
  (* FromString on [text] with the files reachable through Include *)
  | CText (files : list (bytes * bytes)) (text : bytes) (o : obs)
  (* several FromString / FromFile calls on one Parser *)
  | CSession (files : list (bytes * bytes)) (steps : list pstep) (o : obs)
  (* a structured description, the variation used, the logical line the harness rendered,
     and what the line compiled to *)
  | CDesc (d : rule_desc) (mask : list bool) (v : rvar) (line : bytes) (o : obs)
  (* a text together with the description it is meant to denote (witnesses of listed findings) *)
  | CIntent (d : rule_desc) (text : bytes) (o : obs)
  (* direct calls of the scanners *)
  | CActions (s : bytes) (r : option (list action))
  | CSplit (s : bytes) (r : option (bytes * bytes * bytes))
  | CCut (s : bytes) (r : option (bytes * bytes))
  | CVars (s : bytes) (r : vobs)
  | COp (s : bytes) (known : bool) (r : option (bytes * bool * bytes))
  (* the tables *)
  | CVarName (name : bytes) (r : option (bytes * bool))
  | CActName (name : bytes) (r : option N).

Definition opt_eqb {A} (f : A -> A -> bool) (a b : option A) : bool :=
  match a, b with
  | Some x, Some y => f x y
  | None, None => true
  | _, _ => false
  end.
Fixpoint list_eqb {A} (f : A -> A -> bool) (a b : list A) : bool :=
  match a, b with
  | [], [] => true
  | x :: a', y :: b' => f x y && list_eqb f a' b'
  | _, _ => false
  end.
Definition pair_eqb {A B} (f : A -> A -> bool) (g : B -> B -> bool) (a b : A * B) : bool :=
  f (fst a) (fst b) && g (snd a) (snd b).

Definition exc_eqb := pair_eqb bytes_eqb (opt_eqb bytes_eqb).
Definition vdump_eqb (a b : vdump) : bool :=
  bytes_eqb (vd_name a) (vd_name b) && Bool.eqb (vd_count a) (vd_count b)
  && bytes_eqb (vd_keystr a) (vd_keystr b) && opt_eqb bytes_eqb (vd_rx a) (vd_rx b)
  && list_eqb exc_eqb (vd_exc a) (vd_exc b).
Definition opd_eqb (a b : bytes * bool * bytes) : bool :=
  let '(f1, n1, d1) := a in let '(f2, n2, d2) := b in
  bytes_eqb f1 f2 && Bool.eqb n1 n2 && bytes_eqb d1 d2.
Definition dump_eqb (a b : dump) : bool :=
  list_eqb vdump_eqb (du_vars a) (du_vars b) && opt_eqb opd_eqb (du_op a) (du_op b)
  && list_eqb bytes_eqb (du_actions a) (du_actions b)
  && (du_id a =? du_id b) && (du_phase a =? du_phase b)
  && opt_eqb bytes_eqb (du_msg a) (du_msg b) && opt_eqb bytes_eqb (du_logdata a) (du_logdata b)
  && list_eqb bytes_eqb (du_tags a) (du_tags b) && bytes_eqb (du_rev a) (du_rev b)
  && bytes_eqb (du_ver a) (du_ver b) && opt_eqb bytes_eqb (du_data a) (du_data b).
Definition action_eqb (a b : action) : bool :=
  bytes_eqb (a_name a) (a_name b) && bytes_eqb (a_value a) (a_value b) && (a_type a =? a_type b).

Definition key_eqb (a b : key_kind) : bool :=
  match a, b with
  | KNone, KNone => true
  | KStr x, KStr y => bytes_eqb x y
  | KRx x, KRx y => bytes_eqb x y
  | _, _ => false
  end.
Definition target_eqb (a b : target) : bool :=
  Bool.eqb (t_neg a) (t_neg b) && Bool.eqb (t_count a) (t_count b)
  && bytes_eqb (t_var a) (t_var b) && key_eqb (t_key a) (t_key b).
Definition opdesc_eqb (a b : opdesc) : bool :=
  bytes_eqb (o_fn a) (o_fn b) && bytes_eqb (o_name a) (o_name b)
  && Bool.eqb (o_neg a) (o_neg b) && bytes_eqb (o_arg a) (o_arg b).
Definition rule_eqb (a b : rule_desc) : bool :=
  list_eqb target_eqb (r_targets a) (r_targets b) && opt_eqb opdesc_eqb (r_op a) (r_op b)
  && list_eqb action_eqb (r_actions a) (r_actions b).

Definition obs_matches (m : option (list dump)) (o : obs) : bool :=
  match o with
  | ObsOk ds => opt_eqb (list_eqb dump_eqb) m (Some ds)
  | ObsSyntax => match m with None => true | Some _ => false end
  | ObsExt => true
  end.

Definition ok (c : case) : bool :=
  match c with
  | CText files text o => obs_matches (compile_config files text) o
  | CSession files steps o => obs_matches (compile_session files steps) o
  | CDesc d mask v line o =>
    wf_desc d && wf_rvar v d
    && bytes_eqb (render_line mask v d) line
    && opt_eqb (list_eqb rule_eqb) (parse_config [] line) (Some [d])
    && obs_matches (compile_rules [] [([], d)] []) o
    && obs_matches (compile_config [] line) o
  | CIntent d text o => obs_matches (compile_rules [] [([], d)] []) o && obs_matches (compile_config [] text) o
  | CActions s r => opt_eqb (list_eqb action_eqb) (parse_actions s) r
  | CSplit s r =>
    opt_eqb (fun a b => let '(v1, o1, a1) := a in let '(v2, o2, a2) := b in
                        bytes_eqb v1 v2 && bytes_eqb o1 o2 && bytes_eqb a1 a2)
            (parse_action_operator s) r
  | CCut s r => opt_eqb (pair_eqb bytes_eqb bytes_eqb) (cut_quoted_string s) r
  | CVars s r =>
    match r with
    | VOk vs => opt_eqb (list_eqb vdump_eqb)
                        (option_map (fun cs => compile_targets (map target_of_call cs)) (parse_variables s))
                        (Some vs)
    | VSyntax => match parse_variables s with None => true | Some _ => false end
    | VExt => true
    end
  | COp s known r =>
    match parse_operator s with
    | None => negb known
    | Some o => known && match r with
                         | Some x => opd_eqb (o_fn o, o_neg o, o_arg o) x
                         | None => true   (* the operator's own Init refused its argument *)
                         end
    end
  | CVarName name r => opt_eqb (pair_eqb bytes_eqb Bool.eqb) (lookup_variable name) r
  | CActName name r => opt_eqb N.eqb (lookup_action name) r
  end.

Definition mismatches (l : list case) : list nat := mismatches_of ok l.
