From Coq Require Import List NArith Lia Bool Arith.
Import ListNotations.
Definition bytes := list N.
Inductive re :=
| Lit (l : bytes)
| Atom (p : N -> bool)          (* one byte-ish atom; real model: 1..4 bytes *)
| BeginText | EndText
| Cat (a b : re) | Alt (a b : re) | Star (a : re) | Plus (a : re) | Quest (a : re) | Cap (a : re).

Fixpoint prefix_at (l w : bytes) (i : nat) : bool :=
  match l with
  | [] => true
  | c :: l' => match nth_error w i with Some d => N.eqb c d && prefix_at l' w (S i) | None => false end
  end.

Definition flat_map_nodup (f : nat -> list nat) (l : list nat) : list nat := nodup Nat.eq_dec (flat_map f l).

Fixpoint iter (n : nat) (f : list nat -> list nat) (acc : list nat) : list nat :=
  match n with O => acc | S n' => iter n' f (nodup Nat.eq_dec (acc ++ f acc)) end.

Fixpoint ends (r : re) (w : bytes) (i : nat) : list nat :=
  match r with
  | Lit l => if prefix_at l w i then [i + length l] else []
  | Atom p => match nth_error w i with Some c => if p c then [S i] else [] | None => [] end
  | BeginText => if Nat.eqb i 0 then [i] else []
  | EndText => if Nat.eqb i (length w) then [i] else []
  | Cat a b => flat_map_nodup (ends b w) (ends a w i)
  | Alt a b => nodup Nat.eq_dec (ends a w i ++ ends b w i)
  | Star a => iter (S (length w)) (fun acc => flat_map (ends a w) acc) [i]
  | Plus a => iter (S (length w)) (fun acc => flat_map (ends a w) acc) (ends a w i)
  | Quest a => nodup Nat.eq_dec (i :: ends a w i)
  | Cap a => ends a w i
  end.

Fixpoint min_len (r : re) : nat :=
  match r with
  | Lit l => length l
  | Atom _ => 1
  | BeginText | EndText => 0
  | Cat a b => min_len a + min_len b
  | Alt a b => Nat.min (min_len a) (min_len b)
  | Star _ | Quest _ => 0
  | Plus a => min_len a
  | Cap a => min_len a
  end.

Lemma iter_inv (P : nat -> Prop) f n : forall acc,
  (forall acc', (forall x, In x acc' -> P x) -> forall x, In x (f acc') -> P x) ->
  (forall x, In x acc -> P x) -> forall x, In x (iter n f acc) -> P x.
Proof.
  induction n as [|n IH]; intros acc Hf Hacc x Hx; simpl in Hx; [auto|].
  eapply IH; [exact Hf | | exact Hx].
  intros y Hy. apply nodup_In in Hy. apply in_app_or in Hy. destruct Hy as [Hy|Hy]; [auto|].
  eapply Hf; eauto.
Qed.

Theorem min_len_sound r w : forall i j, In j (ends r w i) -> i + min_len r <= j.
Proof.
  induction r as [l|p| | |a IHa b IHb|a IHa b IHb|a IHa|a IHa|a IHa|a IHa]; intros i j H; cbn [ends min_len] in *.
  - destruct (prefix_at l w i); [destruct H as [<-|[]]; lia | contradiction].
  - destruct (nth_error w i) as [c|]; [destruct (p c)|]; try contradiction. destruct H as [<-|[]]. lia.
  - destruct (Nat.eqb i 0); [destruct H as [<-|[]]; lia|contradiction].
  - destruct (Nat.eqb i (length w)); [destruct H as [<-|[]]; lia|contradiction].
  - unfold flat_map_nodup in H. apply nodup_In in H. apply in_flat_map in H. destruct H as [k [Hk Hj]].
    apply IHa in Hk. apply IHb in Hj. lia.
  - apply nodup_In in H. apply in_app_or in H. destruct H as [H|H]; [apply IHa in H|apply IHb in H]; lia.
  - revert H. apply (iter_inv (fun x => i + 0 <= x)).
    + intros acc' Hacc x Hx. apply in_flat_map in Hx. destruct Hx as [k [Hk Hx]]. apply IHa in Hx. specialize (Hacc _ Hk). lia.
    + intros x [<-|[]]. lia.
  - revert H. apply (iter_inv (fun x => i + min_len a <= x)).
    + intros acc' Hacc x Hx. apply in_flat_map in Hx. destruct Hx as [k [Hk Hx]]. apply IHa in Hx. specialize (Hacc _ Hk). lia.
    + intros x Hx. apply IHa in Hx. lia.
  - apply nodup_In in H. destruct H as [<-|H]; [lia|]. apply IHa in H. lia.
  - auto.
Qed.
Print Assumptions min_len_sound.
Eval vm_compute in ends (Cat (Star (Atom (fun _ => true))) (Lit [102;111;111]%N)) [120;102;111;111]%N 0.
