(* Props/C02.v — the property theorems of C02 and nothing else. *)
From Verif Require Import Base TxPhase TxPhaseProofs.

Theorem C02_interrupt_keeps : forall s i j, st_intr s = Some i -> st_intr (tp_interrupt s j) = Some i.
Proof. exact interrupt_keeps. Qed.
Print Assumptions C02_interrupt_keeps.
