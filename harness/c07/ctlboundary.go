package c07

import (
	"fmt"
	"strings"
)

// "ctl-boundary": for every ctl option a table of BOUNDARY values derived from the configured
// state, each in rules that always match (SecAction in phase 1, an unconditional SecRule in
// phase 5), under several SecAuditLogParts / SecAuditEngine / format settings, driven in order
// through all phases including ProcessLogging.

const optionalParts = "BCDEFGHIJK"

func minus(all, drop string) string {
	var sb strings.Builder
	for i := 0; i < len(all); i++ {
		if strings.IndexByte(drop, all[i]) < 0 {
			sb.WriteByte(all[i])
		}
	}
	return sb.String()
}

func auditPartsValues(configured string) []string {
	enabled := minus(minus(configured, "A"), "Z") // optional parts enabled by the configuration
	if configured == "" {
		enabled = "BCFH" // the built-in default ABCFHZ
	}
	disabled := minus(optionalParts, enabled)
	vals := []string{"+" + optionalParts, "-" + optionalParts, "-" + enabled, "+" + enabled, "-" + disabled, "+" + disabled,
		"+A", "-A", "+Z", "-Z", "+AZ", "-AZ", "", "+", "-", "AZ", "ABCFHZ", "ABCDEFGHIJKZ", "A", "Z", "ZA", "-BCFH", "-B-C", "+E,-E", "az", "-b", "+X", "-X", "AKKZ", "A Z"}
	for i := 0; i < len(optionalParts); i++ {
		vals = append(vals, "+"+optionalParts[i:i+1], "-"+optionalParts[i:i+1])
	}
	if len(enabled) > 1 {
		vals = append(vals, "-"+enabled[:len(enabled)-1], "-"+enabled[1:]) // all but one
	}
	return vals
}

var ctlBoundary = map[string][]string{
	"requestBodyLimit":          {"0", "1", "-1", "-9223372036854775808", "9223372036854775807", "6", "7", "8", "9223372036854775808", "", "x", " 7", "+7", "07", "7.0"},
	"responseBodyLimit":         {"0", "1", "-1", "-9223372036854775808", "9223372036854775807", "4", "5", "6", "9223372036854775808", "", "x"},
	"ruleEngine":                {"On", "on", "ON", "Off", "off", "DetectionOnly", "detectiononly", "DETECTIONONLY", "RelevantOnly", "", "x", "1", "true", " On"},
	"auditEngine":               {"On", "on", "Off", "RelevantOnly", "relevantonly", "DetectionOnly", "", "x", "1"},
	"requestBodyAccess":         {"On", "on", "Off", "off", "", "x", "1", "DetectionOnly"},
	"responseBodyAccess":        {"On", "on", "Off", "off", "", "x", "1"},
	"forceRequestBodyVariable":  {"On", "on", "Off", "", "x"},
	"forceResponseBodyVariable": {"On", "on", "Off", "", "x"},
	"requestBodyProcessor":      {"JSON", "XML", "URLENCODED", "MULTIPART", "RAW", "json", "", "nosuch", "%{tx.a}"},
	"responseBodyProcessor":     {"JSON", "XML", "URLENCODED", "MULTIPART", "RAW", "json", "", "nosuch"},
	"ruleRemoveById": {"0", "1", "2", "-1", "2-1", "1-2", "0-0", "99999999999999999999", "1-99999999999999999999", "-", "1-", "-1-2", "a-b", " 1", "1 2", "1,2",
		"9223372036854775807", "1-9223372036854775807", "2-2", ""},
	"ruleRemoveByMsg": {"m 1", "", "nosuch", "%{tx.a}"},
	"ruleRemoveByTag": {"t1", "", "nosuch", "T1"},
	"ruleRemoveTargetById": {"2;", "2;ARGS", "2;ARGS:", "2;:a", "2;nosuch:a", "2;ARGS:/(/", "0;ARGS:a", "x;ARGS", "1-2;ARGS:a", "2-1;ARGS:a", "2;ARGS:a:b", "2;XML:/*",
		"2;ARGS;ARGS", ";ARGS:a", "2", "", "2;ARGS:/a/", "2;ARGS://", "2;ARGS:/", "2;REQUEST_HEADERS:", "2;args:A", "99999999999999999999;ARGS", "2;REQUEST_URI", "2;REQUEST_URI:x", "2;TX", "2;JSON:a"},
	"ruleRemoveTargetByTag": {"t1;ARGS:a", "t1;", "t1", ";ARGS", "nosuch;ARGS", "t1;ARGS:/(/", "t1;nosuch", "t1;REQUEST_URI", "t1;ARGS:/a/"},
	"ruleRemoveTargetByMsg": {"m 1;ARGS:a", "m 1;", "m 1", ";ARGS", "nosuch;ARGS", "m 1;ARGS:/(/", "m 1;nosuch"},
	"debugLogLevel":         {"0", "1", "9", "10", "-1", "x", "", "99999999999"},
	"hashEngine":            {"On", "", "x"},
	"hashEnforcement":       {"On", "", "x"},
	"nosuchoption":          {"On", ""},
}

func ctlScript(earlyBody bool) []step {
	st := []step{{Op: "conn", A: "1.2.3.4", B: "5.6.7.8", N: 1}, {Op: "uri", A: "/x?a=1&A=2", B: "POST"}, {Op: "reqh", A: "Host", B: "h"},
		{Op: "reqh", A: "Content-Type", B: "application/x-www-form-urlencoded"}, {Op: "p1"}, {Op: "reqbody", A: "a=1&b=2"}, {Op: "reqbody", A: "&c=3"}, {Op: "p2"},
		{Op: "resh", A: "Content-Type", B: "text/plain"}, {Op: "p3", N: 200}, {Op: "resbody", A: "hello"}, {Op: "resbody", A: " world"}, {Op: "p4"}, {Op: "p5"}, {Op: "query"}}
	if earlyBody {
		st = append([]step{{Op: "reqbody", A: "early7!"}, {Op: "resbody", A: "earl5"}}, st...)
	}
	return st
}

// ctlScriptFrom: the same, with the bodies handed over through ReadRequestBodyFrom /
// ReadResponseBodyFrom (readers with a Len method)
func ctlScriptFrom(earlyBody bool) []step {
	st := ctlScript(earlyBody)
	for i := range st {
		switch {
		case st[i].Op == "reqbody" && st[i].A != "early7!":
			st[i].Op = "reqbodyfrom"
		case st[i].Op == "resbody" && st[i].A != "earl5":
			st[i].Op = "resbodyfrom"
		}
	}
	return st
}

func (r *runner) generateCtlBoundary() {
	partsSettings := []string{"", "ABCFHZ", "AZ", "ABIJDEFHZ", "ABCDEFGHIJKZ", "AHZ"}
	engines := []string{"On", "RelevantOnly", "Off"}
	formats := []string{"JSON", "Native", "ocsf", "jsonlegacy"}
	k := 0
	mk := func(parts, ctl string, phase int) string {
		k++
		var sb strings.Builder
		sb.WriteString(header)
		fmt.Fprintf(&sb, "SecAuditEngine %s\nSecAuditLog @TMP@/audit.log\nSecAuditLogType Serial\nSecAuditLogFormat %s\n", engines[k%len(engines)], formats[k%len(formats)])
		if parts != "" {
			fmt.Fprintf(&sb, "SecAuditLogParts %s\n", parts)
		}
		fmt.Fprintf(&sb, "SecRequestBodyLimitAction %s\nSecResponseBodyLimitAction %s\n", []string{"ProcessPartial", "Reject"}[k%2], []string{"ProcessPartial", "Reject"}[(k/2)%2])
		fmt.Fprintf(&sb, "SecAction \"id:1,phase:%d,pass,log,auditlog,setvar:tx.a=1,ctl:%s\"\n", phase, ctl)
		sb.WriteString("SecRule ARGS|REQUEST_URI \"@rx .\" \"id:2,phase:2,pass,log,auditlog,tag:'t1',msg:'m 1'\"\n")
		fmt.Fprintf(&sb, "SecRule REQUEST_URI \"@unconditionalMatch\" \"id:3,phase:5,pass,ctl:%s\"\n", ctl)
		return sb.String()
	}
	// auditLogParts: every boundary value under every parts setting
	for _, parts := range partsSettings {
		for i, v := range auditPartsValues(parts) {
			r.conf("ctl-boundary", mk(parts, "auditLogParts="+v, 1+i%4), ctlScript(false))
		}
		// one letter at a time until nothing optional is left
		enabled := minus(minus(parts, "A"), "Z")
		if parts == "" {
			enabled = "BCFH"
		}
		var sb strings.Builder
		sb.WriteString(header + "SecAuditEngine On\nSecAuditLog @TMP@/audit.log\nSecAuditLogType Serial\n")
		if parts != "" {
			sb.WriteString("SecAuditLogParts " + parts + "\n")
		}
		for i := 0; i < len(enabled); i++ {
			fmt.Fprintf(&sb, "SecAction \"id:%d,phase:1,pass,log,auditlog,ctl:auditLogParts=-%s\"\n", 10+i, enabled[i:i+1])
		}
		sb.WriteString("SecAction \"id:90,phase:2,pass,log,auditlog,ctl:auditLogParts=+E\"\n")
		r.conf("ctl-boundary", sb.String(), ctlScript(false))
	}
	// every other ctl option x its boundary values
	for _, cn := range ctlNames {
		vals, ok := ctlBoundary[cn]
		if !ok {
			continue
		}
		for i, v := range vals {
			parts := partsSettings[i%len(partsSettings)]
			r.conf("ctl-boundary", mk(parts, cn+"="+v, 1), ctlScript(strings.HasSuffix(cn, "BodyLimit")))
			if strings.HasSuffix(cn, "BodyLimit") || strings.HasSuffix(cn, "Processor") || strings.HasSuffix(cn, "Access") {
				r.conf("ctl-boundary", mk(parts, cn+"="+v, 1+i%3), ctlScript(false))
				r.conf("ctl-boundary", mk(parts, cn+"="+v, 1), ctlScriptFrom(strings.HasSuffix(cn, "BodyLimit")))
				r.conf("ctl-boundary", mk(parts, cn+"="+v, 1+i%3), ctlScriptFrom(false))
			}
		}
	}
}
