(* Props/C18.v — the property theorems of C18 and nothing else.
   C18: the net/http middleware blocks completely and otherwise passes traffic through intact.
   All statements are about Http.wrap_handler (the function CorrC18.ok evaluates), quantified over
   every configuration and rule oracle (cfg), every request body, every list of handler
   operations; sk = true is net/http's ResponseWriter, sk = false httptest.ResponseRecorder. *)
From Verif Require Import Base Http HttpProofs.

(* a request interrupted in phase 1 / 2 (or rejected by the body limit) never reaches the handler;
   the writer only gets WriteHeader(status of the interruption, 403 for a deny without status) *)
Theorem C18_request_block : forall cfg sk body ops it,
  c_engine cfg <> EOff ->
  mw_request cfg body = RBlocked it ->
  let r := wrap_handler cfg sk body ops in
  r_invoked r = false /\ r_read r = [] /\ r_intr r = Some it /\
  cl_body (client_of sk (r_ds r)) = [] /\
  d_trace (r_ds r) = [DHeader (status_of it 200) []] /\
  (is_info (status_of it 200) = false -> cl_status (client_of sk (r_ds r)) = status_of it 200).
Proof. exact request_block_holds. Qed.
Print Assumptions C18_request_block.

(* exactly when: a phase-1 rule, the body limit with Reject (at or above the limit), or a phase-2
   rule on the buffered prefix *)
Theorem C18_request_block_iff : forall cfg body,
  (exists it, mw_request cfg body = RBlocked it) <->
  (rule_intr cfg (c_ph1 cfg) <> None \/
   (c_req_access cfg = true /\ c_req_limit cfg <= blen body /\ eff_action cfg (c_req_action cfg) = Reject) \/
   rule_intr cfg (c_ph2 cfg (if c_req_access cfg then takeN (c_req_limit cfg) body else [])) <> None).
Proof. exact request_blocked_iff. Qed.
Print Assumptions C18_request_block_iff.

(* a response that ends interrupted (phase 3, phase 4, response limit with Reject) delivers no body
   byte, over every writer, whatever the handler wrote or flushed before and after *)
Theorem C18_response_block : forall cfg sk body ops,
  let r := wrap_handler cfg sk body ops in
  r_invoked r = true -> r_intr r <> None -> cl_body (client_of sk (r_ds r)) = [].
Proof. exact response_block_wrap. Qed.
Print Assumptions C18_response_block.

(* (partial: guards no_late_headers, no_status_after_info, no_own_cl; HttpProofs.passthrough_guard_example
   is a non-trivial instance; the excluded shapes are the _refuted witnesses below)
   nothing interrupts: the client receives what the bare handler's client receives (status,
   headers, body, 1xx responses) and the handler reads what the bare handler reads - for handlers
   that set no header after the first WriteHeader/Write/Flush, send no status after a 1xx, and
   declare no Content-Length of their own *)
Theorem C18_passthrough_partial : forall cfg sk body ops,
  no_late_headers ops = true -> no_status_after_info ops = true -> no_own_cl ops = true ->
  let r := wrap_handler cfg sk body ops in
  r_intr r = None ->
  r_invoked r = true /\
  r_read r = r_read (bare_handler sk body ops) /\
  client_of sk (r_ds r) = client_of sk (r_ds (bare_handler sk body ops)).
Proof. exact passthrough_holds. Qed.
Print Assumptions C18_passthrough_partial.

(* the same, spelled out: the handler's status (implicit 200), its headers, the concatenation of
   its writes (unless the status carries no body), for every chunking, flush pattern and limit *)
Theorem C18_passthrough_spec_partial : forall cfg sk body ops,
  no_late_headers ops = true -> no_status_after_info ops = true -> no_own_cl ops = true ->
  let r := wrap_handler cfg sk body ops in
  r_intr r = None ->
  let c := client_of sk (r_ds r) in
  r_invoked r = true /\ r_read r = h_read (run_hst ops body) /\
  cl_status c = handler_status sk ops /\ cl_headers c = handler_headers ops /\
  cl_body c = (if okb sk (handler_status sk ops) then written ops else []).
Proof. exact passthrough_spec. Qed.
Print Assumptions C18_passthrough_spec_partial.

(* the handler's req.Body yields the client's body: what it reads is a prefix, ReadAll gets all of
   it - for every body size relative to the limit, both limit actions, access on or off *)
Theorem C18_handler_reads_body : forall cfg sk body ops,
  let r := wrap_handler cfg sk body ops in
  r_invoked r = true ->
  r_read r = h_read (run_hst ops body) /\
  (exists rest, r_read r ++ rest = body) /\
  (In HReadAll ops -> r_read r = body).
Proof. exact handler_reads_body_holds. Qed.
Print Assumptions C18_handler_reads_body.

(* ---- expectations of the property's text the code does not meet (witnesses) ---- *)

(* F28a c18-request-redirect-drop-status *)
Theorem C18_request_redirect_refuted : exists cfg body ops it,
  mw_request cfg body = RBlocked it /\ in_act it = ARedirect /\ in_status it = 302 /\
  cl_status (client_of true (r_ds (wrap_handler cfg true body ops))) = 200.
Proof. exact request_redirect_refuted. Qed.
Print Assumptions C18_request_redirect_refuted.

(* F28b c18-informational-status *)
Theorem C18_informational_status_refuted : exists cfg body ops,
  r_intr (wrap_handler cfg true body ops) = None /\
  cl_status (client_of true (r_ds (bare_handler true body ops))) = 404 /\
  cl_status (client_of true (r_ds (wrap_handler cfg true body ops))) = 200.
Proof. exact informational_status_refuted. Qed.
Print Assumptions C18_informational_status_refuted.

(* F53 c18-late-header-visible: pass-through without the no_late_headers guard fails *)
Theorem C18_late_header_refuted : exists cfg body ops k,
  r_intr (wrap_handler cfg true body ops) = None /\
  h_get k (cl_headers (client_of true (r_ds (bare_handler true body ops)))) = [] /\
  h_get k (cl_headers (client_of true (r_ds (wrap_handler cfg true body ops)))) <> [].
Proof. exact late_header_refuted. Qed.
Print Assumptions C18_late_header_refuted.
