(* CaseMap.v — t:lowercase / t:uppercase on arbitrary byte strings: Go's strings.ToLower / ToUpper,
   i.e. strings.Map(unicode.ToLower, s): decode rune by rune (an invalid byte decodes to U+FFFD, width 1),
   map the rune through the simple case mapping, re-encode.  The case mapping itself is data: a list of
   ranges (lo, hi, stride, image of lo) regenerated from Go's unicode package by verif-facts on every run
   (gen/FactsC14.v); everything here is parametric in that table.
   Transform.t_lowercase / t_uppercase (the ASCII model used by apply_t) are shown to be the restriction
   of this model to all-ASCII input (t_case_ascii). *)
From Verif Require Import Base Utf8 Transform.
Open Scope N_scope.

Definition case_range := (N * N * N * N)%type.   (* lo, hi, stride, image of lo: r |-> image + (r - lo) *)

Fixpoint map_rune (tbl : list case_range) (r : N) : N :=
  match tbl with
  | [] => r
  | (lo, hi, st, tg) :: rest =>
    if r <? lo then r   (* the table is sorted by lo (checked on the generated table): no later range applies *)
    else if (r <=? hi) && ((r - lo) mod st =? 0) then tg + (r - lo) else map_rune rest r
  end.

(* the same mapping without the early exit: first range that contains r *)
Fixpoint map_rune_full (tbl : list case_range) (r : N) : N :=
  match tbl with
  | [] => r
  | (lo, hi, st, tg) :: rest =>
    if (lo <=? r) && (r <=? hi) && ((r - lo) mod st =? 0) then tg + (r - lo) else map_rune_full rest r
  end.

(* ranges are well-formed, disjoint and ascending (checked by computation on the generated table) *)
Fixpoint tbl_sorted_from (prev : N) (tbl : list case_range) : bool :=
  match tbl with
  | [] => true
  | (lo, hi, st, _) :: rest => (prev <? lo) && (lo <=? hi) && (0 <? st) && tbl_sorted_from hi rest
  end.
Definition tbl_sorted (tbl : list case_range) : bool :=
  match tbl with
  | [] => true
  | (lo, hi, st, _) :: rest => (lo <=? hi) && (0 <? st) && tbl_sorted_from hi rest
  end.

Fixpoint utf8_map_fuel (f : N -> N) (fuel : nat) (s : bytes) : bytes :=
  match fuel with
  | O => []
  | S k =>
    match s with
    | [] => []
    | _ => let '(r, w) := decode_rune s in encode_rune (f r) ++ utf8_map_fuel f k (skipn w s)
    end
  end.
Definition utf8_map (f : N -> N) (s : bytes) : bytes := utf8_map_fuel f (length s) s.

Definition t_case (tbl : list case_range) (s : bytes) : tres :=
  let o := utf8_map (map_rune tbl) s in ok_res o (negb (bytes_eqb s o)).

(* the table agrees with an ASCII byte map on 0..127 (checked by computation on the generated table) *)
Definition tbl_ascii_ok (f : N -> N) (tbl : list case_range) : bool :=
  forallb (fun c => map_rune tbl c =? f c) (map N.of_nat (seq 0 128)).

Definition all_ascii (s : bytes) : bool := forallb (fun c => c <? 128) s.

(* valid UTF-8: every decoding step is a genuine rune (never the width-1 replacement of a bad byte) *)
Fixpoint valid_utf8_fuel (fuel : nat) (s : bytes) : bool :=
  match fuel with
  | O => match s with [] => true | _ => false end
  | S k =>
    match s with
    | [] => true
    | b0 :: _ => let '(r, w) := decode_rune s in
                 ((b0 <? 128) || Nat.ltb 1 w) && valid_utf8_fuel k (skipn w s)
    end
  end.
Definition valid_utf8 (s : bytes) : bool := valid_utf8_fuel (length s) s.

(* ---- the transformation registry with the Unicode case maps plugged in ----
   apply_tu lo up = apply_t except that lowercase / uppercase go through the regenerated tables.
   The chain / multiMatch loops are those of Transform.v, generic in the apply function. *)
Definition apply_tu (lo up : list case_range) (t : tid) : bytes -> tres :=
  match t with
  | TLowercase => t_case lo
  | TUppercase => t_case up
  | _ => apply_t t
  end.

Section Generic.
  Variable ap : tid -> bytes -> tres.
  Fixpoint exec_tfs_g (ts : list tid) (s : bytes) : bytes * nat :=
    match ts with
    | [] => (s, 0%nat)
    | t :: r => let x := ap t s in
                if t_err x then let '(o, n) := exec_tfs_g r s in (o, S n)
                else exec_tfs_g r (t_out x)
    end.
  Fixpoint exec_tfs_multi_g (ts : list tid) (s : bytes) : list bytes :=
    match ts with
    | [] => []
    | t :: r => let x := ap t s in
                if t_err x then exec_tfs_multi_g r s
                else if t_changed x then t_out x :: exec_tfs_multi_g r (t_out x)
                else exec_tfs_multi_g r s
    end.
  Definition multimatch_values_g (ts : list tid) (s : bytes) : list bytes := s :: exec_tfs_multi_g ts s.
  Fixpoint chain_values_g (ts : list tid) (s : bytes) : list bytes :=
    match ts with
    | [] => []
    | t :: r => let x := ap t s in
                let v := if t_err x then s else t_out x in v :: chain_values_g r v
    end.
End Generic.
