// Package c03 drives the correspondence for C03 (every piece of request data is visible to
// rules, decoded once, never dropped): lists of (name, value) byte pairs are encoded by an
// independent encoder into a query string, a Cookie header, a header set, urlencoded and JSON
// bodies and fed to the real Transaction API; what the rule variables expose (FindAll of the
// collections, and what "@unconditionalMatch" rules report through MatchedDatas) is compared
// with the Gallina model of Decode.v evaluated on the same raw bytes, and with the original list
// (the property's own oracle: the round trip). Multipart and XML are covered by the round-trip
// oracle only (mime/multipart and encoding/xml are not modelled).
package c03

import (
	"bytes"
	"encoding/hex"
	"encoding/json"
	"fmt"
	"math/rand"
	"mime/multipart"
	"net/textproto"
	"net/url"
	"os"
	"sort"
	"strconv"
	"strings"

	coraza "github.com/corazawaf/coraza/v3"
	"github.com/corazawaf/coraza/v3/collection"
	"github.com/corazawaf/coraza/v3/experimental/plugins/plugintypes"
	"github.com/corazawaf/coraza/v3/internal/cookies"
	urlutil "github.com/corazawaf/coraza/v3/internal/url"
	"github.com/corazawaf/coraza/v3/types"
	"github.com/corazawaf/coraza/v3/verifharness/vh"
)

func init() { vh.Register("C03", Run) }

const (
	keyOverLimit = "c03-args-over-limit-silent"
	keyJSONColl  = "c03-json-key-collision"
)

// ---------------------------------------------------------------------------------------
// case description (JSON, also the replay format)
// ---------------------------------------------------------------------------------------

type jnode struct {
	T     string   `json:"t"`               // s | null | raw | arr | obj
	S     string   `json:"s,omitempty"`     // hex: string value or raw scalar text
	Items []jnode  `json:"items,omitempty"` // arr: elements; obj: member values
	Keys  []string `json:"keys,omitempty"`  // obj: member names (hex)
}

type caseJSON struct {
	Kind    string      `json:"kind"` // parsequery | parsecookies | enc | uri | headers | body | multipart | xml
	QHex    string      `json:"q_hex,omitempty"`
	Sep     int         `json:"sep,omitempty"`
	Pairs   [][2]string `json:"pairs,omitempty"`   // enc / headers: the (name, value) list, hex
	URIHex  string      `json:"uri_hex,omitempty"` // uri
	Limit   int         `json:"limit,omitempty"`   // SecArgumentsLimit (0 = default 1000)
	Access  bool        `json:"access,omitempty"`
	Force   bool        `json:"force,omitempty"`
	Depth   int         `json:"depth,omitempty"` // SecRequestBodyJsonDepthLimit (0 = default)
	Ctl     string      `json:"ctl,omitempty"`   // ctl:requestBodyProcessor value ("" = none)
	BodyHex string      `json:"body_hex,omitempty"`
	Tree    *jnode      `json:"tree,omitempty"`
	Canon   bool        `json:"canon,omitempty"`
	Files   [][3]string `json:"files,omitempty"` // multipart: (name, filename, content) hex
	// chunked: the body (body_hex / tree) is delivered in pieces; API 0 = WriteRequestBody,
	// 1 = ReadRequestBodyFrom(reader with Len), 2 = ReadRequestBodyFrom(plain reader)
	Chunks    []chunkJSON `json:"chunks,omitempty"`
	BodyLimit int         `json:"body_limit,omitempty"` // SecRequestBodyLimit
	Reject    bool        `json:"reject,omitempty"`     // SecRequestBodyLimitAction Reject (else ProcessPartial)
	InMem     int         `json:"in_mem,omitempty"`     // SecRequestBodyInMemoryLimit (0 = default)
	// mptrunc: multipart parts in order (file when filename != ""), the body is cut after Cut bytes
	Parts   [][3]string `json:"parts,omitempty"`
	Cut     int         `json:"cut,omitempty"`
	Boundary string     `json:"boundary,omitempty"` // mpmodel: the boundary (ASCII token)
	Partial bool        `json:"partial,omitempty"` // deliver the whole body under a ProcessPartial limit = Cut
	Orig    [][2]string `json:"orig,omitempty"`  // the list the carrier was encoded from (round-trip oracle)
	Via     string      `json:"via,omitempty"`   // query | cookie | headers | urlencoded | json | jsontree
	Obs     any         `json:"obs,omitempty"`
	Finding string      `json:"finding_key,omitempty"`
}

type chunkJSON struct {
	API int    `json:"api"`
	Len int    `json:"len"`
}

type pair struct{ K, V string }

func hx(s string) string { return hex.EncodeToString([]byte(s)) }
func unhx(h string) string {
	b, _ := hex.DecodeString(h)
	return string(b)
}
func pairsHex(l []pair) [][2]string {
	o := make([][2]string, len(l))
	for i, p := range l {
		o[i] = [2]string{hx(p.K), hx(p.V)}
	}
	return o
}
func pairsUnhex(l [][2]string) []pair {
	o := make([]pair, len(l))
	for i, p := range l {
		o[i] = pair{unhx(p[0]), unhx(p[1])}
	}
	return o
}

// ---------------------------------------------------------------------------------------
// Coq printers
// ---------------------------------------------------------------------------------------

// byte strings that occur several times in one case (the URI inside REQUEST_URI_RAW, REQUEST_LINE,
// the body inside REQUEST_BODY ...) are printed once and shared through a Gallina let: the term
// denotes exactly the same value, the case file is several times smaller.
type interner struct {
	names map[string]string
	defs  []string
}

var cur = &interner{names: map[string]string{}}

func H(s string) string {
	if len(s) < 5 {
		return vh.HxS(s)
	}
	if n, ok := cur.names[s]; ok {
		return n
	}
	n := fmt.Sprintf("s%d", len(cur.defs))
	cur.names[s] = n
	cur.defs = append(cur.defs, "let "+n+" := "+vh.HxS(s)+" in ")
	return n
}
func HList(l []string) string {
	it := make([]string, len(l))
	for i, s := range l {
		it[i] = H(s)
	}
	return vh.List(it)
}

// wrap closes the current case: let-bindings in front of the constructor application
func wrap(body string) string {
	t := body
	if len(cur.defs) > 0 {
		t = "(" + strings.Join(cur.defs, "") + body + ")"
	}
	cur = &interner{names: map[string]string{}}
	return t
}

func kvTerm(p pair) string { return "(" + H(p.K) + ", " + H(p.V) + ")" }
func kvList(l []pair) string {
	it := make([]string, len(l))
	for i, p := range l {
		it[i] = kvTerm(p)
	}
	return vh.List(it)
}
func gmapTerm(m map[string][]string) string {
	keys := make([]string, 0, len(m))
	for k := range m {
		keys = append(keys, k)
	}
	sort.Strings(keys)
	it := make([]string, len(keys))
	for i, k := range keys {
		it[i] = "(" + H(k) + ", " + HList(m[k]) + ")"
	}
	return vh.List(it)
}
func (n *jnode) term() string {
	switch n.T {
	case "s":
		return "(JStr " + H(unhx(n.S)) + ")"
	case "null":
		return "JNull"
	case "raw":
		return "(JRaw " + H(unhx(n.S)) + ")"
	case "arr":
		it := make([]string, len(n.Items))
		for i := range n.Items {
			it[i] = n.Items[i].term()
		}
		return "(JArr " + vh.List(it) + ")"
	default:
		it := make([]string, len(n.Items))
		for i := range n.Items {
			it[i] = "(" + H(unhx(n.Keys[i])) + ", " + n.Items[i].term() + ")"
		}
		return "(JObj " + vh.List(it) + ")"
	}
}

// ---------------------------------------------------------------------------------------
// the INDEPENDENT encoders (mirrors of Decode.v pct_enc / enc_query / enc_cookie / enc_json)
// ---------------------------------------------------------------------------------------

func unreserved(c byte) bool {
	return c >= '0' && c <= '9' || c >= 'A' && c <= 'Z' || c >= 'a' && c <= 'z' || c == '-' || c == '.' || c == '_' || c == '~'
}

const hexUp = "0123456789ABCDEF"
const hexLo = "0123456789abcdef"

func pctCanon(s string) string {
	var b strings.Builder
	for i := 0; i < len(s); i++ {
		c := s[i]
		if unreserved(c) {
			b.WriteByte(c)
		} else {
			b.WriteByte('%')
			b.WriteByte(hexUp[c>>4])
			b.WriteByte(hexUp[c&15])
		}
	}
	return b.String()
}

// pctRand: any valid encoding of s: raw where the carrier allows it, %XX / %xx, '+' for space.
func pctRand(r *rand.Rand, s string, rawOK func(byte) bool) string {
	var b strings.Builder
	for i := 0; i < len(s); i++ {
		c := s[i]
		switch {
		case c == ' ' && r.Intn(2) == 0:
			b.WriteByte('+')
		case rawOK(c) && r.Intn(3) != 0:
			b.WriteByte(c)
		default:
			h := hexUp
			if r.Intn(2) == 0 {
				h = hexLo
			}
			b.WriteByte('%')
			b.WriteByte(h[c>>4])
			if r.Intn(2) == 0 {
				h = hexUp
			}
			b.WriteByte(h[c&15])
		}
	}
	return b.String()
}

func rawOKQuery(c byte) bool {
	return c >= 0x20 && c != 0x7f && c != '&' && c != '=' && c != '+' && c != '%' && c != '#'
}
func rawOKBody(c byte) bool { return c != '&' && c != '=' && c != '+' && c != '%' }

func encQueryCanon(l []pair) string {
	parts := make([]string, len(l))
	for i, p := range l {
		parts[i] = pctCanon(p.K) + "=" + pctCanon(p.V)
	}
	return strings.Join(parts, "&")
}
func encQueryRand(r *rand.Rand, l []pair, rawOK func(byte) bool) string {
	parts := make([]string, len(l))
	for i, p := range l {
		parts[i] = pctRand(r, p.K, rawOK) + "=" + pctRand(r, p.V, rawOK)
	}
	return strings.Join(parts, "&")
}
func encCookieCanon(l []pair) string {
	parts := make([]string, len(l))
	for i, p := range l {
		parts[i] = p.K + "=" + p.V
	}
	return strings.Join(parts, "; ")
}

func jsonStr(s string) string {
	var b strings.Builder
	b.WriteByte('"')
	for i := 0; i < len(s); i++ {
		c := s[i]
		switch {
		case c == '"':
			b.WriteString(`\"`)
		case c == '\\':
			b.WriteString(`\\`)
		case c < 0x20:
			b.WriteString(`\u00`)
			b.WriteByte(hexUp[c>>4])
			b.WriteByte(hexUp[c&15])
		default:
			b.WriteByte(c)
		}
	}
	b.WriteByte('"')
	return b.String()
}
func (n *jnode) serialise() string {
	switch n.T {
	case "s":
		return jsonStr(unhx(n.S))
	case "null":
		return "null"
	case "raw":
		return unhx(n.S)
	case "arr":
		it := make([]string, len(n.Items))
		for i := range n.Items {
			it[i] = n.Items[i].serialise()
		}
		return "[" + strings.Join(it, ",") + "]"
	default:
		it := make([]string, len(n.Items))
		for i := range n.Items {
			it[i] = jsonStr(unhx(n.Keys[i])) + ":" + n.Items[i].serialise()
		}
		return "{" + strings.Join(it, ",") + "}"
	}
}

// leaves: the specification-level flattening (path of every scalar leaf), independent of readItems
func (n *jnode) leaves(prefix string, out *[]pair) {
	switch n.T {
	case "s", "raw":
		*out = append(*out, pair{prefix, unhx(n.S)})
	case "null":
		*out = append(*out, pair{prefix, ""})
	case "arr":
		for i := range n.Items {
			n.Items[i].leaves(prefix+"."+strconv.Itoa(i), out)
		}
	default:
		for i := range n.Items {
			n.Items[i].leaves(prefix+"."+unhx(n.Keys[i]), out)
		}
	}
}

// allPaths: every key readItems can write (leaves + array length entries), for the ambiguity test
func (n *jnode) allPaths(prefix string, out *[]string) {
	switch n.T {
	case "arr":
		for i := range n.Items {
			n.Items[i].allPaths(prefix+"."+strconv.Itoa(i), out)
		}
		if len(n.Items) > 0 {
			*out = append(*out, prefix)
		}
	case "obj":
		for i := range n.Items {
			n.Items[i].allPaths(prefix+"."+unhx(n.Keys[i]), out)
		}
	default:
		*out = append(*out, prefix)
	}
}
func (n *jnode) depth() int {
	d := 0
	for i := range n.Items {
		if x := n.Items[i].depth(); x > d {
			d = x
		}
	}
	if n.T == "arr" || n.T == "obj" {
		return d + 1
	}
	return 0
}

// ---------------------------------------------------------------------------------------
// WAF / transaction plumbing
// ---------------------------------------------------------------------------------------

type wafKey struct {
	limit, depth  int
	access, force bool
	ctl           string
	bodyLimit     int  // SecRequestBodyLimit (0 = default)
	reject        bool // SecRequestBodyLimitAction Reject (else ProcessPartial) when bodyLimit > 0
	inMem         int  // SecRequestBodyInMemoryLimit (0 = default: the body limit)
}

var wafs = map[wafKey]coraza.WAF{}

// rule id => variable read back through MatchedDatas
var ruleVars = []struct {
	id int
	v  string
}{
	{101, "ARGS_GET"}, {102, "ARGS_POST"}, {103, "ARGS"}, {104, "ARGS_NAMES"}, {105, "REQUEST_COOKIES"},
	{106, "REQUEST_HEADERS"}, {107, "REQUEST_COOKIES_NAMES"}, {108, "REQUEST_HEADERS_NAMES"},
	{109, "ARGS_GET_NAMES"}, {110, "ARGS_POST_NAMES"}, {111, "FILES"}, {112, "XML:/*"}, {113, "XML://@*"},
	{114, "QUERY_STRING"}, {115, "REQUEST_URI"}, {116, "REQUEST_URI_RAW"}, {117, "REQUEST_BASENAME"},
	{118, "REQUEST_FILENAME"}, {119, "REQUEST_BODY"}, {120, "FILES_NAMES"},
}

func getWAF(k wafKey) (coraza.WAF, error) {
	if w, ok := wafs[k]; ok {
		return w, nil
	}
	var d strings.Builder
	d.WriteString("SecRuleEngine On\n")
	if k.access {
		d.WriteString("SecRequestBodyAccess On\n")
	} else {
		d.WriteString("SecRequestBodyAccess Off\n")
	}
	if k.limit > 0 {
		fmt.Fprintf(&d, "SecArgumentsLimit %d\n", k.limit)
	}
	if k.depth > 0 {
		fmt.Fprintf(&d, "SecRequestBodyJsonDepthLimit %d\n", k.depth)
	}
	if k.bodyLimit > 0 {
		fmt.Fprintf(&d, "SecRequestBodyLimit %d\n", k.bodyLimit)
		if k.reject {
			d.WriteString("SecRequestBodyLimitAction Reject\n")
		} else {
			d.WriteString("SecRequestBodyLimitAction ProcessPartial\n")
		}
	}
	if k.inMem > 0 {
		fmt.Fprintf(&d, "SecRequestBodyInMemoryLimit %d\n", k.inMem)
	}
	if k.ctl != "" {
		fmt.Fprintf(&d, "SecAction \"id:1,phase:1,nolog,pass,ctl:requestBodyProcessor=%s\"\n", k.ctl)
	}
	if k.force {
		d.WriteString("SecAction \"id:2,phase:1,nolog,pass,ctl:forceRequestBodyVariable=On\"\n")
	}
	for _, rv := range ruleVars {
		fmt.Fprintf(&d, "SecRule %s \"@unconditionalMatch\" \"id:%d,phase:2,pass,log\"\n", rv.v, rv.id)
	}
	w, err := coraza.NewWAF(coraza.NewWAFConfig().WithDirectives(d.String()))
	if err != nil {
		return nil, fmt.Errorf("waf %+v: %w", k, err)
	}
	wafs[k] = w
	return w, nil
}

func findAll(c collection.Collection) []pair {
	var o []pair
	for _, m := range c.FindAll() {
		o = append(o, pair{m.Key(), m.Value()})
	}
	return o
}
func sortPairs(l []pair) []pair {
	o := append([]pair(nil), l...)
	sort.Slice(o, func(i, j int) bool {
		if o[i].K != o[j].K {
			return o[i].K < o[j].K
		}
		return o[i].V < o[j].V
	})
	return o
}
func sameMultiset(a, b []pair) bool {
	if len(a) != len(b) {
		return false
	}
	x, y := sortPairs(a), sortPairs(b)
	for i := range x {
		if x[i] != y[i] {
			return false
		}
	}
	return true
}

// subMultiset: every element of a occurs in b (with multiplicity)
func subMultiset(a, b []pair) bool {
	cnt := map[pair]int{}
	for _, p := range b {
		cnt[p]++
	}
	for _, p := range a {
		if cnt[p] == 0 {
			return false
		}
		cnt[p]--
	}
	return true
}
func single(c collection.Collection) string {
	if s, ok := c.(collection.Single); ok {
		return s.Get()
	}
	return ""
}

type txObs struct {
	v     plugintypes.TransactionVariables
	rules map[int][]pair // rule id => MatchedDatas (key, value)
}

func vars(tx types.Transaction) plugintypes.TransactionVariables {
	return tx.(plugintypes.TransactionState).Variables()
}

func matchedByRule(tx types.Transaction) map[int][]pair {
	res := map[int][]pair{}
	for _, mr := range tx.MatchedRules() {
		id := mr.Rule().ID()
		for _, md := range mr.MatchedDatas() {
			res[id] = append(res[id], pair{md.Key(), md.Value()})
		}
	}
	return res
}

// ---------------------------------------------------------------------------------------
// driver
// ---------------------------------------------------------------------------------------

type runner struct {
	cfg      vh.Config
	res      *vh.Result
	terms    []string
	cases    []any
	seen     map[string]bool
	nontriv  int
	oracleN  int
	known    map[string]bool
	knownCnt map[string]int
}

func (rn *runner) fail(key, what string, c any) {
	if key == keyOverLimit || key == keyJSONColl {
		rn.known[key] = true
		rn.knownCnt[key]++
		if rn.knownCnt[key] > 3 { // a few witnesses are enough in the result file
			return
		}
	}
	rn.res.OracleFailures = append(rn.res.OracleFailures, vh.OracleFailure{Key: key, What: what, Case: c})
}
func (rn *runner) emit(term string, c *caseJSON, nontrivial bool) {
	rn.terms = append(rn.terms, wrap(term))
	rn.cases = append(rn.cases, c)
	rn.res.Evaluations++
	rn.res.InputDistribution["kind_"+c.Kind]++
	k := c.Kind + "|" + c.QHex + "|" + c.URIHex + "|" + c.BodyHex + "|" + fmt.Sprint(c.Pairs, c.Limit, c.Ctl, c.Force, c.Access, c.Depth)
	if !rn.seen[k] {
		rn.seen[k] = true
		if nontrivial {
			rn.nontriv++
		}
	}
}

func lowerASCII(s string) string {
	b := []byte(s)
	for i, c := range b {
		if c >= 'A' && c <= 'Z' {
			b[i] = c + 32
		}
	}
	return string(b)
}
func distinctFolded(l []pair) int {
	m := map[string]bool{}
	for _, p := range l {
		m[lowerASCII(p.K)] = true
	}
	return len(m)
}

// checkRules: what "@unconditionalMatch" rules report equals FindAll of the collection
func (rn *runner) checkRules(c *caseJSON, byRule map[int][]pair, id int, name string, direct []pair) {
	rn.oracleN++
	if !sameMultiset(byRule[id], direct) {
		rn.fail("c03-rule-view-"+name, fmt.Sprintf("SecRule %s @unconditionalMatch reports %d matches, FindAll has %d entries or different content", name, len(byRule[id]), len(direct)), c)
	}
}

func (rn *runner) runParseQuery(c *caseJSON) {
	q := unhx(c.QHex)
	sep := byte(c.Sep)
	if sep == 0 {
		sep = '&'
		c.Sep = '&'
	}
	m := urlutil.ParseQuery(q, sep)
	rn.emit(fmt.Sprintf("CP %s %s %s", H(q), vh.N(int64(sep)), gmapTerm(m)), c, strings.ContainsAny(q, "%+=&;"))
}

func (rn *runner) runParseCookies(c *caseJSON) {
	raw := unhx(c.QHex)
	m := cookies.ParseCookies(raw)
	rn.emit(fmt.Sprintf("CK %s %s", H(raw), gmapTerm(m)), c, len(m) > 0)
}

func (rn *runner) runEnc(c *caseJSON) {
	l := pairsUnhex(c.Pairs)
	rn.emit(fmt.Sprintf("CE %s %s %s", kvList(l), H(encQueryCanon(l)), H(encCookieCanon(l))), c, len(l) > 0)
}

func (rn *runner) runURI(c *caseJSON) error {
	uri := unhx(c.URIHex)
	w, err := getWAF(wafKey{limit: c.Limit})
	if err != nil {
		return err
	}
	tx := w.NewTransaction()
	defer tx.Close()
	tx.ProcessURI(uri, "GET", "HTTP/1.1")
	tx.ProcessRequestHeaders()
	_, _ = tx.ProcessRequestBody()
	v := vars(tx)
	byRule := matchedByRule(tx)
	get := findAll(v.ArgsGet())
	getNames := findAll(v.ArgsGetNames())
	args := findAll(v.Args())
	argsNames := findAll(v.ArgsNames())
	size, _ := strconv.Atoi(findAll(v.ArgsCombinedSize())[0].V)
	singles := []string{single(v.RequestURI()), single(v.RequestURIRaw()), single(v.QueryString()),
		single(v.RequestBasename()), single(v.RequestFilename()), single(v.RequestLine())}
	ue := single(v.UrlencodedError())
	uerr := ue != "" && ue != "0"

	// url.ParseRequestURI is an oracle of the model: repeat the call the implementation makes
	u := uri
	if i := strings.Index(u, "#"); i != -1 {
		u = u[:i]
	}
	parse := "None"
	if pu, err := url.ParseRequestURI(u); err == nil {
		parse = fmt.Sprintf("(Some (%s, %s, %s))", H(pu.Path), H(pu.RawQuery), H(pu.String()))
	}
	limit := c.Limit
	if limit == 0 {
		limit = 1000
	}
	c.Obs = map[string]any{"args_get": pairsHex(sortPairs(get)), "urlencoded_error": uerr, "query_string_hex": hx(singles[2])}
	views := "None"
	if len(uri)%4 == 0 {
		views = fmt.Sprintf("(Some (%s, %s, %s))", kvList(getNames), kvList(args), kvList(argsNames))
	}
	rn.emit(fmt.Sprintf("CQ %s %s %s %s %s %s %s %s", H(uri), parse, vh.Nat(limit), kvList(get), views,
		vh.Nat(size), HList(singles), vh.Bool(uerr)), c, len(get) > 0 || uerr)

	// rule view == collection view
	rn.checkRules(c, byRule, 101, "ARGS_GET", get)
	rn.checkRules(c, byRule, 103, "ARGS", args)
	rn.checkRules(c, byRule, 104, "ARGS_NAMES", argsNames)
	rn.checkRules(c, byRule, 109, "ARGS_GET_NAMES", getNames)
	rn.checkRules(c, byRule, 114, "QUERY_STRING", []pair{{"", singles[2]}})
	rn.checkRules(c, byRule, 116, "REQUEST_URI_RAW", []pair{{"", singles[1]}})

	// the property's own oracle: the round trip
	if c.Via == "query" {
		orig := pairsUnhex(c.Orig)
		rn.oracleN++
		switch {
		case uerr:
			// unparseable URI: signalled through URLENCODED_ERROR, nothing claimed
			rn.res.InputDistribution["uri_error_signalled"]++
		case sameMultiset(get, orig):
			if singles[1] != uri {
				rn.fail("c03-uri-raw", "REQUEST_URI_RAW differs from the URI handed in", c)
			}
		case subMultiset(get, orig) && distinctFolded(orig) >= limit:
			rn.res.InputDistribution["over_limit_dropped"]++
			rn.fail(keyOverLimit, fmt.Sprintf("%d of %d arguments visible with SecArgumentsLimit %d, no error variable, no interruption", len(get), len(orig), limit), c)
		default:
			rn.fail("c03-roundtrip-query", "ARGS_GET differs from the list that was encoded into the query string", c)
		}
	}
	return nil
}

func (rn *runner) runHeaders(c *caseJSON) error {
	hs := pairsUnhex(c.Pairs)
	w, err := getWAF(wafKey{})
	if err != nil {
		return err
	}
	tx := w.NewTransaction()
	defer tx.Close()
	tx.ProcessURI("/", "GET", "HTTP/1.1")
	for _, h := range hs {
		tx.AddRequestHeader(h.K, h.V)
	}
	tx.ProcessRequestHeaders()
	_, _ = tx.ProcessRequestBody()
	v := vars(tx)
	byRule := matchedByRule(tx)
	headers := findAll(v.RequestHeaders())
	hnames := findAll(v.RequestHeadersNames())
	cks := findAll(v.RequestCookies())
	cnames := findAll(v.RequestCookiesNames())
	rbp := single(v.RequestBodyProcessor())
	c.Obs = map[string]any{"headers": pairsHex(sortPairs(headers)), "cookies": pairsHex(sortPairs(cks)), "rbp": rbp}
	names := "None"
	if len(hs)%4 == 0 {
		names = fmt.Sprintf("(Some (%s, %s))", kvList(hnames), kvList(cnames))
	}
	rn.emit(fmt.Sprintf("CH %s %s %s %s %s", kvList(hs), kvList(headers), kvList(cks), names, H(rbp)), c, len(headers) > 0)
	rn.checkRules(c, byRule, 105, "REQUEST_COOKIES", cks)
	rn.checkRules(c, byRule, 106, "REQUEST_HEADERS", headers)
	rn.checkRules(c, byRule, 107, "REQUEST_COOKIES_NAMES", cnames)
	rn.checkRules(c, byRule, 108, "REQUEST_HEADERS_NAMES", hnames)
	switch c.Via {
	case "headers":
		rn.oracleN++
		var want []pair
		for _, h := range hs {
			if h.K != "" {
				want = append(want, h)
			}
		}
		if !sameMultiset(headers, want) {
			rn.fail("c03-roundtrip-headers", "REQUEST_HEADERS differs from the header list handed in", c)
		}
		// case-insensitive lookup keeps the original spelling
		for _, h := range want {
			found := false
			for _, m := range v.RequestHeaders().FindString(strings.ToUpper(h.K)) {
				if m.Key() == h.K && m.Value() == h.V {
					found = true
				}
			}
			if !found && isASCII(h.K) {
				rn.fail("c03-header-lookup", "REQUEST_HEADERS:<NAME> does not select the header", c)
			}
		}
	case "cookie":
		rn.oracleN++
		if !sameMultiset(cks, pairsUnhex(c.Orig)) {
			rn.fail("c03-roundtrip-cookie", "REQUEST_COOKIES differs from the list that was encoded into the Cookie header", c)
		}
	}
	return nil
}

func isASCII(s string) bool {
	for i := 0; i < len(s); i++ {
		if s[i] >= 0x80 {
			return false
		}
	}
	return true
}

func (rn *runner) runBody(c *caseJSON) error {
	hs := pairsUnhex(c.Pairs)
	body := unhx(c.BodyHex)
	if c.Tree != nil && c.Canon {
		body = c.Tree.serialise()
		c.BodyHex = hx(body)
	}
	w, err := getWAF(wafKey{access: c.Access, force: c.Force, depth: c.Depth, ctl: c.Ctl})
	if err != nil {
		return err
	}
	tx := w.NewTransaction()
	defer tx.Close()
	tx.ProcessURI("/p", "POST", "HTTP/1.1")
	for _, h := range hs {
		tx.AddRequestHeader(h.K, h.V)
	}
	if it := tx.ProcessRequestHeaders(); it != nil {
		return fmt.Errorf("unexpected interruption in phase 1")
	}
	if it, _, err := tx.WriteRequestBody([]byte(body)); it != nil || err != nil {
		return fmt.Errorf("unexpected interruption/error writing the body: %v %v", it, err)
	}
	if it, err := tx.ProcessRequestBody(); it != nil || err != nil {
		return fmt.Errorf("unexpected interruption/error processing the body: %v %v", it, err)
	}
	v := vars(tx)
	byRule := matchedByRule(tx)
	post := findAll(v.ArgsPost())
	postNames := findAll(v.ArgsPostNames())
	rb := single(v.RequestBody())
	rbl := single(v.RequestBodyLength())
	rbp := single(v.RequestBodyProcessor())
	rerr := single(v.RequestBodyError()) == "1"
	if (single(v.RequestBodyProcessorError()) == "1") != rerr {
		rn.fail("c03-reqbody-error-vars", "REQBODY_ERROR and REQBODY_PROCESSOR_ERROR disagree", c)
	}

	proc := strings.ToLower(rbp)
	depth := c.Depth
	if depth == 0 {
		depth = 1024
	}
	tree := "None"
	cmpArgs := true
	extErr := false
	processed := c.Access && body != ""
	switch {
	case !processed:
	case proc == "json":
		if c.Tree != nil {
			tree = "(Some " + c.Tree.term() + ")"
		} else {
			cmpArgs = false // invalid JSON: best-effort ARGS_POST is not modelled
		}
	case proc == "multipart" || proc == "xml":
		cmpArgs = false
		extErr = rerr
	}
	ctl := "None"
	if c.Ctl != "" {
		ctl = "(Some " + H(c.Ctl) + ")"
	}
	c.Obs = map[string]any{"args_post": pairsHex(sortPairs(post)), "request_body_hex": hx(rb), "rbp": rbp, "reqbody_error": rerr}
	rn.res.InputDistribution["body_proc_"+proc]++
	if rerr {
		rn.res.InputDistribution["body_error"]++
	}
	pn := "None"
	if len(body)%4 == 0 {
		pn = "(Some " + kvList(postNames) + ")"
	}
	rn.emit(fmt.Sprintf("CB %s %s %s %s %s %s %s %s %s %s %s %s %s %s %s %s", vh.Bool(c.Access), vh.Bool(c.Force), vh.Nat(depth), kvList(hs), ctl,
		H(body), tree, vh.Bool(c.Canon && c.Tree != nil), vh.Bool(extErr), vh.Bool(cmpArgs), kvList(post), pn,
		H(rb), H(rbl), H(rbp), vh.Bool(rerr)), c, len(post) > 0 || rerr || rb != "")

	rn.checkRules(c, byRule, 102, "ARGS_POST", post)
	rn.checkRules(c, byRule, 110, "ARGS_POST_NAMES", postNames)
	if rb != "" {
		rn.checkRules(c, byRule, 119, "REQUEST_BODY", []pair{{"", rb}})
	}
	// ARGS = ARGS_GET ++ ARGS_POST ++ ARGS_PATH
	rn.oracleN++
	if !sameMultiset(findAll(v.Args()), append(findAll(v.ArgsGet()), post...)) {
		rn.fail("c03-args-concat", "ARGS is not the union of ARGS_GET and ARGS_POST", c)
	}

	orig := pairsUnhex(c.Orig)
	switch c.Via {
	case "urlencoded":
		rn.oracleN++
		if !sameMultiset(post, orig) {
			rn.fail("c03-roundtrip-urlencoded", "ARGS_POST differs from the list that was encoded into the urlencoded body", c)
		}
		if rb != body {
			rn.fail("c03-request-body", "REQUEST_BODY differs from the body handed in", c)
		}
	case "jsontree":
		// every scalar leaf is visible under its path unless the paths are ambiguous / too deep
		rn.oracleN++
		var leaves []pair
		c.Tree.leaves("json", &leaves)
		if c.Tree.T != "arr" && c.Tree.T != "obj" {
			leaves = []pair{{"json.0", leaves[0].V}}
		}
		var paths []string
		c.Tree.allPaths("json", &paths)
		amb := false
		seen := map[string]bool{}
		for _, p := range paths {
			lp := lowerASCII(p)
			if seen[lp] {
				amb = true
			}
			seen[lp] = true
		}
		switch {
		case rerr:
			rn.res.InputDistribution["json_error_signalled"]++
		case subMultiset(leaves, post):
		case amb:
			rn.res.InputDistribution["json_collision_lost_leaf"]++
			rn.fail(keyJSONColl, "a scalar leaf of the JSON body is not visible in ARGS_POST (flattened paths collide), no error variable", c)
		default:
			rn.fail("c03-roundtrip-json", "a scalar leaf of the JSON body is not visible in ARGS_POST under its path", c)
		}
	}
	return nil
}

func (rn *runner) runMultipart(c *caseJSON) error {
	fields := pairsUnhex(c.Orig)
	var buf bytes.Buffer
	mw := multipart.NewWriter(&buf)
	type part struct {
		file bool
		i    int
	}
	// fields first, then files (order irrelevant for the oracle)
	for _, f := range fields {
		pw, err := mw.CreateFormField(f.K)
		if err != nil {
			return err
		}
		_, _ = pw.Write([]byte(f.V))
	}
	var fnames, ffields []pair
	total := 0
	for _, f := range c.Files {
		name, filename, content := unhx(f[0]), unhx(f[1]), unhx(f[2])
		h := textproto.MIMEHeader{}
		h.Set("Content-Disposition", multipart.FileContentDisposition(name, filename))
		h.Set("Content-Type", "application/octet-stream")
		pw, err := mw.CreatePart(h)
		if err != nil {
			return err
		}
		_, _ = pw.Write([]byte(content))
		fnames = append(fnames, pair{"", filename})
		ffields = append(ffields, pair{"", name})
		total += len(content)
	}
	_ = mw.Close()
	w, err := getWAF(wafKey{access: true})
	if err != nil {
		return err
	}
	tx := w.NewTransaction()
	defer tx.Close()
	tx.ProcessURI("/upload", "POST", "HTTP/1.1")
	tx.AddRequestHeader("Content-Type", mw.FormDataContentType())
	tx.ProcessRequestHeaders()
	if _, _, err := tx.WriteRequestBody(buf.Bytes()); err != nil {
		return err
	}
	if _, err := tx.ProcessRequestBody(); err != nil {
		return err
	}
	v := vars(tx)
	byRule := matchedByRule(tx)
	post := findAll(v.ArgsPost())
	files := findAll(v.Files())
	filesNames := findAll(v.FilesNames())
	rerr := single(v.RequestBodyError()) == "1"
	c.Obs = map[string]any{"args_post": pairsHex(sortPairs(post)), "files": pairsHex(sortPairs(files)), "reqbody_error": rerr}
	rn.res.Evaluations++
	rn.res.InputDistribution["kind_multipart(oracle only)"]++
	rn.oracleN++
	rn.checkRules(c, byRule, 102, "ARGS_POST", post)
	rn.checkRules(c, byRule, 111, "FILES", files)
	rn.checkRules(c, byRule, 120, "FILES_NAMES", filesNames)
	if rerr {
		rn.fail("c03-multipart-error", "a well-formed multipart body raised REQBODY_ERROR", c)
		return nil
	}
	if !sameMultiset(post, fields) {
		rn.fail("c03-roundtrip-multipart-fields", "ARGS_POST differs from the multipart fields", c)
	}
	if !sameMultiset(files, fnames) || !sameMultiset(filesNames, ffields) {
		rn.fail("c03-roundtrip-multipart-files", "FILES / FILES_NAMES differ from the uploaded files", c)
	}
	return nil
}

func xmlEsc(s string) string {
	r := strings.NewReplacer("&", "&amp;", "<", "&lt;", ">", "&gt;", "\"", "&quot;")
	return r.Replace(s)
}

func (rn *runner) runXML(c *caseJSON) error {
	// orig: (attribute value, text content) per element
	els := pairsUnhex(c.Orig)
	var b strings.Builder
	b.WriteString("<root>")
	var attrs, texts []pair
	for i, e := range els {
		fmt.Fprintf(&b, "<e%d a=\"%s\">%s</e%d>", i, xmlEsc(e.K), xmlEsc(e.V), i)
		attrs = append(attrs, pair{"//@*", e.K})
		if strings.TrimSpace(e.V) != "" {
			texts = append(texts, pair{"/*", strings.TrimSpace(e.V)})
		}
	}
	b.WriteString("</root>")
	w, err := getWAF(wafKey{access: true, ctl: "XML"})
	if err != nil {
		return err
	}
	tx := w.NewTransaction()
	defer tx.Close()
	tx.ProcessURI("/xml", "POST", "HTTP/1.1")
	tx.AddRequestHeader("Content-Type", "text/xml")
	tx.ProcessRequestHeaders()
	if _, _, err := tx.WriteRequestBody([]byte(b.String())); err != nil {
		return err
	}
	if _, err := tx.ProcessRequestBody(); err != nil {
		return err
	}
	v := vars(tx)
	got := findAll(v.RequestXML())
	rerr := single(v.RequestBodyError()) == "1"
	c.BodyHex = hx(b.String())
	c.Obs = map[string]any{"xml": pairsHex(sortPairs(got)), "reqbody_error": rerr}
	rn.res.Evaluations++
	rn.res.InputDistribution["kind_xml(oracle only)"]++
	rn.oracleN++
	if rerr {
		rn.fail("c03-xml-error", "a well-formed XML body raised REQBODY_ERROR", c)
		return nil
	}
	if !sameMultiset(got, append(attrs, texts...)) {
		rn.fail("c03-roundtrip-xml", "XML://@* and XML:/* differ from the attribute values / text contents", c)
	}
	return nil
}

func (rn *runner) runCase(c *caseJSON) error {
	switch c.Kind {
	case "parsequery":
		rn.runParseQuery(c)
	case "parsecookies":
		rn.runParseCookies(c)
	case "enc":
		rn.runEnc(c)
	case "uri":
		return rn.runURI(c)
	case "headers":
		return rn.runHeaders(c)
	case "body":
		return rn.runBody(c)
	case "multipart":
		return rn.runMultipart(c)
	case "xml":
		return rn.runXML(c)
	case "mpmodel":
		return rn.runMPModel(c)
	case "chunked":
		return rn.runChunked(c)
	case "mptrunc":
		return rn.runMPTrunc(c)
	default:
		return fmt.Errorf("unknown case kind %q", c.Kind)
	}
	return nil
}

func Run(cfg vh.Config) (*vh.Result, error) {
	res := &vh.Result{InputDistribution: map[string]int{}}
	res.Rule = "lists of 0-8 (name, value) byte pairs (repeated names, case variants, empty names/values, reserved characters, NUL, 0xFF, raw and percent-encoded bytes, invalid escapes) encoded by an independent encoder into a query string (ProcessURI), Cookie header, header set, urlencoded / JSON body under argument limits around n, body access on/off, ctl processors; raw query / cookie strings exhaustively over their metacharacters; a case is non-trivial when at least one variable is populated or an error variable is raised; distinct = distinct (kind, carrier bytes, configuration)"
	rn := &runner{cfg: cfg, res: res, seen: map[string]bool{}, known: map[string]bool{}, knownCnt: map[string]int{}}

	if cfg.Replay != "" {
		b, err := os.ReadFile(cfg.Replay)
		if err != nil {
			return nil, err
		}
		var rp struct {
			Case json.RawMessage `json:"case"`
		}
		doc := b
		if json.Unmarshal(b, &rp) == nil && rp.Case != nil {
			doc = rp.Case
		}
		var c caseJSON
		if err := json.Unmarshal(doc, &c); err != nil {
			return nil, err
		}
		if err := rn.runCase(&c); err != nil {
			return nil, err
		}
	} else {
		docs, names := vh.LoadCorpus(cfg.Corpus)
		for i, d := range docs {
			var c caseJSON
			if err := json.Unmarshal(d, &c); err != nil {
				return nil, fmt.Errorf("corpus %s: %w", names[i], err)
			}
			if err := rn.runCase(&c); err != nil {
				return nil, fmt.Errorf("corpus %s: %w", names[i], err)
			}
		}
		res.InputDistribution["corpus"] = len(docs)
		if err := rn.generate(); err != nil {
			return nil, err
		}
	}
	res.OracleEvaluations = rn.oracleN
	res.DistinctNontrivial = rn.nontriv
	for k := range rn.known {
		res.KnownReproduced = append(res.KnownReproduced, k)
	}
	sort.Strings(res.KnownReproduced)
	for k, n := range rn.knownCnt {
		res.Notes = append(res.Notes, fmt.Sprintf("known finding %s reproduced by %d round-trip cases", k, n))
	}
	sort.Strings(res.Notes)

	// shards of at most ~200 KB of Coq text (elaboration of the hex literals dominates)
	for i, k := 0, 0; i < len(rn.terms); k++ {
		j, sz := i, 0
		for j < len(rn.terms) && (j == i || (sz+len(rn.terms[j]) <= 200000 && j-i < 2000)) {
			sz += len(rn.terms[j])
			j++
		}
		info, err := vh.WriteShard(cfg.OutDir, vh.Shard{
			Name: fmt.Sprintf("C03_%d", k), Imports: "From Verif Require Import Base Decode CorrC03.",
			CaseType: "CorrC03.case", MismatchF: "CorrC03.mismatches", Terms: rn.terms[i:j], Cases: rn.cases[i:j],
		})
		if err != nil {
			return nil, err
		}
		res.Shards = append(res.Shards, info)
		i = j
	}
	for i := 0; i < len(rn.cases) && len(res.Samples) < 8; i += 1 + len(rn.cases)/8 {
		res.Samples = append(res.Samples, rn.cases[i])
	}
	return res, nil
}

var _ = rand.Int
