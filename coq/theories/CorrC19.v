(* CorrC19.v — correspondence checker for C19: evaluates the Audit.v model on the inputs the Go
   harness ran through real WAFs / the real formatter / the real parts functions and compares with
   what was observed. *)
From Verif Require Import Base Audit AuditJson.
Open Scope N_scope.

(* what of the record the harness could observe *)
Inductive obs_level :=
  | OFull      (* plugin writer: id, parts, messages, has-response *)
  | OJson      (* serial writer, JSON file: id, messages, has-response *)
  | ONative.   (* serial writer, native file: id (A line), parts (boundary letters) *)

Inductive case :=
  (* one transaction through a real WAF *)
  | CTx (c : cfg) (rel : list (bytes * bool)) (x : script)
        (lvl : obs_level) (recs : list record) (cbs : list N) (intr det : option N)
  (* types.ParseAuditLogParts / types.ApplyAuditLogParts called directly *)
  | CParse (s : bytes) (res : option bytes)
  | CApply (base m : bytes) (res : option bytes)
  (* nativeFormatter.Format on a Log; pre = "--" ++ random ++ "-" read off the output *)
  | CNative (pre : bytes) (l : alog) (out : bytes)
  (* a file written by the serial writer with the JSON formatter, and its lines as Go splits them *)
  | CFile (file : bytes) (lines : list bytes)
  (* json.Marshal of a Go string, and what json.Unmarshal reads back from it *)
  | CJStr (s out back : bytes)
  (* jsonFormatter.Format on a Log: the record must start with the modelled head and end with the
     modelled messages array *)
  | CJDoc (h : jhead) (ms : list jmsg) (out : bytes).

Fixpoint list_eqb {A} (eqb : A -> A -> bool) (a b : list A) : bool :=
  match a, b with
  | [], [] => true
  | x :: a', y :: b' => eqb x y && list_eqb eqb a' b'
  | _, _ => false
  end.

Definition opt_eqb {A} (eqb : A -> A -> bool) (a b : option A) : bool :=
  match a, b with
  | None, None => true
  | Some x, Some y => eqb x y
  | _, _ => false
  end.

Definition msg_eqb (a b : msg) : bool :=
  N.eqb (m_rule a) (m_rule b) && Bool.eqb (m_data a) (m_data b) && Bool.eqb (m_err a) (m_err b).

Definition record_eqb (lvl : obs_level) (m o : record) : bool :=
  bytes_eqb (rc_id m) (rc_id o)
  && match lvl with
     | OFull => bytes_eqb (rc_parts m) (rc_parts o) && list_eqb msg_eqb (rc_msgs m) (rc_msgs o)
                && Bool.eqb (rc_has_resp m) (rc_has_resp o)
     | OJson => list_eqb msg_eqb (rc_msgs m) (rc_msgs o) && Bool.eqb (rc_has_resp m) (rc_has_resp o)
     | ONative => bytes_eqb (rc_parts m) (rc_parts o)
     end.

(* the relevant-status regexp as the table of its answers on the candidate status strings *)
Fixpoint rel_lookup (tbl : list (bytes * bool)) (s : bytes) : bool :=
  match tbl with
  | [] => false
  | (k, b) :: r => if bytes_eqb k s then b else rel_lookup r s
  end.

Definition ok (cs : case) : bool :=
  match cs with
  | CTx c rel x lvl recs cbs intr det =>
    let o := run_tx (rel_lookup rel) c x in
    list_eqb (record_eqb lvl) (o_records o) recs
    && list_eqb N.eqb (o_cbs o) cbs
    && opt_eqb N.eqb (o_intr o) intr
    && opt_eqb N.eqb (o_det o) det
  | CParse s res => opt_eqb bytes_eqb (parse_parts s) res
  | CApply base m res => opt_eqb bytes_eqb (apply_parts base m) res
  | CNative pre l out =>
    bytes_eqb (format_native pre l) out
    && list_eqb N.eqb (scan_lines pre out) (al_parts l)
  | CFile file lines => list_eqb bytes_eqb (split_lines [] file) lines
  | CJStr s out back =>
    bytes_eqb (js_string s) out
    && match js_unquote out with Some (v, t) => bytes_eqb v back && bytes_eqb t [] | None => false end
    && bytes_eqb (js_sanitize s) back
  | CJDoc h ms out =>
    is_prefix (json_head h) out && is_suffix (json_tail ms) out
    && Nat.leb (length (json_head h) + length (json_tail ms)) (length out)
  end.

Definition mismatches (l : list case) : list nat := mismatches_of ok l.
